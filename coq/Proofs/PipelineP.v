(* Lemmas for property C07, engine C07b: the composed model Model/Pipeline.v on printed copybooks (Spec/Copybook.v).
   Composition of the layer theorems:
     text layer     reference_format on the card layout (here, directly on the model), C12_sentences (sentences_lines)
     clause layer   C12b_clause_dict_printer (clause_dict_printer) per entry
     structure      C07_structure (structure_full), C07_structure_total_without_redefines (structure_no_redefines)
   and the emission of REDEFINES-free forests (heap model = a pure function of the tree). *)
From Coq Require Import NArith List Bool Arith Lia Permutation.
Import ListNotations.
Require Import SR.Base.Res.
Require Import SR.Model.RefFormat SR.Spec.RefFormat SR.Proofs.RefFormatP.
Require SR.Model.Clauses SR.Spec.Clauses SR.Proofs.ClausesP.
Require SR.Model.Structure SR.Proofs.StructureP.
Require Import SR.Model.Pipeline SR.Spec.Copybook.
(* The definitions of this development that occur in theorem statements (Props/) live in Spec/PipelineWf.v (audit item G1).
   The abbreviations keep the qualified names PipelineP.name of other files resolving; they are parsing-only aliases. *)
Require Export SR.Spec.PipelineWf.
Notation docs_of_infos := SR.Spec.PipelineWf.docs_of_infos (only parsing).
Notation erase := SR.Spec.PipelineWf.erase (only parsing).
Notation erase_f := SR.Spec.PipelineWf.erase_f (only parsing).
Notation xpre := SR.Spec.PipelineWf.xpre (only parsing).
Notation xpre_f := SR.Spec.PipelineWf.xpre_f (only parsing).
Notation same_core := SR.Spec.PipelineWf.same_core (only parsing).
Notation same_clauses := SR.Spec.PipelineWf.same_clauses (only parsing).
Notation content := SR.Spec.PipelineWf.content (only parsing).
Notation knames := SR.Spec.PipelineWf.knames (only parsing).
Notation nodup_str := SR.Spec.PipelineWf.nodup_str (only parsing).
Notation shape_ok := SR.Spec.PipelineWf.shape_ok (only parsing).
Notation shape_ok_f := SR.Spec.PipelineWf.shape_ok_f (only parsing).
Notation name_cobol := SR.Spec.PipelineWf.name_cobol (only parsing).
Notation entry_defs := SR.Spec.PipelineWf.entry_defs (only parsing).
Notation copybook_shape_ok := SR.Spec.PipelineWf.copybook_shape_ok (only parsing).
Open Scope N_scope.

(* ================================================================ lines *)
Lemma cut_go_lines_go : forall s cur, cut_go cur s = lines_go cur s.
Proof. induction s as [|c t IH]; intros cur; cbn [cut_go lines_go]; [reflexivity|]. rewrite !IH. reflexivity. Qed.

Lemma cut_lines_eq : forall s, cut_lines s = lines_of_text s.
Proof. intros s. apply cut_go_lines_go. Qed.

Lemma concat_cut_go : forall s cur, concat (cut_go cur s) = rev cur ++ s.
Proof.
  induction s as [|c t IH]; intros cur; cbn [cut_go].
  - destruct cur; cbn [concat]; [reflexivity|]. rewrite !app_nil_r. reflexivity.
  - destruct (c =? 10) eqn:E.
    + cbn [concat]. rewrite IH. cbn [rev app]. rewrite <- app_assoc. reflexivity.
    + rewrite IH. cbn [rev]. rewrite <- app_assoc. reflexivity.
Qed.

Lemma concat_cut_lines : forall s, concat (cut_lines s) = s.
Proof. intros s. apply (concat_cut_go s []). Qed.

Definition no10 (l : line) : bool := forallb (fun c => negb (c =? 10)) l.

Lemma lines_go_no10 : forall x cur rest, no10 x = true -> lines_go cur (x ++ rest) = lines_go (rev x ++ cur) rest.
Proof.
  induction x as [|c x IH]; intros cur rest H; [reflexivity|]. cbn [no10 forallb] in H. apply andb_true_iff in H as [Hc Hx].
  cbn [app lines_go]. destruct (c =? 10); [discriminate|]. rewrite (IH _ _ Hx). cbn [rev]. rewrite <- app_assoc. reflexivity.
Qed.

Lemma no10_rev : forall l, no10 (rev l) = no10 l.
Proof. intros l. unfold no10. apply forallb_rev. Qed.

Lemma no10_app : forall a b, no10 (a ++ b) = no10 a && no10 b.
Proof. intros a b. unfold no10. apply forallb_app. Qed.

(* ================================================================ the card layout is read back line by line *)
Lemma seq_ok_no10 : forall s, seq_ok s = true -> no10 s = true.
Proof. intros s H. unfold seq_ok in H. apply andb_true_iff in H as [_ H]. exact H. Qed.

Lemma layout_cons : forall seqs l r, layout_lines_ok seqs (l :: r) = true ->
  seq_ok (hd blank6 seqs) = true /\ code_line_ok l = true
  /\ directive_word (strip (hd blank6 seqs ++ 32 :: l)) = false
  /\ directive_word (strip l) = false /\ layout_lines_ok (tl seqs) r = true.
Proof.
  intros seqs l r H. cbn [layout_lines_ok] in H. apply andb_true_iff in H as [H HR].
  apply andb_true_iff in H as [H Hd2]. apply andb_true_iff in H as [H Hd]. apply andb_true_iff in H as [Hs Hl].
  apply negb_true_iff in Hd. apply negb_true_iff in Hd2. repeat split; assumption.
Qed.

Lemma lines_of_cards : forall s cur seqs, no10 cur = true -> layout_lines_ok seqs (cut_go cur s) = true ->
  lines_go [] (concat (cards_of seqs (cut_go cur s))) = cards_of seqs (cut_go cur s).
Proof.
  induction s as [|c t IH]; intros cur seqs Hc HL; cbn [cut_go] in *.
  - destruct cur as [|x cur]; [reflexivity|].
    cbn [cards_of concat]. rewrite app_nil_r.
    apply layout_cons in HL as (HL & _).
    assert (N1 : no10 (hd blank6 seqs ++ 32 :: rev (x :: cur)) = true).
    { rewrite no10_app. rewrite (seq_ok_no10 _ HL). cbn [no10 forallb]. change (forallb (fun c => negb (c =? 10)) (rev (x :: cur))) with (no10 (rev (x :: cur))).
      rewrite no10_rev, Hc. reflexivity. }
    rewrite <- (app_nil_r (hd blank6 seqs ++ 32 :: rev (x :: cur))) at 1.
    rewrite (lines_go_no10 _ [] [] N1). cbn [lines_go]. rewrite app_nil_r, rev_involutive.
    destruct (rev (hd blank6 seqs ++ 32 :: rev (x :: cur))) eqn:E; [|reflexivity].
    apply (f_equal (@length N)) in E. rewrite rev_length, app_length in E. cbn [length] in E. lia.
  - destruct (c =? 10) eqn:E10.
    + apply N.eqb_eq in E10. subst c.
      cbn [cards_of concat]. apply layout_cons in HL as (HL & _ & _ & _ & HR).
      assert (N1 : no10 (hd blank6 seqs ++ 32 :: rev cur) = true).
      { rewrite no10_app. rewrite (seq_ok_no10 _ HL). cbn [no10 forallb]. change (forallb (fun c => negb (c =? 10)) (rev cur)) with (no10 (rev cur)).
        rewrite no10_rev, Hc. reflexivity. }
      cbn [rev].
      replace ((hd blank6 seqs ++ 32 :: rev cur ++ [10]) ++ concat (cards_of (tl seqs) (cut_go [] t)))
        with ((hd blank6 seqs ++ 32 :: rev cur) ++ 10 :: concat (cards_of (tl seqs) (cut_go [] t))).
      2:{ rewrite <- !app_assoc. cbn [app]. rewrite <- app_assoc. reflexivity. }
      rewrite (lines_go_no10 _ [] _ N1). cbn [lines_go]. cbn [N.eqb Pos.eqb]. rewrite app_nil_r.
      rewrite (IH [] (tl seqs) eq_refl HR). f_equal.
      change (10 :: rev (hd blank6 seqs ++ 32 :: rev cur)) with ([10] ++ rev (hd blank6 seqs ++ 32 :: rev cur)).
      rewrite rev_app_distr, rev_involutive. cbn [rev app]. rewrite <- app_assoc. reflexivity.
    + apply IH; [|exact HL]. cbn [no10 forallb]. rewrite E10. exact Hc.
Qed.

Lemma lines_of_print_cards : forall seqs code, layout_lines_ok seqs (cut_lines code) = true ->
  lines_of_text (print_cards seqs code) = cards_of seqs (cut_lines code).
Proof. intros seqs code H. unfold lines_of_text, print_cards, cut_lines. apply lines_of_cards; [reflexivity|exact H]. Qed.

(* ================================================================ reference_format on the card layout *)
Lemma rstrip_nonblank : forall l, forallb is_ws l = false -> rstrip l <> [].
Proof.
  intros l H E. unfold rstrip in E. apply (f_equal (@rev N)) in E. rewrite rev_involutive in E. cbn [rev] in E.
  apply lstrip_nil_ws in E. rewrite forallb_rev in E. congruence.
Qed.

Lemma forallb_ws_app_false : forall a b, forallb is_ws b = false -> forallb is_ws (a ++ b) = false.
Proof. intros a b H. rewrite forallb_app, H. apply andb_false_r. Qed.

Lemma card_facts : forall sq l, seq_ok sq = true -> code_line_ok l = true ->
  directive_word (strip (sq ++ 32 :: l)) = false ->
  cards ((sq ++ 32 :: l) :: nil) = [(32, l)].
Proof.
  intros sq l Hs Hl Hd. unfold seq_ok in Hs. apply andb_true_iff in Hs as [Hlen _]. apply Nat.eqb_eq in Hlen.
  unfold code_line_ok in Hl. apply andb_true_iff in Hl as [Hl Hcopy]. apply andb_true_iff in Hl as [Hlen2 Hnb].
  apply Nat.leb_le in Hlen2. apply negb_true_iff in Hnb.
  rewrite cards_eq. cbn [filter].
  assert (NE : f_non_empty (sq ++ 32 :: l) = true).
  { unfold f_non_empty. pose proof (rstrip_nonblank (sq ++ 32 :: l)) as R.
    assert (B : forallb is_ws (sq ++ 32 :: l) = false) by (apply forallb_ws_app_false; cbn [forallb]; rewrite Hnb; apply andb_false_r).
    specialize (R B). destruct (rstrip (sq ++ 32 :: l)); [congruence|reflexivity]. }
  rewrite NE. cbn [filter]. unfold f_non_directive. rewrite directive_word_eq, Hd. cbn [negb filter].
  assert (LG : f_long (sq ++ 32 :: l) = true).
  { unfold f_long. apply Nat.leb_le. rewrite app_length. cbn [length]. lia. }
  rewrite LG. cbn [map filter].
  assert (TC : to_card (sq ++ 32 :: l) = (32, l)).
  { destruct sq as [|a1 [|a2 [|a3 [|a4 [|a5 [|a6 [|a7 sq]]]]]]]; try discriminate Hlen.
    unfold to_card, indicator, area. cbn [app nth skipn]. f_equal. apply firstn_all2. exact Hlen2. }
  rewrite TC. reflexivity.
Qed.

Lemma cards_cons_one : forall c r, cards (c :: r) = cards [c] ++ cards r.
Proof.
  intros c r. rewrite !cards_eq. cbn [filter].
  destruct (f_non_empty c); cbn [filter]; [|reflexivity].
  destruct (f_non_directive c); cbn [filter]; [|reflexivity].
  destruct (f_long c); cbn [filter map]; [|reflexivity].
  destruct (f_non_comment (to_card c)); reflexivity.
Qed.

Lemma cards_of_layout : forall ls seqs, layout_lines_ok seqs ls = true ->
  cards (cards_of seqs ls) = map (fun l => (32, l)) ls.
Proof.
  induction ls as [|l r IH]; intros seqs H; [reflexivity|].
  apply layout_cons in H as (Hs & Hl & Hd & _ & HR).
  cbn [cards_of]. rewrite cards_cons_one.
  etransitivity; [apply f_equal2; [exact (card_facts _ _ Hs Hl Hd)|apply (IH _ HR)]|reflexivity].
Qed.

Lemma replace_cards_nil : forall cs, replace_cards [] cs = cs.
Proof. intros cs. unfold replace_cards. rewrite <- (map_id cs) at 2. apply map_ext. intros [i t]. reflexivity. Qed.

Lemma join_plain : forall r cur, forallb (fun l => negb (starts_copy l)) (cur :: r) = true ->
  join cur (map (fun l => (32, l)) r) = Ok (cur :: r).
Proof.
  induction r as [|l r IH]; intros cur H; [reflexivity|].
  cbn [map]. rewrite join_eq. cbn [N.eqb Pos.eqb]. cbn [forallb] in H. apply andb_true_iff in H as [Hc H].
  apply negb_true_iff in Hc. rewrite Hc. rewrite (IH l H). reflexivity.
Qed.

Lemma layout_no_copy : forall ls seqs, layout_lines_ok seqs ls = true -> forallb (fun l => negb (starts_copy l)) ls = true.
Proof.
  induction ls as [|l r IH]; intros seqs H; [reflexivity|].
  apply layout_cons in H as (_ & Hl & _ & _ & HR).
  unfold code_line_ok in Hl. apply andb_true_iff in Hl as [_ Hc].
  cbn [forallb]. rewrite Hc. apply (IH _ HR).
Qed.

Lemma reference_format_cards : forall ls seqs, ls <> [] -> layout_lines_ok seqs ls = true ->
  reference_format (cards_of seqs ls) [] = Ok ls.
Proof.
  intros ls seqs NE H. rewrite rf_eq. rewrite replace_cards_nil, (cards_of_layout ls seqs H).
  destruct ls as [|l r]; [congruence|]. cbn [map join_all]. apply join_plain. apply (layout_no_copy _ _ H).
Qed.

Lemma cut_go_nonempty : forall s cur, s <> [] -> cut_go cur s <> [].
Proof.
  induction s as [|c t IH]; intros cur NE; [congruence|]. cbn [cut_go].
  destruct (c =? 10); [discriminate|]. destruct t as [|c2 t2]; [cbn [cut_go]; discriminate|]. apply IH. discriminate.
Qed.

(* ================================================================ text to sentences *)
Theorem sentences_of_printed : forall es tail seqs,
  forallb ce_wf es = true -> forallb is_ws tail = true -> layout_ok seqs (code_text es tail) = true ->
  sentences_of_text (print_copybook es tail seqs) = Ok (spec_sentences (map ce_print es)).
Proof.
  intros es tail seqs Hwf Ht HL. unfold layout_ok in HL. apply andb_true_iff in HL as [Hnb HL].
  unfold sentences_of_text, print_copybook. rewrite (lines_of_print_cards _ _ HL).
  assert (NE : cut_lines (code_text es tail) <> []).
  { apply cut_go_nonempty. intros E. rewrite E in Hnb. discriminate. }
  rewrite (reference_format_cards _ _ NE HL). f_equal.
  apply (sentences_lines _ (map ce_print es) tail).
  - rewrite forallb_forall in *. intros x Hx. apply in_map_iff in Hx as (e & <- & He). apply (Hwf e He).
  - exact Ht.
  - rewrite concat_cut_lines. unfold code_text. rewrite map_map. reflexivity.
Qed.

(* ================================================================ sentences to DDE fields *)
Import SR.Spec.Clauses.

Lemma get_expected : forall k cs sps,
  SR.Model.Clauses.get k (SR.Proofs.ClausesP.gmap (expected cs sps)) = lookup (SR.Model.Clauses.key_code k) (expected cs sps).
Proof. intros k cs sps. apply SR.Proofs.ClausesP.get_gmap. apply SR.Proofs.ClausesP.sorted_codes. Qed.

Lemma is_some_has : forall k d, is_some (lookup k d) = has k d.
Proof. intros k d. unfold is_some, has. destruct (lookup k d); reflexivity. Qed.

Lemma info_of_expected : forall e parsed,
  info_of [ce_d1 e; ce_d2 e] (ce_body e) (SR.Proofs.ClausesP.record_of (expected (ce_cs e) (ce_sps e)) parsed) = spec_info e.
Proof.
  intros e parsed. unfold info_of, spec_info, spec_entry, ce_dict, SR.Proofs.ClausesP.record_of.
  cbn [SR.Model.Clauses.cr_dict lvl_of]. rewrite !get_expected. cbn [SR.Model.Clauses.key_code]. rewrite !is_some_has. reflexivity.
Qed.

Lemma clause_dict_entry : forall e, printable (ce_cs e) (ce_sps e) = true -> pic_accepted e = true ->
  exists parsed, SR.Model.Clauses.clause_dict (ce_body e)
                 = Some (Ok (SR.Proofs.ClausesP.record_of (expected (ce_cs e) (ce_sps e)) parsed)).
Proof.
  intros e P A. unfold ce_body. rewrite (SR.Proofs.ClausesP.clause_dict_printer _ _ P).
  unfold SR.Proofs.ClausesP.result_for. unfold pic_accepted, ce_dict in A.
  destruct (lookup 7 (expected (ce_cs e) (ce_sps e))) as [p|]; [|eexists; reflexivity].
  destruct (SR.Model.Picture.gen_normalize p) as [[es|x]|]; try discriminate. eexists. reflexivity.
Qed.

Theorem infos_of_printed : forall es, forallb ce_ok es = true ->
  infos (spec_sentences (map ce_print es)) = (map spec_info es, SDone).
Proof.
  induction es as [|e es IH]; intros H; [reflexivity|].
  cbn [forallb] in H. apply andb_true_iff in H as [He H]. unfold ce_ok in He.
  apply andb_true_iff in He as [He _]. apply andb_true_iff in He as [P A].
  cbn [map spec_sentences]. unfold spec_sentences. cbn [map infos].
  cbn [ce_print e_d1 e_d2 e_body].
  destruct (clause_dict_entry e P A) as [parsed E]. rewrite E.
  fold (spec_sentences (map ce_print es)). rewrite (IH H). rewrite info_of_expected. reflexivity.
Qed.

Lemma ce_ok_wf : forall es, forallb ce_ok es = true -> forallb ce_wf es = true.
Proof.
  intros es H. rewrite forallb_forall in *. intros e He. specialize (H e He). unfold ce_ok in H.
  apply andb_true_iff in H as [_ H]. exact H.
Qed.

(* text layer and clause layer composed: the DDE fields read from the text of a printed copybook are the
   specification's, entry by entry, in order *)
Theorem entries_of_printed : forall es tail seqs, copybook_ok es tail seqs = true ->
  entries_of_text (print_copybook es tail seqs) = ROk (map spec_entry es).
Proof.
  intros es tail seqs H. unfold copybook_ok in H. apply andb_true_iff in H as [H HL]. apply andb_true_iff in H as [Hes Ht].
  unfold entries_of_text. rewrite (sentences_of_printed es tail seqs (ce_ok_wf es Hes) Ht HL).
  rewrite (infos_of_printed es Hes). rewrite map_map. reflexivity.
Qed.

(* ================================================================ Layer B on the recovered entries *)

Theorem schemas_of_printed : forall es tail seqs, copybook_ok es tail seqs = true ->
  schemas_of_text (print_copybook es tail seqs) = to_outcome (docs_of_infos (map spec_info es)).
Proof.
  intros es tail seqs H. unfold copybook_ok in H. apply andb_true_iff in H as [H HL]. apply andb_true_iff in H as [Hes Ht].
  unfold schemas_of_text. rewrite (sentences_of_printed es tail seqs (ce_ok_wf es Hes) Ht HL).
  f_equal. unfold docs_of_sentences, forest_of. rewrite (infos_of_printed es Hes). unfold docs_of_infos.
  destruct (SR.Model.Structure.structure (map i_entry (map spec_info es))) as [f|e]; reflexivity.
Qed.

(* ================================================================ emission: the heap model on REDEFINES-free trees *)
Local Notation dict := SR.Model.Pipeline.dict.
Local Notation str := SR.Model.Pipeline.str.

Definition rv (f : nat) (h : list dict) (kv : str * val) : option (str * jdoc) :=
  match snd kv with
  | VStr x => Some (fst kv, JStr x)
  | VInt n => Some (fst kv, JInt n)
  | VObj i => option_map (fun v => (fst kv, v)) (reify f h i)
  | VArr ids => option_map (fun l => (fst kv, JArr l)) (map_opt (reify f h) ids)
  end.

Lemma reify_S : forall f h id,
  reify (S f) h id = match nth_error h id with
                     | None => None
                     | Some d => option_map JObj (map_opt (rv f h) d)
                     end.
Proof. reflexivity. Qed.

Lemma map_opt_app : forall (X Y : Type) (g : X -> option Y) a b x y,
  map_opt g a = Some x -> map_opt g b = Some y -> map_opt g (a ++ b) = Some (x ++ y).
Proof.
  intros X Y g. induction a as [|c a IH]; intros b x y Ha Hb; cbn [map_opt app] in *.
  - injection Ha as <-. exact Hb.
  - destruct (g c) as [c'|]; [|discriminate]. destruct (map_opt g a) as [a'|] eqn:E; [|discriminate].
    injection Ha as <-. rewrite (IH b a' y eq_refl Hb). reflexivity.
Qed.

Lemma map_opt_strs : forall f h l, map_opt (rv f h) (strs l) = Some (jstrs l).
Proof.
  intros f h. induction l as [|[k v] l IH]; [reflexivity|]. cbn [strs jstrs map map_opt rv snd fst] in *.
  unfold strs, jstrs in IH. rewrite IH. reflexivity.
Qed.

Lemma map_opt_F2 : forall (X Y : Type) (g : X -> option Y) (P : X -> Y -> Prop) a b,
  (forall x y, P x y -> g x = Some y) -> Forall2 P a b -> map_opt g a = Some b.
Proof.
  intros X Y g P a b HP F. induction F as [|x y a b Hxy F IH]; [reflexivity|]. cbn [map_opt].
  rewrite (HP x y Hxy), IH. reflexivity.
Qed.

Definition agree (b e : nat) (H H' : list dict) : Prop := forall i, (b <= i < e)%nat -> nth_error H' i = nth_error H i.

(* the dict id stands for the document doc, and that depends only on the cells b .. e-1 *)
Definition window (H : list dict) (id : nat) (doc : jdoc) (b e : nat) : Prop :=
  (b <= id < e)%nat /\ (e <= length H)%nat /\
  forall H' fuel, agree b e H H' -> (e - b <= fuel)%nat -> reify fuel H' id = Some doc.

Lemma window_mono : forall H H1 id doc b e, window H id doc b e -> agree b e H H1 -> (length H <= length H1)%nat ->
  window H1 id doc b e.
Proof.
  intros H H1 id doc b e (Hb & He & W) A Len. split; [exact Hb|]. split; [lia|].
  intros H' fuel A' F. apply W; [|exact F]. intros i Hi. rewrite (A' i Hi). apply (A i Hi).
Qed.

(* a properties dict under construction against the documents of the children built so far *)
Definition PR (H : list dict) (L : nat) (pc : dict) (pa : list (str * jdoc)) : Prop :=
  Forall2 (fun kv kd => fst kv = fst kd /\
             exists cid b e, snd kv = VObj cid /\ (L <= b)%nat /\ window H cid (snd kd) b e) pc pa.

Lemma PR_mono : forall H H1 L pc pa, PR H L pc pa ->
  (forall i, (L <= i < length H)%nat -> nth_error H1 i = nth_error H i) -> (length H <= length H1)%nat -> PR H1 L pc pa.
Proof.
  intros H H1 L pc pa P A Len. unfold PR in *. induction P as [|kv kd pc pa (K & cid & b & e & V & Lb & W) P IH]; constructor; [|exact IH].
  split; [exact K|]. exists cid, b, e. split; [exact V|]. split; [exact Lb|].
  apply (window_mono H); [exact W| |exact Len]. intros i Hi. apply A. destruct W as (_ & He & _). lia.
Qed.

Lemma PR_dset : forall H L pc pa k cid doc b e, PR H L pc pa -> window H cid doc b e -> (L <= b)%nat ->
  PR H L (dset k (VObj cid) pc) (jset k doc pa).
Proof.
  intros H L pc pa k cid doc b e P W Lb. unfold PR in *.
  induction P as [|[k1 v1] [k2 d2] pc pa (K & R) P IH]; cbn [dset jset].
  - constructor; [|constructor]. split; [reflexivity|]. exists cid, b, e. cbn [snd]. repeat split; try assumption; apply W.
  - cbn [fst] in K. subst k2. destruct (SR.Model.Structure.str_eqb k1 k).
    + constructor; [|exact P]. split; [reflexivity|]. exists cid, b, e. cbn [snd]. repeat split; try assumption; apply W.
    + constructor; [|exact IH]. split; [reflexivity|exact R].
Qed.

Lemma PR_reify : forall H L pc pa H' f, PR H L pc pa -> agree L (length H) H H' ->
  (length H - L <= f)%nat -> map_opt (rv f H') pc = Some pa.
Proof.
  intros H L pc pa H' f P A F. unfold PR in P.
  apply (map_opt_F2 _ _ _ _ pc pa) with (2 := P).
  intros [k v] [k2 d] (K & cid & b & e & V & Lb & (Hb & He & W)). cbn [fst snd] in *. subst k2 v.
  unfold rv. cbn [snd fst]. rewrite (W H' f); [reflexivity| |lia].
  intros i Hi. apply A. lia.
Qed.

Lemma nth_app_at : forall (T : Type) (H l : list T) k, nth_error (H ++ l) (length H + k) = nth_error l k.
Proof. intros T H l k. rewrite nth_error_app2 by lia. f_equal. lia. Qed.

Lemma nth_app_lt : forall (T : Type) (H l : list T) i, (i < length H)%nat -> nth_error (H ++ l) i = nth_error H i.
Proof. intros. apply nth_error_app1. assumption. Qed.

Lemma list_upd_length : forall (T : Type) i (f : T -> T) l, length (SR.Model.Structure.list_upd i f l) = length l.
Proof. intros T i f l. revert i. induction l as [|x l IH]; intros [|i]; cbn [SR.Model.Structure.list_upd length]; try reflexivity. rewrite IH. reflexivity. Qed.

Lemma nth_list_upd_same : forall (T : Type) i (f : T -> T) l, nth_error (SR.Model.Structure.list_upd i f l) i = option_map f (nth_error l i).
Proof. intros T i f l. revert i. induction l as [|x l IH]; intros [|i]; cbn [SR.Model.Structure.list_upd nth_error option_map]; try reflexivity. apply IH. Qed.

Lemma nth_list_upd_other : forall (T : Type) i j (f : T -> T) l, i <> j -> nth_error (SR.Model.Structure.list_upd i f l) j = nth_error l j.
Proof.
  intros T i j f l. revert i j. induction l as [|x l IH]; intros [|i] [|j] N; cbn [SR.Model.Structure.list_upd nth_error]; try reflexivity; try congruence.
  apply IH. congruence.
Qed.

(* ---- the statement, by mutual induction over trees and forests ---- *)
Definition Pt (t : xtree) : Prop := noredef t = true -> forall s,
  match doc_of t with
  | ROk doc => exists id s', build t s = ROk (id, s') /\ agree 0 (length (heap s)) (heap s) (heap s')
                 /\ window (heap s') id doc (length (heap s)) (length (heap s'))
  | RErr e => build t s = RErr e
  | RUn w => build t s = RUn w
  end.

Definition Qgrp (ks : xforest) : Prop := noredef_f ks = true -> forall un pid L s pc pa,
  (pid < L)%nat -> (L <= length (heap s))%nat -> nth_error (heap s) pid = Some pc -> PR (heap s) L pc pa ->
  match docs_kids ks pa with
  | ROk props => exists s' pc', build_grp un ks pid s = ROk s' /\ nth_error (heap s') pid = Some pc' /\ PR (heap s') L pc' props
       /\ (forall i, (i < length (heap s))%nat -> i <> pid -> nth_error (heap s') i = nth_error (heap s) i)
       /\ (length (heap s) <= length (heap s'))%nat
  | RErr e => build_grp un ks pid s = RErr e
  | RUn w => build_grp un ks pid s = RUn w
  end.

Definition Qocc (ks : xforest) : Prop := noredef_f ks = true -> forall un L s acc pa,
  (L <= length (heap s))%nat -> PR (heap s) L acc pa ->
  match docs_kids ks pa with
  | ROk props => exists acc' s', build_occ un ks acc s = ROk (acc', s') /\ PR (heap s') L acc' props
       /\ agree 0 (length (heap s)) (heap s) (heap s') /\ (length (heap s) <= length (heap s'))%nat
  | RErr e => build_occ un ks acc s = RErr e
  | RUn w => build_occ un ks acc s = RUn w
  end.

Lemma noredef_wrap : forall un k s, noredef k = true -> child_wrap un k (build k) s = build k s.
Proof.
  intros un [d b x kids] s H. cbn [noredef] in H. apply andb_true_iff in H as [H _]. apply andb_true_iff in H as [Hb Hr].
  unfold child_wrap, xeff_redef. destruct b; [discriminate|]. destruct (SR.Model.Structure.eredef (SR.Model.Structure.de d)); [discriminate|]. reflexivity.
Qed.

Lemma Qgrp_step : forall k r, Pt k -> Qgrp r -> Qgrp (XCons k r).
Proof.
  intros k r IHk IHr NR un pid L s pc pa Hpid HL Hnth HPR.
  cbn [noredef_f] in NR. apply andb_true_iff in NR as [NRk NRr].
  cbn [docs_kids build_grp]. rewrite (noredef_wrap un k s NRk).
  specialize (IHk NRk s). destruct (doc_of k) as [dk|e|w]; cbn [rbind]; [|rewrite IHk; reflexivity|rewrite IHk; reflexivity].
  destruct IHk as (cid & s1 & B & A & W). rewrite B. cbn [rbind fst snd].
  set (s2 := hupd pid (dset (SR.Model.Structure.du (xdde k)) (VObj cid)) s1).
  assert (Len1 : (length (heap s) <= length (heap s1))%nat) by (destruct W as (W1 & W2 & _); lia).
  assert (Len2 : length (heap s2) = length (heap s1)) by (unfold s2, hupd; cbn [heap]; apply list_upd_length).
  assert (N1 : nth_error (heap s1) pid = Some pc) by (rewrite (A pid); [exact Hnth|lia]).
  specialize (IHr NRr un pid L s2 (dset (SR.Model.Structure.du (xdde k)) (VObj cid) pc) (jset (SR.Model.Structure.du (xdde k)) dk pa) Hpid).
  assert (G1 : (L <= length (heap s2))%nat) by lia.
  assert (G2 : nth_error (heap s2) pid = Some (dset (SR.Model.Structure.du (xdde k)) (VObj cid) pc)).
  { unfold s2, hupd. cbn [heap]. rewrite nth_list_upd_same, N1. reflexivity. }
  assert (G3 : PR (heap s2) L (dset (SR.Model.Structure.du (xdde k)) (VObj cid) pc) (jset (SR.Model.Structure.du (xdde k)) dk pa)).
  { apply (PR_mono (heap s1)); [| |lia].
    - apply (PR_dset _ _ _ _ _ _ _ (length (heap s)) (length (heap s1))); [|exact W|exact HL].
      apply (PR_mono (heap s)); [exact HPR| |exact Len1]. intros i Hi. apply A. lia.
    - intros i Hi. unfold s2, hupd. cbn [heap]. apply nth_list_upd_other. lia. }
  specialize (IHr G1 G2 G3).
  destruct (docs_kids r (jset (SR.Model.Structure.du (xdde k)) dk pa)) as [props|e|w]; [|exact IHr|exact IHr].
  destruct IHr as (s' & pc' & B' & N' & P' & U' & Len').
  exists s', pc'. split; [exact B'|]. split; [exact N'|]. split; [exact P'|]. split; [|lia].
  intros i Hi Ne. rewrite (U' i) by (try lia; exact Ne). unfold s2, hupd. cbn [heap]. rewrite nth_list_upd_other by congruence. apply A. lia.
Qed.

Lemma Qocc_step : forall k r, Pt k -> Qocc r -> Qocc (XCons k r).
Proof.
  intros k r IHk IHr NR un L s acc pa HL HPR.
  cbn [noredef_f] in NR. apply andb_true_iff in NR as [NRk NRr].
  cbn [docs_kids build_occ]. rewrite (noredef_wrap un k s NRk).
  specialize (IHk NRk s). destruct (doc_of k) as [dk|e|w]; cbn [rbind]; [|rewrite IHk; reflexivity|rewrite IHk; reflexivity].
  destruct IHk as (cid & s1 & B & A & W). rewrite B. cbn [rbind fst snd].
  assert (Len1 : (length (heap s) <= length (heap s1))%nat) by (destruct W as (W1 & W2 & _); lia).
  specialize (IHr NRr un L s1 (dset (SR.Model.Structure.du (xdde k)) (VObj cid) acc) (jset (SR.Model.Structure.du (xdde k)) dk pa)).
  assert (G1 : (L <= length (heap s1))%nat) by lia.
  assert (G3 : PR (heap s1) L (dset (SR.Model.Structure.du (xdde k)) (VObj cid) acc) (jset (SR.Model.Structure.du (xdde k)) dk pa)).
  { apply (PR_dset _ _ _ _ _ _ _ (length (heap s)) (length (heap s1))); [|exact W|exact HL].
    apply (PR_mono (heap s)); [exact HPR| |exact Len1]. intros i Hi. apply A. lia. }
  specialize (IHr G1 G3).
  destruct (docs_kids r (jset (SR.Model.Structure.du (xdde k)) dk pa)) as [props|e|w]; [|exact IHr|exact IHr].
  destruct IHr as (acc' & s' & B' & P' & A' & Len').
  exists acc', s'. split; [exact B'|]. split; [exact P'|]. split; [|lia].
  intros i Hi. rewrite (A' i) by lia. apply A. lia.
Qed.

Lemma Q_nil : Qgrp XNil /\ Qocc XNil.
Proof.
  split.
  - intros _ un pid L s pc pa Hpid HL Hnth HPR. cbn [docs_kids build_grp]. exists s, pc. repeat split; try assumption; try lia.
  - intros _ un L s acc pa HL HPR. cbn [docs_kids build_occ]. exists acc, s. repeat split; try assumption; try lia.
Qed.

Lemma max_items_ok : forall x s,
  match max_items_doc x with
  | ROk mx => exists v ext, max_items x s = ROk ((fst mx, v), {| heap := heap s ++ ext; names := names s |}) /\ (length ext <= 1)%nat
              /\ SR.Model.Structure.str_eqb (fst mx) k_anchor = false
              /\ forall H' f, agree (length (heap s)) (length (heap s) + length ext) (heap s ++ ext) H' -> rv (S f) H' (fst mx, v) = Some mx
  | RErr e => max_items x s = RErr e
  | RUn w => max_items x s = RUn w
  end.
Proof.
  intros x s. unfold max_items_doc, max_items. destruct (i_dep x) as [dep|].
  - unfold alloc. eexists. exists [[(k_ref, VStr (35%N :: dep))]]. split; [reflexivity|]. split; [cbn [length]; lia|]. split; [reflexivity|].
    intros H' f A. unfold rv. cbn [snd fst]. rewrite reify_S. rewrite (A (length (heap s))) by (cbn [length]; lia).
    rewrite <- (Nat.add_0_r (length (heap s))) at 1. rewrite nth_app_at. reflexivity.
  - destruct (i_occ x) as [ds|]; [|reflexivity].
    eexists. exists []. rewrite app_nil_r. split; [destruct s; reflexivity|]. split; [cbn [length]; lia|]. split; [reflexivity|].
    intros H' f A. reflexivity.
Qed.

Lemma dset_items_1 : forall (a b c : str) w kv v,
  dset k_items v (strs [(k_title, a); (k_cobol, b); (k_type, c)] ++ [(k_items, w); kv])
  = strs [(k_title, a); (k_cobol, b); (k_type, c)] ++ [(k_items, v); kv].
Proof. reflexivity. Qed.

Lemma dset_anchor_1 : forall (a b c : str) w (k : str) kv v, SR.Model.Structure.str_eqb k k_anchor = false ->
  dset k_anchor v (strs [(k_title, a); (k_cobol, b); (k_type, c)] ++ [(k_items, w); (k, kv)])
  = strs [(k_title, a); (k_cobol, b); (k_type, c)] ++ [(k_items, w); (k, kv); (k_anchor, v)].
Proof. intros. cbn [strs map app dset fst snd]. cbn. rewrite H. reflexivity. Qed.

Lemma dset_items_2 : forall (a b c : str) w kv kv2 v,
  dset k_items v (strs [(k_title, a); (k_cobol, b); (k_type, c)] ++ [(k_items, w); kv; kv2])
  = strs [(k_title, a); (k_cobol, b); (k_type, c)] ++ [(k_items, v); kv; kv2].
Proof. reflexivity. Qed.

Lemma list_upd_app : forall (T : Type) (H0 l : list T) k f,
  SR.Model.Structure.list_upd (length H0 + k) f (H0 ++ l) = H0 ++ SR.Model.Structure.list_upd k f l.
Proof. intros T H0 l k f. induction H0 as [|x H0 IH]; [reflexivity|]. cbn [length Nat.add app SR.Model.Structure.list_upd]. rewrite IH. reflexivity. Qed.

Lemma list_upd_app0 : forall (T : Type) (H0 l : list T) x f,
  SR.Model.Structure.list_upd (length H0) f (H0 ++ x :: l) = H0 ++ f x :: l.
Proof. intros. rewrite <- (Nat.add_0_r (length H0)). rewrite list_upd_app. reflexivity. Qed.

Lemma nth_app_at0 : forall (T : Type) (H0 l : list T) x, nth_error (H0 ++ x :: l) (length H0) = Some x.
Proof. intros. rewrite <- (Nat.add_0_r (length H0)). rewrite nth_app_at. reflexivity. Qed.

Lemma nth_app_k : forall (T : Type) (H0 l : list T) k i, i = (length H0 + k)%nat -> nth_error (H0 ++ l) i = nth_error l k.
Proof. intros. subst i. apply nth_app_at. Qed.

Ltac app_len := rewrite ?app_length; cbn [length].

Lemma P_array_pic : forall d x kids, SR.Model.Structure.eocc (SR.Model.Structure.de d) = true ->
  SR.Model.Structure.epic (SR.Model.Structure.de d) = true -> Pt (XNode d false x kids).
Proof.
  intros d x kids Eocc Epic NR s. cbn [doc_of build]. rewrite Eocc, Epic.
  unfold alloc. cbv beta iota.
  match goal with |- context [max_items x ?st] => pose proof (max_items_ok x st) as MI end.
  destruct (max_items_doc x) as [mx|e|w]; cbn [rbind]. 2:{ rewrite MI. reflexivity. } 2:{ rewrite MI; reflexivity. }
  destruct MI as (v & ext & ME & Lext & _ & RV). rewrite ME. cbn [rbind fst snd heap names] in *.
  destruct (json_type_kvs x) as [jt|e|w]; cbn [rbind]; [|reflexivity|reflexivity].
  unfold alloc, reg, hupd. cbn [heap names fst snd].
  eexists. eexists. split; [reflexivity|]. cbn [heap].
  match goal with |- context [SR.Model.Structure.list_upd (length ?h) _ _] => set (H0 := h) in * end.
  assert (L0 : length H0 = (length (heap s) + 1 + length ext)%nat) by (unfold H0; app_len; lia).
  repeat rewrite (app_length _ [_]). cbn [length].
  set (A0 := strs [(k_title, SR.Model.Structure.dde_name (SR.Model.Structure.de d)); (k_cobol, SR.Model.Structure.cobol_of d); (k_type, v_array)]
             ++ [(k_items, VObj (length (heap s))); (fst mx, v)]).
  set (B0 := strs ([(k_anchor, SR.Model.Structure.du d); (k_cobol, SR.Model.Structure.cobol_of d)] ++ jt)).
  rewrite <- !app_assoc. cbn [app].
  rewrite !list_upd_app0. unfold A0. rewrite dset_items_1.
  set (A1 := strs [(k_title, SR.Model.Structure.dde_name (SR.Model.Structure.de d)); (k_cobol, SR.Model.Structure.cobol_of d); (k_type, v_array)]
             ++ [(k_items, VObj (length H0 + 1 + 1 + 1)%nat); (fst mx, v)]).
  split.
  - intros i Hi. unfold H0. rewrite !nth_app_lt; [reflexivity|lia| |]; app_len; lia.
  - split; [app_len; lia|]. split; [lia|].
    intros H' fuel A F. rewrite app_length in F. cbn [length] in F.
    destruct fuel as [|[|[|[|f]]]]; try lia.
    assert (N0 : nth_error H' (length H0) = Some A1).
    { rewrite (A (length H0)) by (app_len; lia). apply nth_app_at0. }
    assert (N1 : nth_error H' (length H0 + 1) = Some B0).
    { rewrite (A (length H0 + 1)%nat) by (app_len; lia). rewrite (nth_app_k _ H0 _ 1) by lia. reflexivity. }
    assert (N2 : nth_error H' (length H0 + 1 + 1) = Some [(SR.Model.Structure.du d, VObj (length H0 + 1)%nat)]).
    { rewrite (A (length H0 + 1 + 1)%nat) by (app_len; lia). rewrite (nth_app_k _ H0 _ 2) by lia. reflexivity. }
    assert (N3 : nth_error H' (length H0 + 1 + 1 + 1) = Some [(k_type, VStr v_object); (k_properties, VObj (length H0 + 1 + 1)%nat)]).
    { rewrite (A (length H0 + 1 + 1 + 1)%nat) by (app_len; lia). rewrite (nth_app_k _ H0 _ 3) by lia. reflexivity. }
    assert (RVx : rv (S (S (S f))) H' (fst mx, v) = Some mx).
    { apply RV. intros i Hi. rewrite ?app_length in Hi. cbn [length] in Hi. rewrite (A i) by (app_len; lia). apply nth_app_lt. lia. }
    rewrite reify_S, N0. unfold A1. erewrite map_opt_app; [reflexivity|apply map_opt_strs|].
    cbn [map_opt]. rewrite RVx. unfold rv at 1. cbn [snd fst].
    rewrite reify_S, N3. cbn [map_opt rv snd fst option_map].
    rewrite reify_S, N2. cbn [map_opt rv snd fst option_map].
    rewrite reify_S, N1. unfold B0. rewrite map_opt_strs. reflexivity.
Qed.

Lemma P_group : forall d x k r, Qgrp (XCons k r) -> SR.Model.Structure.eocc (SR.Model.Structure.de d) = false ->
  Pt (XNode d false x (XCons k r)).
Proof.
  intros d x k r IHg Eocc NR s. cbn [doc_of build]. rewrite Eocc.
  assert (NRk : noredef_f (XCons k r) = true).
  { cbn [noredef] in NR. apply andb_true_iff in NR as [_ NR]. exact NR. }
  unfold alloc, reg. cbv beta iota. cbn [heap names].
  match goal with |- context [build_grp ?un ?ks ?pid ?st] =>
    specialize (IHg NRk un pid (length (heap s) + 2)%nat st [] []) end.
  cbn [heap] in IHg.
  assert (G0 : (length (heap s) < length (heap s) + 2)%nat) by lia.
  assert (G1 : (length (heap s) + 2 <= length ((heap s ++ [[]]) ++
      [strs [(k_title, SR.Model.Structure.dde_name (SR.Model.Structure.de d)); (k_anchor, SR.Model.Structure.du d);
             (k_cobol, SR.Model.Structure.cobol_of d); (k_type, v_object)] ++ [(k_properties, VObj (length (heap s)))]]))%nat)
    by (app_len; lia).
  assert (G2 : nth_error ((heap s ++ [[]]) ++
      [strs [(k_title, SR.Model.Structure.dde_name (SR.Model.Structure.de d)); (k_anchor, SR.Model.Structure.du d);
             (k_cobol, SR.Model.Structure.cobol_of d); (k_type, v_object)] ++ [(k_properties, VObj (length (heap s)))]]) (length (heap s)) = Some []).
  { rewrite <- app_assoc. apply nth_app_at0. }
  specialize (IHg G0 G1 G2 (Forall2_nil _)).
  destruct (docs_kids (XCons k r) []) as [props|e|w]; cbn [rbind]; [|rewrite IHg; reflexivity|rewrite IHg; reflexivity].
  destruct IHg as (s' & pc' & B' & N' & P' & U' & Len'). rewrite B'. cbn [rbind].
  eexists. eexists. split; [reflexivity|]. cbn [heap].
  rewrite !app_length in Len'. cbn [length] in Len'. rewrite !app_length in U'. cbn [length] in U'.
  split.
    - intros i Hi. rewrite U' by lia. rewrite <- app_assoc. apply nth_app_lt. lia.
  - split; [app_len; lia|]. split; [lia|].
    intros H' fuel A F. destruct fuel as [|[|f]]; try lia. rewrite ?app_length. cbn [length].
    assert (N1 : nth_error H' (length (heap s) + 1)%nat =
                 Some (strs [(k_title, SR.Model.Structure.dde_name (SR.Model.Structure.de d)); (k_anchor, SR.Model.Structure.du d);
                             (k_cobol, SR.Model.Structure.cobol_of d); (k_type, v_object)] ++ [(k_properties, VObj (length (heap s)))])).
    { rewrite (A (length (heap s) + 1)%nat) by (app_len; lia). rewrite U' by (app_len; lia).
      rewrite <- app_assoc. rewrite (nth_app_k _ _ _ 1) by lia. reflexivity. }
    assert (N0 : nth_error H' (length (heap s)) = Some pc').
    { rewrite (A (length (heap s))) by lia. exact N'. }
    rewrite reify_S, N1. erewrite map_opt_app; [reflexivity|apply map_opt_strs|].
    cbn [map_opt rv snd fst]. rewrite reify_S, N0.
    rewrite (PR_reify _ _ _ _ H' f P'); [reflexivity| |lia].
    intros i Hi. apply A. lia.
Qed.

Lemma P_array_group : forall d x kids, Qocc kids -> SR.Model.Structure.eocc (SR.Model.Structure.de d) = true ->
  SR.Model.Structure.epic (SR.Model.Structure.de d) = false -> Pt (XNode d false x kids).
Proof.
  intros d x kids IHo Eocc Epic NR s. cbn [doc_of build]. rewrite Eocc, Epic.
  assert (NRk : noredef_f kids = true).
  { cbn [noredef] in NR. apply andb_true_iff in NR as [_ NR]. exact NR. }
  unfold alloc, reg. cbv beta iota. cbn [heap names].
  match goal with |- context [max_items x ?st] => pose proof (max_items_ok x st) as MI end.
  destruct (max_items_doc x) as [mx|e|w]; cbn [rbind]. 2:{ rewrite MI. reflexivity. } 2:{ rewrite MI; reflexivity. }
  destruct MI as (v & ext & ME & Lext & KA & RV). rewrite ME. cbn [rbind fst snd heap names] in *.
  unfold hupd. cbn [heap names].
  match goal with |- context [build_occ _ _ _ {| heap := SR.Model.Structure.list_upd (length ?h) _ _; names := _ |}] => set (H0 := h) in * end.
  assert (L0 : length H0 = (length (heap s) + 1 + length ext)%nat) by (unfold H0; app_len; lia).
    rewrite list_upd_app0. destruct mx as [mk mv]. cbn [fst] in *. rewrite (dset_anchor_1 _ _ _ _ _ _ _ KA).
  set (A1 := strs [(k_title, SR.Model.Structure.dde_name (SR.Model.Structure.de d)); (k_cobol, SR.Model.Structure.cobol_of d); (k_type, v_array)]
             ++ [(k_items, VObj (length (heap s))); (mk, v); (k_anchor, VStr (SR.Model.Structure.du d))]).
  match goal with |- context [build_occ ?un ?ks ?acc ?st] =>
    specialize (IHo NRk un (length H0 + 1)%nat st [] []) end.
  cbn [heap] in IHo.
  assert (G1 : (length H0 + 1 <= length (H0 ++ [A1]))%nat) by (app_len; lia).
  specialize (IHo G1 (Forall2_nil _)).
  destruct (docs_kids kids []) as [props|e|w]; cbn [rbind]; [|rewrite IHo; reflexivity|rewrite IHo; reflexivity].
  destruct IHo as (acc' & s5 & B' & P' & A' & Len'). rewrite B'. cbn [rbind fst snd].
  eexists. eexists. split; [reflexivity|]. cbn [heap].
  rewrite app_length in Len', A'. cbn [length] in Len', A'.
  assert (N5 : nth_error (heap s5) (length H0) = Some A1).
  { rewrite A' by lia. apply nth_app_at0. }
  match goal with |- _ /\ window ?h _ _ _ _ => set (Hf := h) in * end.
  assert (LF : length Hf = (length (heap s5) + 2)%nat) by (unfold Hf; rewrite list_upd_length; app_len; lia).
  assert (NF0 : nth_error Hf (length H0) = Some (dset k_items (VObj (length (heap s5 ++ [acc']))) A1)).
  { unfold Hf. rewrite nth_list_upd_same. rewrite <- app_assoc. rewrite nth_app_lt by lia. rewrite N5. reflexivity. }
  assert (NFo : forall i, i <> length H0 -> (i < length (heap s5))%nat -> nth_error Hf i = nth_error (heap s5) i).
  { intros i Ne Hi. unfold Hf. rewrite nth_list_upd_other by congruence. rewrite <- app_assoc. apply nth_app_lt. exact Hi. }
  assert (NFp : nth_error Hf (length (heap s5)) = Some acc').
  { unfold Hf. rewrite nth_list_upd_other by lia. rewrite <- app_assoc. apply nth_app_at0. }
  assert (NFc : nth_error Hf (length (heap s5) + 1) = Some [(k_type, VStr v_object); (k_properties, VObj (length (heap s5)))]).
  { unfold Hf. rewrite nth_list_upd_other by lia. rewrite <- app_assoc. rewrite (nth_app_k _ _ _ 1) by lia. reflexivity. }
  split.
  - intros i Hi. rewrite NFo by lia. rewrite A' by lia. rewrite nth_app_lt by lia. unfold H0. rewrite !nth_app_lt; [reflexivity|lia|app_len; lia].
  - split; [lia|]. split; [lia|].
    intros H' fuel A F. rewrite LF in F. destruct fuel as [|[|[|f]]]; try lia.
    rewrite LF in A.
    assert (RVx : rv (S (S f)) H' (mk, v) = Some (mk, mv)).
    { apply RV. intros i Hi. rewrite ?app_length in Hi. cbn [length] in Hi. rewrite (A i) by lia. rewrite NFo by lia. rewrite A' by lia.
      apply nth_app_lt. lia. }
    rewrite reify_S, (A (length H0)) by lia. rewrite NF0. unfold A1. rewrite dset_items_2.
    erewrite map_opt_app; [reflexivity|apply map_opt_strs|].
    cbn [map_opt]. rewrite RVx. unfold rv at 1. cbn [snd fst].
    rewrite app_length. cbn [length].
    rewrite reify_S, (A (length (heap s5) + 1)%nat) by lia. rewrite NFc. cbn [map_opt rv snd fst option_map].
    rewrite reify_S, (A (length (heap s5))) by lia. rewrite NFp.
    rewrite (PR_reify _ _ _ _ H' f P'); [reflexivity| |lia].
    intros i Hi. rewrite (A i) by lia. apply NFo; lia.
Qed.

Lemma P_elem : forall d x, SR.Model.Structure.eocc (SR.Model.Structure.de d) = false -> Pt (XNode d false x XNil).
Proof.
  intros d x Eocc NR s. cbn [doc_of build]. rewrite Eocc.
  destruct (json_type_kvs x) as [jt|e|w]; cbn [rbind]; [|reflexivity|reflexivity].
  destruct (calcsize_text (SR.Model.Structure.cobol_of d)) as [n|e|w]; cbn [rbind]; [|reflexivity|reflexivity].
  unfold alloc. eexists. eexists. split; [reflexivity|]. cbn [reg heap].
  split.
  - intros i Hi. apply nth_app_lt. lia.
  - split; [app_len; lia|]. split; [lia|].
    intros H' fuel A F. rewrite app_length in F. cbn [length] in F. destruct fuel as [|f]; [lia|].
    rewrite reify_S. rewrite (A (length (heap s))) by (app_len; lia).
    rewrite nth_app_at0. cbn [option_map].
    erewrite map_opt_app; [reflexivity|apply map_opt_strs|reflexivity].
Qed.

Theorem build_noredef_all : (forall t, Pt t) /\ (forall ks, Qgrp ks /\ Qocc ks).
Proof.
  apply xtree_xforest_ind.
  - intros d b x kids [IHg IHo] NR.
    assert (Eb : b = false).
    { cbn [noredef] in NR. apply andb_true_iff in NR as [NR _]. apply andb_true_iff in NR as [NR _]. destruct b; [discriminate|reflexivity]. }
    subst b. revert NR.
    destruct (SR.Model.Structure.eocc (SR.Model.Structure.de d)) eqn:Eocc.
    + destruct (SR.Model.Structure.epic (SR.Model.Structure.de d)) eqn:Epic.
      * apply (P_array_pic d x kids Eocc Epic).
      * apply (P_array_group d x kids IHo Eocc Epic).
    + destruct kids as [|k r].
      * apply (P_elem d x Eocc).
      * apply (P_group d x k r IHg Eocc).
  - apply Q_nil.
  - intros k IHk r [IHg IHo]. split; [apply Qgrp_step|apply Qocc_step]; assumption.
Qed.

Theorem build_tree_noredef : forall t, noredef t = true -> build_tree t = doc_of t.
Proof.
  intros t NR. destruct build_noredef_all as [P _]. specialize (P t NR {| heap := []; names := [] |}).
  unfold build_tree. destruct (doc_of t) as [doc|e|w]; [|rewrite P; reflexivity|rewrite P; reflexivity].
  destruct P as (id & s' & B & _ & (_ & _ & W)). rewrite B. cbn [rbind fst snd].
  rewrite (W (heap s') (S (length (heap s')))); [reflexivity| |cbn [heap length]; lia].
  intros i _. reflexivity.
Qed.

Theorem build_all_noredef : forall f, forallb noredef f = true -> build_all f = docs_of f.
Proof.
  induction f as [|t f IH]; intros H; [reflexivity|]. cbn [forallb] in H. apply andb_true_iff in H as [Ht Hf].
  cbn [build_all docs_of]. rewrite (build_tree_noredef t Ht), (IH Hf). reflexivity.
Qed.

Import SR.Model.Structure.

(* ================================================================ the forest of structure() and its clause values *)
Section TreeInd.
  Variable P : tree -> Prop.
  Hypothesis HN : forall d b kids, Forall P kids -> P (TNode d b kids).
  Fixpoint tree_ind2 (t : tree) : P t :=
    match t with
    | TNode d b kids =>
        HN d b kids ((fix go (ks : list tree) : Forall P ks :=
                        match ks with
                        | [] => Forall_nil P
                        | k :: r => Forall_cons k (tree_ind2 k) (go r)
                        end) kids)
    end.
End TreeInd.

Lemma optstr_eqb_refl : forall o, optstr_eqb o o = true.
Proof. intros [s|]; [apply StructureP.str_eqb_refl|reflexivity]. Qed.

Lemma entry_eqb_refl : forall e, entry_eqb e e = true.
Proof.
  intros e. unfold entry_eqb. rewrite !optstr_eqb_refl, StructureP.str_eqb_refl, !Bool.eqb_reflx.
  unfold lvl_eqb. rewrite !N.eqb_refl. reflexivity.
Qed.

Lemma app_inj_len : forall (T : Type) (a c b d : list T), length a = length c -> a ++ b = c ++ d -> a = c /\ b = d.
Proof.
  intros T. induction a as [|x a IH]; intros [|y c] b d L E; cbn [length] in L; try discriminate.
  - split; [reflexivity|exact E].
  - cbn [app] in E. injection E as -> E. destruct (IH c b d (eq_add_S _ _ L) E) as [-> ->]. split; reflexivity.
Qed.

Lemma annot_ok : forall t xs1 rest, map i_entry xs1 = map de (preorder t) ->
  exists xt, annot t (xs1 ++ rest) = Some (xt, rest) /\ erase xt = t /\ xpre xt = xs1.
Proof.
  induction t as [d b kids IH] using tree_ind2. intros xs1 rest E.
  rewrite StructureP.preorder_node in E. cbn [map] in E. destruct xs1 as [|x xs1]; [discriminate|].
  cbn [map] in E. injection E as Ex E. cbn [app annot]. rewrite <- Ex, entry_eqb_refl.
  assert (G : forall xsk rest, map i_entry xsk = map de (preorder_f kids) ->
              exists xk, annot_list annot kids (xsk ++ rest) = Some (xk, rest) /\ erase_f xk = kids /\ xpre_f xk = xsk).
  { clear E Ex x xs1 rest. induction IH as [|k ks Hk _ IHks]; intros xsk rest E.
    - cbn [preorder_f flat_map map] in E. destruct xsk; [|discriminate]. exists XNil. repeat split.
    - rewrite StructureP.preorder_f_cons, map_app in E.
      assert (Sp : xsk = firstn (length (preorder k)) xsk ++ skipn (length (preorder k)) xsk) by (symmetry; apply firstn_skipn).
      rewrite Sp, map_app in E.
      assert (L1 : length (map i_entry (firstn (length (preorder k)) xsk)) = length (map de (preorder k))).
      { rewrite !map_length. apply (f_equal (@length _)) in E. rewrite !app_length, !map_length in E.
        rewrite firstn_length. rewrite skipn_length in E. rewrite firstn_length in E. lia. }
      destruct (app_inj_len _ _ _ _ _ L1 E) as [E1 E2].
      destruct (Hk _ (skipn (length (preorder k)) xsk ++ rest) E1) as (xk & A1 & R1 & Q1).
      destruct (IHks _ rest E2) as (xr & A2 & R2 & Q2).
      exists (XCons xk xr). rewrite Sp at 1. rewrite <- app_assoc. cbn [annot_list]. rewrite A1. fold (annot_list annot). rewrite A2.
      split; [reflexivity|]. split; [cbn [erase_f]; rewrite R1, R2; reflexivity|]. cbn [xpre_f]. rewrite Q1, Q2. symmetry. exact Sp. }
  destruct (G xs1 rest E) as (xk & A & R & Q). rewrite A. eexists. split; [reflexivity|]. cbn [erase xpre]. rewrite R, Q. split; reflexivity.
Qed.

Lemma annot_forest_ok : forall f xs, map i_entry xs = map de (preorder_f f) ->
  exists xf, annot_forest f xs = Some xf /\ map erase xf = f /\ concat (map xpre xf) = xs.
Proof.
  induction f as [|t f IH]; intros xs E.
  - cbn [preorder_f flat_map map] in E. destruct xs; [|discriminate]. exists []. repeat split.
  - rewrite StructureP.preorder_f_cons, map_app in E.
    assert (Sp : xs = firstn (length (preorder t)) xs ++ skipn (length (preorder t)) xs) by (symmetry; apply firstn_skipn).
    rewrite Sp, map_app in E.
    assert (L1 : length (map i_entry (firstn (length (preorder t)) xs)) = length (map de (preorder t))).
    { rewrite !map_length. apply (f_equal (@length _)) in E. rewrite !app_length, !map_length in E.
      rewrite firstn_length. rewrite skipn_length in E. rewrite firstn_length in E. lia. }
    destruct (app_inj_len _ _ _ _ _ L1 E) as [E1 E2].
    destruct (annot_ok t _ (skipn (length (preorder t)) xs) E1) as (xt & A1 & R1 & Q1).
    destruct (IH _ E2) as (xr & A2 & R2 & Q2).
    exists (xt :: xr). rewrite Sp at 1. cbn [annot_forest]. rewrite A1, A2. split; [reflexivity|].
    split; [cbn [map]; rewrite R1, R2; reflexivity|]. cbn [map concat]. rewrite Q1, Q2. symmetry. exact Sp.
Qed.

(* the entries that become nodes, on both sides *)
Definition entry_skipped (e : entry) : bool := existsb (lvl_eqb (elv e)) SR.Gen.StructureParams.skipped_levels.

Lemma map_de_filter_keep : forall ds, map de (filter keep ds) = filter (fun e => negb (entry_skipped e)) (map de ds).
Proof.
  induction ds as [|d ds IH]; [reflexivity|]. cbn [filter map]. unfold keep at 1, skipped, dlv. fold (entry_skipped (de d)).
  destruct (negb (entry_skipped (de d))); cbn [map]; rewrite IH; reflexivity.
Qed.

Lemma map_entry_filter : forall xs, map i_entry (filter (fun y => negb (info_skipped y)) xs)
  = filter (fun e => negb (entry_skipped e)) (map i_entry xs).
Proof.
  induction xs as [|x xs IH]; [reflexivity|]. cbn [filter map]. unfold info_skipped at 1. fold (entry_skipped (i_entry x)).
  destruct (negb (entry_skipped (i_entry x))); cbn [map]; rewrite IH; reflexivity.
Qed.

Lemma kept_match : forall xs, map de (StructureP.kept_of (map i_entry xs)) = map i_entry (kept_infos xs).
Proof.
  intros xs. unfold StructureP.kept_of, kept_infos.
  pose proof (StructureP.mk_ddes_de (map i_entry xs) 0%N) as D.
  destruct (mk_ddes 0 (map i_entry xs)) as [|d r] eqn:E.
  - destruct xs as [|x xs]; [reflexivity|]. cbn [map] in D. discriminate.
  - destruct xs as [|x xs]; [cbn [map] in D; discriminate|]. cbn [map] in D. injection D as D1 D2.
    cbn [map]. rewrite D1. f_equal. rewrite map_de_filter_keep, D2, map_entry_filter. reflexivity.
Qed.

(* ================================================================ no REDEFINES clause: no mark anywhere in the forest *)
Fixpoint clean_nr (t : tree) : bool :=
  match t with
  | TNode d b kids => negb b && negb (has_some (eredef (de d))) && forallb clean_nr kids
  end.

Lemma noredef_erase : (forall t, noredef t = clean_nr (erase t)) /\ (forall ks, noredef_f ks = forallb clean_nr (erase_f ks)).
Proof.
  apply xtree_xforest_ind.
  - intros d b x kids IH. cbn [noredef erase clean_nr]. rewrite IH. reflexivity.
  - reflexivity.
  - intros k IHk r IHr. cbn [noredef_f erase_f forallb]. rewrite IHk, IHr. reflexivity.
Qed.

Definition dde_nr (d : dde) : Prop := eredef (de d) = None.
Definition frame_clean (f : frame) : Prop := dde_nr (fd f) /\ forallb clean_nr (fkids f) = true.

Lemma close_clean : forall f, frame_clean f -> clean_nr (close f) = true.
Proof. intros f [Hd Hk]. unfold close. cbn [clean_nr]. unfold dde_nr in Hd. rewrite Hd, Hk. reflexivity. Qed.

Lemma attach_clean : forall t f, clean_nr t = true -> frame_clean f -> frame_clean (attach t f).
Proof. intros t f Ht [Hd Hk]. split; [exact Hd|]. unfold attach. cbn [fkids]. rewrite forallb_app, Hk. cbn [forallb]. rewrite Ht. reflexivity. Qed.

Lemma pop_clean : forall x rest cur, frame_clean cur -> Forall frame_clean rest ->
  match pop x cur rest with
  | inl (b, r') => frame_clean b /\ Forall frame_clean r'
  | inr t => clean_nr t = true
  end.
Proof.
  intros x rest. induction rest as [|p rest IH]; intros cur Hc Hr; cbn [pop].
  - destruct (pop_test x (dlv (fd cur))); [apply close_clean; exact Hc|split; assumption].
  - destruct (pop_test x (dlv (fd cur))); [|split; assumption].
    inversion Hr as [|? ? Hp Hrest]; subst. apply IH; [|exact Hrest]. apply attach_clean; [apply close_clean; exact Hc|exact Hp].
Qed.

Definition state_clean (s : state) : Prop :=
  forallb clean_nr (roots s) = true /\ frame_clean (cur s) /\ Forall frame_clean (rest s).

Lemma step_clean : forall s d s', dde_nr d -> state_clean s -> step s d = Ok s' -> state_clean s'.
Proof.
  intros s d s' Hd (Hroots & Hcur & Hrest) H. unfold step in H.
  destruct (skipped d); [injection H as <-; exact (conj Hroots (conj Hcur Hrest))|].
  pose proof (pop_clean (dlv d) (rest s) (cur s) Hcur Hrest) as PC.
  destruct (pop (dlv d) (cur s) (rest s)) as [[b r']|t].
  - unfold dde_nr in Hd. rewrite Hd in H. injection H as <-. destruct PC as [Hb Hr']. split; [exact Hroots|]. split.
    + split; [exact Hd|reflexivity].
    + constructor; assumption.
  - injection H as <-. split; [cbn [roots]; rewrite forallb_app, Hroots; cbn [forallb]; rewrite PC; reflexivity|]. split.
    + split; [exact Hd|reflexivity].
    + constructor.
Qed.

Lemma run_clean : forall l s s', Forall dde_nr l -> state_clean s -> run s l = Ok s' -> state_clean s'.
Proof.
  induction l as [|d l IH]; intros s s' Hl Hs H; cbn [run] in H.
  - injection H as <-. exact Hs.
  - inversion Hl as [|? ? Hd Hl']; subst. destruct (step s d) as [s1|e] eqn:E; [|discriminate].
    apply (IH s1 s' Hl' (step_clean s d s1 Hd Hs E) H).
Qed.

Lemma collapse_clean : forall rest cur, frame_clean cur -> Forall frame_clean rest -> clean_nr (collapse cur rest) = true.
Proof.
  induction rest as [|p rest IH]; intros cur Hc Hr; cbn [collapse]; [apply close_clean; exact Hc|].
  inversion Hr as [|? ? Hp Hrest]; subst. apply IH; [|exact Hrest]. apply attach_clean; [apply close_clean; exact Hc|exact Hp].
Qed.

Lemma structure_clean : forall l f, Forall (fun e => eredef e = None) l -> structure l = Ok f -> forallb clean_nr f = true.
Proof.
  intros l f Hl H. unfold structure in H.
  assert (Hd : Forall dde_nr (mk_ddes 0 l)).
  { apply Forall_forall. intros d Hin. rewrite Forall_forall in Hl. apply Hl. rewrite <- (StructureP.mk_ddes_de l 0%N). apply in_map. exact Hin. }
  destruct (mk_ddes 0 l) as [|d ds]; [discriminate|]. cbn [structure_ddes] in H.
  inversion Hd as [|? ? Hd0 Hds]; subst.
  destruct (run {| roots := []; cur := open d; rest := [] |} ds) as [s'|e] eqn:E; [|discriminate]. injection H as <-.
  assert (I0 : state_clean {| roots := []; cur := open d; rest := [] |}).
  { split; [reflexivity|]. split; [split; [exact Hd0|reflexivity]|constructor]. }
  destruct (run_clean ds _ s' Hds I0 E) as (Hr & Hc & Hrest).
  unfold finish. rewrite forallb_app, Hr. cbn [forallb]. rewrite (collapse_clean _ _ Hc Hrest). reflexivity.
Qed.

(* ================================================================ end to end *)
Import SR.Spec.Clauses.

Lemma structure_preorder : forall l f, structure l = Ok f -> preorder_f f = StructureP.kept_of l.
Proof.
  intros l f H. unfold structure in H. unfold StructureP.kept_of. destruct (mk_ddes 0 l) as [|d r]; [discriminate|].
  apply (StructureP.structure_ddes_shape d r f H).
Qed.

Lemma no_redefines_entries : forall es, no_redefines es = true -> Forall (fun e => eredef e = None) (map spec_entry es).
Proof.
  intros es H. apply Forall_forall. intros e He. apply in_map_iff in He as (c & <- & Hc).
  unfold no_redefines in H. rewrite forallb_forall in H. specialize (H c Hc). unfold spec_entry. cbn [eredef].
  unfold has in H. destruct (lookup 0 (ce_dict c)); [discriminate|reflexivity].
Qed.

Lemma map_entry_spec_info : forall es, map i_entry (map spec_info es) = map spec_entry es.
Proof. intros es. rewrite map_map. reflexivity. Qed.

Lemma copybook_nonempty : forall es tail seqs, copybook_ok es tail seqs = true -> es <> [].
Proof.
  intros es tail seqs H E. subst es. unfold copybook_ok in H. apply andb_true_iff in H as [H HL]. apply andb_true_iff in H as [_ Ht].
  unfold layout_ok in HL. apply andb_true_iff in HL as [HL _]. unfold code_text in HL. cbn [map concat app] in HL. rewrite Ht in HL. discriminate.
Qed.

Theorem end_to_end_noredef : forall es tail seqs,
  copybook_ok es tail seqs = true -> no_redefines es = true ->
  exists f xf,
    structure (map spec_entry es) = Ok f
    /\ annot_forest f (kept_infos (map spec_info es)) = Some xf
    /\ map erase xf = f
    /\ concat (map xpre xf) = kept_infos (map spec_info es)
    /\ schemas_of_text (print_copybook es tail seqs) = to_outcome (docs_of xf).
Proof.
  intros es tail seqs OK NR.
  pose proof (no_redefines_entries es NR) as NRe.
  assert (NE : map spec_entry es <> []).
  { pose proof (copybook_nonempty es tail seqs OK) as N. destruct es; [congruence|discriminate]. }
  destruct (StructureP.structure_no_redefines _ NE NRe) as [f Hf].
  assert (E : map i_entry (kept_infos (map spec_info es)) = map de (preorder_f f)).
  { rewrite (structure_preorder _ _ Hf). rewrite <- map_entry_spec_info. symmetry. apply kept_match. }
  destruct (annot_forest_ok f _ E) as (xf & A & R & Q).
  exists f, xf. split; [exact Hf|]. split; [exact A|]. split; [exact R|]. split; [exact Q|].
  rewrite (schemas_of_printed es tail seqs OK). f_equal. unfold docs_of_infos. rewrite map_entry_spec_info, Hf, A.
  apply build_all_noredef. pose proof (structure_clean _ _ NRe Hf) as C. rewrite <- R in C.
  rewrite forallb_forall in *. intros t Ht. destruct noredef_erase as [NE1 _]. rewrite NE1. apply C. apply in_map. exact Ht.
Qed.

(* ================================================================ layout and respelling *)

Lemma same_core_info : forall es es', Forall2 same_core es es' -> map spec_info es = map spec_info es'.
Proof.
  intros es es' F. induction F as [|e e' es es' (E1 & E2 & E3 & E4) F IH]; [reflexivity|]. cbn [map]. rewrite IH. f_equal.
  unfold spec_info, spec_entry, ce_dict, ce_body. rewrite E1, E2, E3, E4. reflexivity.
Qed.

Theorem relayout : forall es tail seqs es' tail' seqs',
  Forall2 same_core es es' -> copybook_ok es tail seqs = true -> copybook_ok es' tail' seqs' = true ->
  schemas_of_text (print_copybook es tail seqs) = schemas_of_text (print_copybook es' tail' seqs').
Proof.
  intros es tail seqs es' tail' seqs' F OK OK'.
  rewrite (schemas_of_printed _ _ _ OK), (schemas_of_printed _ _ _ OK'), (same_core_info _ _ F). reflexivity.
Qed.

Lemma lookup_verbatim : forall k d d', normal d = normal d' -> (forall v, norm_value k v = v) -> lookup k d = lookup k d'.
Proof.
  intros k d d' E V. pose proof (SR.Proofs.ClausesP.lookup_normal k d) as A. pose proof (SR.Proofs.ClausesP.lookup_normal k d') as B.
  rewrite E in A. rewrite A in B. destruct (lookup k d), (lookup k d'); cbn [option_map] in B; try discriminate; [|reflexivity].
  rewrite !V in B. exact B.
Qed.

Lemma same_clauses_content : forall e e', same_clauses e e' -> ce_ok e = true -> ce_ok e' = true ->
  content (spec_entry e) = content (spec_entry e').
Proof.
  intros e e' (E1 & E2 & P) OK OK'. unfold ce_ok in OK, OK'.
  apply andb_true_iff in OK as [OK _]. apply andb_true_iff in OK as [Pr _].
  apply andb_true_iff in OK' as [OK' _]. apply andb_true_iff in OK' as [Pr' _].
  unfold printable in Pr, Pr'. apply andb_true_iff in Pr as [ND I]. apply andb_true_iff in Pr' as [ND' I'].
  assert (N : normal (ce_dict e) = normal (ce_dict e')).
  { unfold ce_dict. rewrite (SR.Proofs.ClausesP.expected_content _ _ I), (SR.Proofs.ClausesP.expected_content _ _ I').
    apply SR.Proofs.ClausesP.abstract_perm; assumption. }
  unfold content, spec_entry. cbn [elv ename efill eredef epic eocc]. unfold has.
  rewrite (lookup_verbatim 14 _ _ N (fun v => eq_refl)), (lookup_verbatim 0 _ _ N (fun v => eq_refl)),
          (lookup_verbatim 7 _ _ N (fun v => eq_refl)), (lookup_verbatim 6 _ _ N (fun v => eq_refl)),
          (lookup_verbatim 4 _ _ N (fun v => eq_refl)), E1, E2.
  pose proof (SR.Proofs.ClausesP.lookup_normal 13 (ce_dict e)) as A. pose proof (SR.Proofs.ClausesP.lookup_normal 13 (ce_dict e')) as B.
  rewrite N in A. rewrite A in B.
  exact (f_equal (fun z => (_, _, z, _, _, _)) B).
Qed.

Theorem respelling_entries : forall es tail seqs es' tail' seqs',
  Forall2 same_clauses es es' -> copybook_ok es tail seqs = true -> copybook_ok es' tail' seqs' = true ->
  exists E E', entries_of_text (print_copybook es tail seqs) = ROk E
            /\ entries_of_text (print_copybook es' tail' seqs') = ROk E'
            /\ map content E = map content E'.
Proof.
  intros es tail seqs es' tail' seqs' F OK OK'.
  exists (map spec_entry es), (map spec_entry es'). split; [apply (entries_of_printed _ _ _ OK)|]. split; [apply (entries_of_printed _ _ _ OK')|].
  unfold copybook_ok in OK, OK'. apply andb_true_iff in OK as [OK _]. apply andb_true_iff in OK as [OK _].
  apply andb_true_iff in OK' as [OK' _]. apply andb_true_iff in OK' as [OK' _].
  rewrite !map_map. induction F as [|e e' es es' S F IH]; [reflexivity|]. cbn [forallb] in OK, OK'.
  apply andb_true_iff in OK as [Oe OK]. apply andb_true_iff in OK' as [Oe' OK']. cbn [map]. rewrite (IH OK OK'). f_equal.
  apply same_clauses_content; assumption.
Qed.

(* with ASCII level numbers the forest is the one the specification of C07 demands (C07_structure) *)
Theorem end_to_end_noredef_spec : forall es tail seqs,
  copybook_ok es tail seqs = true -> no_redefines es = true -> levels_ascii es = true ->
  exists f xf,
    structure (map spec_entry es) = Ok f
    /\ preorder_f f = StructureP.kept_of (map spec_entry es)
    /\ parents f = SR.Spec.Dde.spec_parents (StructureP.levels_of (StructureP.kept_of (map spec_entry es)))
    /\ root_pos 0 f = SR.Spec.Dde.spec_roots (StructureP.levels_of (StructureP.kept_of (map spec_entry es)))
    /\ annot_forest f (kept_infos (map spec_info es)) = Some xf
    /\ map erase xf = f
    /\ concat (map xpre xf) = kept_infos (map spec_info es)
    /\ schemas_of_text (print_copybook es tail seqs) = to_outcome (docs_of xf).
Proof.
  intros es tail seqs OK NR LA. destruct (end_to_end_noredef es tail seqs OK NR) as (f & xf & Hf & A & R & Q & S).
  assert (D : Forall (fun e => SR.Spec.Dde.two_digits (elv e) = true) (map spec_entry es)).
  { apply Forall_forall. intros e He. apply in_map_iff in He as (c & <- & Hc). unfold levels_ascii in LA. rewrite forallb_forall in LA.
    apply (LA c Hc). }
  destruct (StructureP.structure_full _ _ D Hf) as (P1 & P2 & P3).
  exists f, xf. repeat split; assumption.
Qed.

Import SR.Model.Structure.
(* ================================================================ the entries a document defines *)
(* the entries of an annotated tree, in preorder *)
Fixpoint xdefs (t : xtree) : list (str * str) :=
  match t with XNode d _ _ kids => (dde_name (de d), cobol_of d) :: xdefs_f kids end
with xdefs_f (ks : xforest) : list (str * str) :=
  match ks with XNil => [] | XCons k r => xdefs k ++ xdefs_f r end.

Definition jt_key (k : str) : bool := str_eqb k k_type || str_eqb k k_contentEncoding || str_eqb k k_conversion.

Definition jt_ok (l : list (str * str)) : bool := forallb (fun kv => jt_key (fst kv)) l.
Lemma jt_ok_app : forall a b, jt_ok (a ++ b) = jt_ok a && jt_ok b.
Proof. intros. apply forallb_app. Qed.

Lemma json_type_keys : forall x jt, json_type_kvs x = ROk jt -> jt_ok jt = true.
Proof.
  intros x jt H. unfold json_type_kvs in H.
  destruct (SR.Model.JsonType.json_type (usage_number x) _) as [[[t e] c]|ex]; [|discriminate].
  assert (A : forall a, type_kv t = ROk a -> jt_ok a = true).
  { intros a Ha. unfold type_kv in Ha.
    destruct t as [|[[[[?|?|]|[?|?|]|]|[[?|?|]|[?|?|]|]|]|[[[?|?|]|[?|?|]|]|[[?|?|]|[?|?|]|]|]|]]; try discriminate; injection Ha as <-; reflexivity. }
  assert (B : forall a, enc_kv e = ROk a -> jt_ok a = true).
  { intros a Ha. unfold enc_kv in Ha.
    destruct e as [|[[[[?|?|]|[?|?|]|]|[[?|?|]|[?|?|]|]|]|[[[?|?|]|[?|?|]|]|[[?|?|]|[?|?|]|]|]|]]; try discriminate; injection Ha as <-; reflexivity. }
  assert (C : forall a, conv_kv c = ROk a -> jt_ok a = true).
  { intros a Ha. unfold conv_kv in Ha.
    destruct c as [|[[[[?|?|]|[?|?|]|]|[[?|?|]|[?|?|]|]|]|[[[?|?|]|[?|?|]|]|[[?|?|]|[?|?|]|]|]|]]; try discriminate; injection Ha as <-; reflexivity. }
  destruct (type_kv t) as [a| |]; cbn [rbind] in H; try discriminate.
  destruct (enc_kv e) as [b| |]; cbn [rbind] in H; try discriminate.
  destruct (conv_kv c) as [d0| |]; cbn [rbind] in H; try discriminate.
  injection H as <-. rewrite !jt_ok_app, (A a eq_refl), (B b eq_refl), (C d0 eq_refl). reflexivity.
Qed.

Definition is_obj (d : jdoc) : bool := match d with JObj _ => true | _ => false end.
Definition head_def (kvs : list (str * jdoc)) : list (str * str) :=
  match jfind k_title kvs, jfind k_cobol kvs, jfind k_ref kvs with
  | Some (JStr t), Some (JStr c), None => [(t, c)]
  | _, _, _ => []
  end.

Definition objs (l : list (str * jdoc)) : bool := forallb (fun kv => is_obj (snd kv)) l.
Definition fdefs (l : list (str * jdoc)) : list (str * str) := flat_map (fun kv => defs (snd kv)) l.

Lemma defs_obj : forall kvs, defs (JObj kvs) = head_def kvs ++ fdefs kvs.
Proof. reflexivity. Qed.

Lemma jfind_objs : forall k kvs, objs kvs = true ->
  match jfind k kvs with Some (JStr _) => False | _ => True end.
Proof.
  intros k. induction kvs as [|[k1 v] kvs IH]; intros H; cbn [jfind]; [exact I|]. cbn [objs forallb snd] in H. apply andb_true_iff in H as [Hv H].
  destruct (str_eqb k1 k); [destruct v; try discriminate; exact I|apply IH; exact H].
Qed.

Lemma head_def_objs : forall kvs, objs kvs = true -> head_def kvs = [].
Proof.
  intros kvs H. unfold head_def. pose proof (jfind_objs k_title kvs H) as T. destruct (jfind k_title kvs) as [[ | | | ]|]; try reflexivity. destruct T.
Qed.

Lemma flat_defs_jstrs : forall l rest, fdefs (jstrs l ++ rest) = fdefs rest.
Proof. induction l as [|[k v] l IH]; intros rest; [reflexivity|]. unfold fdefs in *. cbn [jstrs map app flat_map snd defs]. apply IH. Qed.

Lemma fdefs_cons : forall k v l, fdefs ((k, v) :: l) = defs v ++ fdefs l.
Proof. reflexivity. Qed.

Lemma jt_key_cases : forall k, jt_key k = true -> k = k_type \/ k = k_contentEncoding \/ k = k_conversion.
Proof.
  intros k H. unfold jt_key in H. apply orb_true_iff in H as [H|H]; [apply orb_true_iff in H as [H|H]|];
    apply StructureP.str_eqb_eq in H; auto.
Qed.

Lemma jfind_jt : forall key jt rest, jt_ok jt = true -> jt_key key = false -> jfind key (jstrs jt ++ rest) = jfind key rest.
Proof.
  intros key. induction jt as [|[k v] jt IH]; intros rest H K; [reflexivity|]. cbn [jt_ok forallb fst] in H. apply andb_true_iff in H as [Hk H].
  cbn [jstrs map app jfind fst snd].
  assert (E : str_eqb k key = false).
  { destruct (str_eqb k key) eqn:E; [|reflexivity]. apply StructureP.str_eqb_eq in E. subst key. congruence. }
  rewrite E. apply IH; assumption.
Qed.

Lemma jstrs_app : forall a b, jstrs (a ++ b) = jstrs a ++ jstrs b.
Proof. intros. unfold jstrs. apply map_app. Qed.

Lemma defs_elem : forall n u c jt a b, jt_ok jt = true ->
  defs (JObj (jstrs ([(k_title, n); (k_anchor, u); (k_cobol, c)] ++ jt) ++ [(k_maxLength, JInt a); (k_minLength, JInt b)])) = [(n, c)].
Proof.
  intros n u c jt a b J. rewrite defs_obj, flat_defs_jstrs.
  assert (HD : head_def (jstrs ([(k_title, n); (k_anchor, u); (k_cobol, c)] ++ jt) ++ [(k_maxLength, JInt a); (k_minLength, JInt b)]) = [(n, c)]).
  { unfold head_def. rewrite jstrs_app, <- app_assoc.
    change (jfind k_title (jstrs [(k_title, n); (k_anchor, u); (k_cobol, c)] ++ jstrs jt ++ [(k_maxLength, JInt a); (k_minLength, JInt b)])) with (Some (JStr n)).
    change (jfind k_cobol (jstrs [(k_title, n); (k_anchor, u); (k_cobol, c)] ++ jstrs jt ++ [(k_maxLength, JInt a); (k_minLength, JInt b)])) with (Some (JStr c)).
    change (jfind k_ref (jstrs [(k_title, n); (k_anchor, u); (k_cobol, c)] ++ jstrs jt ++ [(k_maxLength, JInt a); (k_minLength, JInt b)]))
      with (jfind k_ref (jstrs jt ++ [(k_maxLength, JInt a); (k_minLength, JInt b)])).
    rewrite (jfind_jt k_ref jt _ J eq_refl). reflexivity. }
  rewrite HD. reflexivity.
Qed.

Lemma defs_inner : forall u c jt, jt_ok jt = true -> defs (JObj (jstrs ([(k_anchor, u); (k_cobol, c)] ++ jt))) = [].
Proof.
  intros u c jt J. rewrite defs_obj.
  assert (FL : fdefs (jstrs ([(k_anchor, u); (k_cobol, c)] ++ jt)) = []).
  { rewrite <- (app_nil_r (jstrs _)). rewrite flat_defs_jstrs. reflexivity. }
  rewrite FL, app_nil_r. unfold head_def. rewrite jstrs_app.
  change (jfind k_title (jstrs [(k_anchor, u); (k_cobol, c)] ++ jstrs jt)) with (jfind k_title (jstrs jt)).
  rewrite <- (app_nil_r (jstrs jt)). rewrite (jfind_jt k_title jt [] J eq_refl). reflexivity.
Qed.

Lemma defs_mx : forall x mx, max_items_doc x = ROk mx -> defs (snd mx) = [] /\ str_eqb (fst mx) k_ref = false
  /\ str_eqb (fst mx) k_title = false /\ str_eqb (fst mx) k_cobol = false.
Proof.
  intros x mx H. unfold max_items_doc in H. destruct (i_dep x) as [dep|].
  - injection H as <-. repeat split; reflexivity.
  - destruct (i_occ x); [|discriminate]. injection H as <-. repeat split; reflexivity.
Qed.

Lemma jset_fresh : forall k v acc, existsb (str_eqb k) (map fst acc) = false -> jset k v acc = acc ++ [(k, v)].
Proof.
  intros k v. induction acc as [|[k1 v1] acc IH]; intros H; [reflexivity|]. cbn [map fst existsb] in H. apply orb_false_iff in H as [H1 H].
  cbn [jset app]. assert (E : str_eqb k1 k = false).
  { destruct (str_eqb k1 k) eqn:E; [|reflexivity]. apply StructureP.str_eqb_eq in E. subst k1. rewrite StructureP.str_eqb_refl in H1. discriminate. }
  rewrite E, (IH H). reflexivity.
Qed.

Lemma nodup_mid : forall p k r, nodup_str (p ++ k :: r) = true ->
  existsb (str_eqb k) p = false /\ nodup_str ((p ++ [k]) ++ r) = true.
Proof.
  intros p k r H. split.
  - induction p as [|x p IH]; [reflexivity|]. cbn [app nodup_str] in H. apply andb_true_iff in H as [Hx H]. cbn [existsb].
    rewrite (IH H), orb_false_r. apply negb_true_iff in Hx. rewrite existsb_app in Hx. apply orb_false_iff in Hx as [_ Hx].
    cbn [existsb] in Hx. apply orb_false_iff in Hx as [Hx _].
    destruct (str_eqb k x) eqn:E; [|reflexivity]. apply StructureP.str_eqb_eq in E. subst x. rewrite StructureP.str_eqb_refl in Hx. discriminate.
  - rewrite <- app_assoc. exact H.
Qed.

Lemma objs_app : forall a b, objs (a ++ b) = objs a && objs b.
Proof. intros. apply forallb_app. Qed.
Lemma fdefs_app : forall a b, fdefs (a ++ b) = fdefs a ++ fdefs b.
Proof. intros. apply flat_map_app. Qed.

Definition Dt (t : xtree) : Prop := shape_ok t = true -> forall doc, doc_of t = ROk doc -> is_obj doc = true /\ defs doc = xdefs t.
Definition Df (ks : xforest) : Prop := shape_ok_f ks = true -> forall acc props,
  nodup_str (map fst acc ++ knames ks) = true -> objs acc = true -> docs_kids ks acc = ROk props ->
  objs props = true /\ fdefs props = fdefs acc ++ xdefs_f ks.

Lemma props_defs : forall props, objs props = true -> defs (JObj props) = fdefs props.
Proof. intros props H. rewrite defs_obj, (head_def_objs props H). reflexivity. Qed.

Lemma Df_cons : forall k r, Dt k -> Df r -> Df (XCons k r).
Proof.
  intros k r IHk IHr S acc props ND O H. cbn [shape_ok_f] in S. apply andb_true_iff in S as [Sk Sr].
  cbn [docs_kids] in H. destruct (doc_of k) as [dk|e|w] eqn:Ek; cbn [rbind] in H; try discriminate.
  destruct (IHk Sk dk Ek) as [Ok Dk]. cbn [knames] in ND. destruct (nodup_mid _ _ _ ND) as [Fr ND2].
  rewrite (jset_fresh _ _ _ Fr) in H.
  assert (M : map fst (acc ++ [(du (xdde k), dk)]) = map fst acc ++ [du (xdde k)]) by (rewrite map_app; reflexivity).
  rewrite <- M in ND2.
  assert (O2 : objs (acc ++ [(du (xdde k), dk)]) = true) by (rewrite objs_app, O; cbn [objs forallb snd]; rewrite Ok; reflexivity).
  destruct (IHr Sr _ props ND2 O2 H) as [Op Dp]. split; [exact Op|]. rewrite Dp, fdefs_app. cbn [xdefs_f].
  unfold fdefs at 2. cbn [flat_map snd]. rewrite app_nil_r, Dk, <- app_assoc. reflexivity.
Qed.

Lemma defs_str : forall s, defs (JStr s) = [].
Proof. reflexivity. Qed.
Lemma defs_int : forall n, defs (JInt n) = [].
Proof. reflexivity. Qed.
Lemma fdefs_nil : fdefs [] = [].
Proof. reflexivity. Qed.

Lemma defs_inner' : forall u c jt, jt_ok jt = true -> defs (JObj ((k_anchor, JStr u) :: (k_cobol, JStr c) :: jstrs jt)) = [].
Proof. exact defs_inner. Qed.

Lemma defs_single : forall k v, is_obj v = true -> defs (JObj [(k, v)]) = defs v.
Proof.
  intros k v O. rewrite props_defs; [|cbn [objs forallb snd]; rewrite O; reflexivity]. unfold fdefs. cbn [flat_map snd]. apply app_nil_r.
Qed.

Ltac norm_defs := rewrite ?fdefs_cons, ?fdefs_nil, ?defs_str, ?defs_int; cbn [app].

Lemma Dt_node : forall d b x kids, Df kids -> Dt (XNode d b x kids).
Proof.
  intros d b x kids IH S doc H. cbn [shape_ok] in S. apply andb_true_iff in S as [S Leaf]. apply andb_true_iff in S as [ND Sk].
  cbn [doc_of] in H. cbn [xdefs].
  destruct (eocc (de d)) eqn:Eocc.
  - destruct (epic (de d)) eqn:Epic.
    + destruct kids; [|discriminate]. cbn [xdefs_f].
      unfold max_items_doc in H. destruct (i_dep x) as [dep|]; [|destruct (i_occ x) as [ds|]; [|discriminate]]; cbn [rbind] in H;
        (destruct (json_type_kvs x) as [jt|e|w] eqn:Ejt; cbn [rbind] in H; try discriminate; injection H as <-;
         split; [reflexivity|]; rewrite defs_obj; unfold head_def; cbn - [defs fdefs]; norm_defs;
         rewrite defs_obj; unfold head_def; cbn - [defs fdefs]; norm_defs;
         rewrite defs_single by reflexivity; rewrite (defs_inner' _ _ _ (json_type_keys x jt Ejt))).
      * rewrite defs_obj. unfold head_def. cbn - [defs fdefs]. norm_defs. reflexivity.
      * reflexivity.
    + unfold max_items_doc in H. destruct (i_dep x) as [dep|]; [|destruct (i_occ x) as [ds|]; [|discriminate]]; cbn [rbind] in H;
        (destruct (docs_kids kids []) as [props|e|w] eqn:Ek; cbn [rbind] in H; try discriminate; injection H as <-;
         destruct (IH Sk [] props ND eq_refl Ek) as [Op Dp]; split; [reflexivity|];
         rewrite defs_obj; unfold head_def; cbn - [defs fdefs]; norm_defs;
         rewrite defs_obj; unfold head_def; cbn - [defs fdefs]; norm_defs;
         rewrite (props_defs props Op), Dp).
      * rewrite defs_obj. unfold head_def. cbn - [defs fdefs]. norm_defs. unfold fdefs. cbn [flat_map app]. rewrite ?app_nil_r. reflexivity.
      * unfold fdefs. cbn [flat_map app]. rewrite ?app_nil_r. reflexivity.
  - destruct kids as [|k r].
    + destruct (json_type_kvs x) as [jt|e|w] eqn:Ejt; cbn [rbind] in H; try discriminate.
      destruct (calcsize_text (cobol_of d)) as [n|e|w]; cbn [rbind] in H; try discriminate. injection H as <-.
      split; [reflexivity|]. cbn [xdefs_f]. exact (defs_elem _ _ _ _ _ _ (json_type_keys x jt Ejt)).
    + destruct (docs_kids (XCons k r) []) as [props|e|w] eqn:Ek; cbn [rbind] in H; try discriminate. injection H as <-.
      destruct (IH Sk [] props ND eq_refl Ek) as [Op Dp]. split; [reflexivity|].
      rewrite defs_obj. unfold head_def. cbn - [defs fdefs]. norm_defs. rewrite (props_defs props Op), Dp.
      unfold fdefs. cbn [flat_map app]. rewrite ?app_nil_r. reflexivity.
Qed.

Theorem defs_doc_of : (forall t, Dt t) /\ (forall ks, Df ks).
Proof.
  apply xtree_xforest_ind.
  - intros d b x kids IH. apply Dt_node. exact IH.
  - intros _ acc props _ O H. cbn [docs_kids] in H. injection H as <-. split; [exact O|]. cbn [xdefs_f]. rewrite app_nil_r. reflexivity.
  - intros k IHk r IHr. apply Df_cons; assumption.
Qed.

Lemma xdefs_erase : (forall t, xdefs t = map name_cobol (preorder (erase t)))
                    /\ (forall ks, xdefs_f ks = map name_cobol (preorder_f (erase_f ks))).
Proof.
  apply xtree_xforest_ind.
  - intros d b x kids IH. cbn [xdefs erase]. rewrite StructureP.preorder_node. cbn [map]. rewrite IH. reflexivity.
  - reflexivity.
  - intros k IHk r IHr. cbn [xdefs_f erase_f]. rewrite StructureP.preorder_f_cons, map_app, IHk, IHr. reflexivity.
Qed.

Lemma docs_of_defs : forall xf docs, forallb shape_ok xf = true -> docs_of xf = ROk docs ->
  flat_map defs docs = map name_cobol (preorder_f (map erase xf)).
Proof.
  induction xf as [|t xf IH]; intros docs S H; cbn [docs_of] in H.
  - injection H as <-. reflexivity.
  - cbn [forallb] in S. apply andb_true_iff in S as [St S].
    destruct (doc_of t) as [doc|e|w] eqn:Et; cbn [rbind] in H; try discriminate.
    destruct (docs_of xf) as [r|e|w] eqn:Er; cbn [rbind] in H; try discriminate. injection H as <-.
    destruct defs_doc_of as [DT _]. destruct (DT t St doc Et) as [_ Dd]. destruct xdefs_erase as [XE _].
    cbn [flat_map map]. rewrite StructureP.preorder_f_cons, map_app, Dd, XE, (IH r S eq_refl). reflexivity.
Qed.

Theorem end_to_end_defs : forall es tail seqs docs,
  copybook_ok es tail seqs = true -> no_redefines es = true -> copybook_shape_ok es = true ->
  schemas_of_text (print_copybook es tail seqs) = Done (Ok docs) ->
  flat_map defs docs = entry_defs es.
Proof.
  intros es tail seqs docs OK NR SH H.
  destruct (end_to_end_noredef es tail seqs OK NR) as (f & xf & Hf & A & R & Q & S).
  unfold copybook_shape_ok in SH. rewrite Hf, A in SH. rewrite S in H.
  assert (D : docs_of xf = ROk docs).
  { destruct (docs_of xf) as [r|e|w]; cbn [to_outcome] in H; try discriminate. injection H as <-. reflexivity. }
  rewrite (docs_of_defs xf docs SH D), R, (structure_preorder _ _ Hf). reflexivity.
Qed.

Import SR.Model.Structure.
(* ================================================================ respelling: documents up to the cobol keyword *)
Definition strip_kvs (l : list (str * jdoc)) : list (str * jdoc) :=
  flat_map (fun kv => if str_eqb (fst kv) k_cobol then [] else [(fst kv, strip_cobol (snd kv))]) l.

Lemma strip_obj : forall l, strip_cobol (JObj l) = JObj (strip_kvs l).
Proof. reflexivity. Qed.

Lemma strip_kvs_app : forall a b, strip_kvs (a ++ b) = strip_kvs a ++ strip_kvs b.
Proof. intros. apply flat_map_app. Qed.

Definition strip_R (r : R jdoc) : R jdoc :=
  match r with ROk d => ROk (strip_cobol d) | RErr e => RErr e | RUn w => RUn w end.

(* what the document of a node depends on besides the cobol text *)
Definition dsim (d d' : dde) : Prop :=
  dlv d = dlv d' /\ du d = du d' /\ dde_name (de d) = dde_name (de d')
  /\ eredef (de d) = None /\ eredef (de d') = None
  /\ epic (de d) = epic (de d') /\ eocc (de d) = eocc (de d')
  /\ calcsize_text (cobol_of d) = calcsize_text (cobol_of d').

Definition isim (x x' : info) : Prop := max_items_doc x = max_items_doc x' /\ json_type_kvs x = json_type_kvs x'.

Inductive xsim : xtree -> xtree -> Prop :=
| xs_node : forall d b x kids d' x' kids', dsim d d' -> isim x x' -> xsim_f kids kids' -> xsim (XNode d b x kids) (XNode d' b x' kids')
with xsim_f : xforest -> xforest -> Prop :=
| xs_nil : xsim_f XNil XNil
| xs_cons : forall k r k' r', xsim k k' -> xsim_f r r' -> xsim_f (XCons k r) (XCons k' r').

Scheme xsim_mut := Induction for xsim Sort Prop
with xsim_f_mut := Induction for xsim_f Sort Prop.
Combined Scheme xsim_ind2 from xsim_mut, xsim_f_mut.

Definition accsim (a a' : list (str * jdoc)) : Prop :=
  Forall2 (fun p q => fst p = fst q /\ strip_cobol (snd p) = strip_cobol (snd q)) a a'.

Lemma accsim_strip : forall a a', accsim a a' -> strip_kvs a = strip_kvs a'.
Proof.
  intros a a' F. induction F as [|[k v] [k' v'] a a' [K V] F IH]; [reflexivity|]. cbn [fst snd] in *. subst k'.
  unfold strip_kvs in *. cbn [flat_map fst snd]. rewrite V, IH. reflexivity.
Qed.

Lemma accsim_jset : forall k v v' a a', accsim a a' -> strip_cobol v = strip_cobol v' -> accsim (jset k v a) (jset k v' a').
Proof.
  intros k v v' a a' F V. induction F as [|[k1 v1] [k2 v2] a a' [K W] F IH]; cbn [jset].
  - constructor; [split; [reflexivity|exact V]|constructor].
  - cbn [fst snd] in *. subst k2. destruct (str_eqb k1 k).
    + constructor; [split; [reflexivity|exact V]|exact F].
    + constructor; [split; [reflexivity|exact W]|exact IH].
Qed.

Definition strip_Rl (r : R (list (str * jdoc))) : R (list (str * jdoc)) :=
  match r with ROk l => ROk (strip_kvs l) | RErr e => RErr e | RUn w => RUn w end.

Lemma strip_jstrs_cobol : forall c l rest, strip_kvs (jstrs ((k_cobol, c) :: l) ++ rest) = strip_kvs (jstrs l ++ rest).
Proof. reflexivity. Qed.

Theorem doc_of_sim : (forall t t', xsim t t' -> strip_R (doc_of t) = strip_R (doc_of t'))
  /\ (forall ks ks', xsim_f ks ks' -> forall a a', accsim a a' ->
        match docs_kids ks a, docs_kids ks' a' with
        | ROk p, ROk p' => accsim p p'
        | RErr e, RErr e' => e = e'
        | RUn w, RUn w' => w = w'
        | _, _ => False
        end).
Proof.
  apply xsim_ind2.
  - intros d b x kids d' x' kids' (L & U & Nm & _ & _ & Ep & Eo & Cs) (Mx & Jt) Sk IH.
    cbn [doc_of]. rewrite <- Eo, <- Ep, <- Mx, <- Jt, <- Nm, <- U, <- Cs.
    destruct (eocc (de d)).
    + destruct (max_items_doc x) as [mx|e|w]; cbn [rbind]; [|reflexivity|reflexivity].
      destruct (epic (de d)).
      * destruct (json_type_kvs x) as [jt|e|w]; cbn [rbind strip_R]; reflexivity.
      * match goal with |- context [docs_kids kids ?a] => specialize (IH a a (Forall2_nil _)) end.
        destruct (docs_kids kids []) as [p|e|w], (docs_kids kids' []) as [p'|e'|w']; try contradiction; cbn [rbind strip_R]; try (subst; reflexivity).
        pose proof (accsim_strip _ _ IH) as SP. unfold strip_kvs in SP. cbn. rewrite SP. reflexivity.
    + destruct kids as [|k r]; inversion Sk; subst.
      * destruct (json_type_kvs x) as [jt|e|w]; cbn [rbind strip_R]; [|reflexivity|reflexivity].
        destruct (calcsize_text (cobol_of d)) as [n|e|w]; cbn [rbind strip_R]; reflexivity.
      * match goal with |- context [docs_kids (XCons k r) ?a] => specialize (IH a a (Forall2_nil _)) end.
        destruct (docs_kids (XCons k r) []) as [p|e|w], (docs_kids (XCons k' r') []) as [p'|e'|w']; try contradiction; cbn [rbind strip_R]; try (subst; reflexivity).
        pose proof (accsim_strip _ _ IH) as SP. unfold strip_kvs in SP. cbn. rewrite SP. reflexivity.
  - intros a a' F. cbn [docs_kids]. exact F.
  - intros k r k' r' Sk IHk Sr IHr a a' F. cbn [docs_kids].
    assert (U : du (xdde k) = du (xdde k')).
    { destruct Sk as [d b x kids d' x' kids' (_ & U & _) _ _]. exact U. }
    destruct (doc_of k) as [dk|e|w], (doc_of k') as [dk'|e'|w']; cbn [strip_R] in IHk; try discriminate; cbn [rbind].
    + injection IHk as IHk. rewrite <- U. apply IHr. apply accsim_jset; assumption.
    + injection IHk as ->. reflexivity.
    + injection IHk as ->. reflexivity.
Qed.

(* ---- structure() builds the same shape from entry lists that agree on what it looks at ---- *)
Section Sim.
  Variable Rd : dde -> dde -> Prop.
  Hypothesis Rd_lv : forall d d', Rd d d' -> dlv d = dlv d'.
  Hypothesis Rd_nr : forall d d', Rd d d' -> eredef (de d) = None /\ eredef (de d') = None.

  Inductive tsim : tree -> tree -> Prop :=
  | ts_node : forall d b kids d' kids', Rd d d' -> Forall2 tsim kids kids' -> tsim (TNode d b kids) (TNode d' b kids').

  Definition fsim (f f' : frame) : Prop := Rd (fd f) (fd f') /\ Forall2 tsim (fkids f) (fkids f').

  Lemma close_sim : forall f f', fsim f f' -> tsim (close f) (close f').
  Proof. intros f f' [H1 H2]. unfold close. constructor; assumption. Qed.

  Lemma attach_sim : forall t t' f f', tsim t t' -> fsim f f' -> fsim (attach t f) (attach t' f').
  Proof. intros t t' f f' Ht [H1 H2]. split; [exact H1|]. unfold attach. cbn [fkids]. apply Forall2_app; [exact H2|constructor; [exact Ht|constructor]]. Qed.

  Lemma pop_sim : forall x rest rest' cur cur', fsim cur cur' -> Forall2 fsim rest rest' ->
    match pop x cur rest, pop x cur' rest' with
    | inl (b, r), inl (b', r') => fsim b b' /\ Forall2 fsim r r'
    | inr t, inr t' => tsim t t'
    | _, _ => False
    end.
  Proof.
    intros x rest rest' cur cur' Hc Hr. revert cur cur' Hc. induction Hr as [|p p' rest rest' Hp Hr IH]; intros cur cur' Hc; cbn [pop];
      rewrite <- (Rd_lv _ _ (proj1 Hc)); destruct (pop_test x (dlv (fd cur))).
    - apply close_sim. exact Hc.
    - split; [exact Hc|constructor].
    - apply IH. apply attach_sim; [apply close_sim; exact Hc|exact Hp].
    - split; [exact Hc|constructor; assumption].
  Qed.

  Definition ssim (s s' : state) : Prop :=
    Forall2 tsim (roots s) (roots s') /\ fsim (cur s) (cur s') /\ Forall2 fsim (rest s) (rest s').

  Lemma skipped_sim : forall d d', Rd d d' -> skipped d = skipped d'.
  Proof. intros d d' H. unfold skipped. rewrite (Rd_lv _ _ H). reflexivity. Qed.

  Lemma open_sim : forall d d', Rd d d' -> fsim (open d) (open d').
  Proof. intros d d' H. split; [exact H|constructor]. Qed.

  Lemma step_sim : forall s s' d d', ssim s s' -> Rd d d' ->
    exists s1 s1', step s d = Ok s1 /\ step s' d' = Ok s1' /\ ssim s1 s1'.
  Proof.
    intros s s' d d' (Hroots & Hcur & Hrest) Hd. unfold step. rewrite <- (skipped_sim _ _ Hd).
    destruct (skipped d); [exists s, s'; split; [reflexivity|]; split; [reflexivity|]; exact (conj Hroots (conj Hcur Hrest))|].
    pose proof (pop_sim (dlv d) (rest s) (rest s') (cur s) (cur s') Hcur Hrest) as PS. rewrite <- (Rd_lv _ _ Hd).
    destruct (Rd_nr _ _ Hd) as [N1 N2]. rewrite N1, N2.
    destruct (pop (dlv d) (cur s) (rest s)) as [[b r]|t], (pop (dlv d) (cur s') (rest s')) as [[b' r']|t']; try contradiction.
    - destruct PS as [Hb Hr]. eexists. eexists. split; [reflexivity|]. split; [reflexivity|].
      split; [exact Hroots|]. split; [apply open_sim; exact Hd|]. constructor; assumption.
    - eexists. eexists. split; [reflexivity|]. split; [reflexivity|].
      split; [cbn [roots]; apply Forall2_app; [exact Hroots|constructor; [exact PS|constructor]]|].
      split; [apply open_sim; exact Hd|constructor].
  Qed.

  Lemma run_sim : forall l l', Forall2 Rd l l' -> forall s s', ssim s s' ->
    exists s1 s1', run s l = Ok s1 /\ run s' l' = Ok s1' /\ ssim s1 s1'.
  Proof.
    intros l l' F. induction F as [|d d' l l' Hd F IH]; intros s s' Hs; cbn [run].
    - exists s, s'. repeat split; try reflexivity; apply Hs.
    - destruct (step_sim s s' d d' Hs Hd) as (s1 & s1' & E1 & E1' & H1). rewrite E1, E1'. apply IH. exact H1.
  Qed.

  Lemma collapse_sim : forall rest rest', Forall2 fsim rest rest' -> forall cur cur', fsim cur cur' ->
    tsim (collapse cur rest) (collapse cur' rest').
  Proof.
    intros rest rest' F. induction F as [|p p' rest rest' Hp F IH]; intros cur cur' Hc; cbn [collapse]; [apply close_sim; exact Hc|].
    apply IH. apply attach_sim; [apply close_sim; exact Hc|exact Hp].
  Qed.

  Lemma structure_ddes_sim : forall l l', Forall2 Rd l l' -> l <> [] ->
    exists f f', structure_ddes l = Ok f /\ structure_ddes l' = Ok f' /\ Forall2 tsim f f'.
  Proof.
    intros l l' F NE. destruct F as [|d d' l l' Hd F]; [congruence|]. cbn [structure_ddes].
    assert (I : ssim {| roots := []; cur := open d; rest := [] |} {| roots := []; cur := open d'; rest := [] |}).
    { split; [constructor|]. split; [apply open_sim; exact Hd|constructor]. }
    destruct (run_sim l l' F _ _ I) as (s1 & s1' & E1 & E1' & (Hr & Hc & Hrest)). rewrite E1, E1'.
    eexists. eexists. split; [reflexivity|]. split; [reflexivity|]. unfold finish.
    apply Forall2_app; [exact Hr|constructor; [apply collapse_sim; assumption|constructor]].
  Qed.
End Sim.

(* ---- DDE objects of entry lists that agree on what matters ---- *)
Definition esim (e e' : entry) : Prop :=
  elv e = elv e' /\ dde_name e = dde_name e' /\ eredef e = None /\ eredef e' = None /\ epic e = epic e' /\ eocc e = eocc e'
  /\ calcsize_text ([fst (elv e); snd (elv e); 32%N] ++ etext e) = calcsize_text ([fst (elv e'); snd (elv e'); 32%N] ++ etext e').

Lemma mk_ddes_sim : forall l l', Forall2 esim l l' -> forall c, Forall2 dsim (mk_ddes c l) (mk_ddes c l').
Proof.
  intros l l' F. induction F as [|e e' l l' (L & Nm & R1 & R2 & Ep & Eo & Cs) F IH]; intros c; cbn [mk_ddes]; [constructor|].
  assert (IF : is_filler e' = is_filler e) by (unfold is_filler; rewrite Nm; reflexivity). rewrite IF, <- Nm, <- L.
  destruct (is_filler e).
  - constructor; [|apply IH]. unfold dsim, dlv, cobol_of, dlv. cbn [de du]. repeat split; assumption.
  - constructor; [|apply IH]. unfold dsim, dlv, cobol_of, dlv. cbn [de du]. repeat split; assumption.
Qed.

Lemma dsim_lv : forall d d', dsim d d' -> dlv d = dlv d'.
Proof. intros d d' H. apply H. Qed.
Lemma dsim_nr : forall d d', dsim d d' -> eredef (de d) = None /\ eredef (de d') = None.
Proof. intros d d' (_ & _ & _ & A & B & _). split; assumption. Qed.

(* ---- from similar forests and similar clause values to similar annotated forests ---- *)
Lemma Forall2_app_len : forall (T U : Type) (P : T -> U -> Prop) a b a' b', length a = length a' ->
  Forall2 P (a ++ b) (a' ++ b') -> Forall2 P a a' /\ Forall2 P b b'.
Proof.
  intros T U P. induction a as [|x a IH]; intros b [|x' a'] b' L F; cbn [length] in L; try discriminate.
  - split; [constructor|exact F].
  - cbn [app] in F. inversion F as [|? ? ? ? Hx F']; subst. destruct (IH b a' b' (eq_add_S _ _ L) F') as [A B]. split; [constructor; assumption|exact B].
Qed.

Theorem xsim_of : (forall xt xt', tsim dsim (erase xt) (erase xt') ->
                     length (xpre xt) = length (xpre xt') /\ (Forall2 isim (xpre xt) (xpre xt') -> xsim xt xt'))
  /\ (forall ks ks', Forall2 (tsim dsim) (erase_f ks) (erase_f ks') ->
                     length (xpre_f ks) = length (xpre_f ks') /\ (Forall2 isim (xpre_f ks) (xpre_f ks') -> xsim_f ks ks')).
Proof.
  apply xtree_xforest_ind.
  - intros d b x kids IH [d' b' x' kids'] T. cbn [erase] in T. inversion T as [? ? ? ? ? Hd Hk]; subst.
    destruct (IH kids' Hk) as [Len Sim]. cbn [xpre length]. split; [rewrite Len; reflexivity|].
    intros F. inversion F as [|? ? ? ? Hx F']; subst. constructor; [exact Hd|exact Hx|apply Sim; exact F'].
  - intros [|k' r'] T; cbn [erase_f] in T; inversion T. split; [reflexivity|]. intros _. constructor.
  - intros k IHk r IHr [|k' r'] T; cbn [erase_f] in T; inversion T as [|? ? ? ? Hk Hr]; subst.
    destruct (IHk k' Hk) as [Lk Sk]. destruct (IHr r' Hr) as [Lr Sr]. cbn [xpre_f]. rewrite !app_length. split; [lia|].
    intros F. destruct (Forall2_app_len _ _ _ _ _ _ _ Lk F) as [Fk Fr]. constructor; [apply Sk; exact Fk|apply Sr; exact Fr].
Qed.

Lemma xsim_forest : forall xf xf', Forall2 (tsim dsim) (map erase xf) (map erase xf') ->
  Forall2 isim (concat (map xpre xf)) (concat (map xpre xf')) -> Forall2 xsim xf xf'.
Proof.
  induction xf as [|t xf IH]; intros [|t' xf'] T F; cbn [map] in T; inversion T as [|? ? ? ? Ht Tr]; subst; [constructor|].
  destruct xsim_of as [XO _]. destruct (XO t t' Ht) as [Len Sim]. cbn [map concat] in F.
  destruct (Forall2_app_len _ _ _ _ _ _ _ Len F) as [Ft Fr]. constructor; [apply Sim; exact Ft|apply IH; assumption].
Qed.

Lemma docs_of_sim : forall xf xf', Forall2 xsim xf xf' ->
  match docs_of xf, docs_of xf' with
  | ROk l, ROk l' => map strip_cobol l = map strip_cobol l'
  | RErr e, RErr e' => e = e'
  | RUn w, RUn w' => w = w'
  | _, _ => False
  end.
Proof.
  intros xf xf' F. induction F as [|t t' xf xf' Ht F IH]; cbn [docs_of]; [reflexivity|].
  destruct doc_of_sim as [DS _]. specialize (DS t t' Ht).
  destruct (doc_of t) as [d|e|w], (doc_of t') as [d'|e'|w']; cbn [strip_R] in DS; try discriminate; cbn [rbind].
  - injection DS as DS. destruct (docs_of xf) as [l|e|w], (docs_of xf') as [l'|e'|w']; try contradiction; cbn [rbind]; try exact IH.
    cbn [map]. rewrite DS, IH. reflexivity.
  - injection DS as ->. reflexivity.
  - injection DS as ->. reflexivity.
Qed.

(* ---- the decoder's second parse depends on its summary only ---- *)
Lemma est_loop_nopic : forall l u p0, count_pic l = 0%nat -> est_loop l u p0 = ROk (last_usage l u, p0) /\ forall q, last_pic l q = q.
Proof.
  induction l as [|[v|p] l IH]; intros u p0 C; cbn [est_loop last_usage last_pic count_pic] in *.
  - split; [reflexivity|]. intros q. reflexivity.
  - apply IH. exact C.
  - discriminate.
Qed.

Definition est_formula (u : N) (p : option str) : R (N * list SR.Model.Picture.elt) :=
  match p with
  | None => ROk (u, [])
  | Some q => match SR.Model.Picture.dec_normalize q with
              | None => RUn 1
              | Some (Err e) => RErr e
              | Some (Ok es) => ROk (u, es)
              end
  end.

Lemma est_loop_summary : forall l u, (count_pic l <= 1)%nat -> est_loop l u [] = est_formula (last_usage l u) (last_pic l None).
Proof.
  induction l as [|[v|p] l IH]; intros u C; cbn [est_loop last_usage last_pic count_pic] in *.
  - reflexivity.
  - apply IH. exact C.
  - assert (C0 : count_pic l = 0%nat) by lia. destruct (est_loop_nopic l u [] C0) as [_ LP]. rewrite (LP (Some p)). cbn [est_formula].
    destruct (SR.Model.Picture.dec_normalize p) as [[es|e]|]; try reflexivity.
    destruct (est_loop_nopic l u es C0) as [E _]. exact E.
Qed.

Lemma optstr_eqb_eq : forall a b, optstr_eqb a b = true -> a = b.
Proof.
  intros [a|] [b|] H; cbn [optstr_eqb] in H; try discriminate; [|reflexivity]. apply StructureP.str_eqb_eq in H. subst. reflexivity.
Qed.

Lemma calcsize_agrees : forall e, reparse_agrees e = true ->
  calcsize_text ([ce_d1 e; ce_d2 e; 32%N] ++ SR.Model.RefFormat.compact (ce_body e))
  = rbind (est_formula (usage_number (spec_info e)) (i_pic (spec_info e)))
      (fun up => let (u, es) := up in
         match SR.Model.Picture.size_loop es 0 with
         | Err ex => RErr ex
         | Ok size =>
             let sl := length (SR.Model.Picture.g_sign (SR.Model.Picture.digit_groups es)) in
             let two := (2 <=? sl)%nat in
             if two && SR.Model.Estruct.mem u SR.Gen.EstructParams.calc_packed && negb (SR.Model.Estruct.mem u SR.Gen.EstructParams.calc_display) && negb (Nat.eqb size 0) then RUn 3
             else
               let p := if two then SR.Model.Estruct.mkpic false size 0 else SR.Model.Estruct.mkpic (Nat.eqb sl 1) (size - sl) 0 in
               match SR.Model.Estruct.calcsize u p with
               | Ok n => ROk n
               | Err ex => RErr ex
               end
         end).
Proof.
  intros e H. unfold reparse_agrees in H. apply andb_true_iff in H as [H P]. apply andb_true_iff in H as [C U].
  apply Nat.leb_le in C. apply N.eqb_eq in U. apply optstr_eqb_eq in P.
  unfold calcsize_text, calcsize_items. rewrite (est_loop_summary _ _ C), U, P. reflexivity.
Qed.

(* ---- two printings of the same clauses: similar entries and clause values ---- *)
Import SR.Spec.Clauses.

Lemma normal_same_clauses : forall e e', same_clauses e e' -> ce_ok e = true -> ce_ok e' = true ->
  normal (ce_dict e) = normal (ce_dict e').
Proof.
  intros e e' (E1 & E2 & P) OK OK'. unfold ce_ok in OK, OK'.
  apply andb_true_iff in OK as [OK _]. apply andb_true_iff in OK as [Pr _].
  apply andb_true_iff in OK' as [OK' _]. apply andb_true_iff in OK' as [Pr' _].
  unfold printable in Pr, Pr'. apply andb_true_iff in Pr as [ND I]. apply andb_true_iff in Pr' as [ND' I'].
  unfold ce_dict. rewrite (SR.Proofs.ClausesP.expected_content _ _ I), (SR.Proofs.ClausesP.expected_content _ _ I').
  apply SR.Proofs.ClausesP.abstract_perm; assumption.
Qed.

Lemma filler_same : forall d d', normal d = normal d' ->
  match lookup 13 d with Some f => SR.Spec.Clauses.str_eqb f K_FILLER | None => true end = true ->
  match lookup 13 d' with Some f => SR.Spec.Clauses.str_eqb f K_FILLER | None => true end = true ->
  lookup 13 d = lookup 13 d'.
Proof.
  intros d d' N F F'. pose proof (SR.Proofs.ClausesP.lookup_normal 13 d) as A. pose proof (SR.Proofs.ClausesP.lookup_normal 13 d') as B.
  rewrite N in A. rewrite A in B.
  destruct (lookup 13 d) as [f|], (lookup 13 d') as [f'|]; cbn [option_map] in B; try discriminate; [|reflexivity].
  assert (Q : forall a b, SR.Spec.Clauses.str_eqb a b = true -> a = b).
  { induction a as [|x a IH]; intros [|y b] H; cbn [SR.Spec.Clauses.str_eqb] in H; try discriminate; [reflexivity|].
    apply andb_true_iff in H as [H1 H2]. apply N.eqb_eq in H1. subst. rewrite (IH b H2). reflexivity. }
  rewrite (Q _ _ F), (Q _ _ F'). reflexivity.
Qed.

Lemma kept_infos_sim : forall xs xs', Forall2 (fun x x' => isim x x' /\ info_skipped x = info_skipped x') xs xs' ->
  Forall2 isim (kept_infos xs) (kept_infos xs').
Proof.
  intros xs xs' F. destruct F as [|x x' xs xs' [Hx _] F]; cbn [kept_infos]; [constructor|]. constructor; [exact Hx|].
  induction F as [|y y' xs xs' [Hy Sy] F IH]; cbn [filter]; [constructor|]. rewrite <- Sy.
  destruct (negb (info_skipped y)); [constructor; assumption|exact IH].
Qed.


Require SR.Model.JsonType SR.Model.Estruct SR.Gen.EstructParams SR.Gen.JsonTypeParams.
(* the numbering convention of Gen/EstructParams.v: the decoder's pattern still lists the words in this order *)
Lemma est_words_numbering :
  map (fun w => index_of w est_usage_words 0)
      [[66; 73; 78; 65; 82; 89]; [67; 79; 77; 80; 45; 51]; [67; 79; 77; 80]; [68; 73; 83; 80; 76; 65; 89];
       [80; 65; 67; 75; 69; 68; 45; 68; 69; 67; 73; 77; 65; 76]; [67; 79; 77; 80; 45; 49]; [67; 79; 77; 80; 45; 50]]
  = [Some 0; Some 8; Some 10; Some 11; Some 12; Some 6; Some 7]%N /\ length est_usage_words = 13%nat /\ est_pic_words = [w_PIC; w_PICTURE].
Proof. repeat split; reflexivity. Qed.

(* ================================================================ the spellings of one usage family *)
(* what json_type and calcsize look at of a usage number *)
Definition jt_class (u : N) : bool * res (N * N * N) :=
  (SR.Model.Estruct.mem u SR.Gen.JsonTypeParams.jt_display, SR.Model.JsonType.chain u SR.Gen.JsonTypeParams.jt_branches).
Definition calc_class (u : N) : list bool :=
  map (SR.Model.Estruct.mem u) [SR.Gen.EstructParams.calc_display; SR.Gen.EstructParams.calc_packed; SR.Gen.EstructParams.calc_float4;
                               SR.Gen.EstructParams.calc_float8; SR.Gen.EstructParams.calc_binary].

Lemma json_type_class : forall u u' txt, jt_class u = jt_class u' -> SR.Model.JsonType.json_type u txt = SR.Model.JsonType.json_type u' txt.
Proof.
  intros u u' txt H. unfold jt_class in H. pose proof (f_equal fst H) as H1. pose proof (f_equal snd H) as H2. cbn [fst snd] in H1, H2.
  unfold SR.Model.JsonType.json_type. rewrite H1, H2. reflexivity.
Qed.

Lemma calcsize_class : forall u u' p, calc_class u = calc_class u' -> SR.Model.Estruct.calcsize u p = SR.Model.Estruct.calcsize u' p.
Proof.
  intros u u' p H. unfold calc_class in H. cbn [map] in H.
  pose proof (f_equal (fun l => nth 0 l false) H) as H1. pose proof (f_equal (fun l => nth 1 l false) H) as H2.
  pose proof (f_equal (fun l => nth 2 l false) H) as H3. pose proof (f_equal (fun l => nth 3 l false) H) as H4.
  pose proof (f_equal (fun l => nth 4 l false) H) as H5. cbn [nth] in H1, H2, H3, H4, H5.
  unfold SR.Model.Estruct.calcsize. rewrite H1, H2, H3, H4, H5. reflexivity.
Qed.

(* usage numbers (positions in the decoder's word list) whose words have the same content *)
Definition word_of (u : N) : str := nth (N.to_nat u) est_usage_words [].

Definition R13 : list N := [0;1;2;3;4;5;6;7;8;9;10;11;12].

Lemma family_classes : forall u u', In u R13 -> In u' R13 -> norm_value 11 (word_of u) = norm_value 11 (word_of u') ->
  jt_class u = jt_class u' /\ calc_class u = calc_class u'.
Proof.
  intros u u' Hu Hu' E. unfold R13 in Hu, Hu'. cbn [In] in Hu, Hu'.
  repeat (destruct Hu as [<-|Hu];
          [repeat (destruct Hu' as [<-|Hu']; [first [ (vm_compute in E; discriminate E) | (split; vm_compute; reflexivity) ] | ]); contradiction | ]);
  contradiction.
Qed.

Lemma clauses_str_eqb_eq : forall a b, SR.Spec.Clauses.str_eqb a b = true -> a = b.
Proof.
  induction a as [|x a IH]; intros [|y b] H; cbn [SR.Spec.Clauses.str_eqb] in H; try discriminate; [reflexivity|].
  apply andb_true_iff in H as [H1 H2]. apply N.eqb_eq in H1. subst. rewrite (IH b H2). reflexivity.
Qed.

Lemma index_of_spec : forall w l i u, index_of w l i = Some u ->
  (N.to_nat i <= N.to_nat u < N.to_nat i + length l)%nat /\ nth (N.to_nat u - N.to_nat i) l [] = w.
Proof.
  intros w. induction l as [|x l IH]; intros i u H; cbn [index_of] in H; [discriminate|].
  destruct (SR.Model.Structure.str_eqb x w) eqn:E.
  - injection H as <-. apply StructureP.str_eqb_eq in E. subst x. cbn [length]. split; [lia|]. rewrite Nat.sub_diag. reflexivity.
  - destruct (IH _ _ H) as [R Nn]. cbn [length]. split; [lia|].
    replace (N.to_nat u - N.to_nat i)%nat with (S (N.to_nat u - N.to_nat (i + 1)))%nat by lia. exact Nn.
Qed.

Lemma in_R13 : forall u, (N.to_nat u < 13)%nat -> In u R13.
Proof.
  intros u H. unfold R13. assert (C : (u = 0 \/ u = 1 \/ u = 2 \/ u = 3 \/ u = 4 \/ u = 5 \/ u = 6 \/ u = 7 \/ u = 8 \/ u = 9 \/ u = 10 \/ u = 11 \/ u = 12)%N) by lia.
  cbn [In]. intuition.
Qed.

Lemma index_word : forall w u, index_of w est_usage_words 0 = Some u -> In u R13 /\ word_of u = w.
Proof.
  intros w u H. destruct (index_of_spec _ _ _ _ H) as [R Nn]. change (length est_usage_words) with 13%nat in R. cbn in R.
  split; [apply in_R13; lia|]. unfold word_of. rewrite Nat.sub_0_r in Nn. exact Nn.
Qed.

(* the decoder's scanner only reports positions of its own word list *)
Lemma est_usage_from_range : forall b ws i s u r, est_usage_from_b b ws i s = Some (u, r) ->
  (N.to_nat i <= N.to_nat u < N.to_nat i + length ws)%nat.
Proof.
  intros b. induction ws as [|w ws IH]; intros i s u r H; cbn [est_usage_from_b] in H; [discriminate|].
  destruct (lit_cs w s) as [rest|].
  - destruct (est_after_ok b rest); [injection H as <- _; cbn [length]; lia|]. specialize (IH _ _ _ _ H). cbn [length]. lia.
  - specialize (IH _ _ _ _ H). cbn [length]. lia.
Qed.

Lemma first_some_in : forall (A B : Type) (f : A -> option B) l y, SR.Model.Clauses.first_some f l = Some y -> exists x, In x l /\ f x = Some y.
Proof.
  intros A B f. induction l as [|x l IH]; intros y H; cbn [SR.Model.Clauses.first_some] in H; [discriminate|].
  destruct (f x) eqn:E; [injection H as <-; exists x; split; [left; reflexivity|exact E]|].
  destruct (IH y H) as (x0 & I & F). exists x0. split; [right; exact I|exact F].
Qed.

Lemma est_token_usage_range : forall b prev s u r, est_token_at_b b prev s = Some (EUsage u, r) -> In u R13.
Proof.
  intros b prev s u r H. unfold est_token_at_b in H. destruct (est_before_ok b prev); [|discriminate].
  destruct (est_alt_usage_b b s) as [[v r0]|] eqn:E.
  - injection H as <- _. unfold est_alt_usage_b in E. destruct (first_some_in _ _ _ _ _ E) as (x & _ & F).
    unfold est_usage_at_b in F. pose proof (est_usage_from_range _ _ _ _ _ _ F) as R. change (length est_usage_words) with 13%nat in R.
    apply in_R13. cbn in R. lia.
  - destruct (est_alt_picture s) as [[p r0]|]; discriminate.
Qed.

Lemma last_usage_range_b : forall b s prev skip u0, In u0 R13 -> In (last_usage (est_scan_b b prev skip s) u0) R13.
Proof.
  intros b. induction s as [|c t IH]; intros prev skip u0 H; cbn [est_scan_b last_usage]; [exact H|].
  destruct skip as [|k]; [|apply IH; exact H].
  destruct (est_token_at_b b prev (c :: t)) as [[[v|p] rest]|] eqn:E; cbn [last_usage]; try (apply IH; exact H).
  apply IH. apply (est_token_usage_range _ _ _ _ _ E).
Qed.

Lemma last_usage_range : forall s prev skip u0, In u0 R13 -> In (last_usage (est_scan prev skip s) u0) R13.
Proof. intros. apply last_usage_range_b. assumption. Qed.

Lemma reparse_usage_range : forall e, reparse_agrees e = true -> In (usage_number (spec_info e)) R13.
Proof.
  intros e H. unfold reparse_agrees in H. apply andb_true_iff in H as [H _]. apply andb_true_iff in H as [_ U]. apply N.eqb_eq in U.
  rewrite <- U. unfold est_items, est_items_b. apply last_usage_range_b. unfold usage_DISPLAY, R13. cbn [In]. intuition.
Qed.

Lemma usage_classes : forall e e', normal (ce_dict e) = normal (ce_dict e') -> reparse_agrees e = true -> reparse_agrees e' = true ->
  jt_class (usage_number (spec_info e)) = jt_class (usage_number (spec_info e'))
  /\ calc_class (usage_number (spec_info e)) = calc_class (usage_number (spec_info e')).
Proof.
  intros e e' N RA RA'. pose proof (reparse_usage_range e RA) as Ru. pose proof (reparse_usage_range e' RA') as Ru'.
  pose proof (SR.Proofs.ClausesP.lookup_normal 11 (ce_dict e)) as A. pose proof (SR.Proofs.ClausesP.lookup_normal 11 (ce_dict e')) as B.
  rewrite N in A. rewrite A in B. clear A.
  unfold usage_number, spec_info in *. cbn [i_usage] in *.
  destruct (lookup 11 (ce_dict e)) as [w|], (lookup 11 (ce_dict e')) as [w'|]; cbn [option_map] in B; try discriminate.
  - injection B as B.
    destruct (index_of w est_usage_words 0) as [u|] eqn:Eu.
    2:{ exfalso. unfold R13 in Ru. cbn [In] in Ru. intuition discriminate. }
    destruct (index_of w' est_usage_words 0) as [u'|] eqn:Eu'.
    2:{ exfalso. unfold R13 in Ru'. cbn [In] in Ru'. intuition discriminate. }
    destruct (index_word _ _ Eu) as [I1 W1]. destruct (index_word _ _ Eu') as [I2 W2].
    apply family_classes; [assumption|assumption|]. rewrite W1, W2. exact B.
  - split; reflexivity.
Qed.

Lemma formula_class : forall u u' p (K : N -> list SR.Model.Picture.elt -> R N),
  (forall es, K u es = K u' es) ->
  rbind (est_formula u p) (fun up => let (v, es) := up in K v es) = rbind (est_formula u' p) (fun up => let (v, es) := up in K v es).
Proof.
  intros u u' p K H. unfold est_formula. destruct p as [q|]; cbn [rbind]; [|apply H].
  destruct (SR.Model.Picture.dec_normalize q) as [[es|e]|]; cbn [rbind]; try reflexivity. apply H.
Qed.

Lemma respell_sim2 : forall e e', same_clauses e e' -> ce_ok e = true -> ce_ok e' = true ->
  has 0 (ce_dict e) = false -> has 0 (ce_dict e') = false -> respelling_domain e = true -> respelling_domain e' = true ->
  esim (spec_entry e) (spec_entry e') /\ isim (spec_info e) (spec_info e')
  /\ info_skipped (spec_info e) = info_skipped (spec_info e').
Proof.
  intros e e' SC OK OK' NR NR' RD RD'.
  pose proof (normal_same_clauses e e' SC OK OK') as N. destruct SC as (E1 & E2 & _).
  unfold respelling_domain in RD, RD'. apply andb_true_iff in RD as [FX RA]. apply andb_true_iff in RD' as [FX' RA'].
  unfold filler_exact in FX, FX'.
  assert (L14 := lookup_verbatim 14 _ _ N (fun v => eq_refl)). assert (L7 := lookup_verbatim 7 _ _ N (fun v => eq_refl)).
  assert (L6 := lookup_verbatim 6 _ _ N (fun v => eq_refl)). assert (L5 := lookup_verbatim 5 _ _ N (fun v => eq_refl)).
  assert (L4 := lookup_verbatim 4 _ _ N (fun v => eq_refl)). assert (L13 := filler_same _ _ N FX FX').
  assert (IP : i_pic (spec_info e) = i_pic (spec_info e')) by exact L7.
  destruct (usage_classes e e' N RA RA') as [JC CC].
  split; [|split].
  - unfold esim, spec_entry. cbn [elv dde_name ename efill eredef epic eocc etext fst snd]. unfold has in *.
    rewrite L14, L13, L7, L6, L4, E1, E2.
    destruct (lookup 0 (ce_dict e)); [discriminate|]. destruct (lookup 0 (ce_dict e')); [discriminate|].
    repeat split.
    rewrite <- E1, <- E2. rewrite (calcsize_agrees e RA). rewrite E1, E2. rewrite (calcsize_agrees e' RA'). rewrite <- IP.
    apply (formula_class _ _ _ (fun v es =>
         match SR.Model.Picture.size_loop es 0 with
         | Err ex => RErr ex
         | Ok size =>
             let sl := length (SR.Model.Picture.g_sign (SR.Model.Picture.digit_groups es)) in
             let two := (2 <=? sl)%nat in
             if two && SR.Model.Estruct.mem v SR.Gen.EstructParams.calc_packed && negb (SR.Model.Estruct.mem v SR.Gen.EstructParams.calc_display) && negb (Nat.eqb size 0) then RUn 3
             else
               let p := if two then SR.Model.Estruct.mkpic false size 0 else SR.Model.Estruct.mkpic (Nat.eqb sl 1) (size - sl) 0 in
               match SR.Model.Estruct.calcsize v p with
               | Ok n => ROk n
               | Err ex => RErr ex
               end
         end)).
    intros es. pose proof (f_equal (fun l => nth 0 l false) CC) as C0. pose proof (f_equal (fun l => nth 1 l false) CC) as C1.
    unfold calc_class in C0, C1. cbn [map nth] in C0, C1.
    destruct (SR.Model.Picture.size_loop es 0) as [size|ex]; [|reflexivity]. cbv zeta. rewrite C0, C1.
    rewrite (calcsize_class _ _ _ CC). reflexivity.
  - unfold isim. split.
    + unfold max_items_doc, spec_info. cbn [i_dep i_occ]. rewrite L5, L6. reflexivity.
    + unfold json_type_kvs. rewrite <- IP. rewrite (json_type_class _ _ _ JC). reflexivity.
  - unfold info_skipped, spec_info, spec_entry. cbn [i_entry elv]. rewrite E1, E2. reflexivity.
Qed.

Theorem respelling_docs : forall es tail seqs es' tail' seqs',
  Forall2 same_clauses es es' ->
  copybook_ok es tail seqs = true -> copybook_ok es' tail' seqs' = true ->
  no_redefines es = true -> no_redefines es' = true ->
  forallb respelling_domain es = true -> forallb respelling_domain es' = true ->
  strip_outcome (schemas_of_text (print_copybook es tail seqs)) = strip_outcome (schemas_of_text (print_copybook es' tail' seqs')).
Proof.
  intros es tail seqs es' tail' seqs' SC OK OK' NR NR' RD RD'.
  destruct (end_to_end_noredef es tail seqs OK NR) as (f & xf & Hf & A & R & Q & S).
  destruct (end_to_end_noredef es' tail' seqs' OK' NR') as (f' & xf' & Hf' & A' & R' & Q' & S').
  rewrite S, S'.
  (* entry by entry *)
  assert (OKe : forallb ce_ok es = true).
  { unfold copybook_ok in OK. apply andb_true_iff in OK as [OK _]. apply andb_true_iff in OK as [OK _]. exact OK. }
  assert (OKe' : forallb ce_ok es' = true).
  { unfold copybook_ok in OK'. apply andb_true_iff in OK' as [OK' _]. apply andb_true_iff in OK' as [OK' _]. exact OK'. }
  assert (ALL : Forall2 (fun e e' => esim (spec_entry e) (spec_entry e') /\ isim (spec_info e) (spec_info e')
                                     /\ info_skipped (spec_info e) = info_skipped (spec_info e')) es es').
  { clear - SC OKe OKe' NR NR' RD RD'. unfold no_redefines in NR, NR'. revert OKe OKe' NR NR' RD RD'.
    induction SC as [|e e' es es' Se SC IH]; intros OKe OKe' NR NR' RD RD'; [constructor|].
    cbn [forallb] in *.
    apply andb_true_iff in OKe as [O1 O2]. apply andb_true_iff in OKe' as [O1' O2'].
    apply andb_true_iff in NR as [N1 N2]. apply andb_true_iff in NR' as [N1' N2'].
    apply andb_true_iff in RD as [D1 D2]. apply andb_true_iff in RD' as [D1' D2'].
    apply negb_true_iff in N1. apply negb_true_iff in N1'.
    constructor; [apply respell_sim2; assumption|apply IH; assumption]. }
  assert (ES : Forall2 esim (map spec_entry es) (map spec_entry es')).
  { clear - ALL. induction ALL as [|e e' es es' (H & _) ALL IH]; cbn [map]; constructor; assumption. }
  assert (IS : Forall2 (fun x x' => isim x x' /\ info_skipped x = info_skipped x') (map spec_info es) (map spec_info es')).
  { clear - ALL. induction ALL as [|e e' es es' (_ & H) ALL IH]; cbn [map]; constructor; assumption. }
  (* the forests *)
  assert (NE : mk_ddes 0 (map spec_entry es) <> []).
  { pose proof (copybook_nonempty es tail seqs OK) as N. destruct es as [|e es]; [congruence|]. cbn [map mk_ddes]. destruct (is_filler (spec_entry e)); discriminate. }
  destruct (structure_ddes_sim dsim dsim_lv dsim_nr _ _ (mk_ddes_sim _ _ ES 0%N) NE) as (f0 & f0' & H0 & H0' & T).
  unfold structure in Hf, Hf'. rewrite H0 in Hf. rewrite H0' in Hf'. injection Hf as <-. injection Hf' as <-.
  pose proof (kept_infos_sim _ _ IS) as KS. rewrite <- Q, <- Q' in KS. rewrite <- R, <- R' in T.
  pose proof (docs_of_sim _ _ (xsim_forest _ _ T KS)) as DS.
  destruct (docs_of xf) as [l|e|w], (docs_of xf') as [l'|e'|w']; try contradiction; cbn [to_outcome strip_outcome]; subst; try reflexivity.
  rewrite DS. reflexivity.
Qed.

(* ================================================================ the REDEFINES-aware specification agrees with docs_of
   where nothing is redefined *)
Theorem doc_r_noredef : (forall t, noredef t = true -> doc_r t = doc_of t)
  /\ (forall ks, noredef_f ks = true -> forall acc, docs_kids_r ks acc = docs_kids ks acc /\ docs_kids_o ks acc = docs_kids ks acc).
Proof.
  apply xtree_xforest_ind.
  - intros d b x kids IH NR. cbn [noredef] in NR. apply andb_true_iff in NR as [_ NRk]. cbn [doc_r doc_of].
    destruct (IH NRk []) as [E1 E2]. rewrite E1, E2. reflexivity.
  - intros _ acc. split; reflexivity.
  - intros k IHk r IHr NR acc. cbn [noredef_f] in NR. apply andb_true_iff in NR as [NRk NRr].
    cbn [docs_kids_r docs_kids_o docs_kids].
    assert (X : xeff_redef k = None).
    { destruct k as [d b x kids]. cbn [noredef] in NRk. apply andb_true_iff in NRk as [NRk _]. apply andb_true_iff in NRk as [Hb Hr].
      unfold xeff_redef. destruct b; [discriminate|]. destruct (eredef (de d)); [discriminate|reflexivity]. }
    rewrite X, (IHk NRk). split; destruct (doc_of k) as [dk| |]; cbn [rbind]; try reflexivity; apply (IHr NRr).
Qed.

Theorem docs_r_noredef : forall f, forallb noredef f = true -> docs_r f = docs_of f.
Proof.
  induction f as [|t f IH]; intros H; [reflexivity|]. cbn [forallb] in H. apply andb_true_iff in H as [Ht Hf].
  cbn [docs_r docs_of]. destruct doc_r_noredef as [D _]. rewrite (D t Ht), (IH Hf). reflexivity.
Qed.

(* ================================================================ the schema maker WITH REDEFINES *)
Module Redef.
Import SR.Model.Structure.
Local Notation dict := SR.Model.Pipeline.dict.
Local Notation str := SR.Model.Pipeline.str.
Local Notation mst := SR.Model.Pipeline.mst.
Local Notation names := SR.Model.Pipeline.names.
Local Notation heap := SR.Model.Pipeline.heap.
Local Notation hget := SR.Model.Pipeline.hget.
Local Notation hupd := SR.Model.Pipeline.hupd.
Local Notation alloc := SR.Model.Pipeline.alloc.
Local Notation reg := SR.Model.Pipeline.reg.
Local Notation reify := SR.Model.Pipeline.reify.
Local Notation build := SR.Model.Pipeline.build.
Local Notation redef_pre := SR.Model.Pipeline.redef_pre.
Local Notation build_tree := SR.Model.Pipeline.build_tree.
Local Notation build_all := SR.Model.Pipeline.build_all.
Local Notation redef_post := SR.Model.Pipeline.redef_post.

(* ================================================================ emission with REDEFINES *)
Definition redkey (k : str) : bool := is_pre REDEFINES_dash k.

Definition clear_of (loose : list nat) (b e : nat) : Prop := Forall (fun o => (o < b \/ e <= o)%nat) loose.

Inductive ER (H : list dict) (L : nat) (loose : list nat) : str * val -> str * jdoc -> Prop :=
| er_child : forall k cid d b e, redkey k = false -> (L <= b)%nat -> window H cid d b e -> clear_of loose b e ->
    ER H L loose (k, VObj cid) (k, d)
| er_oneof : forall k oid ids docs, redkey k = true -> (L <= oid)%nat -> In oid loose ->
    nth_error H oid = Some [(k_oneOf, VArr ids); (k_anchor, VStr k)] ->
    Forall2 (fun id d => exists b e, (L <= b)%nat /\ window H id d b e /\ clear_of loose b e) ids docs ->
    ER H L loose (k, VObj oid) (k, JObj [(k_oneOf, JArr docs); (k_anchor, JStr k)]).

Definition PR2 (H : list dict) (L : nat) (loose : list nat) (pc : dict) (pa : list (str * jdoc)) : Prop :=
  Forall2 (ER H L loose) pc pa /\ NoDup (map fst pc) /\ Forall (fun o => (L <= o < length H)%nat) loose.

Lemma ER_key : forall H L loose x y, ER H L loose x y -> fst x = fst y.
Proof. intros H L loose x y E. destruct E; reflexivity. Qed.

(* the heap changes only outside the windows and the loose cells (or grows) *)
Lemma ER_mono : forall H H1 L loose x y, ER H L loose x y ->
  (forall i, (L <= i < length H)%nat -> nth_error H1 i = nth_error H i) -> (length H <= length H1)%nat ->
  Forall (fun o => (L <= o < length H)%nat) loose -> ER H1 L loose x y.
Proof.
  intros H H1 L loose x y E A Len LO. destruct E as [k cid d b e K Lb W C|k oid ids docs K Lo I N F].
  - apply (er_child _ _ _ _ _ _ b e); try assumption. apply (window_mono H); [exact W| |exact Len].
    intros i Hi. apply A. destruct W as (_ & He & _). lia.
  - apply (er_oneof _ _ _ _ oid ids docs); try assumption.
    + rewrite A; [exact N|]. rewrite Forall_forall in LO. apply (LO oid I).
    + clear N. induction F as [|id d ids docs (b & e & Lb & W & C) F IH]; constructor; [|exact IH].
      exists b, e. split; [exact Lb|]. split; [|exact C]. apply (window_mono H); [exact W| |exact Len].
      intros i Hi. apply A. destruct W as (_ & He & _). lia.
Qed.

Lemma PR2_mono : forall H H1 L loose pc pa, PR2 H L loose pc pa ->
  (forall i, (L <= i < length H)%nat -> nth_error H1 i = nth_error H i) -> (length H <= length H1)%nat -> PR2 H1 L loose pc pa.
Proof.
  intros H H1 L loose pc pa (F & ND & LO) A Len. split; [|split; [exact ND|]].
  - induction F as [|x y pc pa E F IH]; constructor; [apply (ER_mono H); assumption|]. apply IH. inversion ND; assumption.
  - rewrite Forall_forall in *. intros o Ho. specialize (LO o Ho). lia.
Qed.

Lemma dset_keys_fresh : forall k v (pc : dict), ~ In k (map fst pc) -> dset k v pc = pc ++ [(k, v)].
Proof.
  intros k v. induction pc as [|[k1 v1] pc IH]; intros N; [reflexivity|]. cbn [dset map fst app] in *.
  destruct (str_eqb k1 k) eqn:E; [apply StructureP.str_eqb_eq in E; subst; exfalso; apply N; left; reflexivity|].
  rewrite IH; [reflexivity|]. intros I. apply N. right. exact I.
Qed.

Lemma dset_keys : forall k v (pc : dict), map fst (dset k v pc) = if existsb (str_eqb k) (map fst pc) then map fst pc else map fst pc ++ [k].
Proof.
  intros k v. induction pc as [|[k1 v1] pc IH]; [reflexivity|]. cbn [dset map fst existsb].
  destruct (str_eqb k1 k) eqn:E.
  - apply StructureP.str_eqb_eq in E. subst k1. rewrite StructureP.str_eqb_refl. reflexivity.
  - cbn [map fst]. rewrite IH. assert (E2 : str_eqb k k1 = false).
    { destruct (str_eqb k k1) eqn:E2; [|reflexivity]. apply StructureP.str_eqb_eq in E2. subst. rewrite StructureP.str_eqb_refl in E. discriminate. }
    rewrite E2. cbn [orb]. destruct (existsb (str_eqb k) (map fst pc)); reflexivity.
Qed.

Lemma existsb_str_In : forall k l, existsb (str_eqb k) l = true <-> In k l.
Proof.
  intros k l. rewrite existsb_exists. split.
  - intros (x & I & E). apply StructureP.str_eqb_eq in E. subst. exact I.
  - intros I. exists k. split; [exact I|apply StructureP.str_eqb_refl].
Qed.

Lemma dset_nodup : forall k v (pc : dict), NoDup (map fst pc) -> NoDup (map fst (dset k v pc)).
Proof.
  intros k v pc ND. rewrite dset_keys. destruct (existsb (str_eqb k) (map fst pc)) eqn:E; [exact ND|].
  assert (N : ~ In k (map fst pc)) by (intros I; apply existsb_str_In in I; congruence).
  clear E. induction (map fst pc) as [|x l IH]; cbn [app]; [constructor; [intros []|constructor]|].
  inversion ND as [|? ? Nx ND']; subst. constructor.
  - intros I. apply in_app_or in I as [I|[I|[]]]; [exact (Nx I)|subst; apply N; left; reflexivity].
  - apply IH; [exact ND'|]. intros I. apply N. right. exact I.
Qed.

Lemma F2_ER_dset : forall H L loose pc pa k cid doc b e, Forall2 (ER H L loose) pc pa ->
  redkey k = false -> (L <= b)%nat -> window H cid doc b e -> clear_of loose b e ->
  Forall2 (ER H L loose) (dset k (VObj cid) pc) (jset k doc pa).
Proof.
  intros H L loose pc pa k cid doc b e F K Lb W C.
  induction F as [|[k1 v1] [k2 d2] pc pa E F IH]; cbn [dset jset].
  - constructor; [apply (er_child _ _ _ _ _ _ b e); assumption|constructor].
  - pose proof (ER_key _ _ _ _ _ E) as EK. cbn [fst] in EK. subst k2. destruct (str_eqb k1 k) eqn:Q.
    + apply StructureP.str_eqb_eq in Q. subst k1. constructor; [apply (er_child _ _ _ _ _ _ b e); assumption|exact F].
    + constructor; [exact E|exact IH].
Qed.

Lemma PR2_dset_child : forall H L loose pc pa k cid doc b e, PR2 H L loose pc pa ->
  redkey k = false -> (L <= b)%nat -> window H cid doc b e -> clear_of loose b e ->
  PR2 H L loose (dset k (VObj cid) pc) (jset k doc pa).
Proof.
  intros H L loose pc pa k cid doc b e (F & ND & LO) K Lb W C. split; [apply (F2_ER_dset _ _ _ _ _ _ _ _ b e); assumption|].
  split; [apply dset_nodup; exact ND|exact LO].
Qed.

Lemma clear_cons : forall o loose b e, (e <= o)%nat -> clear_of loose b e -> clear_of (o :: loose) b e.
Proof. intros. constructor; [right; assumption|assumption]. Qed.

Lemma ER_add_loose : forall H L loose x y cell, ER H L loose x y -> Forall (fun o => (L <= o < length H)%nat) loose ->
  ER (H ++ [cell]) L (length H :: loose) x y.
Proof.
  intros H L loose x y cell E LO.
  assert (A : forall i, (L <= i < length H)%nat -> nth_error (H ++ [cell]) i = nth_error H i) by (intros i Hi; apply nth_app_lt; lia).
  assert (Len : (length H <= length (H ++ [cell]))%nat) by (rewrite app_length; lia).
  destruct E as [k cid d b e K Lb W C|k oid ids docs K Lo I N F].
  - apply (er_child _ _ _ _ _ _ b e); try assumption.
    + apply (window_mono H); [exact W| |exact Len]. intros i Hi. apply A. destruct W as (_ & He & _). lia.
    + apply clear_cons; [destruct W as (_ & He & _); exact He|exact C].
  - apply (er_oneof _ _ _ _ oid ids docs); try assumption.
    + right. exact I.
    + rewrite A; [exact N|]. rewrite Forall_forall in LO. apply (LO oid I).
    + clear N. induction F as [|id d ids docs (b & e & Lb & W & C) F IH]; constructor; [|exact IH].
      exists b, e. split; [exact Lb|]. split.
      * apply (window_mono H); [exact W| |exact Len]. intros i Hi. apply A. destruct W as (_ & He & _). lia.
      * apply clear_cons; [destruct W as (_ & He & _); exact He|exact C].
Qed.

Lemma PR2_new_oneof : forall H L loose pc pa key, PR2 H L loose pc pa -> ~ In key (map fst pc) -> redkey key = true -> (L <= length H)%nat ->
  PR2 (H ++ [[(k_oneOf, VArr []); (k_anchor, VStr key)]]) L (length H :: loose) (pc ++ [(key, VObj (length H))]) (pa ++ [(key, oneof_new key)]).
Proof.
  intros H L loose pc pa key (F & ND & LO) NI K LH. split; [|split].
  - apply Forall2_app.
    + clear ND NI. induction F as [|x y pc pa E F IH]; constructor; [apply ER_add_loose; assumption|exact IH].
    + constructor; [|constructor]. unfold oneof_new. apply (er_oneof _ _ _ _ (length H) [] []); try assumption.
      * left. reflexivity.
      * apply nth_app_at0.
      * constructor.
  - rewrite map_app. cbn [map fst]. clear F. induction (map fst pc) as [|x l IH]; cbn [app]; [constructor; [intros []|constructor]|].
    inversion ND as [|? ? Nx ND']; subst. constructor.
    + intros I. apply in_app_or in I as [I|[I|[]]]; [exact (Nx I)|subst; apply NI; left; reflexivity].
    + apply IH; [exact ND'|]. intros I. apply NI. right. exact I.
  - constructor; [rewrite app_length; cbn [length]; lia|]. rewrite Forall_forall in *. intros o Ho. specialize (LO o Ho). rewrite app_length. lia.
Qed.

Lemma clear_In : forall loose b e o, clear_of loose b e -> In o loose -> (o < b \/ e <= o)%nat.
Proof. intros loose b e o C I. unfold clear_of in C. rewrite Forall_forall in C. apply (C o I). Qed.

Lemma window_upd : forall H id d b e o f, window H id d b e -> (o < b \/ e <= o)%nat ->
  window (list_upd o f H) id d b e.
Proof.
  intros H id d b e o f W O. apply (window_mono H); [exact W| |rewrite list_upd_length; lia].
  intros i Hi. apply nth_list_upd_other. lia.
Qed.

Lemma ER_upd : forall H L loose x y o f ids0 key, ER H L loose x y -> In o loose ->
  nth_error H o = Some [(k_oneOf, VArr ids0); (k_anchor, VStr key)] -> fst x <> key ->
  ER (list_upd o f H) L loose x y.
Proof.
  intros H L loose x y o f ids0 key E I N NE. destruct E as [k cid d b e K Lb W C|k oid ids docs K Lo Io No F].
  - apply (er_child _ _ _ _ _ _ b e); try assumption. apply window_upd; [exact W|apply (clear_In _ _ _ _ C I)].
  - apply (er_oneof _ _ _ _ oid ids docs); try assumption.
    + rewrite nth_list_upd_other; [exact No|]. intros Q. subst oid. rewrite N in No. injection No as _ Q. cbn [fst] in NE. congruence.
    + clear No. induction F as [|id d ids docs (b & e & Lb & W & C) F IH]; constructor; [|exact IH].
      exists b, e. split; [exact Lb|]. split; [|exact C]. apply window_upd; [exact W|apply (clear_In _ _ _ _ C I)].
Qed.

Lemma F2_ER_upd : forall H L loose pc pa o f ids0 key, Forall2 (ER H L loose) pc pa -> In o loose ->
  nth_error H o = Some [(k_oneOf, VArr ids0); (k_anchor, VStr key)] -> ~ In key (map fst pc) ->
  Forall2 (ER (list_upd o f H) L loose) pc pa.
Proof.
  intros H L loose pc pa o f ids0 key F I N NI. induction F as [|x y pc pa E F IH]; constructor.
  - apply (ER_upd _ _ _ _ _ _ _ ids0 key); try assumption. intros Q. apply NI. left. exact Q.
  - apply IH. intros Q. apply NI. right. exact Q.
Qed.

Lemma locate : forall H L loose key v pc pa, Forall2 (ER H L loose) pc pa -> dget key pc = Some v ->
  exists c1 c2 a1 a2 d, pc = c1 ++ (key, v) :: c2 /\ pa = a1 ++ (key, d) :: a2 /\ Forall2 (ER H L loose) c1 a1
    /\ ER H L loose (key, v) (key, d) /\ Forall2 (ER H L loose) c2 a2 /\ ~ In key (map fst a1) /\ ~ In key (map fst c1).
Proof.
  intros H L loose key v pc pa F. induction F as [|[k1 v1] [k2 d2] pc pa E F IH]; intros G; cbn [dget] in G; [discriminate|].
  pose proof (ER_key _ _ _ _ _ E) as EK. cbn [fst] in EK. subst k2. destruct (str_eqb k1 key) eqn:Q.
  - apply StructureP.str_eqb_eq in Q. subst k1. injection G as ->. exists [], pc, [], pa, d2. repeat split; try assumption; try constructor; intros [].
  - destruct (IH G) as (c1 & c2 & a1 & a2 & d & P1 & P2 & F1 & E0 & F2 & N1 & N2).
    exists ((k1, v1) :: c1), c2, ((k1, d2) :: a1), a2, d. subst pc pa. repeat split; try assumption.
    + constructor; assumption.
    + cbn [map fst]. intros [I|I]; [subst; rewrite StructureP.str_eqb_refl in Q; discriminate|exact (N1 I)].
    + cbn [map fst]. intros [I|I]; [subst; rewrite StructureP.str_eqb_refl in Q; discriminate|exact (N2 I)].
Qed.

Lemma jfind_mid : forall key d (a1 a2 : list (str * jdoc)), ~ In key (map fst a1) -> jfind key (a1 ++ (key, d) :: a2) = Some d.
Proof.
  intros key d. induction a1 as [|[k v] a1 IH]; intros a2 N; cbn [app jfind]; [rewrite StructureP.str_eqb_refl; reflexivity|].
  destruct (str_eqb k key) eqn:Q; [apply StructureP.str_eqb_eq in Q; subst; exfalso; apply N; left; reflexivity|].
  apply IH. intros I. apply N. right. exact I.
Qed.

Lemma jset_mid : forall key d d' (a1 a2 : list (str * jdoc)), ~ In key (map fst a1) ->
  jset key d' (a1 ++ (key, d) :: a2) = a1 ++ (key, d') :: a2.
Proof.
  intros key d d'. induction a1 as [|[k v] a1 IH]; intros a2 N; cbn [app jset]; [rewrite StructureP.str_eqb_refl; reflexivity|].
  destruct (str_eqb k key) eqn:Q; [apply StructureP.str_eqb_eq in Q; subst; exfalso; apply N; left; reflexivity|].
  rewrite IH; [reflexivity|]. intros I. apply N. right. exact I.
Qed.

Definition alt_rel (H : list dict) (L : nat) (loose : list nat) (id : nat) (d : jdoc) : Prop :=
  exists b e, (L <= b)%nat /\ window H id d b e /\ clear_of loose b e.

Lemma alts_upd : forall H L loose ids docs o f, Forall2 (alt_rel H L loose) ids docs -> In o loose ->
  Forall2 (alt_rel (list_upd o f H) L loose) ids docs.
Proof.
  intros H L loose ids docs o f F I. induction F as [|id d ids docs (b & e & Lb & W & C) F IH]; constructor; [|exact IH].
  exists b, e. split; [exact Lb|]. split; [|exact C]. apply window_upd; [exact W|apply (clear_In _ _ _ _ C I)].
Qed.

Lemma PR2_add_alt : forall H L loose pc pa key oid cid dk b e,
  PR2 H L loose pc pa -> dget key pc = Some (VObj oid) -> redkey key = true ->
  window H cid dk b e -> (L <= b)%nat -> clear_of loose b e ->
  exists ids pa', nth_error H oid = Some [(k_oneOf, VArr ids); (k_anchor, VStr key)] /\ oneof_add key dk pa = ROk pa'
    /\ PR2 (list_upd oid (dset k_oneOf (VArr (ids ++ [cid]))) H) L loose pc pa'.
Proof.
  intros H L loose pc pa key oid cid dk b e (F & ND & LO) G K W Lb C.
  destruct (locate _ _ _ _ _ _ _ F G) as (c1 & c2 & a1 & a2 & d & P1 & P2 & F1 & E0 & F2 & N1 & N2). subst pc pa.
  inversion E0 as [k cid0 d0 b0 e0 K0 _ _ _|k oid0 ids docs K0 Lo Io No Fa]; subst; [congruence|].
  fold (alt_rel H L loose) in Fa.
  exists ids. eexists. split; [exact No|]. split.
  - unfold oneof_add. rewrite (jfind_mid _ _ _ _ N1). cbn [jfind]. change (str_eqb k_oneOf k_oneOf) with true. cbv iota.
    rewrite (jset_mid _ _ _ _ _ N1). cbn [jset]. change (str_eqb k_oneOf k_oneOf) with true. cbv iota. reflexivity.
  - assert (NK2 : ~ In key (map fst c2)).
    { rewrite map_app in ND. cbn [map fst] in ND. apply NoDup_remove_2 in ND. intros I. apply ND. apply in_or_app. right. exact I. }
    split; [|split; [exact ND|]].
    + apply Forall2_app; [apply (F2_ER_upd _ _ _ _ _ _ _ ids key); assumption|]. constructor.
      * apply (er_oneof _ _ _ _ oid (ids ++ [cid]) (docs ++ [dk])); try assumption.
        -- rewrite nth_list_upd_same, No. cbn [option_map dset]. change (str_eqb k_oneOf k_oneOf) with true. cbv iota. reflexivity.
        -- fold (alt_rel (list_upd oid (dset k_oneOf (VArr (ids ++ [cid]))) H) L loose). apply Forall2_app; [apply alts_upd; assumption|].
           constructor; [|constructor]. exists b, e. split; [exact Lb|]. split; [|exact C]. apply window_upd; [exact W|apply (clear_In _ _ _ _ C Io)].
      * apply (F2_ER_upd _ _ _ _ _ _ _ ids key); assumption.
    + rewrite list_upd_length. exact LO.
Qed.

Lemma PR2_reify : forall H L loose pc pa H' f, PR2 H L loose pc pa -> agree L (length H) H H' ->
  (length H - L <= f)%nat -> map_opt (rv f H') pc = Some pa.
Proof.
  intros H L loose pc pa H' f (F & _ & LO) A Fu.
  apply (map_opt_F2 _ _ _ _ pc pa) with (2 := F).
  intros x y E. destruct E as [k cid d b e K Lb (Hb & He & W) C|k oid ids docs K Lo I N Fa].
  - unfold rv. cbn [snd fst]. rewrite (W H' f); [reflexivity| |lia]. intros i Hi. apply A. lia.
  - rewrite Forall_forall in LO. pose proof (LO oid I) as Ro. unfold rv. cbn [snd fst].
    destruct f as [|f']; [lia|]. rewrite reify_S, (A oid) by lia. rewrite N. cbn [map_opt rv snd fst].
    assert (M : map_opt (SR.Model.Pipeline.reify f' H') ids = Some docs).
    { apply (map_opt_F2 _ _ _ _ ids docs) with (2 := Fa). intros id d (b & e & Lb & (Hb & He & W) & C).
      apply W; [intros i Hi; apply A; lia|]. pose proof (clear_In _ _ _ _ C I) as O. lia. }
    rewrite M. reflexivity.
Qed.

Lemma PR2_dget_jfind : forall H L loose pc pa key, Forall2 (ER H L loose) pc pa ->
  (dget key pc = None <-> jfind key pa = None).
Proof.
  intros H L loose pc pa key F. induction F as [|[k1 v1] [k2 d2] pc pa E F IH]; cbn [dget jfind]; [tauto|].
  pose proof (ER_key _ _ _ _ _ E) as EK. cbn [fst] in EK. subst k2. destruct (str_eqb k1 key); [split; discriminate|exact IH].
Qed.

Lemma dget_None_notin : forall key (pc : dict), dget key pc = None -> ~ In key (map fst pc).
Proof.
  intros key. induction pc as [|[k v] pc IH]; intros G; cbn [dget map fst] in *; [intros []|].
  destruct (str_eqb k key) eqn:Q; [discriminate|]. intros [I|I]; [subst; rewrite StructureP.str_eqb_refl in Q; discriminate|exact (IH G I)].
Qed.

(* ---- names ---- *)
Fixpoint unames (t : xtree) : list str :=
  match t with XNode d _ _ kids => du d :: unames_f kids end
with unames_f (ks : xforest) : list str :=
  match ks with XNil => [] | XCons k r => unames k ++ unames_f r end.

Definition names_ext (s s' : mst) (allowed : list str) : Prop :=
  exists regs, names s' = regs ++ names s /\ forall k, In k (map fst regs) -> In k allowed.

Lemma names_ext_refl : forall s l, names_ext s s l.
Proof. intros s l. exists []. split; [reflexivity|intros k []]. Qed.

Lemma names_ext_trans : forall s1 s2 s3 l1 l2 l, names_ext s1 s2 l1 -> names_ext s2 s3 l2 -> incl l1 l -> incl l2 l -> names_ext s1 s3 l.
Proof.
  intros s1 s2 s3 l1 l2 l (r1 & E1 & A1) (r2 & E2 & A2) I1 I2. exists (r2 ++ r1). split; [rewrite E2, E1, app_assoc; reflexivity|].
  intros k I. rewrite map_app in I. apply in_app_or in I as [I|I]; [apply I2, A2, I|apply I1, A1, I].
Qed.

Lemma lookup_skip : forall un (regs nm : list (str * nat)), ~ In un (map fst regs) -> lookup un (regs ++ nm) = lookup un nm.
Proof.
  intros un. induction regs as [|[k v] regs IH]; intros nm N; [reflexivity|]. cbn [app lookup map fst] in *.
  destruct (str_eqb k un) eqn:Q; [apply StructureP.str_eqb_eq in Q; subst k; exfalso; apply N; left; reflexivity|].
  apply IH. intros I. apply N. right. exact I.
Qed.

Lemma nlookup_ext : forall s s' l un, names_ext s s' l -> ~ In un l -> nlookup un s' = nlookup un s.
Proof.
  intros s s' l un (regs & E & A) N. unfold nlookup. rewrite E. apply lookup_skip. intros I. apply N, A, I.
Qed.

Lemma names_wf_notin : (forall t anc, names_wf anc t = true -> forall a, In a anc -> ~ In a (unames t))
  /\ (forall ks anc, names_wf_f anc ks = true -> forall a, In a anc -> ~ In a (unames_f ks)).
Proof.
  apply xtree_xforest_ind.
  - intros d b x kids IH anc W a Ia. cbn [names_wf] in W. apply andb_true_iff in W as [W Wk]. apply andb_true_iff in W as [Wa _].
    apply negb_true_iff in Wa. cbn [unames]. intros [I|I].
    + subst a. assert (T : existsb (str_eqb (du d)) anc = true) by (apply existsb_str_In; exact Ia). congruence.
    + apply (IH _ Wk a); [right; exact Ia|exact I].
  - intros anc _ a _ [].
  - intros k IHk r IHr anc W a Ia. cbn [names_wf_f] in W. apply andb_true_iff in W as [Wk Wr]. cbn [unames_f]. intros I.
    apply in_app_or in I as [I|I]; [exact (IHk _ Wk a Ia I)|exact (IHr _ Wr a Ia I)].
Qed.

Lemma names_wf_redkey : forall anc d b x kids, names_wf anc (XNode d b x kids) = true -> redkey (du d) = false.
Proof. intros anc d b x kids W. cbn [names_wf] in W. apply andb_true_iff in W as [W _]. apply andb_true_iff in W as [_ W]. apply negb_true_iff in W. exact W. Qed.

Lemma hget_nth : forall id s d, nth_error (heap s) id = Some d -> hget id s = d.
Proof. intros id s d H. unfold hget. apply nth_error_nth. exact H. Qed.

Lemma redkey_redef : forall tgt, redkey (redef_key tgt) = true.
Proof. intros tgt. unfold redkey, redef_key. induction REDEFINES_dash as [|c l IH]; [reflexivity|]. cbn [app is_pre]. rewrite N.eqb_refl. exact IH. Qed.

Lemma ER_val_obj : forall H L loose k v y, ER H L loose (k, v) y -> exists i, v = VObj i.
Proof. intros H L loose k v y E. inversion E; subst; eexists; reflexivity. Qed.

Lemma dget_obj : forall H L loose pc pa key v, Forall2 (ER H L loose) pc pa -> dget key pc = Some v -> exists i, v = VObj i.
Proof.
  intros H L loose pc pa key v F G. destruct (locate _ _ _ _ _ _ _ F G) as (c1 & c2 & a1 & a2 & d & _ & _ & _ & E & _).
  apply (ER_val_obj _ _ _ _ _ _ E).
Qed.

Lemma redef_pre_ok : forall un tgt s id pid L pc pa loose D,
  (pid < L)%nat -> (id < L)%nat -> id <> pid -> (L <= length (heap s))%nat ->
  nth_error (heap s) pid = Some pc -> nth_error (heap s) id = Some D -> dget k_properties D = Some (VObj pid) ->
  nlookup un s = Some id -> PR2 (heap s) L loose pc pa ->
  exists s1 pc1 loose1 oid,
    redef_pre un tgt s = ROk (pid, s1) /\ nth_error (heap s1) pid = Some pc1
    /\ PR2 (heap s1) L loose1 pc1 (match jfind (redef_key tgt) pa with Some _ => pa | None => pa ++ [(redef_key tgt, oneof_new (redef_key tgt))] end)
    /\ dget (redef_key tgt) pc1 = Some (VObj oid)
    /\ (forall i, (i < L)%nat -> i <> pid -> nth_error (heap s1) i = nth_error (heap s) i)
    /\ (length (heap s) <= length (heap s1))%nat /\ names s1 = names s.
Proof.
  intros un tgt s id pid L pc pa loose D Hp Hi Ne HL Np Ni Dp Nl P.
  unfold redef_pre. rewrite Nl, (hget_nth _ _ _ Ni), Dp, (hget_nth _ _ _ Np).
  destruct P as (F & ND & LO). pose proof (PR2_dget_jfind _ _ _ _ _ (redef_key tgt) F) as DJ.
  destruct (dget (redef_key tgt) pc) as [v|] eqn:G.
  - destruct (dget_obj _ _ _ _ _ _ _ F G) as [oid ->].
    assert (J : jfind (redef_key tgt) pa <> None) by (intros Q; apply DJ in Q; discriminate).
    destruct (jfind (redef_key tgt) pa); [|congruence].
    exists s, pc, loose, oid. repeat split; try assumption; try lia.
  - assert (J : jfind (redef_key tgt) pa = None) by (apply DJ; reflexivity). rewrite J.
    unfold alloc, hupd. cbn [heap names].
    eexists. exists (pc ++ [(redef_key tgt, VObj (length (heap s)))]), (length (heap s) :: loose), (length (heap s)).
    split; [reflexivity|]. cbn [heap names].
    assert (FR : dset (redef_key tgt) (VObj (length (heap s))) pc = pc ++ [(redef_key tgt, VObj (length (heap s)))]).
    { apply dset_keys_fresh. apply dget_None_notin. exact G. }
    split; [rewrite nth_list_upd_same, nth_app_lt by lia; rewrite Np; cbn [option_map]; rewrite FR; reflexivity|].
    split.
    { apply (PR2_mono (heap s ++ [[(k_oneOf, VArr []); (k_anchor, VStr (redef_key tgt))]])).
      - apply PR2_new_oneof; [split; [exact F|split; assumption]|apply dget_None_notin; exact G|apply redkey_redef|exact HL].
      - intros i Hi2. apply nth_list_upd_other. lia.
      - rewrite list_upd_length. apply Nat.le_refl. }
    split.
    { clear - G. induction pc as [|[k v] pc IH]; cbn [app dget] in *; [rewrite StructureP.str_eqb_refl; reflexivity|].
      destruct (str_eqb k (redef_key tgt)); [discriminate|apply IH; exact G]. }
    split; [intros i Hi2 Ne2; rewrite nth_list_upd_other by congruence; apply nth_app_lt; lia|].
    split; [rewrite list_upd_length, app_length; lia|reflexivity].
Qed.

Lemma window_strs : forall (H : list dict) l, window (H ++ [strs l]) (length H) (JObj (jstrs l)) (length H) (length H + 1).
Proof.
  intros H l. split; [lia|]. split; [rewrite app_length; cbn [length]; lia|].
  intros H' fuel A F. destruct fuel as [|f]; [lia|]. rewrite reify_S, (A (length H)) by lia. rewrite nth_app_at0. cbn [option_map].
  rewrite map_opt_strs. reflexivity.
Qed.

Definition Pt2 (t : xtree) : Prop := forall anc, names_wf anc t = true -> forall s,
  match doc_r t with
  | ROk doc => exists id s', build t s = ROk (id, s') /\ agree 0 (length (heap s)) (heap s) (heap s')
                 /\ window (heap s') id doc (length (heap s)) (length (heap s')) /\ names_ext s s' (unames t)
  | RErr e => build t s = RErr e
  | RUn w => build t s = RUn w
  end.

Definition Qgrp2 (ks : xforest) : Prop := forall anc un, names_wf_f (un :: anc) ks = true -> forall id pid L s pc pa loose D,
  (pid < L)%nat -> (id < L)%nat -> id <> pid -> (L <= length (heap s))%nat ->
  nth_error (heap s) pid = Some pc -> nth_error (heap s) id = Some D -> dget k_properties D = Some (VObj pid) ->
  nlookup un s = Some id -> PR2 (heap s) L loose pc pa ->
  match docs_kids_r ks pa with
  | ROk props => exists s' pc' loose', build_grp un ks pid s = ROk s' /\ nth_error (heap s') pid = Some pc' /\ PR2 (heap s') L loose' pc' props
       /\ (forall i, (i < L)%nat -> i <> pid -> nth_error (heap s') i = nth_error (heap s) i)
       /\ (length (heap s) <= length (heap s'))%nat /\ names_ext s s' (unames_f ks)
  | RErr e => build_grp un ks pid s = RErr e
  | RUn w => build_grp un ks pid s = RUn w
  end.

Lemma clear_below : forall loose (H : list dict) L b e, Forall (fun o => (L <= o < length H)%nat) loose -> (length H <= b)%nat -> clear_of loose b e.
Proof. intros loose H L b e LO Hb. unfold clear_of. rewrite Forall_forall in *. intros o Ho. specialize (LO o Ho). lia. Qed.

Lemma kid_facts : forall anc un k r, names_wf_f (un :: anc) (XCons k r) = true ->
  names_wf (un :: anc) k = true /\ names_wf_f (un :: anc) r = true /\ ~ In un (unames k) /\ redkey (du (xdde k)) = false.
Proof.
  intros anc un k r W. cbn [names_wf_f] in W. apply andb_true_iff in W as [Wk Wr]. split; [exact Wk|]. split; [exact Wr|]. split.
  - destruct names_wf_notin as [NW _]. apply (NW k _ Wk un). left. reflexivity.
  - destruct k as [d b x kids]. apply (names_wf_redkey _ _ _ _ _ Wk).
Qed.

Lemma Qgrp2_step_plain : forall k r, xeff_redef k = None -> Pt2 k -> Qgrp2 r -> 
  forall anc un, names_wf_f (un :: anc) (XCons k r) = true -> forall id pid L s pc pa loose D,
  (pid < L)%nat -> (id < L)%nat -> id <> pid -> (L <= length (heap s))%nat ->
  nth_error (heap s) pid = Some pc -> nth_error (heap s) id = Some D -> dget k_properties D = Some (VObj pid) ->
  nlookup un s = Some id -> PR2 (heap s) L loose pc pa ->
  match docs_kids_r (XCons k r) pa with
  | ROk props => exists s' pc' loose', build_grp un (XCons k r) pid s = ROk s' /\ nth_error (heap s') pid = Some pc' /\ PR2 (heap s') L loose' pc' props
       /\ (forall i, (i < L)%nat -> i <> pid -> nth_error (heap s') i = nth_error (heap s) i)
       /\ (length (heap s) <= length (heap s'))%nat /\ names_ext s s' (unames_f (XCons k r))
  | RErr e => build_grp un (XCons k r) pid s = RErr e
  | RUn w => build_grp un (XCons k r) pid s = RUn w
  end.
Proof.
  intros k r X IHk IHr anc un W id pid L s pc pa loose D Hp Hi Ne HL Np Ni Dp Nl P.
  destruct (kid_facts _ _ _ _ W) as (Wk & Wr & Nun & Rk).
  cbn [docs_kids_r build_grp]. rewrite X. unfold child_wrap. rewrite X.
  specialize (IHk _ Wk s). destruct (doc_r k) as [dk|e|w]; cbn [rbind]; [|rewrite IHk; reflexivity|rewrite IHk; reflexivity].
  destruct IHk as (cid & s1 & B & A & W1 & NE1). rewrite B. cbn [rbind fst snd].
  set (s2 := hupd pid (dset (du (xdde k)) (VObj cid)) s1).
  assert (Len1 : (length (heap s) <= length (heap s1))%nat) by (destruct W1 as (W1a & W1b & _); lia).
  assert (Len2 : length (heap s2) = length (heap s1)) by (unfold s2, hupd; cbn [heap]; apply list_upd_length).
  assert (N1 : nth_error (heap s1) pid = Some pc) by (rewrite (A pid); [exact Np|lia]).
  assert (P1 : PR2 (heap s1) L loose pc pa).
  { apply (PR2_mono (heap s)); [exact P| |exact Len1]. intros i Hi2. apply A. lia. }
  assert (P2 : PR2 (heap s2) L loose (dset (du (xdde k)) (VObj cid) pc) (jset (du (xdde k)) dk pa)).
  { apply (PR2_mono (heap s1)); [| |lia].
    - apply (PR2_dset_child _ _ _ _ _ _ _ _ (length (heap s)) (length (heap s1))); [exact P1|exact Rk|exact HL|exact W1|].
      destruct P as (_ & _ & LO). apply (clear_below _ (heap s) L); [exact LO|lia].
    - intros i Hi2. unfold s2, hupd. cbn [heap]. apply nth_list_upd_other. lia. }
  specialize (IHr _ _ Wr id pid L s2 (dset (du (xdde k)) (VObj cid) pc) (jset (du (xdde k)) dk pa) loose D Hp Hi Ne).
  assert (G1 : (L <= length (heap s2))%nat) by lia.
  assert (G2 : nth_error (heap s2) pid = Some (dset (du (xdde k)) (VObj cid) pc)).
  { unfold s2, hupd. cbn [heap]. rewrite nth_list_upd_same, N1. reflexivity. }
  assert (G3 : nth_error (heap s2) id = Some D).
  { unfold s2, hupd. cbn [heap]. rewrite nth_list_upd_other by congruence. rewrite (A id) by lia. exact Ni. }
  assert (G4 : nlookup un s2 = Some id).
  { unfold s2, hupd, nlookup. cbn [names]. fold (nlookup un s1). rewrite (nlookup_ext _ _ _ _ NE1 Nun). exact Nl. }
  specialize (IHr G1 G2 G3 Dp G4 P2).
  destruct (docs_kids_r r (jset (du (xdde k)) dk pa)) as [props|e|w]; [|exact IHr|exact IHr].
  destruct IHr as (s' & pc' & loose' & B' & N' & P' & U' & Len' & NE').
  exists s', pc', loose'. split; [exact B'|]. split; [exact N'|]. split; [exact P'|]. split; [|split; [lia|]].
  - intros i Hi2 Ne2. rewrite (U' i Hi2 Ne2). unfold s2, hupd. cbn [heap]. rewrite nth_list_upd_other by congruence. apply A. lia.
  - cbn [unames_f]. apply (names_ext_trans s s1 s' (unames k) (unames_f r)); [exact NE1| |apply incl_appl, incl_refl|apply incl_appr, incl_refl].
    destruct NE' as (regs & E & Al). exists regs. split; [rewrite E; unfold s2, hupd; reflexivity|exact Al].
Qed.

Lemma Qgrp2_step_redef : forall k r tgt, xeff_redef k = Some tgt -> Pt2 k -> Qgrp2 r ->
  forall anc un, names_wf_f (un :: anc) (XCons k r) = true -> forall id pid L s pc pa loose D,
  (pid < L)%nat -> (id < L)%nat -> id <> pid -> (L <= length (heap s))%nat ->
  nth_error (heap s) pid = Some pc -> nth_error (heap s) id = Some D -> dget k_properties D = Some (VObj pid) ->
  nlookup un s = Some id -> PR2 (heap s) L loose pc pa ->
  match docs_kids_r (XCons k r) pa with
  | ROk props => exists s' pc' loose', build_grp un (XCons k r) pid s = ROk s' /\ nth_error (heap s') pid = Some pc' /\ PR2 (heap s') L loose' pc' props
       /\ (forall i, (i < L)%nat -> i <> pid -> nth_error (heap s') i = nth_error (heap s) i)
       /\ (length (heap s) <= length (heap s'))%nat /\ names_ext s s' (unames_f (XCons k r))
  | RErr e => build_grp un (XCons k r) pid s = RErr e
  | RUn w => build_grp un (XCons k r) pid s = RUn w
  end.
Proof.
  intros k r tgt X IHk IHr anc un W id pid L s pc pa loose D Hp Hi Ne HL Np Ni Dp Nl P.
  destruct (kid_facts _ _ _ _ W) as (Wk & Wr & Nun & Rk).
  cbn [docs_kids_r build_grp]. rewrite X. unfold child_wrap. rewrite X. cbv zeta.
  destruct (redef_pre_ok un tgt s id pid L pc pa loose D Hp Hi Ne HL Np Ni Dp Nl P)
    as (s1 & pc1 & loose1 & oid & RP & N1 & P1 & G1 & U1 & Len1 & Nm1).
  rewrite RP. cbn [rbind fst snd].
  set (key := redef_key tgt) in *.
  set (pa1 := match jfind key pa with Some _ => pa | None => pa ++ [(key, oneof_new key)] end) in *.
  specialize (IHk _ Wk s1). destruct (doc_r k) as [dk|e|w]; cbn [rbind]; [|rewrite IHk; reflexivity|rewrite IHk; reflexivity].
  destruct IHk as (cid & s2 & B & A & W2 & NE2). rewrite B. cbn [rbind fst snd].
  assert (Len2 : (length (heap s1) <= length (heap s2))%nat) by (destruct W2 as (Wa & Wb & _); lia).
  assert (N2 : nth_error (heap s2) pid = Some pc1) by (rewrite (A pid); [exact N1|lia]).
  assert (P2 : PR2 (heap s2) L loose1 pc1 pa1).
  { apply (PR2_mono (heap s1)); [exact P1| |exact Len2]. intros i Hi2. apply A. lia. }
  assert (C2 : clear_of loose1 (length (heap s1)) (length (heap s2))).
  { destruct P1 as (_ & _ & LO). apply (clear_below _ (heap s1) L); [exact LO|lia]. }
  assert (L1 : (L <= length (heap s1))%nat) by lia.
  destruct (PR2_add_alt _ _ _ _ _ key oid cid dk _ _ P2 G1 (redkey_redef tgt) W2 L1 C2) as (ids & pa2 & No & OA & P3).
  match goal with |- context [oneof_add key dk ?a] => replace (oneof_add key dk a) with (@ROk (list (str * jdoc)) pa2) by (symmetry; exact OA) end.
  cbn [rbind].
  (* redef_post *)
  unfold redef_post. fold key. rewrite (hget_nth _ _ _ N2), G1, (hget_nth _ _ _ No). cbn [dget]. change (str_eqb k_oneOf k_oneOf) with true. cbv iota.
  unfold alloc. cbn [rbind fst snd]. unfold hupd. cbn [heap names].
  match goal with |- context [build_grp un r pid ?st] => set (s5 := st) end.
  set (H3 := list_upd oid (dset k_oneOf (VArr (ids ++ [cid]))) (heap s2)) in *.
  assert (LH3 : length H3 = length (heap s2)) by (unfold H3; apply list_upd_length).
  set (phc := [(k_title, VStr (dde_name (de (xdde k)))); (k_cobol, VStr (cobol_of (xdde k))); (k_ref, VStr (35%N :: du (xdde k)))]).
  assert (HS5 : heap s5 = list_upd pid (dset (du (xdde k)) (VObj (length H3))) (H3 ++ [phc])) by reflexivity.
  assert (Wph : window (H3 ++ [phc]) (length H3) (placeholder k) (length H3) (length H3 + 1)).
  { exact (window_strs H3 [(k_title, dde_name (de (xdde k))); (k_cobol, cobol_of (xdde k)); (k_ref, 35%N :: du (xdde k))]). }
  assert (P4 : PR2 (H3 ++ [phc]) L loose1 pc1 pa2).
  { apply (PR2_mono H3); [exact P3|intros i Hi2; apply nth_app_lt; lia|rewrite app_length; lia]. }
  assert (C4 : clear_of loose1 (length H3) (length H3 + 1)).
  { destruct P1 as (_ & _ & LO). apply (clear_below _ (heap s1) L); [exact LO|lia]. }
  assert (P5 : PR2 (heap s5) L loose1 (dset (du (xdde k)) (VObj (length H3)) pc1) (jset (du (xdde k)) (placeholder k) pa2)).
  { rewrite HS5. apply (PR2_mono (H3 ++ [phc])).
    - apply (PR2_dset_child _ _ _ _ _ _ _ _ (length H3) (length H3 + 1)); [exact P4|exact Rk|lia|exact Wph|exact C4].
    - intros i Hi2. apply nth_list_upd_other. lia.
    - rewrite list_upd_length. apply Nat.le_refl. }
  assert (Loid : (L <= oid < length (heap s2))%nat).
  { split.
    - destruct (locate _ _ _ _ _ _ _ (proj1 P2) G1) as (c1 & c2 & a1 & a2 & d & _ & _ & _ & E & _).
      inversion E; subst; [match goal with Hk : redkey _ = false |- _ => unfold key in Hk; rewrite redkey_redef in Hk; discriminate Hk end|assumption].
    - apply nth_error_Some. rewrite No. discriminate. }
  specialize (IHr _ _ Wr id pid L s5 (dset (du (xdde k)) (VObj (length H3)) pc1) (jset (du (xdde k)) (placeholder k) pa2) loose1 D Hp Hi Ne).
  assert (G5 : (L <= length (heap s5))%nat) by (rewrite HS5, list_upd_length, app_length; lia).
  assert (G6 : nth_error (heap s5) pid = Some (dset (du (xdde k)) (VObj (length H3)) pc1)).
  { rewrite HS5, nth_list_upd_same, nth_app_lt by lia. unfold H3. rewrite nth_list_upd_other by lia. rewrite N2. reflexivity. }
  assert (G7 : nth_error (heap s5) id = Some D).
  { rewrite HS5, nth_list_upd_other by congruence. rewrite nth_app_lt by lia. unfold H3. rewrite nth_list_upd_other by lia.
    rewrite (A id) by lia. rewrite (U1 id Hi Ne). exact Ni. }
  assert (G8 : nlookup un s5 = Some id).
  { unfold nlookup. change (names s5) with (names s2). fold (nlookup un s2). rewrite (nlookup_ext _ _ _ _ NE2 Nun).
    unfold nlookup. rewrite Nm1. exact Nl. }
  specialize (IHr G5 G6 G7 Dp G8 P5).
  destruct (docs_kids_r r (jset (du (xdde k)) (placeholder k) pa2)) as [props|e|w]; [|exact IHr|exact IHr].
  destruct IHr as (s' & pc' & loose' & B' & N' & P' & U' & Len' & NE').
  exists s', pc', loose'. split; [exact B'|]. split; [exact N'|]. split; [exact P'|]. split; [|split].
  - intros i Hi2 Ne2. rewrite (U' i Hi2 Ne2). rewrite HS5, nth_list_upd_other by congruence. rewrite nth_app_lt by lia.
    unfold H3. rewrite nth_list_upd_other by lia. rewrite (A i) by lia. apply (U1 i Hi2 Ne2).
  - rewrite HS5, list_upd_length, app_length in Len'. lia.
  - cbn [unames_f]. destruct NE2 as (r2 & E2 & A2). destruct NE' as (r3 & E3 & A3).
    exists (r3 ++ r2). split.
    + rewrite E3. change (names s5) with (names s2). rewrite E2, Nm1, app_assoc. reflexivity.
    + intros k0 I. rewrite map_app in I. apply in_app_or in I as [I|I]; apply in_or_app; [right; apply A3, I|left; apply A2, I].
Qed.

Definition Qocc2 (ks : xforest) : Prop := forall anc un, names_wf_f (un :: anc) ks = true -> forall id L s acc pa D,
  (id < L)%nat -> (L <= length (heap s))%nat -> nth_error (heap s) id = Some D -> dget k_properties D = None ->
  nlookup un s = Some id -> PR2 (heap s) L [] acc pa ->
  match docs_kids_o ks pa with
  | ROk props => exists acc' s', build_occ un ks acc s = ROk (acc', s') /\ PR2 (heap s') L [] acc' props
       /\ agree 0 (length (heap s)) (heap s) (heap s') /\ (length (heap s) <= length (heap s'))%nat /\ names_ext s s' (unames_f ks)
  | RErr e => build_occ un ks acc s = RErr e
  | RUn w => build_occ un ks acc s = RUn w
  end.

Lemma Q2_nil : Qgrp2 XNil /\ Qocc2 XNil.
Proof.
  split.
  - intros anc un _ id pid L s pc pa loose D Hp Hi Ne HL Np Ni Dp Nl P. cbn [docs_kids_r build_grp]. exists s, pc, loose.
    split; [reflexivity|]. split; [exact Np|]. split; [exact P|]. split; [intros i _ _; reflexivity|]. split; [lia|apply names_ext_refl].
  - intros anc un _ id L s acc pa D Hi HL Ni Dp Nl P. cbn [docs_kids_o build_occ]. exists acc, s.
    split; [reflexivity|]. split; [exact P|]. split; [intros i _; reflexivity|]. split; [lia|apply names_ext_refl].
Qed.

Lemma Qocc2_step : forall k r, Pt2 k -> Qocc2 r -> Qocc2 (XCons k r).
Proof.
  intros k r IHk IHr anc un W id L s acc pa D Hi HL Ni Dp Nl P.
  destruct (kid_facts _ _ _ _ W) as (Wk & Wr & Nun & Rk).
  cbn [docs_kids_o build_occ]. unfold child_wrap. destruct (xeff_redef k) as [tgt|] eqn:X.
  - (* a REDEFINES below an OCCURS group: the array dict has no properties *)
    cbn [rbind]. unfold redef_pre. rewrite Nl, (hget_nth _ _ _ Ni), Dp. reflexivity.
  - specialize (IHk _ Wk s). destruct (doc_r k) as [dk|e|w]; cbn [rbind]; [|rewrite IHk; reflexivity|rewrite IHk; reflexivity].
    destruct IHk as (cid & s1 & B & A & W1 & NE1). rewrite B. cbn [rbind fst snd].
    assert (Len1 : (length (heap s) <= length (heap s1))%nat) by (destruct W1 as (W1a & W1b & _); lia).
    specialize (IHr _ _ Wr id L s1 (dset (du (xdde k)) (VObj cid) acc) (jset (du (xdde k)) dk pa) D Hi).
    assert (G1 : (L <= length (heap s1))%nat) by lia.
    assert (G2 : nth_error (heap s1) id = Some D) by (rewrite (A id) by lia; exact Ni).
    assert (G3 : nlookup un s1 = Some id) by (rewrite (nlookup_ext _ _ _ _ NE1 Nun); exact Nl).
    assert (G4 : PR2 (heap s1) L [] (dset (du (xdde k)) (VObj cid) acc) (jset (du (xdde k)) dk pa)).
    { apply (PR2_dset_child _ _ _ _ _ _ _ _ (length (heap s)) (length (heap s1))); [|exact Rk|exact HL|exact W1|constructor].
      apply (PR2_mono (heap s)); [exact P| |exact Len1]. intros i Hi2. apply A. lia. }
    specialize (IHr G1 G2 Dp G3 G4).
    destruct (docs_kids_o r (jset (du (xdde k)) dk pa)) as [props|e|w]; [|exact IHr|exact IHr].
    destruct IHr as (acc' & s' & B' & P' & A' & Len' & NE').
    exists acc', s'. split; [exact B'|]. split; [exact P'|]. split; [|split; [lia|]].
    + intros i Hi2. rewrite (A' i) by lia. apply A. lia.
    + cbn [unames_f]. apply (names_ext_trans s s1 s' (unames k) (unames_f r)); [exact NE1|exact NE'|apply incl_appl, incl_refl|apply incl_appr, incl_refl].
Qed.

Lemma Qgrp2_step : forall k r, Pt2 k -> Qgrp2 r -> Qgrp2 (XCons k r).
Proof.
  intros k r IHk IHr anc un W id pid L s pc pa loose D Hp Hi Ne HL Np Ni Dp Nl P.
  destruct (xeff_redef k) as [tgt|] eqn:X.
  - apply (Qgrp2_step_redef k r tgt X IHk IHr anc un W id pid L s pc pa loose D); assumption.
  - apply (Qgrp2_step_plain k r X IHk IHr anc un W id pid L s pc pa loose D); assumption.
Qed.
Lemma P2_elem : forall d b x, SR.Model.Structure.eocc (SR.Model.Structure.de d) = false -> Pt2 (XNode d b x XNil).
Proof.
  intros d b x Eocc anc W s. cbn [doc_r build]. rewrite Eocc.
  destruct (json_type_kvs x) as [jt|e|w]; cbn [rbind]; [|reflexivity|reflexivity].
  destruct (calcsize_text (SR.Model.Structure.cobol_of d)) as [n|e|w]; cbn [rbind]; [|reflexivity|reflexivity].
  unfold alloc. eexists. eexists. split; [reflexivity|]. cbn [reg heap].
  split; [|split].
  - intros i Hi. apply nth_app_lt. lia.
  - split; [app_len; lia|]. split; [lia|].
    intros H' fuel A F. rewrite app_length in F. cbn [length] in F. destruct fuel as [|f]; [lia|].
    rewrite reify_S. rewrite (A (length (heap s))) by (app_len; lia).
    rewrite nth_app_at0. cbn [option_map].
    erewrite map_opt_app; [reflexivity|apply map_opt_strs|reflexivity].
  - eexists [(_, _)]. split; [reflexivity|]. intros k [<-|[]]. left. reflexivity.
Qed.

Lemma P2_array_pic : forall d b x kids, SR.Model.Structure.eocc (SR.Model.Structure.de d) = true ->
  SR.Model.Structure.epic (SR.Model.Structure.de d) = true -> Pt2 (XNode d b x kids).
Proof.
  intros d b x kids Eocc Epic anc W s. cbn [doc_r build]. rewrite Eocc, Epic.
  unfold alloc. cbv beta iota.
  match goal with |- context [max_items x ?st] => pose proof (max_items_ok x st) as MI end.
  destruct (max_items_doc x) as [mx|e|w]; cbn [rbind]. 2:{ rewrite MI. reflexivity. } 2:{ rewrite MI; reflexivity. }
  destruct MI as (v & ext & ME & Lext & _ & RV). rewrite ME. cbn [rbind fst snd heap names] in *.
  destruct (json_type_kvs x) as [jt|e|w]; cbn [rbind]; [|reflexivity|reflexivity].
  unfold alloc, reg, hupd. cbn [heap names fst snd].
  eexists. eexists. split; [reflexivity|]. cbn [heap].
  match goal with |- context [SR.Model.Structure.list_upd (length ?h) _ _] => set (H0 := h) in * end.
  assert (L0 : length H0 = (length (heap s) + 1 + length ext)%nat) by (unfold H0; app_len; lia).
  repeat rewrite (app_length _ [_]). cbn [length].
  set (A0 := strs [(k_title, SR.Model.Structure.dde_name (SR.Model.Structure.de d)); (k_cobol, SR.Model.Structure.cobol_of d); (k_type, v_array)]
             ++ [(k_items, VObj (length (heap s))); (fst mx, v)]).
  set (B0 := strs ([(k_anchor, SR.Model.Structure.du d); (k_cobol, SR.Model.Structure.cobol_of d)] ++ jt)).
  rewrite <- !app_assoc. cbn [app].
  rewrite !list_upd_app0. unfold A0. rewrite dset_items_1.
  set (A1 := strs [(k_title, SR.Model.Structure.dde_name (SR.Model.Structure.de d)); (k_cobol, SR.Model.Structure.cobol_of d); (k_type, v_array)]
             ++ [(k_items, VObj (length H0 + 1 + 1 + 1)%nat); (fst mx, v)]).
  split; [|split].
  - intros i Hi. unfold H0. rewrite !nth_app_lt; [reflexivity|lia| |]; app_len; lia.
  - split; [app_len; lia|]. split; [lia|].
    intros H' fuel A F. rewrite app_length in F. cbn [length] in F.
    destruct fuel as [|[|[|[|f]]]]; try lia.
    assert (N0 : nth_error H' (length H0) = Some A1).
    { rewrite (A (length H0)) by (app_len; lia). apply nth_app_at0. }
    assert (N1 : nth_error H' (length H0 + 1) = Some B0).
    { rewrite (A (length H0 + 1)%nat) by (app_len; lia). rewrite (nth_app_k _ H0 _ 1) by lia. reflexivity. }
    assert (N2 : nth_error H' (length H0 + 1 + 1) = Some [(SR.Model.Structure.du d, VObj (length H0 + 1)%nat)]).
    { rewrite (A (length H0 + 1 + 1)%nat) by (app_len; lia). rewrite (nth_app_k _ H0 _ 2) by lia. reflexivity. }
    assert (N3 : nth_error H' (length H0 + 1 + 1 + 1) = Some [(k_type, VStr v_object); (k_properties, VObj (length H0 + 1 + 1)%nat)]).
    { rewrite (A (length H0 + 1 + 1 + 1)%nat) by (app_len; lia). rewrite (nth_app_k _ H0 _ 3) by lia. reflexivity. }
    assert (RVx : rv (S (S (S f))) H' (fst mx, v) = Some mx).
    { apply RV. intros i Hi. rewrite ?app_length in Hi. cbn [length] in Hi. rewrite (A i) by (app_len; lia). apply nth_app_lt. lia. }
    rewrite reify_S, N0. unfold A1. erewrite map_opt_app; [reflexivity|apply map_opt_strs|].
    cbn [map_opt]. rewrite RVx. unfold rv at 1. cbn [snd fst].
    rewrite reify_S, N3. cbn [map_opt rv snd fst option_map].
    rewrite reify_S, N2. cbn [map_opt rv snd fst option_map].
    rewrite reify_S, N1. unfold B0. rewrite map_opt_strs. reflexivity.
  - eexists [(_, _); (_, _)]. split; [reflexivity|]. intros k [<-|[<-|[]]]; left; reflexivity.
Qed.

Lemma names_wf_kids : forall anc d b x kids, names_wf anc (XNode d b x kids) = true -> names_wf_f (du d :: anc) kids = true.
Proof. intros anc d b x kids W. cbn [names_wf] in W. apply andb_true_iff in W as [_ W]. exact W. Qed.

Lemma P2_group : forall d b x k r, Qgrp2 (XCons k r) -> eocc (de d) = false -> Pt2 (XNode d b x (XCons k r)).
Proof.
  intros d b x k r IHg Eocc anc W s. cbn [doc_r build]. rewrite Eocc.
  pose proof (names_wf_kids _ _ _ _ _ W) as Wk.
  unfold alloc, reg. cbv beta iota. cbn [heap names].
  set (D := strs [(k_title, dde_name (de d)); (k_anchor, du d); (k_cobol, cobol_of d); (k_type, v_object)] ++ [(k_properties, VObj (length (heap s)))]).
  match goal with |- context [docs_kids_r (XCons k r) ?a] =>
  match goal with |- context [build_grp ?un ?ks ?pid ?st] =>
    specialize (IHg anc un Wk (length (heap s) + 1)%nat pid (length (heap s) + 2)%nat st [] a [] D) end end.
  cbn [heap] in IHg.
  assert (G0 : (length (heap s) < length (heap s) + 2)%nat) by lia.
  assert (G0' : (length (heap s) + 1 < length (heap s) + 2)%nat) by lia.
  assert (G0'' : (length (heap s) + 1)%nat <> length (heap s)) by lia.
  assert (G1 : (length (heap s) + 2 <= length ((heap s ++ [[]]) ++ [D]))%nat) by (rewrite !app_length; cbn [length]; lia).
  assert (G2 : nth_error ((heap s ++ [[]]) ++ [D]) (length (heap s)) = Some []).
  { rewrite <- app_assoc. apply nth_app_at0. }
  assert (G3 : nth_error ((heap s ++ [[]]) ++ [D]) (length (heap s) + 1) = Some D).
  { rewrite <- app_assoc. rewrite (nth_app_k _ _ _ 1) by lia. reflexivity. }
  assert (G4 : dget k_properties D = Some (VObj (length (heap s)))) by reflexivity.
  assert (G5 : nlookup (du d) {| Pipeline.heap := (heap s ++ [[]]) ++ [D]; Pipeline.names := (du d, length (heap s ++ [[]])) :: names s |}
               = Some (length (heap s) + 1)%nat).
  { unfold nlookup. cbn [names lookup]. rewrite StructureP.str_eqb_refl. rewrite app_length. reflexivity. }
  assert (G6 : PR2 ((heap s ++ [[]]) ++ [D]) (length (heap s) + 2) [] [] []).
  { split; [constructor|]. split; constructor. }
  specialize (IHg G0 G0' G0'' G1 G2 G3 G4 G5 G6).
  destruct (docs_kids_r (XCons k r) []) as [props|e|w]; cbn [rbind]; [|rewrite IHg; reflexivity|rewrite IHg; reflexivity].
  destruct IHg as (s' & pc' & loose' & B' & N' & P' & U' & Len' & NE'). rewrite B'. cbn [rbind].
  eexists. eexists. split; [reflexivity|]. cbn [heap].
  rewrite !app_length in Len'. cbn [length] in Len'.
  split; [|split].
  - intros i Hi. rewrite U' by lia. rewrite <- app_assoc. apply nth_app_lt. lia.
  - split; [rewrite ?app_length; cbn [length]; lia|]. split; [lia|].
    intros H' fuel A F. destruct fuel as [|[|f]]; try lia. rewrite ?app_length. cbn [length].
    assert (N1 : nth_error H' (length (heap s) + 1)%nat = Some D).
    { rewrite (A (length (heap s) + 1)%nat) by lia. rewrite U' by lia. exact G3. }
    assert (N0 : nth_error H' (length (heap s)) = Some pc').
    { rewrite (A (length (heap s))) by lia. exact N'. }
    rewrite reify_S, N1. unfold D. erewrite map_opt_app; [reflexivity|apply map_opt_strs|].
    cbn [map_opt rv snd fst]. rewrite reify_S, N0.
    rewrite (PR2_reify _ _ _ _ _ H' f P'); [reflexivity| |lia].
    intros i Hi. apply A. lia.
  - destruct NE' as (regs & E & Al). cbn [names] in E. exists ((du d, length (heap s ++ [[]])) :: regs ++ [(du d, length (heap s ++ [[]]))]).
    split; [cbn [names app]; rewrite E, <- app_assoc; reflexivity|].
    intros k0 I. cbn [map fst] in I. destruct I as [<-|I]; [left; reflexivity|]. rewrite map_app in I. apply in_app_or in I as [I|[<-|[]]].
    + right. cbn [unames_f] in Al. apply (Al k0 I).
    + left. reflexivity.
Qed.

Lemma max_items_key_props : forall x mx, max_items_doc x = ROk mx -> str_eqb (fst mx) k_properties = false.
Proof.
  intros x mx H. unfold max_items_doc in H. destruct (i_dep x); [injection H as <-; reflexivity|].
  destruct (i_occ x); [injection H as <-; reflexivity|discriminate].
Qed.

Lemma dget_props_array : forall (a b c : str) w (k : str) kv v, str_eqb k k_properties = false ->
  dget k_properties (strs [(k_title, a); (k_cobol, b); (k_type, c)] ++ [(k_items, w); (k, kv); (k_anchor, v)]) = None.
Proof. intros. cbn [strs map app dget fst snd]. cbn. rewrite H. reflexivity. Qed.

Lemma P2_array_group : forall d b x kids, Qocc2 kids -> eocc (de d) = true -> epic (de d) = false -> Pt2 (XNode d b x kids).
Proof.
  intros d b x kids IHo Eocc Epic anc W s. cbn [doc_r build]. rewrite Eocc, Epic.
  pose proof (names_wf_kids _ _ _ _ _ W) as Wk.
  unfold alloc, reg. cbv beta iota. cbn [heap names].
  match goal with |- context [max_items x ?st] => pose proof (max_items_ok x st) as MI end.
  destruct (max_items_doc x) as [mx|e|w] eqn:Emx; cbn [rbind]. 2:{ rewrite MI. reflexivity. } 2:{ rewrite MI; reflexivity. }
  pose proof (max_items_key_props x mx Emx) as KP.
  destruct MI as (v & ext & ME & Lext & KA & RV). rewrite ME. cbn [rbind fst snd heap names] in *.
  unfold hupd. cbn [heap names].
  match goal with |- context [build_occ _ _ _ {| Pipeline.heap := list_upd (length ?h) _ _; Pipeline.names := _ |}] => set (H0 := h) in * end.
  assert (L0 : length H0 = (length (heap s) + 1 + length ext)%nat) by (unfold H0; rewrite !app_length; cbn [length]; lia).
  rewrite list_upd_app0. destruct mx as [mk mv]. cbn [fst] in *. rewrite (dset_anchor_1 _ _ _ _ _ _ _ KA).
  set (A1 := strs [(k_title, dde_name (de d)); (k_cobol, cobol_of d); (k_type, v_array)]
             ++ [(k_items, VObj (length (heap s))); (mk, v); (k_anchor, VStr (du d))]).
  match goal with |- context [docs_kids_o kids ?a] =>
  match goal with |- context [build_occ ?un ?ks ?acc ?st] =>
    specialize (IHo anc un Wk (length H0) (length H0 + 1)%nat st acc a A1) end end.
  cbn [heap] in IHo.
  assert (G0 : (length H0 < length H0 + 1)%nat) by lia.
  assert (G1 : (length H0 + 1 <= length (H0 ++ [A1]))%nat) by (rewrite app_length; cbn [length]; lia).
  assert (G2 : nth_error (H0 ++ [A1]) (length H0) = Some A1) by apply nth_app_at0.
  assert (G3 : dget k_properties A1 = None) by (apply dget_props_array; exact KP).
  assert (G4 : nlookup (du d) {| Pipeline.heap := H0 ++ [A1]; Pipeline.names := (du d, length H0) :: names s |} = Some (length H0)).
  { unfold nlookup. cbn [names lookup]. rewrite StructureP.str_eqb_refl. reflexivity. }
  assert (G5 : PR2 (H0 ++ [A1]) (length H0 + 1) [] [] []).
  { split; [constructor|]. split; constructor. }
  specialize (IHo G0 G1 G2 G3 G4 G5).
  destruct (docs_kids_o kids []) as [props|e|w]; cbn [rbind]; [|rewrite IHo; reflexivity|rewrite IHo; reflexivity].
  destruct IHo as (acc' & s5 & B' & P' & A' & Len' & NE'). rewrite B'. cbn [rbind fst snd].
  eexists. eexists. split; [reflexivity|]. cbn [heap].
  rewrite app_length in Len', A'. cbn [length] in Len', A'.
  assert (N5 : nth_error (heap s5) (length H0) = Some A1).
  { rewrite A' by lia. apply nth_app_at0. }
  match goal with |- _ /\ window ?h _ _ _ _ /\ _ => set (Hf := h) in * end.
  assert (LF : length Hf = (length (heap s5) + 2)%nat) by (unfold Hf; rewrite list_upd_length, !app_length; cbn [length]; lia).
  assert (NF0 : nth_error Hf (length H0) = Some (dset k_items (VObj (length (heap s5 ++ [acc']))) A1)).
  { unfold Hf. rewrite nth_list_upd_same. rewrite <- app_assoc. rewrite nth_app_lt by lia. rewrite N5. reflexivity. }
  assert (NFo : forall i, i <> length H0 -> (i < length (heap s5))%nat -> nth_error Hf i = nth_error (heap s5) i).
  { intros i Ne Hi. unfold Hf. rewrite nth_list_upd_other by congruence. rewrite <- app_assoc. apply nth_app_lt. exact Hi. }
  assert (NFp : nth_error Hf (length (heap s5)) = Some acc').
  { unfold Hf. rewrite nth_list_upd_other by lia. rewrite <- app_assoc. apply nth_app_at0. }
  assert (NFc : nth_error Hf (length (heap s5) + 1) = Some [(k_type, VStr v_object); (k_properties, VObj (length (heap s5)))]).
  { unfold Hf. rewrite nth_list_upd_other by lia. rewrite <- app_assoc. rewrite (nth_app_k _ _ _ 1) by lia. reflexivity. }
  split; [|split].
  - intros i Hi. rewrite NFo by lia. rewrite A' by lia. rewrite nth_app_lt by lia. unfold H0. rewrite !nth_app_lt; [reflexivity|lia|rewrite app_length; cbn [length]; lia].
  - split; [lia|]. split; [lia|].
    intros H' fuel A F. rewrite LF in F. destruct fuel as [|[|[|f]]]; try lia.
    rewrite LF in A.
    assert (RVx : rv (S (S f)) H' (mk, v) = Some (mk, mv)).
    { apply RV. intros i Hi. rewrite ?app_length in Hi. cbn [length] in Hi. rewrite (A i) by lia. rewrite NFo by lia. rewrite A' by lia.
      apply nth_app_lt. lia. }
    rewrite reify_S, (A (length H0)) by lia. rewrite NF0. unfold A1. rewrite dset_items_2.
    erewrite map_opt_app; [reflexivity|apply map_opt_strs|].
    cbn [map_opt]. rewrite RVx. unfold rv at 1. cbn [snd fst].
    rewrite app_length. cbn [length].
    rewrite reify_S, (A (length (heap s5) + 1)%nat) by lia. rewrite NFc. cbn [map_opt rv snd fst option_map].
    rewrite reify_S, (A (length (heap s5))) by lia. rewrite NFp.
    rewrite (PR2_reify _ _ _ _ _ H' f P'); [reflexivity| |lia].
    intros i Hi. rewrite (A i) by lia. apply NFo; lia.
  - destruct NE' as (regs & E & Al). cbn [names] in E. exists ((du d, length H0) :: regs ++ [(du d, length H0)]).
    split; [cbn [names app]; rewrite E, <- app_assoc; reflexivity|].
    intros k0 I. cbn [map fst] in I. destruct I as [<-|I]; [left; reflexivity|]. rewrite map_app in I. apply in_app_or in I as [I|[<-|[]]].
    + right. apply (Al k0 I).
    + left. reflexivity.
Qed.

Theorem build_names_wf : (forall t, Pt2 t) /\ (forall ks, Qgrp2 ks /\ Qocc2 ks).
Proof.
  apply xtree_xforest_ind.
  - intros d b x kids [IHg IHo].
    destruct (eocc (de d)) eqn:Eocc.
    + destruct (epic (de d)) eqn:Epic.
      * apply (P2_array_pic d b x kids Eocc Epic).
      * apply (P2_array_group d b x kids IHo Eocc Epic).
    + destruct kids as [|k r].
      * apply (P2_elem d b x Eocc).
      * apply (P2_group d b x k r IHg Eocc).
  - apply Q2_nil.
  - intros k IHk r [IHg IHo]. split; [apply Qgrp2_step|apply Qocc2_step]; assumption.
Qed.

Theorem build_tree_names_wf : forall t, names_wf [] t = true -> build_tree t = doc_r t.
Proof.
  intros t W. destruct build_names_wf as [P _]. specialize (P t [] W {| Pipeline.heap := []; Pipeline.names := [] |}).
  unfold build_tree. destruct (doc_r t) as [doc|e|w]; [|rewrite P; reflexivity|rewrite P; reflexivity].
  destruct P as (id & s' & B & _ & (_ & _ & Wd) & _). rewrite B. cbn [rbind fst snd].
  rewrite (Wd (heap s') (S (length (heap s')))); [reflexivity| |cbn [heap length]; lia].
  intros i _. reflexivity.
Qed.

Theorem build_all_names_wf : forall f, forallb (names_wf []) f = true -> build_all f = docs_r f.
Proof.
  induction f as [|t f IH]; intros H; [reflexivity|]. cbn [forallb] in H. apply andb_true_iff in H as [Ht Hf].
  cbn [build_all docs_r]. rewrite (build_tree_names_wf t Ht), (IH Hf). reflexivity.
Qed.


End Redef.

(* end to end, REDEFINES included *)
Theorem end_to_end_full : forall es tail seqs f,
  copybook_ok es tail seqs = true -> structure (map spec_entry es) = Ok f ->
  exists xf, annot_forest f (kept_infos (map spec_info es)) = Some xf /\ map erase xf = f
             /\ concat (map xpre xf) = kept_infos (map spec_info es)
             /\ (forallb (names_wf []) xf = true ->
                 schemas_of_text (print_copybook es tail seqs) = to_outcome (docs_r xf)).
Proof.
  intros es tail seqs f OK Hf.
  assert (E : map i_entry (kept_infos (map spec_info es)) = map de (preorder_f f)).
  { rewrite (structure_preorder _ _ Hf). rewrite <- map_entry_spec_info. symmetry. apply kept_match. }
  destruct (annot_forest_ok f _ E) as (xf & A & R & Q).
  exists xf. split; [exact A|]. split; [exact R|]. split; [exact Q|]. intros NW.
  rewrite (schemas_of_printed es tail seqs OK). f_equal. unfold docs_of_infos. rewrite map_entry_spec_info, Hf, A.
  apply Redef.build_all_names_wf. exact NW.
Qed.

(* ================================================================ the entries the documents define, with REDEFINES *)
Module DefsR.
Import SR.Model.Structure.
Local Notation str := SR.Model.Pipeline.str.

(* ================================================================ the entries the documents define, with REDEFINES *)
Lemma jfind_split : forall k (l : list (str * jdoc)) v, jfind k l = Some v ->
  exists a1 a2, l = a1 ++ (k, v) :: a2 /\ ~ In k (map fst a1).
Proof.
  intros k. induction l as [|[k1 v1] l IH]; intros v H; cbn [jfind] in H; [discriminate|].
  destruct (str_eqb k1 k) eqn:Q.
  - apply StructureP.str_eqb_eq in Q. subst k1. injection H as <-. exists [], l. split; [reflexivity|intros []].
  - destruct (IH v H) as (a1 & a2 & E & N). exists ((k1, v1) :: a1), a2. split; [rewrite E; reflexivity|].
    cbn [map fst]. intros [I|I]; [subst; rewrite StructureP.str_eqb_refl in Q; discriminate|exact (N I)].
Qed.

Lemma jfind_app_other : forall k (a1 : list (str * jdoc)) a2, ~ In k (map fst a1) -> jfind k (a1 ++ a2) = jfind k a2.
Proof.
  intros k. induction a1 as [|[k1 v1] a1 IH]; intros a2 N; [reflexivity|]. cbn [app jfind map fst] in *.
  destruct (str_eqb k1 k) eqn:Q; [apply StructureP.str_eqb_eq in Q; subst; exfalso; apply N; left; reflexivity|].
  apply IH. intros I. apply N. right. exact I.
Qed.

Lemma jfind_jset_other : forall k k' v (l : list (str * jdoc)), str_eqb k k' = false -> jfind k' (jset k v l) = jfind k' l.
Proof.
  intros k k' v. induction l as [|[k1 v1] l IH]; intros N; cbn [jset jfind].
  - rewrite N. reflexivity.
  - destruct (str_eqb k1 k) eqn:Q; cbn [jfind].
    + apply StructureP.str_eqb_eq in Q. subst k1. rewrite N. reflexivity.
    + destruct (str_eqb k1 k'); [reflexivity|apply IH; exact N].
Qed.

Lemma fdefs_mid : forall a1 k v a2, fdefs (a1 ++ (k, v) :: a2) = fdefs a1 ++ defs v ++ fdefs a2.
Proof. intros. rewrite fdefs_app, fdefs_cons. reflexivity. Qed.

Lemma objs_mid : forall a1 k v a2, objs (a1 ++ (k, v) :: a2) = objs a1 && is_obj v && objs a2.
Proof. intros. rewrite objs_app. unfold objs at 2. cbn [forallb snd]. fold (objs a2). rewrite andb_assoc. reflexivity. Qed.

(* appending an alternative to a oneOf entry adds exactly its definitions *)
Lemma oneof_add_defs : forall key dk acc acc2, oneof_add key dk acc = ROk acc2 -> objs acc = true -> is_obj dk = true ->
  objs acc2 = true /\ Permutation (fdefs acc2) (fdefs acc ++ defs dk) /\ map fst acc2 = map fst acc.
Proof.
  intros key dk acc acc2 H O Od. unfold oneof_add in H.
  destruct (jfind key acc) as [[ | |kvs| ]|] eqn:J; try discriminate.
  destruct (jfind k_oneOf kvs) as [[ | | |l]|] eqn:J1; try discriminate. injection H as <-.
  destruct (jfind_split _ _ _ J) as (b1 & b2 & E & N). destruct (jfind_split _ _ _ J1) as (c1 & c2 & E1 & N1). subst acc kvs.
  rewrite (Redef.jset_mid _ _ _ _ _ N), (Redef.jset_mid _ _ _ _ _ N1).
  rewrite objs_mid in O. apply andb_true_iff in O as [O O2]. apply andb_true_iff in O as [O1 _].
  split; [rewrite objs_mid, O1, O2; reflexivity|]. split.
  - rewrite !fdefs_mid, !defs_obj.
    assert (HD : head_def (c1 ++ (k_oneOf, JArr (l ++ [dk])) :: c2) = head_def (c1 ++ (k_oneOf, JArr l) :: c2)).
    { unfold head_def. rewrite <- (Redef.jset_mid k_oneOf (JArr l) (JArr (l ++ [dk])) c1 c2 N1).
      rewrite !jfind_jset_other by reflexivity. reflexivity. }
    rewrite HD, !fdefs_mid. cbn [defs]. rewrite flat_map_app. cbn [flat_map]. rewrite app_nil_r.
    rewrite <- !app_assoc. do 4 apply Permutation_app_head.
    apply Permutation_trans with (l' := (fdefs c2 ++ fdefs b2) ++ defs dk); [apply Permutation_app_comm|rewrite <- app_assoc; apply Permutation_refl].
  - rewrite !map_app. reflexivity.
Qed.

Definition KI (acc : list (str * jdoc)) (pn : list str) : Prop :=
  forall key, In key (map fst acc) -> Redef.redkey key = true \/ In key pn.

Lemma fresh_key : forall acc pn k, KI acc pn -> Redef.redkey k = false -> existsb (str_eqb k) pn = false ->
  existsb (str_eqb k) (map fst acc) = false.
Proof.
  intros acc pn k K R N. destruct (existsb (str_eqb k) (map fst acc)) eqn:E; [|reflexivity].
  apply Redef.existsb_str_In in E. destruct (K k E) as [Q|Q]; [congruence|]. apply Redef.existsb_str_In in Q. congruence.
Qed.

Lemma KI_snoc : forall acc pn k v, KI acc pn -> KI (acc ++ [(k, v)]) (pn ++ [k]).
Proof.
  intros acc pn k v K key I. rewrite map_app in I. apply in_app_or in I as [I|[<-|[]]].
  - destruct (K key I) as [Q|Q]; [left; exact Q|right; apply in_or_app; left; exact Q].
  - right. apply in_or_app. right. left. reflexivity.
Qed.

Lemma KI_red : forall acc pn k v, KI acc pn -> Redef.redkey k = true -> KI (acc ++ [(k, v)]) pn.
Proof.
  intros acc pn k v K R key I. rewrite map_app in I. apply in_app_or in I as [I|[<-|[]]]; [apply (K key I)|left; exact R].
Qed.

Lemma defs_oneof_new : forall key, defs (oneof_new key) = [].
Proof. reflexivity. Qed.

Lemma defs_placeholder : forall k, defs (placeholder k) = [].
Proof. reflexivity. Qed.

Lemma kid_red : forall anc k, names_wf anc k = true -> Redef.redkey (du (xdde k)) = false.
Proof. intros anc [d b x kids] W. apply (Redef.names_wf_redkey _ _ _ _ _ W). Qed.

Definition D2t (t : xtree) : Prop := shape_ok t = true -> forall anc, names_wf anc t = true ->
  forall doc, doc_r t = ROk doc -> is_obj doc = true /\ Permutation (defs doc) (xdefs t).

Definition D2f (ks : xforest) : Prop := shape_ok_f ks = true -> forall anc, names_wf_f anc ks = true ->
  (forall acc pn props, nodup_str (pn ++ knames ks) = true -> KI acc pn -> objs acc = true -> docs_kids_r ks acc = ROk props ->
     objs props = true /\ Permutation (fdefs props) (fdefs acc ++ xdefs_f ks))
  /\ (forall acc pn props, nodup_str (pn ++ knames ks) = true -> KI acc pn -> objs acc = true -> docs_kids_o ks acc = ROk props ->
     objs props = true /\ Permutation (fdefs props) (fdefs acc ++ xdefs_f ks)).

Lemma D2f_cons : forall k r, D2t k -> D2f r -> D2f (XCons k r).
Proof.
  intros k r IHk IHr S anc W. cbn [shape_ok_f] in S. apply andb_true_iff in S as [Sk Sr].
  cbn [names_wf_f] in W. apply andb_true_iff in W as [Wk Wr]. destruct (IHr Sr anc Wr) as [IR IO].
  pose proof (kid_red _ _ Wk) as Rk.
  assert (PLAIN : forall acc pn dk, nodup_str (pn ++ knames (XCons k r)) = true -> KI acc pn -> objs acc = true -> doc_r k = ROk dk ->
            jset (du (xdde k)) dk acc = acc ++ [(du (xdde k), dk)] /\ nodup_str ((pn ++ [du (xdde k)]) ++ knames r) = true
            /\ KI (acc ++ [(du (xdde k), dk)]) (pn ++ [du (xdde k)]) /\ objs (acc ++ [(du (xdde k), dk)]) = true
            /\ Permutation (defs dk) (xdefs k)).
  { intros acc pn dk ND K O Ek. cbn [knames] in ND. destruct (nodup_mid _ _ _ ND) as [Fr ND2].
    destruct (IHk Sk anc Wk dk Ek) as [Ok Dk].
    split; [apply jset_fresh; apply (fresh_key _ pn); assumption|]. split; [exact ND2|]. split; [apply KI_snoc; exact K|].
    split; [rewrite objs_app, O; cbn [objs forallb snd]; rewrite Ok; reflexivity|exact Dk]. }
  split.
  - intros acc pn props ND K O H. cbn [docs_kids_r] in H. destruct (xeff_redef k) as [tgt|] eqn:X.
    + cbv zeta in H. destruct (doc_r k) as [dk|e|w] eqn:Ek; cbn [rbind] in H; try discriminate.
      set (key := redef_key tgt) in *.
      set (acc1 := match jfind key acc with Some _ => acc | None => acc ++ [(key, oneof_new key)] end) in *.
      assert (A1 : KI acc1 pn /\ objs acc1 = true /\ fdefs acc1 = fdefs acc).
      { unfold acc1. destruct (jfind key acc); [repeat split; assumption|]. split; [apply KI_red; [exact K|apply Redef.redkey_redef]|].
        split; [rewrite objs_app, O; reflexivity|]. rewrite fdefs_app. unfold fdefs at 2. cbn [flat_map snd]. rewrite defs_oneof_new. rewrite !app_nil_r. reflexivity. }
      destruct A1 as (K1 & O1 & F1).
      destruct (oneof_add key dk acc1) as [acc2|e|w] eqn:OA; cbn [rbind] in H; try discriminate.
      destruct (IHk Sk anc Wk dk Ek) as [Ok Dk].
      destruct (oneof_add_defs _ _ _ _ OA O1 Ok) as (O2 & P2 & M2).
      assert (K2 : KI acc2 pn) by (intros key0 I; rewrite M2 in I; apply (K1 key0 I)).
      cbn [knames] in ND. destruct (nodup_mid _ _ _ ND) as [Fr ND2].
      rewrite (jset_fresh _ _ _ (fresh_key _ pn _ K2 Rk Fr)) in H.
      assert (O3 : objs (acc2 ++ [(du (xdde k), placeholder k)]) = true) by (rewrite objs_app, O2; reflexivity).
      destruct (IR _ _ props ND2 (KI_snoc _ _ _ _ K2) O3 H) as [Op Pp]. split; [exact Op|].
      apply (Permutation_trans Pp). rewrite fdefs_app. unfold fdefs at 2. cbn [flat_map snd]. rewrite defs_placeholder. rewrite !app_nil_r.
      cbn [xdefs_f]. rewrite app_assoc. apply Permutation_app_tail. apply (Permutation_trans P2). rewrite F1.
      apply Permutation_app_head. exact Dk.
    + destruct (doc_r k) as [dk|e|w] eqn:Ek; cbn [rbind] in H; try discriminate.
      destruct (PLAIN acc pn dk ND K O eq_refl) as (J & ND2 & K2 & O2 & Dk). rewrite J in H.
      destruct (IR _ _ props ND2 K2 O2 H) as [Op Pp]. split; [exact Op|].
      apply (Permutation_trans Pp). rewrite fdefs_app. unfold fdefs at 2. cbn [flat_map snd]. rewrite app_nil_r.
      cbn [xdefs_f]. rewrite <- app_assoc. apply Permutation_app_head. apply Permutation_app_tail. exact Dk.
  - intros acc pn props ND K O H. cbn [docs_kids_o] in H. destruct (xeff_redef k) as [tgt|]; [discriminate|].
    destruct (doc_r k) as [dk|e|w] eqn:Ek; cbn [rbind] in H; try discriminate.
    destruct (PLAIN acc pn dk ND K O eq_refl) as (J & ND2 & K2 & O2 & Dk). rewrite J in H.
    destruct (IO _ _ props ND2 K2 O2 H) as [Op Pp]. split; [exact Op|].
    apply (Permutation_trans Pp). rewrite fdefs_app. unfold fdefs at 2. cbn [flat_map snd]. rewrite app_nil_r.
    cbn [xdefs_f]. rewrite <- app_assoc. apply Permutation_app_head. apply Permutation_app_tail. exact Dk.
Qed.

Lemma KI_nil : forall pn, KI [] pn.
Proof. intros pn key []. Qed.

Lemma D2t_node : forall d b x kids, D2f kids -> D2t (XNode d b x kids).
Proof.
  intros d b x kids IH S anc W doc H. cbn [shape_ok] in S. apply andb_true_iff in S as [S Leaf]. apply andb_true_iff in S as [ND Sk].
  pose proof (Redef.names_wf_kids _ _ _ _ _ W) as Wk. destruct (IH Sk _ Wk) as [IR IO].
  cbn [doc_r] in H. cbn [xdefs].
  destruct (eocc (de d)) eqn:Eocc.
  - destruct (epic (de d)) eqn:Epic.
    + destruct kids; [|discriminate]. cbn [xdefs_f].
      unfold max_items_doc in H. destruct (i_dep x) as [dep|]; [|destruct (i_occ x) as [ds|]; [|discriminate]]; cbn [rbind] in H;
        (destruct (json_type_kvs x) as [jt|e|w] eqn:Ejt; cbn [rbind] in H; try discriminate; injection H as <-;
         split; [reflexivity|]; rewrite defs_obj; unfold head_def; cbn - [defs fdefs]; norm_defs;
         rewrite defs_obj; unfold head_def; cbn - [defs fdefs]; norm_defs;
         rewrite defs_single by reflexivity; rewrite (defs_inner' _ _ _ (json_type_keys x jt Ejt))).
      * rewrite defs_obj. unfold head_def. cbn - [defs fdefs]. norm_defs. apply Permutation_refl.
      * apply Permutation_refl.
    + unfold max_items_doc in H. destruct (i_dep x) as [dep|]; [|destruct (i_occ x) as [ds|]; [|discriminate]]; cbn [rbind] in H;
        (destruct (docs_kids_o kids []) as [props|e|w] eqn:Ek; cbn [rbind] in H; try discriminate; injection H as <-;
         destruct (IO [] [] props ND (KI_nil []) eq_refl Ek) as [Op Dp]; split; [reflexivity|];
         rewrite defs_obj; unfold head_def; cbn - [defs fdefs]; norm_defs;
         rewrite defs_obj; unfold head_def; cbn - [defs fdefs]; norm_defs;
         rewrite (props_defs props Op)).
      * rewrite defs_obj. unfold head_def. cbn - [defs fdefs]. norm_defs. unfold fdefs at 2. cbn [flat_map app]. rewrite ?app_nil_r.
        apply perm_skip. exact Dp.
      * unfold fdefs at 2. cbn [flat_map app]. rewrite ?app_nil_r. apply perm_skip. exact Dp.
  - destruct kids as [|k r].
    + destruct (json_type_kvs x) as [jt|e|w] eqn:Ejt; cbn [rbind] in H; try discriminate.
      destruct (calcsize_text (cobol_of d)) as [n|e|w]; cbn [rbind] in H; try discriminate. injection H as <-.
      split; [reflexivity|]. cbn [xdefs_f]. rewrite (defs_elem _ _ _ _ _ _ (json_type_keys x jt Ejt)) || idtac.
      replace (defs _) with [(dde_name (de d), cobol_of d)] by (symmetry; exact (defs_elem _ _ _ _ _ _ (json_type_keys x jt Ejt))).
      apply Permutation_refl.
    + destruct (docs_kids_r (XCons k r) []) as [props|e|w] eqn:Ek; cbn [rbind] in H; try discriminate. injection H as <-.
      destruct (IR [] [] props ND (KI_nil []) eq_refl Ek) as [Op Dp]. split; [reflexivity|].
      rewrite defs_obj. unfold head_def. cbn - [defs fdefs]. norm_defs. rewrite (props_defs props Op).
      unfold fdefs at 2. cbn [flat_map app]. rewrite ?app_nil_r. apply perm_skip. exact Dp.
Qed.

Theorem defs_doc_r : (forall t, D2t t) /\ (forall ks, D2f ks).
Proof.
  apply xtree_xforest_ind.
  - intros d b x kids IH. apply D2t_node. exact IH.
  - intros _ anc _. split; intros acc pn props _ _ O H; cbn [docs_kids_r docs_kids_o] in H; injection H as <-;
      (split; [exact O|]); cbn [xdefs_f]; rewrite app_nil_r; apply Permutation_refl.
  - intros k IHk r IHr. apply D2f_cons; assumption.
Qed.
End DefsR.


Lemma docs_r_defs : forall xf docs, forallb shape_ok xf = true -> forallb (names_wf []) xf = true -> docs_r xf = ROk docs ->
  Permutation (flat_map defs docs) (map name_cobol (SR.Model.Structure.preorder_f (map erase xf))).
Proof.
  induction xf as [|t xf IH]; intros docs S W H; cbn [docs_r] in H.
  - injection H as <-. apply Permutation_refl.
  - cbn [forallb] in S, W. apply andb_true_iff in S as [St S]. apply andb_true_iff in W as [Wt W].
    destruct (doc_r t) as [doc|e|w] eqn:Et; cbn [rbind] in H; try discriminate.
    destruct (docs_r xf) as [r|e|w] eqn:Er; cbn [rbind] in H; try discriminate. injection H as <-.
    destruct DefsR.defs_doc_r as [DT _]. destruct (DT t St [] Wt doc Et) as [_ Dd]. destruct xdefs_erase as [XE _].
    cbn [flat_map map]. rewrite SR.Proofs.StructureP.preorder_f_cons, map_app. apply Permutation_app; [rewrite <- XE; exact Dd|apply (IH r S W eq_refl)].
Qed.

(* every kept entry is defined exactly once (as a multiset: a redefined item and its redefiners are regrouped) *)
Theorem end_to_end_defs_full : forall es tail seqs f xf docs,
  copybook_ok es tail seqs = true -> SR.Model.Structure.structure (map spec_entry es) = Ok f ->
  annot_forest f (kept_infos (map spec_info es)) = Some xf ->
  forallb (names_wf []) xf = true -> forallb shape_ok xf = true ->
  schemas_of_text (print_copybook es tail seqs) = Done (Ok docs) ->
  Permutation (flat_map defs docs) (entry_defs es).
Proof.
  intros es tail seqs f xf docs OK Hf A NW SH H.
  destruct (end_to_end_full es tail seqs f OK Hf) as (xf' & A' & R & Q & S). rewrite A in A'. injection A' as <-.
  rewrite (S NW) in H.
  assert (D : docs_r xf = ROk docs).
  { destruct (docs_r xf) as [r|e|w]; cbn [to_outcome] in H; try discriminate. injection H as <-. reflexivity. }
  apply (Permutation_trans (docs_r_defs xf docs SH NW D)). rewrite R, (structure_preorder _ _ Hf). apply Permutation_refl.
Qed.

(* ================================================================ respelling, REDEFINES included *)
Module Resp2.
Import SR.Model.Structure.
Local Notation str := SR.Model.Pipeline.str.

(* ================================================================ respelling with REDEFINES *)
(* ---- structure() on entry lists that agree on level, name and REDEFINES target ---- *)
Section Sim2.
  Variable Rd : dde -> dde -> Prop.
  Hypothesis Rd_lv : forall d d', Rd d d' -> dlv d = dlv d'.
  Hypothesis Rd_red : forall d d', Rd d d' -> eredef (de d) = eredef (de d').
  Hypothesis Rd_nm : forall d d', Rd d d' -> dde_name (de d) = dde_name (de d').

  Inductive tsim : tree -> tree -> Prop :=
  | ts_node : forall d b kids d' kids', Rd d d' -> Forall2 tsim kids kids' -> tsim (TNode d b kids) (TNode d' b kids').

  Definition fsim (f f' : frame) : Prop := Rd (fd f) (fd f') /\ Forall2 tsim (fkids f) (fkids f').

  Lemma close_sim : forall f f', fsim f f' -> tsim (close f) (close f').
  Proof. intros f f' [H1 H2]. unfold close. constructor; assumption. Qed.

  Lemma attach_sim : forall t t' f f', tsim t t' -> fsim f f' -> fsim (attach t f) (attach t' f').
  Proof. intros t t' f f' Ht [H1 H2]. split; [exact H1|]. unfold attach. cbn [fkids]. apply Forall2_app; [exact H2|constructor; [exact Ht|constructor]]. Qed.

  Lemma pop_sim : forall x rest rest' cur cur', fsim cur cur' -> Forall2 fsim rest rest' ->
    match pop x cur rest, pop x cur' rest' with
    | inl (b, r), inl (b', r') => fsim b b' /\ Forall2 fsim r r'
    | inr t, inr t' => tsim t t'
    | _, _ => False
    end.
  Proof.
    intros x rest rest' cur cur' Hc Hr. revert cur cur' Hc. induction Hr as [|p p' rest rest' Hp Hr IH]; intros cur cur' Hc; cbn [pop];
      rewrite <- (Rd_lv _ _ (proj1 Hc)); destruct (pop_test x (dlv (fd cur))).
    - apply close_sim. exact Hc.
    - split; [exact Hc|constructor].
    - apply IH. apply attach_sim; [apply close_sim; exact Hc|exact Hp].
    - split; [exact Hc|constructor; assumption].
  Qed.

  Lemma name_is_sim : forall tgt t t', tsim t t' -> name_is tgt t = name_is tgt t'.
  Proof. intros tgt t t' T. destruct T as [d b kids d' kids' Hd _]. unfold name_is. cbn [troot]. rewrite (Rd_nm _ _ Hd). reflexivity. Qed.

  Lemma set_based_sim : forall t t', tsim t t' -> tsim (set_based t) (set_based t').
  Proof. intros t t' T. destruct T as [d b kids d' kids' Hd Hk]. cbn [set_based]. constructor; assumption. Qed.

  Lemma mark_unique_sim : forall tgt kids kids', Forall2 tsim kids kids' ->
    match mark_unique tgt kids, mark_unique tgt kids' with
    | Some a, Some a' => Forall2 tsim a a'
    | None, None => True
    | _, _ => False
    end.
  Proof.
    intros tgt kids kids' F. unfold mark_unique.
    assert (FL : Forall2 tsim (filter (name_is tgt) kids) (filter (name_is tgt) kids')).
    { induction F as [|t t' kids kids' Ht F IH]; cbn [filter]; [constructor|]. rewrite <- (name_is_sim tgt _ _ Ht).
      destruct (name_is tgt t); [constructor; assumption|exact IH]. }
    assert (MP : Forall2 tsim (map (fun t => if name_is tgt t then set_based t else t) kids)
                              (map (fun t => if name_is tgt t then set_based t else t) kids')).
    { clear FL. induction F as [|t t' kids kids' Ht F IH]; cbn [map]; [constructor|]. constructor; [|exact IH]. rewrite <- (name_is_sim tgt _ _ Ht).
      destruct (name_is tgt t); [apply set_based_sim; exact Ht|exact Ht]. }
    destruct FL as [|a a' l l' _ FL']; [exact I|]. destruct FL' as [|? ? ? ? _ _]; [exact MP|exact I].
  Qed.

  Definition ssim (s s' : state) : Prop :=
    Forall2 tsim (roots s) (roots s') /\ fsim (cur s) (cur s') /\ Forall2 fsim (rest s) (rest s').

  Lemma skipped_sim : forall d d', Rd d d' -> skipped d = skipped d'.
  Proof. intros d d' H. unfold skipped. rewrite (Rd_lv _ _ H). reflexivity. Qed.

  Lemma open_sim : forall d d', Rd d d' -> fsim (open d) (open d').
  Proof. intros d d' H. split; [exact H|constructor]. Qed.

  Definition rsim (r r' : res state) : Prop :=
    match r, r' with Ok s, Ok s' => ssim s s' | Err e, Err e' => e = e' | _, _ => False end.

  Lemma step_sim : forall s s' d d', ssim s s' -> Rd d d' -> rsim (step s d) (step s' d').
  Proof.
    intros s s' d d' (Hroots & Hcur & Hrest) Hd. unfold step. rewrite <- (skipped_sim _ _ Hd).
    destruct (skipped d); [exact (conj Hroots (conj Hcur Hrest))|].
    pose proof (pop_sim (dlv d) (rest s) (rest s') (cur s) (cur s') Hcur Hrest) as PS. rewrite <- (Rd_lv _ _ Hd), <- (Rd_red _ _ Hd).
    destruct (pop (dlv d) (cur s) (rest s)) as [[b r]|t], (pop (dlv d) (cur s') (rest s')) as [[b' r']|t']; try contradiction.
    - destruct PS as [Hb Hr]. destruct (eredef (de d)) as [tgt|].
      + pose proof (mark_unique_sim tgt _ _ (proj2 Hb)) as MS.
        destruct (mark_unique tgt (fkids b)) as [k1|], (mark_unique tgt (fkids b')) as [k1'|]; try contradiction; [|reflexivity].
        split; [exact Hroots|]. split; [apply open_sim; exact Hd|]. constructor; [split; [exact (proj1 Hb)|exact MS]|exact Hr].
      + split; [exact Hroots|]. split; [apply open_sim; exact Hd|]. constructor; assumption.
    - split; [cbn [roots]; apply Forall2_app; [exact Hroots|constructor; [exact PS|constructor]]|].
      split; [apply open_sim; exact Hd|constructor].
  Qed.

  Lemma run_sim : forall l l', Forall2 Rd l l' -> forall s s', ssim s s' -> rsim (run s l) (run s' l').
  Proof.
    intros l l' F. induction F as [|d d' l l' Hd F IH]; intros s s' Hs; cbn [run]; [exact Hs|].
    pose proof (step_sim s s' d d' Hs Hd) as SS. destruct (step s d) as [s1|e], (step s' d') as [s1'|e']; try contradiction; [apply IH; exact SS|exact SS].
  Qed.

  Lemma collapse_sim : forall rest rest', Forall2 fsim rest rest' -> forall cur cur', fsim cur cur' ->
    tsim (collapse cur rest) (collapse cur' rest').
  Proof.
    intros rest rest' F. induction F as [|p p' rest rest' Hp F IH]; intros cur cur' Hc; cbn [collapse]; [apply close_sim; exact Hc|].
    apply IH. apply attach_sim; [apply close_sim; exact Hc|exact Hp].
  Qed.

  Lemma structure_ddes_sim : forall l l', Forall2 Rd l l' ->
    match structure_ddes l, structure_ddes l' with
    | Ok f, Ok f' => Forall2 tsim f f'
    | Err e, Err e' => e = e'
    | _, _ => False
    end.
  Proof.
    intros l l' F. destruct F as [|d d' l l' Hd F]; [reflexivity|]. cbn [structure_ddes].
    assert (I : ssim {| roots := []; cur := open d; rest := [] |} {| roots := []; cur := open d'; rest := [] |}).
    { split; [constructor|]. split; [apply open_sim; exact Hd|constructor]. }
    pose proof (run_sim l l' F _ _ I) as RS.
    destruct (run {| roots := []; cur := open d; rest := [] |} l) as [s1|e], (run {| roots := []; cur := open d'; rest := [] |} l') as [s1'|e'];
      try contradiction; [|exact RS].
    destruct RS as (Hr & Hc & Hrest). unfold finish. apply Forall2_app; [exact Hr|constructor; [apply collapse_sim; assumption|constructor]].
  Qed.
End Sim2.

(* ---- what a document depends on besides the cobol text, REDEFINES target included ---- *)
Definition dsim2 (d d' : dde) : Prop :=
  dlv d = dlv d' /\ du d = du d' /\ dde_name (de d) = dde_name (de d') /\ eredef (de d) = eredef (de d')
  /\ epic (de d) = epic (de d') /\ eocc (de d) = eocc (de d') /\ calcsize_text (cobol_of d) = calcsize_text (cobol_of d').

Definition esim2 (e e' : entry) : Prop :=
  elv e = elv e' /\ dde_name e = dde_name e' /\ eredef e = eredef e' /\ epic e = epic e' /\ eocc e = eocc e'
  /\ calcsize_text ([fst (elv e); snd (elv e); 32%N] ++ etext e) = calcsize_text ([fst (elv e'); snd (elv e'); 32%N] ++ etext e').

Lemma mk_ddes_sim2 : forall l l', Forall2 esim2 l l' -> forall c, Forall2 dsim2 (mk_ddes c l) (mk_ddes c l').
Proof.
  intros l l' F. induction F as [|e e' l l' (L & Nm & R1 & Ep & Eo & Cs) F IH]; intros c; cbn [mk_ddes]; [constructor|].
  assert (IF : is_filler e' = is_filler e) by (unfold is_filler; rewrite Nm; reflexivity). rewrite IF, <- Nm, <- L.
  destruct (is_filler e); (constructor; [|apply IH]); unfold dsim2, dlv, cobol_of, dlv; cbn [de du]; repeat split; assumption.
Qed.

Inductive xsim2 : xtree -> xtree -> Prop :=
| xs2_node : forall d b x kids d' x' kids', dsim2 d d' -> isim x x' -> xsim2_f kids kids' -> xsim2 (XNode d b x kids) (XNode d' b x' kids')
with xsim2_f : xforest -> xforest -> Prop :=
| xs2_nil : xsim2_f XNil XNil
| xs2_cons : forall k r k' r', xsim2 k k' -> xsim2_f r r' -> xsim2_f (XCons k r) (XCons k' r').

Scheme xsim2_mut := Induction for xsim2 Sort Prop
with xsim2_f_mut := Induction for xsim2_f Sort Prop.
Combined Scheme xsim2_ind2 from xsim2_mut, xsim2_f_mut.

Theorem xsim2_of : (forall xt xt', tsim dsim2 (erase xt) (erase xt') ->
                     length (xpre xt) = length (xpre xt') /\ (Forall2 isim (xpre xt) (xpre xt') -> xsim2 xt xt'))
  /\ (forall ks ks', Forall2 (tsim dsim2) (erase_f ks) (erase_f ks') ->
                     length (xpre_f ks) = length (xpre_f ks') /\ (Forall2 isim (xpre_f ks) (xpre_f ks') -> xsim2_f ks ks')).
Proof.
  apply xtree_xforest_ind.
  - intros d b x kids IH [d' b' x' kids'] T. cbn [erase] in T. inversion T as [? ? ? ? ? Hd Hk]; subst.
    destruct (IH kids' Hk) as [Len Sim]. cbn [xpre length]. split; [rewrite Len; reflexivity|].
    intros F. inversion F as [|? ? ? ? Hx F']; subst. constructor; [exact Hd|exact Hx|apply Sim; exact F'].
  - intros [|k' r'] T; cbn [erase_f] in T; inversion T. split; [reflexivity|]. intros _. constructor.
  - intros k IHk r IHr [|k' r'] T; cbn [erase_f] in T; inversion T as [|? ? ? ? Hk Hr]; subst.
    destruct (IHk k' Hk) as [Lk Sk]. destruct (IHr r' Hr) as [Lr Sr]. cbn [xpre_f]. rewrite !app_length. split; [lia|].
    intros F. destruct (Forall2_app_len _ _ _ _ _ _ _ Lk F) as [Fk Fr]. constructor; [apply Sk; exact Fk|apply Sr; exact Fr].
Qed.

Lemma xsim2_forest : forall xf xf', Forall2 (tsim dsim2) (map erase xf) (map erase xf') ->
  Forall2 isim (concat (map xpre xf)) (concat (map xpre xf')) -> Forall2 xsim2 xf xf'.
Proof.
  induction xf as [|t xf IH]; intros [|t' xf'] T F; cbn [map] in T; inversion T as [|? ? ? ? Ht Tr]; subst; [constructor|].
  destruct xsim2_of as [XO _]. destruct (XO t t' Ht) as [Len Sim]. cbn [map concat] in F.
  destruct (Forall2_app_len _ _ _ _ _ _ _ Len F) as [Ft Fr]. constructor; [apply Sim; exact Ft|apply IH; assumption].
Qed.

(* ---- the pure specification on similar forests ---- *)
Lemma strip_kvs_jfind : forall k (l : list (str * jdoc)), str_eqb k k_cobol = false ->
  jfind k (strip_kvs l) = option_map strip_cobol (jfind k l).
Proof.
  intros k. induction l as [|[k1 v1] l IH]; intros N; [reflexivity|]. unfold strip_kvs in *. cbn [flat_map fst snd jfind].
  destruct (str_eqb k1 k_cobol) eqn:Q.
  - apply StructureP.str_eqb_eq in Q. subst k1. cbn [app]. rewrite (IH N).
    assert (E : str_eqb k_cobol k = false).
    { destruct (str_eqb k_cobol k) eqn:E; [|reflexivity]. apply StructureP.str_eqb_eq in E. subst k. rewrite StructureP.str_eqb_refl in N. discriminate. }
    rewrite E. reflexivity.
  - cbn [app jfind]. destruct (str_eqb k1 k); [reflexivity|apply IH; exact N].
Qed.

Lemma strip_kvs_jset : forall k v (l : list (str * jdoc)), str_eqb k k_cobol = false ->
  strip_kvs (jset k v l) = jset k (strip_cobol v) (strip_kvs l).
Proof.
  intros k v. induction l as [|[k1 v1] l IH]; intros N; unfold strip_kvs in *; cbn [jset flat_map fst snd].
  - rewrite N. reflexivity.
  - destruct (str_eqb k1 k) eqn:Q.
    + apply StructureP.str_eqb_eq in Q. subst k1. cbn [flat_map fst snd]. rewrite N. cbn [app jset]. rewrite StructureP.str_eqb_refl. reflexivity.
    + cbn [flat_map fst snd]. destruct (str_eqb k1 k_cobol); cbn [app jset]; [apply IH; exact N|]. rewrite Q. rewrite (IH N). reflexivity.
Qed.

Lemma accsim_jfind : forall a a' key, accsim a a' ->
  match jfind key a, jfind key a' with
  | Some v, Some v' => strip_cobol v = strip_cobol v'
  | None, None => True
  | _, _ => False
  end.
Proof.
  intros a a' key F. induction F as [|[k v] [k' v'] a a' [K V] F IH]; cbn [jfind]; [exact I|]. cbn [fst snd] in *. subst k'.
  destruct (str_eqb k key); [exact V|exact IH].
Qed.

Lemma oneof_add_sim : forall key dk dk' a a', accsim a a' -> strip_cobol dk = strip_cobol dk' ->
  match oneof_add key dk a, oneof_add key dk' a' with
  | ROk r, ROk r' => accsim r r'
  | RErr e, RErr e' => e = e'
  | RUn w, RUn w' => w = w'
  | _, _ => False
  end.
Proof.
  intros key dk dk' a a' F D. unfold oneof_add. pose proof (accsim_jfind a a' key F) as J.
  destruct (jfind key a) as [v|], (jfind key a') as [v'|]; try contradiction; [|reflexivity].
  destruct v as [s|n|kvs|l], v' as [s'|n'|kvs'|l']; cbn [strip_cobol] in J; try discriminate; try reflexivity.
  injection J as J. fold (strip_kvs kvs) in J. fold (strip_kvs kvs') in J.
  pose proof (strip_kvs_jfind k_oneOf kvs eq_refl) as A. pose proof (strip_kvs_jfind k_oneOf kvs' eq_refl) as A'. rewrite J in A. rewrite A in A'.
  destruct (jfind k_oneOf kvs) as [w|], (jfind k_oneOf kvs') as [w'|]; cbn [option_map] in A'; try discriminate; [|reflexivity].
  injection A' as A'.
  destruct w as [s|n|o|l], w' as [s'|n'|o'|l']; cbn [strip_cobol] in A'; try discriminate; try reflexivity.
  injection A' as A'. apply accsim_jset; [exact F|].
  rewrite !strip_obj, !strip_kvs_jset by reflexivity. rewrite J. cbn [strip_cobol]. rewrite !map_app. cbn [map]. rewrite A', D. reflexivity.
Qed.

Definition krel (r r' : R (list (str * jdoc))) : Prop :=
  match r, r' with
  | ROk p, ROk p' => accsim p p'
  | RErr e, RErr e' => e = e'
  | RUn w, RUn w' => w = w'
  | _, _ => False
  end.

Lemma xeff_sim : forall k k', xsim2 k k' -> xeff_redef k = xeff_redef k' /\ du (xdde k) = du (xdde k')
  /\ strip_cobol (placeholder k) = strip_cobol (placeholder k').
Proof.
  intros k k' S. destruct S as [d b x kids d' x' kids' (L & U & Nm & Rd & _) _ _]. unfold xeff_redef, placeholder. cbn [xdde].
  rewrite Nm, Rd, U. repeat split; reflexivity.
Qed.

Theorem doc_r_sim : (forall t t', xsim2 t t' -> strip_R (doc_r t) = strip_R (doc_r t'))
  /\ (forall ks ks', xsim2_f ks ks' -> forall a a', accsim a a' ->
        krel (docs_kids_r ks a) (docs_kids_r ks' a') /\ krel (docs_kids_o ks a) (docs_kids_o ks' a')).
Proof.
  apply xsim2_ind2.
  - intros d b x kids d' x' kids' (L & U & Nm & Rd & Ep & Eo & Cs) (Mx & Jt) Sk IH.
    cbn [doc_r]. rewrite <- Eo, <- Ep, <- Mx, <- Jt, <- Nm, <- U, <- Cs.
    destruct (eocc (de d)).
    + destruct (max_items_doc x) as [mx|e|w]; cbn [rbind]; [|reflexivity|reflexivity].
      destruct (epic (de d)).
      * destruct (json_type_kvs x) as [jt|e|w]; cbn [rbind strip_R]; reflexivity.
      * match goal with |- context [docs_kids_o kids ?a] => destruct (IH a a (Forall2_nil _)) as [_ IHo] end. unfold krel in IHo.
        destruct (docs_kids_o kids []) as [p|e|w], (docs_kids_o kids' []) as [p'|e'|w']; try contradiction; cbn [rbind strip_R]; try (subst; reflexivity).
        pose proof (accsim_strip _ _ IHo) as SP. unfold strip_kvs in SP. cbn. rewrite SP. reflexivity.
    + destruct kids as [|k r]; inversion Sk; subst.
      * destruct (json_type_kvs x) as [jt|e|w]; cbn [rbind strip_R]; [|reflexivity|reflexivity].
        destruct (calcsize_text (cobol_of d)) as [n|e|w]; cbn [rbind strip_R]; reflexivity.
      * match goal with |- context [docs_kids_r (XCons k r) ?a] => destruct (IH a a (Forall2_nil _)) as [IHr _] end. unfold krel in IHr.
        destruct (docs_kids_r (XCons k r) []) as [p|e|w], (docs_kids_r (XCons k' r') []) as [p'|e'|w']; try contradiction; cbn [rbind strip_R]; try (subst; reflexivity).
        pose proof (accsim_strip _ _ IHr) as SP. unfold strip_kvs in SP. cbn. rewrite SP. reflexivity.
  - intros a a' F. split; cbn [docs_kids_r docs_kids_o krel]; exact F.
  - intros k r k' r' Sk IHk Sr IHr a a' F. destruct (xeff_sim k k' Sk) as (X & U & PH).
    cbn [docs_kids_r docs_kids_o]. rewrite <- X, <- U. split.
    + destruct (xeff_redef k) as [tgt|].
      * cbv zeta.
        assert (F1 : accsim (match jfind (redef_key tgt) a with Some _ => a | None => a ++ [(redef_key tgt, oneof_new (redef_key tgt))] end)
                            (match jfind (redef_key tgt) a' with Some _ => a' | None => a' ++ [(redef_key tgt, oneof_new (redef_key tgt))] end)).
        { pose proof (accsim_jfind a a' (redef_key tgt) F) as J.
          destruct (jfind (redef_key tgt) a), (jfind (redef_key tgt) a'); try contradiction; [exact F|].
          apply Forall2_app; [exact F|constructor; [split; reflexivity|constructor]]. }
        destruct (doc_r k) as [dk|e|w], (doc_r k') as [dk'|e'|w']; cbn [strip_R] in IHk; try discriminate; cbn [rbind]; try (injection IHk as ->; reflexivity).
        injection IHk as IHk. pose proof (oneof_add_sim (redef_key tgt) dk dk' _ _ F1 IHk) as OS.
        destruct (oneof_add (redef_key tgt) dk _) as [r2|e|w], (oneof_add (redef_key tgt) dk' _) as [r2'|e'|w']; try contradiction; cbn [rbind krel]; try exact OS.
        apply IHr. apply accsim_jset; assumption.
      * destruct (doc_r k) as [dk|e|w], (doc_r k') as [dk'|e'|w']; cbn [strip_R] in IHk; try discriminate; cbn [rbind]; try (injection IHk as ->; reflexivity).
        injection IHk as IHk. apply IHr. apply accsim_jset; assumption.
    + destruct (xeff_redef k) as [tgt|]; [reflexivity|].
      destruct (doc_r k) as [dk|e|w], (doc_r k') as [dk'|e'|w']; cbn [strip_R] in IHk; try discriminate; cbn [rbind]; try (injection IHk as ->; reflexivity).
      injection IHk as IHk. apply IHr. apply accsim_jset; assumption.
Qed.

Lemma docs_r_sim : forall xf xf', Forall2 xsim2 xf xf' ->
  match docs_r xf, docs_r xf' with
  | ROk l, ROk l' => map strip_cobol l = map strip_cobol l'
  | RErr e, RErr e' => e = e'
  | RUn w, RUn w' => w = w'
  | _, _ => False
  end.
Proof.
  intros xf xf' F. induction F as [|t t' xf xf' Ht F IH]; cbn [docs_r]; [reflexivity|].
  destruct doc_r_sim as [DS _]. specialize (DS t t' Ht).
  destruct (doc_r t) as [d|e|w], (doc_r t') as [d'|e'|w']; cbn [strip_R] in DS; try discriminate; cbn [rbind].
  - injection DS as DS. destruct (docs_r xf) as [l|e|w], (docs_r xf') as [l'|e'|w']; try contradiction; cbn [rbind]; try exact IH.
    cbn [map]. rewrite DS, IH. reflexivity.
  - injection DS as ->. reflexivity.
  - injection DS as ->. reflexivity.
Qed.

Import SR.Spec.Clauses.

Lemma respell_sim3 : forall e e', same_clauses e e' -> ce_ok e = true -> ce_ok e' = true ->
  respelling_domain e = true -> respelling_domain e' = true ->
  esim2 (spec_entry e) (spec_entry e') /\ isim (spec_info e) (spec_info e')
  /\ info_skipped (spec_info e) = info_skipped (spec_info e').
Proof.
  intros e e' SC OK OK' RD RD'.
  pose proof (normal_same_clauses e e' SC OK OK') as N. destruct SC as (E1 & E2 & _).
  unfold respelling_domain in RD, RD'. apply andb_true_iff in RD as [FX RA]. apply andb_true_iff in RD' as [FX' RA'].
  unfold filler_exact in FX, FX'.
  assert (L14 := lookup_verbatim 14 _ _ N (fun v => eq_refl)). assert (L7 := lookup_verbatim 7 _ _ N (fun v => eq_refl)).
  assert (L6 := lookup_verbatim 6 _ _ N (fun v => eq_refl)). assert (L5 := lookup_verbatim 5 _ _ N (fun v => eq_refl)).
  assert (L4 := lookup_verbatim 4 _ _ N (fun v => eq_refl)). assert (L0 := lookup_verbatim 0 _ _ N (fun v => eq_refl)).
  assert (L13 := filler_same _ _ N FX FX').
  assert (IP : i_pic (spec_info e) = i_pic (spec_info e')) by exact L7.
  destruct (usage_classes e e' N RA RA') as [JC CC].
  split; [|split].
  - unfold esim2, spec_entry. cbn [SR.Model.Structure.elv SR.Model.Structure.dde_name SR.Model.Structure.ename SR.Model.Structure.efill
      SR.Model.Structure.eredef SR.Model.Structure.epic SR.Model.Structure.eocc SR.Model.Structure.etext fst snd]. unfold has in *.
    rewrite L14, L13, L7, L6, L4, L0, E1, E2. repeat split.
    rewrite <- E1, <- E2. rewrite (calcsize_agrees e RA). rewrite E1, E2. rewrite (calcsize_agrees e' RA'). rewrite <- IP.
    apply (formula_class _ _ _ (fun v es =>
         match SR.Model.Picture.size_loop es 0 with
         | Err ex => RErr ex
         | Ok size =>
             let sl := length (SR.Model.Picture.g_sign (SR.Model.Picture.digit_groups es)) in
             let two := (2 <=? sl)%nat in
             if two && SR.Model.Estruct.mem v SR.Gen.EstructParams.calc_packed && negb (SR.Model.Estruct.mem v SR.Gen.EstructParams.calc_display) && negb (Nat.eqb size 0) then RUn 3
             else
               let p := if two then SR.Model.Estruct.mkpic false size 0 else SR.Model.Estruct.mkpic (Nat.eqb sl 1) (size - sl) 0 in
               match SR.Model.Estruct.calcsize v p with
               | Ok n => ROk n
               | Err ex => RErr ex
               end
         end)).
    intros es. pose proof (f_equal (fun l => nth 0 l false) CC) as C0. pose proof (f_equal (fun l => nth 1 l false) CC) as C1.
    unfold calc_class in C0, C1. cbn [map nth] in C0, C1.
    destruct (SR.Model.Picture.size_loop es 0) as [size|ex]; [|reflexivity]. cbv zeta. rewrite C0, C1.
    rewrite (calcsize_class _ _ _ CC). reflexivity.
  - unfold isim. split.
    + unfold max_items_doc, spec_info. cbn [i_dep i_occ]. rewrite L5, L6. reflexivity.
    + unfold json_type_kvs. rewrite <- IP. rewrite (json_type_class _ _ _ JC). reflexivity.
  - unfold info_skipped, spec_info, spec_entry. cbn [i_entry SR.Model.Structure.elv]. rewrite E1, E2. reflexivity.
Qed.

(* defined in Spec/PipelineWf.v, module Resp2 *)
Notation copybook_names_ok := SR.Spec.PipelineWf.Resp2.copybook_names_ok (only parsing).

Lemma dsim2_lv : forall d d', dsim2 d d' -> SR.Model.Structure.dlv d = SR.Model.Structure.dlv d'.
Proof. intros d d' H. apply H. Qed.
Lemma dsim2_red : forall d d', dsim2 d d' -> SR.Model.Structure.eredef (SR.Model.Structure.de d) = SR.Model.Structure.eredef (SR.Model.Structure.de d').
Proof. intros d d' (_ & _ & _ & A & _). exact A. Qed.
Lemma dsim2_nm : forall d d', dsim2 d d' -> SR.Model.Structure.dde_name (SR.Model.Structure.de d) = SR.Model.Structure.dde_name (SR.Model.Structure.de d').
Proof. intros d d' (_ & _ & A & _). exact A. Qed.

Theorem respelling_docs_full : forall es tail seqs es' tail' seqs',
  Forall2 same_clauses es es' ->
  copybook_ok es tail seqs = true -> copybook_ok es' tail' seqs' = true ->
  forallb respelling_domain es = true -> forallb respelling_domain es' = true ->
  copybook_names_ok es = true -> copybook_names_ok es' = true ->
  strip_outcome (schemas_of_text (print_copybook es tail seqs)) = strip_outcome (schemas_of_text (print_copybook es' tail' seqs')).
Proof.
  intros es tail seqs es' tail' seqs' SC OK OK' RD RD' NM NM'.
  assert (OKe : forallb ce_ok es = true).
  { unfold copybook_ok in OK. apply andb_true_iff in OK as [OK0 _]. apply andb_true_iff in OK0 as [OK0 _]. exact OK0. }
  assert (OKe' : forallb ce_ok es' = true).
  { unfold copybook_ok in OK'. apply andb_true_iff in OK' as [OK0 _]. apply andb_true_iff in OK0 as [OK0 _]. exact OK0. }
  assert (ALL : Forall2 (fun e e' => esim2 (spec_entry e) (spec_entry e') /\ isim (spec_info e) (spec_info e')
                                     /\ info_skipped (spec_info e) = info_skipped (spec_info e')) es es').
  { clear - SC OKe OKe' RD RD'. revert OKe OKe' RD RD'.
    induction SC as [|e e' es es' Se SC IH]; intros OKe OKe' RD RD'; [constructor|]. cbn [forallb] in *.
    apply andb_true_iff in OKe as [O1 O2]. apply andb_true_iff in OKe' as [O1' O2'].
    apply andb_true_iff in RD as [D1 D2]. apply andb_true_iff in RD' as [D1' D2'].
    constructor; [apply respell_sim3; assumption|apply IH; assumption]. }
  assert (ES : Forall2 esim2 (map spec_entry es) (map spec_entry es')).
  { clear - ALL. induction ALL as [|e e' es es' (H & _) ALL IH]; cbn [map]; constructor; assumption. }
  assert (IS : Forall2 (fun x x' => isim x x' /\ info_skipped x = info_skipped x') (map spec_info es) (map spec_info es')).
  { clear - ALL. induction ALL as [|e e' es es' (_ & H) ALL IH]; cbn [map]; constructor; assumption. }
  pose proof (structure_ddes_sim dsim2 dsim2_lv dsim2_red dsim2_nm _ _ (mk_ddes_sim2 _ _ ES 0%N)) as SS.
  fold (SR.Model.Structure.structure (map spec_entry es)) in SS. fold (SR.Model.Structure.structure (map spec_entry es')) in SS.
  destruct (SR.Model.Structure.structure (map spec_entry es)) as [f|e] eqn:Hf, (SR.Model.Structure.structure (map spec_entry es')) as [f'|e'] eqn:Hf'; try contradiction.
  - destruct (end_to_end_full es tail seqs f OK Hf) as (xf & A & R & Q & S).
    destruct (end_to_end_full es' tail' seqs' f' OK' Hf') as (xf' & A' & R' & Q' & S').
    unfold copybook_names_ok in NM, NM'. rewrite Hf, A in NM. rewrite Hf', A' in NM'. rewrite (S NM), (S' NM').
    pose proof (kept_infos_sim _ _ IS) as KS. rewrite <- Q, <- Q' in KS. rewrite <- R, <- R' in SS.
    pose proof (docs_r_sim _ _ (xsim2_forest _ _ SS KS)) as DS.
    destruct (docs_r xf) as [l|e|w], (docs_r xf') as [l'|e'|w']; try contradiction; cbn [to_outcome strip_outcome]; subst; try reflexivity.
    rewrite DS. reflexivity.
  - subst e'. rewrite (schemas_of_printed _ _ _ OK), (schemas_of_printed _ _ _ OK'). unfold docs_of_infos.
    rewrite !map_entry_spec_info, Hf, Hf'. reflexivity.
Qed.
End Resp2.
