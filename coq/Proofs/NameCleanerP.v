From Coq Require Import NArith List Bool Lia Arith ZifyBool ZifyN.
Import ListNotations.
Require Import SR.Base.Res SR.Gen.NameCleanerParams SR.Spec.Anchor SR.Model.NameCleaner.
Open Scope N_scope.

(* ---- the source's character classes and flags are the ones the specification needs ---- *)
Lemma params_flags : dotall = true.
Proof. reflexivity. Qed.

Lemma m_start_spec c : m_start c = is_start c.
Proof. unfold m_start, in_ranges, start_ranges, is_start, Anchor.us; simpl. lia. Qed.

Lemma m_cont_spec c : m_cont c = is_cont c.
Proof. unfold m_cont, in_ranges, cont_ranges, is_cont, is_start, Anchor.us; simpl. lia. Qed.

(* number of characters other than the underscore: the loop's measure *)
Fixpoint nu (s : list N) : nat :=
  match s with
  | [] => O
  | c :: t => if c =? us then nu t else S (nu t)
  end.

Lemma nu_le_length s : (nu s <= length s)%nat.
Proof. induction s as [|c t IH]; simpl; [lia|]. destruct (c =? us); lia. Qed.

Lemma is_start_us : is_start us = true.
Proof. reflexivity. Qed.

Lemma is_cont_us : is_cont us = true.
Proof. reflexivity. Qed.

Lemma drop_cont_spec s :
  match drop_cont s with
  | [] => forallb is_cont s = true
  | b :: _ => is_cont b = false /\ In b s
  end.
Proof.
  induction s as [|c t IH]; simpl; [reflexivity|].
  rewrite m_cont_spec. destruct (is_cont c) eqn:Hc.
  - destruct (drop_cont t) as [|b r]; [exact IH|].
    destruct IH as [H1 H2]. split; [exact H1|right; exact H2].
  - split; [exact Hc|left; reflexivity].
Qed.

Lemma scan_eq s :
  scan s = match rest_of s with [] => NoBad | b :: _ => Bad b end.
Proof. unfold scan, group2. rewrite params_flags. reflexivity. Qed.

Lemma scan_nobad s : scan s = NoBad <-> (s = [] \/ legal s = true).
Proof.
  rewrite scan_eq. destruct s as [|c t]; simpl.
  - split; [intros _; left; reflexivity|reflexivity].
  - rewrite m_start_spec. destruct (is_start c) eqn:Hc; simpl.
    + pose proof (drop_cont_spec t) as H.
      destruct (drop_cont t) as [|b r].
      * split; [intros _; right; exact H|reflexivity].
      * destruct H as [Hb Hin]. split; [discriminate|].
        intros [H0|H0]; [discriminate|].
        rewrite forallb_forall in H0. rewrite (H0 b Hin) in Hb. discriminate.
    + split; [discriminate|]. intros [H|H]; discriminate.
Qed.

Lemma scan_bad s b : scan s = Bad b -> b <> us /\ In b s.
Proof.
  rewrite scan_eq. destruct s as [|c t]; simpl; [discriminate|].
  rewrite m_start_spec. destruct (is_start c) eqn:Hc.
  - pose proof (drop_cont_spec t) as H. destruct (drop_cont t) as [|b' r]; [discriminate|].
    intros E. injection E as <-.
    destruct H as [Hb Hin]. split; [|right; exact Hin].
    intros ->. rewrite is_cont_us in Hb. discriminate.
  - intros E. injection E as <-. split; [|left; reflexivity].
    intros ->. rewrite is_start_us in Hc. discriminate.
Qed.

Lemma scan_matches s : scan s <> NoMatch.
Proof. rewrite scan_eq. destruct (rest_of s); discriminate. Qed.

Lemma nu_replace_le b s : (nu (replace_char b s) <= nu s)%nat.
Proof.
  induction s as [|c t IH]; simpl; [lia|].
  destruct (c =? b) eqn:Hcb.
  - change (us =? us) with true. cbv iota. destruct (c =? us); lia.
  - destruct (c =? us); lia.
Qed.

Lemma nu_replace_lt b s : b <> us -> In b s -> (nu (replace_char b s) < nu s)%nat.
Proof.
  intros Hb. induction s as [|c t IH]; simpl; [contradiction|].
  intros [->|Hin].
  - rewrite N.eqb_refl. change (us =? us) with true. cbv iota.
    destruct (b =? us) eqn:E; [apply N.eqb_eq in E; contradiction|].
    pose proof (nu_replace_le b t). lia.
  - specialize (IH Hin).
    destruct (c =? b) eqn:Hcb.
    + change (us =? us) with true. cbv iota. destruct (c =? us); lia.
    + destruct (c =? us); lia.
Qed.

Lemma collapse_cons2 c d t :
  collapse (c :: d :: t) = if (c =? us) && (d =? us) then us :: collapse t else c :: collapse (d :: t).
Proof. reflexivity. Qed.

Lemma nu_collapse_aux n : forall s, (length s <= n)%nat -> nu (collapse s) = nu s.
Proof.
  induction n as [|n IH]; intros s Hlen.
  - destruct s; [reflexivity|simpl in Hlen; lia].
  - destruct s as [|c [|d t]]; [reflexivity|reflexivity|].
    rewrite collapse_cons2.
    destruct (c =? us) eqn:Hc; destruct (d =? us) eqn:Hd; cbn [andb].
    + cbn [nu]. rewrite Hc, Hd. change (us =? us) with true. cbv iota.
      apply IH. simpl in Hlen. lia.
    + cbn [nu]. rewrite Hc. fold (nu (d :: t)). rewrite IH; [reflexivity|simpl in *; lia].
    + cbn [nu]. rewrite Hc. fold (nu (d :: t)). rewrite IH; [reflexivity|simpl in *; lia].
    + cbn [nu]. rewrite Hc. fold (nu (d :: t)). rewrite IH; [reflexivity|simpl in *; lia].
Qed.

Lemma nu_collapse s : nu (collapse s) = nu s.
Proof. apply (nu_collapse_aux (length s)). lia. Qed.

Lemma nu_step b s : b <> us -> In b s -> (nu (step b s) < nu s)%nat.
Proof. intros Hb Hin. unfold step. rewrite nu_collapse. apply nu_replace_lt; assumption. Qed.

(* enough fuel: the loop always ends, never raises, and ends on a string with nothing bad left *)
Lemma clean_fuel_total fuel : forall s k, (nu s <= fuel)%nat ->
  exists r n, clean_fuel fuel s k = Some (Ok r, n) /\ scan r = NoBad.
Proof.
  induction fuel as [|f IH]; intros s k Hnu; simpl.
  - destruct (scan s) as [|b|] eqn:E.
    + exists s, k; split; [reflexivity|exact E].
    + destruct (scan_bad s b E) as [Hb Hin].
      pose proof (nu_replace_lt b s Hb Hin). lia.
    + exfalso. exact (scan_matches s E).
  - destruct (scan s) as [|b|] eqn:E.
    + exists s, k; split; [reflexivity|exact E].
    + destruct (scan_bad s b E) as [Hb Hin].
      apply IH. pose proof (nu_step b s Hb Hin). lia.
    + exfalso. exact (scan_matches s E).
Qed.

Lemma clean_total s : exists r, clean s = Some (Ok r) /\ (r = [] \/ legal r = true).
Proof.
  destruct (clean_fuel_total (length s) s 0%nat (nu_le_length s)) as (r & n & H & Hr).
  exists r. split.
  - unfold clean, clean_iters. rewrite H. reflexivity.
  - apply scan_nobad. exact Hr.
Qed.

Lemma clean_fixed s : (s = [] \/ legal s = true) -> clean s = Some (Ok s).
Proof.
  intros H. apply scan_nobad in H. unfold clean, clean_iters.
  destruct (length s); simpl; rewrite H; reflexivity.
Qed.

Lemma clean_idempotent s r : clean s = Some (Ok r) -> clean r = Some (Ok r).
Proof.
  intros H. destruct (clean_total s) as (r' & H' & Hl). rewrite H in H'.
  injection H' as <-. apply clean_fixed. exact Hl.
Qed.

(* ---- a non-empty heading is never cleaned to the empty string: with clean_total, the result is a legal anchor ---- *)
Lemma collapse_nonempty : forall s : list N, s <> [] -> collapse s <> [].
Proof.
  intros s Hs. destruct s as [|c t]; [congruence|].
  cbn [collapse]. destruct t as [|d t']; [discriminate|].
  destruct ((c =? us) && (d =? us))%bool; discriminate.
Qed.

Lemma step_nonempty : forall (b : N) (s : list N), s <> [] -> step b s <> [].
Proof.
  intros b s Hs. unfold step. apply collapse_nonempty. unfold replace_char.
  destruct s; [congruence|discriminate].
Qed.

Lemma clean_fuel_nonempty : forall (f : nat) (s : list N) (i : nat) (r : list N) (n : nat),
  s <> [] -> clean_fuel f s i = Some (Ok r, n) -> r <> [].
Proof.
  induction f as [|f IH]; intros s i r n Hs H; cbn [clean_fuel] in H; destruct (scan s) as [|b|] eqn:E.
  - injection H as H1 _. subst r. exact Hs.
  - discriminate.
  - discriminate.
  - injection H as H1 _. subst r. exact Hs.
  - eapply IH; [|exact H]. apply step_nonempty. exact Hs.
  - discriminate.
Qed.

Lemma clean_nonempty_legal : forall s r : list N, s <> [] -> clean s = Some (Ok r) -> legal r = true.
Proof.
  intros s r Hs H. destruct (clean_total s) as [r' [H' Hr']]. rewrite H in H'. injection H' as ->.
  destruct Hr' as [He|Hl]; [|exact Hl]. exfalso.
  unfold clean, clean_iters in H. destruct (clean_fuel (length s) s 0) as [[q n]|] eqn:E; cbn in H; [|discriminate].
  injection H as ->. eapply clean_fuel_nonempty in E; [|exact Hs]. congruence.
Qed.
