(* Lemmas for C14: the registry (Model/Registry.v) and the life cycle (Model/Lifecycle.v). *)
From Coq Require Import NArith List Bool Arith Lia.
Import ListNotations.
Require Import SR.Base.Res SR.Gen.RegistryParams SR.Spec.Lifecycle SR.Model.Registry SR.Model.Lifecycle.

(* ------------------------------------------------------------------ strings *)
Lemma str_eqb_eq a b : str_eqb a b = true <-> a = b.
Proof.
  revert b. induction a as [|x a IH]; intros [|y b]; simpl; split; intro H; try reflexivity; try discriminate.
  - apply andb_true_iff in H. destruct H as [H1 H2]. apply N.eqb_eq in H1. apply IH in H2. subst. reflexivity.
  - injection H as -> ->. rewrite N.eqb_refl. simpl. apply IH. reflexivity.
Qed.

Lemma str_eqb_refl a : str_eqb a a = true.
Proof. apply str_eqb_eq. reflexivity. Qed.

Lemma str_eqb_sym a b : str_eqb a b = str_eqb b a.
Proof.
  destruct (str_eqb a b) eqn:E1, (str_eqb b a) eqn:E2; try reflexivity.
  - apply str_eqb_eq in E1. subst. rewrite str_eqb_refl in E2. discriminate.
  - apply str_eqb_eq in E2. subst. rewrite str_eqb_refl in E1. discriminate.
Qed.

Lemma seq_eqb_str a b : seq_eqb a b = str_eqb a b.
Proof. revert b. induction a as [|x a IH]; intros [|y b]; simpl; try reflexivity; rewrite IH; reflexivity. Qed.

Lemma existsb_mention s names : existsb (seq_eqb s) names = existsb (str_eqb s) names.
Proof. induction names as [|n t IH]; simpl; [reflexivity|]. rewrite seq_eqb_str, IH. reflexivity. Qed.

Lemma existsb_str_In s names : existsb (str_eqb s) names = true <-> In s names.
Proof.
  rewrite existsb_exists. split.
  - intros [x [Hx E]]. apply str_eqb_eq in E. subst. exact Hx.
  - intros H. exists s. split; [exact H|apply str_eqb_refl].
Qed.

(* ------------------------------------------------------------------ registry *)
Lemma reg_get_set r k c s :
  reg_get (reg_set r k c) s = if str_eqb k s then Some c else reg_get r s.
Proof.
  induction r as [|[k' c'] t IH]; simpl.
  - reflexivity.
  - change later_wins with true. cbv iota.
    destruct (str_eqb k' k) eqn:Ek; simpl.
    + apply str_eqb_eq in Ek. subst k'. destruct (str_eqb k s); reflexivity.
    + rewrite IH. destruct (str_eqb k' s) eqn:E1; [|reflexivity].
      destruct (str_eqb k s) eqn:E2; [|reflexivity].
      apply str_eqb_eq in E1. apply str_eqb_eq in E2. subst. rewrite str_eqb_refl in Ek. discriminate.
Qed.

Lemma reg_get_decorate names c r s :
  reg_get (decorate r (names, c)) s = if existsb (str_eqb s) names then Some c else reg_get r s.
Proof.
  unfold decorate. simpl. revert r. induction names as [|n t IH]; intros r; simpl.
  - reflexivity.
  - rewrite IH, reg_get_set, (str_eqb_sym s n).
    destruct (str_eqb n s); simpl; destruct (existsb (str_eqb s) t); reflexivity.
Qed.

Lemma reg_get_decorate_spec names c r s :
  reg_get (decorate r (names, c)) s = if existsb (seq_eqb s) names then Some c else reg_get r s.
Proof. exact (reg_get_decorate names c r s). Qed.

Lemma reg_get_fold ds r s :
  reg_get (fold_left decorate ds r) s =
  match last_mention ds s with Some c => Some c | None => reg_get r s end.
Proof.
  revert r. induction ds as [|[names c] t IH]; intros r; simpl.
  - reflexivity.
  - rewrite IH. destruct (last_mention t s); [reflexivity|].
    rewrite reg_get_decorate_spec. destruct (existsb (seq_eqb s) names); reflexivity.
Qed.

Lemma reg_get_register_all ds s : reg_get (register_all ds) s = last_mention ds s.
Proof. unfold register_all. rewrite reg_get_fold. destruct (last_mention ds s); reflexivity. Qed.

Lemma last_mention_none ds s :
  (forall d, In d ds -> ~ In s (fst d)) -> last_mention ds s = None.
Proof.
  induction ds as [|d t IH]; intros H; simpl; [reflexivity|].
  rewrite IH by (intros d' Hd'; apply H; right; exact Hd').
  destruct (existsb (seq_eqb s) (fst d)) eqn:E; [|reflexivity].
  change (seq_eqb s) with (str_eqb s) in E. apply existsb_str_In in E. exfalso. apply (H d); [left; reflexivity|exact E].
Qed.

Lemma last_mention_some ds1 names c ds2 s :
  In s names -> (forall d, In d ds2 -> ~ In s (fst d)) ->
  last_mention (ds1 ++ (names, c) :: ds2) s = Some c.
Proof.
  intros Hin Hnone. induction ds1 as [|d t IH]; simpl.
  - rewrite (last_mention_none ds2 s Hnone).
    assert (E : existsb (seq_eqb s) names = true) by (apply existsb_str_In in Hin; exact Hin).
    simpl. rewrite E. reflexivity.
  - rewrite IH. reflexivity.
Qed.

(* the full-strength statement used by Props/C14.v *)
Lemma registry_last_wins (ds : list (list str * N)) (s : str) :
  (forall ds1 names c ds2,
      ds = ds1 ++ (names, c) :: ds2 -> In s names -> (forall d, In d ds2 -> ~ In s (fst d)) ->
      open_workbook (register_all ds) s = (Ok c, [Construct c]))
  /\ ((forall d, In d ds -> ~ In s (fst d)) ->
      open_workbook (register_all ds) s = (Err NotImplementedError, [])).
Proof.
  split.
  - intros ds1 names c ds2 E Hin Hnone. subst ds. unfold open_workbook.
    rewrite reg_get_register_all, (last_mention_some ds1 names c ds2 s Hin Hnone). reflexivity.
  - intros H. unfold open_workbook. rewrite reg_get_register_all, (last_mention_none ds s H). reflexivity.
Qed.

Lemma registry_matches_spec ds s :
  open_workbook (register_all ds) s =
  match last_mention ds s with
  | Some c => (Ok c, [Construct c])
  | None => (Err NotImplementedError, [])
  end.
Proof. unfold open_workbook. rewrite reg_get_register_all. reflexivity. Qed.

Lemma register_all_snoc pre names c :
  register_all (pre ++ [(names, c)]) = decorate (register_all pre) (names, c).
Proof. unfold register_all. rewrite fold_left_app. reflexivity. Qed.

(* histories: registrations and opens interleaved, starting after the registrations [pre] *)
Lemma run_ops_history ops : forall pre,
  run_ops (register_all pre) ops = map answer (history pre ops).
Proof.
  induction ops as [|[names c|s] t IH]; intros pre; simpl.
  - reflexivity.
  - rewrite <- register_all_snoc. apply IH.
  - rewrite IH, registry_matches_spec. reflexivity.
Qed.

Lemma run_ops_history_fresh ops : run_ops [] ops = map answer (history [] ops).
Proof. exact (run_ops_history ops []). Qed.

Lemma unknown_opens_nothing (r : registry) (s : str) e tr :
  open_workbook r s = (Err e, tr) -> e = NotImplementedError /\ tr = [] /\ reg_get r s = None.
Proof.
  unfold open_workbook. destruct (reg_get r s); intros H; inversion H. repeat split; reflexivity.
Qed.

(* ------------------------------------------------------------------ life cycle *)
Local Open Scope nat_scope.

(* close() of every class: never raises, leaves no attribute, and a second close is the identity *)
Lemma close_total c s : exists s', unpacker_close c s = Ok s' /\ the_file s' = None.
Proof.
  destruct c; unfold unpacker_close; simpl; destruct s as [[f|] o n g]; simpl;
    eexists; (split; [reflexivity|reflexivity]).
Qed.

Lemma close_idempotent c s s1 : unpacker_close c s = Ok s1 -> unpacker_close c s1 = Ok s1.
Proof.
  intros H. destruct (close_total c s) as [s' [H1 H2]]. rewrite H1 in H. injection H as <-.
  clear H1. destruct c; unfold unpacker_close; simpl; rewrite H2; reflexivity.
Qed.

(* the state shapes reachable for a class outside the finding *)
Definition inv (c : cls) (s : st) : Prop :=
  garbage s = [] /\
  match class_kind c with
  | HoldsUntilClose =>
      (the_file s = None /\ os s = []) \/ (exists h, the_file s = Some (PyFile h) /\ os s = [h])
  | ReadsAtOpen => os s = [] /\ (the_file s = None \/ the_file s = Some (Doc None))
  | HoldsUntilGC => False
  end.

Lemma construct_inv c m s1 : known_bad c m = false -> construct c m (init m) = Ok s1 -> inv c s1.
Proof.
  destruct c, m; simpl; intros Hk H; try discriminate; injection H as <-; unfold inv; simpl;
    (split; [reflexivity|]); try (right; eexists; split; reflexivity); try (split; [reflexivity|right; reflexivity]).
Qed.

Lemma os_close_single h : os_close h [h] = [].
Proof. unfold os_close. simpl. rewrite Nat.eqb_refl. reflexivity. Qed.

Lemma close_inv c s s' :
  inv c s -> unpacker_close c s = Ok s' -> inv c s' /\ the_file s' = None /\ os s' = [].
Proof.
  intros [Hg Hs] H. destruct s as [f o n g]. simpl in Hg. subst g.
  destruct c; simpl in Hs; try contradiction; unfold unpacker_close in H; simpl in H;
    try (destruct Hs as [[Hf Ho]|[h [Hf Ho]]]; simpl in Hf, Ho; subst f o; simpl in H;
         unfold os_close in H; simpl in H; try rewrite !Nat.eqb_refl in H; simpl in H; injection H as <-;
         unfold inv; simpl; repeat split; left; split; reflexivity);
    try (destruct Hs as [Ho [Hf|Hf]]; simpl in Hf, Ho; subst f o; simpl in H; injection H as <-;
         unfold inv; simpl; repeat split; left; reflexivity).
Qed.

Lemma step_inv c e s s' : inv c s -> step c e s = Ok s' -> inv c s'.
Proof.
  intros Hi H. destruct e as [[x|]| |]; simpl in H; try discriminate.
  - injection H as <-. exact Hi.
  - apply (close_inv c s s' Hi H).
Qed.

Lemma run_body_inv c b : forall s, inv c s -> inv c (fst (fst (run_body c b s))).
Proof.
  induction b as [|e b IH]; intros s Hi; simpl; [exact Hi|].
  destruct (step c e s) as [s'|x] eqn:E; simpl; [|exact Hi].
  specialize (IH s' (step_inv c e s s' Hi E)).
  destruct (run_body c b s') as [[s2 x] log]. simpl in *. exact IH.
Qed.

(* the main lemma: outside the finding, whatever the body does and wherever it raises, after the
   with statement nothing is open on the path, the caller's file object is closed, and a further
   close changes nothing and raises nothing *)
Lemma release c m body s1 :
  known_bad c m = false -> construct c m (init m) = Ok s1 ->
  let s := o_exit (with_block c m body) in
  os s = [] /\ caller_closed s = true /\ unpacker_close c s = Ok s.
Proof.
  intros Hk Hc. unfold with_block. rewrite Hc.
  pose proof (run_body_inv c body s1 (construct_inv c m s1 Hk Hc)) as Hi.
  destruct (run_body c body s1) as [[s2 x] log]. simpl in Hi.
  destruct (close_total c s2) as [s3 [H3 _]]. rewrite H3. simpl.
  destruct (close_inv c s2 s3 Hi H3) as [_ [_ Ho]].
  split; [exact Ho|]. split.
  - unfold caller_closed. rewrite Ho. reflexivity.
  - apply (close_idempotent c s2 s3 H3).
Qed.

(* __exit__ neither swallows nor replaces the exception of the body (all eight classes) *)
Lemma exit_transparent c m body s1 :
  construct c m (init m) = Ok s1 ->
  o_escaped (with_block c m body) = snd (fst (run_body c body s1)).
Proof.
  intros Hc. unfold with_block. rewrite Hc.
  destruct (run_body c body s1) as [[s2 x] log].
  destruct (close_total c s2) as [s3 [H3 _]]. rewrite H3. reflexivity.
Qed.

(* ------------------------------------------------------------------ the finding: Numbers *)
Definition inv_numbers (s : st) : Prop :=
  os s = [1] /\
  ((the_file s = Some (Doc (Some 1)) /\ garbage s = []) \/ (the_file s = None /\ garbage s = [1])).

Lemma close_inv_numbers s s' :
  inv_numbers s -> unpacker_close Numbers s = Ok s' -> inv_numbers s' /\ the_file s' = None.
Proof.
  intros [Ho Hs] H. destruct s as [f o n g]. simpl in Ho. subst o.
  unfold unpacker_close in H. simpl in H.
  destruct Hs as [[Hf Hg]|[Hf Hg]]; simpl in Hf, Hg; subst f g; simpl in H; injection H as <-;
    unfold inv_numbers; simpl; (split; [split; [reflexivity|right; split; reflexivity]|reflexivity]).
Qed.

Lemma run_body_inv_numbers b : forall s, inv_numbers s -> inv_numbers (fst (fst (run_body Numbers b s))).
Proof.
  induction b as [|e b IH]; intros s Hi; simpl; [exact Hi|].
  destruct (step Numbers e s) as [s'|x] eqn:E; simpl; [|exact Hi].
  assert (Hi' : inv_numbers s').
  { destruct e as [[x|]| |]; simpl in E; try discriminate.
    - injection E as <-. exact Hi.
    - apply (close_inv_numbers s s' Hi E). }
  specialize (IH s' Hi'). destruct (run_body Numbers b s') as [[s2 x] log]. exact IH.
Qed.

Lemma numbers_leaks_until_gc body :
  let s := o_exit (with_block Numbers ByPath body) in
  os s = [1] /\ os (gc s) = [].
Proof.
  unfold with_block. simpl construct. cbv iota beta.
  assert (H0 : inv_numbers (mkst (Some (Doc (Some 1))) [1] 2 [])).
  { unfold inv_numbers. simpl. split; [reflexivity|left; split; reflexivity]. }
  pose proof (run_body_inv_numbers body _ H0) as Hi.
  destruct (run_body Numbers body (mkst (Some (Doc (Some 1))) [1] 2 [])) as [[s2 x] log]. simpl in Hi.
  destruct (close_total Numbers s2) as [s3 [H3 _]]. rewrite H3. simpl.
  destruct (close_inv_numbers s2 s3 Hi H3) as [[Ho Hs] Hf].
  split; [exact Ho|].
  unfold gc. simpl. rewrite Ho. destruct Hs as [[Hf' _]|[_ Hg]].
  - rewrite Hf in Hf'. discriminate.
  - rewrite Hg. reflexivity.
Qed.

(* the unguarded statement, and its refutation by the Numbers class with an empty body *)
Definition release_statement : Prop :=
  forall c m body s1, construct c m (init m) = Ok s1 -> os (o_exit (with_block c m body)) = [].

Lemma release_refuted : ~ release_statement.
Proof.
  intros H. specialize (H Numbers ByPath [] _ eq_refl). vm_compute in H. discriminate.
Qed.
