(* Lemmas for C10c: the unconditional C10 theorems (laziness, index commutation, raw containment) for COBOL-built
   schemas of record descriptions WITH OCCURS DEPENDING ON.

   Proofs/LayoutValueP.v closes them for C01's wf (no ODO anywhere).  Here the hypothesis is wfo of
   Proofs/LayoutOdoP.v, the well-formedness under which C06_layout is proved: an ODO table may stand anywhere a
   non-repeated item may stand; its counter is an earlier non-repeated elementary item outside every union and table;
   items inside tables and inside REDEFINES unions contain no ODO.

   Two facts about build t carry everything:
     cobol_like (build t)    the $ref shape and distinct anchors (redef_ok, uniq_keys look through JOdo as through JArr);
     tabfree (build t)       the items schema of EVERY table, fixed or ODO, is free of ODO - so one occurrence is the first
                             occurrence moved (index_shift) and the re-walk of an occurrence does not look at the record.
   The location tree itself depends on the record through the counters: laziness is stated for two records that agree
   on the bytes of the location reached and on the counters, in the form of C10_tree_counters. *)
From Coq Require Import List Arith NArith ZArith Bool Lia.
Import ListNotations.
Require Import SR.Base.Res SR.Spec.Layout SR.Model.Layout SR.Model.LayoutValue SR.Spec.Coherence.
Require Import SR.Proofs.LayoutValueP SR.Proofs.LayoutP SR.Proofs.LayoutOdoP.
Open Scope nat_scope.

(* ================================================================== (1) build t is cobol_like *)

(* every $ref placeholder names an alternative of an earlier REDEFINES-x entry: induction of redef_ok_build with the
   ODO cases; members of unions and items of tables are C01-well-formed and reuse redef_ok_build itself *)
Lemma redef_ok_build_o e :
  (forall x avail, wfo e avail x = true -> NoDup (ids x) -> redef_ok (build_alt x) = true) /\
  (forall ks avail, wfo_kids e avail ks = true -> NoDup (ids_kids ks) ->
     forall y, in_kids y ks -> redef_ok (build_alt y) = true).
Proof.
  apply item_items_ind.
  - intros i sz oc rd avail _ _. destruct oc as [|n|c]; reflexivity.
  - intros i oc rd ks IH avail Hw Hnd. cbn [ids] in Hnd.
    assert (Hndk : NoDup (ids_kids ks)) by (inversion Hnd; assumption).
    destruct oc as [|n|c].
    + cbn [wfo] in Hw. apply andb_true_iff in Hw. destruct Hw as [Hk Hu].
      rewrite (build_group_once e) by assumption. cbn [redef_ok].
      apply (redef_assemble e ks [] [] Hu (IH avail Hk Hndk)). intros y u _ _ [].
    + cbn [wfo] in Hw. apply andb_true_iff in Hw. destruct Hw as [Hk Hno].
      cbn [build_alt redef_ok]. apply redef_plain. exact (proj2 (redef_ok_build e) ks Hk Hndk).
    + destruct rd as [u|]; [discriminate|]. cbn [wfo] in Hw. apply andb_true_iff in Hw. destruct Hw as [Hw Hno].
      apply andb_true_iff in Hw. destruct Hw as [_ Hk].
      cbn [build_alt redef_ok]. apply redef_plain. exact (proj2 (redef_ok_build e) ks Hk Hndk).
  - intros avail _ _ y [].
  - intros x IHx xs IHxs avail Hw Hnd y Hy. cbn [wfo_kids] in Hw. cbn [ids_kids] in Hnd.
    assert (Hndx : NoDup (ids x)) by (apply NoDup_app_l in Hnd; exact Hnd).
    assert (Hndxs : NoDup (ids_kids xs)) by (apply NoDup_app_r in Hnd; exact Hnd).
    destruct (member x xs); apply andb_true_iff in Hw; destruct Hw as [Hwx Hwxs].
    + destruct Hy as [ -> |Hy]; [apply (proj1 (redef_ok_build e) x Hwx Hndx)|eapply IHxs; eassumption].
    + destruct Hy as [ -> |Hy]; [eapply IHx; eassumption|eapply IHxs; eassumption].
Qed.

(* KRedef i is registered by the parent of i, never inside the schema of i itself *)
Lemma no_own_redef_o e : forall x avail, wfo e avail x = true -> NoDup (ids x) ->
  ~ In (KRedef (item_id x)) (keys_js (build_alt x)).
Proof.
  intros x avail Hw Hnd. destruct x as [i sz oc rd|i oc rd ks].
  - destruct oc as [|n|c]; cbn; intuition discriminate.
  - cbn [ids] in Hnd. inversion Hnd as [|? ? Hi Hndk]; subst. cbn [item_id].
    destruct oc as [|n|c].
    + cbn [wfo] in Hw. apply andb_true_iff in Hw. destruct Hw as [Hk Hu].
      pose proof (proj2 (keys_build_o e) ks avail Hk Hndk) as Hkids.
      rewrite (build_group_once e) by assumption. cbn [keys_js js_anchor opt_list app]. intros [H|H]; [discriminate|].
      apply (keys_assemble_d ks Hkids) in H. apply K_redef in H. contradiction.
    + cbn [wfo] in Hw. apply andb_true_iff in Hw. destruct Hw as [Hk Hno].
      pose proof (proj2 (keys_build e) ks Hk Hndk) as Hkids.
      cbn [build_alt keys_js js_anchor opt_list app]. intros [H|H]; [discriminate|].
      apply (keys_plain [] ks Hkids) in H. apply K_redef in H. contradiction.
    + destruct rd as [u|]; [discriminate|]. cbn [wfo] in Hw. apply andb_true_iff in Hw. destruct Hw as [Hw Hno].
      apply andb_true_iff in Hw. destruct Hw as [_ Hk].
      pose proof (proj2 (keys_build e) ks Hk Hndk) as Hkids.
      cbn [build_alt keys_js js_anchor opt_list app]. intros [H|H]; [discriminate|].
      apply (keys_plain [] ks Hkids) in H. apply K_redef in H. contradiction.
Qed.

Lemma wfo_kids_in e : forall ks avail y, wfo_kids e avail ks = true -> in_kids y ks ->
  LayoutP.wf e y = true \/ exists avail', wfo e avail' y = true.
Proof.
  induction ks as [|x xs IH]; intros avail y Hw Hy; [destruct Hy|]. cbn [wfo_kids] in Hw.
  destruct (member x xs); apply andb_true_iff in Hw; destruct Hw as [Hwx Hwxs].
  - destruct Hy as [ -> |Hy]; [left; exact Hwx|eapply IH; eassumption].
  - destruct Hy as [ -> |Hy]; [right; exists avail; exact Hwx|eapply IH; eassumption].
Qed.

(* no $anchor occurs twice *)
Lemma nodup_build_o e :
  (forall x avail, wfo e avail x = true -> NoDup (ids x) -> NoDup (keys_js (build_alt x))) /\
  (forall ks avail, wfo_kids e avail ks = true -> NoDup (ids_kids ks) ->
     forall y, in_kids y ks -> NoDup (keys_js (build_alt y))).
Proof.
  apply item_items_ind.
  - intros i sz oc rd avail _ _. destruct oc as [|n|c]; cbn; repeat constructor; intuition.
  - intros i oc rd ks IH avail Hw Hnd. cbn [ids] in Hnd. inversion Hnd as [|? ? Hi Hndk]; subst.
    destruct oc as [|n|c].
    + cbn [wfo] in Hw. apply andb_true_iff in Hw. destruct Hw as [Hk Hu].
      pose proof (proj2 (keys_build_o e) ks avail Hk Hndk) as Hkids.
      rewrite (build_group_once e) by assumption. cbn [keys_js js_anchor opt_list app]. constructor.
      * intros H. apply (keys_assemble_d ks Hkids) in H. apply K_name in H. contradiction.
      * apply (nodup_assemble e ks []); auto.
        -- exact (IH avail Hk Hndk).
        -- intros y Hy. pose proof (NoDup_ids_kid y ks Hy Hndk) as Hndy.
           destruct (wfo_kids_in e ks avail y Hk Hy) as [Hwy|[avail' Hwy]].
           ++ apply (no_own_redef e); assumption.
           ++ apply (no_own_redef_o e y avail'); assumption.
    + cbn [wfo] in Hw. apply andb_true_iff in Hw. destruct Hw as [Hk Hno].
      pose proof (proj2 (keys_build e) ks Hk Hndk) as Hkids.
      cbn [build_alt keys_js js_anchor opt_list app]. constructor.
      * intros H. apply (keys_plain [] ks Hkids) in H. apply K_name in H. contradiction.
      * apply nodup_plain; auto. exact (proj2 (nodup_build e) ks Hk Hndk).
    + destruct rd as [u|]; [discriminate|]. cbn [wfo] in Hw. apply andb_true_iff in Hw. destruct Hw as [Hw Hno].
      apply andb_true_iff in Hw. destruct Hw as [_ Hk].
      pose proof (proj2 (keys_build e) ks Hk Hndk) as Hkids.
      cbn [build_alt keys_js js_anchor opt_list app]. constructor.
      * intros H. apply (keys_plain [] ks Hkids) in H. apply K_name in H. contradiction.
      * apply nodup_plain; auto. exact (proj2 (nodup_build e) ks Hk Hndk).
  - intros avail _ _ y [].
  - intros x IHx xs IHxs avail Hw Hnd y Hy. cbn [wfo_kids] in Hw. cbn [ids_kids] in Hnd.
    assert (Hndx : NoDup (ids x)) by (apply NoDup_app_l in Hnd; exact Hnd).
    assert (Hndxs : NoDup (ids_kids xs)) by (apply NoDup_app_r in Hnd; exact Hnd).
    destruct (member x xs); apply andb_true_iff in Hw; destruct Hw as [Hwx Hwxs].
    + destruct Hy as [ -> |Hy]; [apply (proj1 (nodup_build e) x Hwx Hndx)|eapply IHxs; eassumption].
    + destruct Hy as [ -> |Hy]; [eapply IHx; eassumption|eapply IHxs; eassumption].
Qed.

(* what cobol_parser emits for a record description with OCCURS DEPENDING ON, well-formed in the sense of C06_layout,
   is cobol_like *)
Theorem cobol_like_build_o : forall e avail t, wfo e avail t = true -> NoDup (ids t) -> cobol_like (build t) = true.
Proof.
  intros e avail t Hw Hnd. unfold cobol_like, build, uniq_keys. rewrite (proj1 (redef_ok_build_o e) t avail Hw Hnd). cbn [andb].
  apply nodupk_of_NoDup. rewrite (proj1 jkeys_keys_js). exact (proj1 (nodup_build_o e) t avail Hw Hnd).
Qed.

(* ================================================================== (2) every table of build t has ODO-free items *)

Fixpoint tabfree (s : js) : bool :=
  match s with
  | JAtom _ _ => true
  | JArr _ _ its => odo_free its
  | JOdo _ _ its => odo_free its
  | JObj _ ps => tabfree_props ps
  | JOne _ alts => tabfree_alts alts
  | JRef _ => true
  end
with tabfree_props (ps : props) : bool :=
  match ps with PNil => true | PCons _ s r => tabfree s && tabfree_props r end
with tabfree_alts (alts : jalts) : bool :=
  match alts with ANil => true | ACons s r => tabfree s && tabfree_alts r end.

Lemma odo_free_tabfree :
  (forall s, odo_free s = true -> tabfree s = true)
  /\ (forall ps, odo_free_props ps = true -> tabfree_props ps = true)
  /\ (forall alts, odo_free_alts alts = true -> tabfree_alts alts = true).
Proof.
  apply js_props_alts_ind; cbn [odo_free odo_free_props odo_free_alts tabfree tabfree_props tabfree_alts]; intros; auto; try discriminate.
  - apply andb_prop in H1. destruct H1. rewrite H, H0; auto.
  - apply andb_prop in H1. destruct H1. rewrite H, H0; auto.
Qed.

Lemma tabfree_alts_red : forall u xs, (forall y, in_kids y xs -> tabfree (build_alt y) = true) -> tabfree_alts (alts_red u xs) = true.
Proof.
  induction xs as [|x xs IH]; intros H; [reflexivity|]. cbn [alts_red].
  assert (Hxs : tabfree_alts (alts_red u xs) = true) by (apply IH; intros y Hy; apply H; now right).
  destruct (item_redef x) as [u'|]; [|exact Hxs]. destruct (N.eqb u u'); [|exact Hxs].
  cbn [tabfree_alts]. now rewrite (H x (or_introl eq_refl)).
Qed.

Lemma tabfree_assemble : forall ks, (forall y, in_kids y ks -> tabfree (build_alt y) = true) -> tabfree_props (assemble_d ks) = true.
Proof.
  induction ks as [|x xs IH]; intros H; [reflexivity|].
  assert (Hxs : tabfree_props (assemble_d xs) = true) by (apply IH; intros y Hy; apply H; now right).
  cbn [assemble_d]. destruct (item_redef x) as [u|].
  - cbn [tabfree_props tabfree]. exact Hxs.
  - destruct (existsb (N.eqb (item_id x)) (redef_targets xs)).
    + cbn [tabfree_props tabfree tabfree_alts]. rewrite (H x (or_introl eq_refl)), tabfree_alts_red; [exact Hxs|].
      intros y Hy. apply H. now right.
    + cbn [tabfree_props]. now rewrite (H x (or_introl eq_refl)).
Qed.

Lemma tabfree_build_o e :
  (forall x avail, wfo e avail x = true -> NoDup (ids x) -> tabfree (build_alt x) = true) /\
  (forall ks avail, wfo_kids e avail ks = true -> NoDup (ids_kids ks) ->
     forall y, in_kids y ks -> tabfree (build_alt y) = true).
Proof.
  apply item_items_ind.
  - intros i sz oc rd avail _ _. destruct oc as [|n|c]; reflexivity.
  - intros i oc rd ks IH avail Hw Hnd. cbn [ids] in Hnd.
    assert (Hndk : NoDup (ids_kids ks)) by (inversion Hnd; assumption).
    destruct oc as [|n|c].
    + cbn [wfo] in Hw. apply andb_true_iff in Hw. destruct Hw as [Hk Hu].
      rewrite (build_group_once e) by assumption. cbn [tabfree]. apply tabfree_assemble. exact (IH avail Hk Hndk).
    + cbn [wfo] in Hw. apply andb_true_iff in Hw. destruct Hw as [Hk Hno].
      cbn [build_alt tabfree odo_free]. apply odo_free_plain. exact (proj2 (odo_free_build e) ks Hk Hndk).
    + destruct rd as [u|]; [discriminate|]. cbn [wfo] in Hw. apply andb_true_iff in Hw. destruct Hw as [Hw Hno].
      apply andb_true_iff in Hw. destruct Hw as [_ Hk].
      cbn [build_alt tabfree odo_free]. apply odo_free_plain. exact (proj2 (odo_free_build e) ks Hk Hndk).
  - intros avail _ _ y [].
  - intros x IHx xs IHxs avail Hw Hnd y Hy. cbn [wfo_kids] in Hw. cbn [ids_kids] in Hnd.
    assert (Hndx : NoDup (ids x)) by (apply NoDup_app_l in Hnd; exact Hnd).
    assert (Hndxs : NoDup (ids_kids xs)) by (apply NoDup_app_r in Hnd; exact Hnd).
    destruct (member x xs); apply andb_true_iff in Hw; destruct Hw as [Hwx Hwxs].
    + destruct Hy as [ -> |Hy]; [|eapply IHxs; eassumption].
      apply (proj1 odo_free_tabfree). exact (proj1 (odo_free_build e) x Hwx Hndx).
    + destruct Hy as [ -> |Hy]; [eapply IHx; eassumption|eapply IHxs; eassumption].
Qed.

Section OFo.
  Variable B : Type.
  Variable dcount : list B -> nat.
  Variable r : list B.

  (* the walk of a schema whose tables have ODO-free items: every table of the tree remembers an ODO-free items schema *)
  Lemma walkv_tabfree :
    (forall s, tabfree s = true -> forall st an l an', walkv dcount r s st an = Ok (l, an') ->
       ofree_loc l = true /\ (ofree_an an -> ofree_an an'))
    /\ (forall ps, tabfree_props ps = true -> forall off an pls off' an', walkv_props dcount r ps off an = Ok (pls, off', an') ->
       ofree_props pls = true /\ (ofree_an an -> ofree_an an'))
    /\ (forall alts, tabfree_alts alts = true -> forall st an als an', walkv_alts dcount r alts st an = Ok (als, an') ->
       ofree_alts als = true /\ (ofree_an an -> ofree_an an')).
  Proof.
    apply js_props_alts_ind.
    - intros a sz _ st an l an' E. rewrite (walkv_atom B dcount r) in E. inversion E; subst. split; [reflexivity|]. intros H. now apply ofree_wreg.
    - intros a n its _ Hof st an l an' E. cbn [tabfree] in Hof. rewrite (walkv_arr B dcount r) in E.
      destruct (walkv dcount r its st an) as [[sub an1]|ex] eqn:Es; [|discriminate]. inversion E; subst.
      destruct (proj1 (walkv_ofree B dcount r) its Hof _ _ _ _ Es) as [H1 H2].
      assert (Hl : ofree_loc (WArr st (wsize sub * n) (wsize sub) n sub its) = true) by (cbn [ofree_loc]; now rewrite Hof, H1).
      split; [exact Hl|]. intros H. apply ofree_wreg; auto.
    - intros a c its _ Hof st an l an' E. cbn [tabfree] in Hof. rewrite (walkv_odo B dcount r) in E.
      destruct (wlookup (KName c) an) as [[ca cst csz| | | |]|]; try discriminate.
      destruct (walkv dcount r its st an) as [[sub an1]|ex] eqn:Es; [|discriminate]. inversion E; subst.
      destruct (proj1 (walkv_ofree B dcount r) its Hof _ _ _ _ Es) as [H1 H2].
      set (n := dcount (slice r cst (cst + csz))) in *.
      assert (Hl : ofree_loc (WArr st (wsize sub * n) (wsize sub) n sub its) = true) by (cbn [ofree_loc]; now rewrite Hof, H1).
      split; [exact Hl|]. intros H. apply ofree_wreg; auto.
    - intros a ps IH Hof st an l an' E. cbn [tabfree] in Hof. rewrite (walkv_obj B dcount r) in E.
      destruct (walkv_props dcount r ps st an) as [[[pls off] an1]|ex] eqn:Es; [|discriminate]. inversion E; subst.
      destruct (IH Hof _ _ _ _ _ Es) as [H1 H2]. split; [exact H1|]. intros H. apply ofree_wreg; auto.
    - intros a alts IH Hof st an l an' E. cbn [tabfree] in Hof.
      destruct alts as [|s0 rest]; [discriminate|]. rewrite (walkv_one B dcount r) in E.
      destruct (walkv_alts dcount r (ACons s0 rest) st an) as [[als an1]|ex] eqn:Es; [|discriminate]. inversion E; subst.
      destruct (IH Hof _ _ _ _ Es) as [H1 H2]. split; [exact H1|]. intros H. apply ofree_wreg; auto.
    - intros t _ st an l an' E. rewrite (walkv_ref B dcount r) in E. inversion E; subst. split; [reflexivity|auto].
    - intros _ off an pls off' an' E. rewrite (walkv_props_nil B dcount r) in E. inversion E; subst. split; [reflexivity|auto].
    - intros k s IHs rest IHr Hof off an pls off' an' E. cbn [tabfree_props] in Hof.
      apply andb_prop in Hof. destruct Hof as [O1 O2]. rewrite (walkv_props_cons B dcount r) in E.
      destruct (walkv dcount r s off an) as [[pl an1]|ex] eqn:Es; [|discriminate].
      destruct (walkv_props dcount r rest (off + wsize pl) (wreg (js_anchor s) pl an1)) as [[[rl off1] an2]|ex] eqn:Er; [|discriminate].
      inversion E; subst. destruct (IHs O1 _ _ _ _ Es) as [H1 H2]. destruct (IHr O2 _ _ _ _ _ Er) as [G1 G2].
      split; [cbn [ofree_props]; now rewrite H1, G1|]. intros H. apply G2. apply ofree_wreg; auto.
    - intros _ st an als an' E. rewrite (walkv_alts_nil B dcount r) in E. inversion E; subst. split; [reflexivity|auto].
    - intros s IHs rest IHr Hof st an als an' E. cbn [tabfree_alts] in Hof.
      apply andb_prop in Hof. destruct Hof as [O1 O2]. rewrite (walkv_alts_cons B dcount r) in E.
      destruct (walkv dcount r s st an) as [[l an1]|ex] eqn:Es; [|discriminate].
      destruct (walkv_alts dcount r rest st an1) as [[ls an2]|ex] eqn:Er; [|discriminate].
      inversion E; subst. destruct (IHs O1 _ _ _ _ Es) as [H1 H2]. destruct (IHr O2 _ _ _ _ Er) as [G1 G2].
      split; [cbn [ofree_alts]; now rewrite H1, G1|auto].
  Qed.

  Lemma ofree_of_tabfree : forall s v, tabfree s = true -> vnav_of dcount r s = Ok v -> ofree_nav v.
  Proof.
    intros s v Hof E. rewrite vnav_of_unf in E. destruct (walkv dcount r s 0 []) as [[l an]|ex] eqn:Ew; [|discriminate]. inversion E; subst.
    destruct (proj1 walkv_tabfree s Hof _ _ _ _ Ew) as [H1 H2]. split; [exact H1|]. apply H2. intros k l' [].
  Qed.

  (* with ODO-free items in every table, navigation from a given navigator does not look at the record *)
  Lemma ofree_path_record_free : forall (r' : list B) p v,
    ofree_nav v -> vnav_path dcount r v p = vnav_path dcount r' v p.
  Proof.
    intros r'. induction p as [|s p IH]; intros v Hv; [reflexivity|]. cbn [vnav_path].
    assert (Hs : vnav_step dcount r v s = vnav_step dcount r' v s).
    { destruct s as [k|i]; cbn [vnav_step]; [reflexivity|]. rewrite !vnav_index_unf.
      destruct v as [l an]. destruct Hv as [Hl _]. cbn [vn_loc vn_an] in *.
      destruct l as [a st sz|st sz isz cnt it sch|st sz ps|st sz alts|st t]; try reflexivity.
      cbn [ofree_loc] in Hl. apply andb_prop in Hl. destruct Hl as [Hsch _].
      now rewrite (proj1 (walkv_record_free B dcount r r') sch Hsch). }
    rewrite <- Hs. destruct (vnav_step dcount r v s) as [v1|ex] eqn:Es; [|reflexivity].
    apply IH. apply (ofree_path B dcount r [s] v v1 Hv). cbn [vnav_path]. now rewrite Es.
  Qed.
End OFo.

(* ================================================================== (3) the theorems *)
Section CobolOdo.
  Variable B : Type.
  Variable dcount : list B -> nat.
  Variable A : Type.
  Variable dec : option key -> list B -> res A.
  Variable r : list B.
  Variable e : env.

  Lemma J_cobol_o : forall t p v0 v, wfo e [] t = true -> NoDup (ids t) ->
    vnav_of dcount r (build t) = Ok v0 -> vnav_path dcount r v0 p = Ok v -> J B dcount r v /\ ofree_nav v.
  Proof.
    intros t p v0 v Hw Hnd H0 Hp. split.
    - exact (J_path B dcount r p v0 v (J_of B dcount r _ v0 (cobol_like_build_o e [] t Hw Hnd) H0) Hp).
    - exact (ofree_path B dcount r p v0 v (ofree_of_tabfree B dcount r _ v0 (proj1 (tabfree_build_o e) t [] Hw Hnd) H0) Hp).
  Qed.

  (* the hypothesis vnav_of ... = Ok v0 of the theorems below holds of every record that carries a count vector
     (C06_layout's hypothesis Holds): unpacker.nav does not raise *)
  Theorem nav_exists_odo : forall t, wfo e [] t = true -> NoDup (ids t) -> Holds B dcount r e t 0 ->
    exists v0, vnav_of dcount r (build t) = Ok v0.
  Proof.
    intros t Hw Hnd Hh. destruct (layout_correct_odo B dcount r e t Hw Hnd Hh) as [n0 [Hn _]].
    rewrite (nav_of_erase B dcount r) in Hn. destruct (vnav_of dcount r (build t)) as [v0|ex]; [now exists v0|discriminate].
  Qed.

  (* no table reached has an OCCURS DEPENDING ON inside its items: the trigger of K-index-odo-value is outside wfo *)
  Theorem items_odo_free_odo : forall t p v0 v st sz isz cnt it sch,
    wfo e [] t = true -> NoDup (ids t) ->
    vnav_of dcount r (build t) = Ok v0 -> vnav_path dcount r v0 p = Ok v ->
    vn_loc v = WArr st sz isz cnt it sch -> odo_free sch = true.
  Proof.
    intros t p v0 v st sz isz cnt it sch Hw Hnd H0 Hp Hl.
    destruct (J_cobol_o t p v0 v Hw Hnd H0 Hp) as [_ [Ho _]].
    rewrite Hl in Ho. cbn [ofree_loc] in Ho. apply andb_prop in Ho. exact (proj1 Ho).
  Qed.

  Theorem commute_index_odo : forall t p v0 v st sz isz cnt it sch (xs : list (pv A)) i,
    wfo e [] t = true -> NoDup (ids t) ->
    vnav_of dcount r (build t) = Ok v0 -> vnav_path dcount r v0 p = Ok v ->
    vn_loc v = WArr st sz isz cnt it sch ->
    vnav_value r dec v = Some (Ok (PList xs)) -> i < cnt ->
    exists v' x, vnav_index dcount r v i = Ok v' /\ nth_error xs i = Some x /\ vnav_value r dec v' = Some (Ok x).
  Proof.
    intros t p v0 v st sz isz cnt it sch xs i Hw Hnd H0 Hp Hl.
    destruct (J_cobol_o t p v0 v Hw Hnd H0 Hp) as [Hj [Ho _]].
    apply (commute_index_J B dcount A dec r v st sz isz cnt it sch xs i Hj Hl).
    rewrite Hl in Ho. cbn [ofree_loc] in Ho. apply andb_prop in Ho. exact (proj1 Ho).
  Qed.

  Theorem raw_name_odo : forall t p v0 v v' k,
    wfo e [] t = true -> NoDup (ids t) ->
    vnav_of dcount r (build t) = Ok v0 -> vnav_path dcount r v0 p = Ok v -> vnav_name v k = Ok v' ->
    wstart (vn_loc v) <= wstart (vn_loc v') /\ wend (vn_loc v') <= wend (vn_loc v) /\
    vnav_raw r v' = slice (vnav_raw r v) (wstart (vn_loc v') - wstart (vn_loc v)) (wend (vn_loc v') - wstart (vn_loc v)).
  Proof.
    intros t p v0 v v' k Hw Hnd H0 Hp Hn.
    destruct (name_inside_all B dcount r v k v' (proj1 (J_cobol_o t p v0 v Hw Hnd H0 Hp)) Hn) as [H1 H2].
    repeat split; try assumption. now apply raw_slice.
  Qed.

  Theorem raw_index_odo : forall t p v0 v v' st sz isz cnt it sch i,
    wfo e [] t = true -> NoDup (ids t) ->
    vnav_of dcount r (build t) = Ok v0 -> vnav_path dcount r v0 p = Ok v ->
    vn_loc v = WArr st sz isz cnt it sch -> vnav_index dcount r v i = Ok v' ->
    wstart (vn_loc v') = st + isz * i /\ wsize (vn_loc v') = isz /\
    wstart (vn_loc v) <= wstart (vn_loc v') /\ wend (vn_loc v') <= wend (vn_loc v) /\
    vnav_raw r v' = slice (vnav_raw r v) (wstart (vn_loc v') - wstart (vn_loc v)) (wend (vn_loc v') - wstart (vn_loc v)).
  Proof.
    intros t p v0 v v' st sz isz cnt it sch i Hw Hnd H0 Hp Hl Hi.
    destruct (J_cobol_o t p v0 v Hw Hnd H0 Hp) as [[Hinv _] [Ho _]].
    rewrite Hl in Ho. cbn [ofree_loc] in Ho. apply andb_prop in Ho.
    destruct (index_inside B dcount r v st sz isz cnt it sch i v' Hinv Hl (proj1 Ho) Hi) as [H1 [H2 [H3 H4]]].
    repeat split; try assumption. now apply raw_slice.
  Qed.

  Theorem foot_inside_odo : forall t p v0 v,
    wfo e [] t = true -> NoDup (ids t) ->
    vnav_of dcount r (build t) = Ok v0 -> vnav_path dcount r v0 p = Ok v -> foot_inside v = true.
  Proof.
    intros t p v0 v Hw Hnd H0 Hp. exact (foot_inside_J B dcount r v (proj1 (J_cobol_o t p v0 v Hw Hnd H0 Hp))).
  Qed.

  (* the counters decide the tree: a second record that gives every ODO counter field the same count is navigated
     to the same navigator by the same path *)
  Theorem same_nav_odo : forall (r' : list B) t p v0 v,
    wfo e [] t = true -> NoDup (ids t) ->
    vnav_of dcount r (build t) = Ok v0 -> vnav_path dcount r v0 p = Ok v ->
    (forall c a cst csz, In c (odo_keys (build t)) -> In (KName c, WAtom a cst csz) (vn_an v0) ->
       dcount (slice r cst (cst + csz)) = dcount (slice r' cst (cst + csz))) ->
    vnav_of dcount r' (build t) = Ok v0 /\ vnav_path dcount r' v0 p = Ok v.
  Proof.
    intros r' t p v0 v Hw Hnd H0 Hp Hc. split.
    - exact (nav_counters B dcount r r' (build t) v0 H0 Hc).
    - rewrite <- (ofree_path_record_free B dcount r r' p v0); [exact Hp|].
      exact (ofree_of_tabfree B dcount r _ v0 (proj1 (tabfree_build_o e) t [] Hw Hnd) H0).
  Qed.

  (* laziness: two records that agree on the counters the layout depends on and on the bytes of the location reached
     reach the same location by the same path and give the same value there, error status included *)
  Theorem lazy_odo : forall (r' : list B) t p v0 v,
    wfo e [] t = true -> NoDup (ids t) ->
    vnav_of dcount r (build t) = Ok v0 -> vnav_path dcount r v0 p = Ok v ->
    (forall c a cst csz, In c (odo_keys (build t)) -> In (KName c, WAtom a cst csz) (vn_an v0) ->
       dcount (slice r cst (cst + csz)) = dcount (slice r' cst (cst + csz))) ->
    vnav_raw r v = vnav_raw r' v ->
    vnav_of dcount r' (build t) = Ok v0 /\ vnav_path dcount r' v0 p = Ok v /\
    vnav_value r dec v = vnav_value r' dec v.
  Proof.
    intros r' t p v0 v Hw Hnd H0 Hp Hc Hraw.
    destruct (same_nav_odo r' t p v0 v Hw Hnd H0 Hp Hc) as [G1 G2]. split; [exact G1|]. split; [exact G2|].
    apply (lazy_value B A dec); [|exact Hraw]. exact (foot_inside_odo t p v0 v Hw Hnd H0 Hp).
  Qed.
End CobolOdo.
