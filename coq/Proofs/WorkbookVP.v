(* Lemmas for C03c: EBCDIC files in RECFM V and VB read through the workbook facade (Model/WorkbookV.v).
   The framing is C05's (Proofs/RecfmP.v: V_record_iter_ok, VB_record_iter_ok), the decoding of a record is
   the one already proved for RECFM N / F (Proofs/WorkbookP.v: ebcdic_row_ok).  Stdlib only. *)
From Coq Require Import ZArith NArith List Bool Arith Lia.
Import ListNotations.
Require Import SR.Base.Res SR.Spec.Transparency SR.Spec.TransparencyV SR.Spec.Recfm.
Require Import SR.Gen.Cp037 SR.Gen.RecfmParams.
Require Import SR.Model.HeaderRow SR.Model.Workbook SR.Model.WorkbookV.
Require SR.Model.Recfm.
Require Import SR.Proofs.RecfmP SR.Proofs.WorkbookP.
Open Scope nat_scope.

(* ------------------------------------------------------------------ the rows, once the records are there *)
(* records that begin with the encoded padded rows decode, column by column, to the padded rows *)
Lemma records_decode (hs : list key) (widths : list nat) : forall (rows : list (list text)) (bufs : list (list N)),
  NoDup hs -> length widths = length hs ->
  (forall r, In r rows -> length r = length widths
     /\ forallb (fun p => Nat.leb (length (snd p)) (fst p)) (combine widths r) = true) ->
  (forall r, In r rows -> forallb (forallb in_repertoire) r = true) ->
  Forall2 (fun buf row => exists tail, buf = record_of widths row ++ tail) bufs rows ->
  map (fun rec => map (fun k => ebcdic_value (layout_of hs widths) k rec) hs) bufs
  = map (map (fun c => Ok (Some (Txt c)))) (map (pad_row widths) rows).
Proof.
  intros rows bufs Hnd Hlen Hrows Hrep HF. revert Hrows Hrep.
  induction HF as [|buf row bufs rows (tail & ->) HF IH]; intros Hrows Hrep; [reflexivity|].
  cbn [map]. f_equal.
  - destruct (Hrows row (or_introl eq_refl)) as [H1 H2]. unfold record_of.
    apply ebcdic_row_ok; [exact Hnd|exact Hlen|apply pad_row_lengths; assumption|].
    apply repertoire_pad_row. apply Hrep. left. reflexivity.
  - apply IH; [intros row' Hin; apply Hrows; right; exact Hin|intros row' Hin; apply Hrep; right; exact Hin].
Qed.

Lemma exact_records (widths : list nat) (rows : list (list text)) :
  Forall2 (fun buf row => exists tail : list N, buf = record_of widths row ++ tail) (map (write_ebcdic_row widths) rows) rows.
Proof. induction rows as [|row rows IH]; constructor; [exists []; symmetry; apply app_nil_r|exact IH]. Qed.

(* the facade run, given that the reader delivers exactly the encoded padded rows *)
Lemma read_v_ok (r : recfm_v) (kind : N) (wb_lrecl : option nat) (file : list N) (T : table) (widths : list nat) :
  NoDup (t_header T) -> fits widths T = true -> repertoire_ok T = true ->
  ebcdic_records_v r kind (sheet_lrecl wb_lrecl (layout_of (t_header T) widths)) file
    = Ok (map (write_ebcdic_row widths) (t_rows T)) ->
  read_ebcdic_v r kind wb_lrecl file (layout_of (t_header T) widths) (t_header T) = expected [([], pad_table widths T)].
Proof.
  intros Hnd Hfit Hrep Hrec. destruct (fits_inv widths T Hfit) as [Hlen Hrows].
  unfold read_ebcdic_v, expected, expected_rows. cbn [map fst snd pad_table t_rows].
  rewrite Hrec. cbn [bind]. rewrite rows_plain_some. cbn [bind]. f_equal. f_equal. f_equal.
  apply records_decode; [exact Hnd|exact Hlen|exact Hrows| |apply exact_records].
  intros row Hrow. unfold repertoire_ok in Hrep. rewrite forallb_forall in Hrep. apply Hrep. exact Hrow.
Qed.

(* ------------------------------------------------------------------ RECFM V *)
Lemma ebcdic_V_ok (kind : N) (wb_lrecl : option nat) (T : table) (widths : list nat) :
  NoDup (t_header T) -> fits widths T = true -> repertoire_ok T = true ->
  read_ebcdic_v RECFM_V kind wb_lrecl (write_ebcdic_V T widths) (layout_of (t_header T) widths) (t_header T)
  = expected [([], pad_table widths T)].
Proof.
  intros Hnd Hfit Hrep. apply read_v_ok; try assumption.
  unfold ebcdic_records_v, write_ebcdic_V. rewrite V_record_iter_ok. reflexivity.
Qed.

(* ------------------------------------------------------------------ RECFM VB *)
Lemma sum_const {A} (f : A -> nat) (n : nat) (l : list A) :
  (forall x, In x l -> f x = n) -> list_sum (map f l) = length l * n.
Proof.
  induction l as [|x l IH]; intros H; [reflexivity|].
  cbn [map length]. change (list_sum (f x :: map f l)) with (f x + list_sum (map f l)).
  rewrite (H x (or_introl eq_refl)), IH by (intros y Hy; apply H; right; exact Hy). lia.
Qed.

(* Since fix eee0fb2 (Spec/Recfm.v) a legal block is one whose length word is representable; its records need not be
   non-empty, so a table without columns (records of no bytes) is inside the VB theorem too. *)
Lemma legal_VB_table (T : table) (widths : list nat) (blocks : list (list (list text))) :
  fits widths T = true -> concat blocks = t_rows T ->
  forallb (block_fits widths) blocks = true ->
  legal_VB (map (map (write_ebcdic_row widths)) blocks) = true.
Proof.
  intros Hfit Hcat Hblk.
  assert (Hrl : forall b row, In b blocks -> In row b -> length (write_ebcdic_row widths row) = list_sum widths).
  { intros b row Hb Hrow. apply (record_length widths T row Hfit). rewrite <- Hcat. apply in_concat. exists b. split; assumption. }
  unfold legal_VB. rewrite forallb_forall. intros b' Hb'. apply in_map_iff in Hb' as (b & <- & Hb).
  unfold legal_block.
  rewrite forallb_forall in Hblk. specialize (Hblk b Hb). unfold block_fits in Hblk.
  replace (block_len (map (write_ebcdic_row widths) b)) with (4 + length b * (list_sum widths + 4)); [exact Hblk|].
  unfold block_len. f_equal. rewrite map_map. symmetry. apply sum_const.
  intros row Hrow. rewrite (Hrl b row Hb Hrow). reflexivity.
Qed.

Lemma ebcdic_VB_ok (kind : N) (wb_lrecl : option nat) (T : table) (widths : list nat) (blocks : list (list (list text))) :
  NoDup (t_header T) -> fits widths T = true -> repertoire_ok T = true ->
  concat blocks = t_rows T -> forallb (block_fits widths) blocks = true ->
  read_ebcdic_v RECFM_VB kind wb_lrecl (write_ebcdic_VB blocks widths) (layout_of (t_header T) widths) (t_header T)
  = expected [([], pad_table widths T)].
Proof.
  intros Hnd Hfit Hrep Hcat Hblk. apply read_v_ok; try assumption.
  unfold ebcdic_records_v, write_ebcdic_VB.
  rewrite (VB_record_iter_ok kind _ (legal_VB_table T widths blocks Hfit Hcat Hblk)).
  rewrite <- concat_map, Hcat. reflexivity.
Qed.

(* ------------------------------------------------------------------ all four RECFMs read the same *)
Lemma recfm_agree (r : recfm) (kind kind' : N) (wb_lrecl wb_lrecl' : option nat) (T : table) (widths : list nat)
  (blocks : list (list (list text))) :
  NoDup (t_header T) -> fits widths T = true -> repertoire_ok T = true -> t_header T <> [] ->
  (r = RECFM_N -> list_sum widths <= N.to_nat buffer_size) ->
  wb_lrecl = None \/ wb_lrecl = Some (list_sum widths) ->
  concat blocks = t_rows T -> forallb (block_fits widths) blocks = true ->
  read_ebcdic_v RECFM_V kind' wb_lrecl' (write_ebcdic_V T widths) (layout_of (t_header T) widths) (t_header T)
  = read_ebcdic r kind wb_lrecl (write_ebcdic T widths) (layout_of (t_header T) widths) (t_header T)
  /\ read_ebcdic_v RECFM_VB kind' wb_lrecl' (write_ebcdic_VB blocks widths) (layout_of (t_header T) widths) (t_header T)
  = read_ebcdic r kind wb_lrecl (write_ebcdic T widths) (layout_of (t_header T) widths) (t_header T).
Proof.
  intros Hnd Hfit Hrep Hne Hbuf Hl Hcat Hblk.
  rewrite (ebcdic_ok r kind wb_lrecl T widths Hnd Hfit Hrep Hne Hbuf Hl).
  split; [apply ebcdic_V_ok; assumption|apply ebcdic_VB_ok; assumption].
Qed.

(* ------------------------------------------------------------------ the images are files: every element a byte *)
Lemma encode_char_byte c : (encode_char c <? 256)%N = true.
Proof.
  unfold encode_char, cp037_encode. destruct (index_in c cp037_table 0%N) as [b|] eqn:E; [|reflexivity].
  destruct (index_in_nth c _ _ _ E) as (j & -> & Hj).
  assert (Hlt : j < length cp037_table) by (apply nth_error_Some; congruence).
  change (length cp037_table) with 256 in Hlt. apply N.ltb_lt. lia.
Qed.

Lemma encode_text_bytes s : bytes_ok (encode_text s) = true.
Proof.
  unfold bytes_ok, encode_text. rewrite forallb_forall. intros b Hb.
  apply in_map_iff in Hb as (c & <- & _). apply encode_char_byte.
Qed.

Lemma rows_bytes widths (rows : list (list text)) : forallb bytes_ok (map (write_ebcdic_row widths) rows) = true.
Proof.
  rewrite forallb_forall. intros rec Hrec. apply in_map_iff in Hrec as (row & <- & _). apply encode_text_bytes.
Qed.

Lemma image_V_bytes (T : table) (widths : list nat) :
  fits widths T = true -> record_fits widths = true -> bytes_ok (write_ebcdic_V T widths) = true.
Proof.
  intros Hfit Hrf. unfold write_ebcdic_V. apply write_V_bytes; [|apply rows_bytes].
  unfold legal_V. rewrite forallb_forall. intros rec Hrec. apply in_map_iff in Hrec as (row & <- & Hrow).
  unfold fits_hdr, len4. change (write_ebcdic_row widths row) with (record_of widths row).
  rewrite (record_length widths T row Hfit Hrow). exact Hrf.
Qed.

Lemma image_VB_bytes (T : table) (widths : list nat) (blocks : list (list (list text))) :
  fits widths T = true -> concat blocks = t_rows T ->
  forallb (block_fits widths) blocks = true -> bytes_ok (write_ebcdic_VB blocks widths) = true.
Proof.
  intros Hfit Hcat Hblk. unfold write_ebcdic_VB.
  apply write_VB_bytes; [apply (legal_VB_table T); assumption|].
  rewrite forallb_forall. intros b' Hb'. apply in_map_iff in Hb' as (b & <- & _). apply rows_bytes.
Qed.

(* the single sheet is named '' *)
Lemma single_sheet_v r kind wb_lrecl file l probes : map fst (read_ebcdic_v r kind wb_lrecl file l probes) = [[]].
Proof. reflexivity. Qed.
