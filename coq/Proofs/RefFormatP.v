(* Lemmas about Model/RefFormat.v (reference_format, dde_sentences, compact_source) for C12. *)
From Coq Require Import NArith List Bool Lia Arith.
Import ListNotations.
Require Import SR.Base.Res SR.Model.RefFormat SR.Spec.RefFormat.
Require Import SR.Gen.RefFormatParams.
(* The definitions of this development that occur in theorem statements (Props/) live in Spec/RefFormatWf.v (audit item G1).
   The abbreviations keep the qualified names RefFormatP.name of other files resolving; they are parsing-only aliases. *)
Require Export SR.Spec.RefFormatWf.
Notation with_body := SR.Spec.RefFormatWf.with_body (only parsing).
Open Scope N_scope.

(* ================================================================ what the source says now (T1)

   Model/RefFormat.v interprets Gen/RefFormatParams.v, which harness/t1_text.py regenerates from
   src/stingray/cobol_parser.py on every run.  The lemmas of this section state, in closed form, what the
   model is for the parameter values the proofs below were written for; each is proved by computation,
   so it stops compiling when the source changes the stage list (which filters, in which order, on which
   expression; the slice line[7:72], the indicator column line[6], the length test, the comment
   indicators, the directive words, where REPLACING sits and which pairs it applies), the join loop
   (continuation indicator, how the texts are joined, the COPY test) or the sentence pattern (number of
   level digits, lazy clause text, terminator, DOTALL).  Everything after this section uses only these
   lemmas, never the parameters. *)

Definition f_non_empty (l : line) : bool := nonempty (rstrip l).
Definition is_directive_word (w : line) : bool := existsb (leqb w) [w_EJECT; w_SKIP1; w_SKIP2; w_SKIP3].
Definition f_non_directive (l : line) : bool := negb (is_directive_word (strip l)).
Definition f_long (l : line) : bool := (7 <=? length l)%nat.
Definition indicator (l : line) : N := nth 6 l 0.
Definition area (l : line) : line := firstn 65 (skipn 7 l).       (* line[7:72] *)
Definition to_card (l : line) : card := (indicator l, area l).
Definition f_non_comment (c : card) : bool := negb (existsb (N.eqb (fst c)) [42; 68]).

(* the stages in front of the join loop, REPLACING excluded: four filters and the column split, in this order *)
Lemma cards_eq : forall src,
  cards src = filter f_non_comment (map to_card (filter f_long (filter f_non_directive (filter f_non_empty src)))).
Proof. reflexivity. Qed.

(* REPLACING is the last stage (slice, then replace), applied to the text of every pair ... *)
Lemma rf_eq : forall src repl, reference_format src repl = join_all (replace_cards repl (cards src)).
Proof. reflexivity. Qed.

(* ... and goes through all pairs in list order *)
Lemma replace_all_eq : forall repl s,
  replace_all repl s = fold_left (fun acc p => replace (fst p) (snd p) acc) repl s.
Proof. reflexivity. Qed.

Lemma directives_eq : directives = [w_EJECT; w_SKIP1; w_SKIP2; w_SKIP3].
Proof. reflexivity. Qed.

(* the join loop: indicator minus continues, plain concatenation, COPY test on the stripped pending line *)
Lemma join_eq : forall cur i t r,
  join cur ((i, t) :: r) =
  if i =? 45 then join (cur ++ t) r
  else if starts_copy cur then Err ValueError
       else match join t r with Ok out => Ok (cur :: out) | Err e => Err e end.
Proof. reflexivity. Qed.

(* the sentence pattern: lazy clause text, any character (DOTALL), period + one white-space character *)
Lemma find_term_eq : forall c t,
  find_term (c :: t) =
  if (c =? 46) && (match t with w :: _ => is_ws w | [] => false end) then Some ([], tl t)
  else match find_term t with
       | Some (a, r) => Some (c :: a, r)
       | None => None
       end.
Proof. reflexivity. Qed.

(* ... after optional white space, exactly two digits and optional white space *)
Lemma try_match_eq : forall s,
  try_match s =
  match lstrip s with
  | d1 :: d2 :: r =>
      if is_digit d1 && is_digit d2 then
        match find_term (lstrip r) with
        | Some (cl, rest) => Some ([d1; d2], cl, rest)
        | None => None
        end
      else None
  | _ => None
  end.
Proof.
  intro s. unfold try_match. change sent_level_digits with 2%nat. unfold find_body. change sent_lazy with true.
  destruct (lstrip s) as [|d1 [|d2 r]]; cbn [take_digits].
  - reflexivity.
  - destruct (is_digit d1); reflexivity.
  - destruct (is_digit d1); [|reflexivity]. destruct (is_digit d2); cbn [andb]; [|reflexivity].
    destruct (find_term (lstrip r)) as [[cl rest]|]; reflexivity.
Qed.

(* ================================================================ string helpers *)

Lemma leqb_eq : forall a b, leqb a b = true <-> a = b.
Proof.
  induction a as [|x a IH]; destruct b as [|y b]; simpl; split; intro H; try reflexivity; try discriminate.
  - apply andb_true_iff in H. destruct H as [H1 H2]. apply N.eqb_eq in H1. apply IH in H2. subst. reflexivity.
  - inversion H; subst. rewrite N.eqb_refl. simpl. apply IH. reflexivity.
Qed.

Lemma leqb_refl : forall a, leqb a a = true.
Proof. intro a. apply leqb_eq. reflexivity. Qed.

Lemma is_ws_In : forall c, is_ws c = true -> In c ws_points.
Proof.
  intros c H. unfold is_ws in H. apply existsb_exists in H. destruct H as [x [Hin Hx]].
  apply N.eqb_eq in Hx. subst. exact Hin.
Qed.

Lemma digit_not_ws : forall c, is_digit c = true -> is_ws c = false.
Proof.
  intros c Hd. destruct (is_ws c) eqn:E; [|reflexivity].
  apply is_ws_In in E. unfold ws_points in E. simpl in E.
  repeat (destruct E as [E|E]; [subst c; vm_compute in Hd; discriminate|]). contradiction.
Qed.

Lemma lstrip_ws_app : forall a x, forallb is_ws a = true -> lstrip (a ++ x) = lstrip x.
Proof.
  induction a as [|c a IH]; intros x H; simpl in *; [reflexivity|].
  apply andb_true_iff in H. destruct H as [H1 H2]. rewrite H1. apply IH. exact H2.
Qed.

Lemma lstrip_all_ws : forall a, forallb is_ws a = true -> lstrip a = [].
Proof.
  intros a H. rewrite <- (app_nil_r a). rewrite lstrip_ws_app by exact H. reflexivity.
Qed.

Lemma lstrip_nil_ws : forall a, lstrip a = [] -> forallb is_ws a = true.
Proof.
  induction a as [|c a IH]; simpl; intro H; [reflexivity|].
  destruct (is_ws c); [simpl; apply IH; exact H|discriminate].
Qed.

Lemma forallb_rev : forall (f : N -> bool) l, forallb f (rev l) = forallb f l.
Proof.
  intros f l. induction l as [|c l IH]; simpl; [reflexivity|].
  rewrite forallb_app. simpl. rewrite IH. rewrite andb_true_r. apply andb_comm.
Qed.

(* line.rstrip() is empty exactly for blank lines *)
Lemma non_empty_blank : forall l, f_non_empty l = negb (blank l).
Proof.
  intro l. unfold f_non_empty, rstrip, blank.
  destruct (forallb is_ws l) eqn:E.
  - rewrite lstrip_all_ws by (rewrite forallb_rev; exact E). reflexivity.
  - destruct (lstrip (rev l)) eqn:F.
    + apply lstrip_nil_ws in F. rewrite forallb_rev in F. congruence.
    + simpl. destruct (rev l0 ++ [n]) eqn:G; [destruct (rev l0); discriminate|reflexivity].
Qed.

Lemma directive_word_eq : forall w, is_directive_word w = directive_word w.
Proof. intro w. unfold is_directive_word, directive_word. simpl. rewrite orb_false_r. rewrite !orb_assoc. reflexivity. Qed.

(* ================================================================ the four filters as one partial map *)

Definition pre (l : line) : option card :=
  if f_non_empty l && f_non_directive l && f_long l && f_non_comment (to_card l) then Some (to_card l) else None.

Fixpoint fmap (src : list line) : list card :=
  match src with
  | [] => []
  | l :: r => match pre l with Some c => c :: fmap r | None => fmap r end
  end.

Lemma cards_fmap : forall src, cards src = fmap src.
Proof.
  intro src. rewrite cards_eq. induction src as [|l r IH]; [reflexivity|].
  simpl. unfold pre.
  destruct (f_non_empty l); simpl; [|exact IH].
  destruct (f_non_directive l); simpl; [|exact IH].
  destruct (f_long l); simpl; [|exact IH].
  destruct (f_non_comment (to_card l)); simpl; [|exact IH].
  f_equal. exact IH.
Qed.

Lemma col7_indicator : forall l, f_long l = true -> col7 l = indicator l.
Proof.
  intros l H. unfold f_long in H. apply Nat.leb_le in H. unfold col7, indicator. apply nth_indep. lia.
Qed.

Lemma short_long : forall l, short l = negb (f_long l).
Proof.
  intro l. unfold short, f_long. destruct (7 <=? length l)%nat eqn:E.
  - apply Nat.leb_le in E. apply Nat.ltb_ge. exact E.
  - apply Nat.leb_gt in E. apply Nat.ltb_lt. exact E.
Qed.

(* a line is dropped by the code exactly when the spec's [plain_noise] holds *)
Lemma pre_plain_noise : forall l, pre l = if plain_noise l then None else Some (col7 l, code_area l).
Proof.
  intro l. unfold pre, plain_noise. rewrite non_empty_blank. unfold f_non_directive.
  rewrite directive_word_eq. rewrite short_long.
  destruct (blank l); simpl; [reflexivity|].
  destruct (f_long l) eqn:L; simpl.
  2:{ destruct (directive_word (strip l)); reflexivity. }
  destruct (directive_word (strip l)); simpl; [reflexivity|].
  rewrite (col7_indicator l L). unfold f_non_comment, to_card. cbn [existsb fst]. rewrite orb_false_r.
  destruct ((indicator l =? 42) || (indicator l =? 68)); reflexivity.
Qed.

(* ================================================================ C12_seq_area *)

Lemma firstn_len_app : forall n (m t : line), length m = n -> firstn n (m ++ t) = m.
Proof.
  intros n m t H. subst n. rewrite firstn_app. rewrite Nat.sub_diag. rewrite firstn_all. simpl. apply app_nil_r.
Qed.

Lemma same_code_card : forall l l', same_code l l' ->
  to_card l = to_card l' /\ f_long l = true /\ f_long l' = true.
Proof.
  intros l l' [s [s' [mid [t [t' [Hl [Hl' [Hs [Hs' [Hm Hlen]]]]]]]]]].
  destruct s as [|a1 [|a2 [|a3 [|a4 [|a5 [|a6 [|a7 s]]]]]]]; simpl in Hs; try discriminate.
  destruct s' as [|b1 [|b2 [|b3 [|b4 [|b5 [|b6 [|b7 s']]]]]]]; simpl in Hs'; try discriminate.
  destruct mid as [|i mid]; [contradiction|].
  subst l l'. unfold to_card, indicator, area, f_long. simpl.
  split; [|split; reflexivity].
  f_equal.
  destruct Hlen as [H66 | [Ht Ht']].
  - simpl in H66. injection H66 as H65.
    change (firstn 65 (mid ++ t) = firstn 65 (mid ++ t')).
    rewrite !(firstn_len_app 65) by exact H65. reflexivity.
  - subst. reflexivity.
Qed.

Lemma seq_variant_pre : forall l l', seq_variant l l' -> pre l = pre l'.
Proof.
  intros l l' [H | [[H1 H2] | [Hc [Hb Hd]]]].
  - subst. reflexivity.
  - unfold pre, f_long.
    assert (E1 : (7 <=? length l)%nat = false) by (apply Nat.leb_gt; exact H1).
    assert (E2 : (7 <=? length l')%nat = false) by (apply Nat.leb_gt; exact H2).
    rewrite E1, E2. rewrite !andb_false_r. reflexivity.
  - destruct (same_code_card l l' Hc) as [Hcard [L1 L2]].
    unfold pre. rewrite !non_empty_blank. unfold f_non_directive. rewrite !directive_word_eq.
    rewrite Hb, Hd, L1, L2, Hcard. reflexivity.
Qed.

Lemma seq_area_fmap : forall src src', Forall2 seq_variant src src' -> fmap src = fmap src'.
Proof.
  induction 1 as [|l l' r r' H _ IH]; [reflexivity|].
  simpl. rewrite (seq_variant_pre l l' H). rewrite IH. reflexivity.
Qed.

Lemma seq_area : forall src src' repl, Forall2 seq_variant src src' ->
  reference_format src repl = reference_format src' repl.
Proof.
  intros src src' repl H. rewrite !rf_eq. rewrite !cards_fmap.
  rewrite (seq_area_fmap src src' H). reflexivity.
Qed.

(* ================================================================ C12_comments *)

Lemma inserted_fmap : forall s s', inserted plain_noise s s' -> fmap s' = fmap s.
Proof.
  induction 1 as [|l s s' _ IH|l s s' Hn _ IH]; [reflexivity| |].
  - simpl. rewrite IH. reflexivity.
  - simpl. rewrite pre_plain_noise. rewrite Hn. exact IH.
Qed.

Lemma comments : forall s s' repl, inserted plain_noise s s' ->
  reference_format s' repl = reference_format s repl.
Proof.
  intros s s' repl H. rewrite !rf_eq. rewrite !cards_fmap.
  rewrite (inserted_fmap s s' H). reflexivity.
Qed.

(* shapes of noise lines in terms of columns *)
Lemma rstrip_ws_app : forall x b, forallb is_ws b = true -> rstrip (x ++ b) = rstrip x.
Proof.
  intros x b H. unfold rstrip. rewrite rev_app_distr. rewrite lstrip_ws_app; [reflexivity|].
  rewrite forallb_rev. exact H.
Qed.

Lemma strip_padded : forall a w b, forallb is_ws a = true -> forallb is_ws b = true ->
  strip (a ++ w ++ b) = strip w.
Proof.
  intros a w b Ha Hb. unfold strip. rewrite lstrip_ws_app by exact Ha.
  induction w as [|d y IH]; simpl.
  - rewrite (lstrip_all_ws b Hb). reflexivity.
  - destruct (is_ws d); [exact IH|].
    change (d :: y ++ b) with ((d :: y) ++ b). apply rstrip_ws_app. exact Hb.
Qed.

(* a listing directive alone on a line whose other columns are blank is noise *)
Lemma directive_line_noise : forall a w b, forallb is_ws a = true -> forallb is_ws b = true ->
  In w directives -> plain_noise (a ++ w ++ b) = true.
Proof.
  intros a w b Ha Hb Hw. unfold plain_noise. rewrite (strip_padded a w b Ha Hb).
  assert (D : directive_word (strip w) = true).
  { rewrite directives_eq in Hw. simpl in Hw.
    destruct Hw as [H|[H|[H|[H|H]]]]; try contradiction; subst w; vm_compute; reflexivity. }
  rewrite D. rewrite !orb_true_r. reflexivity.
Qed.

Lemma comment_line_noise : forall l, (7 <= length l)%nat -> (nth 6 l 0 = 42 \/ nth 6 l 0 = 68) -> plain_noise l = true.
Proof.
  intros l Hlen H. unfold plain_noise.
  assert (L : f_long l = true) by (apply Nat.leb_le; exact Hlen).
  rewrite (col7_indicator l L). unfold indicator.
  destruct H as [H|H]; rewrite H; simpl; rewrite ?orb_true_r; reflexivity.
Qed.

Lemma blank_line_noise : forall l, forallb is_ws l = true -> plain_noise l = true.
Proof. intros l H. unfold plain_noise, blank. rewrite H. reflexivity. Qed.

(* ================================================================ C12_continuation *)

Lemma groups_nonempty : forall c r, groups (c :: r) <> [].
Proof.
  intros c r. simpl. destruct (groups r); [discriminate|]. destruct (next_is_cont r); discriminate.
Qed.

Lemma join_groups : forall r i cur, join cur r = checked (groups ((i, cur) :: r)).
Proof.
  induction r as [|[i' t] r' IH]; intros i cur; unfold card in *.
  - reflexivity.
  - rewrite join_eq.
    destruct (i' =? 45) eqn:E.
    + rewrite (IH i (cur ++ t)). f_equal.
      simpl. rewrite E.
      destruct (groups r') as [|g gs].
      * reflexivity.
      * destruct (next_is_cont r'); simpl; rewrite ?app_assoc; reflexivity.
    + rewrite (IH i' t).
      assert (G : groups ((i, cur) :: (i', t) :: r') = cur :: groups ((i', t) :: r')).
      { change (groups ((i, cur) :: (i', t) :: r')) with
          (match groups ((i', t) :: r') with
           | g :: gs => if next_is_cont ((i', t) :: r') then (cur ++ g) :: gs else cur :: g :: gs
           | [] => [cur]
           end).
        destruct (groups ((i', t) :: r')) eqn:F; [exfalso; eapply groups_nonempty; exact F|].
        simpl. rewrite E. reflexivity. }
      rewrite G.
      destruct (groups ((i', t) :: r')) as [|g gs] eqn:F; [exfalso; eapply groups_nonempty; exact F|].
      unfold checked.
      change (removelast (cur :: g :: gs)) with (cur :: removelast (g :: gs)).
      cbn [existsb]. destruct (starts_copy cur); cbn [orb]; [reflexivity|].
      destruct (existsb starts_copy (removelast (g :: gs))); reflexivity.
Qed.

Lemma join_all_groups : forall cs, join_all cs = checked (groups cs).
Proof.
  intros [|[i t] r]; [reflexivity|]. unfold join_all. apply join_groups.
Qed.

Lemma continuation : forall src repl,
  reference_format src repl = checked (groups (replace_cards repl (cards src))).
Proof. intros. rewrite rf_eq. apply join_all_groups. Qed.

(* ================================================================ C12_replacing *)

Lemma replace_go_skip : forall old new p r, replace_go old new (length p) (p ++ r) = replace_go old new 0 r.
Proof.
  induction p as [|c p IH]; intro r; [reflexivity|]. simpl. apply IH.
Qed.

Lemma is_prefix_split : forall p s, is_prefix p s = true -> s = p ++ skipn (length p) s.
Proof.
  induction p as [|a p IH]; intros s H; [reflexivity|].
  destruct s as [|b s]; simpl in H; [discriminate|].
  apply andb_true_iff in H. destruct H as [H1 H2]. apply N.eqb_eq in H1. subst b.
  simpl. f_equal. apply IH. exact H2.
Qed.

Lemma replace_go_unfold : forall old new c t,
  replace_go old new 0 (c :: t) =
  if is_prefix old (c :: t) then new ++ replace_go old new (pred (length old)) t
  else c :: replace_go old new 0 t.
Proof. reflexivity. Qed.

Lemma subst_replace_go : forall old new, old <> [] ->
  forall fuel s, (length s < fuel)%nat -> subst fuel old new s = replace_go old new 0 s.
Proof.
  intros old new Hold. induction fuel as [|f IH]; intros s Hlen; [lia|].
  destruct s as [|c t]; [reflexivity|].
  rewrite replace_go_unfold. cbn [subst].
  destruct (is_prefix old (c :: t)) eqn:E.
  - f_equal.
    pose proof (is_prefix_split old (c :: t) E) as Hs.
    destruct old as [|o old']; [contradiction|].
    set (rest := skipn (length (o :: old')) (c :: t)) in *.
    simpl in Hs. injection Hs as Hc Ht.
    rewrite Ht. simpl pred. rewrite replace_go_skip.
    apply IH.
    assert (length t = (length old' + length rest)%nat) by (rewrite Ht at 1; apply app_length).
    simpl in Hlen. lia.
  - f_equal. apply IH. simpl in Hlen. lia.
Qed.

Lemma subst_replace : forall old new s, old <> [] -> subst (S (length s)) old new s = replace old new s.
Proof.
  intros old new s H. rewrite (subst_replace_go old new H) by lia.
  destruct old; [contradiction|reflexivity].
Qed.

Lemma subst_all_replace_all : forall repl s, repl_ok repl = true -> subst_all repl s = replace_all repl s.
Proof.
  induction repl as [|[old new] r IH]; intros s H; [reflexivity|].
  unfold repl_ok in H. simpl in H. apply andb_true_iff in H. destruct H as [H1 H2].
  unfold subst_all. rewrite replace_all_eq. cbn [fold_left fst snd].
  rewrite subst_replace by (destruct old; [discriminate|discriminate]).
  rewrite <- replace_all_eq. apply (IH (replace old new s) H2).
Qed.

Lemma replacing : forall src repl, repl_ok repl = true ->
  map fst (replace_cards repl (cards src)) = map fst (cards src) /\
  map snd (replace_cards repl (cards src)) = map (subst_all repl) (map snd (cards src)) /\
  reference_format src repl = join_all (map (fun c => (fst c, subst_all repl (snd c))) (cards src)).
Proof.
  intros src repl H. rewrite rf_eq. unfold replace_cards. rewrite !map_map. simpl.
  split; [reflexivity|]. split.
  - apply map_ext. intro c. symmetry. apply subst_all_replace_all. exact H.
  - f_equal. apply map_ext. intro c. rewrite subst_all_replace_all by exact H. reflexivity.
Qed.

(* ================================================================ model = spec outside the known findings *)

Lemma noise_plain : forall l, known_bad_line l = false -> noise l = plain_noise l.
Proof.
  intros l H. unfold known_bad_line in H. apply orb_false_iff in H. destruct H as [H1 H2].
  unfold noise. rewrite H1, H2. rewrite !orb_false_r. reflexivity.
Qed.

Lemma spec_cards_fmap : forall src, known_bad src = false -> spec_cards src = fmap src.
Proof.
  unfold spec_cards, known_bad. induction src as [|l r IH]; intro H; [reflexivity|].
  simpl in H. apply orb_false_iff in H. destruct H as [H1 H2].
  simpl. rewrite (noise_plain l H1). rewrite pre_plain_noise.
  destruct (plain_noise l); simpl; rewrite (IH H2); reflexivity.
Qed.

Lemma existsb_removelast : forall (f : line -> bool) l, existsb f l = false -> existsb f (removelast l) = false.
Proof.
  intros f l. induction l as [|x l IH]; intro H; [reflexivity|].
  simpl in H. apply orb_false_iff in H. destruct H as [H1 H2].
  destruct l as [|y l]; [reflexivity|].
  change (removelast (x :: y :: l)) with (x :: removelast (y :: l)).
  simpl existsb. rewrite H1. simpl. apply IH. exact H2.
Qed.

Definition spec_gs (src : list line) (repl : list (line * line)) : list line :=
  groups (map (fun c => (fst c, subst_all repl (snd c))) (spec_cards src)).

Lemma spec_rf_unfold : forall src repl, repl_ok repl = true ->
  spec_reference_format src repl =
  match spec_gs src repl with
  | [] => None
  | g :: gs => if existsb starts_copy (g :: gs) then None else Some (g :: gs)
  end.
Proof.
  intros src repl R. unfold spec_reference_format, spec_gs. rewrite R. cbn [negb]. cbv iota zeta.
  destruct (groups _); reflexivity.
Qed.

Lemma spec_groups_eq : forall src repl, known_bad src = false -> repl_ok repl = true ->
  spec_gs src repl = groups (replace_cards repl (cards src)).
Proof.
  intros src repl Hk R. unfold spec_gs. rewrite (spec_cards_fmap src Hk). rewrite <- cards_fmap. f_equal.
  unfold replace_cards. apply map_ext. intro c. rewrite subst_all_replace_all by exact R. reflexivity.
Qed.

Lemma refformat_spec : forall src repl out,
  known_bad src = false -> spec_reference_format src repl = Some out ->
  reference_format src repl = Ok out.
Proof.
  intros src repl out Hk Hs.
  destruct (repl_ok repl) eqn:R.
  2:{ unfold spec_reference_format in Hs. rewrite R in Hs. discriminate. }
  rewrite (spec_rf_unfold src repl R) in Hs.
  rewrite (spec_groups_eq src repl Hk R) in Hs.
  rewrite continuation.
  destruct (groups (replace_cards repl (cards src))) as [|g gs]; [discriminate|].
  destruct (existsb starts_copy (g :: gs)) eqn:C; [discriminate|].
  injection Hs as Hs. subst out.
  unfold checked. rewrite (existsb_removelast starts_copy (g :: gs) C). reflexivity.
Qed.

(* ================================================================ C12_sentences *)

Lemma find_term_body : forall body w rest, has_term body = false -> is_ws w = true ->
  find_term (body ++ 46 :: w :: rest) = Some (body, rest).
Proof.
  induction body as [|c b IH]; intros w rest Hb Hw.
  - cbn [app]. rewrite find_term_eq. rewrite Hw. reflexivity.
  - simpl in Hb. apply orb_false_iff in Hb. destruct Hb as [H1 H2].
    change ((c :: b) ++ 46 :: w :: rest) with (c :: (b ++ 46 :: w :: rest)).
    rewrite find_term_eq.
    assert (E : (c =? 46) && match b ++ 46 :: w :: rest with w' :: _ => is_ws w' | [] => false end = false).
    { destruct b as [|c' b']; simpl.
      - change (is_ws 46) with false. apply andb_false_r.
      - exact H1. }
    rewrite E. rewrite (IH w rest H2 Hw). reflexivity.
Qed.

Lemma lstrip_head : forall c x, is_ws c = false -> lstrip (c :: x) = c :: x.
Proof. intros c x H. simpl. rewrite H. reflexivity. Qed.

Lemma try_match_entry : forall e rest, wf_entry e = true ->
  try_match (print_entry e ++ rest) = Some ([e_d1 e; e_d2 e], e_body e, rest).
Proof.
  intros e rest H. unfold wf_entry in H.
  repeat (apply andb_true_iff in H; destruct H as [H ?]).
  rename H into Hlead, H0 into Hw, H1 into Hterm, H2 into Hhead, H3 into Hgap, H4 into Hd2, H5 into Hd1.
  apply negb_true_iff in Hterm.
  rewrite try_match_eq. unfold print_entry. rewrite <- app_assoc. rewrite lstrip_ws_app by exact Hlead.
  simpl app. rewrite lstrip_head by (apply digit_not_ws; exact Hd1).
  rewrite Hd1, Hd2. simpl andb. cbv iota.
  rewrite <- !app_assoc. rewrite lstrip_ws_app by exact Hgap.
  assert (L : lstrip (e_body e ++ [46; e_term e] ++ rest) = e_body e ++ [46; e_term e] ++ rest).
  { destruct (e_body e) as [|c b]; simpl.
    - change (is_ws 46) with false. reflexivity.
    - apply negb_true_iff in Hhead. rewrite Hhead. reflexivity. }
  rewrite L. simpl app.
  rewrite (find_term_body (e_body e) (e_term e) rest Hterm Hw). reflexivity.
Qed.

Lemma scan_skip : forall p r, scan (length p) (p ++ r) = scan 0 r.
Proof. induction p as [|c p IH]; intro r; [reflexivity|]. simpl. apply IH. Qed.

Lemma scan_match : forall p rest lv cl, p <> [] -> try_match (p ++ rest) = Some (lv, cl, rest) ->
  scan 0 (p ++ rest) = (lv, cl) :: scan 0 rest.
Proof.
  intros p rest lv cl Hp Hm. destruct p as [|c p']; [contradiction|].
  change ((c :: p') ++ rest) with (c :: (p' ++ rest)) in *.
  cbn [scan]. rewrite Hm. f_equal.
  assert (E : (length (p' ++ rest) - length rest)%nat = length p') by (rewrite app_length; lia).
  rewrite E. apply scan_skip.
Qed.

Lemma print_entry_nonempty : forall e, print_entry e <> [].
Proof. intro e. unfold print_entry. destruct (e_lead e); discriminate. Qed.

Lemma sentences : forall es tail, forallb wf_entry es = true ->
  scan 0 (concat (map print_entry es) ++ tail) = spec_sentences es ++ scan 0 tail.
Proof.
  induction es as [|e es IH]; intros tail H; [reflexivity|].
  simpl in H. apply andb_true_iff in H. destruct H as [H1 H2].
  simpl. rewrite <- app_assoc.
  rewrite (scan_match (print_entry e) _ [e_d1 e; e_d2 e] (e_body e) (print_entry_nonempty e)
             (try_match_entry e _ H1)).
  f_equal. apply IH. exact H2.
Qed.

Lemma scan_ws : forall tail, forallb is_ws tail = true -> scan 0 tail = [].
Proof.
  induction tail as [|c t IH]; intro H; [reflexivity|].
  simpl in H. apply andb_true_iff in H. destruct H as [H1 H2].
  cbn [scan]. rewrite try_match_eq.
  assert (E : lstrip (c :: t) = []) by (apply lstrip_all_ws; simpl; rewrite H1, H2; reflexivity).
  rewrite E. apply IH. exact H2.
Qed.

(* ================================================================ C12_line_breaks *)

Lemma split_go_word : forall w cur s, forallb (fun c => negb (is_ws c)) w = true ->
  split_go cur (w ++ s) = split_go (rev w ++ cur) s.
Proof.
  induction w as [|c w IH]; intros cur s H; [reflexivity|].
  simpl in H. apply andb_true_iff in H. destruct H as [H1 H2]. apply negb_true_iff in H1.
  simpl. rewrite H1. rewrite IH by exact H2. rewrite <- app_assoc. reflexivity.
Qed.

Lemma split_go_ws : forall sep s, forallb is_ws sep = true -> split_go [] (sep ++ s) = split_go [] s.
Proof.
  induction sep as [|c sep IH]; intros s H; [reflexivity|].
  simpl in H. apply andb_true_iff in H. destruct H as [H1 H2].
  simpl. rewrite H1. apply IH. exact H2.
Qed.

Lemma split_go_sep : forall sep cur s, wf_sep sep = true -> cur <> [] ->
  split_go cur (sep ++ s) = rev cur :: split_go [] s.
Proof.
  intros sep cur s H Hc. unfold wf_sep in H. apply andb_true_iff in H. destruct H as [Hn Hw].
  destruct sep as [|c sep]; [discriminate|].
  simpl in Hw. apply andb_true_iff in Hw. destruct Hw as [H1 H2].
  simpl. rewrite H1. destruct cur; [contradiction|].
  f_equal. apply split_go_ws. exact H2.
Qed.

Lemma split_layout : forall rest w, wf_word w = true -> wf_rest rest ->
  split (layout w rest) = w :: map snd rest.
Proof.
  unfold split. induction rest as [|[sep w'] r IH]; intros w Hw Hr.
  - simpl. unfold wf_word in Hw. apply andb_true_iff in Hw. destruct Hw as [Hn Hc].
    rewrite <- (app_nil_r w) at 1. rewrite split_go_word by exact Hc. simpl. rewrite app_nil_r.
    destruct (rev w) eqn:E.
    + apply (f_equal (@rev N)) in E. rewrite rev_involutive in E. subst w. discriminate.
    + rewrite <- E. rewrite rev_involutive. reflexivity.
  - inversion Hr as [|p q [Hs Hw'] Hr']; subst. simpl in Hs, Hw'.
    simpl. pose proof Hw as Hw0. unfold wf_word in Hw. apply andb_true_iff in Hw. destruct Hw as [Hn Hc].
    rewrite split_go_word by exact Hc. rewrite app_nil_r.
    rewrite split_go_sep; [| exact Hs |].
    + rewrite rev_involutive. f_equal. apply IH; assumption.
    + intro E. apply (f_equal (@rev N)) in E. rewrite rev_involutive in E. subst w. discriminate.
Qed.

Lemma line_breaks : forall w rest rest', wf_word w = true -> wf_rest rest -> wf_rest rest' ->
  map snd rest = map snd rest' -> compact (layout w rest) = compact (layout w rest').
Proof.
  intros w rest rest' Hw Hr Hr' E. unfold compact.
  rewrite (split_layout rest w Hw Hr), (split_layout rest' w Hw Hr'). rewrite E. reflexivity.
Qed.

Lemma has_term_cons : forall c t,
  has_term (c :: t) = ((c =? 46) && match t with w :: _ => is_ws w | [] => false end) || has_term t.
Proof. reflexivity. Qed.

Lemma has_term_app_word : forall w x, forallb (fun c => negb (is_ws c)) w = true -> w <> [] ->
  has_term (w ++ x) = ((last w 0 =? 46) && match x with c :: _ => is_ws c | [] => false end) || has_term x.
Proof.
  induction w as [|c w IH]; intros x Hc Hn; [contradiction|].
  cbn [forallb] in Hc. apply andb_true_iff in Hc. destruct Hc as [H1 H2].
  destruct w as [|d w'].
  - reflexivity.
  - change ((c :: d :: w') ++ x) with (c :: ((d :: w') ++ x)).
    rewrite has_term_cons.
    rewrite (IH x H2) by discriminate.
    change (last (c :: d :: w') 0) with (last (d :: w') 0).
    cbn [forallb] in H2. apply andb_true_iff in H2. destruct H2 as [Hd _]. apply negb_true_iff in Hd.
    cbn [app]. rewrite Hd. rewrite andb_false_r. reflexivity.
Qed.

Lemma has_term_ws : forall s x, forallb is_ws s = true -> has_term (s ++ x) = has_term x.
Proof.
  induction s as [|c s IH]; intros x H; [reflexivity|].
  simpl in H. apply andb_true_iff in H. destruct H as [H1 H2].
  change ((c :: s) ++ x) with (c :: (s ++ x)). cbn [has_term].
  assert (E : (c =? 46) = false).
  { destruct (c =? 46) eqn:E; [|reflexivity]. apply N.eqb_eq in E. subst c. vm_compute in H1. discriminate. }
  rewrite E. simpl. apply IH. exact H2.
Qed.

Lemma has_term_word_only : forall w, forallb (fun c => negb (is_ws c)) w = true -> has_term w = false.
Proof.
  induction w as [|c w IH]; intro H; [reflexivity|].
  simpl in H. apply andb_true_iff in H. destruct H as [H1 H2].
  cbn [has_term]. rewrite (IH H2). rewrite orb_false_r.
  destruct w as [|d w']; [apply andb_false_r|].
  simpl in H2. apply andb_true_iff in H2. destruct H2 as [Hd _]. apply negb_true_iff in Hd.
  rewrite Hd. apply andb_false_r.
Qed.

Lemma layout_no_term : forall rest w, wf_word w = true -> wf_rest rest ->
  forallb no_dot_end (removelast (w :: map snd rest)) = true ->
  has_term (layout w rest) = false.
Proof.
  induction rest as [|[sep w'] r IH]; intros w Hw Hr Hd.
  - simpl. unfold wf_word in Hw. apply andb_true_iff in Hw. destruct Hw as [_ Hc].
    apply has_term_word_only. exact Hc.
  - inversion Hr as [|p q [Hs Hw'] Hr']; subst. simpl in Hs, Hw'.
    change (removelast (w :: map snd ((sep, w') :: r))) with (w :: removelast (w' :: map snd r)) in Hd.
    simpl in Hd. apply andb_true_iff in Hd. destruct Hd as [Hd1 Hd2].
    pose proof Hw as Hw0. unfold wf_word in Hw. apply andb_true_iff in Hw. destruct Hw as [Hn Hc].
    simpl. rewrite has_term_app_word; [| exact Hc | destruct w; [discriminate|discriminate]].
    unfold no_dot_end in Hd1. apply negb_true_iff in Hd1. rewrite Hd1. simpl.
    unfold wf_sep in Hs. apply andb_true_iff in Hs. destruct Hs as [_ Hs].
    rewrite has_term_ws by exact Hs. apply IH; assumption.
Qed.

(* ================================================================ statements at the level of dde_sentences *)

Lemma sentences_lines : forall lines es tail, forallb wf_entry es = true -> forallb is_ws tail = true ->
  concat lines = concat (map print_entry es) ++ tail -> dde_sentences lines = spec_sentences es.
Proof.
  intros lines es tail H Ht E. unfold dde_sentences. rewrite E. rewrite (sentences es tail H).
  rewrite (scan_ws tail Ht). apply app_nil_r.
Qed.

Lemma wf_entry_body : forall e, wf_entry e = true -> forall b,
  (match b with c :: _ => negb (is_ws c) | [] => true end) = true -> has_term b = false ->
  wf_entry {| e_lead := e_lead e; e_d1 := e_d1 e; e_d2 := e_d2 e; e_gap := e_gap e; e_body := b; e_term := e_term e |} = true.
Proof.
  intros e H b Hh Ht. unfold wf_entry in *. simpl.
  repeat (apply andb_true_iff in H; destruct H as [H ?]).
  rewrite H, H0, Hh, Ht, H3, H4, H5. reflexivity.
Qed.

Lemma layout_head : forall w rest, wf_word w = true ->
  (match layout w rest with c :: _ => negb (is_ws c) | [] => true end) = true.
Proof.
  intros w rest H. unfold wf_word in H. apply andb_true_iff in H. destruct H as [Hn Hc].
  destruct w as [|c w]; [discriminate|]. simpl in Hc. apply andb_true_iff in Hc. destruct Hc as [Hc _].
  destruct rest as [|[sep w'] r]; simpl; exact Hc.
Qed.

Lemma line_breaks_sentences : forall e e' w rest rest' tail tail',
  wf_entry e = true -> wf_entry e' = true -> e_d1 e = e_d1 e' -> e_d2 e = e_d2 e' ->
  wf_word w = true -> wf_rest rest -> wf_rest rest' -> map snd rest = map snd rest' ->
  forallb no_dot_end (removelast (w :: map snd rest)) = true ->
  forallb is_ws tail = true -> forallb is_ws tail' = true ->
  exists lv b b',
    dde_sentences [print_entry (with_body e (layout w rest)) ++ tail] = [(lv, b)] /\
    dde_sentences [print_entry (with_body e' (layout w rest')) ++ tail'] = [(lv, b')] /\
    compact b = compact b' /\ compact b = join_sp (w :: map snd rest).
Proof.
  intros e e' w rest rest' tail tail' He He' Hd1 Hd2 Hw Hr Hr' Em Hdot Ht Ht'.
  assert (Hdot' : forallb no_dot_end (removelast (w :: map snd rest')) = true) by (rewrite <- Em; exact Hdot).
  pose proof (wf_entry_body e He (layout w rest) (layout_head w rest Hw) (layout_no_term rest w Hw Hr Hdot)) as W.
  pose proof (wf_entry_body e' He' (layout w rest') (layout_head w rest' Hw) (layout_no_term rest' w Hw Hr' Hdot')) as W'.
  exists [e_d1 e; e_d2 e], (layout w rest), (layout w rest').
  split; [|split; [|split]].
  - apply (sentences_lines _ [with_body e (layout w rest)] tail).
    + simpl. rewrite andb_true_r. exact W.
    + exact Ht.
    + simpl. rewrite !app_nil_r. reflexivity.
  - rewrite Hd1, Hd2. apply (sentences_lines _ [with_body e' (layout w rest')] tail').
    + simpl. rewrite andb_true_r. exact W'.
    + exact Ht'.
    + simpl. rewrite !app_nil_r. reflexivity.
  - apply line_breaks; assumption.
  - unfold compact. rewrite (split_layout rest w Hw Hr). reflexivity.
Qed.

(* ================================================================ witnesses for the two findings *)

Definition str_01X : line := [32;32;32;32;32;32;32;48;49;32;88;10].             (* "       01 X\n" *)
Definition str_picx : line := [32;32;32;32;32;32;32;32;32;32;32;80;73;67;32;88;46;10].  (* "           PIC X.\n" *)
Definition str_num_eject : line := [48;48;48;51;48;48;32;69;74;69;67;84;10].    (* "000300 EJECT\n" *)
Definition str_slash : line := [32;32;32;32;32;32;47;32;72;10].                 (* "      / H\n" *)

Definition src_plain : list line := [str_01X; str_picx].
Definition src_blank_eject : list line := [str_01X; [32;32;32;32;32;32;32;69;74;69;67;84;10]; str_picx].
Definition src_num_eject : list line := [str_01X; str_num_eject; str_picx].
Definition src_slash : list line := [str_01X; str_slash; str_picx].

(* the sequence area of a directive line matters to the code *)
Lemma seq_area_directive_witness :
  Forall2 (fun l l' => l = l' \/ only_seq_area l l' \/ same_code l l') src_blank_eject src_num_eject /\
  reference_format src_blank_eject [] <> reference_format src_num_eject [].
Proof.
  split.
  - unfold src_blank_eject, src_num_eject.
    constructor; [left; reflexivity|]. constructor; [|constructor; [left; reflexivity|constructor]].
    right. right. exists [32;32;32;32;32;32], [48;48;48;51;48;48], [32;69;74;69;67;84;10], [], [].
    repeat split; try reflexivity; try discriminate. right. split; reflexivity.
  - vm_compute. discriminate.
Qed.

Lemma numbered_directive_witness :
  inserted noise src_plain src_num_eject /\ reference_format src_num_eject [] <> reference_format src_plain [].
Proof.
  split.
  - unfold src_plain, src_num_eject. apply ins_keep. apply ins_add; [vm_compute; reflexivity|].
    apply ins_keep. apply ins_nil.
  - vm_compute. discriminate.
Qed.

Lemma slash_comment_witness :
  inserted noise src_plain src_slash /\ reference_format src_slash [] <> reference_format src_plain [].
Proof.
  split.
  - unfold src_plain, src_slash. apply ins_keep. apply ins_add; [vm_compute; reflexivity|].
    apply ins_keep. apply ins_nil.
  - vm_compute. discriminate.
Qed.
