(* Lemmas for Props/C06e.v: OCCURS DEPENDING ON counters as they occur in practice.
   Part A  the decoders of Model/Counters.v return what the specification's encoders stored (C02's round trips),
           negative values included; the theorems of Props/C06.v for any decoder / encoder pair that round-trips.
   Part B  the general family: a record that STORES the count vector at its counters (Spec/Counters.Stored) satisfies
           Spec/OdoWf.Holds for a completed count vector that agrees with the given one on every counter, and the
           specification's layout functions do not look at a count vector anywhere else (congruence).
   Part C  the walk over Python's integers (Model/Counters.zwalk): unfolding equations under the rules read from the
           source, the table step for any counter value, the negative-counter layout, the refutation witness. *)
From Coq Require Import ZArith NArith List Bool Lia Arith.
Import ListNotations.
Require Import SR.Base.Res SR.Base.Dec SR.Gen.RecfmParams SR.Spec.Recfm SR.Model.Recfm.
Require Import SR.Spec.Encode SR.Model.Estruct SR.Model.ZonedCounter SR.Proofs.EstructP.
Require Import SR.Spec.Layout SR.Model.Layout SR.Spec.OdoStream SR.Model.OdoStream SR.Proofs.OdoStreamP.
Require Import SR.Proofs.LayoutP SR.Proofs.LayoutOdoP.
Require Import SR.Spec.Counters SR.Model.Counters.

(* ================================================================== Part A: decoders *)

Lemma int_of_decimal_int ng c :
  int_of_decimal (mkdec ng c (- Z.of_nat 0)) = if ng then (- Z.of_N c)%Z else Z.of_N c.
Proof.
  unfold int_of_decimal. cbn [neg coef dexp Z.of_nat Z.opp Z.leb Z.compare]. rewrite Z.pow_0_r, Z.mul_1_r. reflexivity.
Qed.

Lemma zcount_zoned_stored bs z : stores_zoned_z bs z -> zcount_zoned bs = Ok z.
Proof.
  intros (ds & s & Hne & Hd & Hl & Hs & -> & ->). unfold zcount_zoned. change 11%N with display_spelling.
  rewrite (C02_zoned (counter_pic (enc_zoned ds s)) ds s Hne Hd Hs Hl).
  unfold zcount_of_pyval, counter_pic. cbn [p_frac]. rewrite int_of_decimal_int. reflexivity.
Qed.

Lemma zcount_packed_stored bs z : stores_packed_z bs z -> zcount_packed bs = Ok z.
Proof.
  intros (ds & s & Hd & Hl & Hs & -> & ->). unfold zcount_packed.
  assert (Hu : In 8%N packed_spellings) by (cbn; auto).
  rewrite (C02_packed 8%N (packed_pic (enc_packed ds s)) ds s Hu Hd Hs Hl).
  unfold zcount_of_pyval, packed_pic. cbn [p_frac]. rewrite int_of_decimal_int. reflexivity.
Qed.

Lemma zcount_binary_stored d bs z : stores_binary_z d bs z -> zcount_binary d bs = Ok z.
Proof.
  intros (w & Hw & Hz & ->). unfold zcount_binary.
  assert (Hu : In 10%N binary_spellings) by (cbn; do 4 right; left; reflexivity).
  rewrite (C02_binary 10%N (binary_pic d) w z Hu); [reflexivity| |exact Hz].
  unfold binary_pic. cbn [p_int p_frac]. rewrite Nat.add_0_r. exact Hw.
Qed.

(* every spelling of the usage reaches the same decoder *)
Lemma packed_spelling_same u p bs : In u packed_spellings -> unpack u p bs = unpack 8%N p bs.
Proof. unfold packed_spellings. cbn [In]. intros [<-|[<-|[<-|[]]]]; reflexivity. Qed.

Lemma binary_spelling_same u p bs : In u binary_spellings -> unpack u p bs = unpack 10%N p bs.
Proof. unfold binary_spellings. cbn [In]. intros [<-|[<-|[<-|[<-|[<-|[]]]]]]; reflexivity. Qed.

(* the decoders do not look at the S of the picture *)
Lemma packed_sign_irrelevant sg m n bs : unpack 8%N (mkpic sg m n) bs = unpack 8%N (mkpic true m n) bs.
Proof. reflexivity. Qed.

Lemma binary_sign_irrelevant sg m n bs : unpack 10%N (mkpic sg m n) bs = unpack 10%N (mkpic true m n) bs.
Proof. reflexivity. Qed.

(* the count: a natural number (decodes_stored: Spec/Counters.v) *)
Lemma packed_pair : decodes_stored dcount_packed stores_packed_count.
Proof.
  intros bs k H. unfold dcount_packed. rewrite (zcount_packed_stored bs (Z.of_nat k) H). cbn [nat_of_zres]. apply Nat2Z.id.
Qed.

Lemma binary_pair d : decodes_stored (dcount_binary d) (stores_binary_count d).
Proof.
  intros bs k H. unfold dcount_binary. rewrite (zcount_binary_stored d bs (Z.of_nat k) H). cbn [nat_of_zres]. apply Nat2Z.id.
Qed.

Lemma zoned_pair : decodes_stored dcount_zoned stores_zoned_count.
Proof.
  intros bs k (ds & s & Hne & Hd & Hl & Hs & -> & Hz). unfold dcount_zoned. change 11%N with display_spelling.
  rewrite (C02_zoned (counter_pic (enc_zoned ds s)) ds s Hne Hd Hs Hl).
  unfold counter_pic. cbn [p_frac]. rewrite int_of_decimal_int. unfold signed_value in Hz. rewrite <- Hz. apply Nat2Z.id.
Qed.

(* PIC S9(4) COMP and PIC S9(9) COMP (finding K-signed-binary-size of C04): calcsize counts the S as a position and
   reserves 4 (8) bytes, the decoder wants 2 (4): the counter never decodes *)
Lemma s94_comp_counter_raises bs : length bs = 4%nat -> zcount_binary 4 bs = Err StructError.
Proof.
  intros H. unfold zcount_binary.
  assert (E : unpack 10%N (binary_pic 4) bs = unpack_binary_int (binary_pic 4) bs) by reflexivity.
  rewrite E. unfold unpack_binary_int.
  assert (E2 : bin_width SR.Gen.EstructParams.bin_t1 SR.Gen.EstructParams.bin_t2 SR.Gen.EstructParams.bin_t3
                 SR.Gen.EstructParams.bin_t3_inclusive SR.Gen.EstructParams.bin_counts_fraction (binary_pic 4) = Some 2%nat) by reflexivity.
  rewrite E2, H. reflexivity.
Qed.

Lemma s94_comp_width : calcsize 10%N (binary_pic 4) = Ok 4%N /\ calcsize 10%N (mkpic false 4 0) = Ok 2%N.
Proof. split; reflexivity. Qed.

(* ---- the flat family for any pair *)
Open Scope nat_scope.
Section Pair.
  Variable dc : list N -> nat.
  Variable stores : list N -> nat -> Prop.
  Hypothesis Hpair : decodes_stored dc stores.

  Lemma stored_by_hold e t r : counters_stored_by stores e t r -> counters_hold dc e t r.
  Proof.
    destruct t as [i sz oc rd|i oc rd kids]; cbn [counters_stored_by counters_hold]; [trivial|].
    intros H c sz o Hin Hf Hk. apply Hpair. exact (H c sz o Hin Hf Hk).
  Qed.

  Lemma Forall2_imp' {X Y} (P Q : X -> Y -> Prop) : (forall a b, P a b -> Q a b) ->
    forall l1 l2, Forall2 P l1 l2 -> Forall2 Q l1 l2.
  Proof. intros H l1 l2 HF. induction HF; constructor; auto. Qed.

  Lemma recs_stored_by_ok t es rs :
    Forall2 (fun e r => length r = extent e t /\ counters_stored_by stores e t r) es rs ->
    Forall2 (fun e r => length r = extent e t /\ counters_hold dc e t r) es rs.
  Proof. apply Forall2_imp'. intros e r [H1 H2]. split; [exact H1|apply stored_by_hold; exact H2]. Qed.

  Lemma blocks_stored_by_ok t ess blocks :
    Forall2 (Forall2 (fun e r => length r = extent e t /\ counters_stored_by stores e t r)) ess blocks ->
    Forall2 (Forall2 (fun e r => length r = extent e t /\ counters_hold dc e t r)) ess blocks.
  Proof. apply Forall2_imp'. intros es rs H. apply recs_stored_by_ok. exact H. Qed.

  Lemma layout_flat_pair t e r :
    flat_odo t = true -> counters_stored_by stores e t r ->
    exists v, nav_of dc r (build t) = Ok v
      /\ lstart (n_loc v) = 0 /\ lend (n_loc v) = extent e t
      /\ forall k x, find_kid (item_kids t) k = Some x ->
         exists o vk, kid_start e (item_kids t) k = Some o
           /\ nav_name v (KName k) = Ok vk
           /\ lstart (n_loc vk) = o /\ lsize (n_loc vk) = extent e x
           /\ (is_table x = true ->
                 (exists sub sch, n_loc vk = LArr o (extent e x) (ext1 e x) (count e (item_oc x)) sub sch)
                 /\ (forall i, i < count e (item_oc x) ->
                       exists vi, nav_index dc r vk i = Ok vi
                         /\ lstart (n_loc vi) = o + i * ext1 e x /\ lsize (n_loc vi) = ext1 e x)
                 /\ (forall i, count e (item_oc x) <= i -> nav_index dc r vk i = Err IndexError)).
  Proof. intros Hf Hc. apply layout_flat; [exact Hf|apply stored_by_hold; exact Hc]. Qed.

  Lemma layout_flat_occurrence_pair t e r :
    flat_odo t = true -> counters_stored_by stores e t r ->
    exists v, nav_of dc r (build t) = Ok v
      /\ forall k x, find_kid (item_kids t) k = Some x -> is_table x = true ->
         exists o vk, kid_start e (item_kids t) k = Some o /\ nav_name v (KName k) = Ok vk
           /\ forall i, i < count e (item_oc x) ->
              exists vi, nav_index dc r vk i = Ok vi
                /\ match x with
                   | Elem n sz _ _ => exists vj, nav_name vi (KName n) = Ok vj /\ n_loc vj = LAtom (o + i * sz) sz
                   | Group _ _ _ gks =>
                       forall j y, find_kid gks j = Some y ->
                         exists oj vj, kid_start e gks j = Some oj /\ nav_name vi (KName j) = Ok vj
                           /\ n_loc vj = LAtom (o + i * ext1 e x + oj) (extent e y)
                   end.
  Proof. intros Hf Hc. apply layout_flat_occurrence; [exact Hf|apply stored_by_hold; exact Hc]. Qed.

  Lemma frame_pair t e (r more : list N) :
    flat_odo t = true -> extent e t <= length r -> counters_stored_by stores e t r ->
    nav_of dc (r ++ more) (build t) = nav_of dc r (build t).
  Proof. intros Hf Hl Hc. apply (nav_frame dc t e); [exact Hf|exact Hl|apply stored_by_hold; exact Hc]. Qed.

  Lemma stream_N_pair (kind : N) (lrecl : option nat) t es (rs : list (list N)) :
    flat_odo t = true ->
    Forall2 (fun e r => length r = extent e t /\ counters_stored_by stores e t r) es rs ->
    legal_N (N.to_nat buffer_size) rs = true ->
    exists rows s',
      rows_N dc kind lrecl (build t) (write_N rs) = Ok (rows, Done, s')
      /\ map (@row_buf N) rows = spec_bufs (N.to_nat buffer_size) (write_N rs) (map (@length N) rs)
      /\ heads (map (@length N) rs) (map (@row_buf N) rows) = rs
      /\ Forall2 (fun rw r => nav_of dc r (build t) = Ok (row_nav rw)) rows rs
      /\ Forall2 (fun rw e => lend (n_loc (row_nav rw)) = extent e t) rows es
      /\ buf s' = [] /\ rest s' = [].
  Proof. intros Hf HF HL. apply stream_N_any_lrecl; [exact Hf|apply recs_stored_by_ok; exact HF|exact HL]. Qed.

  Lemma stream_V_pair (kind : N) (lrecl : option nat) t es (rs : list (list N)) :
    flat_odo t = true ->
    Forall2 (fun e r => length r = extent e t /\ counters_stored_by stores e t r) es rs ->
    legal_V rs = true ->
    exists rows,
      rows_V dc kind lrecl (build t) (write_V rs) = Ok (rows, Done)
      /\ map (@row_buf N) rows = rs
      /\ Forall2 (fun rw r => nav_of dc r (build t) = Ok (row_nav rw)) rows rs
      /\ Forall2 (fun rw e => lend (n_loc (row_nav rw)) = extent e t) rows es.
  Proof. intros Hf HF HL. apply stream_V_any_lrecl; [exact Hf|apply recs_stored_by_ok; exact HF|exact HL]. Qed.

  Lemma stream_VB_pair (kind : N) (lrecl : option nat) t ess (blocks : list (list (list N))) :
    flat_odo t = true ->
    Forall2 (Forall2 (fun e r => length r = extent e t /\ counters_stored_by stores e t r)) ess blocks ->
    legal_VB blocks = true ->
    exists rows,
      rows_VB dc kind lrecl (build t) (write_VB blocks) = Ok (rows, Done)
      /\ map (@row_buf N) rows = concat blocks
      /\ Forall2 (fun rw r => nav_of dc r (build t) = Ok (row_nav rw)) rows (concat blocks)
      /\ Forall2 (fun rw e => lend (n_loc (row_nav rw)) = extent e t) rows (concat ess).
  Proof. intros Hf HF HL. apply stream_VB_any_lrecl; [exact Hf|apply blocks_stored_by_ok; exact HF|exact HL]. Qed.

  Lemma stream_F_pair (kind : N) (lrecl : nat) t es (rs ps : list (list N)) :
    flat_odo t = true ->
    Forall2 (fun e r => length r = extent e t /\ counters_stored_by stores e t r) es rs ->
    Forall2 (fun r p => exists more, p = r ++ more) rs ps ->
    legal_F lrecl ps = true ->
    exists rows,
      rows_F dc kind (Some lrecl) (build t) (write_F ps) = Ok (rows, Done)
      /\ map (@row_buf N) rows = ps
      /\ Forall2 (fun rw r => nav_of dc r (build t) = Ok (row_nav rw)) rows rs
      /\ Forall2 (fun rw e => lend (n_loc (row_nav rw)) = extent e t) rows es.
  Proof.
    intros Hf HF HP HL. apply (stream_F dc kind lrecl t es rs ps); [exact Hf|apply recs_stored_by_ok; exact HF|exact HP|exact HL].
  Qed.
End Pair.

(* ================================================================== Part B: the general family *)

(* two count vectors that agree on a set of names *)
Definition agree (cs : list id) (e e' : env) : Prop := forall c, In c cs -> e c = e' c.

Lemma agree_incl cs cs' e e' : incl cs' cs -> agree cs e e' -> agree cs' e e'.
Proof. intros Hi Ha c Hc. apply Ha, Hi, Hc. Qed.
Lemma agree_app_l a b e e' : agree (a ++ b) e e' -> agree a e e'.
Proof. apply agree_incl, incl_appl, incl_refl. Qed.
Lemma agree_app_r a b e e' : agree (a ++ b) e e' -> agree b e e'.
Proof. apply agree_incl, incl_appr, incl_refl. Qed.
Lemma agree_sym cs e e' : agree cs e e' -> agree cs e' e.
Proof. intros H c Hc. symmetry. apply H, Hc. Qed.

Lemma count_congr e e' o : agree (oc_counter o) e e' -> count e o = count e' o.
Proof. destruct o as [|n|c]; cbn [count oc_counter]; intros H; [reflexivity|reflexivity|apply H; left; reflexivity]. Qed.

(* ---- the layout functions of Spec/Layout.v read a count vector at the counters only *)
Lemma ext_congr e e' :
  (forall x, agree (odo_counters x) e e' -> ext1 e x = ext1 e' x /\ extent e x = extent e' x)
  /\ (forall ks, agree (odo_counters_kids ks) e e' -> kids_extent e ks = kids_extent e' ks).
Proof.
  apply item_items_ind.
  - intros i sz oc rd H. cbn [odo_counters item_oc] in H. rewrite app_nil_r in H. unfold extent. cbn [ext1 item_oc].
    rewrite (count_congr e e' oc H). split; reflexivity.
  - intros i oc rd ks IH H. cbn [odo_counters item_oc] in H. unfold extent. cbn [ext1 item_oc].
    rewrite (count_congr e e' oc (agree_app_l _ _ _ _ H)), (IH (agree_app_r _ _ _ _ H)). split; reflexivity.
  - intros _. reflexivity.
  - intros x IHx xs IHxs H. cbn [odo_counters_kids] in H. cbn [kids_extent].
    destruct (IHx (agree_app_l _ _ _ _ H)) as [E1 E2]. unfold extent in E2. rewrite E2, (IHxs (agree_app_r _ _ _ _ H)). reflexivity.
Qed.

Lemma extent_congr e e' x : agree (odo_counters x) e e' -> extent e x = extent e' x.
Proof. intros H. apply (proj1 (ext_congr e e') x H). Qed.
Lemma ext1_congr e e' x : agree (odo_counters x) e e' -> ext1 e x = ext1 e' x.
Proof. intros H. apply (proj1 (ext_congr e e') x H). Qed.

Lemma kid_starts_congr e e' : forall ks off seen, agree (odo_counters_kids ks) e e' ->
  kid_starts e ks off seen = kid_starts e' ks off seen.
Proof.
  induction ks as [|x xs IH]; intros off seen H; [reflexivity|].
  cbn [odo_counters_kids] in H. cbn [kid_starts].
  rewrite (extent_congr e e' x (agree_app_l _ _ _ _ H)).
  destruct (item_redef x) as [t|]; rewrite (IH _ _ (agree_app_r _ _ _ _ H)); reflexivity.
Qed.

Lemma kid_start_congr e e' ks k : agree (odo_counters_kids ks) e e' -> kid_start e ks k = kid_start e' ks k.
Proof. intros H. unfold kid_start. rewrite (kid_starts_congr e e' ks 0 [] H). reflexivity. Qed.

Lemma unions_ok_congr e e' : forall ks bases, agree (odo_counters_kids ks) e e' ->
  unions_ok e bases ks = unions_ok e' bases ks.
Proof.
  induction ks as [|x xs IH]; intros bases H; [reflexivity|].
  cbn [odo_counters_kids] in H. cbn [unions_ok].
  rewrite (extent_congr e e' x (agree_app_l _ _ _ _ H)).
  destruct (item_redef x) as [u|]; rewrite (IH _ (agree_app_r _ _ _ _ H)); reflexivity.
Qed.

Lemma wf_group_unf e i oc rd ks :
  wf e (Group i oc rd ks) =
  no_odo oc && (wf_kids e ks && match oc with
                                | Once => unions_ok e [] ks
                                | _ => match redef_targets ks with [] => true | _ => false end
                                end).
Proof. reflexivity. Qed.
Lemma wf_kids_cons e x xs : wf_kids e (ICons x xs) = wf e x && wf_kids e xs.
Proof. reflexivity. Qed.
Lemma wfo_group_once e av i rd ks : wfo e av (Group i Once rd ks) = wfo_kids e av ks && unions_ok e [] ks.
Proof. reflexivity. Qed.
Lemma wfo_group_times e av i n rd ks : wfo e av (Group i (Times n) rd ks) = wf_kids e ks && no_targets ks.
Proof. reflexivity. Qed.
Lemma wfo_group_odo e av i c ks : wfo e av (Group i (Odo c) None ks) = existsb (N.eqb c) av && wf_kids e ks && no_targets ks.
Proof. reflexivity. Qed.
Lemma wfo_kids_cons e av x xs :
  wfo_kids e av (ICons x xs) = if member x xs then wf e x && wfo_kids e av xs else wfo e av x && wfo_kids e (av ++ new_counters x) xs.
Proof. reflexivity. Qed.

Lemma wf_congr e e' :
  (forall x, agree (odo_counters x) e e' -> wf e x = wf e' x)
  /\ (forall ks, agree (odo_counters_kids ks) e e' -> wf_kids e ks = wf_kids e' ks).
Proof.
  apply item_items_ind.
  - intros. reflexivity.
  - intros i oc rd ks IH H. cbn [odo_counters] in H. apply agree_app_r in H. rewrite !wf_group_unf.
    rewrite (IH H), (unions_ok_congr e e' ks [] H). reflexivity.
  - intros _. reflexivity.
  - intros x IHx xs IHxs H. cbn [odo_counters_kids] in H. rewrite !wf_kids_cons.
    rewrite (IHx (agree_app_l _ _ _ _ H)), (IHxs (agree_app_r _ _ _ _ H)). reflexivity.
Qed.

Lemma wfo_congr e e' :
  (forall x avail, agree (odo_counters x) e e' -> wfo e avail x = wfo e' avail x)
  /\ (forall ks avail, agree (odo_counters_kids ks) e e' -> wfo_kids e avail ks = wfo_kids e' avail ks).
Proof.
  apply item_items_ind.
  - intros. reflexivity.
  - intros i oc rd ks IH avail H. cbn [odo_counters] in H. apply agree_app_r in H.
    destruct oc as [|n|c].
    + rewrite !wfo_group_once. rewrite (IH avail H), (unions_ok_congr e e' ks [] H). reflexivity.
    + rewrite !wfo_group_times. rewrite (proj2 (wf_congr e e') ks H). reflexivity.
    + destruct rd; [reflexivity|]. rewrite !wfo_group_odo. rewrite (proj2 (wf_congr e e') ks H). reflexivity.
  - intros avail _. reflexivity.
  - intros x IHx xs IHxs avail H. cbn [odo_counters_kids] in H. rewrite !wfo_kids_cons.
    rewrite (proj1 (wf_congr e e') x (agree_app_l _ _ _ _ H)), (IHx avail (agree_app_l _ _ _ _ H)),
      !(IHxs _ (agree_app_r _ _ _ _ H)). reflexivity.
Qed.

(* ---- navigation: the views reached from an item name only counters of that item *)
Definition view_counters (v : view) : list id :=
  match v with VItem x | VOcc x => odo_counters x | VAtom _ => [] end.

Lemma find_kid_counters : forall ks k x, find_kid ks k = Some x -> incl (odo_counters x) (odo_counters_kids ks).
Proof.
  induction ks as [|y ys IH]; intros k x H; [discriminate|].
  cbn [find_kid] in H. cbn [odo_counters_kids]. destruct (N.eqb (item_id y) k).
  - injection H as ->. apply incl_appl, incl_refl.
  - apply incl_appr. apply (IH k x H).
Qed.

Lemma group_kids_counters i oc rd ks : incl (odo_counters_kids ks) (odo_counters (Group i oc rd ks)).
Proof. cbn [odo_counters]. apply incl_appr, incl_refl. Qed.

Lemma spec_step_congr cs e e' v st s : incl (view_counters v) cs -> agree cs e e' ->
  spec_step e v st s = spec_step e' v st s
  /\ forall v' st', spec_step e v st s = inl (v', st') -> incl (view_counters v') cs.
Proof.
  intros Hi Ha.
  assert (Hkids : forall i oc rd ks, incl (odo_counters (Group i oc rd ks)) cs -> forall k,
            (match find_kid ks k, kid_start e ks k with Some x, Some o => inl (VItem x, st + o) | _, _ => inr NoSuchName end
             = match find_kid ks k, kid_start e' ks k with Some x, Some o => inl (VItem x, st + o) | _, _ => inr NoSuchName end)
            /\ forall v' st', match find_kid ks k, kid_start e ks k with Some x, Some o => inl (VItem x, st + o) | _, _ => inr NoSuchName end
                              = inl (v', st') -> incl (view_counters v') cs).
  { intros i oc rd ks Hg k.
    assert (Hk : incl (odo_counters_kids ks) cs) by (eapply incl_tran; [apply group_kids_counters|exact Hg]).
    rewrite (kid_start_congr e e' ks k (agree_incl _ _ _ _ Hk Ha)). split; [reflexivity|].
    intros v' st'. destruct (find_kid ks k) as [x|] eqn:Ef; [|discriminate].
    destruct (kid_start e' ks k); [|discriminate]. intros E. injection E as <- _. cbn [view_counters].
    eapply incl_tran; [apply (find_kid_counters ks k x Ef)|exact Hk]. }
  destruct s as [k|i]; cbn [spec_step].
  - destruct v as [x|x|sz].
    + destruct x as [j sz oc rd|j oc rd ks]; [split; [reflexivity|discriminate]|].
      destruct oc; try (split; [reflexivity|discriminate]). cbn [view_counters] in Hi. apply (Hkids j Once rd ks Hi k).
    + destruct x as [j sz oc rd|j oc rd ks].
      * split; [reflexivity|]. intros v' st'. destruct (N.eqb j k); [|discriminate]. intros E. injection E as <- _. intros c [].
      * cbn [view_counters] in Hi. apply (Hkids j oc rd ks Hi k).
    + split; [reflexivity|discriminate].
  - destruct v as [x|x|sz]; try (split; [reflexivity|discriminate]).
    cbn [view_counters] in Hi.
    assert (Hx : agree (odo_counters x) e e') by (apply (agree_incl cs); assumption).
    assert (Hc : count e (item_oc x) = count e' (item_oc x)).
    { apply count_congr. apply (agree_incl (odo_counters x)); [|exact Hx]. destruct x; cbn [odo_counters item_oc]; apply incl_appl, incl_refl. }
    rewrite Hc, (ext1_congr e e' x Hx). split; [reflexivity|].
    intros v' st'. destruct (is_table x); [|discriminate]. destruct (i <? count e' (item_oc x)); [|discriminate].
    intros E. injection E as <- _. exact Hi.
Qed.

Lemma spec_nav_congr cs e e' : agree cs e e' -> forall p v st, incl (view_counters v) cs ->
  spec_nav e v st p = spec_nav e' v st p
  /\ forall v' st', spec_nav e v st p = inl (v', st') -> incl (view_counters v') cs.
Proof.
  intros Ha. induction p as [|s p IH]; intros v st Hi.
  - cbn [spec_nav]. split; [reflexivity|]. intros v' st' E. injection E as <- _. exact Hi.
  - cbn [spec_nav]. destruct (spec_step_congr cs e e' v st s Hi Ha) as [E1 E2]. rewrite <- E1.
    destruct (spec_step e v st s) as [[v1 st1]|err]; [|split; [reflexivity|discriminate]].
    apply (IH v1 st1 (E2 v1 st1 eq_refl)).
Qed.

Lemma view_size_congr e e' v : agree (view_counters v) e e' -> view_size e v = view_size e' v.
Proof.
  destruct v as [x|x|sz]; cbn [view_size view_counters]; intros H; [apply extent_congr|apply ext1_congr|reflexivity]; exact H.
Qed.

(* ---- completion of the count vector: at every potential counter that is NOT a counter, what the decoder reads there *)
Section Complete.
  Variable dc : list N -> nat.
  Variable stores : list N -> nat -> Prop.
  Hypothesis Hpair : decodes_stored dc stores.
  Variable cs : list id.
  Variable r : list N.
  Variable e : env.

  Fixpoint collect (x : item) (st : nat) {struct x} : list (id * nat) :=
    match x with
    | Elem i sz Once _ => if existsb (N.eqb i) cs then [] else [(i, dc (slice r st (st + sz)))]
    | Group _ Once _ ks => collect_kids (kid_starts e ks st []) ks
    | _ => []
    end
  with collect_kids (starts : list (id * nat)) (ks : items) {struct ks} : list (id * nat) :=
    match ks with
    | INil => []
    | ICons x xs =>
        (if member x xs then [] else match assoc (item_id x) starts with Some o => collect x o | None => [] end)
        ++ collect_kids starts xs
    end.

  Lemma collect_keys :
    (forall x st, incl (map fst (collect x st)) (ids x) /\ forall i, In i (map fst (collect x st)) -> ~ In i cs)
    /\ (forall ks starts, incl (map fst (collect_kids starts ks)) (ids_kids ks)
                          /\ forall i, In i (map fst (collect_kids starts ks)) -> ~ In i cs).
  Proof.
    apply item_items_ind.
    - intros i sz oc rd st. destruct oc; cbn [collect]; try (split; [intros a []|intros a []]).
      destruct (existsb (N.eqb i) cs) eqn:E; [split; [intros a []|intros a []]|].
      cbn [map fst]. split.
      + intros a [<-|[]]. left. reflexivity.
      + intros a [<-|[]] Hin. apply existsb_eqb_In in Hin. congruence.
    - intros i oc rd ks IH st. destruct oc; cbn [collect]; try (split; [intros a []|intros a []]).
      destruct (IH (kid_starts e ks st [])) as [H1 H2]. split; [|exact H2].
      cbn [ids]. apply incl_tl. exact H1.
    - intros starts. split; [intros a []|intros a []].
    - intros x IHx xs IHxs starts. cbn [collect_kids ids_kids]. rewrite map_app.
      destruct (IHxs starts) as [H1 H2].
      assert (Hx : incl (map fst (if member x xs then [] else match assoc (item_id x) starts with Some o => collect x o | None => [] end)) (ids x)
                   /\ forall i, In i (map fst (if member x xs then [] else match assoc (item_id x) starts with Some o => collect x o | None => [] end)) -> ~ In i cs).
      { destruct (member x xs); [split; [intros a []|intros a []]|].
        destruct (assoc (item_id x) starts) as [o|]; [apply IHx|split; [intros a []|intros a []]]. }
      destruct Hx as [G1 G2]. split.
      + apply incl_app; [apply incl_appl; exact G1|apply incl_appr; exact H1].
      + intros i Hi. apply in_app_or in Hi. destruct Hi as [Hi|Hi]; [apply G2|apply H2]; exact Hi.
  Qed.

  Lemma NoDup_app_intro {T} (a b : list T) : NoDup a -> NoDup b -> (forall x, In x a -> ~ In x b) -> NoDup (a ++ b).
  Proof.
    induction a as [|x a IH]; intros Ha Hb Hd; [exact Hb|].
    cbn. inversion Ha as [|? ? Hx Ha']; subst. constructor.
    - intros Hin. apply in_app_or in Hin. destruct Hin as [Hin|Hin]; [contradiction|]. apply (Hd x); [left; reflexivity|exact Hin].
    - apply IH; [exact Ha'|exact Hb|]. intros y Hy. apply Hd. right. exact Hy.
  Qed.

  Lemma collect_nodup :
    (forall x st, NoDup (ids x) -> NoDup (map fst (collect x st)))
    /\ (forall ks starts, NoDup (ids_kids ks) -> NoDup (map fst (collect_kids starts ks))).
  Proof.
    apply item_items_ind.
    - intros i sz oc rd st _. destruct oc; cbn [collect]; try constructor.
      destruct (existsb (N.eqb i) cs); cbn [map fst]; [constructor|]. constructor; [intros []|constructor].
    - intros i oc rd ks IH st Hnd. destruct oc; cbn [collect]; try constructor.
      apply IH. cbn [ids] in Hnd. inversion Hnd; assumption.
    - intros starts _. constructor.
    - intros x IHx xs IHxs starts Hnd. cbn [collect_kids ids_kids] in *. rewrite map_app.
      apply NoDup_app_intro.
      + destruct (member x xs); [constructor|]. destruct (assoc (item_id x) starts) as [o|]; [|constructor].
        apply IHx. apply NoDup_app_l in Hnd. exact Hnd.
      + apply IHxs. apply NoDup_app_r in Hnd. exact Hnd.
      + intros i Hi Hi'.
        assert (H1 : In i (ids x)).
        { destruct (member x xs); [destruct Hi|]. destruct (assoc (item_id x) starts) as [o|]; [|destruct Hi].
          apply (proj1 (proj1 collect_keys x o)). exact Hi. }
        apply (proj1 (proj2 collect_keys xs starts)) in Hi'.
        exact (NoDup_app_disj _ _ _ Hnd H1 Hi').
  Qed.

  Lemma assoc_nodup : forall (L : list (id * nat)) i v, NoDup (map fst L) -> In (i, v) L -> assoc i L = Some v.
  Proof.
    induction L as [|[j w] L IH]; intros i v Hnd Hin; [destruct Hin|].
    cbn [map fst] in Hnd. inversion Hnd as [|? ? Hj Hnd']; subst. cbn [assoc].
    destruct Hin as [E|Hin].
    - injection E as -> ->. rewrite N.eqb_refl. reflexivity.
    - destruct (N.eqb j i) eqn:E; [|apply IH; assumption].
      apply N.eqb_eq in E. subst j. exfalso. apply Hj. apply in_map_iff. exists (i, v). split; [reflexivity|exact Hin].
  Qed.

  Lemma assoc_none : forall (L : list (id * nat)) i, ~ In i (map fst L) -> assoc i L = None.
  Proof.
    induction L as [|[j w] L IH]; intros i H; [reflexivity|].
    cbn [assoc]. cbn [map fst] in H. destruct (N.eqb j i) eqn:E.
    - apply N.eqb_eq in E. subst j. exfalso. apply H. left. reflexivity.
    - apply IH. intros Hin. apply H. right. exact Hin.
  Qed.

  (* the completed vector, given the list of what was read *)
  Definition completed (L : list (id * nat)) : env := fun i => match assoc i L with Some v => v | None => e i end.

  Variable L : list (id * nat).
  Hypothesis HLcs : forall i, In i (map fst L) -> ~ In i cs.

  Lemma completed_agree : agree cs e (completed L).
  Proof.
    intros c Hc. unfold completed. rewrite assoc_none; [reflexivity|]. intros Hin. exact (HLcs c Hin Hc).
  Qed.

  Lemma stored_holds :
    (forall x st, incl (odo_counters x) cs -> (forall i v, In (i, v) (collect x st) -> completed L i = v) ->
       Stored stores cs r e x st -> Holds N dc r (completed L) x st)
    /\ (forall ks starts, incl (odo_counters_kids ks) cs -> (forall i v, In (i, v) (collect_kids starts ks) -> completed L i = v) ->
          StoredKids stores cs r e starts ks -> HoldsKids N dc r (completed L) starts ks).
  Proof.
    apply item_items_ind.
    - intros i sz oc rd st _ HL Hs. destruct oc; cbn [Holds]; try exact I.
      cbn [Stored] in Hs. cbn [collect] in HL. destruct (existsb (N.eqb i) cs) eqn:E.
      + apply existsb_eqb_In in E. rewrite (Hpair _ _ (Hs E)). apply completed_agree. exact E.
      + symmetry. apply HL. left. reflexivity.
    - intros i oc rd ks IH st Hi HL Hs. destruct oc; cbn [Holds]; try exact I.
      cbn [Stored] in Hs. cbn [collect] in HL.
      assert (Hk : incl (odo_counters_kids ks) cs) by (eapply incl_tran; [apply group_kids_counters|exact Hi]).
      rewrite <- (kid_starts_congr e (completed L) ks st [] (agree_incl _ _ _ _ Hk completed_agree)).
      apply IH; assumption.
    - intros starts _ _ _. exact I.
    - intros x IHx xs IHxs starts Hi HL Hs. cbn [odo_counters_kids] in Hi. cbn [HoldsKids]. cbn [StoredKids] in Hs.
      cbn [collect_kids] in HL. destruct Hs as [Hx Hxs]. split.
      + destruct (member x xs); [exact I|]. destruct Hx as (o & Ho & Hso). exists o. split; [exact Ho|].
        rewrite Ho in HL. apply IHx; [eapply incl_tran; [apply incl_appl, incl_refl|exact Hi]| |exact Hso].
        intros j v Hj. apply HL. apply in_or_app. left. exact Hj.
      + apply IHxs; [eapply incl_tran; [apply incl_appr, incl_refl|exact Hi]| |exact Hxs].
        intros j v Hj. apply HL. apply in_or_app. right. exact Hj.
  Qed.
End Complete.

(* C06_layout with the hypothesis written with the encoder only *)
Lemma layout_stored (dc : list N -> nat) (stores : list N -> nat -> Prop) (r : list N) (e : env) (t : item) :
  decodes_stored dc stores ->
  wfo e [] t = true -> NoDup (ids t) -> Stored stores (odo_counters t) r e t 0 ->
  exists v0, nav_of dc r (build t) = Ok v0
    /\ lstart (n_loc v0) = 0 /\ lend (n_loc v0) = extent e t
    /\ forall p v st, spec_nav e (VItem t) 0 p = inl (v, st) ->
         exists nv, nav_path dc r v0 p = Ok nv
           /\ lstart (n_loc nv) = st /\ lend (n_loc nv) = st + view_size e v
           /\ nav_raw r nv = slice r st (st + view_size e v)
           /\ (forall x, v = VItem x -> is_table x = true ->
                 forall i, count e (item_oc x) <= i -> nav_index dc r nv i = Err IndexError).
Proof.
  intros Hpair Hw Hnd Hs.
  set (cs := odo_counters t). set (L := collect dc cs r e t 0). set (e' := completed e L).
  assert (HLcs : forall i, In i (map fst L) -> ~ In i cs) by (apply (proj1 (collect_keys dc cs r e) t 0)).
  assert (Ha : agree cs e e') by (apply completed_agree; exact HLcs).
  assert (Hh : Holds N dc r e' t 0).
  { apply (proj1 (stored_holds dc stores Hpair cs r e L HLcs) t 0); [apply incl_refl| |exact Hs].
    intros i v Hin. unfold completed. fold L in Hin.
    rewrite (assoc_nodup L i v (proj1 (collect_nodup dc cs r e) t 0 Hnd) Hin). reflexivity. }
  assert (Hw' : wfo e' [] t = true) by (rewrite <- (proj1 (wfo_congr e e') t [] Ha); exact Hw).
  destruct (layout_correct_odo N dc r e' t Hw' Hnd Hh) as (v0 & Hnav & H0 & Hend & Hall).
  exists v0. split; [exact Hnav|]. split; [exact H0|].
  split; [rewrite Hend; symmetry; apply extent_congr; exact Ha|].
  intros p v st Hp.
  destruct (spec_nav_congr cs e e' Ha p (VItem t) 0 (incl_refl _)) as [E1 E2].
  pose proof (E2 v st Hp) as Hv. rewrite E1 in Hp.
  destruct (Hall p v st Hp) as (nv & Hn & Hs1 & He1 & Hr1 & Hi1).
  assert (Evs : view_size e' v = view_size e v) by (symmetry; apply view_size_congr; apply (agree_incl cs); assumption).
  exists nv. rewrite <- Evs. repeat (split; [assumption|]).
  intros x -> Ht i Hi. apply (Hi1 x eq_refl Ht).
  assert (Ec : count e' (item_oc x) = count e (item_oc x)).
  { symmetry. apply count_congr. apply (agree_incl cs); [|exact Ha]. cbn [view_counters] in Hv.
    eapply incl_tran; [|exact Hv]. destruct x; cbn [odo_counters item_oc]; apply incl_appl, incl_refl. }
  rewrite Ec. exact Hi.
Qed.

(* ================================================================== the partial decoders of Model/LayoutPartial.v (C10)
   are these decoders with the negative values clamped *)
Require Import SR.Model.LayoutPartial.

Lemma unpack_zoned_not_str p bs s : unpack_zoned p bs <> Ok (VStr s).
Proof.
  unfold unpack_zoned. destruct (_ && _); [discriminate|]. destruct (rev bs); discriminate.
Qed.

Lemma unpack_packed_not_str p bs s : unpack_packed_dec p bs <> Ok (VStr s).
Proof.
  unfold unpack_packed_dec. destruct (rev (split_nibbles bs)) as [|sh rd]; [discriminate|].
  destruct (_ && _); [discriminate|]. destruct (rev rd); discriminate.
Qed.

(* what the walk makes of the counter's value: refused when negative and the guard is there, else the natural number *)
Definition count_res (x : res Z) : res nat := match x with Ok z => count_of_int z | Err e => Err e end.

Lemma dcountp_zoned_zcount bs : dcountp_zoned bs = count_res (zcount_zoned bs).
Proof.
  unfold dcountp_zoned, zcount_zoned, count_of_pyval, zcount_of_pyval, count_res.
  assert (E : unpack 11%N (counter_pic bs) bs = unpack_zoned (counter_pic bs) bs) by reflexivity. rewrite E.
  destruct (unpack_zoned (counter_pic bs) bs) as [[d|z|s]|ex] eqn:U; try reflexivity.
  exfalso. exact (unpack_zoned_not_str _ _ _ U).
Qed.

Lemma dcountp_packed_zcount bs : dcountp_packed bs = count_res (zcount_packed bs).
Proof.
  unfold dcountp_packed, zcount_packed, count_of_pyval, zcount_of_pyval, count_res, packed_pic.
  assert (E : unpack 8%N (mkpic false (2 * length bs - 1) 0) bs = unpack_packed_dec (mkpic true (2 * length bs - 1) 0) bs) by reflexivity.
  assert (E' : unpack 8%N (mkpic true (2 * length bs - 1) 0) bs = unpack_packed_dec (mkpic true (2 * length bs - 1) 0) bs) by reflexivity.
  rewrite E, E'.
  destruct (unpack_packed_dec (mkpic true (2 * length bs - 1) 0) bs) as [[d|z|s]|ex] eqn:U; try reflexivity.
  exfalso. exact (unpack_packed_not_str _ _ _ U).
Qed.

(* ================================================================== the statements of Props/C06e.v, in their order *)
Lemma counter_pairs :
  decodes_stored dcount_zoned stores_zoned_count
  /\ decodes_stored dcount_packed stores_packed_count
  /\ forall d, decodes_stored (dcount_binary d) (stores_binary_count d).
Proof. exact (conj zoned_pair (conj packed_pair binary_pair)). Qed.

Lemma usage_spellings (u : N) (p : pic) (bs : list N) :
  (In u packed_spellings -> unpack u p bs = unpack 8%N p bs)
  /\ (In u binary_spellings -> unpack u p bs = unpack 10%N p bs).
Proof. exact (conj (packed_spelling_same u p bs) (binary_spelling_same u p bs)). Qed.

Lemma s94_comp_counter :
  calcsize 10%N (binary_pic 4) = Ok 4%N
  /\ forall bs, length bs = 4 -> zcount_binary 4 bs = Err StructError.
Proof. exact (conj (proj1 s94_comp_width) s94_comp_counter_raises). Qed.

Lemma partial_decoders (bs : list N) :
  dcountp_zoned bs = match zcount_zoned bs with Ok z => count_of_int z | Err e => Err e end
  /\ dcountp_packed bs = match zcount_packed bs with Ok z => count_of_int z | Err e => Err e end.
Proof. exact (conj (dcountp_zoned_zcount bs) (dcountp_packed_zcount bs)). Qed.

(* under the guard as the source has it now: a negative value is refused with ValueError, as the walk does *)
Lemma count_of_int_now z : count_of_int z = if (z <? 0)%Z then Err ValueError else Ok (Z.to_nat z).
Proof. reflexivity. Qed.

Definition layout_conclusion (dc : list N -> nat) (r : list N) (e : env) (t : item) : Prop :=
  exists v0, nav_of dc r (build t) = Ok v0
    /\ lstart (n_loc v0) = 0 /\ lend (n_loc v0) = extent e t
    /\ forall p v st, spec_nav e (VItem t) 0 p = inl (v, st) ->
         exists nv, nav_path dc r v0 p = Ok nv
           /\ lstart (n_loc nv) = st /\ lend (n_loc nv) = st + view_size e v
           /\ nav_raw r nv = slice r st (st + view_size e v)
           /\ (forall x, v = VItem x -> is_table x = true ->
                 forall i, count e (item_oc x) <= i -> nav_index dc r nv i = Err IndexError).

Lemma layout_packed_counter (r : list N) (e : env) (t : item) :
  wfo e [] t = true -> NoDup (ids t) -> Stored stores_packed_count (odo_counters t) r e t 0 ->
  layout_conclusion dcount_packed r e t.
Proof. exact (layout_stored dcount_packed stores_packed_count r e t packed_pair). Qed.

Lemma layout_binary_counter (d : nat) (r : list N) (e : env) (t : item) :
  wfo e [] t = true -> NoDup (ids t) -> Stored (stores_binary_count d) (odo_counters t) r e t 0 ->
  layout_conclusion (dcount_binary d) r e t.
Proof. exact (layout_stored (dcount_binary d) (stores_binary_count d) r e t (binary_pair d)). Qed.

Lemma layout_zoned_counter (r : list N) (e : env) (t : item) :
  wfo e [] t = true -> NoDup (ids t) -> Stored stores_zoned_count (odo_counters t) r e t 0 ->
  layout_conclusion dcount_zoned r e t.
Proof. exact (layout_stored dcount_zoned stores_zoned_count r e t zoned_pair). Qed.

Lemma count_above_maximum (declared_max : id -> nat) (dc : list N -> nat) (stores : list N -> nat -> Prop)
    (r : list N) (e : env) (t : item) :
  decodes_stored dc stores ->
  wfo e [] t = true -> NoDup (ids t) -> Stored stores (odo_counters t) r e t 0 ->
  above_maximum declared_max e t ->
  layout_conclusion dc r e t.
Proof. intros H Hw Hnd Hs _. exact (layout_stored dc stores r e t H Hw Hnd Hs). Qed.
