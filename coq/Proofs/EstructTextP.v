(* Lemmas for the additions to C02: the text branch of estruct.unpack for every picture the
   decoder-side scanner accepts (Model/Estruct.v, second half), the text unpacker's Decimal(str).
   Uses the scanner facts of Proofs/PictureP.v (every element the scanner produces is well formed)
   and the codec tie of Proofs/EstructP.v (the table the source names IS code page 037). *)
From Coq Require Import ZArith NArith List Bool Lia Arith ZifyBool ZifyN ZifyNat.
Import ListNotations.
Require Import SR.Proofs.PictureP.
Require Import SR.Base.Res SR.Base.Dec SR.Gen.EstructParams SR.Gen.Cp037 SR.Gen.TextCodec SR.Gen.PictureParams
  SR.Gen.ConversionParams SR.Spec.Encode SR.Model.Picture SR.Model.Estruct SR.Proofs.EstructP.
Open Scope N_scope.

(* ================= the scanner's elements are well formed ================= *)
Lemma elems_wf l : forallb wf_item l = true -> forallb wf_elt (elems l) = true.
Proof.
  induction l as [|i l IH]; [reflexivity|]. cbn [forallb]. intros H. apply andb_true_iff in H. destruct H as [Hi Hl].
  destruct i as [e|c|]; cbn [elems]; [|now apply IH|now apply IH].
  cbn [forallb]. cbn [wf_item] in Hi. rewrite Hi. now apply IH.
Qed.

Lemma dec_parse_elems s r : dec_parse s = Some (Ok r) ->
  forallb wf_elt (p_elems r) = true /\ size_loop (p_elems r) 0 = Ok (p_size r).
Proof.
  unfold dec_parse. rewrite dec_normalize_eq.
  destruct (ends_with_tok (dec_items s)); [|discriminate].
  destruct (size_loop (elems (dec_items s)) 0) as [n|e] eqn:ES; [|discriminate].
  intros H. injection H as <-. cbn [p_elems p_size]. split; [|exact ES].
  apply elems_wf. rewrite dec_items_eq. apply scan_wf.
Qed.

(* ================= one lexeme per position ================= *)
Lemma digit_toks_one c : incls c = true -> length (digit_toks c) = 1%nat.
Proof. intros H. mem_split H; reflexivity. Qed.

Lemma digit_toks_len t : forallb incls t = true -> length (flat_map digit_toks t) = length t.
Proof.
  induction t as [|c t IH]; [reflexivity|]. cbn [forallb flat_map]. intros H. apply andb_true_iff in H. destruct H as [Hc Ht].
  rewrite app_length, (digit_toks_one _ Hc), (IH Ht). reflexivity.
Qed.

Lemma pattern_length es : forallb wf_elt es = true -> forall acc n, size_loop es acc = Ok n ->
  exists ts, text_pattern es = Ok ts /\ (length ts + acc = n)%nat.
Proof.
  induction es as [|[k t] es IH]; intros Hwf acc n Hs.
  - cbn [size_loop] in Hs. injection Hs as <-. exists []. split; reflexivity.
  - cbn [forallb] in Hwf. apply andb_true_iff in Hwf. destruct Hwf as [He Hes].
    cbn [size_loop] in Hs. cbn [text_pattern]. destruct t as [|c t]; [discriminate|].
    assert (Hlen : forall m, size_loop es (acc + m) = Ok n ->
              length (elt_toks k (c :: t)) = m ->
              exists ts, match text_pattern es with Ok rest => Ok (elt_toks k (c :: t) ++ rest) | Err e => Err e end = Ok ts
                         /\ (length ts + acc = n)%nat).
    { intros m Hm Hk. destruct (IH Hes _ _ Hm) as [rest [Hr Hl]]. rewrite Hr.
      eexists. split; [reflexivity|]. rewrite app_length. lia. }
    destruct k.
    + apply (Hlen _ Hs). cbn [elt_toks]. now rewrite map_length.
    + apply (Hlen _ Hs). cbn [elt_toks]. now rewrite map_length.
    + apply (Hlen _ Hs). cbn [elt_toks]. destruct (Picture.list_N_eqb (c :: t) [46]); reflexivity.
    + apply (Hlen _ Hs). cbn [elt_toks]. cbn [wf_elt] in He. now apply digit_toks_len.
Qed.

Lemma picture_classes s r : dec_parse s = Some (Ok r) ->
  exists ts, text_pattern (p_elems r) = Ok ts /\ length ts = p_size r.
Proof.
  intros H. destruct (dec_parse_elems _ _ H) as [Hwf Hs].
  destruct (pattern_length _ Hwf _ _ Hs) as [ts [Ht Hl]]. exists ts. split; [exact Ht|lia].
Qed.

(* ================= the parser on a pattern without + ================= *)
Definition item_of (t : rtok) : re_atom * quant :=
  match t with RAtom a => (a, Q1) | ROptSign => (ASign, QOpt) | RPlus => (ASign, Q1) end.

Definition cons_ok (i : re_atom * quant) (r : res (list (re_atom * quant))) : res (list (re_atom * quant)) :=
  match r with Ok l => Ok (i :: l) | Err e => Err e end.

Lemma rc_atom_nil a : re_compile [RAtom a] = Ok [(a, Q1)].
Proof. reflexivity. Qed.
Lemma rc_atom_atom a b r : re_compile (RAtom a :: RAtom b :: r) = cons_ok (a, Q1) (re_compile (RAtom b :: r)).
Proof. reflexivity. Qed.
Lemma rc_atom_opt a r : re_compile (RAtom a :: ROptSign :: r) = cons_ok (a, Q1) (re_compile (ROptSign :: r)).
Proof. reflexivity. Qed.
Lemma rc_opt_nil : re_compile [ROptSign] = Ok [(ASign, QOpt)].
Proof. reflexivity. Qed.
Lemma rc_opt_atom b r : re_compile (ROptSign :: RAtom b :: r) = cons_ok (ASign, QOpt) (re_compile (RAtom b :: r)).
Proof. reflexivity. Qed.
Lemma rc_opt_opt r : re_compile (ROptSign :: ROptSign :: r) = cons_ok (ASign, QOpt) (re_compile (ROptSign :: r)).
Proof. reflexivity. Qed.

Lemma compile_plus_free ts : has_plus ts = false -> re_compile ts = Ok (map item_of ts).
Proof.
  unfold has_plus. induction ts as [|t ts IH]; [reflexivity|]. cbn [existsb]. intros H.
  apply orb_false_iff in H. destruct H as [Ht Hts]. specialize (IH Hts).
  destruct t as [a| |]; [| |discriminate].
  - destruct ts as [|t2 ts2]; [reflexivity|]. destruct t2 as [b| |].
    + rewrite rc_atom_atom, IH. reflexivity.
    + rewrite rc_atom_opt, IH. reflexivity.
    + cbn [existsb is_plus] in Hts. discriminate.
  - destruct ts as [|t2 ts2]; [reflexivity|]. destruct t2 as [b| |].
    + rewrite rc_opt_atom, IH. reflexivity.
    + rewrite rc_opt_opt, IH. reflexivity.
    + cbn [existsb is_plus] in Hts. discriminate.
Qed.

(* the parser's only failure is re.error *)
Lemma compile_error ts : forall e, re_compile ts = Err e -> e = StructError.
Proof.
  (* strong induction on the length: the parser looks two lexemes ahead *)
  remember (length ts) as n eqn:Hn. revert ts Hn.
  induction n as [n IHn] using lt_wf_ind. intros ts Hn e.
  assert (Hrec : forall i (r : list rtok), (length r < n)%nat -> cons_ok i (re_compile r) = Err e -> e = StructError).
  { intros i r Hl. destruct (re_compile r) as [l|e'] eqn:E; cbn [cons_ok]; [discriminate|].
    intros H. injection H as <-. exact (IHn _ Hl r eq_refl e' E). }
  destruct ts as [|t ts]; [discriminate|]. cbn [length] in Hn.
  destruct t as [a| |].
  - destruct ts as [|t2 ts2].
    + discriminate.
    + destruct t2 as [b| |].
      * rewrite rc_atom_atom. apply Hrec. subst n. cbn [length]. lia.
      * rewrite rc_atom_opt. apply Hrec. subst n. cbn [length]. lia.
      * destruct ts2 as [|t3 ts3].
        { discriminate. }
        destruct t3 as [c| |].
        { change (re_compile (RAtom a :: RPlus :: RAtom c :: ts3)) with (cons_ok (a, QPlus) (re_compile (RAtom c :: ts3))).
          apply Hrec. subst n. cbn [length]. lia. }
        { change (re_compile (RAtom a :: RPlus :: ROptSign :: ts3)) with (cons_ok (a, QPlus) (re_compile (ROptSign :: ts3))).
          apply Hrec. subst n. cbn [length]. lia. }
        { change (re_compile (RAtom a :: RPlus :: RPlus :: ts3)) with (cons_ok (a, QPlusPoss) (re_compile ts3)).
          apply Hrec. subst n. cbn [length]. lia. }
  - destruct ts as [|t2 ts2].
    + discriminate.
    + destruct t2 as [b| |].
      * rewrite rc_opt_atom. apply Hrec. subst n. cbn [length]. lia.
      * rewrite rc_opt_opt. apply Hrec. subst n. cbn [length]. lia.
      * change (re_compile (ROptSign :: RPlus :: ts2)) with (cons_ok (ASign, QOptPoss) (re_compile ts2)).
        apply Hrec. subst n. cbn [length]. lia.
  - cbn [re_compile]. intros H. injection H as <-. reflexivity.
Qed.

(* ================= the matcher on a pattern without + ================= *)
Lemma fits_length ts : forall text, fits_classes ts text = true -> length text = length ts.
Proof.
  induction ts as [|t ts IH]; intros [|c text] H; cbn [fits_classes] in H; try discriminate; [reflexivity|].
  apply andb_true_iff in H. destruct H as [_ H]. cbn [length]. now rewrite (IH _ H).
Qed.

(* characters that fit, whatever follows them, are matched *)
Lemma match_fits ts : has_plus ts = false -> forall text extra,
  fits_classes ts text = true -> re_match (map item_of ts) (text ++ extra) = true.
Proof.
  unfold has_plus. induction ts as [|t ts IH]; intros Hp text extra H.
  - reflexivity.
  - cbn [existsb] in Hp. apply orb_false_iff in Hp. destruct Hp as [Ht Hts].
    destruct text as [|c text]; [destruct t; discriminate H|]. cbn [fits_classes] in H.
    apply andb_true_iff in H. destruct H as [Hc Hr]. specialize (IH Hts _ extra Hr).
    destruct t as [a| |]; [| |discriminate].
    + cbn [map item_of app re_match]. cbn [sym_class] in Hc. now rewrite Hc, IH.
    + cbn [map item_of app re_match]. cbn [sym_class] in Hc. now rewrite Hc, IH.
Qed.

(* without S every lexeme is one plain re_atom: a match consumes exactly one fitting character per lexeme *)
Lemma match_plain ts : has_plus ts = false -> has_optsign ts = false -> forall text,
  re_match (map item_of ts) text = true ->
  exists pre rest, text = pre ++ rest /\ fits_classes ts pre = true.
Proof.
  unfold has_plus, has_optsign. induction ts as [|t ts IH]; intros Hp Ho text H.
  - exists [], text. split; reflexivity.
  - cbn [existsb] in Hp, Ho. apply orb_false_iff in Hp. apply orb_false_iff in Ho.
    destruct Hp as [Ht Hts]. destruct Ho as [Ht' Hts'].
    destruct t as [a| |]; [|discriminate|discriminate].
    cbn [map item_of re_match] in H. destruct text as [|c text]; [discriminate|].
    apply andb_true_iff in H. destruct H as [Hc Hr].
    destruct (IH Hts Hts' _ Hr) as [pre [rest [-> Hf]]].
    exists (c :: pre), rest. split; [reflexivity|]. cbn [fits_classes sym_class]. now rewrite Hc, Hf.
Qed.

Lemma match_plain_exact ts text : has_plus ts = false -> has_optsign ts = false ->
  (length text <= length ts)%nat -> re_match (map item_of ts) text = true -> fits_classes ts text = true.
Proof.
  intros Hp Ho Hl H. destruct (match_plain _ Hp Ho _ H) as [pre [rest [-> Hf]]].
  pose proof (fits_length _ _ Hf) as Hpre. rewrite app_length in Hl.
  destruct rest; [now rewrite app_nil_r|]. cbn [length] in Hl. lia.
Qed.

(* ================= unpack_any on a DISPLAY picture that is not zoned decimal ================= *)
Lemma unpack_any_text s r buffer : dec_parse s = Some (Ok r) -> p_zoned r = false ->
  unpack_any display_spelling s buffer = Some (unpack_display_text (p_elems r) buffer).
Proof. intros H Hz. unfold unpack_any. rewrite H, Hz. reflexivity. Qed.

Lemma decode_is_cp037 buffer : map text_decode buffer = map cp037 buffer.
Proof. apply map_ext. exact text_decode_cp037. Qed.

Lemma display_text_plus_free es ts buffer : text_pattern es = Ok ts -> has_plus ts = false ->
  unpack_display_text es buffer =
  if re_match (map item_of ts) (map cp037 buffer) then Ok (VStr (map cp037 buffer)) else Err ValueError.
Proof.
  intros Ht Hp. unfold unpack_display_text. cbv zeta. rewrite Ht, (compile_plus_free _ Hp), decode_is_cp037. reflexivity.
Qed.

(* the result is never another string, whatever the picture and the buffer *)
Lemma display_text_never_other es buffer :
  unpack_display_text es buffer = Ok (VStr (map cp037 buffer))
  \/ unpack_display_text es buffer = Err ValueError
  \/ unpack_display_text es buffer = Err StructError
  \/ unpack_display_text es buffer = Err DesignError.
Proof.
  unfold unpack_display_text. cbv zeta. rewrite decode_is_cp037.
  destruct (text_pattern es) as [ts|e] eqn:Et.
  - destruct (re_compile ts) as [items|e] eqn:Ec.
    + destruct (re_match items (map cp037 buffer)); [now left|now right; left].
    + right; right; left. now rewrite (compile_error _ _ Ec).
  - right; right; right. revert e Et. induction es as [|[k t] es IH]; intros e Et; [discriminate|].
    cbn [text_pattern] in Et. destruct t; [now injection Et as <-|].
    destruct (text_pattern es) as [rest|e'] eqn:E; [discriminate|]. injection Et as <-.
    f_equal. specialize (IH e' eq_refl). now injection IH.
Qed.

Lemma C02_text_any_picture_lemma : forall (s : list N) (r : parsed),
  dec_parse s = Some (Ok r) -> p_zoned r = false ->
  exists ts : list rtok,
    text_pattern (p_elems r) = Ok ts /\ length ts = p_size r /\
    (has_plus ts = false -> forall buffer : list N, length buffer = p_size r ->
       let result := unpack_any display_spelling s buffer in
       let decoded := VStr (map cp037 buffer) in
       (fits_classes ts (map cp037 buffer) = true -> result = Some (Ok decoded))
       /\ (has_optsign ts = false -> fits_classes ts (map cp037 buffer) = false -> result = Some (Err ValueError))
       /\ (result = Some (Ok decoded) \/ result = Some (Err ValueError))).
Proof.
  intros s r H Hz. destruct (picture_classes _ _ H) as [ts [Ht Hl]]. exists ts. split; [exact Ht|]. split; [exact Hl|].
  intros Hp buffer Hb. cbv zeta. rewrite (unpack_any_text _ _ _ H Hz), (display_text_plus_free _ _ _ Ht Hp).
  split; [|split].
  - intros Hf. pose proof (match_fits _ Hp _ [] Hf) as Hm. rewrite app_nil_r in Hm. now rewrite Hm.
  - intros Ho Hf. destruct (re_match (map item_of ts) (map cp037 buffer)) eqn:Hm; [|reflexivity].
    rewrite (match_plain_exact ts _ Hp Ho) in Hf; [discriminate| |exact Hm]. rewrite map_length. lia.
  - destruct (re_match (map item_of ts) (map cp037 buffer)); [now left|now right].
Qed.

Lemma C02_text_never_another_string_lemma : forall (s : list N) (r : parsed) (buffer : list N),
  dec_parse s = Some (Ok r) -> p_zoned r = false ->
  let result := unpack_any display_spelling s buffer in
  result = Some (Ok (VStr (map cp037 buffer))) \/ result = Some (Err ValueError) \/ result = Some (Err StructError).
Proof.
  intros s r buffer H Hz. cbv zeta. rewrite (unpack_any_text _ _ _ H Hz).
  destruct (picture_classes _ _ H) as [ts [Ht _]].
  destruct (display_text_never_other (p_elems r) buffer) as [E|[E|[E|E]]]; rewrite E; auto.
  exfalso. unfold unpack_display_text in E. cbv zeta in E. rewrite Ht in E.
  destruct (re_compile ts) as [items|e] eqn:Ec.
  - destruct (re_match items _); discriminate.
  - rewrite (compile_error _ _ Ec) in E. discriminate.
Qed.

(* surplus bytes are returned with the rest; a buffer that is too short is refused *)
Lemma C02_text_surplus_short_lemma : forall (s : list N) (r : parsed) (ts : list rtok),
  dec_parse s = Some (Ok r) -> p_zoned r = false -> text_pattern (p_elems r) = Ok ts -> has_plus ts = false ->
  (forall buffer extra, fits_classes ts (map cp037 buffer) = true ->
     unpack_any display_spelling s (buffer ++ extra) = Some (Ok (VStr (map cp037 (buffer ++ extra)))))
  /\ (has_optsign ts = false -> forall buffer, (length buffer < p_size r)%nat ->
     unpack_any display_spelling s buffer = Some (Err ValueError)).
Proof.
  intros s r ts H Hz Ht Hp. destruct (picture_classes _ _ H) as [ts' [Ht' Hl]].
  rewrite Ht in Ht'. injection Ht' as <-. split.
  - intros buffer extra Hf. rewrite (unpack_any_text _ _ _ H Hz), (display_text_plus_free _ _ _ Ht Hp).
    rewrite map_app, (match_fits _ Hp _ _ Hf). reflexivity.
  - intros Ho buffer Hb. rewrite (unpack_any_text _ _ _ H Hz), (display_text_plus_free _ _ _ Ht Hp).
    destruct (re_match (map item_of ts) (map cp037 buffer)) eqn:Hm; [|reflexivity].
    assert (Hle : (length (map cp037 buffer) <= length ts)%nat) by (rewrite map_length; lia).
    pose proof (match_plain_exact ts _ Hp Ho Hle Hm) as Hf. apply fits_length in Hf. rewrite map_length in Hf. lia.
Qed.

(* ================= refutations: what the faithful model does NOT satisfy ================= *)
(* PIC +99 holding +12 (4E F1 F2): the copied + has nothing to repeat *)
Lemma plus_witness :
  exists s r ts buffer, dec_parse s = Some (Ok r) /\ p_zoned r = false /\ text_pattern (p_elems r) = Ok ts
    /\ length buffer = p_size r /\ fits_classes ts (map cp037 buffer) = true
    /\ unpack_any display_spelling s buffer = Some (Err StructError).
Proof.
  exists [43; 57; 57].
  destruct (dec_parse [43; 57; 57]) as [[r|e]|] eqn:E; [|vm_compute in E; discriminate|vm_compute in E; discriminate].
  exists r. destruct (text_pattern (p_elems r)) as [ts|e] eqn:Et.
  - exists ts, [78; 241; 242]. vm_compute in E. injection E as <-. vm_compute in Et. injection Et as <-.
    vm_compute. repeat split; reflexivity.
  - vm_compute in E. injection E as <-. vm_compute in Et. discriminate.
Qed.

(* PIC 9+9 holding 1+2: characters that fit are refused (the + made the first digit repeatable) *)
Lemma plus_inner_witness :
  exists s r ts buffer, dec_parse s = Some (Ok r) /\ p_zoned r = false /\ text_pattern (p_elems r) = Ok ts
    /\ length buffer = p_size r /\ fits_classes ts (map cp037 buffer) = true
    /\ unpack_any display_spelling s buffer = Some (Err ValueError).
Proof.
  exists [57; 43; 57].
  destruct (dec_parse [57; 43; 57]) as [[r|e]|] eqn:E; [|vm_compute in E; discriminate|vm_compute in E; discriminate].
  exists r. destruct (text_pattern (p_elems r)) as [ts|e] eqn:Et.
  - exists ts, [241; 78; 242]. vm_compute in E. injection E as <-. vm_compute in Et. injection Et as <-.
    vm_compute. repeat split; reflexivity.
  - vm_compute in E. injection E as <-. vm_compute in Et. discriminate.
Qed.

(* PIC S99.99 holding 12.345: the optional sign lets a text through whose characters do not fit position by position *)
Lemma optsign_witness :
  exists s r ts buffer, dec_parse s = Some (Ok r) /\ p_zoned r = false /\ text_pattern (p_elems r) = Ok ts
    /\ has_plus ts = false /\ length buffer = p_size r /\ fits_classes ts (map cp037 buffer) = false
    /\ unpack_any display_spelling s buffer = Some (Ok (VStr (map cp037 buffer))).
Proof.
  exists [83; 57; 57; 46; 57; 57].
  destruct (dec_parse [83; 57; 57; 46; 57; 57]) as [[r|e]|] eqn:E; [|vm_compute in E; discriminate|vm_compute in E; discriminate].
  exists r. destruct (text_pattern (p_elems r)) as [ts|e] eqn:Et.
  - exists ts, [241; 242; 75; 243; 244; 245]. vm_compute in E. injection E as <-. vm_compute in Et. injection Et as <-.
    vm_compute. repeat split; reflexivity.
  - vm_compute in E. injection E as <-. vm_compute in Et. discriminate.
Qed.

(* ================= Decimal(str) on the decimal text of a value ================= *)
Definition plain (c : N) : bool := ((48 <=? c) && (c <=? 57)) || (c =? 46) || (c =? 43) || (c =? 45).

Lemma plain_facts c : plain c = true ->
  re_space c = false /\ (c =? 95) = false /\ ((0 <? c) && (c <=? 127)) = true.
Proof.
  unfold plain. intros H.
  assert (Hr : 43 <= c <= 57) by lia.
  unfold re_space, cp_in_ranges. cbn [existsb fst snd]. repeat split; lia.
Qed.

Lemma lstrip_blanks n x : forallb plain x = true -> py_lstrip (repeat 32 n ++ x) = x.
Proof.
  intros Hx. induction n as [|n IH]; cbn [repeat app].
  - destruct x as [|c t]; [reflexivity|]. cbn [forallb] in Hx. apply andb_true_iff in Hx. destruct Hx as [Hc _].
    cbn [py_lstrip]. destruct (plain_facts _ Hc) as [-> _]. reflexivity.
  - cbn [py_lstrip]. change (re_space 32) with true. cbv iota. exact IH.
Qed.

Lemma rev_repeat {A} (x : A) n : rev (repeat x n) = repeat x n.
Proof.
  induction n as [|n IH]; [reflexivity|]. cbn [repeat rev]. rewrite IH.
  clear IH. induction n as [|n IH]; [reflexivity|]. cbn [repeat app]. now rewrite IH.
Qed.

Lemma forallb_rev {A} (p : A -> bool) l : forallb p l = true -> forallb p (rev l) = true.
Proof.
  intros H. apply forallb_forall. intros x Hx. apply in_rev in Hx. rewrite forallb_forall in H. now apply H.
Qed.

Lemma strip_padded lp rp core : forallb plain core = true -> py_strip (repeat 32 lp ++ core ++ repeat 32 rp) = core.
Proof.
  intros Hc. unfold py_strip.
  destruct core as [|c t].
  - cbn [app]. rewrite <- repeat_app. rewrite <- (app_nil_r (repeat 32 (lp + rp))).
    rewrite (lstrip_blanks _ [] eq_refl). reflexivity.
  - cbn [forallb] in Hc. pose proof Hc as Hc'. apply andb_true_iff in Hc'. destruct Hc' as [Hhd _].
    destruct (plain_facts _ Hhd) as [Hsp _].
    assert (H1 : py_lstrip (repeat 32 lp ++ (c :: t) ++ repeat 32 rp) = (c :: t) ++ repeat 32 rp).
    { induction lp as [|lp IH]; cbn [repeat app].
      - cbn [py_lstrip]. now rewrite Hsp.
      - cbn [py_lstrip]. change (re_space 32) with true. cbv iota. exact IH. }
    rewrite H1.
    rewrite rev_app_distr, rev_repeat.
    change (forallb plain (c :: t) = true) in Hc.
    rewrite (lstrip_blanks _ _ (forallb_rev _ _ Hc)). apply rev_involutive.
Qed.

Lemma dec_ascii_plain s : forallb plain s = true -> dec_ascii s = Some s.
Proof.
  induction s as [|c t IH]; [reflexivity|]. cbn [forallb]. intros H. apply andb_true_iff in H. destruct H as [Hc Ht].
  cbn [dec_ascii]. destruct (plain_facts _ Hc) as [_ [-> ->]]. now rewrite (IH Ht).
Qed.

Lemma digit_chars_digits ds : forallb (fun d => d <? 10) ds = true -> forallb ascii_digit (digit_chars ds) = true.
Proof.
  unfold digit_chars. induction ds as [|d t IH]; [reflexivity|]. cbn [forallb map]. intros H. apply andb_true_iff in H. destruct H as [Hd Ht].
  rewrite (IH Ht). unfold ascii_digit. lia.
Qed.

Lemma digit_chars_plain ds : forallb (fun d => d <? 10) ds = true -> forallb plain (digit_chars ds) = true.
Proof.
  unfold digit_chars. induction ds as [|d t IH]; [reflexivity|]. cbn [forallb map]. intros H. apply andb_true_iff in H. destruct H as [Hd Ht].
  rewrite (IH Ht). unfold plain. lia.
Qed.

Lemma digit_values_chars ds : digit_values (digit_chars ds) = ds.
Proof.
  unfold digit_values, digit_chars. rewrite map_map. rewrite <- (map_id ds) at 2. apply map_ext. intros d. lia.
Qed.

Lemma span_ascii_digits a b : forallb ascii_digit a = true ->
  match b with [] => true | c :: _ => negb (ascii_digit c) end = true ->
  span ascii_digit (a ++ b) = (a, b).
Proof.
  intros Ha Hb. induction a as [|c t IH]; cbn [app].
  - destruct b as [|c t]; [reflexivity|]. cbn [span]. apply negb_true_iff in Hb. now rewrite Hb.
  - cbn [forallb] in Ha. apply andb_true_iff in Ha. destruct Ha as [Hc Ht]. cbn [span]. rewrite Hc, (IH Ht). reflexivity.
Qed.

Definition point_part (fds : list N) (point : bool) : list N := if point then 46 :: digit_chars fds else [].
Definition body_text (ids fds : list N) (point : bool) : list N := digit_chars ids ++ point_part fds point.

Lemma numeric_value_body negative ids fds point : decimal_text_ok ids fds point = true ->
  numeric_value negative (body_text ids fds point)
  = Some (Ok (VDec (mkdec negative (val (ids ++ fds)) (- Z.of_nat (length fds))))).
Proof.
  unfold decimal_text_ok. intros H. repeat (apply andb_true_iff in H; destruct H as [H ?]).
  rename H into Hi, H0 into Hp, H1 into Hn, H2 into Hf.
  unfold numeric_value, body_text.
  rewrite (span_ascii_digits (digit_chars ids) (point_part fds point) (digit_chars_digits _ Hi)).
  2:{ unfold point_part. destruct point; reflexivity. }
  assert (Hfp : (let (fp, r2) := match point_part fds point with
                               | c :: t => if c =? 46 then span ascii_digit t else ([], point_part fds point)
                               | [] => ([], point_part fds point)
                               end in (fp, r2)) = (digit_chars fds, [])).
  { unfold point_part. destruct point.
    - change (46 =? 46) with true. cbv iota.
      pose proof (span_ascii_digits (digit_chars fds) [] (digit_chars_digits _ Hf) eq_refl) as Hs. rewrite app_nil_r in Hs.
      now rewrite Hs.
    - cbn [orb] in Hp. apply Nat.eqb_eq in Hp. destruct fds; [reflexivity|discriminate]. }
  destruct (match point_part fds point with
            | c :: t => if c =? 46 then span ascii_digit t else ([], point_part fds point)
            | [] => ([], point_part fds point)
            end) as [fp r2]. injection Hfp as -> ->.
  destruct (digit_chars ids ++ digit_chars fds) as [|c t] eqn:E.
  - apply (f_equal (@length N)) in E. rewrite app_length in E. unfold digit_chars in E. rewrite !map_length in E.
    cbn [length] in E. apply negb_true_iff, Nat.eqb_neq in Hn. lia.
  - rewrite <- E. unfold digit_chars at 1 2. rewrite <- map_app. fold (digit_chars (ids ++ fds)).
    rewrite digit_values_chars. unfold digit_chars. rewrite map_length. reflexivity.
Qed.

Lemma body_plain ids fds point : decimal_text_ok ids fds point = true -> forallb plain (body_text ids fds point) = true.
Proof.
  unfold decimal_text_ok. intros H. repeat (apply andb_true_iff in H; destruct H as [H ?]).
  unfold body_text, point_part. rewrite forallb_app, (digit_chars_plain _ H). destruct point; [|reflexivity].
  cbn [forallb]. now rewrite (digit_chars_plain _ H2).
Qed.

(* the first character of the body is a digit or the full stop *)
Lemma body_head ids fds point : decimal_text_ok ids fds point = true ->
  exists c t, body_text ids fds point = c :: t /\ (((48 <=? c) && (c <=? 57)) || (c =? 46)) = true.
Proof.
  intros H. pose proof H as H'. unfold decimal_text_ok in H'. repeat (apply andb_true_iff in H'; destruct H' as [H' ?]).
  unfold body_text, point_part. destruct ids as [|d ids].
  - destruct point.
    + exists 46, (digit_chars fds). split; reflexivity.
    + cbn [orb] in H0. apply Nat.eqb_eq in H0. destruct fds; [|discriminate]. cbn in H1. discriminate.
  - exists (48 + d), (digit_chars ids ++ (if point then 46 :: digit_chars fds else [])). split; [reflexivity|].
    cbn [forallb] in H'. lia.
Qed.

Lemma decimal_text_shape sgn ids fds point lp rp :
  decimal_text sgn ids fds point lp rp = repeat 32 lp ++ (sign_text sgn ++ body_text ids fds point) ++ repeat 32 rp.
Proof. unfold decimal_text, body_text, point_part. now rewrite <- !app_assoc. Qed.

Lemma decimal_of_decimal_text (sgn : N) ids fds point lp rp : decimal_text_ok ids fds point = true -> (sgn < 3)%N ->
  decimal_of_text (decimal_text sgn ids fds point lp rp) = Some (Ok (VDec (decimal_text_value sgn ids fds))).
Proof.
  intros Hok Hs. unfold decimal_of_text. rewrite decimal_text_shape.
  assert (Hcore : forallb plain (sign_text sgn ++ body_text ids fds point) = true).
  { rewrite forallb_app, (body_plain _ _ _ Hok). unfold sign_text.
    destruct (sgn =? 1); [reflexivity|]. destruct (sgn =? 2); reflexivity. }
  rewrite (strip_padded _ _ _ Hcore), (dec_ascii_plain _ Hcore).
  destruct (body_head _ _ _ Hok) as [c [t [Hb Hc]]].
  assert (Hspecial : is_special (body_text ids fds point) = false).
  { rewrite Hb. unfold is_special. cbn [starts_ci]. unfold lower_ascii.
    assert (H65 : ((65 <=? c) && (c <=? 90)) = false) by lia. rewrite H65.
    assert (H1 : (c =? 110) = false) by lia. assert (H2 : (c =? 115) = false) by lia. assert (H3 : (c =? 105) = false) by lia.
    rewrite H1, H2, H3. reflexivity. }
  unfold decimal_text_value. unfold sign_text.
  destruct (sgn =? 1) eqn:E1.
  - cbn [app]. change (43 =? 43) with true. cbv iota. rewrite Hspecial.
    assert (E2 : (sgn =? 2) = false) by lia. rewrite E2. apply numeric_value_body. exact Hok.
  - destruct (sgn =? 2) eqn:E2.
    + cbn [app]. change (45 =? 43) with false. change (45 =? 45) with true. cbv iota. rewrite Hspecial.
      apply numeric_value_body. exact Hok.
    + cbn [app]. rewrite Hb. assert (H43 : (c =? 43) = false) by lia. assert (H45 : (c =? 45) = false) by lia.
      rewrite H43, H45, <- Hb, Hspecial. apply numeric_value_body. exact Hok.
Qed.

Lemma slice_field (pad field tail : list N) : py_slice (length pad) (length field) (pad ++ field ++ tail) = field.
Proof.
  unfold py_slice. rewrite skipn_app, skipn_all, Nat.sub_diag. cbn [skipn app].
  rewrite firstn_app, firstn_all, Nat.sub_diag. cbn [firstn]. apply app_nil_r.
Qed.

(* the CONVERSION table read from the source maps "decimal" to Decimal and "string" to str *)
Lemma conversion_decimal : conversion_entry 6 = Some 6%Z /\ conversion_entry 5 = Some 5%Z.
Proof. split; reflexivity. Qed.

Lemma C02_textunpacker_numeric_lemma : forall (sgn : N) (ids fds : list N) (point : bool) (lp rp : nat) (pad tail : list N),
  decimal_text_ok ids fds point = true -> (sgn < 3)%N ->
  let field := decimal_text sgn ids fds point lp rp in
  text_unpacker_value 6 (py_slice (length pad) (length field) (pad ++ field ++ tail))
  = Some (Ok (VDec (decimal_text_value sgn ids fds))).
Proof.
  intros sgn ids fds point lp rp pad tail Hok Hs. cbv zeta. rewrite slice_field.
  unfold text_unpacker_value. destruct conversion_decimal as [-> _]. unfold convert_text.
  change ((6 =? 0)%Z || (6 =? 5)%Z) with false. change (6 =? 6)%Z with true. cbv iota.
  now apply decimal_of_decimal_text.
Qed.

Lemma C02_textunpacker_string_lemma : forall (pad field tail : list N),
  text_unpacker_value 5 (py_slice (length pad) (length field) (pad ++ field ++ tail)) = Some (Ok (VStr field)).
Proof. intros. rewrite slice_field. reflexivity. Qed.

(* the full statements (kept visible in Props/C02.v) are false of the faithful model *)
Lemma C02_text_plus_refuted_lemma :
  ~ (forall (s : list N) (r : parsed) (ts : list rtok) (buffer : list N),
       dec_parse s = Some (Ok r) -> p_zoned r = false -> text_pattern (p_elems r) = Ok ts ->
       length buffer = p_size r -> fits_classes ts (map cp037 buffer) = true ->
       unpack_any display_spelling s buffer = Some (Ok (VStr (map cp037 buffer)))).
Proof.
  intros F. destruct plus_witness as [s [r [ts [buffer [H1 [H2 [H3 [H4 [H5 H6]]]]]]]]].
  rewrite (F s r ts buffer H1 H2 H3 H4 H5) in H6. discriminate.
Qed.

Lemma C02_text_optsign_refuted_lemma :
  ~ (forall (s : list N) (r : parsed) (ts : list rtok) (buffer : list N),
       dec_parse s = Some (Ok r) -> p_zoned r = false -> text_pattern (p_elems r) = Ok ts -> has_plus ts = false ->
       length buffer = p_size r -> fits_classes ts (map cp037 buffer) = false ->
       unpack_any display_spelling s buffer = Some (Err ValueError)).
Proof.
  intros F. destruct optsign_witness as [s [r [ts [buffer [H1 [H2 [H3 [H4 [H5 [H6 H7]]]]]]]]]].
  rewrite (F s r ts buffer H1 H2 H3 H4 H5 H6) in H7. discriminate.
Qed.
