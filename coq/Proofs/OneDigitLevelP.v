(* Property C07, known finding 6, on the text-layer model (Model/RefFormat.v): the sentence pattern
   of dde_sentences starts an entry at two adjacent digits only.  A level number written with one
   digit (COBOL allows 1 .. 9 for 01 .. 09) is therefore not the start of an entry: the entry is
   passed over, and two adjacent digits met later (a two-digit level, the 10 of X(10)) start the
   next sentence.

   no_pair_no_sentence   a text without two adjacent digits yields no sentence at all;
   refuted_6             the witness copybook, evaluated: of three entries one comes back. *)
From Coq Require Import NArith List Bool Lia Arith.
Import ListNotations.
Require Import SR.Base.Res SR.Model.RefFormat SR.Proofs.RefFormatP SR.Proofs.SentenceValueP.
(* The definitions of this development that occur in theorem statements (Props/) live in Spec/OneDigitLevelWitness.v (audit item G1).
   The abbreviations keep the qualified names OneDigitLevelP.name of other files resolving; they are parsing-only aliases. *)
Require Export SR.Spec.OneDigitLevelWitness.
Notation digit_pair := SR.Spec.OneDigitLevelWitness.digit_pair (only parsing).
Notation w6_line1 := SR.Spec.OneDigitLevelWitness.w6_line1 (only parsing).
Notation w6_line2 := SR.Spec.OneDigitLevelWitness.w6_line2 (only parsing).
Notation w6_line3 := SR.Spec.OneDigitLevelWitness.w6_line3 (only parsing).
Notation witness6 := SR.Spec.OneDigitLevelWitness.witness6 (only parsing).
Notation w6_line1' := SR.Spec.OneDigitLevelWitness.w6_line1' (only parsing).
Notation w6_line2' := SR.Spec.OneDigitLevelWitness.w6_line2' (only parsing).
Open Scope N_scope.

Lemma digit_pair_tail : forall c t, digit_pair (c :: t) = false -> digit_pair t = false.
Proof.
  intros c [|d t] H; [reflexivity|]. cbn [digit_pair] in H. apply orb_false_iff in H. exact (proj2 H).
Qed.

Lemma digit_pair_lstrip : forall s, digit_pair s = false -> digit_pair (lstrip s) = false.
Proof.
  induction s as [|c t IH]; intro H; [reflexivity|]. cbn [lstrip].
  destruct (is_ws c); [apply IH; exact (digit_pair_tail c t H) | exact H].
Qed.

Lemma try_match_no_pair : forall s, digit_pair s = false -> try_match s = None.
Proof.
  intros s H. rewrite try_match_eq. pose proof (digit_pair_lstrip s H) as H1.
  destruct (lstrip s) as [|d1 [|d2 r]]; try reflexivity.
  cbn [digit_pair] in H1. apply orb_false_iff in H1. rewrite (proj1 H1). reflexivity.
Qed.

Lemma scan_no_pair : forall s, digit_pair s = false -> scan 0 s = [].
Proof.
  induction s as [|c t IH]; intro H; [reflexivity|].
  cbn [scan]. rewrite (try_match_no_pair _ H). apply IH. exact (digit_pair_tail c t H).
Qed.

Lemma no_pair_no_sentence : forall lines, digit_pair (concat lines) = false -> dde_sentences lines = [].
Proof. intros lines H. unfold dde_sentences. apply scan_no_pair. exact H. Qed.

Lemma refuted_6 :
  entry_texts witness6 = Ok [([49; 48], [66; 32; 80; 73; 67; 32; 88])]
  /\ entry_texts [w6_line1'; w6_line2'; w6_line3]
     = Ok [([48; 49], [82]); ([48; 53], [65; 32; 80; 73; 67; 32; 88]); ([49; 48], [66; 32; 80; 73; 67; 32; 88])]
  /\ dde_sentences [skipn 7 w6_line1; skipn 7 w6_line2] = [].
Proof. repeat split; vm_compute; reflexivity. Qed.

(* non-vacuity of no_pair_no_sentence: the first two witness lines hold no two adjacent digits *)
Example no_pair_example : digit_pair (concat [skipn 7 w6_line1; skipn 7 w6_line2]) = false.
Proof. reflexivity. Qed.
