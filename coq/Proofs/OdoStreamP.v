(* Lemmas for C06.
   Part 1: the schema walk on a record of the flat family is a closed form of the count vector (flat_nav).
   Part 2: the closed form sits at the specification's offsets (kid_start / extent / count).
   Part 3: frame lemma and the row loop over RECFM_N / V / VB images. *)
From Coq Require Import ZArith NArith List Bool Lia Arith ZifyBool ZifyN ZifyNat.
Import ListNotations.
Require Import SR.Base.Res SR.Gen.RecfmParams SR.Spec.Recfm SR.Model.Recfm SR.Proofs.RecfmP.
Require Import SR.Spec.Layout SR.Model.Layout SR.Spec.OdoStream SR.Model.OdoStream.
(* the unfolding equations of the walk under the rules read from the source (Gen/LayoutParams.v) are proved once, in
   Proofs/LayoutP.v; required without Import: this file has its own names *)
Require SR.Proofs.LayoutP.
Open Scope nat_scope.

Notation lwalk := SR.Model.Layout.walk.

(* ------------------------------------------------------------------ booleans *)

Lemma mem_In c l : mem c l = true <-> In c l.
Proof.
  unfold mem. rewrite existsb_exists. split.
  - intros (x & Hin & Hx). apply N.eqb_eq in Hx. subst. exact Hin.
  - intros Hin. exists c. split; [exact Hin|apply N.eqb_refl].
Qed.

Lemma mem_false c l : mem c l = false <-> ~ In c l.
Proof.
  split.
  - intros H Hin. apply mem_In in Hin. congruence.
  - intros H. destruct (mem c l) eqn:E; [|reflexivity]. apply mem_In in E. contradiction.
Qed.

Lemma nodupb_NoDup l : nodupb l = true -> NoDup l.
Proof.
  induction l as [|x l IH]; intros H; [constructor|].
  cbn [nodupb] in H. apply andb_prop in H as [H1 H2]. constructor.
  - apply mem_false. destruct (mem x l); [discriminate|reflexivity].
  - apply IH. exact H2.
Qed.

Lemma key_eqb_name a b : key_eqb (KName a) (KName b) = N.eqb a b.
Proof. reflexivity. Qed.

(* ------------------------------------------------------------------ unfolding *)

Section Walk.
Context {B : Type}.
Variable dcount : list B -> nat.
Variable r : list B.

Lemma walk_atom a sz st an :
  lwalk dcount r (JAtom a sz) st an = Ok (LAtom st sz, reg a (LAtom st sz) an).
Proof. apply SR.Proofs.LayoutP.walk_atom. Qed.

Lemma walk_arr a n its st an :
  lwalk dcount r (JArr a n its) st an =
  match lwalk dcount r its st an with
  | Err e => Err e
  | Ok (sub, an1) => Ok (LArr st (lsize sub * n) (lsize sub) n sub its, reg a (LArr st (lsize sub * n) (lsize sub) n sub its) an1)
  end.
Proof. apply SR.Proofs.LayoutP.walk_arr. Qed.

Lemma walk_odo a c its st an :
  lwalk dcount r (JOdo a c its) st an =
  match lookup (KName c) an with
  | None => Err KeyError
  | Some (LAtom cst csz) =>
      match lwalk dcount r its st an with
      | Err e => Err e
      | Ok (sub, an1) =>
          Ok (LArr st (lsize sub * dcount (slice r cst (cst + csz))) (lsize sub) (dcount (slice r cst (cst + csz))) sub its,
              reg a (LArr st (lsize sub * dcount (slice r cst (cst + csz))) (lsize sub) (dcount (slice r cst (cst + csz))) sub its) an1)
      end
  | Some _ => Err TypeError
  end.
Proof. apply SR.Proofs.LayoutP.walk_odo. Qed.

Lemma walk_obj a ps st an :
  lwalk dcount r (JObj a ps) st an =
  match walk_props dcount r ps st an with
  | Err e => Err e
  | Ok (pls, off, an1) => Ok (LObj st (off - st) pls, reg a (LObj st (off - st) pls) an1)
  end.
Proof. apply SR.Proofs.LayoutP.walk_obj. Qed.

Lemma walk_props_nil off an : walk_props dcount r PNil off an = Ok (LPNil, off, an).
Proof. apply SR.Proofs.LayoutP.walk_props_nil. Qed.

Lemma walk_props_cons k p rest off an :
  walk_props dcount r (PCons k p rest) off an =
  match lwalk dcount r p off an with
  | Err e => Err e
  | Ok (pl, an1) =>
      match walk_props dcount r rest (off + lsize pl) (reg (js_anchor p) pl an1) with
      | Err e => Err e
      | Ok (rl, off', an2) => Ok (LPCons k pl rl, off', an2)
      end
  end.
Proof. apply SR.Proofs.LayoutP.walk_props_cons. Qed.

Lemma kid_alts_cons tg x xs : kid_alts tg (ICons x xs) = (item_id x, union_of tg x, build_alt x) :: kid_alts tg xs.
Proof. reflexivity. Qed.

Lemma plain_cons i u s bs : plain ((i, u, s) :: bs) = PCons (KName i) s (plain bs).
Proof. reflexivity. Qed.

(* ------------------------------------------------------------------ closed forms *)

Definition atom_sz (x : item) : nat := match x with Elem _ sz _ _ => sz | Group _ _ _ _ => 0 end.

Fixpoint psize (ks : items) : nat :=
  match ks with INil => 0 | ICons x xs => atom_sz x + psize xs end.

Fixpoint pprops (ks : items) (off : nat) : lprops :=
  match ks with
  | INil => LPNil
  | ICons x xs => LPCons (KName (item_id x)) (LAtom off (atom_sz x)) (pprops xs (off + atom_sz x))
  end.

Definition reg2 (i : id) (l : loc) (an : anchors) : anchors := (KName i, l) :: (KName i, l) :: an.

Fixpoint panch (ks : items) (off : nat) (an : anchors) : anchors :=
  match ks with
  | INil => an
  | ICons x xs => panch xs (off + atom_sz x) (reg2 (item_id x) (LAtom off (atom_sz x)) an)
  end.

(* the items schema of a table, one occurrence of it placed at st, its length, the anchors the walk leaves *)
Definition items_js (x : item) : js :=
  match x with
  | Elem i sz _ _ => elem_items i sz
  | Group _ _ _ gks => JObj None (plain (kid_alts [] gks))
  end.
Definition occ_sz (x : item) : nat :=
  match x with Elem _ sz _ _ => sz | Group _ _ _ gks => psize gks end.
Definition occ_loc (x : item) (st : nat) : loc :=
  match x with
  | Elem i sz _ _ => LObj st sz (LPCons (KName i) (LAtom st sz) LPNil)
  | Group _ _ _ gks => LObj st (psize gks) (pprops gks st)
  end.
Definition occ_anch (x : item) (st : nat) (an : anchors) : anchors :=
  match x with
  | Elem i sz _ _ => reg2 i (LAtom st sz) an
  | Group _ _ _ gks => panch gks st an
  end.

Variable e : env.

(* location of one child placed at o, and the anchors after it *)
Definition floc (x : item) (o : nat) : loc :=
  if plain_elem x then LAtom o (atom_sz x)
  else LArr o (occ_sz x * count e (item_oc x)) (occ_sz x) (count e (item_oc x)) (occ_loc x o) (items_js x).

Definition fsz (x : item) : nat :=
  if plain_elem x then atom_sz x else occ_sz x * count e (item_oc x).

Definition fanch1 (x : item) (o : nat) (an : anchors) : anchors :=
  if plain_elem x then reg2 (item_id x) (floc x o) an
  else match x with
       | Elem _ _ _ _ => occ_anch x o an
       | Group g _ _ _ => reg2 g (floc x o) (occ_anch x o an)
       end.

Fixpoint fprops (ks : items) (off : nat) : lprops :=
  match ks with
  | INil => LPNil
  | ICons x xs => LPCons (KName (item_id x)) (floc x off) (fprops xs (off + fsz x))
  end.

Fixpoint fanch (ks : items) (off : nat) (an : anchors) : anchors :=
  match ks with
  | INil => an
  | ICons x xs => fanch xs (off + fsz x) (fanch1 x off an)
  end.

Fixpoint fsize (ks : items) : nat :=
  match ks with INil => 0 | ICons x xs => fsz x + fsize xs end.

Lemma lsize_floc x o : lsize (floc x o) = fsz x.
Proof. unfold floc, fsz. destruct (plain_elem x); reflexivity. Qed.

(* ------------------------------------------------------------------ walking plain children *)

Lemma plain_elem_inv x : plain_elem x = true -> exists i sz, x = Elem i sz Once None.
Proof.
  destruct x as [i sz oc rd|i oc rd ks]; cbn; [|discriminate].
  destruct oc; try discriminate. destruct rd; try discriminate. intros _. eauto.
Qed.

Lemma walk_plain : forall ks off an, all_plain ks = true ->
  walk_props dcount r (plain (kid_alts [] ks)) off an = Ok (pprops ks off, off + psize ks, panch ks off an).
Proof.
  induction ks as [|x xs IH]; intros off an H.
  - cbn [kid_alts plain pprops psize panch]. rewrite walk_props_nil. f_equal. f_equal. f_equal. lia.
  - cbn [all_plain] in H. apply andb_prop in H as [Hx Hxs].
    destruct (plain_elem_inv x Hx) as (i & sz & ->).
    rewrite kid_alts_cons, plain_cons. cbn [build_alt item_id].
    rewrite walk_props_cons, walk_atom. cbn [lsize js_anchor reg].
    rewrite IH by exact Hxs. cbn [pprops psize panch atom_sz item_id]. unfold reg2.
    f_equal. f_equal. f_equal. lia.
Qed.

(* a table's items schema, walked anywhere with any anchors *)
Definition table_shape (x : item) : bool :=
  match x with Elem _ _ _ _ => true | Group _ _ _ gks => all_plain gks end.

Lemma walk_items x st an : table_shape x = true ->
  lwalk dcount r (items_js x) st an = Ok (occ_loc x st, occ_anch x st an).
Proof.
  destruct x as [i sz oc rd|g oc rd gks]; cbn [table_shape items_js occ_loc occ_anch]; intros H.
  - unfold elem_items. rewrite walk_obj, walk_props_cons, walk_atom. cbn [lsize js_anchor reg].
    rewrite walk_props_nil. cbn [reg]. unfold reg2.
    replace (st + sz - st) with sz by lia. reflexivity.
  - rewrite walk_obj, walk_plain by exact H. cbn [reg].
    replace (st + psize gks - st) with (psize gks) by lia. reflexivity.
Qed.

Lemma lsize_occ_loc x st : lsize (occ_loc x st) = occ_sz x.
Proof. destruct x; reflexivity. Qed.

(* ------------------------------------------------------------------ anchors: what a lookup of an earlier name sees *)

Lemma lookup_reg2 c i l an : c <> i -> lookup (KName c) (reg2 i l an) = lookup (KName c) an.
Proof.
  intros H. unfold reg2. cbn [lookup]. rewrite key_eqb_name.
  destruct (N.eqb c i) eqn:E; [apply N.eqb_eq in E; contradiction|reflexivity].
Qed.

Lemma lookup_reg2_same c l an : lookup (KName c) (reg2 c l an) = Some l.
Proof. unfold reg2. cbn [lookup]. rewrite key_eqb_name, N.eqb_refl. reflexivity. Qed.

Lemma lookup_panch c : forall ks off an, ~ In c (kid_ids ks) ->
  lookup (KName c) (panch ks off an) = lookup (KName c) an.
Proof.
  induction ks as [|x xs IH]; intros off an H; [reflexivity|].
  cbn [kid_ids] in H. cbn [panch]. rewrite IH by (intros Hin; apply H; right; exact Hin).
  apply lookup_reg2. intros ->. apply H. left. reflexivity.
Qed.

Lemma lookup_fanch1 c x o an : ~ In c (own_ids x) ->
  lookup (KName c) (fanch1 x o an) = lookup (KName c) an.
Proof.
  intros H. unfold fanch1. destruct (plain_elem x) eqn:Ep.
  - apply lookup_reg2. intros ->. apply H. destruct x; left; reflexivity.
  - destruct x as [i sz oc rd|g oc rd gks]; cbn [own_ids] in H.
    + cbn [occ_anch]. apply lookup_reg2. intros ->. apply H. left. reflexivity.
    + rewrite lookup_reg2 by (intros ->; apply H; left; reflexivity).
      cbn [occ_anch]. apply lookup_panch. intros Hin. apply H. right. exact Hin.
Qed.

(* ------------------------------------------------------------------ the record carries the counters (running form) *)

Variable P : id -> Prop.      (* the names that are counters of some table of the record *)

Fixpoint holds (ks : items) (off : nat) : Prop :=
  match ks with
  | INil => True
  | ICons x xs =>
      (match x with
       | Elem c sz Once None => P c -> dcount (slice r off (off + sz)) = e c
       | _ => True
       end) /\ holds xs (off + fsz x)
  end.

(* every earlier fixed elementary item is registered at its place, and that place holds e(name) when it is a counter *)
Definition an_ok (earlier : list id) (an : anchors) : Prop :=
  forall c, In c earlier ->
    exists o sz, lookup (KName c) an = Some (LAtom o sz) /\ (P c -> dcount (slice r o (o + sz)) = e c).

Lemma oc_ok_count earlier an oc : oc_ok earlier oc = true -> an_ok earlier an ->
  (match oc with Odo c => P c | _ => True end) ->
  forall a its st sub an1, lwalk dcount r its st an = Ok (sub, an1) ->
  lwalk dcount r (match oc with Odo c => JOdo a c its | Times n => JArr a n its | Once => its end) st an
  = Ok (LArr st (lsize sub * count e oc) (lsize sub) (count e oc) sub its,
        reg a (LArr st (lsize sub * count e oc) (lsize sub) (count e oc) sub its) an1).
Proof.
  intros Hoc Han HP a its st sub an1 Hw. destruct oc as [|n|c]; cbn [oc_ok] in Hoc; [discriminate| |].
  - rewrite walk_arr, Hw. reflexivity.
  - apply mem_In in Hoc. destruct (Han c Hoc) as (o & sz & Hl & Hd).
    rewrite walk_odo, Hl, Hw. rewrite (Hd HP). reflexivity.
Qed.

Lemma build_table_elem i sz oc : oc <> Once ->
  build_alt (Elem i sz oc None) =
  match oc with Odo c => JOdo None c (elem_items i sz) | Times n => JArr None n (elem_items i sz) | Once => elem_items i sz end.
Proof. destruct oc; [congruence|reflexivity|reflexivity]. Qed.

Lemma build_table_group g oc gks : oc <> Once ->
  build_alt (Group g oc None gks) =
  match oc with
  | Odo c => JOdo (Some (KName g)) c (JObj None (plain (kid_alts [] gks)))
  | Times n => JArr (Some (KName g)) n (JObj None (plain (kid_alts [] gks)))
  | Once => JObj None (plain (kid_alts [] gks))
  end.
Proof. destruct oc; [congruence|reflexivity|reflexivity]. Qed.

(* one child *)
Lemma walk_flat_kid earlier x off an :
  flat_kid earlier x = true -> an_ok earlier an ->
  (match item_oc x with Odo c => P c | _ => True end) ->
  lwalk dcount r (build_alt x) off an = Ok (floc x off, match x with
                                                         | Elem _ _ Once _ => reg (Some (KName (item_id x))) (floc x off) an
                                                         | Elem _ _ _ _ => occ_anch x off an
                                                         | Group g _ _ _ => reg (Some (KName g)) (floc x off) (occ_anch x off an)
                                                         end).
Proof.
  intros Hf Han HP. destruct x as [i sz oc rd|g oc rd gks]; cbn [flat_kid] in Hf.
  - destruct rd as [t|]; [destruct oc; discriminate|].
    destruct oc as [|n|c] eqn:Eoc.
    + cbn [build_alt]. rewrite walk_atom. reflexivity.
    + rewrite build_table_elem by discriminate.
      pose proof (oc_ok_count earlier an (Times n) Hf Han I None _ off _ _
                    (walk_items (Elem i sz (Times n) None) off an eq_refl)) as Hw.
      cbn [items_js] in Hw. rewrite Hw.
      unfold floc. cbn [plain_elem item_oc reg items_js occ_loc occ_sz lsize]. reflexivity.
    + rewrite build_table_elem by discriminate. cbn [item_oc] in HP.
      pose proof (oc_ok_count earlier an (Odo c) Hf Han HP None _ off _ _
                    (walk_items (Elem i sz (Odo c) None) off an eq_refl)) as Hw.
      cbn [items_js] in Hw. rewrite Hw.
      unfold floc. cbn [plain_elem item_oc reg items_js occ_loc occ_sz lsize]. reflexivity.
  - destruct rd as [t|]; [discriminate|]. apply andb_prop in Hf as [Hoc Hpl].
    assert (Hne : oc <> Once) by (intros ->; discriminate).
    rewrite build_table_group by exact Hne. cbn [item_oc] in HP.
    pose proof (oc_ok_count earlier an oc Hoc Han HP (Some (KName g)) _ off _ _
                  (walk_items (Group g oc None gks) off an Hpl)) as Hw.
    cbn [items_js] in Hw. rewrite Hw.
    unfold floc. cbn [plain_elem item_oc items_js occ_loc occ_sz lsize]. reflexivity.
Qed.


(* ------------------------------------------------------------------ all children *)

Lemma NoDup_app_disj {T} (a b : list T) x : NoDup (a ++ b) -> In x a -> ~ In x b.
Proof.
  induction a as [|y a IH]; intros H Hin; [destruct Hin|].
  cbn in H. inversion H as [|? ? Hny Hnd]; subst. destruct Hin as [->|Hin].
  - intros Hb. apply Hny. apply in_or_app. right. exact Hb.
  - apply IH; assumption.
Qed.

Lemma NoDup_app_r {T} (a b : list T) : NoDup (a ++ b) -> NoDup b.
Proof.
  induction a as [|y a IH]; intros H; [exact H|]. cbn in H. inversion H; subst. apply IH. assumption.
Qed.

Lemma own_ids_head x : In (item_id x) (own_ids x).
Proof. destruct x; left; reflexivity. Qed.

Lemma anch_step earlier x off an : flat_kid earlier x = true ->
  reg (js_anchor (build_alt x)) (floc x off)
    (match x with
     | Elem _ _ Once _ => reg (Some (KName (item_id x))) (floc x off) an
     | Elem _ _ _ _ => occ_anch x off an
     | Group g _ _ _ => reg (Some (KName g)) (floc x off) (occ_anch x off an)
     end) = fanch1 x off an.
Proof.
  intros Hf. destruct x as [i sz oc rd|g oc rd gks]; cbn [flat_kid] in Hf.
  - destruct rd as [t|]; [destruct oc; discriminate|]. destruct oc; reflexivity.
  - destruct rd as [t|]; [discriminate|]. destruct oc; [discriminate| |]; reflexivity.
Qed.

Lemma walk_flat_kids : forall ks earlier off an,
  flat_kids earlier ks = true ->
  (forall c, In c earlier -> ~ In c (all_ids ks)) ->
  NoDup (all_ids ks) ->
  an_ok earlier an ->
  holds ks off ->
  (forall c, In c (counters_of ks) -> P c) ->
  walk_props dcount r (plain (kid_alts [] ks)) off an = Ok (fprops ks off, off + fsize ks, fanch ks off an).
Proof.
  induction ks as [|x xs IH]; intros earlier off an Hf Hdis Hnd Han Hh HP.
  - cbn [kid_alts plain fprops fsize fanch]. rewrite walk_props_nil. f_equal. f_equal. f_equal. lia.
  - cbn [flat_kids] in Hf. apply andb_prop in Hf as [Hx Hxs].
    cbn [holds] in Hh. destruct Hh as [Hhx Hhxs].
    cbn [all_ids] in Hnd, Hdis.
    rewrite kid_alts_cons, plain_cons, walk_props_cons.
    rewrite (walk_flat_kid earlier x off an Hx Han).
    2:{ destruct (item_oc x) as [|n|c] eqn:Eoc; [exact I|exact I|]. apply HP. cbn [counters_of]. rewrite Eoc. left. reflexivity. }
    rewrite (anch_step earlier x off an Hx), lsize_floc.
    rewrite (IH (if plain_elem x then item_id x :: earlier else earlier) (off + fsz x) (fanch1 x off an)).
    + cbn [fprops fsize fanch]. f_equal. f_equal. f_equal. lia.
    + exact Hxs.
    + intros c Hc Hin.
      assert (Hc' : In c earlier \/ (plain_elem x = true /\ c = item_id x)).
      { destruct (plain_elem x); [destruct Hc as [<-|Hc]; [right; split; reflexivity|left; exact Hc]|left; exact Hc]. }
      destruct Hc' as [Hc'|[_ ->]].
      * apply (Hdis c Hc'). apply in_or_app. right. exact Hin.
      * apply (NoDup_app_disj _ _ _ Hnd (own_ids_head x)). exact Hin.
    + apply NoDup_app_r in Hnd. exact Hnd.
    + intros c Hc.
      assert (Hc' : (plain_elem x = true /\ c = item_id x) \/ In c earlier).
      { destruct (plain_elem x); [destruct Hc as [<-|Hc]; [left; split; reflexivity|right; exact Hc]|right; exact Hc]. }
      destruct Hc' as [[Hp ->]|Hc'].
      * destruct (plain_elem_inv x Hp) as (i & sz & ->). cbn [item_id].
        exists off, sz. unfold fanch1, floc. cbn [plain_elem item_id atom_sz].
        rewrite lookup_reg2_same. split; [reflexivity|exact Hhx].
      * destruct (Han c Hc') as (o & sz & Hl & Hd). exists o, sz. split; [|exact Hd].
        rewrite lookup_fanch1; [exact Hl|].
        intros Hin. apply (Hdis c Hc'). apply in_or_app. left. exact Hin.
    + exact Hhxs.
    + intros c Hc. apply HP. cbn [counters_of]. destruct (item_oc x); try exact Hc. right. exact Hc.
Qed.

End Walk.

(* ------------------------------------------------------------------ Part 2: the closed form against the specification *)

Section Spec2.
Variable e : env.
Local Notation floc := (floc e).
Local Notation fsz := (fsz e).
Local Notation fprops := (fprops e).
Local Notation fsize := (fsize e).

Lemma psize_ext : forall ks, all_plain ks = true -> kids_extent e ks = psize ks.
Proof.
  induction ks as [|x xs IH]; intros H; [reflexivity|].
  cbn [all_plain] in H. apply andb_prop in H as [Hx Hxs].
  destruct (plain_elem_inv x Hx) as (i & sz & ->).
  cbn [kids_extent psize atom_sz is_redefiner item_redef item_oc count ext1]. rewrite IH by exact Hxs. lia.
Qed.

Lemma flat_kid_noredef earlier x : flat_kid earlier x = true -> item_redef x = None.
Proof.
  destruct x as [i sz oc rd|g oc rd gks]; cbn [flat_kid item_redef].
  - destruct rd; [destruct oc; discriminate|reflexivity].
  - destruct rd; [discriminate|reflexivity].
Qed.

Lemma flat_kid_shape earlier x : flat_kid earlier x = true -> plain_elem x = false -> table_shape x = true /\ is_table x = true.
Proof.
  destruct x as [i sz oc rd|g oc rd gks]; cbn [flat_kid plain_elem table_shape]; unfold is_table; cbn [item_oc].
  - destruct rd; [destruct oc; discriminate|]. destruct oc; [discriminate| |]; intros; split; reflexivity.
  - destruct rd; [discriminate|]. intros H _. apply andb_prop in H as [Hoc Hpl].
    destruct oc; [discriminate| |]; split; try exact Hpl; reflexivity.
Qed.

Lemma occ_sz_ext earlier x : flat_kid earlier x = true -> occ_sz x = ext1 e x.
Proof.
  destruct x as [i sz oc rd|g oc rd gks]; cbn [flat_kid occ_sz ext1]; [reflexivity|].
  destruct rd; [discriminate|]. intros H. apply andb_prop in H as [_ Hpl]. symmetry. apply psize_ext. exact Hpl.
Qed.

Lemma fsz_ext earlier x : flat_kid earlier x = true -> fsz x = extent e x.
Proof.
  intros H. unfold fsz, extent. destruct (plain_elem x) eqn:Ep.
  - destruct (plain_elem_inv x Ep) as (i & sz & ->). cbn [atom_sz item_oc count ext1]. lia.
  - rewrite (occ_sz_ext earlier x H). lia.
Qed.

Lemma fsize_ext : forall ks earlier, flat_kids earlier ks = true -> fsize ks = kids_extent e ks.
Proof.
  induction ks as [|x xs IH]; intros earlier H; [reflexivity|].
  cbn [flat_kids] in H. apply andb_prop in H as [Hx Hxs].
  cbn [fsize kids_extent]. unfold is_redefiner. rewrite (flat_kid_noredef earlier x Hx).
  rewrite (fsz_ext earlier x Hx), (IH _ Hxs). unfold extent. reflexivity.
Qed.

(* start of child k when the children lie end to end from off *)
Fixpoint kstart (ks : items) (off : nat) (k : id) : option nat :=
  match ks with
  | INil => None
  | ICons x xs => if N.eqb (item_id x) k then Some off else kstart xs (off + extent e x) k
  end.

Lemma kid_starts_kstart : forall ks earlier off seen k, flat_kids earlier ks = true ->
  option_map snd (find (fun p => N.eqb (fst p) k) (kid_starts e ks off seen)) = kstart ks off k.
Proof.
  induction ks as [|x xs IH]; intros earlier off seen k H; [reflexivity|].
  cbn [flat_kids] in H. apply andb_prop in H as [Hx Hxs].
  cbn [kid_starts kstart]. rewrite (flat_kid_noredef earlier x Hx). cbn [find fst].
  destruct (N.eqb (item_id x) k); [reflexivity|]. apply (IH _ _ _ _ Hxs).
Qed.

Lemma kid_start_kstart ks k : flat_kids [] ks = true -> kid_start e ks k = kstart ks 0 k.
Proof. intros H. unfold kid_start. apply (kid_starts_kstart ks [] 0 [] k H). Qed.

Lemma find_kid_In : forall ks k x, find_kid ks k = Some x -> item_id x = k /\ In k (kid_ids ks).
Proof.
  induction ks as [|y ys IH]; intros k x H; [discriminate|].
  cbn [find_kid] in H. cbn [kid_ids]. destruct (N.eqb (item_id y) k) eqn:E.
  - inversion H; subst. apply N.eqb_eq in E. split; [exact E|left; exact E].
  - destruct (IH _ _ H) as [H1 H2]. split; [exact H1|right; exact H2].
Qed.

(* what a name lookup in the closed form finds *)
Lemma fprops_find : forall ks earlier off k x, flat_kids earlier ks = true -> find_kid ks k = Some x ->
  exists o earlier', kstart ks off k = Some o /\ find_prop (KName k) (fprops ks off) = Some (floc x o)
                     /\ flat_kid earlier' x = true.
Proof.
  induction ks as [|y ys IH]; intros earlier off k x Hf H; [discriminate|].
  cbn [flat_kids] in Hf. apply andb_prop in Hf as [Hy Hys].
  cbn [find_kid] in H. cbn [kstart fprops find_prop]. rewrite key_eqb_name, (N.eqb_sym k (item_id y)).
  destruct (N.eqb (item_id y) k) eqn:E.
  - inversion H; subst. exists off, earlier. split; [reflexivity|]. split; [reflexivity|exact Hy].
  - rewrite (fsz_ext earlier y Hy). apply (IH _ _ _ _ Hys H).
Qed.

End Spec2.

(* the record hypothesis in running form follows from the one stated with starts *)

Section Holds.
Context {B : Type}.
Variable dcount : list B -> nat.
Variable r : list B.
Variable e : env.
Variable P : id -> Prop.
Local Notation holds := (holds dcount r e P).
Local Notation kstart := (kstart e).
Local Notation fsz := (fsz e).
Lemma kid_ids_sub : forall ks k, In k (kid_ids ks) -> In k (all_ids ks).
Proof.
  induction ks as [|x xs IH]; intros k H; [destruct H|].
  cbn [kid_ids] in H. cbn [all_ids]. apply in_or_app. destruct H as [<-|H]; [left; apply own_ids_head|right; apply IH; exact H].
Qed.

Lemma holds_of : forall ks earlier off, flat_kids earlier ks = true -> NoDup (all_ids ks) ->
  (forall c sz o, P c -> find_kid ks c = Some (Elem c sz Once None) -> kstart ks off c = Some o ->
                  dcount (slice r o (o + sz)) = e c) ->
  holds ks off.
Proof.
  induction ks as [|x xs IH]; intros earlier off Hf Hnd H; [exact I|].
  cbn [flat_kids] in Hf. apply andb_prop in Hf as [Hx Hxs]. cbn [all_ids] in Hnd.
  cbn [holds]. split.
  - destruct x as [c sz oc rd|]; [|exact I]. destruct oc; try exact I. destruct rd; [exact I|].
    intros HPc. apply (H c sz off HPc); cbn [find_kid OdoStreamP.kstart item_id]; rewrite N.eqb_refl; reflexivity.
  - rewrite (fsz_ext e earlier x Hx). apply (IH _ _ Hxs); [apply NoDup_app_r in Hnd; exact Hnd|].
    intros c sz o HPc Hfind Hst.
    assert (Hne : N.eqb (item_id x) c = false).
    { apply N.eqb_neq. intros Heq. subst c. destruct (find_kid_In _ _ _ Hfind) as [_ Hin].
      apply (NoDup_app_disj _ _ _ Hnd (own_ids_head x)). apply kid_ids_sub. exact Hin. }
    apply (H c sz o HPc); cbn [find_kid OdoStreamP.kstart]; rewrite Hne; assumption.
Qed.

End Holds.


(* ------------------------------------------------------------------ the whole record *)

Definition flat_nav (e : env) (t : item) : nav :=
  match t with
  | Group i0 _ _ kids =>
      let l := LObj 0 (fsize e kids) (fprops e kids 0) in mknav l ((KName i0, l) :: fanch e kids 0 [])
  | Elem _ _ _ _ => mknav (LAtom 0 0) []
  end.

Lemma redef_targets_flat : forall ks earlier, flat_kids earlier ks = true -> redef_targets ks = [].
Proof.
  induction ks as [|x xs IH]; intros earlier H; [reflexivity|].
  cbn [flat_kids] in H. apply andb_prop in H as [Hx Hxs].
  cbn [redef_targets]. rewrite (flat_kid_noredef earlier x Hx). apply (IH _ Hxs).
Qed.

Lemma assemble_plain : forall ks earlier all em, flat_kids earlier ks = true ->
  assemble all em (kid_alts [] ks) = plain (kid_alts [] ks).
Proof.
  induction ks as [|x xs IH]; intros earlier all em H; [reflexivity|].
  cbn [flat_kids] in H. apply andb_prop in H as [Hx Hxs].
  rewrite kid_alts_cons. unfold union_of. rewrite (flat_kid_noredef earlier x Hx). cbn [existsb assemble plain].
  rewrite (IH _ all em Hxs). reflexivity.
Qed.

Lemma build_flat i0 rd kids : flat_kids [] kids = true ->
  build (Group i0 Once rd kids) = JObj (Some (KName i0)) (plain (kid_alts [] kids)).
Proof.
  intros H. unfold build. cbn [build_alt]. rewrite (redef_targets_flat kids [] H).
  cbn zeta. rewrite (assemble_plain kids [] _ [] H). reflexivity.
Qed.

Lemma flat_odo_inv t : flat_odo t = true ->
  exists i0 rd kids, t = Group i0 Once rd kids /\ flat_kids [] kids = true /\ NoDup (all_ids kids).
Proof.
  destruct t as [|i0 oc rd kids]; cbn [flat_odo]; [discriminate|]. destruct oc; try discriminate.
  intros H. apply andb_prop in H as [H1 H2]. exists i0, rd, kids. split; [reflexivity|]. split; [exact H1|].
  apply nodupb_NoDup. exact H2.
Qed.

(* Part 1, whole record: the walk is the closed form of the count vector; the record enters only through the
   counter fields *)
Lemma nav_flat {B} (dcount : list B -> nat) t e r :
  flat_odo t = true -> counters_hold dcount e t r ->
  nav_of dcount r (build t) = Ok (flat_nav e t).
Proof.
  intros Hf Hc. destruct (flat_odo_inv t Hf) as (i0 & rd & kids & -> & Hk & Hnd).
  cbn [counters_hold] in Hc. rewrite (build_flat i0 rd kids Hk).
  rewrite SR.Proofs.LayoutP.nav_of_unf. rewrite walk_obj.
  rewrite (walk_flat_kids dcount r e (fun c => In c (counters_of kids)) kids [] 0 [] Hk).
  - cbn [reg flat_nav]. replace (0 + fsize e kids - 0) with (fsize e kids) by lia. reflexivity.
  - intros c [].
  - exact Hnd.
  - intros c [].
  - apply (holds_of dcount r e _ kids [] 0 Hk Hnd).
    intros c sz o HP Hfind Hst. apply (Hc c sz o HP Hfind). rewrite (kid_start_kstart e kids c Hk). exact Hst.
  - intros c Hin. exact Hin.
Qed.

Lemma nav_name_floc e x o a b ps an k :
  find_prop k ps = Some (floc e x o) ->
  nav_name (mknav (LObj a b ps) an) k = Ok (mknav (floc e x o) an).
Proof.
  intros H. rewrite SR.Proofs.LayoutP.nav_name_unf. cbn [n_loc n_an]. rewrite H. unfold floc. destruct (plain_elem x); reflexivity.
Qed.

Lemma is_table_not_plain x : is_table x = true -> plain_elem x = false.
Proof.
  destruct x as [i sz oc rd|g oc rd gks]; [|reflexivity]. unfold is_table. cbn [item_oc plain_elem].
  destruct oc; [discriminate|reflexivity|reflexivity].
Qed.

Lemma lstart_occ_loc x st : lstart (occ_loc x st) = st.
Proof. destruct x; reflexivity. Qed.

(* Part 2, whole record *)
Lemma flat_nav_spec {B} (dcount : list B -> nat) (r : list B) t e :
  flat_odo t = true ->
  lstart (n_loc (flat_nav e t)) = 0 /\ lend (n_loc (flat_nav e t)) = extent e t
  /\ forall k x, find_kid (item_kids t) k = Some x ->
     exists o vk, kid_start e (item_kids t) k = Some o
       /\ nav_name (flat_nav e t) (KName k) = Ok vk
       /\ lstart (n_loc vk) = o /\ lsize (n_loc vk) = extent e x
       /\ (is_table x = true ->
             (exists sub sch, n_loc vk = LArr o (extent e x) (ext1 e x) (count e (item_oc x)) sub sch)
             /\ (forall i, i < count e (item_oc x) ->
                   exists vi, nav_index dcount r vk i = Ok vi
                     /\ lstart (n_loc vi) = o + i * ext1 e x /\ lsize (n_loc vi) = ext1 e x)
             /\ (forall i, count e (item_oc x) <= i -> nav_index dcount r vk i = Err IndexError)).
Proof.
  intros Hf. destruct (flat_odo_inv t Hf) as (i0 & rd & kids & -> & Hk & Hnd).
  cbn [flat_nav n_loc lstart item_kids]. split; [reflexivity|]. split.
  - unfold lend. cbn [lstart lsize]. rewrite (fsize_ext e kids [] Hk). unfold extent. cbn [item_oc count ext1]. lia.
  - intros k x Hfind.
    destruct (fprops_find e kids [] 0 k x Hk Hfind) as (o & earlier' & Hst & Hfp & Hx).
    exists o, (mknav (floc e x o) ((KName i0, LObj 0 (fsize e kids) (fprops e kids 0)) :: fanch e kids 0 [])).
    split; [rewrite (kid_start_kstart e kids k Hk); exact Hst|].
    split; [apply nav_name_floc; exact Hfp|].
    cbn [n_loc]. split; [unfold floc; destruct (plain_elem x); reflexivity|].
    split; [rewrite lsize_floc; apply (fsz_ext e earlier' x Hx)|].
    intros Ht. pose proof (is_table_not_plain x Ht) as Hnp.
    destruct (flat_kid_shape earlier' x Hx Hnp) as [Hshape _].
    pose proof (occ_sz_ext e earlier' x Hx) as Hosz.
    unfold floc. rewrite Hnp. split; [|split].
    + exists (occ_loc x o), (items_js x). rewrite Hosz. unfold extent. f_equal. lia.
    + intros i Hi. rewrite SR.Proofs.LayoutP.nav_index_unf. cbn [n_loc].
      destruct (count e (item_oc x) <=? i) eqn:E; [apply Nat.leb_le in E; lia|].
      rewrite (walk_items dcount r x _ [] Hshape).
      eexists. split; [reflexivity|]. cbn [n_loc]. rewrite lstart_occ_loc, lsize_occ_loc, Hosz. split; [lia|reflexivity].
    + intros i Hi. rewrite SR.Proofs.LayoutP.nav_index_unf. cbn [n_loc].
      destruct (count e (item_oc x) <=? i) eqn:E; [reflexivity|apply Nat.leb_gt in E; lia].
Qed.

Lemma layout_flat {B} (dcount : list B -> nat) t e r :
  flat_odo t = true -> counters_hold dcount e t r ->
  exists v, nav_of dcount r (build t) = Ok v
    /\ lstart (n_loc v) = 0 /\ lend (n_loc v) = extent e t
    /\ forall k x, find_kid (item_kids t) k = Some x ->
       exists o vk, kid_start e (item_kids t) k = Some o
         /\ nav_name v (KName k) = Ok vk
         /\ lstart (n_loc vk) = o /\ lsize (n_loc vk) = extent e x
         /\ (is_table x = true ->
               (exists sub sch, n_loc vk = LArr o (extent e x) (ext1 e x) (count e (item_oc x)) sub sch)
               /\ (forall i, i < count e (item_oc x) ->
                     exists vi, nav_index dcount r vk i = Ok vi
                       /\ lstart (n_loc vi) = o + i * ext1 e x /\ lsize (n_loc vi) = ext1 e x)
               /\ (forall i, count e (item_oc x) <= i -> nav_index dcount r vk i = Err IndexError)).
Proof.
  intros Hf Hc. exists (flat_nav e t). split; [apply nav_flat; assumption|]. apply flat_nav_spec. exact Hf.
Qed.

(* ------------------------------------------------------------------ inside one occurrence of a table *)

Lemma all_plain_flat : forall ks earlier, all_plain ks = true -> flat_kids earlier ks = true.
Proof.
  induction ks as [|x xs IH]; intros earlier H; [reflexivity|].
  cbn [all_plain] in H. apply andb_prop in H as [Hx Hxs]. cbn [flat_kids]. rewrite (IH _ Hxs), andb_true_r.
  destruct (plain_elem_inv x Hx) as (i & sz & ->). reflexivity.
Qed.

Lemma pprops_find e : forall gks off base j y, all_plain gks = true -> find_kid gks j = Some y ->
  exists oj, kstart e gks base j = Some (base + oj)
    /\ find_prop (KName j) (pprops gks off) = Some (LAtom (off + oj) (extent e y)).
Proof.
  induction gks as [|x xs IH]; intros off base j y H Hfind; [discriminate|].
  cbn [all_plain] in H. apply andb_prop in H as [Hx Hxs].
  destruct (plain_elem_inv x Hx) as (i & sz & ->).
  cbn [find_kid item_id] in Hfind. cbn [kstart pprops find_prop item_id atom_sz]. rewrite key_eqb_name, (N.eqb_sym j i).
  destruct (N.eqb i j).
  - inversion Hfind; subst. exists 0. rewrite !Nat.add_0_r. split; [reflexivity|].
    unfold extent. cbn [item_oc count ext1]. rewrite Nat.mul_1_l. reflexivity.
  - destruct (IH (off + sz) (base + extent e (Elem i sz Once None)) j y Hxs Hfind) as (oj & Hk & Hp).
    exists (sz + oj). rewrite Hk, Hp. unfold extent. cbn [item_oc count ext1].
    split; f_equal; [lia|f_equal; lia].
Qed.

Lemma layout_flat_occurrence {B} (dcount : list B -> nat) t e r :
  flat_odo t = true -> counters_hold dcount e t r ->
  exists v, nav_of dcount r (build t) = Ok v
    /\ forall k x, find_kid (item_kids t) k = Some x -> is_table x = true ->
       exists o vk, kid_start e (item_kids t) k = Some o /\ nav_name v (KName k) = Ok vk
         /\ forall i, i < count e (item_oc x) ->
            exists vi, nav_index dcount r vk i = Ok vi
              /\ match x with
                 | Elem n sz _ _ => exists vj, nav_name vi (KName n) = Ok vj /\ n_loc vj = LAtom (o + i * sz) sz
                 | Group _ _ _ gks =>
                     forall j y, find_kid gks j = Some y ->
                       exists oj vj, kid_start e gks j = Some oj /\ nav_name vi (KName j) = Ok vj
                         /\ n_loc vj = LAtom (o + i * ext1 e x + oj) (extent e y)
                 end.
Proof.
  intros Hf Hc. exists (flat_nav e t). split; [apply nav_flat; assumption|].
  destruct (flat_odo_inv t Hf) as (i0 & rd & kids & -> & Hk & Hnd).
  cbn [item_kids]. intros k x Hfind Ht.
  destruct (fprops_find e kids [] 0 k x Hk Hfind) as (o & earlier' & Hst & Hfp & Hx).
  exists o, (mknav (floc e x o) ((KName i0, LObj 0 (fsize e kids) (fprops e kids 0)) :: fanch e kids 0 [])).
  split; [rewrite (kid_start_kstart e kids k Hk); exact Hst|].
  split; [cbn [flat_nav]; apply nav_name_floc; exact Hfp|].
  pose proof (is_table_not_plain x Ht) as Hnp.
  destruct (flat_kid_shape earlier' x Hx Hnp) as [Hshape _].
  intros i Hi. rewrite SR.Proofs.LayoutP.nav_index_unf. unfold floc. rewrite Hnp. cbn [n_loc].
  destruct (count e (item_oc x) <=? i) eqn:E; [apply Nat.leb_le in E; lia|].
  rewrite (walk_items dcount r x _ [] Hshape). eexists. split; [reflexivity|].
  destruct x as [n sz oc rd'|g oc rd' gks].
  - cbn [occ_loc occ_sz occ_anch]. eexists. split.
    + rewrite SR.Proofs.LayoutP.nav_name_unf. cbn [n_loc n_an find_prop]. rewrite key_eqb_name, N.eqb_refl. reflexivity.
    + cbn [n_loc]. f_equal. lia.
  - cbn [table_shape] in Hshape. intros j y Hj.
    destruct (pprops_find e gks (o + occ_sz (Group g oc rd' gks) * i) 0 j y Hshape Hj) as (oj & Hkj & Hpj).
    exists oj. eexists. split; [rewrite (kid_start_kstart e gks j (all_plain_flat gks [] Hshape)); exact Hkj|].
    split.
    + rewrite SR.Proofs.LayoutP.nav_name_unf. cbn [occ_loc n_loc n_an]. rewrite Hpj. reflexivity.
    + cbn [n_loc]. f_equal. rewrite (occ_sz_ext e earlier' _ Hx). lia.
Qed.

(* ------------------------------------------------------------------ Part 3: frame lemma *)

Lemma slice_app {T} (r m : list T) a b : b <= length r -> slice (r ++ m) a b = slice r a b.
Proof.
  intros Hb. unfold slice. destruct (le_lt_dec a b) as [Hab|Hab].
  - rewrite skipn_app. replace (a - length r) with 0 by lia. cbn [skipn].
    apply firstn_app_le. rewrite skipn_length. lia.
  - replace (b - a) with 0 by lia. reflexivity.
Qed.

Lemma kstart_bound e : forall ks earlier off c x o,
  flat_kids earlier ks = true -> find_kid ks c = Some x -> kstart e ks off c = Some o ->
  o + extent e x <= off + kids_extent e ks.
Proof.
  induction ks as [|y ys IH]; intros earlier off c x o Hf Hfind Hst; [discriminate|].
  cbn [flat_kids] in Hf. apply andb_prop in Hf as [Hy Hys].
  cbn [find_kid] in Hfind. cbn [kstart] in Hst. cbn [kids_extent].
  unfold is_redefiner. rewrite (flat_kid_noredef earlier y Hy).
  destruct (N.eqb (item_id y) c).
  - inversion Hfind; inversion Hst; subst. unfold extent. lia.
  - pose proof (IH _ _ _ _ _ Hys Hfind Hst) as Hb. unfold extent in *. lia.
Qed.

(* the walk reads the record only at the counters, and those lie inside the record: what follows the record in
   the buffer does not matter *)
Lemma counters_frame {B} (dcount : list B -> nat) t e (r more : list B) :
  flat_odo t = true -> extent e t <= length r ->
  counters_hold dcount e t r -> counters_hold dcount e t (r ++ more).
Proof.
  intros Hf Hlen Hc. destruct (flat_odo_inv t Hf) as (i0 & rd & kids & -> & Hk & Hnd).
  cbn [counters_hold] in *. intros c sz o Hin Hfind Hst.
  rewrite slice_app; [apply (Hc c sz o Hin Hfind Hst)|].
  rewrite (kid_start_kstart e kids c Hk) in Hst.
  pose proof (kstart_bound e kids [] 0 c _ o Hk Hfind Hst) as Hb.
  unfold extent in Hb, Hlen. cbn [item_oc count ext1] in Hb, Hlen. lia.
Qed.

Lemma nav_frame {B} (dcount : list B -> nat) t e (r more : list B) :
  flat_odo t = true -> extent e t <= length r -> counters_hold dcount e t r ->
  nav_of dcount (r ++ more) (build t) = nav_of dcount r (build t).
Proof.
  intros Hf Hlen Hc. rewrite (nav_flat dcount t e r Hf Hc).
  apply nav_flat; [exact Hf|apply counters_frame; assumption].
Qed.

(* ------------------------------------------------------------------ Part 3: the row loop *)

Definition rec_ok {A} (dcount : list A -> nat) (t : item) (e : env) (r : list A) : Prop :=
  length r = extent e t /\ counters_hold dcount e t r.

Lemma flat_nav_end e t : flat_odo t = true -> lend (n_loc (flat_nav e t)) = extent e t.
Proof. intros Hf. destruct (flat_nav_spec (fun _ : list unit => 0) [] t e Hf) as (_ & H & _). exact H. Qed.

Section RowLoop.
Context {A : Type}.
Variable dcount : list A -> nat.
Variable B : nat.
Hypothesis Bpos : 0 < B.
Variable kind : N.
Variable t : item.
Hypothesis Hflat : flat_odo t = true.

Lemma row_loop_ok : forall (rs : list (list A)) (es : list env) (s : st A) (fuel : nat),
  Forall2 (rec_ok dcount t) es rs -> Inv B s -> stream s = concat rs -> legal_N B rs = true ->
  length rs < fuel ->
  exists rows s', row_loop dcount fuel 0 kind B (build t) s = (rows, Done, s')
    /\ map (@row_buf A) rows = spec_bufs B (stream s) (map (@length A) rs)
    /\ map (@row_nav A) rows = map (fun e => flat_nav e t) es
    /\ buf s' = [] /\ rest s' = [].
Proof.
  induction rs as [|r rs IH]; intros es s fuel HF HI HS HL Hfuel; (destruct fuel as [|f]; [cbn in Hfuel; lia|]).
  - inversion HF; subst. cbn [concat] in HS. unfold stream in HS. apply app_eq_nil in HS as [Hb Hr].
    exists [], s. cbn [row_loop]. rewrite Hb. repeat split; try assumption; reflexivity.
  - inversion HF as [|e r' es' rs' [Hlen Hc] HF']; subst.
    unfold legal_N in HL. cbn [forallb] in HL. apply andb_prop in HL as [Hr HL']. fold (legal_N B rs) in HL'.
    apply andb_prop in Hr as [Hr1 Hr2]. apply Nat.leb_le in Hr1. apply Nat.leb_le in Hr2.
    cbn [concat] in HS.
    pose proof (inv_len B s HI) as Hblen. rewrite HS, app_length in Hblen.
    assert (Hn : length r <= length (buf s)) by lia.
    assert (Hbuf : buf s = r ++ firstn (B - length r) (concat rs)).
    { rewrite HI, HS. rewrite firstn_app. f_equal. apply firstn_all2. exact Hr2. }
    assert (Hnav : nav_of dcount (buf s) (build t) = Ok (flat_nav e t)).
    { rewrite Hbuf. apply nav_flat; [exact Hflat|]. apply counters_frame; [exact Hflat|lia|exact Hc]. }
    assert (HI' : Inv B (RecfmP.step B s (length r))) by (apply step_inv; assumption).
    assert (HS' : stream (RecfmP.step B s (length r)) = concat rs).
    { rewrite step_stream by assumption. rewrite HS. apply skipn_exact. }
    destruct (IH es' _ f HF' HI' HS' HL') as (rows & s' & Hrun & Hbufs & Hnavs & Hb & Hrest); [cbn in Hfuel; lia|].
    exists (mkrow (buf s) (flat_nav e t) :: rows), s'.
    cbn [row_loop].
    destruct (buf s) as [|b0 bs] eqn:Eb; [cbn in Hn; lia|]. rewrite <- Eb in *.
    rewrite Hnav, (flat_nav_end e t Hflat), <- Hlen.
    destruct (length r =? 0) eqn:E0; [apply Nat.eqb_eq in E0; lia|].
    rewrite (step_eq B Bpos kind s (length r) HI). rewrite Hrun.
    split; [reflexivity|]. split; [|split; [|split; assumption]].
    + cbn [map row_buf spec_bufs]. rewrite Hbufs. rewrite step_stream by assumption. rewrite <- HI. reflexivity.
    + cbn [map row_nav]. rewrite Hnavs. reflexivity.
Qed.

End RowLoop.

(* consequences of the two list equations, in the words of the theorem *)
Lemma Forall2_of_maps {X Y Z} (f : X -> Z) (g : Y -> Z) : forall xs ys,
  map f xs = map g ys -> Forall2 (fun x y => f x = g y) xs ys.
Proof.
  induction xs as [|x xs IH]; intros [|y ys] H; try discriminate; constructor.
  - cbn in H. inversion H. reflexivity.
  - apply IH. cbn in H. inversion H. reflexivity.
Qed.

Lemma Forall2_compose {X Y Z} (P : X -> Y -> Prop) (Q : Y -> Z -> Prop) (R : X -> Z -> Prop) :
  (forall x y z, P x y -> Q y z -> R x z) ->
  forall xs ys zs, Forall2 P xs ys -> Forall2 Q ys zs -> Forall2 R xs zs.
Proof.
  intros H xs ys zs HP. revert zs. induction HP as [|x y xs ys Hxy HP IH]; intros zs HQ; inversion HQ; subst; constructor.
  - eapply H; eassumption.
  - apply IH. assumption.
Qed.

Lemma Forall2_weaken {X Y} (P Q : X -> Y -> Prop) : (forall x y, P x y -> Q x y) ->
  forall xs ys, Forall2 P xs ys -> Forall2 Q xs ys.
Proof. intros H xs ys HP. induction HP; constructor; auto. Qed.

Lemma rows_facts {A} (dcount : list A -> nat) t (rows : list (row A)) es rs :
  flat_odo t = true ->
  map (@row_nav A) rows = map (fun e => flat_nav e t) es ->
  Forall2 (rec_ok dcount t) es rs ->
  Forall2 (fun rw r => nav_of dcount r (build t) = Ok (row_nav rw)) rows rs
  /\ Forall2 (fun rw e => lend (n_loc (row_nav rw)) = extent e t) rows es.
Proof.
  intros Hf Hm HF. apply Forall2_of_maps in Hm. split.
  - apply (Forall2_compose _ _ _ (fun rw e r (H1 : row_nav rw = flat_nav e t) (H2 : rec_ok dcount t e r) =>
             eq_trans (nav_flat dcount t e r Hf (proj2 H2)) (f_equal Ok (eq_sym H1))) _ _ _ Hm HF).
  - apply (Forall2_weaken _ _ (fun rw e (H1 : row_nav rw = flat_nav e t) =>
             eq_trans (f_equal (fun v => lend (n_loc v)) H1) (flat_nav_end e t Hf)) _ _ Hm).
Qed.

Lemma heads_spec_bufs {A} (B : nat) : forall (rs : list (list A)),
  legal_N B rs = true -> heads (map (@length A) rs) (spec_bufs B (concat rs) (map (@length A) rs)) = rs.
Proof.
  induction rs as [|r rs IH]; intros HL; [reflexivity|].
  unfold legal_N in HL. cbn [forallb] in HL. apply andb_prop in HL as [Hr HL']. fold (legal_N B rs) in HL'.
  apply andb_prop in Hr as [_ Hr2]. apply Nat.leb_le in Hr2.
  cbn [map concat spec_bufs]. unfold heads in *. cbn [combine map fst snd].
  rewrite skipn_exact, (IH HL'). f_equal.
  rewrite firstn_firstn. replace (Nat.min (length r) B) with (length r) by lia. apply firstn_exact.
Qed.

(* the full statement for RECFM_N, any buffer size *)
Lemma stream_N_any_buffer {A} (dcount : list A -> nat) (B : nat) (kind : N) t es (rs : list (list A)) :
  0 < B -> flat_odo t = true -> Forall2 (rec_ok dcount t) es rs -> legal_N B rs = true ->
  exists rows s',
    row_loop dcount (S (length (write_N rs))) 0 kind B (build t) (N_init B (write_N rs)) = (rows, Done, s')
    /\ map (@row_buf A) rows = spec_bufs B (write_N rs) (map (@length A) rs)
    /\ heads (map (@length A) rs) (map (@row_buf A) rows) = rs
    /\ Forall2 (fun rw r => nav_of dcount r (build t) = Ok (row_nav rw)) rows rs
    /\ Forall2 (fun rw e => lend (n_loc (row_nav rw)) = extent e t) rows es
    /\ buf s' = [] /\ rest s' = [].
Proof.
  intros HB Hf HF HL. destruct (inv_init B (write_N rs)) as [HI HS].
  assert (Hfuel : length rs < S (length (write_N rs))).
  { unfold write_N. assert (length rs <= length (concat rs)); [|lia]. apply length_concat_ge.
    unfold legal_N in HL. clear -HL. induction rs as [|r rs IH]; [reflexivity|].
    cbn [forallb] in *. apply andb_prop in HL as [Hr HL]. apply andb_prop in Hr as [Hr _]. rewrite Hr, (IH HL). reflexivity. }
  destruct (row_loop_ok dcount B HB kind t Hf rs es _ _ HF HI HS HL Hfuel) as (rows & s' & Hrun & Hbufs & Hnavs & Hb & Hr).
  rewrite HS in Hbufs.
  destruct (rows_facts dcount t rows es rs Hf Hnavs HF) as [F1 F2].
  exists rows, s'. split; [exact Hrun|]. split; [exact Hbufs|]. split; [|split; [exact F1|split; [exact F2|split; assumption]]].
  rewrite Hbufs. apply heads_spec_bufs. exact HL.
Qed.

(* the same with the buffer size and refill expression of the source, through set_schema and rows() *)
Lemma stream_N {A} (dcount : list A -> nat) (kind : N) (lrecl : nat) t es (rs : list (list A)) :
  0 < lrecl -> flat_odo t = true -> Forall2 (rec_ok dcount t) es rs -> legal_N (N.to_nat buffer_size) rs = true ->
  exists rows s',
    rows_N dcount kind (Some lrecl) (build t) (write_N rs) = Ok (rows, Done, s')
    /\ map (@row_buf A) rows = spec_bufs (N.to_nat buffer_size) (write_N rs) (map (@length A) rs)
    /\ heads (map (@length A) rs) (map (@row_buf A) rows) = rs
    /\ Forall2 (fun rw r => nav_of dcount r (build t) = Ok (row_nav rw)) rows rs
    /\ Forall2 (fun rw e => lend (n_loc (row_nav rw)) = extent e t) rows es
    /\ buf s' = [] /\ rest s' = [].
Proof.
  intros Hl Hf HF HL.
  destruct (stream_N_any_buffer dcount (N.to_nat buffer_size) kind t es rs buffer_positive Hf HF HL)
    as (rows & s' & Hrun & H).
  exists rows, s'. split; [|exact H].
  unfold rows_N, set_schema, set_schema_with. destruct lrecl as [|n]; [lia|]. rewrite refill_is_top_up, Hrun. reflexivity.
Qed.

(* ------------------------------------------------------------------ readers that deliver whole records *)

Lemma rows_of_ok {A} (dcount : list A -> nat) t : flat_odo t = true -> forall es (rs : list (list A)),
  Forall2 (rec_ok dcount t) es rs ->
  exists rows, rows_of dcount (build t) rs = (rows, None)
    /\ map (@row_buf A) rows = rs /\ map (@row_nav A) rows = map (fun e => flat_nav e t) es.
Proof.
  intros Hf es rs HF. induction HF as [|e r es rs [Hlen Hc] HF IH].
  - exists []. repeat split; reflexivity.
  - destruct IH as (rows & Hrun & Hb & Hn). exists (mkrow r (flat_nav e t) :: rows).
    cbn [rows_of]. rewrite (nav_flat dcount t e r Hf Hc), Hrun. cbn [map row_buf row_nav]. rewrite Hb, Hn.
    repeat split; reflexivity.
Qed.

Lemma stream_V (dcount : list N -> nat) (kind : N) (lrecl : nat) t es (rs : list (list N)) :
  0 < lrecl -> flat_odo t = true -> Forall2 (rec_ok dcount t) es rs -> legal_V rs = true ->
  exists rows,
    rows_V dcount kind (Some lrecl) (build t) (write_V rs) = Ok (rows, Done)
    /\ map (@row_buf N) rows = rs
    /\ Forall2 (fun rw r => nav_of dcount r (build t) = Ok (row_nav rw)) rows rs
    /\ Forall2 (fun rw e => lend (n_loc (row_nav rw)) = extent e t) rows es.
Proof.
  intros Hl Hf HF _. destruct (rows_of_ok dcount t Hf es rs HF) as (rows & Hrun & Hb & Hn).
  destruct (rows_facts dcount t rows es rs Hf Hn HF) as [F1 F2].
  exists rows. split; [|split; [exact Hb|split; assumption]].
  unfold rows_V, set_schema, set_schema_with. destruct lrecl as [|n]; [lia|].
  rewrite V_record_iter_ok. unfold rows_from. rewrite Hrun. reflexivity.
Qed.

Lemma Forall2_concat {X Y} (P : X -> Y -> Prop) : forall xss yss,
  Forall2 (Forall2 P) xss yss -> Forall2 P (concat xss) (concat yss).
Proof.
  intros xss yss H. induction H as [|xs ys xss yss H1 H IH]; [constructor|].
  cbn [concat]. apply Forall2_app; assumption.
Qed.

Lemma stream_VB (dcount : list N -> nat) (kind : N) (lrecl : nat) t ess (blocks : list (list (list N))) :
  0 < lrecl -> flat_odo t = true -> Forall2 (Forall2 (rec_ok dcount t)) ess blocks -> legal_VB blocks = true ->
  exists rows,
    rows_VB dcount kind (Some lrecl) (build t) (write_VB blocks) = Ok (rows, Done)
    /\ map (@row_buf N) rows = concat blocks
    /\ Forall2 (fun rw r => nav_of dcount r (build t) = Ok (row_nav rw)) rows (concat blocks)
    /\ Forall2 (fun rw e => lend (n_loc (row_nav rw)) = extent e t) rows (concat ess).
Proof.
  intros Hl Hf HF HL. apply Forall2_concat in HF.
  destruct (rows_of_ok dcount t Hf _ _ HF) as (rows & Hrun & Hb & Hn).
  destruct (rows_facts dcount t rows _ _ Hf Hn HF) as [F1 F2].
  exists rows. split; [|split; [exact Hb|split; assumption]].
  unfold rows_VB, set_schema, set_schema_with. destruct lrecl as [|n]; [lia|].
  rewrite (VB_record_iter_ok kind blocks HL). unfold rows_from. rewrite Hrun. reflexivity.
Qed.

(* ------------------------------------------------------------------ findings and witnesses *)

(* ---- COBOL_EBCDIC_Sheet.set_schema under the rules read from the source (Gen/LayoutParams.v: set_schema_catches,
   set_schema_caught_lrecl), since fix 64e9f81: a ValueError of from_schema() leaves lrecl None *)
Lemma set_schema_unf {A} (dcount : list A -> nat) lrecl s :
  set_schema dcount lrecl s =
  match lrecl with
  | Some (S n) => Ok (S n)
  | _ => match from_schema dcount s with
         | Ok l => Ok (lend l)
         | Err ValueError => Ok 0
         | Err e => Err e
         end
  end.
Proof.
  unfold set_schema, set_schema_with. destruct lrecl as [[|n]|]; try reflexivity;
    (destruct (from_schema dcount s) as [l|[]]; reflexivity).
Qed.

Lemma from_schema_odo {A} (dcount : list A -> nat) s : js_has_odo s = true -> from_schema dcount s = Err ValueError.
Proof. intros H. unfold from_schema. rewrite H. reflexivity. Qed.

Definition no_lrecl (lrecl : option nat) : Prop := lrecl = None \/ lrecl = Some 0.

Lemma set_schema_none {A} (dcount : list A -> nat) lrecl s :
  no_lrecl lrecl -> js_has_odo s = true -> set_schema dcount lrecl s = Ok 0.
Proof. intros [-> | ->] H; rewrite set_schema_unf, (from_schema_odo dcount s H); reflexivity. Qed.

(* lrecl None (or 0) with an OCCURS DEPENDING ON layout: RECFM N, V and VB deliver exactly what they deliver with any
   positive lrecl (which they ignore); RECFM F has no record length to cut the file with and raises TypeError when the
   first row is asked for *)
Lemma lrecl_none_N {A} (dcount : list A -> nat) (kind : N) lrecl (n : nat) (s : js) (file : list A) :
  no_lrecl lrecl -> js_has_odo s = true ->
  rows_N dcount kind lrecl s file = rows_N dcount kind (Some (S n)) s file.
Proof. intros Hl H. unfold rows_N. rewrite (set_schema_none dcount lrecl s Hl H), set_schema_unf. reflexivity. Qed.

Lemma lrecl_none_bytes (dcount : list N -> nat) (kind : N) lrecl (n : nat) (s : js) (file : list N) :
  no_lrecl lrecl -> js_has_odo s = true ->
  rows_N dcount kind lrecl s file = rows_N dcount kind (Some (S n)) s file
  /\ rows_V dcount kind lrecl s file = rows_V dcount kind (Some (S n)) s file
  /\ rows_VB dcount kind lrecl s file = rows_VB dcount kind (Some (S n)) s file
  /\ rows_F dcount kind lrecl s file = Ok ([], Raised TypeError).
Proof.
  intros Hl H. split; [apply lrecl_none_N; assumption|].
  unfold rows_V, rows_VB, rows_F. rewrite (set_schema_none dcount lrecl s Hl H), set_schema_unf.
  split; [reflexivity|]. split; reflexivity.
Qed.

(* what the fix repaired: without the try (catches = []) set_schema itself raises, so no reader delivers a row *)
Lemma set_schema_old_refuted {A} (dcount : list A -> nat) (s : js) :
  js_has_odo s = true ->
  set_schema_with dcount [] 0 None s = Err ValueError /\ set_schema_with dcount [] 0 (Some 0) s = Err ValueError.
Proof. intros H. unfold set_schema_with. rewrite (from_schema_odo dcount s H). split; reflexivity. Qed.

(* set_schema never fails on a member of the family, whatever lrecl is *)
Lemma slice_nil {A} a b : @slice A [] a b = [].
Proof. unfold slice. rewrite skipn_nil. apply firstn_nil. Qed.

Lemma set_schema_total {A} (dcount : list A -> nat) lrecl t :
  flat_odo t = true -> exists l, set_schema dcount lrecl (build t) = Ok l.
Proof.
  intros Hf. rewrite set_schema_unf. destruct lrecl as [[|n]|]; try (eexists; reflexivity).
  all: unfold from_schema; destruct (js_has_odo (build t)); [eexists; reflexivity|].
  all: assert (Hc : counters_hold dcount (fun _ => dcount []) t []) by
         (destruct (flat_odo_inv t Hf) as (i0 & rd & kids & -> & _ & _); cbn [counters_hold]; intros; rewrite slice_nil; reflexivity).
  all: pose proof (nav_flat dcount t _ [] Hf Hc) as Hn; rewrite SR.Proofs.LayoutP.nav_of_unf in Hn.
  all: change (lwalk dcount [] (build t) (LayoutRule.eval (LayoutRule.env_start LayoutParams.from_schema_default) LayoutParams.from_schema_start) [])
         with (lwalk dcount [] (build t) 0 []).
  all: destruct (lwalk dcount [] (build t) 0 []) as [[l an]|ex]; [eexists; reflexivity|discriminate].
Qed.

(* the same for ANY lrecl, None and 0 included (since fix 64e9f81 set_schema does not fail on these layouts) *)
Lemma stream_N_any_lrecl {A} (dcount : list A -> nat) (kind : N) (lrecl : option nat) t es (rs : list (list A)) :
  flat_odo t = true -> Forall2 (rec_ok dcount t) es rs -> legal_N (N.to_nat buffer_size) rs = true ->
  exists rows s',
    rows_N dcount kind lrecl (build t) (write_N rs) = Ok (rows, Done, s')
    /\ map (@row_buf A) rows = spec_bufs (N.to_nat buffer_size) (write_N rs) (map (@length A) rs)
    /\ heads (map (@length A) rs) (map (@row_buf A) rows) = rs
    /\ Forall2 (fun rw r => nav_of dcount r (build t) = Ok (row_nav rw)) rows rs
    /\ Forall2 (fun rw e => lend (n_loc (row_nav rw)) = extent e t) rows es
    /\ buf s' = [] /\ rest s' = [].
Proof.
  intros Hf HF HL.
  destruct (stream_N_any_buffer dcount (N.to_nat buffer_size) kind t es rs buffer_positive Hf HF HL)
    as (rows & s' & Hrun & H).
  exists rows, s'. split; [|exact H].
  unfold rows_N. destruct (set_schema_total dcount lrecl t Hf) as [l ->]. rewrite refill_is_top_up, Hrun. reflexivity.
Qed.

Lemma stream_V_any_lrecl (dcount : list N -> nat) (kind : N) (lrecl : option nat) t es (rs : list (list N)) :
  flat_odo t = true -> Forall2 (rec_ok dcount t) es rs -> legal_V rs = true ->
  exists rows,
    rows_V dcount kind lrecl (build t) (write_V rs) = Ok (rows, Done)
    /\ map (@row_buf N) rows = rs
    /\ Forall2 (fun rw r => nav_of dcount r (build t) = Ok (row_nav rw)) rows rs
    /\ Forall2 (fun rw e => lend (n_loc (row_nav rw)) = extent e t) rows es.
Proof.
  intros Hf HF _. destruct (rows_of_ok dcount t Hf es rs HF) as (rows & Hrun & Hb & Hn).
  destruct (rows_facts dcount t rows es rs Hf Hn HF) as [F1 F2].
  exists rows. split; [|split; [exact Hb|split; assumption]].
  unfold rows_V. destruct (set_schema_total dcount lrecl t Hf) as [l ->].
  rewrite V_record_iter_ok. unfold rows_from. rewrite Hrun. reflexivity.
Qed.

Lemma stream_VB_any_lrecl (dcount : list N -> nat) (kind : N) (lrecl : option nat) t ess (blocks : list (list (list N))) :
  flat_odo t = true -> Forall2 (Forall2 (rec_ok dcount t)) ess blocks -> legal_VB blocks = true ->
  exists rows,
    rows_VB dcount kind lrecl (build t) (write_VB blocks) = Ok (rows, Done)
    /\ map (@row_buf N) rows = concat blocks
    /\ Forall2 (fun rw r => nav_of dcount r (build t) = Ok (row_nav rw)) rows (concat blocks)
    /\ Forall2 (fun rw e => lend (n_loc (row_nav rw)) = extent e t) rows (concat ess).
Proof.
  intros Hf HF HL. apply Forall2_concat in HF.
  destruct (rows_of_ok dcount t Hf _ _ HF) as (rows & Hrun & Hb & Hn).
  destruct (rows_facts dcount t rows _ _ Hf Hn HF) as [F1 F2].
  exists rows. split; [|split; [exact Hb|split; assumption]].
  unfold rows_VB. destruct (set_schema_total dcount lrecl t Hf) as [l ->].
  rewrite (VB_record_iter_ok kind blocks HL). unfold rows_from. rewrite Hrun. reflexivity.
Qed.

Definition old_tree : item :=
  Group 0%N Once None (ICons (Elem 1%N 1 Once None) (ICons (Elem 2%N 2 (Odo 1%N) None) (ICons (Elem 3%N 2 Once None) INil))).
Definition old_recs : list (list nat) := [[1; 11; 12; 13; 14]; [1; 21; 22; 23; 24]; [1; 31; 32; 33; 34]].
Definition old_env : env := fun _ => 1.

Lemma old_refill_refuted :
  exists (B : nat) (t : item) (es : list env) (rs : list (list nat)),
    flat_odo t = true /\ legal_N B rs = true
    /\ Forall2 (fun e r => length r = extent e t /\ counters_hold (hd 0) e t r) es rs
    /\ heads (map (@length nat) rs)
         (map (@row_buf nat) (fst (fst (row_loop (hd 0) (S (length (write_N rs))) 1 0 B (build t) (N_init B (write_N rs))))))
       <> rs.
Proof.
  exists 8, old_tree, [old_env; old_env; old_env], old_recs.
  split; [reflexivity|]. split; [reflexivity|]. split.
  - assert (H : forall r, In r old_recs -> length r = extent old_env old_tree /\ counters_hold (hd 0) old_env old_tree r).
    { intros r Hin. split.
      - destruct Hin as [<-|[<-|[<-|[]]]]; reflexivity.
      - cbn [counters_hold old_tree]. intros c sz o [<-|[]] Hf Hs. vm_compute in Hf, Hs.
        inversion Hf; inversion Hs; subst.
        destruct Hin as [<-|[<-|[<-|[]]]]; reflexivity. }
    unfold old_recs in *. repeat constructor; apply H; cbn; auto.
  - vm_compute. intros H. discriminate H.
Qed.

Lemma ex_counters e r :
  ex_dcount (slice r 0 2) = e 2%N -> (forall o, kid_start e (item_kids ex_tree) 6%N = Some o -> ex_dcount (slice r o (o + 1)) = e 6%N) ->
  counters_hold ex_dcount e ex_tree r.
Proof.
  intros H2 H6. cbn [counters_hold ex_tree]. intros c sz o Hin Hf Hs.
  cbn in Hin. destruct Hin as [<-|[<-|[]]].
  - vm_compute in Hf. inversion Hf; subst. cbv in Hs. inversion Hs; subst. exact H2.
  - vm_compute in Hf. inversion Hf; subst. apply H6. exact Hs.
Qed.

Lemma ex_records_ok :
  counters_hold ex_dcount ex_e1 ex_tree ex_r1 /\ length ex_r1 = extent ex_e1 ex_tree
  /\ counters_hold ex_dcount ex_e2 ex_tree ex_r2 /\ length ex_r2 = extent ex_e2 ex_tree
  /\ length ex_r1 <> length ex_r2.
Proof.
  split; [|split; [reflexivity|split; [|split; [reflexivity|vm_compute; discriminate]]]].
  - apply ex_counters; [reflexivity|]. intros o Hs. vm_compute in Hs. inversion Hs; subst. reflexivity.
  - apply ex_counters; [reflexivity|]. intros o Hs. vm_compute in Hs. inversion Hs; subst. reflexivity.
Qed.

Lemma ex_stream_ok :
  Forall2 (fun e r => length r = extent e ex_tree /\ counters_hold ex_dcount e ex_tree r) [ex_e1; ex_e2; ex_e1] [ex_r1; ex_r2; ex_r1]
  /\ legal_N 32 [ex_r1; ex_r2; ex_r1] = true /\ legal_N (N.to_nat buffer_size) [ex_r1; ex_r2; ex_r1] = true
  /\ legal_V [ex_r1; ex_r2; ex_r1] = true /\ legal_VB [[ex_r1; ex_r2]; [ex_r1]] = true.
Proof.
  destruct ex_records_ok as (C1 & L1 & C2 & L2 & _).
  split; [repeat constructor; assumption|]. repeat split; vm_compute; reflexivity.
Qed.

(* ------------------------------------------------------------------ fixed-length files (RECFM F / FB): records padded to the LRECL *)

(* rows_of needs only that the counters hold on each buffer handed to it *)
Lemma rows_of_ok_held {A} (dcount : list A -> nat) t : flat_odo t = true -> forall es (ps : list (list A)),
  Forall2 (fun e p => counters_hold dcount e t p) es ps ->
  exists rows, rows_of dcount (build t) ps = (rows, None)
    /\ map (@row_buf A) rows = ps /\ map (@row_nav A) rows = map (fun e => flat_nav e t) es.
Proof.
  intros Hf es ps HF. induction HF as [|e p es ps Hc HF IH].
  - exists []. repeat split; reflexivity.
  - destruct IH as (rows & Hrun & Hb & Hn). exists (mkrow p (flat_nav e t) :: rows).
    cbn [rows_of]. rewrite (nav_flat dcount t e p Hf Hc), Hrun. cbn [map row_buf row_nav]. rewrite Hb, Hn.
    repeat split; reflexivity.
Qed.

(* ps = the records as stored: record r followed by its padding *)
Definition padded {A} (r p : list A) : Prop := exists more, p = r ++ more.

Lemma stream_F (dcount : list N -> nat) (kind : N) (lrecl : nat) t es (rs ps : list (list N)) :
  flat_odo t = true -> Forall2 (rec_ok dcount t) es rs -> Forall2 padded rs ps -> legal_F lrecl ps = true ->
  exists rows,
    rows_F dcount kind (Some lrecl) (build t) (write_F ps) = Ok (rows, Done)
    /\ map (@row_buf N) rows = ps
    /\ Forall2 (fun rw r => nav_of dcount r (build t) = Ok (row_nav rw)) rows rs
    /\ Forall2 (fun rw e => lend (n_loc (row_nav rw)) = extent e t) rows es.
Proof.
  intros Hf HF HP HL.
  assert (Hheld : Forall2 (fun e p => counters_hold dcount e t p) es ps).
  { clear HL. revert ps HP. induction HF as [|e r es rs [Hlen Hc] HF IH]; intros ps HP.
    - inversion HP. constructor.
    - inversion HP as [|r0 p rs0 ps0 [more Hp] HP']. subst. constructor.
      + apply counters_frame; [exact Hf|lia|exact Hc].
      + apply IH. exact HP'. }
  destruct (rows_of_ok_held dcount t Hf es ps Hheld) as (rows & Hrun & Hb & Hn).
  destruct (rows_facts dcount t rows es rs Hf Hn HF) as [F1 F2].
  exists rows. split; [|split; [exact Hb|split; assumption]].
  assert (Hl : 1 <= lrecl).
  { unfold legal_F in HL. apply andb_prop in HL as [H1 _]. apply Nat.leb_le in H1. exact H1. }
  unfold rows_F, set_schema, set_schema_with. destruct lrecl as [|n]; [lia|].
  rewrite (F_record_iter_ok kind (S n) ps HL). unfold rows_from. rewrite Hrun. reflexivity.
Qed.
