(* Lemmas for C03 (format transparency).  Stdlib only.
   Part A  header-row formats at the level of the parser's content (lifting C09 through sheet_iter)
   Part B  NDJSON (explicit schema, DNav)
   Part C  fixed-width text (lines, offsets = partial sums of the widths)
   Part D  EBCDIC (cp037 decode after encode, RECFM F and N via C05, estruct text via C02)
   Part E  the registry selects the reader of every registered suffix
   Part F  the third-party parsers as Section variables with the ASSUMED hypothesis H_ext *)
From Coq Require Import ZArith NArith List Bool Arith Lia.
Import ListNotations.
Require Import SR.Base.Res SR.Spec.Transparency SR.Spec.Table SR.Spec.Recfm SR.Spec.Encode.
Require Import SR.Gen.Cp037 SR.Gen.RecfmParams.
Require Import SR.Model.HeaderRow SR.Model.Workbook.
Require SR.Model.Recfm SR.Model.Estruct SR.Model.Registry.
Require Import SR.Proofs.HeaderRowP SR.Proofs.RecfmP SR.Proofs.EstructP.
Open Scope nat_scope.

(* ================================================================ generic list facts *)
Lemma map_nth_ext {A B} (f : A -> B) (g : nat -> B) (l : list A) : forall start,
  (forall i k, nth_error l i = Some k -> f k = g (start + i)) ->
  map f l = map g (seq start (length l)).
Proof.
  induction l as [|a l IH]; intros start H; [reflexivity|].
  cbn [map length seq]. f_equal.
  - rewrite (H 0 a eq_refl). f_equal. lia.
  - apply IH. intros i k Hk. rewrite (H (S i) k Hk). f_equal. lia.
Qed.

Lemma map_seq_nth {A B} (G : option A -> B) (r : list A) :
  map (fun i => G (nth_error r i)) (seq 0 (length r)) = map (fun c => G (Some c)) r.
Proof.
  induction r as [|a r IH]; [reflexivity|].
  cbn [length seq map nth_error]. f_equal.
  rewrite <- seq_shift, map_map. cbn [nth_error]. exact IH.
Qed.

Lemma by_index_map {A B C} (f : A -> C) (G : option B -> C) (l : list A) (r : list B) :
  length r = length l ->
  (forall i k, nth_error l i = Some k -> f k = G (nth_error r i)) ->
  map f l = map (fun c => G (Some c)) r.
Proof.
  intros Hlen H. rewrite <- map_seq_nth, Hlen.
  apply (map_nth_ext f (fun i => G (nth_error r i)) l 0). intros i k Hk. cbn. apply H. exact Hk.
Qed.

Lemma nth_error_map_Some {A B} (f : A -> B) l i a : nth_error l i = Some a -> nth_error (map f l) i = Some (f a).
Proof. intros H. apply map_nth_error. exact H. Qed.

(* ================================================================ dictionaries *)
Lemma lookup_in_nodup {V W} (g : V -> W) (d : list (key * V)) k v :
  NoDup (map fst d) -> In (k, v) d -> lookup (map (fun s => (fst s, g (snd s))) d) k = Some (g v).
Proof.
  induction d as [|[k0 v0] d IH]; intros Hnd Hin; [destruct Hin|].
  cbn [map fst snd lookup]. cbn [map fst] in Hnd. inversion Hnd as [|x l Hnotin Hnd']; subst.
  destruct Hin as [E|Hin].
  - injection E as -> ->. rewrite key_eqb_refl. reflexivity.
  - rewrite key_eqb_neq; [apply IH; assumption|].
    intros ->. apply Hnotin. change k with (fst (k, v)). apply in_map. exact Hin.
Qed.

(* ================================================================ Part A: header-row formats *)
Definition wf_table (T : table) : Prop := NoDup (t_header T) /\ rect T = true.
Definition wf_workbook (W : workbook) : Prop := NoDup (map fst W) /\ Forall (fun s => wf_table (snd s)) W.

Lemma str_of_phys_row r : map str_of (phys_row r) = r.
Proof. unfold phys_row. rewrite map_map. cbn. apply map_id. Qed.

Lemma rect_row T r : rect T = true -> In r (t_rows T) -> length r = length (t_header T).
Proof.
  unfold rect. intros H Hin. rewrite forallb_forall in H. apply Nat.eqb_eq. apply H. exact Hin.
Qed.

(* one sheet: whatever the container, if the parser delivers the stored table for that name *)
Lemma read_sheet_header_ok c name T :
  wb_instances c name = Ok (phys_sheet T) -> wf_table T ->
  read_sheet_header c name (t_header T) = expected_rows T.
Proof.
  intros Hc [Hnd Hrect]. unfold read_sheet_header. rewrite Hc. cbn [bind]. unfold phys_sheet.
  destruct (rows_tl (phys_row (t_header T) :: map phys_row (t_rows T)) None) as [os Hos].
  cbn [data_rows tl] in Hos.
  destruct (by_name_table _ _ _ _ _ Hos) as (s & -> & Hby); [rewrite str_of_phys_row; exact Hnd|].
  rewrite Hos. cbn [bind fst snd]. unfold expected_rows. f_equal.
  rewrite map_map. apply map_ext_in. intros r Hr.
  pose proof (rect_row T r Hrect Hr) as Hlen.
  rewrite (by_index_map (fun k => nav_name s k (phys_row r)) (fun o => Ok o) (t_header T) (phys_row r)).
  - unfold phys_row. rewrite map_map. reflexivity.
  - unfold phys_row. rewrite map_length. exact Hlen.
  - intros i k Hk.
    apply (Hby (phys_row r) i (Txt k)). unfold phys_row. apply nth_error_map_Some. exact Hk.
Qed.

Lemma probes_headers (W : workbook) j s : nth_error W j = Some s -> probes_at (headers W) j = t_header (snd s).
Proof.
  intros H. unfold probes_at, headers.
  apply nth_error_nth. apply nth_error_map_Some with (f := fun s => t_header (snd s)) in H. exact H.
Qed.

Lemma sheets_ok c probes : forall (W : workbook) i,
  (forall s, In s W -> wb_instances c (fst s) = Ok (phys_sheet (snd s)) /\ wf_table (snd s)) ->
  (forall j s, nth_error W j = Some s -> probes_at probes (i + j) = t_header (snd s)) ->
  read_sheets_header c (map fst W) probes i = expected W.
Proof.
  induction W as [|s W IH]; intros i H1 H2; [reflexivity|].
  cbn [map read_sheets_header expected]. f_equal.
  - f_equal. destruct (H1 s (or_introl eq_refl)) as [Hc Hwf].
    pose proof (H2 0 s eq_refl) as Hp. rewrite Nat.add_0_r in Hp. rewrite Hp.
    apply read_sheet_header_ok; assumption.
  - apply IH.
    + intros s' Hs'. apply H1. right. exact Hs'.
    + intros j s' Hj. replace (S i + j) with (i + S j) by lia. apply H2. exact Hj.
Qed.

Lemma multi_ok (W : workbook) : wf_workbook W ->
  read_header (C_multi (map (fun s => (fst s, phys_sheet (snd s))) W)) (headers W) = expected W.
Proof.
  intros [Hnd Hwf]. unfold read_header. cbn [sheet_names]. rewrite map_map. cbn [fst].
  apply sheets_ok.
  - intros [n T] Hin. split; [|rewrite Forall_forall in Hwf; exact (Hwf _ Hin)].
    cbn [wb_instances fst snd]. erewrite lookup_in_nodup; [reflexivity|exact Hnd|exact Hin].
  - intros j s Hj. cbn. apply probes_headers. exact Hj.
Qed.

Lemma single_ok T : wf_table T ->
  read_header (C_single (phys_sheet T)) [t_header T] = expected [([], T)].
Proof.
  intros Hwf. unfold read_header. cbn [sheet_names read_sheets_header expected map fst snd probes_at nth].
  rewrite read_sheet_header_ok; [reflexivity|reflexivity|exact Hwf].
Qed.

(* ---- Numbers: sheet::table ---- *)
Lemma partition_no_colon (s t : key) :
  forallb (fun c => negb (c =? 58)%N) s = true -> partition_sep (s ++ name_sep ++ t) = (s, t).
Proof.
  induction s as [|c s IH]; intros H; [reflexivity|].
  cbn [forallb] in H. apply andb_prop in H as [Hc Hs]. apply negb_true_iff in Hc.
  cbn [app]. specialize (IH Hs). remember (s ++ name_sep ++ t) as rest eqn:E.
  destruct rest as [|d t']; [destruct s; discriminate E|].
  change (partition_sep (c :: d :: t'))
    with (if (c =? 58)%N && (d =? 58)%N then (@nil N, t') else let (a, b) := partition_sep (d :: t') in (c :: a, b)).
  rewrite Hc, IH. reflexivity.
Qed.

(* every stored (sheet, table) name pair is found again by partition *)
Definition splits_back_all (d : numbers_doc) : Prop :=
  forall s t, In s d -> In t (snd s) -> partition_sep (composite (fst s) (fst t)) = (fst s, fst t).

Definition wf_numbers (d : numbers_doc) : Prop :=
  NoDup (map fst d)
  /\ Forall (fun s => NoDup (map fst (snd s)) /\ Forall (fun t => wf_table (snd t)) (snd s)) d
  /\ splits_back_all d.

Lemma numbers_ok (d : numbers_doc) : wf_numbers d ->
  read_header (phys_numbers d) (headers (flatten_numbers d)) = expected (flatten_numbers d).
Proof.
  intros (Hnd & Hsheets & Hsplit). unfold read_header.
  assert (Hnames : sheet_names (phys_numbers d) = map fst (flatten_numbers d)).
  { unfold phys_numbers, flatten_numbers. cbn [sheet_names]. clear.
    induction d as [|s d IH]; [reflexivity|].
    cbn [map flat_map fst snd]. rewrite map_app, IH. f_equal.
    rewrite !map_map. reflexivity. }
  rewrite Hnames. apply sheets_ok.
  - intros [n T] Hin. unfold flatten_numbers in Hin. apply in_flat_map in Hin as (s & Hs & Hin).
    apply in_map_iff in Hin as (t & E & Ht). injection E as <- <-.
    rewrite Forall_forall in Hsheets. destruct (Hsheets s Hs) as [Hndt Hwft].
    rewrite Forall_forall in Hwft. split; [|exact (Hwft t Ht)].
    cbn [fst snd]. unfold phys_numbers. cbn [wb_instances].
    rewrite (Hsplit s t Hs Ht).
    destruct s as [sn tables]. cbn [fst snd] in *.
    erewrite (lookup_in_nodup (fun tbs => map (fun t => (fst t, phys_sheet (snd t))) tbs)); [|exact Hnd|exact Hs].
    destruct t as [tn T]. cbn [fst snd].
    erewrite (lookup_in_nodup phys_sheet); [reflexivity|exact Hndt|exact Ht].
  - intros j s Hj. cbn. apply probes_headers. exact Hj.
Qed.

(* ================================================================ Part B: NDJSON *)
Lemma lookup_combine {V} (hs : list key) : forall (vs : list V) i k,
  NoDup hs -> nth_error hs i = Some k -> i < length vs -> lookup (combine hs vs) k = nth_error vs i.
Proof.
  induction hs as [|h hs IH]; intros vs i k Hnd Hk Hi; [destruct i; discriminate|].
  inversion Hnd as [|x l Hnotin Hnd']; subst.
  destruct vs as [|v vs]; [cbn in Hi; lia|].
  destruct i as [|i]; cbn [nth_error] in Hk |- *.
  - injection Hk as ->. cbn [combine lookup]. rewrite key_eqb_refl. reflexivity.
  - cbn [combine lookup]. rewrite key_eqb_neq.
    + apply IH; [assumption|assumption|cbn in Hi; lia].
    + intros ->. apply Hnotin. eapply nth_error_In. exact Hk.
Qed.

Lemma find_entry_hand hs i k : NoDup hs -> nth_error hs i = Some k ->
  exists e, find_entry (hand_schema hs) k = Some e.
Proof.
  intros Hnd Hk. destruct (by_index_hand hs Hnd) as [Hnd' _].
  pose proof (keys_hand hs Hnd) as Hkeys.
  assert (He : exists e, nth_error (hand_schema hs) i = Some e /\ e_key e = k).
  { unfold keys in Hkeys. rewrite <- Hkeys in Hk.
    destruct (nth_error (hand_schema hs) i) as [e|] eqn:E.
    - exists e. split; [reflexivity|]. rewrite (map_nth_error e_key i _ E) in Hk. injection Hk as <-. reflexivity.
    - exfalso. apply nth_error_None in E.
      assert (nth_error (map e_key (hand_schema hs)) i = None) as H0 by (apply nth_error_None; rewrite map_length; exact E).
      rewrite H0 in Hk. discriminate. }
  destruct He as (e & He & <-). exists e. apply (find_entry_nth _ i e Hnd' He).
Qed.

Lemma json_ok T : wf_table T ->
  read_json (C_json (map (phys_doc T) (t_rows T))) [t_header T] = expected [([], T)].
Proof.
  intros [Hnd Hrect]. unfold read_json. cbn [sheet_names map json_instances bind probes_at nth expected fst snd].
  f_equal. f_equal.
  assert (Hp : rows_preset (Some (hand_schema (t_header T))) (map (phys_doc T) (t_rows T))
               = Ok (map (phys_doc T) (t_rows T))).
  { unfold rows_preset. destruct (map (phys_doc T) (t_rows T)); reflexivity. }
  rewrite Hp. cbn [bind]. unfold expected_rows. f_equal. rewrite map_map.
  apply map_ext_in. intros r Hr. pose proof (rect_row T r Hrect Hr) as Hlen.
  rewrite (by_index_map (fun k => dnav_name (hand_schema (t_header T)) k (phys_doc T r))
             (fun o => match o with Some v => Ok (Some v) | None => Err KeyError end)
             (t_header T) (map Txt r)).
  - rewrite map_map. reflexivity.
  - rewrite map_length. exact Hlen.
  - intros i k Hk. unfold dnav_name.
    destruct (find_entry_hand _ i k Hnd Hk) as [e ->].
    unfold phys_doc. erewrite lookup_combine; [reflexivity|exact Hnd|exact Hk|].
    assert (Hi : i < length (t_header T)) by (apply nth_error_Some; unfold text, key in *; congruence).
    rewrite map_length. unfold text, key in *. lia.
Qed.
