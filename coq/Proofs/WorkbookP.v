(* Lemmas for C03 (format transparency).  Stdlib only.
   Part A  header-row formats at the level of the parser's content (lifting C09 through sheet_iter)
   Part B  NDJSON (explicit schema, DNav)
   Part C  fixed-width text (lines, offsets = partial sums of the widths)
   Part D  EBCDIC (cp037 decode after encode, RECFM F and N via C05, estruct text via C02)
   Part E  the registry selects the reader of every registered suffix
   Part F  the third-party parsers as Section variables with the ASSUMED hypothesis H_ext *)
From Coq Require Import ZArith NArith List Bool Arith Lia.
Import ListNotations.
Require Import SR.Base.Res SR.Spec.Transparency SR.Spec.Table SR.Spec.Recfm SR.Spec.Encode.
Require Import SR.Gen.Cp037 SR.Gen.RecfmParams.
Require Import SR.Model.HeaderRow SR.Model.Workbook.
Require SR.Model.Recfm SR.Model.Estruct SR.Model.Registry.
Require Import SR.Proofs.HeaderRowP SR.Proofs.RecfmP SR.Proofs.EstructP.
Require Export SR.Spec.WorkbookWf.   (* wf_table, wf_workbook, splits_back_all, wf_numbers, bad_doc: statement-level definitions (G1) *)
Open Scope nat_scope.

(* ================================================================ the glue of implementations.py, in closed form
   Model/Workbook.v interprets the records of Gen/ImplParams.v (read from XLSUnpacker, XLSXUnpacker, ODSUnpacker and
   NumbersUnpacker on every run).  The lemmas of this section state what the interpretation comes to for the values the
   source has NOW, each proved by computation from those values; everything below uses these lemmas and never unfolds
   the interpreter.  An edit of the glue (iter_rows(min_row=2), str(cell.value), a dropped sheet name, another separator,
   reversed(...)) changes Gen/ImplParams.v and one of these proofs stops. *)
Lemma map_res_id {A} (f : A -> res A) (l : list A) : (forall x, f x = Ok x) -> map_res f l = Ok l.
Proof.
  intros H. induction l as [|x l IH]; [reflexivity|]. cbn [map_res]. rewrite H, IH. reflexivity.
Qed.

(* the cell delivered is the stored cell itself: cell.value of the library's cell object (xlrd, openpyxl, numbers_parser),
   the item of the row (pyexcel); no conversion *)
Lemma rule_cell (o : office) (c : cell) : deliver_cell o (glue_of o) c = Ok c.
Proof. destruct o as [[| |]|]; reflexivity. Qed.

(* every cell of the row, in order *)
Lemma rule_row (o : office) (r : row) : deliver_row o (glue_of o) r = Ok r.
Proof.
  unfold deliver_row.
  replace (apply_ops (g_cells_ops (glue_of o)) r) with r by (destruct o as [[| |]|]; reflexivity).
  apply map_res_id. apply rule_cell.
Qed.

(* every stored row, once, in order (no first-row offset, no step, no reversal; the ODS guard skips only a sheet
   without rows) *)
Lemma rule_pick_rows (o : office) (rows : sheet) : pick_rows o (glue_of o) rows = rows.
Proof.
  assert (H : firstn (length rows - 0) (skipn 0 rows) = rows).
  { rewrite Nat.sub_0_r. cbn [skipn]. apply firstn_all. }
  destruct o as [[| |]|]; unfold pick_rows; cbn; try exact H.
  destruct rows; [reflexivity|exact H].
Qed.

Lemma rule_deliver (o : office) (rows : sheet) : deliver o (glue_of o) rows = Ok rows.
Proof. unfold deliver. rewrite rule_pick_rows. apply map_res_id. apply rule_row. Qed.

(* sheet_iter of the XLS / XLSX / ODS unpackers: the stored sheet names, all of them, in stored order *)
Lemma rule_names_book (b : book) (ss : list (key * sheet)) : sheet_names (C_multi b ss) = map fst ss.
Proof. destruct b; reflexivity. Qed.

(* instance_iter(name) of the XLS / XLSX / ODS unpackers: the rows stored under that name, KeyError without such a sheet *)
Lemma rule_instances_book (b : book) (ss : list (key * sheet)) (name : key) :
  wb_instances (C_multi b ss) name = match lookup ss name with Some rows => Ok rows | None => Err KeyError end.
Proof.
  cbn [wb_instances]. unfold instances_book.
  replace (g_lookup (glue_of (O_book b))) with LK_name by (destruct b; reflexivity).
  destruct (lookup ss name) as [rows|]; [apply rule_deliver|reflexivity].
Qed.

(* the separator NumbersUnpacker.sheet_iter writes between sheet and table name, and the one instance_iter splits at *)
Lemma name_sep_eq : name_sep = [58; 58]%N.
Proof. reflexivity. Qed.

Lemma part_sep_eq : part_sep = [58; 58]%N.
Proof. reflexivity. Qed.

Lemma separators_agree : name_sep = [58; 58]%N /\ part_sep = name_sep.
Proof. split; reflexivity. Qed.

Lemma partition_sep_nil : partition_sep [] = ([], []).
Proof. reflexivity. Qed.

Lemma partition_sep_one (c : N) : partition_sep [c] = ([c], []).
Proof. unfold partition_sep. rewrite part_sep_eq. cbn. destruct (c =? 58)%N; reflexivity. Qed.

(* name.partition(::) one character at a time *)
Lemma partition_sep_unf (c d : N) (t : key) :
  partition_sep (c :: d :: t)
  = if (c =? 58)%N && (d =? 58)%N then ([], t) else let (a, b) := partition_sep (d :: t) in (c :: a, b).
Proof.
  unfold partition_sep. rewrite part_sep_eq.
  change (partition_by [58; 58]%N (c :: d :: t))
    with (match strip_prefix [58; 58]%N (c :: d :: t) with
          | Some rest => ([], rest)
          | None => let (a, b) := partition_by [58; 58]%N (d :: t) in (c :: a, b)
          end).
  cbn [strip_prefix]. destruct (c =? 58)%N; [destruct (d =? 58)%N|]; reflexivity.
Qed.

(* NumbersUnpacker.sheet_iter: sheet::table for every table of every sheet, sheets and tables in stored order *)
Lemma rule_names_numbers (ss : list (key * list (key * sheet))) :
  sheet_names (C_numbers ss) = flat_map (fun s => map (fun t => fst s ++ name_sep ++ fst t) (snd s)) ss.
Proof. reflexivity. Qed.

(* NumbersUnpacker.instance_iter(name): the rows of sheets[first].tables[last] for name.partition(::) *)
Lemma rule_instances_numbers (ss : list (key * list (key * sheet))) (name : key) :
  wb_instances (C_numbers ss) name =
  let (s, t) := partition_sep name in
  match lookup ss s with
  | None => Err KeyError
  | Some tables => match lookup tables t with Some rows => Ok rows | None => Err KeyError end
  end.
Proof.
  cbn [wb_instances]. unfold instances_numbers, partition_sep, part_sep.
  change (g_lookup glue_NUMBERS) with (LK_partition [58; 58]%N). cbv iota beta.
  destruct (partition_by [58; 58]%N name) as [s t].
  destruct (lookup ss s) as [tables|]; [|reflexivity].
  destruct (lookup tables t) as [rows|]; [apply (rule_deliver O_NUMBERS)|reflexivity].
Qed.

(* ================================================================ generic list facts *)
Lemma map_nth_ext {A B} (f : A -> B) (g : nat -> B) (l : list A) : forall start,
  (forall i k, nth_error l i = Some k -> f k = g (start + i)) ->
  map f l = map g (seq start (length l)).
Proof.
  induction l as [|a l IH]; intros start H; [reflexivity|].
  cbn [map length seq]. f_equal.
  - rewrite (H 0 a eq_refl). f_equal. lia.
  - apply IH. intros i k Hk. rewrite (H (S i) k Hk). f_equal. lia.
Qed.

Lemma map_seq_nth {A B} (G : option A -> B) (r : list A) :
  map (fun i => G (nth_error r i)) (seq 0 (length r)) = map (fun c => G (Some c)) r.
Proof.
  induction r as [|a r IH]; [reflexivity|].
  cbn [length seq map nth_error]. f_equal.
  rewrite <- seq_shift, map_map. cbn [nth_error]. exact IH.
Qed.

Lemma by_index_map {A B C} (f : A -> C) (G : option B -> C) (l : list A) (r : list B) :
  length r = length l ->
  (forall i k, nth_error l i = Some k -> f k = G (nth_error r i)) ->
  map f l = map (fun c => G (Some c)) r.
Proof.
  intros Hlen H. rewrite <- map_seq_nth, Hlen.
  apply (map_nth_ext f (fun i => G (nth_error r i)) l 0). intros i k Hk. cbn. apply H. exact Hk.
Qed.

Lemma Forall2_same_length {A B} (R : A -> B -> Prop) l l' : Forall2 R l l' -> length l = length l'.
Proof. induction 1; [reflexivity|cbn; f_equal; assumption]. Qed.

Lemma nth_error_map_Some {A B} (f : A -> B) l i a : nth_error l i = Some a -> nth_error (map f l) i = Some (f a).
Proof. intros H. apply map_nth_error. exact H. Qed.

(* ================================================================ dictionaries *)
Lemma lookup_in_nodup {V W} (g : V -> W) (d : list (key * V)) k v :
  NoDup (map fst d) -> In (k, v) d -> lookup (map (fun s => (fst s, g (snd s))) d) k = Some (g v).
Proof.
  induction d as [|[k0 v0] d IH]; intros Hnd Hin; [destruct Hin|].
  cbn [map fst snd lookup]. cbn [map fst] in Hnd. inversion Hnd as [|x l Hnotin Hnd']; subst.
  destruct Hin as [E|Hin].
  - injection E as -> ->. rewrite key_eqb_refl. reflexivity.
  - rewrite key_eqb_neq; [apply IH; assumption|].
    intros ->. apply Hnotin. change k with (fst (k, v)). apply in_map. exact Hin.
Qed.

(* ================================================================ Part A: header-row formats *)

Lemma str_of_phys_row r : map str_of (phys_row r) = r.
Proof. unfold phys_row. rewrite map_map. cbn. apply map_id. Qed.

Lemma rect_row T r : rect T = true -> In r (t_rows T) -> length r = length (t_header T).
Proof.
  unfold rect. intros H Hin. rewrite forallb_forall in H. apply Nat.eqb_eq. apply H. exact Hin.
Qed.

(* one sheet: whatever the container, if the parser delivers the stored table for that name *)
Lemma read_sheet_header_ok c name T :
  wb_instances c name = Ok (phys_sheet T) -> wf_table T ->
  read_sheet_header c name (t_header T) = expected_rows T.
Proof.
  intros Hc [Hnd Hrect]. unfold read_sheet_header. rewrite Hc. cbn [bind]. unfold phys_sheet.
  destruct (rows_tl (phys_row (t_header T) :: map phys_row (t_rows T)) None) as [os Hos].
  cbn [data_rows tl] in Hos.
  destruct (by_name_table _ _ _ _ _ Hos) as (s & -> & Hby); [rewrite str_of_phys_row; exact Hnd|].
  rewrite Hos. cbn [bind fst snd]. unfold expected_rows. f_equal.
  rewrite map_map. apply map_ext_in. intros r Hr.
  pose proof (rect_row T r Hrect Hr) as Hlen.
  rewrite (by_index_map (fun k => nav_name s k (phys_row r)) (fun o => Ok o) (t_header T) (phys_row r)).
  - unfold phys_row. rewrite map_map. reflexivity.
  - unfold phys_row. rewrite map_length. exact Hlen.
  - intros i k Hk.
    apply (Hby (phys_row r) i (Txt k)). unfold phys_row. apply nth_error_map_Some. exact Hk.
Qed.

Lemma probes_headers (W : workbook) j s : nth_error W j = Some s -> probes_at (headers W) j = t_header (snd s).
Proof.
  intros H. unfold probes_at, headers.
  apply nth_error_nth. apply nth_error_map_Some with (f := fun s => t_header (snd s)) in H. exact H.
Qed.

Lemma sheets_ok c probes : forall (W : workbook) i,
  (forall s, In s W -> wb_instances c (fst s) = Ok (phys_sheet (snd s)) /\ wf_table (snd s)) ->
  (forall j s, nth_error W j = Some s -> probes_at probes (i + j) = t_header (snd s)) ->
  read_sheets_header c (map fst W) probes i = expected W.
Proof.
  induction W as [|s W IH]; intros i H1 H2; [reflexivity|].
  cbn [map read_sheets_header expected]. f_equal.
  - f_equal. destruct (H1 s (or_introl eq_refl)) as [Hc Hwf].
    pose proof (H2 0 s eq_refl) as Hp. rewrite Nat.add_0_r in Hp. rewrite Hp.
    apply read_sheet_header_ok; assumption.
  - apply IH.
    + intros s' Hs'. apply H1. right. exact Hs'.
    + intros j s' Hj. replace (S i + j) with (i + S j) by lia. apply H2. exact Hj.
Qed.

Lemma multi_ok (b : book) (W : workbook) : wf_workbook W ->
  read_header (C_multi b (map (fun s => (fst s, phys_sheet (snd s))) W)) (headers W) = expected W.
Proof.
  intros [Hnd Hwf]. unfold read_header. rewrite rule_names_book, map_map. cbn [fst].
  apply sheets_ok.
  - intros [n T] Hin. split; [|rewrite Forall_forall in Hwf; exact (Hwf _ Hin)].
    rewrite rule_instances_book. cbn [fst snd]. erewrite lookup_in_nodup; [reflexivity|exact Hnd|exact Hin].
  - intros j s Hj. cbn. apply probes_headers. exact Hj.
Qed.

Lemma single_ok T : wf_table T ->
  read_header (C_single (phys_sheet T)) [t_header T] = expected [([], T)].
Proof.
  intros Hwf. unfold read_header. cbn [sheet_names read_sheets_header expected map fst snd probes_at nth].
  rewrite read_sheet_header_ok; [reflexivity|reflexivity|exact Hwf].
Qed.

(* ---- Numbers: sheet::table ---- *)
Lemma partition_no_colon (s t : key) :
  forallb (fun c => negb (c =? 58)%N) s = true -> partition_sep (s ++ name_sep ++ t) = (s, t).
Proof.
  induction s as [|c s IH]; intros H.
  { rewrite name_sep_eq. cbn [app]. rewrite partition_sep_unf. reflexivity. }
  cbn [forallb] in H. apply andb_prop in H as [Hc Hs]. apply negb_true_iff in Hc.
  cbn [app]. specialize (IH Hs). remember (s ++ name_sep ++ t) as rest eqn:E.
  destruct rest as [|d t']; [rewrite name_sep_eq in E; destruct s; discriminate E|].
  rewrite partition_sep_unf, Hc, IH. reflexivity.
Qed.

(* every stored (sheet, table) name pair is found again by partition *)

Lemma numbers_ok (d : numbers_doc) : wf_numbers d ->
  read_header (phys_numbers d) (headers (flatten_numbers d)) = expected (flatten_numbers d).
Proof.
  intros (Hnd & Hsheets & Hsplit). unfold read_header.
  assert (Hnames : sheet_names (phys_numbers d) = map fst (flatten_numbers d)).
  { unfold phys_numbers, flatten_numbers. rewrite rule_names_numbers, name_sep_eq. clear.
    induction d as [|s d IH]; [reflexivity|].
    cbn [map flat_map fst snd]. rewrite map_app, IH. f_equal.
    rewrite !map_map. reflexivity. }
  rewrite Hnames. apply sheets_ok.
  - intros [n T] Hin. unfold flatten_numbers in Hin. apply in_flat_map in Hin as (s & Hs & Hin).
    apply in_map_iff in Hin as (t & E & Ht). injection E as <- <-.
    rewrite Forall_forall in Hsheets. destruct (Hsheets s Hs) as [Hndt Hwft].
    rewrite Forall_forall in Hwft. split; [|exact (Hwft t Ht)].
    cbn [fst snd]. unfold phys_numbers. rewrite rule_instances_numbers.
    rewrite (Hsplit s t Hs Ht).
    destruct s as [sn tables]. cbn [fst snd] in *.
    erewrite (lookup_in_nodup (fun tbs => map (fun t => (fst t, phys_sheet (snd t))) tbs)); [|exact Hnd|exact Hs].
    destruct t as [tn T]. cbn [fst snd].
    erewrite (lookup_in_nodup phys_sheet); [reflexivity|exact Hndt|exact Ht].
  - intros j s Hj. cbn. apply probes_headers. exact Hj.
Qed.

(* Sheet.row_iter with the do-nothing loader and a bound schema delivers every instance
   (the rules of Gen/HeaderRowParams.v: HeaderRowP.rule_row_iter, rule_body_base) *)
Lemma rows_preset_some {S I} (keep : body_pred -> I -> bool) (s : S) (src : list I) :
  rows_preset keep (Some s) src = Ok src.
Proof.
  unfold rows_preset. rewrite rule_row_iter. cbn [bind fst snd]. rewrite rule_body_base.
  destruct src; reflexivity.
Qed.

(* ================================================================ Part B: NDJSON *)
Lemma lookup_combine {V} (hs : list key) : forall (vs : list V) i k,
  NoDup hs -> nth_error hs i = Some k -> i < length vs -> lookup (combine hs vs) k = nth_error vs i.
Proof.
  induction hs as [|h hs IH]; intros vs i k Hnd Hk Hi; [destruct i; discriminate|].
  inversion Hnd as [|x l Hnotin Hnd']; subst.
  destruct vs as [|v vs]; [cbn in Hi; lia|].
  destruct i as [|i]; cbn [nth_error] in Hk |- *.
  - injection Hk as ->. cbn [combine lookup]. rewrite key_eqb_refl. reflexivity.
  - cbn [combine lookup]. rewrite key_eqb_neq.
    + apply IH; [assumption|assumption|cbn in Hi; lia].
    + intros ->. apply Hnotin. eapply nth_error_In. exact Hk.
Qed.

Lemma find_entry_hand hs i k : NoDup hs -> nth_error hs i = Some k ->
  exists e, find_entry (hand_schema hs) k = Some e.
Proof.
  intros Hnd Hk. destruct (by_index_hand hs Hnd) as [Hnd' _].
  pose proof (keys_hand hs Hnd) as Hkeys.
  assert (He : exists e, nth_error (hand_schema hs) i = Some e /\ e_key e = k).
  { unfold keys in Hkeys. rewrite <- Hkeys in Hk.
    destruct (nth_error (hand_schema hs) i) as [e|] eqn:E.
    - exists e. split; [reflexivity|]. rewrite (map_nth_error e_key i _ E) in Hk. injection Hk as <-. reflexivity.
    - exfalso. apply nth_error_None in E.
      assert (nth_error (map e_key (hand_schema hs)) i = None) as H0 by (apply nth_error_None; rewrite map_length; exact E).
      rewrite H0 in Hk. discriminate. }
  destruct He as (e & He & <-). exists e. apply (find_entry_nth _ i e Hnd' He).
Qed.

(* DNav.name: a member the document does not have is a KeyError (instance[name], not instance.get(name)) *)
Lemma rule_dnav_missing : dnav_absent = Err KeyError.
Proof. reflexivity. Qed.

Lemma json_ok T : wf_table T ->
  read_json (C_json (map (phys_doc T) (t_rows T))) [t_header T] = expected [([], T)].
Proof.
  intros [Hnd Hrect]. unfold read_json. cbn [sheet_names map json_instances bind probes_at nth expected fst snd].
  f_equal. f_equal.
  assert (Hp : rows_preset keep_nonempty (Some (hand_schema (t_header T))) (map (phys_doc T) (t_rows T))
               = Ok (map (phys_doc T) (t_rows T))) by apply rows_preset_some.
  rewrite Hp. cbn [bind]. unfold expected_rows. f_equal. rewrite map_map.
  apply map_ext_in. intros r Hr. pose proof (rect_row T r Hrect Hr) as Hlen.
  rewrite (by_index_map (fun k => dnav_name (hand_schema (t_header T)) k (phys_doc T r))
             (fun o => match o with Some v => Ok (Some v) | None => Err KeyError end)
             (t_header T) (map Txt r)).
  - rewrite map_map. reflexivity.
  - rewrite map_length. exact Hlen.
  - intros i k Hk. unfold dnav_name. rewrite rule_dnav_missing.
    destruct (find_entry_hand _ i k Hnd Hk) as [e ->].
    unfold phys_doc. erewrite lookup_combine; [reflexivity|exact Hnd|exact Hk|].
    assert (Hi : i < length (t_header T)) by (apply nth_error_Some; unfold text, key in *; congruence).
    rewrite map_length. unfold text, key in *. lia.
Qed.

(* ================================================================ Part C: fixed-width text *)
(* ---- cells, padding ---- *)
Lemma pad_length w (c : text) : length c <= w -> length (pad w c) = w.
Proof. intros H. unfold pad. rewrite app_length, repeat_length. lia. Qed.

Lemma pad_exact w (c : text) : length c = w -> pad w c = c.
Proof. intros H. unfold pad. replace (w - length c) with 0 by lia. apply app_nil_r. Qed.

Definition len_is (w : nat) (c : list N) : Prop := length c = w.

Lemma pad_row_lengths : forall (ws : list nat) (r : list text),
  length r = length ws ->
  forallb (fun p => Nat.leb (length (snd p)) (fst p)) (combine ws r) = true ->
  Forall2 len_is ws (pad_row ws r).
Proof.
  induction ws as [|w ws IH]; intros [|c r] Hlen H; try discriminate Hlen; [constructor|].
  cbn [combine forallb fst snd] in H. apply andb_prop in H as [Hc Hr]. apply Nat.leb_le in Hc.
  unfold pad_row. cbn [combine map fst snd]. constructor.
  - apply pad_length. exact Hc.
  - apply IH; [cbn in Hlen; lia|exact Hr].
Qed.

Lemma fits_inv widths T : fits widths T = true ->
  length widths = length (t_header T)
  /\ (forall r, In r (t_rows T) -> length r = length widths
        /\ forallb (fun p => Nat.leb (length (snd p)) (fst p)) (combine widths r) = true).
Proof.
  unfold fits. intros H. apply andb_prop in H as [H Hrows]. apply andb_prop in H as [Hlen _].
  apply Nat.eqb_eq in Hlen. split; [exact Hlen|].
  intros r Hr. rewrite forallb_forall in Hrows. specialize (Hrows r Hr).
  apply andb_prop in Hrows as [H1 H2]. apply Nat.eqb_eq in H1. split; assumption.
Qed.

Lemma fits_positive widths T : fits widths T = true -> Forall (fun w => 1 <= w) widths.
Proof.
  unfold fits. intros H. apply andb_prop in H as [H _]. apply andb_prop in H as [_ H].
  rewrite forallb_forall in H. apply Forall_forall. intros w Hw. apply Nat.leb_le. apply H. exact Hw.
Qed.

(* cells that fill their columns exactly: the padded table is the table *)
Lemma pad_row_exact : forall (ws : list nat) (r : list text),
  length r = length ws ->
  forallb (fun p => Nat.eqb (length (snd p)) (fst p)) (combine ws r) = true ->
  pad_row ws r = r.
Proof.
  induction ws as [|w ws IH]; intros [|c r] Hlen H; try discriminate Hlen; [reflexivity|].
  cbn [combine forallb fst snd] in H. apply andb_prop in H as [Hc Hr]. apply Nat.eqb_eq in Hc.
  unfold pad_row. cbn [combine map fst snd]. f_equal; [apply pad_exact; exact Hc|].
  apply IH; [cbn in Hlen; lia|exact Hr].
Qed.

Lemma pad_table_exact widths T : fits_exactly widths T = true -> pad_table widths T = T.
Proof.
  unfold fits_exactly. intros H. apply andb_prop in H as [Hfit Hex].
  destruct (fits_inv widths T Hfit) as [_ Hrows].
  destruct T as [hs rows]. unfold pad_table. cbn [t_header t_rows] in *. f_equal.
  rewrite <- (map_id rows) at 2. apply map_ext_in. intros r Hr.
  rewrite forallb_forall in Hex. apply pad_row_exact; [apply (Hrows r Hr)|apply Hex; exact Hr].
Qed.

(* ---- offsets: field i lies after the fields before it ---- *)
Lemma field_at {A} : forall (hs : list key) (ws : list nat) (cells : list (list A)) (pre tail : list A) i k,
  NoDup hs -> length ws = length hs -> Forall2 (fun w c => length c = w) ws cells ->
  nth_error hs i = Some k ->
  exists w c, nth_error cells i = Some c /\ length c = w /\
    exists a b, lookup (locate (combine hs ws) (length pre)) k = Some (a, b)
      /\ b - a = w /\ slice a b (pre ++ concat cells ++ tail) = c.
Proof.
  induction hs as [|h hs IH]; intros ws cells pre tail i k Hnd Hlen HF Hk; [destruct i; discriminate|].
  destruct ws as [|w ws]; [discriminate Hlen|].
  inversion HF as [|w0 c ws0 cells' Hc HF']; subst.
  inversion Hnd as [|x l Hnotin Hnd']; subst.
  destruct i as [|i]; cbn [nth_error] in Hk.
  - injection Hk as ->. exists (length c), c. split; [reflexivity|]. split; [reflexivity|].
    exists (length pre), (length pre + length c). cbn [combine locate lookup]. rewrite key_eqb_refl.
    split; [reflexivity|]. split; [lia|].
    unfold slice. rewrite skipn_exact. replace (length pre + length c - length pre) with (length c) by lia.
    cbn [concat]. rewrite <- app_assoc. apply firstn_exact.
  - assert (Hne : key_eqb h k = false).
    { apply key_eqb_neq. intros ->. apply Hnotin. eapply nth_error_In. exact Hk. }
    destruct (IH ws cells' (pre ++ c) tail i k Hnd' (eq_add_S _ _ Hlen) HF' Hk)
      as (w' & c' & Hc' & Hl' & a & b & Hlook & Hba & Hslice).
    exists w', c'. split; [exact Hc'|]. split; [exact Hl'|]. exists a, b.
    cbn [combine locate lookup]. rewrite Hne. rewrite app_length in Hlook. split; [exact Hlook|].
    split; [exact Hba|]. cbn [concat]. rewrite <- Hslice. f_equal. rewrite <- !app_assoc. reflexivity.
Qed.

Lemma field_ok {A} (hs : list key) (ws : list nat) (cells : list (list A)) (tail : list A) i k :
  NoDup hs -> length ws = length hs -> Forall2 (fun w c => length c = w) ws cells ->
  nth_error hs i = Some k ->
  exists c, nth_error cells i = Some c /\ field (layout_of hs ws) k (concat cells ++ tail) = Ok (length c, c).
Proof.
  intros Hnd Hlen HF Hk.
  destruct (field_at hs ws cells [] tail i k Hnd Hlen HF Hk) as (w & c & Hc & Hl & a & b & Hlook & Hba & Hslice).
  exists c. split; [exact Hc|]. unfold field, layout_of. cbn [length] in Hlook. rewrite Hlook.
  cbn [app] in Hslice. rewrite Hslice, Hba, Hl. reflexivity.
Qed.

Lemma text_row_ok (hs : list key) (ws : list nat) (cells : list text) (tail : list N) :
  NoDup hs -> length ws = length hs -> Forall2 len_is ws cells ->
  map (fun k => text_value (layout_of hs ws) k (concat cells ++ tail)) hs
  = map (fun c => Ok (Some (Txt c))) cells.
Proof.
  intros Hnd Hlen HF.
  apply (by_index_map (fun k => text_value (layout_of hs ws) k (concat cells ++ tail))
           (fun o => match o with Some c => Ok (Some (Txt c)) | None => Err KeyError end) hs cells).
  - transitivity (length ws); [symmetry; exact (Forall2_same_length _ _ _ HF)|exact Hlen].
  - intros i k Hk. destruct (field_ok hs ws cells tail i k Hnd Hlen HF Hk) as (c & Hc & Hf).
    unfold text_value. rewrite Hf. cbn [bind snd]. unfold text, key in *. rewrite Hc. reflexivity.
Qed.

(* ---- lines ---- *)
Definition safe (s : list N) : bool := forallb (fun x => negb (N.eqb x nl) && negb (N.eqb x cr)) s.

Lemma safe_app a b : safe (a ++ b) = safe a && safe b.
Proof. apply forallb_app. Qed.

Lemma safe_repeat_blank n : safe (repeat blank n) = true.
Proof. induction n as [|n IH]; [reflexivity|]. cbn [repeat]. unfold safe in *. cbn [forallb]. rewrite IH. reflexivity. Qed.

Lemma safe_concat (l : list (list N)) : Forall (fun c => safe c = true) l -> safe (concat l) = true.
Proof.
  induction 1 as [|c l Hc Hl IH]; [reflexivity|]. cbn [concat]. rewrite safe_app, Hc, IH. reflexivity.
Qed.

Lemma safe_pad_row : forall (ws : list nat) (r : list text),
  forallb line_safe_text r = true -> Forall (fun c => safe c = true) (pad_row ws r).
Proof.
  induction ws as [|w ws IH]; intros [|c r] H; try (unfold pad_row; cbn; constructor).
  - cbn [forallb] in H. apply andb_prop in H as [Hc Hr].
    unfold pad. rewrite safe_app, safe_repeat_blank, andb_true_r. exact Hc.
  - cbn [forallb] in H. apply andb_prop in H as [Hc Hr]. apply (IH r Hr).
Qed.

Lemma safe_no_lf s : safe s = true -> forallb (fun c => negb (c =? 10)%N) s = true.
Proof.
  unfold safe. rewrite !forallb_forall. intros H x Hx. specialize (H x Hx). apply andb_prop in H as [H _]. exact H.
Qed.

Lemma universal_newlines_id s : forallb (fun c => negb (c =? 13)%N) s = true -> universal_newlines s = s.
Proof.
  induction s as [|c s IH]; intros H; [reflexivity|].
  cbn [forallb] in H. apply andb_prop in H as [Hc Hs]. apply negb_true_iff in Hc.
  cbn [universal_newlines]. rewrite Hc. f_equal. apply IH. exact Hs.
Qed.

Lemma lines_from_line body : forall cur rest,
  forallb (fun c => negb (c =? 10)%N) body = true ->
  lines_from cur (body ++ 10%N :: rest) = (rev cur ++ body ++ [10%N]) :: lines_from [] rest.
Proof.
  induction body as [|c body IH]; intros cur rest H.
  - cbn [app lines_from N.eqb Pos.eqb rev]. reflexivity.
  - cbn [forallb] in H. apply andb_prop in H as [Hc Hb]. apply negb_true_iff in Hc.
    cbn [app lines_from]. rewrite Hc. rewrite (IH (c :: cur) rest Hb). cbn [rev].
    rewrite <- !app_assoc. reflexivity.
Qed.

Lemma text_lines_rows (ls : list (list N)) : Forall (fun l => safe l = true) ls ->
  text_lines (concat (map (fun l => l ++ [10%N]) ls)) = map (fun l => l ++ [10%N]) ls.
Proof.
  intros H. unfold text_lines. rewrite universal_newlines_id.
  - induction H as [|l ls Hl Hls IH]; [reflexivity|].
    cbn [map concat]. rewrite <- app_assoc. cbn [app].
    rewrite (lines_from_line l [] _ (safe_no_lf l Hl)). cbn [rev app]. f_equal. exact IH.
  - induction H as [|l ls Hl Hls IH]; [reflexivity|].
    cbn [map concat]. rewrite !forallb_app, IH. cbn [forallb N.eqb Pos.eqb negb andb].
    rewrite !andb_true_r. unfold safe in Hl. rewrite forallb_forall in Hl. rewrite forallb_forall.
    intros x Hx. specialize (Hl x Hx). apply andb_prop in Hl as [_ Hl]. exact Hl.
Qed.

Lemma text_lines_map {X} (f : X -> list N) (xs : list X) :
  Forall (fun x => safe (f x) = true) xs ->
  text_lines (concat (map (fun x => f x ++ [nl]) xs)) = map (fun x => f x ++ [nl]) xs.
Proof.
  intros H. rewrite <- (map_map f (fun l => l ++ [nl])). apply text_lines_rows.
  apply Forall_forall. intros l Hl. apply in_map_iff in Hl as (x & <- & Hx).
  rewrite Forall_forall in H. apply H. exact Hx.
Qed.

Lemma rows_plain_some {S I} (s : S) (src : list I) : rows_plain (Some s) src = Ok src.
Proof. destruct src; reflexivity. Qed.

Lemma fixed_text_ok T widths :
  NoDup (t_header T) -> fits widths T = true -> line_safe T = true ->
  read_fixed (write_fixed_text T widths) (layout_of (t_header T) widths) (t_header T)
  = expected [([], pad_table widths T)].
Proof.
  intros Hnd Hfit Hsafe. destruct (fits_inv widths T Hfit) as [Hlen Hrows].
  unfold read_fixed, expected, expected_rows. cbn [map fst snd pad_table t_rows].
  f_equal. f_equal.
  unfold write_fixed_text, write_fixed_row.
  erewrite text_lines_map.
  - rewrite rows_preset_some. cbn [bind]. f_equal. rewrite !map_map. apply map_ext_in. intros r Hr.
    destruct (Hrows r Hr) as [Hr1 Hr2].
    apply text_row_ok; [exact Hnd|exact Hlen|apply pad_row_lengths; assumption].
  - apply Forall_forall. intros r Hr.
    apply safe_concat. apply safe_pad_row.
    unfold line_safe in Hsafe. rewrite forallb_forall in Hsafe. apply Hsafe. exact Hr.
Qed.

(* ================================================================ Part D: EBCDIC *)
(* ---- code page 037: decoding what was encoded ---- *)
Lemma index_in_nth c : forall (l : list N) (i b : N),
  index_in c l i = Some b -> exists j, b = (i + N.of_nat j)%N /\ nth_error l j = Some c.
Proof.
  induction l as [|x l IH]; intros i b H; [discriminate|].
  cbn [index_in] in H. destruct (N.eqb x c) eqn:E.
  - injection H as <-. apply N.eqb_eq in E. subst x. exists 0. split; [lia|reflexivity].
  - destruct (IH _ _ H) as (j & -> & Hj). exists (S j). split; [lia|exact Hj].
Qed.

Lemma decode_encode c : in_repertoire c = true -> cp037 (encode_char c) = c.
Proof.
  unfold in_repertoire, encode_char, cp037_encode. destruct (index_in c cp037_table 0) as [b|] eqn:E; [|discriminate].
  intros _. destruct (index_in_nth c _ _ _ E) as (j & -> & Hj).
  unfold cp037. replace (N.to_nat (0 + N.of_nat j)) with j by lia.
  apply nth_error_nth. exact Hj.
Qed.

Lemma decode_encode_text s : forallb in_repertoire s = true -> map cp037 (encode_text s) = s.
Proof.
  induction s as [|c s IH]; intros H; [reflexivity|].
  cbn [forallb] in H. apply andb_prop in H as [Hc Hs].
  unfold encode_text in *. cbn [map]. rewrite (decode_encode c Hc), (IH Hs). reflexivity.
Qed.

Lemma blank_in_repertoire : in_repertoire blank = true.
Proof. vm_compute. reflexivity. Qed.

(* the repertoire of code page 037 is Latin-1: every code point below 256 has a byte *)
Lemma latin1_in_repertoire c : (c < 256)%N -> in_repertoire c = true.
Proof.
  intros H.
  assert (Hall : forallb in_repertoire (map N.of_nat (seq 0 256)) = true) by (vm_compute; reflexivity).
  rewrite forallb_forall in Hall. apply Hall. apply in_map_iff. exists (N.to_nat c).
  split; [lia|]. apply in_seq. lia.
Qed.

Lemma repertoire_pad w c : forallb in_repertoire c = true -> forallb in_repertoire (pad w c) = true.
Proof.
  intros H. unfold pad. rewrite forallb_app, H. cbn [andb].
  induction (w - length c) as [|n IH]; [reflexivity|]. cbn [repeat forallb]. rewrite blank_in_repertoire, IH. reflexivity.
Qed.

Lemma repertoire_pad_row : forall (ws : list nat) (r : list text),
  forallb (forallb in_repertoire) r = true -> Forall (fun c => forallb in_repertoire c = true) (pad_row ws r).
Proof.
  induction ws as [|w ws IH]; intros [|c r] H; try (unfold pad_row; cbn; constructor).
  - cbn [forallb] in H. apply andb_prop in H as [Hc Hr]. apply repertoire_pad. exact Hc.
  - cbn [forallb] in H. apply andb_prop in H as [Hc Hr]. apply (IH r Hr).
Qed.

(* ---- one record ---- *)
Lemma usage_is_display : usage_DISPLAY = display_spelling.
Proof. reflexivity. Qed.

Lemma ebcdic_row_ok (hs : list key) (ws : list nat) (cells : list text) (tail : list N) :
  NoDup hs -> length ws = length hs -> Forall2 len_is ws cells ->
  Forall (fun c => forallb in_repertoire c = true) cells ->
  map (fun k => ebcdic_value (layout_of hs ws) k (encode_text (concat cells) ++ tail)) hs
  = map (fun c => Ok (Some (Txt c))) cells.
Proof.
  intros Hnd Hlen HF Hrep.
  assert (HF' : Forall2 (fun w (c : list N) => length c = w) ws (map encode_text cells)).
  { clear Hrep Hlen. induction HF as [|w c ws cells Hc HF IH]; [constructor|].
    cbn [map]. constructor; [unfold encode_text; rewrite map_length; exact Hc|exact IH]. }
  assert (Hcat : encode_text (concat cells) = concat (map encode_text cells)) by (unfold encode_text; apply concat_map).
  apply (by_index_map (fun k => ebcdic_value (layout_of hs ws) k (encode_text (concat cells) ++ tail))
           (fun o => match o with Some c => Ok (Some (Txt c)) | None => Err KeyError end) hs cells).
  - transitivity (length ws); [symmetry; exact (Forall2_same_length _ _ _ HF)|exact Hlen].
  - intros i k Hk. rewrite Hcat.
    destruct (field_ok hs ws (map encode_text cells) tail i k Hnd Hlen HF' Hk) as (c' & Hc' & Hf).
    unfold ebcdic_value. rewrite Hf. cbn [bind fst snd].
    rewrite nth_error_map in Hc'. unfold text, key in *.
    destruct (nth_error cells i) as [c|] eqn:Ec; [|discriminate Hc'].
    cbn [option_map] in Hc'. injection Hc' as <-.
    rewrite usage_is_display, (C02_text (length (encode_text c)) (encode_text c) eq_refl).
    rewrite decode_encode_text; [reflexivity|].
    rewrite Forall_forall in Hrep. apply Hrep. eapply nth_error_In. exact Ec.
Qed.

(* ---- the records of the file ---- *)
Lemma concat_length_sum {A} (ws : list nat) (cells : list (list A)) :
  Forall2 (fun w c => length c = w) ws cells -> length (concat cells) = list_sum ws.
Proof.
  induction 1 as [|w c ws cells Hc HF IH]; [reflexivity|].
  cbn [concat list_sum]. rewrite app_length, IH, Hc. reflexivity.
Qed.

Lemma fold_widths (l : layout) : forall acc, fold_left (fun a p => a + snd p) l acc = acc + list_sum (map snd l).
Proof.
  induction l as [|p l IH]; intros acc; cbn [fold_left map]; [cbn; lia|]. rewrite IH. change (list_sum (snd p :: map snd l)) with (snd p + list_sum (map snd l)). lia.
Qed.

Lemma layout_end_sum (hs : list key) (ws : list nat) : length ws = length hs ->
  layout_end (layout_of hs ws) = list_sum ws.
Proof.
  intros H. unfold layout_end, layout_of. rewrite fold_widths. cbn. f_equal.
  revert ws H. induction hs as [|h hs IH]; intros [|w ws] H; try discriminate H; [reflexivity|].
  cbn [combine map snd]. f_equal. apply IH. cbn in H. lia.
Qed.

Lemma sum_positive (ws : list nat) : ws <> [] -> Forall (fun w => 1 <= w) ws -> 1 <= list_sum ws.
Proof.
  intros Hne H. destruct ws as [|w ws]; [contradiction|].
  inversion H; subst. change (list_sum (w :: ws)) with (w + list_sum ws). lia.
Qed.

Definition record_of (widths : list nat) (r : list text) : list N := encode_text (concat (pad_row widths r)).

Lemma record_length widths T r : fits widths T = true -> In r (t_rows T) ->
  length (record_of widths r) = list_sum widths.
Proof.
  intros Hfit Hr. destruct (fits_inv widths T Hfit) as [_ Hrows]. destruct (Hrows r Hr) as [H1 H2].
  unfold record_of, encode_text. rewrite map_length.
  apply (concat_length_sum widths (pad_row widths r)). apply pad_row_lengths; assumption.
Qed.

Lemma N_run_extend {A} mode kind B : forall (lens extra : list nat) (s : Recfm.st A) bufs s',
  Recfm.N_run mode kind B s lens = (bufs, Recfm.Done, s') ->
  Recfm.N_run mode kind B s (lens ++ extra) = (bufs, Recfm.Done, s').
Proof.
  induction lens as [|n lens IH]; intros extra s bufs s' H.
  - cbn [app]. cbn [Recfm.N_run] in H. destruct (Recfm.buf s) eqn:E; [|discriminate H].
    destruct extra; cbn [Recfm.N_run]; rewrite E; exact H.
  - cbn [app Recfm.N_run] in *. destruct (Recfm.buf s) eqn:E; [exact H|].
    destruct (n =? 0); [discriminate H|].
    destruct (Recfm.N_step mode kind B s n) as [s0|e]; [|discriminate H].
    destruct (Recfm.N_run mode kind B s0 lens) as [[items f] s''] eqn:E2.
    injection H as <- -> <-. rewrite (IH extra s0 items s'' E2). reflexivity.
Qed.

Lemma heads_prefix {A} : forall (recs bufs : list (list A)),
  length bufs = length recs -> heads (map (@length A) recs) bufs = recs ->
  Forall2 (fun buf rec => exists tail, buf = rec ++ tail) bufs recs.
Proof.
  induction recs as [|rec recs IH]; intros [|buf bufs] Hlen H; try discriminate Hlen; [constructor|].
  unfold heads in H. cbn [map combine fst snd] in H. injection H as H1 H2.
  constructor.
  - exists (skipn (length rec) buf). rewrite <- H1 at 1. apply eq_sym, firstn_skipn.
  - apply IH; [cbn in Hlen; lia|exact H2].
Qed.

Lemma ebcdic_records_ok r kind wb_lrecl T widths :
  fits widths T = true -> t_header T <> [] ->
  (r = RECFM_N -> list_sum widths <= N.to_nat buffer_size) ->
  wb_lrecl = None \/ wb_lrecl = Some (list_sum widths) ->
  exists bufs, ebcdic_records r kind wb_lrecl (layout_of (t_header T) widths) (write_ebcdic T widths) = Ok bufs
    /\ Forall2 (fun buf row => exists tail, buf = record_of widths row ++ tail) bufs (t_rows T).
Proof.
  intros Hfit Hne Hbuf Hl. destruct (fits_inv widths T Hfit) as [Hlen _].
  pose proof (fits_positive widths T Hfit) as Hpos.
  assert (Htot : 1 <= list_sum widths).
  { apply sum_positive; [|exact Hpos]. intros ->. apply Hne. destruct (t_header T); [reflexivity|discriminate Hlen]. }
  set (recs := map (record_of widths) (t_rows T)).
  assert (Hfile : write_ebcdic T widths = concat recs) by reflexivity.
  assert (Hrl : forall rec, In rec recs -> length rec = list_sum widths).
  { intros rec Hin. apply in_map_iff in Hin as (row & <- & Hrow). eapply record_length; eassumption. }
  assert (Hend : layout_end (layout_of (t_header T) widths) = list_sum widths) by (apply layout_end_sum; exact Hlen).
  assert (Hmap : forall bufs, Forall2 (fun buf rec => exists tail : list N, buf = rec ++ tail) bufs recs ->
                   Forall2 (fun buf row => exists tail, buf = record_of widths row ++ tail) bufs (t_rows T)).
  { unfold recs. generalize (t_rows T). intros rows bufs. revert bufs.
    induction rows as [|row rows IH]; intros bufs HF; inversion HF; subst; constructor; [assumption|apply IH; assumption]. }
  destruct r.
  - (* RECFM_N *)
    assert (Hlegal : legal_N (N.to_nat buffer_size) recs = true).
    { unfold legal_N. apply forallb_forall. intros rec Hin. rewrite (Hrl rec Hin).
      apply andb_true_intro. split; [apply Nat.leb_le; exact Htot|apply Nat.leb_le; apply Hbuf; reflexivity]. }
    destruct (N_read_roundtrip kind recs Hlegal) as (bufs & s' & Hrun & Hlb & Hheads & _ & _).
    exists bufs. split; [|apply Hmap; apply heads_prefix; assumption].
    unfold ebcdic_records. rewrite Hend, Hfile.
    assert (Hlens : map (@length N) recs = repeat (list_sum widths) (length recs)).
    { clear - Hrl. induction recs as [|rec recs IH]; [reflexivity|].
      cbn [map length repeat]. rewrite (Hrl rec (or_introl eq_refl)). f_equal. apply IH.
      intros rec' Hin. apply Hrl. right. exact Hin. }
    assert (Hle : length recs <= S (length (concat recs))).
    { clear - Hrl Htot. induction recs as [|rec recs IH]; [cbn; lia|].
      cbn [concat length]. rewrite app_length, (Hrl rec (or_introl eq_refl)).
      assert (length recs <= S (length (concat recs))) by (apply IH; intros rec' Hin; apply Hrl; right; exact Hin). lia. }
    replace (S (length (concat recs))) with (length recs + (S (length (concat recs)) - length recs)) by lia.
    rewrite repeat_app, <- Hlens.
    unfold Recfm.N_read in *. unfold write_N in Hrun.
    rewrite (N_run_extend _ _ _ _ _ _ _ _ Hrun). reflexivity.
  - (* RECFM_F *)
    assert (Hlegal : legal_F (list_sum widths) recs = true).
    { unfold legal_F. apply andb_true_intro. split; [apply Nat.leb_le; exact Htot|].
      apply forallb_forall. intros rec Hin. apply Nat.eqb_eq. apply Hrl. exact Hin. }
    exists recs. split.
    + unfold ebcdic_records.
      assert (Hlr : sheet_lrecl wb_lrecl (layout_of (t_header T) widths) = list_sum widths).
      { destruct Hl as [->| ->]; cbn [sheet_lrecl]; [exact Hend|].
        destruct (list_sum widths) as [|n] eqn:En; [lia|reflexivity]. }
      rewrite Hlr, Hfile. change (concat recs) with (write_F recs).
      rewrite (F_record_iter_ok kind (list_sum widths) recs Hlegal). reflexivity.
    + apply Hmap. clear. induction recs as [|rec recs IH]; constructor; [exists []; symmetry; apply app_nil_r|exact IH].
Qed.

Lemma ebcdic_ok r kind wb_lrecl T widths :
  NoDup (t_header T) -> fits widths T = true -> repertoire_ok T = true -> t_header T <> [] ->
  (r = RECFM_N -> list_sum widths <= N.to_nat buffer_size) ->
  wb_lrecl = None \/ wb_lrecl = Some (list_sum widths) ->
  read_ebcdic r kind wb_lrecl (write_ebcdic T widths) (layout_of (t_header T) widths) (t_header T)
  = expected [([], pad_table widths T)].
Proof.
  intros Hnd Hfit Hrep Hne Hbuf Hl.
  destruct (ebcdic_records_ok r kind wb_lrecl T widths Hfit Hne Hbuf Hl) as (bufs & Hrec & HF).
  destruct (fits_inv widths T Hfit) as [Hlen Hrows].
  unfold read_ebcdic, expected, expected_rows. cbn [map fst snd pad_table t_rows].
  rewrite Hrec. cbn [bind]. rewrite rows_plain_some. cbn [bind]. f_equal. f_equal. f_equal.
  rewrite map_map.
  assert (Hrep' : forall row, In row (t_rows T) -> forallb (forallb in_repertoire) row = true).
  { intros row Hrow. unfold repertoire_ok in Hrep. rewrite forallb_forall in Hrep. apply Hrep. exact Hrow. }
  clear Hrec. revert HF Hrows Hrep'. generalize (t_rows T). intros rows HF.
  induction HF as [|buf row bufs rows (tail & ->) HF IH]; intros Hrows Hrep'; [reflexivity|].
  cbn [map]. f_equal.
  - destruct (Hrows row (or_introl eq_refl)) as [H1 H2]. unfold record_of.
    apply ebcdic_row_ok; [exact Hnd|exact Hlen|apply pad_row_lengths; assumption|].
    apply repertoire_pad_row. apply Hrep'. left. reflexivity.
  - apply IH; [intros row' Hin; apply Hrows; right; exact Hin|intros row' Hin; apply Hrep'; right; exact Hin].
Qed.

(* ================================================================ Part E: the suffix selects the reader *)
Lemma reader_for_ok f : reader_for f = Ok f.
Proof. destruct f; vm_compute; reflexivity. Qed.

(* ================================================================ Part F: through the third-party parsers *)
Lemma storable_single_inv f W : single_sheet f = true -> storable f W = true -> exists T, W = [([], T)].
Proof.
  unfold storable. intros -> H. destruct W as [|[n T] [|p l]]; [discriminate H| |destruct n; discriminate H].
  destruct n; [exists T; reflexivity|discriminate H].
Qed.

Lemma facade_phys f W : third_party f = true -> storable f W = true -> wf_workbook W ->
  facade_read f (phys f W) (headers W) = expected W.
Proof.
  intros Htp Hst [Hnd Hwf].
  destruct f; try discriminate Htp; cbn [facade_read phys];
    try (apply multi_ok; split; assumption).
  - destruct (storable_single_inv F_CSV W eq_refl Hst) as [T ->]; inversion Hwf; subst. apply single_ok. assumption.
  - destruct (storable_single_inv F_TAB W eq_refl Hst) as [T ->]; inversion Hwf; subst. apply single_ok. assumption.
  - destruct (storable_single_inv F_NDJSON W eq_refl Hst) as [T ->]; inversion Hwf; subst. apply json_ok. assumption.
Qed.

Lemma rect_pad_table widths T : fits widths T = true -> rect (pad_table widths T) = true.
Proof.
  intros Hfit. destruct (fits_inv widths T Hfit) as [Hlen Hrows].
  unfold rect, pad_table. cbn [t_header t_rows]. apply forallb_forall. intros r Hr.
  apply in_map_iff in Hr as (r0 & <- & Hr0). destruct (Hrows r0 Hr0) as [H1 _].
  apply Nat.eqb_eq. unfold pad_row. rewrite map_length, combine_length. unfold text in *. lia.
Qed.

Lemma wf_single T : wf_table T -> wf_workbook [([], T)].
Proof.
  intros H. split; [cbn; constructor; [intros []|constructor]|]. constructor; [exact H|constructor].
Qed.

Lemma storable_single f T : storable f [([], T)] = true.
Proof. unfold storable. destruct (single_sheet f); reflexivity. Qed.

Section ThirdParty.
Variable image : Type.
(* what csv.writer / openpyxl / pyexcel_ods3 / json.dumps produce for W, what csv.reader / openpyxl / pyexcel /
   xlrd / json.loads deliver for a file *)
Variable ext_write : fmt -> workbook -> image.
Variable ext_parse : fmt -> image -> content.
(* ASSUMED, not proved: the third-party pair returns the stored table *)
Hypothesis H_ext : forall f W, third_party f = true -> storable f W = true ->
  ext_parse f (ext_write f W) = phys f W.

Lemma facade_ok f W : third_party f = true -> storable f W = true -> wf_workbook W ->
  open_read ext_parse f (ext_write f W) (headers W) = Ok (expected W).
Proof.
  intros Htp Hst Hwf. unfold open_read. rewrite reader_for_ok. cbn [bind].
  rewrite (H_ext f W Htp Hst), (facade_phys f W Htp Hst Hwf). reflexivity.
Qed.

Lemma agree_ok f g W : third_party f = true -> third_party g = true ->
  storable f W = true -> storable g W = true -> wf_workbook W ->
  open_read ext_parse f (ext_write f W) (headers W) = open_read ext_parse g (ext_write g W) (headers W).
Proof. intros. rewrite !facade_ok by assumption. reflexivity. Qed.

(* a fixed-width file of T reads like any other format's file of the padded T *)
Lemma agree_fixed_text f T widths : third_party f = true ->
  NoDup (t_header T) -> fits widths T = true -> line_safe T = true ->
  open_read ext_parse f (ext_write f [([], pad_table widths T)]) [t_header T]
  = Ok (read_fixed (write_fixed_text T widths) (layout_of (t_header T) widths) (t_header T)).
Proof.
  intros Htp Hnd Hfit Hsafe. rewrite fixed_text_ok by assumption.
  apply (facade_ok f [([], pad_table widths T)] Htp (storable_single f _)).
  apply wf_single. split; [exact Hnd|apply rect_pad_table; exact Hfit].
Qed.

Lemma agree_ebcdic f r kind wb_lrecl T widths : third_party f = true ->
  NoDup (t_header T) -> fits widths T = true -> repertoire_ok T = true -> t_header T <> [] ->
  (r = RECFM_N -> list_sum widths <= N.to_nat buffer_size) ->
  wb_lrecl = None \/ wb_lrecl = Some (list_sum widths) ->
  open_read ext_parse f (ext_write f [([], pad_table widths T)]) [t_header T]
  = Ok (read_ebcdic r kind wb_lrecl (write_ebcdic T widths) (layout_of (t_header T) widths) (t_header T)).
Proof.
  intros Htp Hnd Hfit Hrep Hne Hbuf Hl. rewrite ebcdic_ok by assumption.
  apply (facade_ok f [([], pad_table widths T)] Htp (storable_single f _)).
  apply wf_single. split; [exact Hnd|apply rect_pad_table; exact Hfit].
Qed.

(* Numbers: the abstract input is a document of sheets holding named tables *)
Variable num_write : numbers_doc -> image.
Hypothesis H_num : forall d, ext_parse F_NUMBERS (num_write d) = phys_numbers d.

Lemma facade_numbers_ok d : wf_numbers d ->
  open_read ext_parse F_NUMBERS (num_write d) (headers (flatten_numbers d)) = Ok (expected (flatten_numbers d)).
Proof.
  intros Hwf. unfold open_read. rewrite reader_for_ok. cbn [bind facade_read].
  rewrite H_num, (numbers_ok d Hwf). reflexivity.
Qed.
End ThirdParty.

(* ================================================================ single-sheet formats, names, by-name form *)
Lemma single_sheet_names :
  (forall rows, sheet_names (C_single rows) = [[]])
  /\ (forall docs, sheet_names (C_json docs) = [[]])
  /\ (forall f W, third_party f = true -> single_sheet f = true -> sheet_names (phys f W) = [[]])
  /\ (forall f c probes, third_party f = true -> single_sheet f = true -> sheet_names c = [[]] ->
        map fst (facade_read f c probes) = [[]])
  /\ (forall file l probes, map fst (read_fixed file l probes) = [[]])
  /\ (forall r kind wb_lrecl file l probes, map fst (read_ebcdic r kind wb_lrecl file l probes) = [[]]).
Proof.
  repeat split; try reflexivity.
  - intros f W Htp Hs. destruct f; try discriminate Htp; try discriminate Hs; reflexivity.
  - intros f c probes Htp Hs Hn. destruct f; try discriminate Htp; try discriminate Hs; cbn [facade_read].
    + unfold read_header. rewrite Hn. reflexivity.
    + unfold read_header. rewrite Hn. reflexivity.
    + unfold read_json. rewrite Hn. reflexivity.
Qed.

Lemma combine_map_r {A B C} (g : B -> C) (hs : list A) : forall (r : list B),
  combine hs (map g r) = map (fun kc => (fst kc, g (snd kc))) (combine hs r).
Proof.
  induction hs as [|h hs IH]; intros [|c r]; try reflexivity. cbn [map combine fst snd]. f_equal. apply IH.
Qed.

Lemma expected_is_cells_by_name T : rows_by_name (t_header T) (expected_rows T) = expected_by_name T.
Proof.
  unfold rows_by_name, expected_rows, expected_by_name, cells_by_name. f_equal. rewrite !map_map.
  apply map_ext. intros r. exact (combine_map_r (fun c : key => @Ok (option cell) (Some (Txt c))) (t_header T) r).
Qed.

Lemma expected_shape (W : workbook) :
  map fst (expected W) = map fst W
  /\ Forall2 (fun o s => exists rows, snd o = Ok rows /\ length rows = length (t_rows (snd s))) (expected W) W.
Proof.
  split; [unfold expected; rewrite map_map; reflexivity|].
  induction W as [|s W IH]; constructor; [|exact IH].
  eexists. split; [reflexivity|]. rewrite map_length. reflexivity.
Qed.

(* ---- the known finding: a Numbers sheet name containing the separator ---- *)

Lemma numbers_refuted :
  NoDup (map fst bad_doc)
  /\ read_header (phys_numbers bad_doc) (headers (flatten_numbers bad_doc))
     = [([97; 58; 58; 98; 58; 58; 84]%N, Err KeyError)]
  /\ read_header (phys_numbers bad_doc) (headers (flatten_numbers bad_doc)) <> expected (flatten_numbers bad_doc).
Proof.
  split; [cbn; constructor; [intros []|constructor]|].
  split; [vm_compute; reflexivity|]. vm_compute. intros H. discriminate H.
Qed.

Lemma rows_preset_is_row_iter keep (s : schema) (src : sheet) :
  row_iter NoLoader (Some s) src = Ok (Some s, src) /\ rows_preset keep (Some s) src = Ok src.
Proof. split; [apply rows_noloader|apply rows_preset_some]. Qed.

(* ================================================================ the office glue is the identity on the parsed document
   (Props/C03d.v).  The cells are ANY cells - str, numbers, dates, None ([Obj]) - not only the text cells of [phys]. *)
Lemma office_glue_identity :
  (forall (b : book) (ss : list (key * sheet)),
     sheet_names (C_multi b ss) = map fst ss
     /\ forall name, wb_instances (C_multi b ss) name
                     = match lookup ss name with Some rows => Ok rows | None => Err KeyError end)
  /\ (forall (ss : list (key * list (key * sheet))),
     sheet_names (C_numbers ss) = flat_map (fun s => map (fun t => fst s ++ [58; 58]%N ++ fst t) (snd s)) ss
     /\ forall s t, forallb (fun c => negb (c =? 58)%N) s = true ->
          wb_instances (C_numbers ss) (s ++ [58; 58]%N ++ t)
          = match lookup ss s with
            | None => Err KeyError
            | Some tables => match lookup tables t with Some rows => Ok rows | None => Err KeyError end
            end).
Proof.
  split.
  - intros b ss. split; [apply rule_names_book|]. intros name. apply rule_instances_book.
  - intros ss. split; [rewrite rule_names_numbers, name_sep_eq; reflexivity|].
    intros s t Hs. rewrite rule_instances_numbers.
    pose proof (partition_no_colon s t Hs) as Hp. rewrite name_sep_eq in Hp. rewrite Hp. reflexivity.
Qed.

Lemma lookup_in_nodup_plain {V} (d : list (key * V)) k v :
  NoDup (map fst d) -> In (k, v) d -> lookup d k = Some v.
Proof.
  intros Hnd Hin. pose proof (lookup_in_nodup (fun x : V => x) d k v Hnd Hin) as H. cbv beta in H.
  assert (E : map (fun s : key * V => (fst s, snd s)) d = d).
  { clear. induction d as [|[a b] d IH]; [reflexivity|]. cbn [map fst snd]. f_equal. exact IH. }
  rewrite E in H. exact H.
Qed.

(* every stored sheet is announced by sheet_iter and read back whole: the same rows, in the same order, every cell as
   the parser holds it *)
Lemma office_every_sheet (b : book) (ss : list (key * sheet)) (n : key) (rows : sheet) :
  NoDup (map fst ss) -> In (n, rows) ss ->
  In n (sheet_names (C_multi b ss)) /\ wb_instances (C_multi b ss) n = Ok rows.
Proof.
  intros Hnd Hin. rewrite rule_names_book, rule_instances_book. split.
  - change n with (fst (n, rows)). apply in_map. exact Hin.
  - rewrite (lookup_in_nodup_plain ss n rows Hnd Hin). reflexivity.
Qed.

Lemma numbers_every_table (ss : list (key * list (key * sheet))) (s t : key) (tables : list (key * sheet)) (rows : sheet) :
  NoDup (map fst ss) -> In (s, tables) ss -> NoDup (map fst tables) -> In (t, rows) tables ->
  forallb (fun c => negb (c =? 58)%N) s = true ->
  In (s ++ [58; 58]%N ++ t) (sheet_names (C_numbers ss)) /\ wb_instances (C_numbers ss) (s ++ [58; 58]%N ++ t) = Ok rows.
Proof.
  intros Hnd Hs Hndt Ht Hcolon. destruct office_glue_identity as [_ Hn]. destruct (Hn ss) as [Hnames Hinst].
  rewrite Hnames, (Hinst s t Hcolon). split.
  - apply in_flat_map. exists (s, tables). split; [exact Hs|]. cbn [fst snd].
    change (s ++ [58; 58]%N ++ t) with ((fun x : key * sheet => s ++ [58; 58]%N ++ fst x) (t, rows)).
    apply in_map. exact Ht.
  - rewrite (lookup_in_nodup_plain ss s tables Hnd Hs), (lookup_in_nodup_plain tables t rows Hndt Ht). reflexivity.
Qed.
