(* Proofs/DupHeadingsJudgeP.v - the behaviour Judge/JC09.v pins for known finding 1
   (K-duplicate-heading-last-wins) is the model's, for EVERY sheet and every list of probed names:
   the KNOWN verdict of stream 4 (observation = pinned_last_wins) is given exactly to the behaviour
   C09c_duplicate_headings describes. *)
From Coq Require Import NArith List Bool Arith.
Import ListNotations.
Require Import SR.Base.Res SR.Spec.Table SR.Spec.DupHeadings SR.Model.HeaderRow SR.Proofs.HeaderRowP SR.Proofs.DupHeadingsP.
Require Import SR.Judge.JC09.

Lemma pinned_is_model (phys : sheet) (probes : list key) :
  pinned_last_wins phys probes = model_read (row_iter HeadingRow None phys) probes.
Proof.
  destruct phys as [|h body]; unfold pinned_last_wins.
  - rewrite rows_empty. reflexivity.
  - destruct (rows_schema h body None) as (s & Hs & ->). unfold model_read. f_equal.
    apply map_ext. intros r. rewrite (dup_values h s r Hs). f_equal.
    apply map_ext. intros k. rewrite (dup_nav h s r k Hs). reflexivity.
Qed.
