(* C01b: what is stored in a record is what navigation returns (C01 / C10 composed with C02).
   Lemmas for Props/C01b.v.  Parts:
     A  one field: the encoders of Spec/Encode.v fill the field's width and the item's decoder returns what was stored
        (C02's theorems; Props/C02.v)
     B  the KIND of location a navigation path reaches in the schema of a well-formed record description: an
        elementary occurrence is an AtomicLocation carrying the item's own anchor (walkv / vnav_name / vnav_index of
        Model/LayoutValue.v on build t; uniqueness of anchors from C10_cobol_like_built)
     C  the bytes of the specification's record at the specification's offset of a path are the encoding of the
        value assigned to that path (Spec/Record.v against Spec/Layout.v only)
     D  the composition, with C01_layout (where), C10_extends_C01 (same locations), C10_field (value = decoder on own bytes) *)
From Coq Require Import ZArith NArith List Bool Lia Arith ZifyBool ZifyN ZifyNat.
Import ListNotations.
Require Import SR.Base.Res SR.Base.Dec SR.Gen.Cp037 SR.Spec.Layout SR.Spec.Encode SR.Spec.Record
  SR.Model.Layout SR.Model.Estruct SR.Model.LayoutValue SR.Model.RecordValue SR.Spec.Coherence.
Require SR.Proofs.EstructP SR.Proofs.LayoutP SR.Proofs.LayoutOdoP SR.Proofs.LayoutValueP.
Open Scope nat_scope.

(* ================================================================== A. one field *)
Lemma list_pair_ind (P : list N -> Prop) :
  P [] -> (forall a, P [a]) -> (forall a b t, P t -> P (a :: b :: t)) -> forall l, P l.
Proof.
  intros H0 H1 H2. assert (H : forall l, P l /\ forall a, P (a :: l)).
  { induction l as [|b t [IH1 IH2]]; split; auto. }
  intro l. apply H.
Qed.

Lemma length_pack_pairs l : length (pack_pairs l) = length l / 2.
Proof.
  induction l as [|a|a b t IH] using list_pair_ind; [reflexivity|reflexivity|].
  cbn [pack_pairs length]. rewrite IH.
  change (S (S (length t))) with (1 * 2 + length t). rewrite Nat.div_add_l by lia. lia.
Qed.

Lemma length_enc_packed ds s : length (enc_packed ds s) = length ds / 2 + 1.
Proof.
  unfold enc_packed. destruct (Nat.even (length (ds ++ [s]))) eqn:E; rewrite length_pack_pairs; cbn [length];
    rewrite app_length in *; cbn [length] in *.
  - apply Nat.even_spec in E. destruct E as [k Hk].
    replace (length ds + 1) with (1 * 2 + (length ds - 1)) by lia. rewrite Nat.div_add_l by lia.
    replace (length ds) with (2 * (k - 1) + 1) at 2 by lia.
    replace (length ds - 1) with (2 * (k - 1)) by lia.
    rewrite (Nat.mul_comm 2 (k - 1)), Nat.div_mul by lia.
    replace ((k - 1) * 2 + 1) with (1 + (k - 1) * 2) by lia. rewrite Nat.div_add by lia. cbn. lia.
  - assert (Ho : Nat.odd (length ds + 1) = true) by (rewrite <- Nat.negb_even, E; reflexivity).
    apply Nat.odd_spec in Ho. destruct Ho as [k Hk].
    replace (S (length ds + 1)) with (1 * 2 + length ds) by lia. rewrite Nat.div_add_l by lia. lia.
Qed.

Lemma length_enc_zoned z : forall ds, length (enc_zoned ds z) = length ds.
Proof. induction ds as [|d t IH]; [reflexivity|]. destruct t; [reflexivity|]. cbn [enc_zoned length] in *. now rewrite IH. Qed.

Lemma length_to_be : forall w u, length (to_be w u) = w.
Proof. induction w as [|w IH]; intro u; [reflexivity|]. cbn [to_be]. rewrite app_length, IH. cbn. lia. Qed.

Lemma length_enc_be w z : length (enc_be w z) = w.
Proof. apply length_to_be. Qed.

Lemma length_lpad w ds : length ds <= w -> length (lpad w ds) = w.
Proof. intro H. unfold lpad. rewrite app_length, repeat_length. lia. Qed.

Lemma val_zeros : forall k, fold_left (fun a d => (10 * a + d)%N) (repeat 0%N k) 0%N = 0%N.
Proof. induction k as [|k IH]; [reflexivity|]. cbn [repeat fold_left]. exact IH. Qed.

Lemma val_lpad w ds : val (lpad w ds) = val ds.
Proof. unfold val, lpad. now rewrite fold_left_app, val_zeros. Qed.

Lemma digits_lpad w ds : forallb is_digit ds = true -> forallb is_digit (lpad w ds) = true.
Proof.
  intro H. unfold lpad. rewrite forallb_app, H, andb_true_r.
  induction (w - length ds) as [|k IH]; [reflexivity|]. cbn [repeat forallb]. now rewrite IH.
Qed.

Lemma cp037_enc_table : forallb (fun c => N.eqb (cp037 (cp037_enc c)) c) cp037_table = true.
Proof. vm_compute. reflexivity. Qed.

Lemma cp037_roundtrip c : in_cp037 c = true -> cp037 (cp037_enc c) = c.
Proof.
  unfold in_cp037. intro H. apply existsb_exists in H. destruct H as [x [Hin Hx]]. apply N.eqb_eq in Hx. subst x.
  pose proof (proj1 (forallb_forall _ _) cp037_enc_table c Hin) as H. now apply N.eqb_eq in H.
Qed.

Lemma cp037_text_roundtrip : forall cs, forallb in_cp037 cs = true -> map cp037 (map cp037_enc cs) = cs.
Proof.
  induction cs as [|c t IH]; intro H; [reflexivity|]. cbn [forallb] in H. apply andb_prop in H. destruct H as [Hc Ht].
  cbn [map]. now rewrite cp037_roundtrip, IH.
Qed.

Lemma existsb_eqb_in u l : existsb (N.eqb u) l = true -> In u l.
Proof. intro H. apply existsb_exists in H. destruct H as [x [Hin Hx]]. apply N.eqb_eq in Hx. now subst. Qed.

Lemma lpad_nonempty w ds : 1 <= w -> lpad w ds <> [].
Proof.
  intros Hw H. assert (L : length (lpad w ds) = 0) by now rewrite H.
  unfold lpad in L. rewrite app_length, repeat_length in L. lia.
Qed.

Lemma field_width k sz v : kind_ok k sz = true -> val_ok k v = true -> length (enc_field k v) = sz.
Proof.
  unfold kind_ok. intros Hk Hv. apply andb_prop in Hk. destruct Hk as [Hsz Hk]. apply Nat.eqb_eq in Hsz. subst sz.
  destruct k as [u s m n|s m n|u s m n|k]; destruct v as [ds sg|z|cs]; try discriminate; cbn [val_ok enc_field kind_width] in *.
  - apply andb_prop in Hv. destruct Hv as [Hv _]. apply andb_prop in Hv. destruct Hv as [_ Hl]. apply Nat.leb_le in Hl.
    rewrite length_enc_packed, length_lpad by exact Hl. reflexivity.
  - apply andb_prop in Hv. destruct Hv as [Hv _]. apply andb_prop in Hv. destruct Hv as [_ Hl]. apply Nat.leb_le in Hl.
    rewrite length_enc_zoned, length_lpad; [reflexivity|]. unfold spec_display_width. lia.
  - apply length_enc_be.
  - apply andb_prop in Hv. destruct Hv as [Hl _]. apply Nat.eqb_eq in Hl. now rewrite map_length.
Qed.

Lemma field_roundtrip (kd : kinds) i sz v :
  kind_ok (kd i) sz = true -> val_ok (kd i) v = true ->
  field_dec kd (Some (KName i)) (enc_field (kd i) v) = Ok (py_of (stored (kd i) v)).
Proof.
  unfold kind_ok, field_dec. intros Hk Hv. apply andb_prop in Hk. destruct Hk as [_ Hk].
  destruct (kd i) as [u s m n|s m n|u s m n|k]; destruct v as [ds sg|z|cs]; try discriminate;
    cbn [val_ok enc_field stored scale py_of] in *.
  - apply andb_prop in Hk. destruct Hk as [Hu Hd]. apply Nat.leb_le in Hd.
    apply andb_prop in Hv. destruct Hv as [Hv Hs]. apply andb_prop in Hv. destruct Hv as [Hdig Hl]. apply Nat.leb_le in Hl.
    rewrite (EstructP.C02_packed u (mkpic s m n) (lpad (m + n) ds) sg (existsb_eqb_in _ _ Hu) (digits_lpad _ _ Hdig) Hs).
    + now rewrite val_lpad.
    + rewrite length_lpad by exact Hl. exact Hd.
  - apply andb_prop in Hk. destruct Hk as [H1 Hd]. apply Nat.leb_le in Hd, H1.
    apply andb_prop in Hv. destruct Hv as [Hv Hs]. apply andb_prop in Hv. destruct Hv as [Hdig Hl]. apply Nat.leb_le in Hl.
    rewrite (EstructP.C02_zoned (mkpic s m n) (lpad (spec_display_width s (m + n)) ds) sg (lpad_nonempty _ _ H1) (digits_lpad _ _ Hdig) Hs).
    + now rewrite val_lpad.
    + rewrite length_lpad; [exact Hd|]. unfold spec_display_width. lia.
  - apply andb_prop in Hk. destruct Hk as [Hu Hw]. unfold binary_width in *.
    destruct (spec_binary_width (m + n)) as [w|] eqn:Ew; [|discriminate].
    apply andb_prop in Hv. destruct Hv as [Hlo Hhi].
    apply (EstructP.C02_binary u (mkpic s m n) w z (existsb_eqb_in _ _ Hu) Ew). split; [apply Z.leb_le, Hlo|apply Z.ltb_lt, Hhi].
  - apply andb_prop in Hv. destruct Hv as [Hl Hc]. apply Nat.eqb_eq in Hl.
    rewrite (EstructP.C02_text k (map cp037_enc cs)) by now rewrite map_length.
    now rewrite cp037_text_roundtrip.
Qed.

(* ================================================================== C. the specification's record, against Spec/Layout.v *)
Lemma skipn_add {T} : forall a b (l : list T), skipn (a + b) l = skipn b (skipn a l).
Proof.
  induction a as [|a IH]; intros b l; [reflexivity|]. destruct l as [|x l]; [now rewrite !skipn_nil|]. cbn [Nat.add skipn]. apply IH.
Qed.

Lemma slice_within {T} (R : list T) st n A K C :
  slice R st (st + n) = A ++ K ++ C -> slice R (st + length A) (st + length A + length K) = K.
Proof.
  unfold slice. replace (st + n - st) with n by lia. replace (st + length A + length K - (st + length A)) with (length K) by lia.
  intro H. rewrite skipn_add. set (T0 := skipn st R) in *.
  rewrite <- (firstn_skipn n T0), H. rewrite <- !app_assoc.
  rewrite skipn_app, skipn_all, Nat.sub_diag. cbn [skipn app].
  rewrite firstn_app, firstn_all, Nat.sub_diag. cbn [firstn]. now rewrite app_nil_r.
Qed.

Lemma length_flat_map_const {T} (f : nat -> list T) w : forall l,
  (forall j, In j l -> length (f j) = w) -> length (flat_map f l) = length l * w.
Proof.
  induction l as [|a t IH]; intro H; [reflexivity|]. cbn [flat_map length]. rewrite app_length, H, IH; [lia| |now left].
  intros j Hj. apply H. now right.
Qed.

Lemma flat_map_seq_split {T} (f : nat -> list T) w : forall n a i,
  (forall j, a <= j < a + n -> length (f j) = w) -> i < n ->
  exists A C, flat_map f (seq a n) = A ++ f (a + i) ++ C /\ length A = i * w.
Proof.
  induction n as [|n IH]; intros a i H Hi; [lia|]. cbn [seq flat_map]. destruct i as [|i].
  - exists [], (flat_map f (seq (S a) n)). rewrite Nat.add_0_r. split; reflexivity.
  - destruct (IH (S a) i) as [A [C [E L]]]; [intros j Hj; apply H; lia|lia|].
    exists (f a ++ A), C. rewrite E. replace (S a + i) with (a + S i) by lia. rewrite <- app_assoc. split; [reflexivity|].
    rewrite app_length, L, H by lia. lia.
Qed.

Section RecordLemmas.
  Variable kd : kinds.
  Variable vals : assignment.
  Variable e : env.

  Definition view_bytes (i0 : id) (v : view) (path : list step) : list N :=
    match v with
    | VItem x => rec_item kd vals e x path
    | VOcc (Elem i _ _ _) => enc_field (kd i) (vals (path ++ [PName i]))
    | VOcc (Group _ _ _ ks) => rec_kids kd vals e ks path
    | VAtom _ => enc_field (kd i0) (vals path)
    end.

  Definition ok_view (i0 : id) (v : view) (path : list step) : bool :=
    match v with
    | VItem x => ok_item kd vals e x path
    | VOcc (Elem i sz _ _) => kind_ok (kd i) sz && val_ok (kd i) (vals (path ++ [PName i]))
    | VOcc (Group _ _ _ ks) => ok_kids kd vals e ks path
    | VAtom sz => kind_ok (kd i0) sz && val_ok (kd i0) (vals path)
    end.

  Lemma rec_item_elem_once i sz rd path : rec_item kd vals e (Elem i sz Once rd) path = enc_field (kd i) (vals path).
  Proof. reflexivity. Qed.
  Lemma rec_item_elem_table i sz oc rd path : oc <> Once ->
    rec_item kd vals e (Elem i sz oc rd) path
    = flat_map (fun j => enc_field (kd i) (vals (path ++ [PIndex j; PName i]))) (seq 0 (count e oc)).
  Proof. destruct oc; [congruence|reflexivity|reflexivity]. Qed.
  Lemma rec_item_group_once i rd ks path : rec_item kd vals e (Group i Once rd ks) path = rec_kids kd vals e ks path.
  Proof. reflexivity. Qed.
  Lemma rec_item_group_table i oc rd ks path : oc <> Once ->
    rec_item kd vals e (Group i oc rd ks) path
    = flat_map (fun j => rec_kids kd vals e ks (path ++ [PIndex j])) (seq 0 (count e oc)).
  Proof. destruct oc; [congruence|reflexivity|reflexivity]. Qed.
  Lemma rec_kids_cons x xs path : rec_kids kd vals e (ICons x xs) path
    = (if is_redefiner x then [] else rec_item kd vals e x (path ++ [PName (item_id x)])) ++ rec_kids kd vals e xs path.
  Proof. reflexivity. Qed.

  Lemma ok_item_elem_once i sz rd path :
    ok_item kd vals e (Elem i sz Once rd) path = kind_ok (kd i) sz && val_ok (kd i) (vals path).
  Proof. reflexivity. Qed.
  Lemma ok_item_elem_table i sz oc rd path : oc <> Once ->
    ok_item kd vals e (Elem i sz oc rd) path
    = kind_ok (kd i) sz && forallb (fun j => val_ok (kd i) (vals (path ++ [PIndex j; PName i]))) (seq 0 (count e oc)).
  Proof. destruct oc; [congruence|reflexivity|reflexivity]. Qed.
  Lemma ok_item_group_once i rd ks path : ok_item kd vals e (Group i Once rd ks) path = ok_kids kd vals e ks path.
  Proof. reflexivity. Qed.
  Lemma ok_item_group_table i oc rd ks path : oc <> Once ->
    ok_item kd vals e (Group i oc rd ks) path
    = forallb (fun j => ok_kids kd vals e ks (path ++ [PIndex j])) (seq 0 (count e oc)).
  Proof. destruct oc; [congruence|reflexivity|reflexivity]. Qed.
  Lemma ok_kids_cons x xs path : ok_kids kd vals e (ICons x xs) path
    = (if is_redefiner x then true else ok_item kd vals e x (path ++ [PName (item_id x)])) && ok_kids kd vals e xs path.
  Proof. reflexivity. Qed.

  Lemma occ_cases (oc : occ) : oc = Once \/ oc <> Once.
  Proof. destruct oc; [now left|right; discriminate|right; discriminate]. Qed.

  (* the record has the specification's length *)
  Lemma length_rec :
    (forall x path, ok_item kd vals e x path = true -> length (rec_item kd vals e x path) = extent e x)
    /\ (forall ks path, ok_kids kd vals e ks path = true -> length (rec_kids kd vals e ks path) = kids_extent e ks).
  Proof.
    apply item_items_ind.
    - intros i sz oc rd path H. unfold extent. cbn [item_oc ext1]. destruct (occ_cases oc) as [->|Hoc].
      + rewrite ok_item_elem_once in H. apply andb_prop in H. destruct H as [Hk Hv].
        rewrite rec_item_elem_once, (field_width _ _ _ Hk Hv). cbn [count]. lia.
      + rewrite ok_item_elem_table in H by exact Hoc. apply andb_prop in H. destruct H as [Hk Hv].
        rewrite rec_item_elem_table by exact Hoc. rewrite (length_flat_map_const _ sz), seq_length; [reflexivity|].
        intros j Hj. apply (field_width _ _ _ Hk). exact (proj1 (forallb_forall _ _) Hv j Hj).
    - intros i oc rd ks IH path H. unfold extent. cbn [item_oc ext1]. destruct (occ_cases oc) as [->|Hoc].
      + rewrite ok_item_group_once in H. rewrite rec_item_group_once, (IH _ H). cbn [count]. lia.
      + rewrite ok_item_group_table in H by exact Hoc. rewrite rec_item_group_table by exact Hoc.
        rewrite (length_flat_map_const _ (kids_extent e ks)), seq_length; [reflexivity|].
        intros j Hj. apply IH. exact (proj1 (forallb_forall _ _) H j Hj).
    - reflexivity.
    - intros x IHx xs IHxs path H. rewrite ok_kids_cons in H. apply andb_prop in H. destruct H as [H1 H2].
      rewrite rec_kids_cons, app_length, (IHxs _ H2). cbn [kids_extent].
      destruct (is_redefiner x); [reflexivity|]. rewrite (IHx _ H1). reflexivity.
  Qed.

  Lemma length_view i0 v path : ok_view i0 v path = true -> length (view_bytes i0 v path) = view_size e v.
  Proof.
    destruct v as [x|x|sz]; cbn [ok_view view_bytes view_size].
    - apply (proj1 length_rec).
    - destruct x as [i sz oc rd|i oc rd ks]; cbn [ext1].
      + intro H. apply andb_prop in H. destruct H as [Hk Hv]. exact (field_width _ _ _ Hk Hv).
      + apply (proj2 length_rec).
    - intro H. apply andb_prop in H. destruct H as [Hk Hv]. exact (field_width _ _ _ Hk Hv).
  Qed.

  (* a non-redefining child: its bytes sit in the group's bytes at the specification's kid_start *)
  Lemma kids_split k x path : forall ks off seen,
    find_kid ks k = Some x -> is_redefiner x = false -> ok_kids kd vals e ks path = true ->
    exists A C, rec_kids kd vals e ks path = A ++ rec_item kd vals e x (path ++ [PName k]) ++ C
      /\ option_map snd (find (fun p => N.eqb (fst p) k) (kid_starts e ks off seen)) = Some (off + length A)
      /\ ok_item kd vals e x (path ++ [PName k]) = true.
  Proof.
    induction ks as [|x0 xs IH]; intros off seen Hf Hr Hok; [discriminate|].
    cbn [find_kid] in Hf. rewrite ok_kids_cons in Hok. apply andb_prop in Hok. destruct Hok as [H0 Hxs].
    rewrite rec_kids_cons. cbn [kid_starts]. destruct (N.eqb (item_id x0) k) eqn:Ek.
    - inversion Hf; subst x0. apply N.eqb_eq in Ek. unfold is_redefiner in Hr, H0 |- *.
      destruct (item_redef x) as [u|]; [discriminate|]. rewrite Ek in *.
      exists [], (rec_kids kd vals e xs path). cbn [find fst app length]. rewrite N.eqb_refl. cbn [option_map snd].
      split; [reflexivity|]. split; [f_equal; lia|exact H0].
    - unfold is_redefiner in H0 |- *. destruct (item_redef x0) as [u|] eqn:Er.
      + destruct (IH off ((item_id x0,
            match find (fun p => N.eqb (fst p) u) seen with Some p => snd p | None => off end) :: seen) Hf Hr Hxs)
          as [A [C [E [S O]]]].
        exists A, C. cbn [find fst]. rewrite Ek. cbn [app]. split; [exact E|]. split; [exact S|exact O].
      + destruct (IH (off + extent e x0) ((item_id x0, off) :: seen) Hf Hr Hxs) as [A [C [E [S O]]]].
        exists (rec_item kd vals e x0 (path ++ [PName (item_id x0)]) ++ A), C. cbn [find fst]. rewrite Ek.
        split; [rewrite E, <- app_assoc; reflexivity|]. split; [|exact O].
        rewrite S, app_length, (proj1 length_rec _ _ H0). f_equal. lia.
  Qed.

  Definition step_id (s : step) (i0 : id) : id := match s with PName k => k | PIndex _ => i0 end.
  Definition not_redefiner (v : view) : bool := negb (match v with VItem x => is_redefiner x | _ => false end).

  Lemma find_kid_id : forall ks k x, find_kid ks k = Some x -> item_id x = k.
  Proof.
    induction ks as [|x0 xs IH]; intros k x H; [discriminate|]. cbn [find_kid] in H.
    destruct (N.eqb (item_id x0) k) eqn:E; [inversion H; subst; now apply N.eqb_eq|eauto].
  Qed.

  Lemma in_kids_split k ks path st v' st' :
    (match find_kid ks k, kid_start e ks k with
     | Some x, Some o => inl (VItem x, st + o)
     | _, _ => inr NoSuchName
     end) = inl (v', st') ->
    not_redefiner v' = true -> ok_kids kd vals e ks path = true ->
    exists A C, rec_kids kd vals e ks path = A ++ view_bytes k v' (path ++ [PName k]) ++ C
      /\ st' = st + length A /\ ok_view k v' (path ++ [PName k]) = true.
  Proof.
    intros H Hn Hok. destruct (find_kid ks k) as [x|] eqn:Ef; [|discriminate].
    destruct (kid_start e ks k) as [o|] eqn:Es; [|discriminate]. inversion H; subst v' st'.
    unfold not_redefiner in Hn. apply negb_true_iff in Hn.
    destruct (kids_split k x path ks 0 [] Ef Hn Hok) as [A [C [E [S O]]]].
    unfold kid_start in Es. rewrite S in Es. inversion Es; subst o.
    exists A, C. cbn [view_bytes ok_view]. repeat split; [exact E|exact O].
  Qed.

  (* one navigation step *)
  Lemma step_bytes i0 v st s v' st' path :
    ok_view i0 v path = true -> spec_step e v st s = inl (v', st') -> not_redefiner v' = true ->
    exists A C, view_bytes i0 v path = A ++ view_bytes (step_id s i0) v' (path ++ [s]) ++ C
      /\ st' = st + length A /\ ok_view (step_id s i0) v' (path ++ [s]) = true.
  Proof.
    intros Hok Hs Hn. destruct s as [k|j]; cbn [spec_step step_id] in *.
    - destruct v as [x|x|sz]; [| |discriminate].
      + destruct x as [i sz oc rd|i oc rd ks]; [discriminate|]. destruct oc; try discriminate.
        cbn [ok_view view_bytes] in *. rewrite ok_item_group_once in Hok. rewrite rec_item_group_once.
        exact (in_kids_split k ks path st v' st' Hs Hn Hok).
      + destruct x as [i sz oc rd|i oc rd ks].
        * destruct (N.eqb i k) eqn:E; [|discriminate]. apply N.eqb_eq in E. subst k. inversion Hs; subst v' st'.
          exists [], []. cbn [view_bytes ok_view app length]. rewrite app_nil_r. repeat split; [lia|exact Hok].
        * cbn [ok_view view_bytes] in *. exact (in_kids_split k ks path st v' st' Hs Hn Hok).
    - destruct v as [x|x|sz]; [|discriminate|discriminate].
      destruct (is_table x) eqn:Et; [|discriminate]. destruct (j <? count e (item_oc x)) eqn:Ej; [|discriminate].
      apply Nat.ltb_lt in Ej. inversion Hs; subst v' st'. cbn [ok_view view_bytes] in *.
      destruct x as [i sz oc rd|i oc rd ks]; unfold is_table in Et; cbn [item_oc ext1] in *.
      + assert (Hoc : oc <> Once) by (intro; subst; discriminate).
        rewrite ok_item_elem_table in Hok by exact Hoc. apply andb_prop in Hok. destruct Hok as [Hk Hv].
        rewrite rec_item_elem_table by exact Hoc.
        destruct (flat_map_seq_split (fun j => enc_field (kd i) (vals (path ++ [PIndex j; PName i]))) sz (count e oc) 0 j)
          as [A [C [E L]]]; [|exact Ej|].
        { intros j' Hj'. apply (field_width _ _ _ Hk). apply (proj1 (forallb_forall _ _) Hv). apply in_seq. lia. }
        exists A, C. cbn [Nat.add] in E. rewrite <- app_assoc. cbn [app]. split; [exact E|]. split; [lia|].
        rewrite Hk. cbn [andb]. apply (proj1 (forallb_forall _ _) Hv). apply in_seq. lia.
      + assert (Hoc : oc <> Once) by (intro; subst; discriminate).
        rewrite ok_item_group_table in Hok by exact Hoc. rewrite rec_item_group_table by exact Hoc.
        destruct (flat_map_seq_split (fun j => rec_kids kd vals e ks (path ++ [PIndex j])) (kids_extent e ks) (count e oc) 0 j)
          as [A [C [E L]]]; [|exact Ej|].
        { intros j' Hj'. apply (proj2 length_rec). apply (proj1 (forallb_forall _ _) Hok). apply in_seq. lia. }
        exists A, C. cbn [Nat.add] in E. split; [exact E|]. split; [lia|].
        apply (proj1 (forallb_forall _ _) Hok). apply in_seq. lia.
  Qed.

  (* a whole path: the bytes of the record at the specification's offset of the view reached are the view's own bytes *)
  Lemma path_bytes (R : list N) : forall p i0 v st path v' st',
    ok_view i0 v path = true -> slice R st (st + view_size e v) = view_bytes i0 v path ->
    spec_nav e v st p = inl (v', st') -> own_storage e v st p = true ->
    slice R st' (st' + view_size e v') = view_bytes (last_name p i0) v' (path ++ p)
    /\ ok_view (last_name p i0) v' (path ++ p) = true.
  Proof.
    induction p as [|s p IH]; intros i0 v st path v' st' Hok Hsl Hnav Hown.
    - cbn [spec_nav] in Hnav. inversion Hnav; subst v' st'. cbn [last_name]. rewrite app_nil_r. split; assumption.
    - cbn [spec_nav own_storage] in Hnav, Hown. destruct (spec_step e v st s) as [[v1 st1]|err] eqn:Es; [|discriminate].
      apply andb_prop in Hown. destruct Hown as [Hn Hown].
      destruct (step_bytes i0 v st s v1 st1 path Hok Es Hn) as [A [C [E [S O]]]].
      rewrite E in Hsl. pose proof (slice_within R st _ A _ C Hsl) as Hsl1. rewrite (length_view _ _ _ O), <- S in Hsl1.
      replace (path ++ s :: p) with ((path ++ [s]) ++ p) by (rewrite <- app_assoc; reflexivity).
      replace (last_name (s :: p) i0) with (last_name p (step_id s i0)) by (destruct s; reflexivity).
      exact (IH (step_id s i0) v1 st1 (path ++ [s]) v' st' O Hsl1 Hnav Hown).
  Qed.

  Lemma slice_whole {T} (l : list T) : slice l 0 (0 + length l) = l.
  Proof. unfold slice. cbn [skipn Nat.add]. rewrite Nat.sub_0_r. apply firstn_all. Qed.

  (* for every path to an elementary occurrence that owns its storage: the bytes the record holds at the
     specification's place of the occurrence are the encoding of the value assigned to the path, which fits its kind *)
  Lemma record_field (t : item) p i sz st :
    record_ok kd vals e t = true -> own_storage e (VItem t) 0 p = true -> elem_at e t p = Some (i, sz, st) ->
    slice (spec_record kd vals e t) st (st + sz) = enc_field (kd i) (vals p)
    /\ kind_ok (kd i) sz = true /\ val_ok (kd i) (vals p) = true.
  Proof.
    unfold record_ok, spec_record, elem_at. intros Hok Hown Hat.
    destruct (spec_nav e (VItem t) 0 p) as [[v st0]|err] eqn:En; [|discriminate].
    assert (H0 : slice (rec_item kd vals e t []) 0 (0 + view_size e (VItem t)) = view_bytes 0%N (VItem t) []).
    { cbn [view_size view_bytes]. rewrite <- (proj1 length_rec t [] Hok). apply slice_whole. }
    destruct (path_bytes (rec_item kd vals e t []) p 0%N (VItem t) 0 [] v st0 Hok H0 En Hown) as [Hs Ho].
    cbn [app] in Hs, Ho. destruct v as [x|x|sz0]; [|discriminate|].
    - destruct x as [i0 sz0 oc rd|]; [|discriminate]. destruct oc; try discriminate. inversion Hat; subst i0 sz0 st0.
      cbn [view_size view_bytes ok_view] in Hs, Ho. unfold extent in Hs. cbn [item_oc count ext1] in Hs. rewrite Nat.mul_1_l in Hs.
      rewrite rec_item_elem_once in Hs. rewrite ok_item_elem_once in Ho. apply andb_prop in Ho. tauto.
    - inversion Hat; subst i sz0 st0. cbn [view_size view_bytes ok_view] in Hs, Ho. apply andb_prop in Ho. tauto.
  Qed.
End RecordLemmas.

(* ================================================================== B. which KIND of location a path reaches *)
(* a location made for the schema s (kinds, anchors of atoms, item schemas of tables; not starts and sizes) *)
Fixpoint shaped (s : js) (l : wloc) {struct s} : Prop :=
  match s with
  | JAtom a sz => match l with WAtom a' _ sz' => a' = a /\ sz' = sz | _ => False end
  | JArr _ _ its => match l with WArr _ _ _ _ it sch => sch = its /\ shaped its it | _ => False end
  | JOdo _ _ its => match l with WArr _ _ _ _ it sch => sch = its /\ shaped its it | _ => False end
  | JObj _ ps => match l with WObj _ _ pls => shaped_props ps pls | _ => False end
  | JOne _ alts => match l with WOne _ _ als => shaped_alts alts als | _ => False end
  | JRef k => match l with WRef _ k' => k' = k | _ => False end
  end
with shaped_props (ps : props) (pls : wprops) {struct ps} : Prop :=
  match ps with
  | PNil => match pls with WPNil => True | _ => False end
  | PCons k s r => match pls with WPCons k' l r' => k' = k /\ shaped s l /\ shaped_props r r' | _ => False end
  end
with shaped_alts (alts : jalts) (als : walts) {struct alts} : Prop :=
  match alts with
  | ANil => match als with WANil => True | _ => False end
  | ACons s r => match als with WACons l r' => shaped s l /\ shaped_alts r r' | _ => False end
  end.

(* s' occurs in s *)
Fixpoint sub (s' s : js) {struct s} : Prop :=
  s' = s \/
  match s with
  | JArr _ _ its => sub s' its
  | JOdo _ _ its => sub s' its
  | JObj _ ps => sub_props s' ps
  | JOne _ alts => sub_alts s' alts
  | _ => False
  end
with sub_props (s' : js) (ps : props) {struct ps} : Prop :=
  match ps with PNil => False | PCons _ s r => sub s' s \/ sub_props s' r end
with sub_alts (s' : js) (alts : jalts) {struct alts} : Prop :=
  match alts with ANil => False | ACons s r => sub s' s \/ sub_alts s' r end.

Lemma sub_refl s : sub s s.
Proof. destruct s; left; reflexivity. Qed.

Lemma sub_unfold s' s : sub s' s =
  (s' = s \/ match s with
             | JArr _ _ its => sub s' its
             | JOdo _ _ its => sub s' its
             | JObj _ ps => sub_props s' ps
             | JOne _ alts => sub_alts s' alts
             | _ => False
             end).
Proof. destruct s; reflexivity. Qed.

Lemma sub_trans_all a :
  (forall c b, sub a b -> sub b c -> sub a c)
  /\ (forall ps b, sub a b -> sub_props b ps -> sub_props a ps)
  /\ (forall alts b, sub a b -> sub_alts b alts -> sub_alts a alts).
Proof.
  apply js_props_alts_ind.
  - intros an sz b Hab Hbc. rewrite sub_unfold in Hbc. destruct Hbc as [->|[]]. exact Hab.
  - intros an n its IH b Hab Hbc. rewrite sub_unfold in Hbc. destruct Hbc as [->|H]; [exact Hab|]. rewrite sub_unfold. right. eauto.
  - intros an c its IH b Hab Hbc. rewrite sub_unfold in Hbc. destruct Hbc as [->|H]; [exact Hab|]. rewrite sub_unfold. right. eauto.
  - intros an ps IH b Hab Hbc. rewrite sub_unfold in Hbc. destruct Hbc as [->|H]; [exact Hab|]. rewrite sub_unfold. right. eauto.
  - intros an alts IH b Hab Hbc. rewrite sub_unfold in Hbc. destruct Hbc as [->|H]; [exact Hab|]. rewrite sub_unfold. right. eauto.
  - intros t b Hab Hbc. rewrite sub_unfold in Hbc. destruct Hbc as [->|[]]. exact Hab.
  - intros b Hab [].
  - intros k s IHs r IHr b Hab H. cbn [sub_props] in *. destruct H as [H|H]; [left|right]; eauto.
  - intros b Hab [].
  - intros s IHs r IHr b Hab H. cbn [sub_alts] in *. destruct H as [H|H]; [left|right]; eauto.
Qed.

Lemma sub_trans a b c : sub a b -> sub b c -> sub a c.
Proof. apply (proj1 (sub_trans_all a)). Qed.

(* ---- anchors are unique ---- *)
Lemma keq_true a b : key_eqb a b = true -> a = b.
Proof. destruct a, b; cbn [key_eqb]; intro H; try discriminate; apply N.eqb_eq in H; now subst. Qed.
Lemma keq_refl a : key_eqb a a = true.
Proof. destruct a; cbn [key_eqb]; apply N.eqb_refl. Qed.

Lemma nodupk_nodup : forall l, nodupk l = true -> NoDup l.
Proof.
  induction l as [|k t IH]; intro H; [constructor|]. cbn [nodupk] in H. apply andb_prop in H. destruct H as [H1 H2].
  constructor; [|now apply IH]. intro Hin. apply negb_true_iff in H1.
  assert (memk k t = true); [|congruence]. unfold memk. apply existsb_exists. exists k. split; [exact Hin|apply keq_refl].
Qed.

Lemma nodup_app_disj {T} (a b : list T) x : NoDup (a ++ b) -> In x a -> In x b -> False.
Proof.
  induction a as [|y a IH]; intros H Ha Hb; [destruct Ha|]. cbn [app] in H. inversion H as [|? ? Hn Hd]; subst.
  destruct Ha as [->|Ha]; [apply Hn, in_or_app; now right|eauto].
Qed.
Lemma nodup_app_l {T} (a b : list T) : NoDup (a ++ b) -> NoDup a.
Proof. induction a as [|y a IH]; intro H; [constructor|]. cbn [app] in H. inversion H; subst. constructor; [intro; apply H2, in_or_app; now left|auto]. Qed.
Lemma nodup_app_r {T} (a b : list T) : NoDup (a ++ b) -> NoDup b.
Proof. induction a as [|y a IH]; intro H; [exact H|]. cbn [app] in H. inversion H; subst. auto. Qed.

Lemma jkeys_unfold s : jkeys s = okey (js_anchor s) ++
  match s with
  | JArr _ _ its | JOdo _ _ its => jkeys its
  | JObj _ ps => jkeys_props ps
  | JOne _ alts => jkeys_alts alts
  | _ => []
  end.
Proof. destruct s; reflexivity. Qed.

Lemma sub_keys k s' :
  (forall s, sub s' s -> js_anchor s' = Some k -> In k (jkeys s))
  /\ (forall ps, sub_props s' ps -> js_anchor s' = Some k -> In k (jkeys_props ps))
  /\ (forall alts, sub_alts s' alts -> js_anchor s' = Some k -> In k (jkeys_alts alts)).
Proof.
  apply js_props_alts_ind.
  - intros a sz H Ha. rewrite sub_unfold in H. destruct H as [->|[]]. rewrite jkeys_unfold, Ha. now left.
  - intros a n its IH H Ha. rewrite sub_unfold in H. rewrite jkeys_unfold. apply in_or_app.
    destruct H as [->|H]; [left; rewrite Ha; now left|right; auto].
  - intros a c its IH H Ha. rewrite sub_unfold in H. rewrite jkeys_unfold. apply in_or_app.
    destruct H as [->|H]; [left; rewrite Ha; now left|right; auto].
  - intros a ps IH H Ha. rewrite sub_unfold in H. rewrite jkeys_unfold. apply in_or_app.
    destruct H as [->|H]; [left; rewrite Ha; now left|right; auto].
  - intros a alts IH H Ha. rewrite sub_unfold in H. rewrite jkeys_unfold. apply in_or_app.
    destruct H as [->|H]; [left; rewrite Ha; now left|right; auto].
  - intros t H Ha. rewrite sub_unfold in H. destruct H as [->|[]]. discriminate.
  - intros [].
  - intros k0 s IHs r IHr H Ha. cbn [sub_props jkeys_props] in *. apply in_or_app. destruct H; [left|right]; auto.
  - intros [].
  - intros s IHs r IHr H Ha. cbn [sub_alts jkeys_alts] in *. apply in_or_app. destruct H; [left|right]; auto.
Qed.

Lemma sub_unique k s1 s2 :
  js_anchor s1 = Some k -> js_anchor s2 = Some k ->
  (forall s, NoDup (jkeys s) -> sub s1 s -> sub s2 s -> s1 = s2)
  /\ (forall ps, NoDup (jkeys_props ps) -> sub_props s1 ps -> sub_props s2 ps -> s1 = s2)
  /\ (forall alts, NoDup (jkeys_alts alts) -> sub_alts s1 alts -> sub_alts s2 alts -> s1 = s2).
Proof.
  intros A1 A2.
  assert (Hnode : forall s (kids : list key) (P1 P2 : Prop),
    jkeys s = okey (js_anchor s) ++ kids -> (P1 -> In k kids) -> (P2 -> In k kids) -> (P1 -> P2 -> s1 = s2) ->
    NoDup (jkeys s) -> (s1 = s \/ P1) -> (s2 = s \/ P2) -> s1 = s2).
  { intros s kids P1 P2 Ek K1 K2 IH Hnd H1 H2. rewrite Ek in Hnd. destruct H1 as [E1|H1], H2 as [E2|H2].
    - congruence.
    - subst s. rewrite A1 in Hnd. exfalso. apply (nodup_app_disj _ _ k Hnd); [now left|auto].
    - subst s. rewrite A2 in Hnd. exfalso. apply (nodup_app_disj _ _ k Hnd); [now left|auto].
    - auto. }
  apply js_props_alts_ind.
  - intros a sz Hnd H1 H2. rewrite sub_unfold in H1, H2. destruct H1 as [->|[]], H2 as [->|[]]. reflexivity.
  - intros a n its IH Hnd H1 H2. rewrite sub_unfold in H1, H2.
    apply (Hnode (JArr a n its) (jkeys its) (sub s1 its) (sub s2 its)); auto; try apply jkeys_unfold.
    + intro H. exact (proj1 (sub_keys k s1) its H A1).
    + intro H. exact (proj1 (sub_keys k s2) its H A2).
    + apply IH. rewrite jkeys_unfold in Hnd. exact (nodup_app_r _ _ Hnd).
  - intros a c its IH Hnd H1 H2. rewrite sub_unfold in H1, H2.
    apply (Hnode (JOdo a c its) (jkeys its) (sub s1 its) (sub s2 its)); auto; try apply jkeys_unfold.
    + intro H. exact (proj1 (sub_keys k s1) its H A1).
    + intro H. exact (proj1 (sub_keys k s2) its H A2).
    + apply IH. rewrite jkeys_unfold in Hnd. exact (nodup_app_r _ _ Hnd).
  - intros a ps IH Hnd H1 H2. rewrite sub_unfold in H1, H2.
    apply (Hnode (JObj a ps) (jkeys_props ps) (sub_props s1 ps) (sub_props s2 ps)); auto; try apply jkeys_unfold.
    + intro H. exact (proj1 (proj2 (sub_keys k s1)) ps H A1).
    + intro H. exact (proj1 (proj2 (sub_keys k s2)) ps H A2).
    + apply IH. rewrite jkeys_unfold in Hnd. exact (nodup_app_r _ _ Hnd).
  - intros a alts IH Hnd H1 H2. rewrite sub_unfold in H1, H2.
    apply (Hnode (JOne a alts) (jkeys_alts alts) (sub_alts s1 alts) (sub_alts s2 alts)); auto; try apply jkeys_unfold.
    + intro H. exact (proj2 (proj2 (sub_keys k s1)) alts H A1).
    + intro H. exact (proj2 (proj2 (sub_keys k s2)) alts H A2).
    + apply IH. rewrite jkeys_unfold in Hnd. exact (nodup_app_r _ _ Hnd).
  - intros t Hnd H1 H2. rewrite sub_unfold in H1, H2. destruct H1 as [->|[]], H2 as [->|[]]. reflexivity.
  - intros _ [].
  - intros k0 s IHs r IHr Hnd H1 H2. cbn [sub_props jkeys_props] in *. destruct H1 as [H1|H1], H2 as [H2|H2].
    + apply IHs; auto. exact (nodup_app_l _ _ Hnd).
    + exfalso. apply (nodup_app_disj _ _ k Hnd); [exact (proj1 (sub_keys k s1) s H1 A1)|exact (proj1 (proj2 (sub_keys k s2)) r H2 A2)].
    + exfalso. apply (nodup_app_disj _ _ k Hnd); [exact (proj1 (sub_keys k s2) s H2 A2)|exact (proj1 (proj2 (sub_keys k s1)) r H1 A1)].
    + apply IHr; auto. exact (nodup_app_r _ _ Hnd).
  - intros _ [].
  - intros s IHs r IHr Hnd H1 H2. cbn [sub_alts jkeys_alts] in *. destruct H1 as [H1|H1], H2 as [H2|H2].
    + apply IHs; auto. exact (nodup_app_l _ _ Hnd).
    + exfalso. apply (nodup_app_disj _ _ k Hnd); [exact (proj1 (sub_keys k s1) s H1 A1)|exact (proj2 (proj2 (sub_keys k s2)) r H2 A2)].
    + exfalso. apply (nodup_app_disj _ _ k Hnd); [exact (proj1 (sub_keys k s2) s H2 A2)|exact (proj2 (proj2 (sub_keys k s1)) r H1 A1)].
    + apply IHr; auto. exact (nodup_app_r _ _ Hnd).
Qed.

(* ---- LocationMaker.walk makes locations of the schema's shape and registers only locations of anchored sub-schemas ---- *)
Section WalkShape.
  Variable dcount : list N -> nat.
  Variable r : list N.

  Definition fresh (P : js -> Prop) (an an' : wanchors) : Prop :=
    forall k l, In (k, l) an' -> In (k, l) an \/ exists s', P s' /\ js_anchor s' = Some k /\ shaped s' l.

  Lemma fresh_refl P an : fresh P an an.
  Proof. intros k l H. now left. Qed.
  Lemma fresh_weaken (P Q : js -> Prop) an an' : (forall s, P s -> Q s) -> fresh P an an' -> fresh Q an an'.
  Proof. intros PQ H k l Hin. destruct (H k l Hin) as [H1|[s' [H1 H2]]]; [now left|right; exists s'; auto]. Qed.
  Lemma fresh_trans P an an1 an2 : fresh P an an1 -> fresh P an1 an2 -> fresh P an an2.
  Proof. intros H1 H2 k l Hin. destruct (H2 k l Hin) as [H|H]; [exact (H1 k l H)|now right]. Qed.
  Lemma fresh_wreg (P : js -> Prop) s l an : P s -> shaped s l -> fresh P an (wreg (js_anchor s) l an).
  Proof.
    intros Ps Hs k l' Hin. unfold wreg in Hin. destruct (js_anchor s) as [a|] eqn:Ea; [|now left].
    destruct Hin as [E|Hin]; [|now left]. inversion E; subst. right. exists s. auto.
  Qed.

  Lemma wv_atom a sz st an : walkv dcount r (JAtom a sz) st an = Ok (WAtom a st sz, wreg a (WAtom a st sz) an).
  Proof. apply SR.Proofs.LayoutValueP.walkv_atom. Qed.
  Lemma wv_arr a n its st an : walkv dcount r (JArr a n its) st an =
    match walkv dcount r its st an with
    | Err e => Err e
    | Ok (sub, an1) => Ok (WArr st (wsize sub * n) (wsize sub) n sub its, wreg a (WArr st (wsize sub * n) (wsize sub) n sub its) an1)
    end.
  Proof. apply SR.Proofs.LayoutValueP.walkv_arr. Qed.
  Lemma wv_odo a c its st an : walkv dcount r (JOdo a c its) st an =
    match wlookup (KName c) an with
    | None => Err KeyError
    | Some (WAtom _ cst csz) =>
        match walkv dcount r its st an with
        | Err e => Err e
        | Ok (sub, an1) =>
            Ok (WArr st (wsize sub * dcount (slice r cst (cst + csz))) (wsize sub) (dcount (slice r cst (cst + csz))) sub its,
                wreg a (WArr st (wsize sub * dcount (slice r cst (cst + csz))) (wsize sub) (dcount (slice r cst (cst + csz))) sub its) an1)
        end
    | Some _ => Err TypeError
    end.
  Proof. apply SR.Proofs.LayoutValueP.walkv_odo. Qed.
  Lemma wv_obj a ps st an : walkv dcount r (JObj a ps) st an =
    match walkv_props dcount r ps st an with
    | Err e => Err e
    | Ok (pls, off, an1) => Ok (WObj st (off - st) pls, wreg a (WObj st (off - st) pls) an1)
    end.
  Proof. apply SR.Proofs.LayoutValueP.walkv_obj. Qed.
  Lemma wv_one a s0 rest st an : walkv dcount r (JOne a (ACons s0 rest)) st an =
    match walkv_alts dcount r (ACons s0 rest) st an with
    | Err e => Err e
    | Ok (als, an1) => Ok (WOne st (wmax_size als) als, wreg a (WOne st (wmax_size als) als) an1)
    end.
  Proof. apply SR.Proofs.LayoutValueP.walkv_one. Qed.
  Lemma wv_props_cons k p rest off an : walkv_props dcount r (PCons k p rest) off an =
    match walkv dcount r p off an with
    | Err e => Err e
    | Ok (pl, an1) =>
        match walkv_props dcount r rest (off + wsize pl) (wreg (js_anchor p) pl an1) with
        | Err e => Err e
        | Ok (rl, off', an2) => Ok (WPCons k pl rl, off', an2)
        end
    end.
  Proof. apply SR.Proofs.LayoutValueP.walkv_props_cons. Qed.
  Lemma wv_alts_cons s rest st an : walkv_alts dcount r (ACons s rest) st an =
    match walkv dcount r s st an with
    | Err e => Err e
    | Ok (l, an1) =>
        match walkv_alts dcount r rest st an1 with
        | Err e => Err e
        | Ok (ls, an2) => Ok (WACons l ls, an2)
        end
    end.
  Proof. apply SR.Proofs.LayoutValueP.walkv_alts_cons. Qed.

  Lemma walk_shape :
    (forall s st an l an', walkv dcount r s st an = Ok (l, an') -> shaped s l /\ fresh (fun s' => sub s' s) an an')
    /\ (forall ps off an pls off' an', walkv_props dcount r ps off an = Ok (pls, off', an') ->
          shaped_props ps pls /\ fresh (fun s' => sub_props s' ps) an an')
    /\ (forall alts st an als an', walkv_alts dcount r alts st an = Ok (als, an') ->
          shaped_alts alts als /\ fresh (fun s' => sub_alts s' alts) an an').
  Proof.
    apply js_props_alts_ind.
    - intros a sz st an l an' H. rewrite wv_atom in H. inversion H; subst. split; [cbn; auto|].
      apply (fresh_wreg _ (JAtom a sz)); [apply sub_refl|cbn; auto].
    - intros a n its IH st an l an' H. rewrite wv_arr in H.
      destruct (walkv dcount r its st an) as [[sb an1]|ex] eqn:E; [|discriminate]. inversion H; subst.
      destruct (IH _ _ _ _ E) as [Hs Hf].
      assert (Hsh : shaped (JArr a n its) (WArr st (wsize sb * n) (wsize sb) n sb its)) by (cbn; auto).
      split; [exact Hsh|]. eapply fresh_trans.
      + eapply fresh_weaken; [|exact Hf]. intros s' H'. rewrite sub_unfold. now right.
      + apply (fresh_wreg _ (JArr a n its)); [apply sub_refl|exact Hsh].
    - intros a c its IH st an l an' H. rewrite wv_odo in H.
      destruct (wlookup (KName c) an) as [[ca cst csz| | | |]|]; try discriminate.
      destruct (walkv dcount r its st an) as [[sb an1]|ex] eqn:E; [|discriminate]. inversion H; subst.
      destruct (IH _ _ _ _ E) as [Hs Hf].
      match goal with |- shaped _ ?L /\ _ => assert (Hsh : shaped (JOdo a c its) L) by (cbn; auto) end.
      split; [exact Hsh|]. eapply fresh_trans.
      + eapply fresh_weaken; [|exact Hf]. intros s' H'. rewrite sub_unfold. now right.
      + apply (fresh_wreg _ (JOdo a c its)); [apply sub_refl|exact Hsh].
    - intros a ps IH st an l an' H. rewrite wv_obj in H.
      destruct (walkv_props dcount r ps st an) as [[[pls off] an1]|ex] eqn:E; [|discriminate]. inversion H; subst.
      destruct (IH _ _ _ _ _ E) as [Hs Hf].
      assert (Hsh : shaped (JObj a ps) (WObj st (off - st) pls)) by (cbn; auto).
      split; [exact Hsh|]. eapply fresh_trans.
      + eapply fresh_weaken; [|exact Hf]. intros s' H'. rewrite sub_unfold. now right.
      + apply (fresh_wreg _ (JObj a ps)); [apply sub_refl|exact Hsh].
    - intros a alts IH st an l an' H. destruct alts as [|s0 rest]; [discriminate|]. rewrite wv_one in H.
      destruct (walkv_alts dcount r (ACons s0 rest) st an) as [[als an1]|ex] eqn:E; [|discriminate]. inversion H; subst.
      destruct (IH _ _ _ _ E) as [Hs Hf].
      assert (Hsh : shaped (JOne a (ACons s0 rest)) (WOne st (wmax_size als) als)) by exact Hs.
      split; [exact Hsh|]. eapply fresh_trans.
      + eapply fresh_weaken; [|exact Hf]. intros s' H'. rewrite sub_unfold. now right.
      + apply (fresh_wreg _ (JOne a (ACons s0 rest))); [apply sub_refl|exact Hsh].
    - intros t st an l an' H. rewrite SR.Proofs.LayoutValueP.walkv_ref in H. inversion H; subst. split; [reflexivity|apply fresh_refl].
    - intros off an pls off' an' H. rewrite SR.Proofs.LayoutValueP.walkv_props_nil in H. inversion H; subst. split; [exact I|apply fresh_refl].
    - intros k p IHp rest IHr off an pls off' an' H. rewrite wv_props_cons in H.
      destruct (walkv dcount r p off an) as [[pl an1]|ex] eqn:E1; [|discriminate].
      destruct (walkv_props dcount r rest (off + wsize pl) (wreg (js_anchor p) pl an1)) as [[[rl o2] an2]|ex] eqn:E2; [|discriminate].
      inversion H; subst. destruct (IHp _ _ _ _ E1) as [Hs1 Hf1]. destruct (IHr _ _ _ _ _ E2) as [Hs2 Hf2].
      split; [cbn [shaped_props]; auto|]. eapply fresh_trans; [|eapply fresh_trans].
      + eapply fresh_weaken; [|exact Hf1]. intros s' H'. cbn [sub_props]. now left.
      + apply (fresh_wreg _ p); [cbn [sub_props]; left; apply sub_refl|exact Hs1].
      + eapply fresh_weaken; [|exact Hf2]. intros s' H'. cbn [sub_props]. now right.
    - intros st an als an' H. rewrite SR.Proofs.LayoutValueP.walkv_alts_nil in H. inversion H; subst. split; [exact I|apply fresh_refl].
    - intros s IHs rest IHr st an als an' H. rewrite wv_alts_cons in H.
      destruct (walkv dcount r s st an) as [[l an1]|ex] eqn:E1; [|discriminate].
      destruct (walkv_alts dcount r rest st an1) as [[ls an2]|ex] eqn:E2; [|discriminate].
      inversion H; subst. destruct (IHs _ _ _ _ E1) as [Hs1 Hf1]. destruct (IHr _ _ _ _ E2) as [Hs2 Hf2].
      split; [cbn [shaped_alts]; auto|]. eapply fresh_trans.
      + eapply fresh_weaken; [|exact Hf1]. intros s' H'. cbn [sub_alts]. now left.
      + eapply fresh_weaken; [|exact Hf2]. intros s' H'. cbn [sub_alts]. now right.
  Qed.
End WalkShape.

(* ---- the properties of the schema build_json_schema emits for a group ---- *)
Import SR.Proofs.LayoutP SR.Proofs.LayoutOdoP.

Fixpoint pfind (k : key) (ps : props) : option js :=
  match ps with
  | PNil => None
  | PCons k' s r => if key_eqb k k' then Some s else pfind k r
  end.

Lemma shaped_find k : forall ps pls c, shaped_props ps pls -> wfind k pls = Some c ->
  exists s, pfind k ps = Some s /\ shaped s c.
Proof.
  induction ps as [|k0 s r IH]; intros pls c Hs Hf; destruct pls as [|k1 l r']; cbn [shaped_props] in Hs; try contradiction; [discriminate|].
  destruct Hs as [-> [Hl Hr]]. cbn [wfind pfind] in *. destruct (key_eqb k k0); [inversion Hf; subst; eauto|eauto].
Qed.

Lemma kid_alts_cons' tg x xs : kid_alts tg (ICons x xs) = (item_id x, union_of tg x, build_alt x) :: kid_alts tg xs.
Proof. reflexivity. Qed.

Lemma pfind_assemble k tg all : forall ks em,
  pfind (KName k) (assemble all em (kid_alts tg ks)) =
  match find_kid ks k with
  | Some x => Some (match union_of tg x with None => build_alt x | Some _ => JRef (KName (item_id x)) end)
  | None => None
  end.
Proof.
  induction ks as [|x xs IH]; intro em; [reflexivity|]. rewrite kid_alts_cons'. cbn [find_kid].
  destruct (union_of tg x) as [u|] eqn:Eu; cbn [assemble].
  - destruct (existsb (N.eqb u) em); cbn [pfind key_eqb]; rewrite (N.eqb_sym k (item_id x));
      (destruct (N.eqb (item_id x) k); [now rewrite Eu|apply IH]).
  - cbn [pfind key_eqb]. rewrite (N.eqb_sym k (item_id x)). destruct (N.eqb (item_id x) k); [now rewrite Eu|apply IH].
Qed.

Lemma pfind_plain k tg : forall ks,
  pfind (KName k) (plain (kid_alts tg ks)) = option_map build_alt (find_kid ks k).
Proof.
  induction ks as [|x xs IH]; [reflexivity|]. rewrite kid_alts_cons'. cbn [plain pfind key_eqb find_kid].
  rewrite (N.eqb_sym k (item_id x)). destruct (N.eqb (item_id x) k); [reflexivity|apply IH].
Qed.

Lemma find_kid_in : forall ks k x, find_kid ks k = Some x -> in_kids x ks.
Proof.
  induction ks as [|x0 xs IH]; intros k x H; [discriminate|]. cbn [find_kid in_kids] in *.
  destruct (N.eqb (item_id x0) k); [inversion H; now left|right; eauto].
Qed.

Lemma sub_plain x tg : forall ks, in_kids x ks -> sub_props (build_alt x) (plain (kid_alts tg ks)).
Proof.
  induction ks as [|y ys IH]; intro H; [destruct H|]. rewrite kid_alts_cons'. cbn [plain sub_props in_kids] in *.
  destruct H as [->|H]; [left; apply sub_refl|right; auto].
Qed.

Lemma alts_of_in u s : forall (all : list built) i, In (i, Some u, s) all -> sub_alts s (alts_of u all).
Proof.
  induction all as [|[[j o] s0] rest IH]; intros i H; [destruct H|]. cbn [alts_of]. destruct H as [E|H].
  - inversion E; subst. rewrite N.eqb_refl. cbn [sub_alts]. left. apply sub_refl.
  - destruct o as [u'|]; [|eauto]. destruct (N.eqb u u'); [cbn [sub_alts]; right; eauto|eauto].
Qed.

Lemma kid_alts_in tg x : forall ks, in_kids x ks -> In (item_id x, union_of tg x, build_alt x) (kid_alts tg ks).
Proof.
  induction ks as [|y ys IH]; intro H; [destruct H|]. rewrite kid_alts_cons'. cbn [in_kids] in H.
  destruct H as [->|H]; [now left|right; auto].
Qed.

Lemma sub_assemble tg x all : forall ks em,
  (forall y, in_kids y ks -> In (item_id y, union_of tg y, build_alt y) all) ->
  in_kids x ks -> (forall u, union_of tg x = Some u -> ~ In u em) ->
  sub_props (build_alt x) (assemble all em (kid_alts tg ks)).
Proof.
  induction ks as [|y ys IH]; intros em Hall Hin Hem; [destruct Hin|]. rewrite kid_alts_cons'.
  assert (Hall' : forall z, in_kids z ys -> In (item_id z, union_of tg z, build_alt z) all) by (intros z Hz; apply Hall; now right).
  destruct (union_of tg y) as [u'|] eqn:Eu; cbn [assemble].
  - destruct (existsb (N.eqb u') em) eqn:Ee.
    + cbn [sub_props]. right. destruct Hin as [->|Hin]; [|apply IH; auto].
      exfalso. apply (Hem u' Eu). apply existsb_exists in Ee. destruct Ee as [z [Hz Ez]]. apply N.eqb_eq in Ez. now subst.
    + cbn [sub_props]. destruct (union_of tg x) as [u|] eqn:Ex.
      * destruct (N.eq_dec u u') as [->|Hne].
        -- left. rewrite sub_unfold. right. apply (alts_of_in u' (build_alt x) all (item_id x)). rewrite <- Ex. apply Hall. exact Hin.
        -- right. right. destruct Hin as [->|Hin]; [congruence|]. apply IH; auto.
           intros u0 E0 [<-|Hi]; [congruence|]. exact (Hem u0 E0 Hi).
      * right. right. destruct Hin as [->|Hin]; [congruence|]. apply IH; auto. intros u0 E0. discriminate.
  - cbn [sub_props]. destruct Hin as [->|Hin]; [left; apply sub_refl|right; apply IH; auto].
Qed.

Lemma build_group_once_eq i rd ks :
  build_alt (Group i Once rd ks) = JObj (Some (KName i)) (assemble (kid_alts (redef_targets ks) ks) [] (kid_alts (redef_targets ks) ks)).
Proof. reflexivity. Qed.

Lemma sub_kid_once i rd ks x : in_kids x ks -> sub (build_alt x) (build_alt (Group i Once rd ks)).
Proof.
  intro H. rewrite build_group_once_eq, sub_unfold. right. apply sub_assemble; auto.
  intros y Hy. now apply kid_alts_in.
Qed.

Lemma anchor_build' x : elem_table x = false -> js_anchor (build_alt x) = Some (KName (item_id x)).
Proof. destruct x as [i sz [|n|c] rd|i [|n|c] rd ks]; cbn; intro H; try discriminate; reflexivity. Qed.

Lemma build_not_ref x t : build_alt x <> JRef t.
Proof. destruct x as [i sz [|n|c] rd|i [|n|c] rd ks]; discriminate. Qed.

(* ---- ids, well-formedness: what a kid inherits ---- *)
Fixpoint kidids (ks : items) : list id := match ks with INil => [] | ICons x xs => item_id x :: kidids xs end.

Lemma kidids_incl : forall ks i, In i (kidids ks) -> In i (ids_kids ks).
Proof.
  induction ks as [|x xs IH]; intros i H; [destruct H|]. cbn [kidids ids_kids] in *. apply in_or_app.
  destruct H as [<-|H]; [left; destruct x; now left|right; auto].
Qed.

Lemma nodup_kidids : forall ks, NoDup (ids_kids ks) -> NoDup (kidids ks).
Proof.
  induction ks as [|x xs IH]; intro H; [constructor|]. cbn [kidids ids_kids] in *. constructor.
  - intro Hin. apply (nodup_app_disj _ _ (item_id x) H); [destruct x; now left|now apply kidids_incl].
  - apply IH. exact (nodup_app_r _ _ H).
Qed.

Lemma nodup_kid : forall ks x, in_kids x ks -> NoDup (ids_kids ks) -> NoDup (ids x).
Proof.
  induction ks as [|y ys IH]; intros x H Hnd; [destruct H|]. cbn [in_kids ids_kids] in *.
  destruct H as [->|H]; [exact (nodup_app_l _ _ Hnd)|apply IH; [exact H|exact (nodup_app_r _ _ Hnd)]].
Qed.

Lemma wf_kid e : forall ks x, in_kids x ks -> wf_kids e ks = true -> wf e x = true.
Proof.
  induction ks as [|y ys IH]; intros x H Hw; [destruct H|]. cbn [wf_kids in_kids] in *. apply andb_prop in Hw. destruct Hw as [H1 H2].
  destruct H as [->|H]; auto.
Qed.

Lemma in_kids_kidids x : forall ks, in_kids x ks -> In (item_id x) (kidids ks).
Proof. induction ks as [|y ys IH]; intro H; [destruct H|]. cbn [in_kids kidids] in *. destruct H as [->|H]; [now left|right; auto]. Qed.

(* a member of a REDEFINES union is not an elementary OCCURS item *)
Lemma member_redefiner e x u : forall ks bases, unions_ok e bases ks = true -> in_kids x ks -> item_redef x = Some u -> elem_table x = false.
Proof.
  induction ks as [|y ys IH]; intros bases Hu Hin Hr; [destruct Hin|]. cbn [unions_ok in_kids] in *.
  destruct Hin as [->|Hin].
  - rewrite Hr in Hu. apply andb_prop in Hu. destruct Hu as [Hu _]. apply andb_prop in Hu. destruct Hu as [Hu _]. now apply negb_true_iff in Hu.
  - destruct (item_redef y) as [u'|].
    + apply andb_prop in Hu. destruct Hu as [_ Hu]. eauto.
    + apply andb_prop in Hu. destruct Hu as [_ Hu]. eauto.
Qed.

Lemma redef_targets_cons x xs : redef_targets (ICons x xs) = match item_redef x with Some t => t :: redef_targets xs | None => redef_targets xs end.
Proof. reflexivity. Qed.

Lemma member_base e x : forall ks bases, unions_ok e bases ks = true -> NoDup (map fst bases ++ kidids ks) ->
  in_kids x ks -> item_redef x = None -> In (item_id x) (redef_targets ks) -> elem_table x = false.
Proof.
  induction ks as [|y ys IH]; intros bases Hu Hnd Hin Hr Ht; [destruct Hin|]. cbn [unions_ok in_kids kidids] in *.
  rewrite redef_targets_cons in Ht. destruct Hin as [<-|Hin].
  - rewrite Hr in Hu, Ht. apply andb_prop in Hu. destruct Hu as [Hu _]. apply orb_prop in Hu. destruct Hu as [Hu|Hu].
    + now apply negb_true_iff in Hu.
    + apply negb_true_iff in Hu. assert (existsb (N.eqb (item_id x)) (redef_targets ys) = true); [|congruence].
      apply existsb_exists. exists (item_id x). split; [exact Ht|apply N.eqb_refl].
  - destruct (item_redef y) as [u'|] eqn:Ey.
    + apply andb_prop in Hu. destruct Hu as [Hu Hu2]. apply andb_prop in Hu. destruct Hu as [_ Hf].
      destruct Ht as [E|Ht].
      * subst u'. exfalso. destruct (find (fun p => N.eqb (fst p) (item_id x)) bases) as [[b eb]|] eqn:Ef; [|discriminate].
        apply find_some in Ef. destruct Ef as [Hb Eb]. cbn [fst] in Eb. apply N.eqb_eq in Eb. subst b.
        apply (nodup_app_disj _ _ (item_id x) Hnd); [apply (in_map fst _ _ Hb)|right; now apply in_kids_kidids].
      * apply (IH bases); auto. exact (NoDup_remove_1 _ _ _ Hnd).
    + apply andb_prop in Hu. destruct Hu as [_ Hu2]. apply (IH ((item_id y, extent e y) :: bases)); auto.
      cbn [map fst app]. constructor; [exact (NoDup_remove_2 _ _ _ Hnd)|exact (NoDup_remove_1 _ _ _ Hnd)].
Qed.

Lemma member_not_table e ks x u :
  unions_ok e [] ks = true -> NoDup (ids_kids ks) -> in_kids x ks -> union_of (redef_targets ks) x = Some u -> elem_table x = false.
Proof.
  intros Hu Hnd Hin Hun. unfold union_of in Hun. destruct (item_redef x) as [t|] eqn:Er.
  - exact (member_redefiner e x t ks [] Hu Hin Er).
  - destruct (existsb (N.eqb (item_id x)) (redef_targets ks)) eqn:Ee; [|discriminate].
    apply (member_base e x ks [] Hu); auto; [cbn [map app]; now apply nodup_kidids|].
    apply existsb_exists in Ee. destruct Ee as [z [Hz Ez]]. apply N.eqb_eq in Ez. now subst.
Qed.

(* well-formed in C01's sense (no OCCURS DEPENDING ON) or in C06's general sense *)
Definition okx (e : env) (x : item) : Prop := wf e x = true \/ exists avail, wfo e avail x = true.

Lemma wfo_kid e : forall ks avail x, in_kids x ks -> wfo_kids e avail ks = true -> okx e x.
Proof.
  induction ks as [|y ys IH]; intros avail x H Hw; [destruct H|]. cbn [wfo_kids in_kids] in *.
  destruct (member y ys); apply andb_prop in Hw; destruct Hw as [H1 H2]; (destruct H as [->|H]; [|eauto]).
  - now left.
  - right. eauto.
Qed.

Lemma okx_kids e i oc rd ks : okx e (Group i oc rd ks) -> forall y, in_kids y ks -> okx e y.
Proof.
  intros [Hw|[avail Hw]] y Hy.
  - left. cbn [wf] in Hw. apply andb_prop in Hw. destruct Hw as [_ Hw]. apply andb_prop in Hw. destruct Hw as [Hk _].
    exact (wf_kid e ks y Hy Hk).
  - destruct oc as [|n|c]; cbn [wfo] in Hw.
    + apply andb_prop in Hw. destruct Hw as [Hk _]. exact (wfo_kid e ks avail y Hy Hk).
    + apply andb_prop in Hw. destruct Hw as [Hk _]. left. exact (wf_kid e ks y Hy Hk).
    + destruct rd; [discriminate|]. apply andb_prop in Hw. destruct Hw as [Hw _]. apply andb_prop in Hw. destruct Hw as [_ Hk].
      left. exact (wf_kid e ks y Hy Hk).
Qed.

Lemma okx_unions e i rd ks : okx e (Group i Once rd ks) -> unions_ok e [] ks = true.
Proof.
  intros [Hw|[avail Hw]].
  - cbn [wf no_odo item_oc andb] in Hw. apply andb_prop in Hw. tauto.
  - cbn [wfo] in Hw. apply andb_prop in Hw. tauto.
Qed.

(* ---- along a navigation path ---- *)
Lemma wlookup_in' : forall k an l, wlookup k an = Some l -> In (k, l) an.
Proof.
  induction an as [|[k' l'] an IH]; intros l H; [discriminate|]. cbn [wlookup] in H.
  destruct (key_eqb k k') eqn:E; [apply keq_true in E; inversion H; subst; now left|right; auto].
Qed.

Section PathShape.
  Variable dcount : list N -> nat.
  Variable r : list N.
  Variable e : env.
  Variable S : js.
  Hypothesis Suniq : NoDup (jkeys S).

  (* the schema of what a view shows *)
  Definition vjs (i0 : id) (v : view) : js :=
    match v with
    | VItem x => build_alt x
    | VOcc (Elem i sz _ _) => elem_items i sz
    | VOcc (Group _ _ _ ks) => JObj None (plain (kid_alts [] ks))
    | VAtom sz => JAtom (Some (KName i0)) sz
    end.

  Definition good (v : view) : Prop :=
    match v with
    | VItem x => okx e x /\ NoDup (ids x)
    | VOcc x => okx e x /\ NoDup (ids x)
    | VAtom _ => True
    end.

  Definition An (an : wanchors) : Prop :=
    forall k l, In (k, l) an -> exists s', sub s' S /\ js_anchor s' = Some k /\ shaped s' l.

  Definition pinv (i0 : id) (v : view) (nv : vnav) : Prop :=
    sub (vjs i0 v) S /\ shaped (vjs i0 v) (vn_loc nv) /\ An (vn_an nv) /\ good v.

  Lemma vname_obj nv k nv' st sz pls : vn_loc nv = WObj st sz pls -> vnav_name nv k = Ok nv' ->
    exists c, wfind k pls = Some c /\ vn_an nv' = vn_an nv
      /\ match c with WRef _ t => wlookup t (vn_an nv) = Some (vn_loc nv') | _ => vn_loc nv' = c end.
  Proof.
    intros Hl H. rewrite SR.Proofs.LayoutValueP.vnav_name_unf in H. rewrite Hl in H. destruct (wfind k pls) as [c|]; [|discriminate].
    exists c. split; [reflexivity|].
    destruct c as [a st' sz'|st' sz' isz cnt it sch|st' sz' ps'|st' sz' alts|st' t]; try (inversion H; subst; cbn; auto).
    destruct (wlookup t (vn_an nv)) as [l|]; [|discriminate]. inversion H; subst. cbn. auto.
  Qed.

  (* name(k) inside an object whose properties are those of the children ks of a group *)
  Lemma name_step i0 (gjs : js) a ps ks (unionf : item -> option id) k x nv nv' :
    gjs = JObj a ps -> sub gjs S -> shaped gjs (vn_loc nv) -> An (vn_an nv) ->
    (forall y, in_kids y ks -> sub (build_alt y) gjs) ->
    pfind (KName k) ps = match find_kid ks k with
                         | Some x => Some (match unionf x with None => build_alt x | Some _ => JRef (KName (item_id x)) end)
                         | None => None
                         end ->
    (forall y u, in_kids y ks -> unionf y = Some u -> elem_table y = false) ->
    (forall y, in_kids y ks -> okx e y) -> NoDup (ids_kids ks) ->
    find_kid ks k = Some x ->
    vnav_name nv (KName k) = Ok nv' -> pinv i0 (VItem x) nv'.
  Proof.
    intros -> Hsub Hsh Han Hkids Hpf Hmem Hwf Hnd Hf Hn.
    destruct (vn_loc nv) as [?|?|st0 sz0 pls|?|?] eqn:El; cbn [shaped] in Hsh; try contradiction.
    destruct (vname_obj nv (KName k) nv' st0 sz0 pls El Hn) as [c [Hw [Ea Hc]]].
    destruct (shaped_find (KName k) ps pls c Hsh Hw) as [s0 [Hp0 Hs0]].
    rewrite Hpf, Hf in Hp0. inversion Hp0 as [E0]. clear Hp0.
    pose proof (find_kid_in _ _ _ Hf) as Hin.
    assert (Hg : good (VItem x)) by (split; [exact (Hwf x Hin)|exact (nodup_kid ks x Hin Hnd)]).
    assert (HsubS : sub (build_alt x) S) by (eapply sub_trans; [apply Hkids; exact Hin|exact Hsub]).
    unfold pinv. cbn [vjs]. rewrite Ea. destruct (unionf x) as [u|] eqn:Eu.
    - subst s0. destruct c as [?|?|?|?|st' t]; cbn [shaped] in Hs0; try contradiction. subst t.
      apply wlookup_in' in Hc. destruct (Han _ _ Hc) as [s' [H1 [H2 H3]]].
      pose proof (anchor_build' x (Hmem x u Hin Eu)) as Hanc.
      assert (s' = build_alt x) by exact (proj1 (sub_unique _ s' (build_alt x) H2 Hanc) S Suniq H1 HsubS).
      subst s'. repeat split; auto; apply Hg.
    - subst s0. destruct c as [?|?|?|?|st' t].
      5:{ exfalso. destruct x as [i sz [|n|cc] rd|i [|n|cc] rd ks']; cbn in Hs0; contradiction. }
      all: cbn beta iota in Hc; rewrite Hc; repeat split; auto; apply Hg.
  Qed.

  Lemma step_shape i0 v st s v' st' nv nv' :
    pinv i0 v nv -> spec_step e v st s = inl (v', st') -> vnav_step dcount r nv (wstep_of_step s) = Ok nv' ->
    pinv (step_id s i0) v' nv'.
  Proof.
    intros [Hsub [Hsh [Han Hg]]] Hs Hn. destruct s as [k|j]; cbn [spec_step step_id wstep_of_step vnav_step] in *.
    - destruct v as [x|x|sz]; [| |discriminate].
      + destruct x as [i sz oc rd|i oc rd ks]; [discriminate|]. destruct oc; try discriminate.
        destruct (find_kid ks k) as [x|] eqn:Ef; [|discriminate]. destruct (kid_start e ks k); [|discriminate]. inversion Hs; subst v' st'.
        cbn [vjs good] in *. destruct Hg as [Hwf Hnd]. pose proof (okx_unions e i rd ks Hwf) as Hun. pose proof (okx_kids e i Once rd ks Hwf) as Hwk.
        cbn [ids] in Hnd. inversion Hnd as [|? ? _ Hndk]; subst.
        eapply (name_step i0 _ (Some (KName i)) _ ks (union_of (redef_targets ks)) k x nv nv' (build_group_once_eq i rd ks)); eauto.
        * intros y Hy. now apply sub_kid_once.
        * apply pfind_assemble.
        * intros y u Hy Hu. exact (member_not_table e ks y u Hun Hndk Hy Hu).
      + destruct x as [i sz oc rd|i oc rd ks].
        * destruct (N.eqb i k) eqn:E; [|discriminate]. apply N.eqb_eq in E. subst k. inversion Hs; subst v' st'.
          cbn [vjs] in *. unfold elem_items in *.
          destruct (vn_loc nv) as [?|?|st0 sz0 pls|?|?] eqn:El; cbn [shaped] in Hsh; try contradiction.
          destruct pls as [|k1 l1 r1]; cbn [shaped_props] in Hsh; try contradiction. destruct Hsh as [-> [Hl1 _]].
          destruct (vname_obj nv (KName i) nv' st0 sz0 _ El Hn) as [c [Hw [Ea Hc]]].
          cbn [wfind key_eqb] in Hw. rewrite N.eqb_refl in Hw. inversion Hw; subst c.
          destruct l1 as [a1 s1 z1|?|?|?|?]; cbn [shaped] in Hl1; try contradiction. destruct Hl1 as [-> ->].
          unfold pinv. cbn [vjs good]. rewrite Ea, Hc. repeat split; auto.
          eapply sub_trans; [|exact Hsub]. rewrite sub_unfold. right. cbn [sub_props]. left. apply sub_refl.
        * destruct (find_kid ks k) as [x|] eqn:Ef; [|discriminate]. destruct (kid_start e ks k); [|discriminate]. inversion Hs; subst v' st'.
          cbn [vjs good] in *. destruct Hg as [Hwf Hnd]. pose proof (okx_kids e i oc rd ks Hwf) as Hwk.
          cbn [ids] in Hnd. inversion Hnd as [|? ? _ Hndk]; subst.
          eapply (name_step i0 _ None _ ks (fun _ => None) k x nv nv' eq_refl); eauto.
          -- intros y Hy. rewrite sub_unfold. right. now apply sub_plain.
          -- rewrite pfind_plain. destruct (find_kid ks k) as [x0|]; reflexivity.
          -- intros y u Hy Hu. discriminate.
    - destruct v as [x|x|sz]; [|discriminate|discriminate].
      destruct (is_table x) eqn:Et; [|discriminate]. destruct (j <? count e (item_oc x)); [|discriminate]. inversion Hs; subst v' st'.
      cbn [vjs good] in *.
      assert (Hits : exists a its, (build_alt x = JArr a (match item_oc x with Times n => n | _ => 0 end) its
                                    \/ exists c, build_alt x = JOdo a c its) /\ its = vjs i0 (VOcc x)).
      { destruct x as [i sz [|n|c] rd|i [|n|c] rd ks]; try discriminate; cbn [build_alt vjs item_oc]; eauto 7. }
      destruct Hits as [a [its [Hb Hv]]].
      assert (Hsubits : sub its (build_alt x)) by (destruct Hb as [->|[c ->]]; rewrite sub_unfold; right; apply sub_refl).
      assert (Hloc : exists st0 sz0 isz cnt it, vn_loc nv = WArr st0 sz0 isz cnt it its).
      { destruct Hb as [Hb|[c Hb]]; rewrite Hb in Hsh; destruct (vn_loc nv) as [?|st0 sz0 isz cnt it sch|?|?|?]; cbn [shaped] in Hsh; try contradiction;
          destruct Hsh as [-> _]; eauto 6. }
      destruct Hloc as [st0 [sz0 [isz [cnt [it Hloc]]]]]. rewrite SR.Proofs.LayoutValueP.vnav_index_unf in Hn. rewrite Hloc in Hn.
      destruct (cnt <=? j); [discriminate|].
      destruct (walkv dcount r its (st0 + isz * j) []) as [[l an']|ex] eqn:Ew; [|discriminate]. inversion Hn; subst nv'.
      destruct (proj1 (walk_shape dcount r) _ _ _ _ _ Ew) as [Hl Hf].
      unfold pinv. rewrite <- Hv. cbn [vn_loc vn_an]. repeat split; try apply Hg; auto.
      + eapply sub_trans; [exact Hsubits|exact Hsub].
      + intros k l0 Hin. destruct (Hf k l0 Hin) as [[]|[s' [H1 [H2 H3]]]]. exists s'. repeat split; auto.
        eapply sub_trans; [exact H1|]. eapply sub_trans; [exact Hsubits|exact Hsub].
  Qed.

  Lemma path_shape : forall p i0 v st v' st' nv nv',
    pinv i0 v nv -> spec_nav e v st p = inl (v', st') -> vnav_path dcount r nv (wpath p) = Ok nv' ->
    pinv (last_name p i0) v' nv'.
  Proof.
    induction p as [|s p IH]; intros i0 v st v' st' nv nv' Hi Hs Hn.
    - cbn [spec_nav wpath map vnav_path last_name] in *. inversion Hs; inversion Hn; subst. exact Hi.
    - cbn [spec_nav wpath map vnav_path] in *. destruct (spec_step e v st s) as [[v1 st1]|err] eqn:Es; [|discriminate].
      destruct (vnav_step dcount r nv (wstep_of_step s)) as [nv1|ex] eqn:En; [|discriminate].
      replace (last_name (s :: p) i0) with (last_name p (step_id s i0)) by (destruct s; reflexivity).
      exact (IH _ _ _ _ _ _ _ (step_shape i0 v st s v1 st1 nv nv1 Hi Es En) Hs Hn).
  Qed.
End PathShape.

(* ================================================================== D. the composition *)
Lemma record_length (kd : kinds) (vals : assignment) (e : env) (t : item) :
  record_ok kd vals e t = true -> length (spec_record kd vals e t) = extent e t.
Proof. exact (proj1 (length_rec kd vals e) t []). Qed.

Import SR.Proofs.LayoutValueP.

Lemma nav_path_erase (dcount : list N -> nat) (r : list N) : forall p w,
  nav_path dcount r (erase_nav w) p = erase_rnav (vnav_path dcount r w (wpath p)).
Proof.
  induction p as [|s p IH]; intro w; [reflexivity|]. cbn [nav_path wpath map vnav_path].
  assert (Hs : nav_step dcount r (erase_nav w) s = erase_rnav (vnav_step dcount r w (wstep_of_step s))).
  { destruct s as [k|i]; cbn [nav_step vnav_step wstep_of_step]; [apply nav_name_erase|apply nav_index_erase]. }
  rewrite Hs. destruct (vnav_step dcount r w (wstep_of_step s)) as [w1|ex]; cbn [erase_rnav]; [apply IH|reflexivity].
Qed.

Lemma elem_at_view e t p i sz st : elem_at e t p = Some (i, sz, st) ->
  exists v, spec_nav e (VItem t) 0 p = inl (v, st) /\ view_size e v = sz /\ vjs (last_name p 0%N) v = JAtom (Some (KName i)) sz.
Proof.
  unfold elem_at. destruct (spec_nav e (VItem t) 0 p) as [[v st0]|err]; [|discriminate].
  destruct v as [x|x|sz0]; [|discriminate|].
  - destruct x as [i0 sz0 oc rd|]; [|discriminate]. destruct oc; try discriminate. intro H; inversion H; subst.
    eexists. split; [reflexivity|]. split; [unfold view_size, extent; cbn [item_oc count ext1]; lia|reflexivity].
  - intro H; inversion H; subst. eexists. split; [reflexivity|]. split; reflexivity.
Qed.

(* the location an elementary occurrence is reached at is an AtomicLocation with the item's own anchor *)
Lemma atom_reached (dcount : list N -> nat) (r : list N) e t p i sz st w0 wv :
  okx e t -> NoDup (ids t) -> NoDup (jkeys (build t)) ->
  vnav_of dcount r (build t) = Ok w0 -> vnav_path dcount r w0 (wpath p) = Ok wv ->
  elem_at e t p = Some (i, sz, st) ->
  exists st', vn_loc wv = WAtom (Some (KName i)) st' sz.
Proof.
  intros Hwf Hnd Hu H0 Hp Hat. destruct (elem_at_view e t p i sz st Hat) as [v [Hnav [_ Hjs]]].
  assert (Hi : pinv e (build t) 0%N (VItem t) w0).
  { rewrite SR.Proofs.LayoutValueP.vnav_of_unf in H0. destruct (walkv dcount r (build t) 0 []) as [[l an]|ex] eqn:Ew; [|discriminate]. inversion H0; subst w0.
    destruct (proj1 (walk_shape dcount r) _ _ _ _ _ Ew) as [Hl Hf].
    unfold pinv. cbn [vn_loc vn_an vjs good]. split; [apply sub_refl|]. split; [exact Hl|]. split; [|split; assumption].
    intros k l0 Hin. destruct (Hf k l0 Hin) as [[]|H]. exact H. }
  destruct (path_shape dcount r e (build t) Hu p 0%N (VItem t) 0 v st w0 wv Hi Hnav Hp) as [_ [Hsh _]].
  rewrite Hjs in Hsh. destruct (vn_loc wv) as [a st' sz'|?|?|?|?]; cbn [shaped] in Hsh; try contradiction.
  destruct Hsh as [-> ->]. eauto.
Qed.

(* the composition, from what a layout theorem (C01_layout or C06_layout) says about the record *)
Lemma compose (dcount : list N -> nat) (kd : kinds) (vals : assignment) (e : env) (t : item) :
  okx e t -> NoDup (ids t) -> NoDup (jkeys (build t)) -> record_ok kd vals e t = true ->
  (exists v0, nav_of dcount (spec_record kd vals e t) (build t) = Ok v0
     /\ forall p v st, spec_nav e (VItem t) 0 p = inl (v, st) ->
          exists nv, nav_path dcount (spec_record kd vals e t) v0 p = Ok nv
            /\ nav_raw (spec_record kd vals e t) nv = slice (spec_record kd vals e t) st (st + view_size e v)) ->
  forall p i sz st, elem_at e t p = Some (i, sz, st) -> own_storage e (VItem t) 0 p = true ->
    value_at kd dcount (spec_record kd vals e t) (build t) p = Some (Ok (PAtom (py_of (stored (kd i) (vals p))))).
Proof.
  intros Hwf Hnd Hu Hok [v0 [H0 Hpaths]] p i sz st Hat Hown. set (r := spec_record kd vals e t) in *.
  destruct (elem_at_view e t p i sz st Hat) as [v [Hnav [Hsz _]]].
  destruct (Hpaths p v st Hnav) as [nv [Hp Hraw]].
  rewrite nav_of_erase in H0. unfold value_at.
  destruct (vnav_of dcount r (build t)) as [w0|ex] eqn:E0; [|discriminate]. cbn [erase_rnav] in H0. inversion H0; subst v0.
  rewrite nav_path_erase in Hp. destruct (vnav_path dcount r w0 (wpath p)) as [wv|ex] eqn:Ep; [|discriminate].
  cbn [erase_rnav] in Hp. inversion Hp; subst nv.
  destruct (atom_reached dcount r e t p i sz st w0 wv Hwf Hnd Hu E0 Ep Hat) as [st' Hloc].
  rewrite (atom_value N pyval (field_dec kd) r wv _ _ _ Hloc).
  rewrite <- nav_raw_erase, Hraw, Hsz.
  destruct (record_field kd vals e t p i sz st Hok Hown Hat) as [Hsl [Hk Hv]]. fold r in Hsl.
  rewrite Hsl, (field_roundtrip kd i sz (vals p) Hk Hv). reflexivity.
Qed.

(* what is stored in a record is what navigation returns *)
Theorem stored_is_read : forall (dcount : list N -> nat) (kd : kinds) (vals : assignment) (e : env) (t : item),
  LayoutP.wf e t = true -> NoDup (ids t) -> record_ok kd vals e t = true ->
  forall p i sz st, elem_at e t p = Some (i, sz, st) -> own_storage e (VItem t) 0 p = true ->
    value_at kd dcount (spec_record kd vals e t) (build t) p = Some (Ok (PAtom (py_of (stored (kd i) (vals p))))).
Proof.
  intros dcount kd vals e t Hwf Hnd Hok.
  pose proof (cobol_like_build e t Hwf Hnd) as Hc. unfold cobol_like in Hc. apply andb_prop in Hc. destruct Hc as [_ Hu].
  apply nodupk_nodup in Hu.
  apply (compose dcount kd vals e t (or_introl Hwf) Hnd Hu Hok).
  destruct (layout_correct N dcount (spec_record kd vals e t) e t Hwf Hnd) as [v0 [H0 [_ [_ Hpaths]]]].
  exists v0. split; [exact H0|]. intros p v st Hs. destruct (Hpaths p v st Hs) as [nv [H1 [_ [_ H2]]]]. eauto.
Qed.

(* the same for C06's general form: OCCURS DEPENDING ON tables anywhere a non-repeated item may stand; the record built from
   the assignment carries the count vector e (Holds: the counter fields decode to e).  The hypothesis that no $anchor occurs
   twice in the emitted schema (uniq_keys, a boolean on build t) is a theorem for wf (C10_cobol_like_built); for wfo it is
   not proved here and is kept as a hypothesis: the statement without it is stored_is_read_odo_statement. *)
Definition stored_is_read_odo_statement : Prop :=
  forall (dcount : list N -> nat) (kd : kinds) (vals : assignment) (e : env) (t : item),
  wfo e [] t = true -> NoDup (ids t) -> record_ok kd vals e t = true ->
  Holds N dcount (spec_record kd vals e t) e t 0 ->
  forall p i sz st, elem_at e t p = Some (i, sz, st) -> own_storage e (VItem t) 0 p = true ->
    value_at kd dcount (spec_record kd vals e t) (build t) p = Some (Ok (PAtom (py_of (stored (kd i) (vals p))))).

Theorem stored_is_read_odo_partial : forall (dcount : list N -> nat) (kd : kinds) (vals : assignment) (e : env) (t : item),
  wfo e [] t = true -> NoDup (ids t) -> uniq_keys (build t) = true -> record_ok kd vals e t = true ->
  Holds N dcount (spec_record kd vals e t) e t 0 ->
  forall p i sz st, elem_at e t p = Some (i, sz, st) -> own_storage e (VItem t) 0 p = true ->
    value_at kd dcount (spec_record kd vals e t) (build t) p = Some (Ok (PAtom (py_of (stored (kd i) (vals p))))).
Proof.
  intros dcount kd vals e t Hwf Hnd Hu Hok Hh. unfold uniq_keys in Hu. apply nodupk_nodup in Hu.
  apply (compose dcount kd vals e t (or_intror (ex_intro _ [] Hwf)) Hnd Hu Hok).
  destruct (layout_correct_odo N dcount (spec_record kd vals e t) e t Hwf Hnd Hh) as [v0 [H0 [_ [_ Hpaths]]]].
  exists v0. split; [exact H0|]. intros p v st Hs. destruct (Hpaths p v st Hs) as [nv [H1 [_ [_ [H2 _]]]]]. eauto.
Qed.

(* ---- whole group: where value() of a group (or of the record) exists, it holds the assigned value under the name of
   every elementary child that owns its storage (C10_commute_name).  The premise that the whole value exists is needed:
   value() of a group decodes every member, the REDEFINES alternatives included, and may raise where the part does not. *)
Lemma vnav_path_app (dcount : list N -> nat) (r : list N) : forall a b v,
  vnav_path dcount r v (a ++ b) = match vnav_path dcount r v a with Ok v1 => vnav_path dcount r v1 b | Err ex => Err ex end.
Proof.
  induction a as [|s a IH]; intros b v; [reflexivity|]. cbn [app vnav_path].
  destruct (vnav_step dcount r v s); [apply IH|reflexivity].
Qed.

Theorem stored_is_read_group : forall (dcount : list N -> nat) (kd : kinds) (vals : assignment) (e : env) (t : item),
  LayoutP.wf e t = true -> NoDup (ids t) -> record_ok kd vals e t = true ->
  forall p k d i sz st,
    value_at kd dcount (spec_record kd vals e t) (build t) p = Some (Ok (PDict d)) ->
    elem_at e t (p ++ [PName k]) = Some (i, sz, st) -> own_storage e (VItem t) 0 (p ++ [PName k]) = true ->
    dlookup (KName k) d = Some (PAtom (py_of (stored (kd i) (vals (p ++ [PName k]))))).
Proof.
  intros dcount kd vals e t Hwf Hnd Hok p k d i sz st Hwhole Hat Hown.
  pose proof (stored_is_read dcount kd vals e t Hwf Hnd Hok _ i sz st Hat Hown) as Hpart.
  unfold value_at in *. destruct (vnav_of dcount (spec_record kd vals e t) (build t)) as [w0|ex]; [|discriminate].
  unfold wpath in Hpart. rewrite map_app in Hpart. fold (wpath p) in Hpart. rewrite vnav_path_app in Hpart.
  destruct (vnav_path dcount (spec_record kd vals e t) w0 (wpath p)) as [v|ex]; [|discriminate].
  cbn [map wstep_of_step vnav_path vnav_step] in Hpart.
  destruct (vnav_name v (KName k)) as [v'|ex] eqn:En; [|discriminate].
  destruct (commute_name N pyval (field_dec kd) _ v v' (KName k) d Hwhole En) as [x [Hx Hv]].
  rewrite Hv in Hpart. inversion Hpart; subst x. exact Hx.
Qed.
