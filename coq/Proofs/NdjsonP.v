(* Proofs about Model/Ndjson.v: json.loads of every line gives back the dict json.dumps was given.

   Part A  hex digits, surrogate arithmetic.
   Part B  the four shapes of an escaped character; single steps of scanstring.
   Part C  scanstring on an escaped string: [scan_escape] (with ensure_ascii: no adjacent surrogate pair).
   Part D  the object, the line, the file: [ndjson_roundtrip].
   Part E  what is lost: an adjacent high/low surrogate pair under ensure_ascii. *)
From Coq Require Import ZArith NArith List Bool Lia Arith ZifyBool ZifyN ZifyNat.
Import ListNotations.
Require Import SR.Base.Res SR.Model.Ndjson.
Require SR.Model.Workbook SR.Proofs.WorkbookP SR.Model.Csv SR.Proofs.CsvP.
Require Import SR.Gen.CsvOpenParams.
(* The definitions of this development that occur in theorem statements (Props/) live in Spec/NdjsonWf.v (audit item G1).
   The abbreviations keep the qualified names NdjsonP.name of other files resolving; they are parsing-only aliases. *)
Require Export SR.Spec.NdjsonWf.
Notation scalar_text := SR.Spec.NdjsonWf.scalar_text (only parsing).
Notation scalar_pair := SR.Spec.NdjsonWf.scalar_pair (only parsing).
Open Scope N_scope.
Ltac Zify.zify_post_hook ::= Z.to_euclidean_division_equations.

(* ================================================================ Part A *)
Lemma hex_digit_ge k : 48 <= hex_digit k.
Proof. unfold hex_digit. destruct (k <? 10); lia. Qed.

Lemma hex_val_digit k : k < 16 -> hex_val (hex_digit k) = Some k.
Proof.
  intros Hk. unfold hex_digit, hex_val. destruct (k <? 10) eqn:E.
  - apply N.ltb_lt in E.
    replace ((48 <=? 48 + k) && (48 + k <=? 57)) with true by (symmetry; apply andb_true_intro; split; apply N.leb_le; lia).
    f_equal. lia.
  - apply N.ltb_ge in E.
    replace (87 + k <=? 57) with false by (symmetry; apply N.leb_gt; lia). rewrite andb_false_r.
    replace ((97 <=? 87 + k) && (87 + k <=? 102)) with true by (symmetry; apply andb_true_intro; split; apply N.leb_le; lia).
    f_equal. lia.
Qed.

Lemma hex4_val_hex4 n : n < 65536 ->
  hex4_val (hex_digit ((n / 4096) mod 16)) (hex_digit ((n / 256) mod 16)) (hex_digit ((n / 16) mod 16)) (hex_digit (n mod 16))
  = Some n.
Proof.
  intros Hn. unfold hex4_val. rewrite !hex_val_digit by (apply N.mod_lt; discriminate).
  f_equal. lia.
Qed.

Lemma surrogates_join c : 65536 <= c -> c <= 1114111 ->
  let v := c - 65536 in
  let hi := 55296 + (v / 1024) mod 1024 in
  let lo := 56320 + v mod 1024 in
  is_high hi = true /\ is_low lo = true /\ hi < 65536 /\ lo < 65536 /\ join_surrogates hi lo = c.
Proof.
  intros H1 H2 v hi lo. unfold is_high, is_low, join_surrogates. subst v hi lo.
  repeat split; try (apply andb_true_intro; split; apply N.leb_le); lia.
Qed.

(* ================================================================ Part B *)
Inductive shape (ea : bool) (c : N) : text -> Prop :=
| sh_short x : (x =? 117) = false -> unescape x = Some c -> (x =? 10) = false -> (x =? 13) = false -> shape ea c [92; x]
| sh_u : c < 65536 -> (c < 32 \/ (ea = true /\ 126 < c)) -> shape ea c (u_escape c)
| sh_pair : ea = true -> 65536 <= c ->
    shape ea c (u_escape (55296 + ((c - 65536) / 1024) mod 1024) ++ u_escape (56320 + (c - 65536) mod 1024))
| sh_plain : (c =? 34) = false -> (c =? 92) = false -> (c <=? 31) = false -> (ea = true -> c <= 126) -> shape ea c [c].

Lemma escape_char_shape ea c : shape ea c (escape_char ea c).
Proof.
  unfold escape_char.
  destruct (c =? 34) eqn:E1; [apply N.eqb_eq in E1; subst c; apply (sh_short ea 34 34); reflexivity|].
  destruct (c =? 92) eqn:E2; [apply N.eqb_eq in E2; subst c; apply (sh_short ea 92 92); reflexivity|].
  destruct (c =? 10) eqn:E3; [apply N.eqb_eq in E3; subst c; apply (sh_short ea 10 110); reflexivity|].
  destruct (c =? 13) eqn:E4; [apply N.eqb_eq in E4; subst c; apply (sh_short ea 13 114); reflexivity|].
  destruct (c =? 9) eqn:E5; [apply N.eqb_eq in E5; subst c; apply (sh_short ea 9 116); reflexivity|].
  destruct (c =? 8) eqn:E6; [apply N.eqb_eq in E6; subst c; apply (sh_short ea 8 98); reflexivity|].
  destruct (c =? 12) eqn:E7; [apply N.eqb_eq in E7; subst c; apply (sh_short ea 12 102); reflexivity|].
  destruct (c <? 32) eqn:E8.
  { apply N.ltb_lt in E8. apply sh_u; lia. }
  apply N.ltb_ge in E8.
  destruct (ea && (126 <? c)) eqn:E9.
  - apply andb_prop in E9 as [-> E9]. apply N.ltb_lt in E9. destruct (c <? 65536) eqn:E10.
    + apply N.ltb_lt in E10. apply sh_u; [lia|right; split; [reflexivity|lia]].
    + apply N.ltb_ge in E10. apply sh_pair; [reflexivity|lia].
  - apply sh_plain; try assumption.
    + apply N.leb_gt. lia.
    + intros ->. cbn [andb] in E9. apply N.ltb_ge in E9. exact E9.
Qed.

Lemma scan_quote t acc : scan_string (34 :: t) acc = Ok (rev acc, t).
Proof. reflexivity. Qed.

Lemma scan_plain c t acc : (c =? 34) = false -> (c =? 92) = false -> (c <=? 31) = false ->
  scan_string (c :: t) acc = scan_string t (c :: acc).
Proof. intros H1 H2 H3. cbn [scan_string]. rewrite H1, H2, H3. reflexivity. Qed.

Lemma scan_short x t acc c : (x =? 117) = false -> unescape x = Some c ->
  scan_string (92 :: x :: t) acc = scan_string t (c :: acc).
Proof. intros H1 H2. cbn [scan_string]. change (92 =? 34) with false. change (92 =? 92) with true. cbn iota. rewrite H1, H2. reflexivity. Qed.

(* what stands after a first escape does not begin with the escape of a low surrogate *)
Definition ahead_ok (t2 : text) : bool :=
  match t2 with
  | b :: t2a =>
      if b =? 92 then
        match t2a with
        | u :: t2b =>
            if u =? 117 then
              match t2b with
              | g1 :: g2 :: g3 :: g4 :: _ =>
                  match hex4_val g1 g2 g3 g4 with Some v2 => negb (is_low v2) | None => false end
              | _ => true
              end
            else true
        | [] => true
        end
      else true
  | [] => true
  end.

Lemma scan_u_alone h1 h2 h3 h4 v b t2a acc :
  hex4_val h1 h2 h3 h4 = Some v -> is_high v = false \/ ahead_ok (b :: t2a) = true ->
  scan_string (92 :: 117 :: h1 :: h2 :: h3 :: h4 :: b :: t2a) acc = scan_string (b :: t2a) (v :: acc).
Proof.
  intros Hv H. cbn [scan_string]. change (92 =? 34) with false. change (92 =? 92) with true.
  change (117 =? 117) with true. cbn iota. rewrite Hv.
  destruct (is_high v && (7 <=? length (b :: t2a))%nat) eqn:Eh; [|reflexivity].
  apply andb_prop in Eh as [Eh _]. destruct H as [H|H]; [congruence|].
  unfold ahead_ok in H. destruct (b =? 92); [|reflexivity].
  destruct t2a as [|u t2b]; [reflexivity|]. destruct (u =? 117); [|reflexivity].
  destruct t2b as [|g1 [|g2 [|g3 [|g4 t3]]]]; try reflexivity.
  destruct (hex4_val g1 g2 g3 g4) as [v2|]; [|discriminate H].
  destruct (is_low v2); [discriminate H|reflexivity].
Qed.

Lemma scan_u_pair h1 h2 h3 h4 v g1 g2 g3 g4 v2 x t3 acc :
  hex4_val h1 h2 h3 h4 = Some v -> is_high v = true -> hex4_val g1 g2 g3 g4 = Some v2 -> is_low v2 = true ->
  scan_string (92 :: 117 :: h1 :: h2 :: h3 :: h4 :: 92 :: 117 :: g1 :: g2 :: g3 :: g4 :: x :: t3) acc
  = scan_string (x :: t3) (join_surrogates v v2 :: acc).
Proof.
  intros Hv Hh Hv2 Hl. cbn [scan_string]. change (92 =? 34) with false. change (92 =? 92) with true.
  change (117 =? 117) with true. cbn iota. rewrite Hv, Hh. cbn [length Nat.leb andb]. rewrite Hv2, Hl. reflexivity.
Qed.

(* ================================================================ Part C *)
Lemma escape_cons ea c s : escape ea (c :: s) = escape_char ea c ++ escape ea s.
Proof. reflexivity. Qed.

Lemma text_ok_tail ea c s : text_ok ea (c :: s) = true -> text_ok ea s = true.
Proof.
  unfold text_ok. destruct ea; [|reflexivity]. cbn [code_points forallb no_pair]. intros H.
  apply andb_prop in H as [H1 H2]. apply andb_prop in H1 as [_ H1]. apply andb_prop in H2 as [_ H2].
  unfold code_points. rewrite H1, H2. reflexivity.
Qed.

Lemma text_ok_head c s : text_ok true (c :: s) = true ->
  c <= 1114111 /\ (is_high c = true -> match s with c2 :: _ => is_low c2 = false | [] => True end).
Proof.
  unfold text_ok. cbn [code_points forallb no_pair]. intros H.
  apply andb_prop in H as [H1 H2]. apply andb_prop in H1 as [H1 _]. apply andb_prop in H2 as [H2 _].
  split; [apply N.leb_le; exact H1|]. intros Hh. rewrite Hh in H2. cbn [andb] in H2.
  destruct s as [|c2 s]; [exact I|]. apply negb_true_iff in H2. exact H2.
Qed.

Lemma low_not_high v : is_low v = true -> is_high v = false.
Proof.
  unfold is_low, is_high. intros H. apply andb_prop in H as [H _]. apply N.leb_le in H.
  apply andb_false_iff. right. apply N.leb_gt. lia.
Qed.

Lemma high_not_low v : is_high v = true -> is_low v = false.
Proof. intros H. destruct (is_low v) eqn:E; [|reflexivity]. rewrite (low_not_high v E) in H. discriminate H. Qed.

Lemma small_not_surrogate v : v < 55296 -> is_high v = false /\ is_low v = false.
Proof.
  intros H. unfold is_high, is_low. split; apply andb_false_iff; left; apply N.leb_gt; lia.
Qed.

Lemma ahead_ok_u n rest : n < 65536 -> is_low n = false -> ahead_ok (u_escape n ++ rest) = true.
Proof.
  intros Hn Hl. unfold u_escape, hex4. cbn [app ahead_ok]. change (92 =? 92) with true. change (117 =? 117) with true.
  cbn iota. rewrite hex4_val_hex4 by exact Hn. rewrite Hl. reflexivity.
Qed.

(* the text after an escape, when the next code point (if any) is not a low surrogate *)
Lemma ahead_ok_escape ea s rest : text_ok ea s = true ->
  match s with c2 :: _ => is_low c2 = false | [] => True end ->
  ahead_ok (escape ea s ++ 34 :: rest) = true.
Proof.
  intros Hok Hhead. destruct s as [|c s]; [reflexivity|].
  rewrite escape_cons, <- app_assoc. destruct (escape_char_shape ea c) as [x Hx _ _ _| Hc _ | -> Hc | H1 H2 _ _].
  - cbn [app ahead_ok]. change (92 =? 92) with true. cbn iota. rewrite Hx. reflexivity.
  - apply ahead_ok_u; assumption.
  - rewrite <- app_assoc. apply ahead_ok_u.
    + assert (((c - 65536) / 1024) mod 1024 < 1024) by (apply N.mod_lt; discriminate). lia.
    + apply high_not_low. unfold is_high.
      assert (((c - 65536) / 1024) mod 1024 < 1024) by (apply N.mod_lt; discriminate).
      apply andb_true_intro; split; apply N.leb_le; lia.
  - cbn [app ahead_ok]. rewrite H2. reflexivity.
Qed.

Lemma escape_tail_cons ea s rest : exists b t, escape ea s ++ 34 :: rest = b :: t.
Proof. destruct (escape ea s) as [|b t]; [exists 34, rest|exists b, (t ++ 34 :: rest)]; reflexivity. Qed.

Lemma scan_escape ea : forall s acc rest, text_ok ea s = true ->
  scan_string (escape ea s ++ 34 :: rest) acc = Ok (rev acc ++ s, rest).
Proof.
  induction s as [|c s IH]; intros acc rest Hok.
  - cbn [escape flat_map app]. rewrite scan_quote, app_nil_r. reflexivity.
  - pose proof (text_ok_tail ea c s Hok) as Hs.
    assert (Hgoal : scan_string (escape ea s ++ 34 :: rest) (c :: acc) = Ok (rev acc ++ c :: s, rest)).
    { rewrite IH by exact Hs. cbn [rev]. rewrite <- app_assoc. reflexivity. }
    rewrite escape_cons, <- app_assoc.
    destruct (escape_char_shape ea c) as [x Hx Hu _ _| Hc Hr | -> Hc | H1 H2 H3 _].
    + cbn [app]. rewrite (scan_short x _ acc c Hx Hu). exact Hgoal.
    + destruct (escape_tail_cons ea s rest) as (b & t & Et). unfold u_escape, hex4. cbn [app].
      rewrite Et, (scan_u_alone _ _ _ _ c b t acc (hex4_val_hex4 c Hc)); [rewrite <- Et; exact Hgoal|].
      destruct (is_high c) eqn:Eh; [right|left; reflexivity].
      rewrite <- Et. destruct Hr as [Hr|[-> _]].
      * destruct (small_not_surrogate c ltac:(lia)) as [Hh _]. congruence.
      * apply ahead_ok_escape; [exact Hs|]. apply (text_ok_head c s Hok). exact Eh.
    + destruct (text_ok_head c s Hok) as [Hle _].
      destruct (surrogates_join c Hc Hle) as (Hh & Hl & Hhi & Hlo & Hj). cbn zeta in *.
      destruct (escape_tail_cons true s rest) as (b & t & Et). rewrite <- app_assoc.
      unfold u_escape at 1 2, hex4. cbn [app]. rewrite Et.
      rewrite (scan_u_pair _ _ _ _ _ _ _ _ _ _ b t acc (hex4_val_hex4 _ Hhi) Hh (hex4_val_hex4 _ Hlo) Hl).
      rewrite Hj, <- Et. exact Hgoal.
    + cbn [app]. rewrite scan_plain by assumption. exact Hgoal.
Qed.

Lemma scan_json_string ea s rest : text_ok ea s = true ->
  scan_string (escape ea s ++ 34 :: rest) [] = Ok (s, rest).
Proof. intros H. rewrite scan_escape by exact H. reflexivity. Qed.

(* ================================================================ Part D *)
Lemma text_eqb_eq : forall a b, text_eqb a b = true <-> a = b.
Proof.
  induction a as [|x a IH]; destruct b as [|y b]; cbn [text_eqb]; split; intros H; try reflexivity; try discriminate.
  - apply andb_prop in H as [H1 H2]. apply N.eqb_eq in H1. apply IH in H2. subst. reflexivity.
  - injection H as -> ->. rewrite N.eqb_refl. apply IH. reflexivity.
Qed.

Lemma text_eqb_neq a b : a <> b -> text_eqb a b = false.
Proof. intros H. destruct (text_eqb a b) eqn:E; [apply text_eqb_eq in E; contradiction|reflexivity]. Qed.

Lemma dict_set_fresh : forall (d : doc) k v, ~ In k (map fst d) -> dict_set d k v = d ++ [(k, v)].
Proof.
  induction d as [|[k' v'] d IH]; intros k v H; [reflexivity|].
  cbn [dict_set map fst In] in *. rewrite text_eqb_neq by (intros ->; apply H; left; reflexivity).
  cbn [app]. f_equal. apply IH. intros Hin. apply H. right. exact Hin.
Qed.

Definition set_all (d acc : doc) : doc := fold_left (fun a kv => dict_set a (fst kv) (snd kv)) d acc.

Lemma distinct_inv k ks : distinct (k :: ks) = true -> ~ In k ks /\ distinct ks = true.
Proof.
  cbn [distinct]. intros H. apply andb_prop in H as [H1 H2]. split; [|exact H2].
  apply negb_true_iff in H1. intros Hin. assert (existsb (text_eqb k) ks = true); [|congruence].
  apply existsb_exists. exists k. split; [exact Hin|apply text_eqb_eq; reflexivity].
Qed.

Lemma set_all_fresh : forall (d acc : doc),
  distinct (map fst d) = true -> (forall k, In k (map fst d) -> ~ In k (map fst acc)) -> set_all d acc = acc ++ d.
Proof.
  induction d as [|[k v] d IH]; intros acc Hd Hfresh; [symmetry; apply app_nil_r|].
  cbn [map fst] in Hd. destruct (distinct_inv _ _ Hd) as [Hk Hd'].
  unfold set_all. cbn [fold_left fst snd]. fold (set_all d (dict_set acc k v)).
  rewrite dict_set_fresh by (apply Hfresh; left; reflexivity).
  rewrite IH; [rewrite <- app_assoc; reflexivity|exact Hd'|].
  intros k' Hin. rewrite map_app, in_app_iff. cbn [map fst In]. intros [H|[H|[]]].
  - apply (Hfresh k'); [right; exact Hin|exact H].
  - subst k'. contradiction.
Qed.

Lemma skip_ws_id c t : is_ws c = false -> skip_ws (c :: t) = c :: t.
Proof. intros H. cbn [skip_ws]. rewrite H. reflexivity. Qed.

Definition pair_ok (ea : bool) (kv : text * text) : bool := text_ok ea (fst kv) && text_ok ea (snd kv).

(* one property and what follows it *)
Lemma json_pair_text ea kv tail :
  json_pair ea kv ++ tail
  = 34 :: escape ea (fst kv) ++ 34 :: 58 :: 32 :: 34 :: escape ea (snd kv) ++ 34 :: tail.
Proof. unfold json_pair, json_string. cbn [app]. rewrite <- !app_assoc. cbn [app]. rewrite <- !app_assoc. reflexivity. Qed.

Lemma parse_members_step ea fuel kv acc tail : pair_ok ea kv = true ->
  parse_members (S fuel) (json_pair ea kv ++ tail) acc
  = let acc' := dict_set acc (fst kv) (snd kv) in
    match skip_ws tail with
    | c3 :: r4 =>
        if c3 =? 125 then Done (acc', r4)
        else if c3 =? 44 then parse_members fuel (skip_ws r4) acc'
        else Raise ValueError
    | [] => Raise ValueError
    end.
Proof.
  intros H. apply andb_prop in H as [Hk Hv]. rewrite json_pair_text. cbn [parse_members].
  change (34 =? 34) with true. cbn iota. rewrite (scan_json_string ea _ _ Hk).
  rewrite skip_ws_id by reflexivity. change (58 =? 58) with true. cbn iota.
  change (skip_ws (32 :: 34 :: escape ea (snd kv) ++ 34 :: tail)) with (34 :: escape ea (snd kv) ++ 34 :: tail).
  cbn [parse_value]. change (34 =? 34) with true. cbn iota. rewrite (scan_json_string ea _ _ Hv). reflexivity.
Qed.

Lemma json_pairs_cons2 ea kv kv2 t : json_pairs ea (kv :: kv2 :: t) = json_pair ea kv ++ 44 :: 32 :: json_pairs ea (kv2 :: t).
Proof. reflexivity. Qed.

Lemma json_pairs_head ea kv t tail : exists r, json_pairs ea (kv :: t) ++ tail = 34 :: r.
Proof.
  destruct t as [|kv2 t].
  - cbn [json_pairs]. rewrite json_pair_text. eexists. reflexivity.
  - rewrite json_pairs_cons2, <- app_assoc, json_pair_text. eexists. reflexivity.
Qed.

Lemma parse_members_pairs ea : forall (d : doc) acc fuel rest, d <> [] -> forallb (pair_ok ea) d = true ->
  (length d <= fuel)%nat ->
  parse_members fuel (json_pairs ea d ++ 125 :: rest) acc = Done (set_all d acc, rest).
Proof.
  induction d as [|kv d IH]; intros acc fuel rest Hne Hok Hf; [congruence|].
  cbn [forallb] in Hok. apply andb_prop in Hok as [Hkv Hd].
  destruct fuel as [|fuel]; [cbn [length] in Hf; lia|]. cbn [length] in Hf.
  unfold set_all. cbn [fold_left]. fold (set_all d (dict_set acc (fst kv) (snd kv))).
  destruct d as [|kv2 t].
  - cbn [json_pairs]. rewrite (parse_members_step ea fuel kv acc _ Hkv). reflexivity.
  - rewrite json_pairs_cons2, <- app_assoc, (parse_members_step ea fuel kv acc _ Hkv). cbn zeta.
    cbn [app]. rewrite skip_ws_id by reflexivity. change (44 =? 125) with false. change (44 =? 44) with true. cbn iota.
    destruct (json_pairs_head ea kv2 t (125 :: rest)) as (r & Er).
    change (skip_ws (32 :: json_pairs ea (kv2 :: t) ++ 125 :: rest)) with (skip_ws (json_pairs ea (kv2 :: t) ++ 125 :: rest)).
    rewrite Er, skip_ws_id by reflexivity. rewrite <- Er.
    apply IH; [discriminate|exact Hd|lia].
Qed.

Lemma pairs_length ea : forall d : doc, (length d <= length (json_pairs ea d))%nat.
Proof.
  induction d as [|kv d IH]; [apply Nat.le_refl|]. destruct d as [|kv2 t].
  - cbn [json_pairs length]. unfold json_pair, json_string. cbn [app length]. lia.
  - rewrite json_pairs_cons2, app_length. unfold json_pair at 1, json_string. cbn [app length] in *. lia.
Qed.

Lemma doc_ok_inv ea d : doc_ok ea d = true -> distinct (map fst d) = true /\ forallb (pair_ok ea) d = true.
Proof. unfold doc_ok. intros H. apply andb_prop in H. exact H. Qed.

Lemma loads_object ea d : doc_ok ea d = true -> json_loads (json_object ea d ++ [10]) = Done d.
Proof.
  intros H. destruct (doc_ok_inv ea d H) as [Hd Hp].
  unfold json_object. cbn [app]. unfold json_loads. change (123 =? 65279) with false. cbn iota.
  rewrite skip_ws_id by reflexivity. change (123 =? 123) with true. cbn iota zeta. rewrite <- app_assoc. cbn [app].
  destruct d as [|kv t].
  - reflexivity.
  - destruct (json_pairs_head ea kv t [125; 10]) as (r & Er). rewrite Er, skip_ws_id by reflexivity.
    change (34 =? 125) with false. cbn iota. rewrite <- Er.
    rewrite (parse_members_pairs ea (kv :: t) [] _ [10]); [| discriminate | exact Hp |].
    + rewrite set_all_fresh; [reflexivity|exact Hd|intros k _ []].
    + rewrite app_length. pose proof (pairs_length ea (kv :: t)). lia.
Qed.

(* a written line holds no line break: every LF and CR of a string is escaped *)
Lemma safe_u n : WorkbookP.safe (u_escape n) = true.
Proof.
  unfold u_escape, hex4, WorkbookP.safe, Spec.Transparency.nl, Spec.Transparency.cr. cbn [forallb].
  assert (H : forall k, negb (hex_digit k =? 10) && negb (hex_digit k =? 13) = true).
  { intros k. pose proof (hex_digit_ge k). apply andb_true_intro. split; apply negb_true_iff, N.eqb_neq; lia. }
  rewrite !H. reflexivity.
Qed.

Lemma safe_escape_char ea c : WorkbookP.safe (escape_char ea c) = true.
Proof.
  destruct (escape_char_shape ea c) as [x _ _ H1 H2| _ _ | _ _ | _ _ H3 _].
  - unfold WorkbookP.safe, Spec.Transparency.nl, Spec.Transparency.cr. cbn [forallb]. rewrite H1, H2. reflexivity.
  - apply safe_u.
  - rewrite WorkbookP.safe_app, !safe_u. reflexivity.
  - unfold WorkbookP.safe, Spec.Transparency.nl, Spec.Transparency.cr. cbn [forallb]. apply N.leb_gt in H3.
    replace (c =? 10) with false by (symmetry; apply N.eqb_neq; lia).
    replace (c =? 13) with false by (symmetry; apply N.eqb_neq; lia). reflexivity.
Qed.

Lemma safe_escape ea s : WorkbookP.safe (escape ea s) = true.
Proof.
  induction s as [|c s IH]; [reflexivity|]. rewrite escape_cons, WorkbookP.safe_app, safe_escape_char, IH. reflexivity.
Qed.

Lemma safe_cons c s : WorkbookP.safe (c :: s) = (negb (c =? 10) && negb (c =? 13)) && WorkbookP.safe s.
Proof. reflexivity. Qed.

Lemma safe_string ea s : WorkbookP.safe (json_string ea s) = true.
Proof. unfold json_string. rewrite safe_cons, WorkbookP.safe_app, safe_escape. reflexivity. Qed.

Lemma safe_pair ea kv : WorkbookP.safe (json_pair ea kv) = true.
Proof.
  unfold json_pair. rewrite WorkbookP.safe_app, safe_string, !safe_cons, safe_string. reflexivity.
Qed.

Lemma safe_pairs ea : forall d, WorkbookP.safe (json_pairs ea d) = true.
Proof.
  induction d as [|kv d IH]; [reflexivity|]. destruct d as [|kv2 t]; [apply safe_pair|].
  rewrite json_pairs_cons2, WorkbookP.safe_app, safe_pair, !safe_cons, IH. reflexivity.
Qed.

Lemma safe_object ea d : WorkbookP.safe (json_object ea d) = true.
Proof. unfold json_object. rewrite safe_cons, WorkbookP.safe_app, safe_pairs. reflexivity. Qed.

Lemma written_lines ea docs :
  Workbook.text_lines (ndjson_write ea docs) = map (fun d => json_object ea d ++ [10]) docs.
Proof.
  unfold ndjson_write. apply (WorkbookP.text_lines_map (json_object ea) docs).
  apply Forall_forall. intros d _. apply safe_object.
Qed.

Lemma safe_no_cr s : WorkbookP.safe s = true -> Csv.no_cr s = true.
Proof.
  unfold WorkbookP.safe, Csv.no_cr. rewrite !forallb_forall. intros H x Hx. specialize (H x Hx).
  apply andb_prop in H as [_ H]. exact H.
Qed.

Lemma written_no_cr ea : forall docs, Csv.no_cr (ndjson_write ea docs) = true.
Proof.
  unfold ndjson_write. induction docs as [|d docs IH]; [reflexivity|].
  cbn [map concat]. rewrite !CsvP.no_cr_app, IH, (safe_no_cr _ (safe_object ea d)). reflexivity.
Qed.

(* the lines the unpacker iterates over, whichever way JSONUnpacker.open opens the file *)
Lemma written_lines_lib ea docs :
  ndjson_lines (ndjson_write ea docs) = map (fun d => json_object ea d ++ [10]) docs.
Proof.
  unfold ndjson_lines. destruct ndjson_newline_raw; [|apply written_lines].
  rewrite CsvP.raw_lines_text_lines by apply written_no_cr. apply written_lines.
Qed.

Lemma read_written ea : forall docs, forallb (doc_ok ea) docs = true ->
  read_lines (map (fun d => json_object ea d ++ [10]) docs) = (docs, Done tt).
Proof.
  induction docs as [|d docs IH]; intros H; [reflexivity|].
  cbn [forallb] in H. apply andb_prop in H as [Hd Hdocs].
  cbn [map read_lines]. rewrite (loads_object ea d Hd), (IH Hdocs). reflexivity.
Qed.

(* every line json.dumps wrote loads back to the dict it was given *)
Lemma ndjson_roundtrip ea docs : forallb (doc_ok ea) docs = true ->
  ndjson_read (ndjson_write ea docs) = Done docs.
Proof.
  intros H. unfold ndjson_read, ndjson_reader. rewrite written_lines_lib, (read_written ea docs H). reflexivity.
Qed.

(* ================================================================ Part E *)
(* with ensure_ascii a high and a low surrogate that were two code points of the str come back as one *)
Lemma ndjson_pair_joined :
  ndjson_read (ndjson_write true [[([97], [55296; 56320])]]) = Done [[([97], [65536])]]
  /\ ndjson_read (ndjson_write false [[([97], [55296; 56320])]]) = Done [[([97], [55296; 56320])]]
  /\ ndjson_read (ndjson_write true [[([97], [55296; 97; 56320])]]) = Done [[([97], [55296; 97; 56320])]].
Proof. repeat split; vm_compute; reflexivity. Qed.

(* a key that occurs twice in the items cannot come from a dict; written as text it is read as one property *)
Lemma ndjson_duplicate_key :
  ndjson_read (ndjson_write false [[([97], [49]); ([97], [50])]]) = Done [[([97], [50])]].
Proof. vm_compute. reflexivity. Qed.

(* ================================================================ the characters of a written file *)
Require Import SR.Model.Utf8.

Lemma scalar_small c : c < 55296 -> scalar c = true.
Proof. intros H. unfold scalar. apply orb_true_iff. left. apply N.ltb_lt. exact H. Qed.

Lemma scalar_u n : forallb scalar (u_escape n) = true.
Proof.
  unfold u_escape, hex4. cbn [forallb].
  assert (H : forall k, k < 16 -> scalar (hex_digit k) = true).
  { intros k Hk. apply scalar_small. unfold hex_digit. destruct (k <? 10); lia. }
  rewrite !H by (apply N.mod_lt; discriminate). reflexivity.
Qed.

Lemma scalar_escape_char ea c : (ea = false -> scalar c = true) -> forallb scalar (escape_char ea c) = true.
Proof.
  intros Hc. unfold escape_char.
  repeat match goal with |- context [if ?c =? ?k then _ else _] => destruct (c =? k); [reflexivity|] end.
  destruct (c <? 32); [apply scalar_u|].
  destruct (ea && (126 <? c)) eqn:E.
  - destruct (c <? 65536); [apply scalar_u|]. rewrite forallb_app, !scalar_u. reflexivity.
  - cbn [forallb]. rewrite andb_true_r. destruct ea; [|apply Hc; reflexivity].
    cbn [andb] in E. apply N.ltb_ge in E. apply scalar_small. lia.
Qed.

Lemma scalar_escape ea s : scalar_text ea s = true -> forallb scalar (escape ea s) = true.
Proof.
  unfold scalar_text. intros H. induction s as [|c s IH]; [reflexivity|].
  rewrite escape_cons, forallb_app. destruct ea.
  - rewrite scalar_escape_char by discriminate. apply IH. reflexivity.
  - cbn [orb forallb] in H. apply andb_prop in H as [Hc Hs].
    rewrite scalar_escape_char by (intros _; exact Hc). apply IH. exact Hs.
Qed.

Lemma scalar_string ea s : scalar_text ea s = true -> forallb scalar (json_string ea s) = true.
Proof. intros H. unfold json_string. cbn [forallb]. rewrite forallb_app, scalar_escape by exact H. reflexivity. Qed.

Lemma scalar_json_pair ea kv : scalar_pair ea kv = true -> forallb scalar (json_pair ea kv) = true.
Proof.
  intros H. apply andb_prop in H as [Hk Hv]. unfold json_pair.
  rewrite forallb_app, scalar_string by exact Hk. cbn [forallb]. rewrite scalar_string by exact Hv. reflexivity.
Qed.

Lemma scalar_pairs ea : forall d, forallb (scalar_pair ea) d = true -> forallb scalar (json_pairs ea d) = true.
Proof.
  induction d as [|kv d IH]; [reflexivity|]. cbn [forallb]. intros H. apply andb_prop in H as [Hkv Hd].
  destruct d as [|kv2 t]; [apply scalar_json_pair; exact Hkv|].
  rewrite json_pairs_cons2, forallb_app, scalar_json_pair by exact Hkv. cbn [forallb]. apply IH. exact Hd.
Qed.

Lemma scalar_written ea docs : forallb (forallb (scalar_pair ea)) docs = true ->
  forallb scalar (ndjson_write ea docs) = true.
Proof.
  unfold ndjson_write. induction docs as [|d docs IH]; [reflexivity|]. cbn [forallb map concat]. intros H.
  apply andb_prop in H as [Hd Hdocs]. rewrite !forallb_app, IH by exact Hdocs. unfold json_object.
  cbn [forallb]. rewrite forallb_app, scalar_pairs by exact Hd. reflexivity.
Qed.
