(* Lemmas for C13.  [dscan] is the decoder-side scanner with the parameters read from the source. *)
From Coq Require Import NArith List Bool Lia Arith ZifyBool ZifyN ZifyNat.
Import ListNotations.
Require Import SR.Base.Res SR.Gen.PictureParams SR.Spec.Picture SR.Model.Picture.
Open Scope N_scope.

(* ---- the tie to the source: what T1 read ---- *)
Definition cls : list N := [65; 88; 57; 90; 48].
Lemma params_dec : dec_ci = false /\ dec_rep_class = cls /\ dec_run_class = cls.
Proof. repeat split; reflexivity. Qed.
Lemma params_gen : gen_ci = true /\ gen_rep_class = cls /\ gen_run_class = cls.
Proof. repeat split; reflexivity. Qed.

Definition dscan := scan false cls cls.
Definition gscan := scan true cls cls.
Lemma dec_items_eq s : dec_items s = dscan (length s) s.
Proof. reflexivity. Qed.
Lemma gen_items_eq s : gen_items s = gscan (length s) s.
Proof. reflexivity. Qed.

Definition incls (c : N) : bool := mem c cls.

(* ---- span ---- *)
Lemma span_app p s : s = fst (span p s) ++ snd (span p s).
Proof.
  induction s as [|c t IH]; simpl; [reflexivity|].
  destruct (p c); [|reflexivity].
  destruct (span p t) as [a b]; simpl in *. now rewrite IH at 1.
Qed.

Lemma span_all p s : forallb p (fst (span p s)) = true.
Proof.
  induction s as [|c t IH]; simpl; [reflexivity|].
  destruct (p c) eqn:E; [|reflexivity].
  destruct (span p t) as [a b]; simpl in *. now rewrite E, IH.
Qed.

Lemma span_ext p q s : (forall c, In c s -> p c = q c) -> span p s = span q s.
Proof.
  induction s as [|c t IH]; intros H; simpl; [reflexivity|].
  rewrite <- (H c (or_introl eq_refl)).
  rewrite IH; [reflexivity|]. intros d Hd. apply H. now right.
Qed.

(* ---- shape of repeat_tail ---- *)
Lemma repeat_tail_some t n rest :
  repeat_tail t = Some (n, rest) ->
  exists ds, t = 40 :: ds ++ 41 :: rest /\ ds <> [] /\ forallb is_nd ds = true /\ n = count_value ds.
Proof.
  unfold repeat_tail. destruct t as [|p t1]; [discriminate|].
  destruct (p =? 40) eqn:Ep; [|discriminate]. apply N.eqb_eq in Ep. subst p.
  pose proof (span_app is_nd t1) as Happ. pose proof (span_all is_nd t1) as Hall.
  destruct (span is_nd t1) as [ds r]. simpl in Happ, Hall.
  destruct ds as [|d ds']; [discriminate|].
  destruct r as [|q rest']; [discriminate|].
  destruct (q =? 41) eqn:Eq; [|discriminate]. apply N.eqb_eq in Eq. subst q.
  intros H. injection H as <- <-.
  exists (d :: ds'). repeat split; try assumption; try discriminate.
  now rewrite Happ.
Qed.

(* ---- every match consumes at least one character ---- *)
Lemma token_at_shorter ci rc uc s e rest :
  token_at ci rc uc s = Some (e, rest) -> (length rest < length s)%nat.
Proof.
  unfold token_at. destruct s as [|c t]; [discriminate|].
  destruct (mem (up ci c) [43; 45; 83]).
  { intros H. injection H as <- <-. simpl. lia. }
  destruct ((up ci c =? 68) && _) eqn:E1.
  { intros H. injection H as <- <-. destruct t; simpl in *; [rewrite andb_false_r in E1; discriminate|]. lia. }
  destruct ((up ci c =? 67) && _) eqn:E2.
  { intros H. injection H as <- <-. destruct t; simpl in *; [rewrite andb_false_r in E2; discriminate|]. lia. }
  destruct (mem (up ci c) [36; 44; 47; 42; 66]).
  { intros H. injection H as <- <-. simpl. lia. }
  destruct (mem (up ci c) [86; 46]).
  { intros H. injection H as <- <-. simpl. lia. }
  destruct (if mem (up ci c) rc then repeat_tail t else None) as [[n r]|] eqn:ER.
  { intros H. injection H as <- <-.
    destruct (mem (up ci c) rc); [|discriminate].
    destruct (repeat_tail_some _ _ _ ER) as (ds & -> & _). simpl. rewrite app_length. simpl. lia. }
  destruct (mem (up ci c) uc); [|discriminate].
  pose proof (span_app (fun d => mem (up ci d) uc) t) as Happ.
  destruct (span (fun d => mem (up ci d) uc) t) as [run r]. simpl in Happ.
  intros H. injection H as <- <-. simpl. rewrite Happ, app_length. lia.
Qed.

(* ---- fuel = length is enough ---- *)
Lemma scan_no_fuel ci rc uc f : forall s, (length s <= f)%nat ->
  existsb is_fuel (scan ci rc uc f s) = false.
Proof.
  induction f as [|f IH]; intros s Hlen.
  - destruct s; [reflexivity|simpl in Hlen; lia].
  - destruct s as [|c t]; [reflexivity|].
    cbn [scan]. destruct (token_at ci rc uc (c :: t)) as [[e rest]|] eqn:E.
    + cbn [existsb is_fuel orb]. apply IH.
      apply token_at_shorter in E. simpl in *. lia.
    + cbn [existsb is_fuel orb]. apply IH. simpl in Hlen. lia.
Qed.

(* ================= the decoder's clean scans and the specification's expansion ================= *)
Definition item_text (i : item) : list N :=
  match i with Tok (E _ t) => t | Skip c => [c] | Fuel => [] end.
Definition flat (l : list item) : list N := map sp_upper (concat (map item_text l)).
(* a match with non-empty text, or a skipped P *)
Definition clean_item (i : item) : bool :=
  match i with
  | Tok (E _ (_ :: _)) => true
  | Skip c => (c =? 80) || (c =? 112)
  | _ => false
  end.
Definition clean (l : list item) : bool := forallb clean_item l.
Definition nond (s : list N) : bool := forallb (fun c => negb (is_nd c && negb (ascii_digit c))) s.
Definition st_free (st : sp_state) : Prop := st = Idle \/ exists u, st = Sym u.

Lemma flat_cons i l : flat (i :: l) = map sp_upper (item_text i) ++ flat l.
Proof. unfold flat. cbn [map concat]. now rewrite map_app. Qed.

Lemma nond_app a b : nond (a ++ b) = true -> nond a = true /\ nond b = true.
Proof. unfold nond. rewrite forallb_app. apply andb_true_iff. Qed.

Lemma nond_cons c t : nond (c :: t) = true -> nond t = true.
Proof. unfold nond. cbn [forallb]. intros H. apply andb_true_iff in H. tauto. Qed.

Ltac mem_split H :=
  unfold incls, cls, mem in H; cbn [existsb] in H;
  repeat (apply orb_true_iff in H; destruct H as [H|H]);
  try discriminate H; apply N.eqb_eq in H; subst.

Lemma step_single st c t X :
  st_free st -> (c =? 40) = false -> (sp_upper c =? 68) = false -> (sp_upper c =? 67) = false ->
  sp_single (sp_upper c) = true ->
  sp_run (Sym (sp_upper c)) t = Some X -> sp_run st (c :: t) = Some (sp_upper c :: X).
Proof.
  intros [->|[u ->]] H1 H2 H3 H4 H5; cbn [sp_run]; rewrite H1, H2, H3, H4, H5; reflexivity.
Qed.

Lemma step_single_id st c t X :
  st_free st -> sp_upper c = c -> (c =? 40) = false -> (c =? 68) = false -> (c =? 67) = false ->
  sp_single c = true ->
  sp_run (Sym c) t = Some X -> sp_run st (c :: t) = Some (c :: X).
Proof.
  intros Hst Hu H1 H2 H3 H4 H5. rewrite <- Hu at 2. apply step_single; rewrite ?Hu; assumption.
Qed.

Lemma upper_cls run : forallb incls run = true -> map sp_upper run = run.
Proof.
  induction run as [|d r IH]; [reflexivity|]. cbn [forallb map]. intros H.
  apply andb_true_iff in H. destruct H as [Hd Hr]. rewrite (IH Hr).
  mem_split Hd; reflexivity.
Qed.

Lemma step_run run : forall st rest X, st_free st -> forallb incls run = true ->
  (forall st', st_free st' -> sp_run st' rest = Some X) ->
  sp_run st (run ++ rest) = Some (run ++ X).
Proof.
  induction run as [|d r IH]; intros st rest X Hst Hall HX.
  - apply HX, Hst.
  - cbn [forallb] in Hall. apply andb_true_iff in Hall. destruct Hall as [Hd Hr].
    assert (Hrec : forall st', st_free st' -> sp_run st' (r ++ rest) = Some (r ++ X)).
    { intros st' Hst'. apply IH; assumption. }
    cbn [app].
    mem_split Hd;
      (apply (step_single_id st _ (r ++ rest) (r ++ X) Hst); try reflexivity;
       apply Hrec; right; eexists; reflexivity).
Qed.

Definition cv (n : N) (ds : list N) : N := fold_left (fun a d => a * 10 + (d - 48)) ds n.

Lemma step_digits ds : forall u n b rest, forallb sp_digit ds = true ->
  sp_run (Cnt u n b) (ds ++ 41 :: rest) =
  if (b || negb (match ds with [] => true | _ => false end)) && (0 <? cv n ds)
  then option_map (app (repeat u (N.to_nat (cv n ds - 1)))) (sp_run Idle rest) else None.
Proof.
  induction ds as [|d r IH]; intros u n b rest Hall.
  - cbn [app sp_run cv fold_left]. change (sp_digit 41) with false. cbv iota.
    change (41 =? 41) with true. cbn [andb negb orb]. rewrite orb_false_r. reflexivity.
  - cbn [forallb] in Hall. apply andb_true_iff in Hall. destruct Hall as [Hd Hr].
    cbn [app sp_run]. rewrite Hd. rewrite IH by assumption.
    cbn [cv fold_left negb orb]. rewrite orb_true_r. reflexivity.
Qed.

Lemma count_value_ascii ds : forallb sp_digit ds = true -> count_value ds = cv 0 ds.
Proof.
  unfold count_value, cv. generalize 0. induction ds as [|d r IH]; intros n Hall; [reflexivity|].
  cbn [forallb] in Hall. apply andb_true_iff in Hall. destruct Hall as [Hd Hr].
  cbn [fold_left]. rewrite IH by assumption.
  unfold nd_val. change (ascii_digit d) with (sp_digit d). now rewrite Hd.
Qed.

Lemma nd_ascii ds : forallb is_nd ds = true -> nond ds = true -> forallb sp_digit ds = true.
Proof.
  induction ds as [|d r IH]; [reflexivity|]. cbn [forallb nond]. unfold nond. cbn [forallb].
  intros H1 H2. apply andb_true_iff in H1. apply andb_true_iff in H2.
  destruct H1 as [Hd Hr]. destruct H2 as [Hd' Hr'].
  rewrite (IH Hr Hr'). rewrite Hd in Hd'. change (sp_digit d) with (ascii_digit d).
  destruct (ascii_digit d); [reflexivity|discriminate].
Qed.

Lemma map_upper_repeat c k : sp_upper c = c -> map sp_upper (repeat c k) = repeat c k.
Proof. intros H. induction k as [|k IH]; [reflexivity|]. cbn [repeat map]. now rewrite H, IH. Qed.

Lemma repeat_nonempty c n : clean_item (Tok (E KDigit (repeat c (N.to_nat n)))) = true -> (0 <? n) = true.
Proof.
  destruct (N.to_nat n) eqn:E; cbn [repeat clean_item]; [discriminate|]. intros _. lia.
Qed.

(* the repeat token c ( ds ) *)
Lemma step_repeat st c ds rest X :
  st_free st -> incls c = true -> ds <> [] -> forallb sp_digit ds = true -> (0 <? cv 0 ds) = true ->
  sp_run Idle rest = Some X ->
  sp_run st (c :: 40 :: ds ++ 41 :: rest) = Some (repeat c (N.to_nat (cv 0 ds)) ++ X).
Proof.
  intros Hst Hc Hne Hds Hpos HX.
  assert (Hin : sp_run (Cnt c 0 false) (ds ++ 41 :: rest) = Some (repeat c (N.to_nat (cv 0 ds - 1)) ++ X)).
  { rewrite step_digits by assumption. rewrite Hpos, HX.
    destruct ds; [contradiction|]. reflexivity. }
  replace (N.to_nat (cv 0 ds)) with (S (N.to_nat (cv 0 ds - 1))) by lia.
  cbn [repeat app].
  mem_split Hc;
    (destruct Hst as [->|[u ->]]; cbn [sp_run];
     match goal with |- context [sp_upper ?k] => change (sp_upper k) with k end;
     cbv beta iota zeta; simpl N.eqb; cbv iota; simpl sp_single; cbv iota; cbn [option_map sp_run];
     simpl N.eqb; cbv iota; simpl sp_repeatable; cbv iota; rewrite Hin; reflexivity).
Qed.

Lemma step_db st t X : st_free st -> sp_run Idle t = Some X -> sp_run st (68 :: 66 :: t) = Some (68 :: 66 :: X).
Proof. intros [->|[u ->]] H; cbn; rewrite H; reflexivity. Qed.
Lemma step_cr st t X : st_free st -> sp_run Idle t = Some X -> sp_run st (67 :: 82 :: t) = Some (67 :: 82 :: X).
Proof. intros [->|[u ->]] H; cbn; rewrite H; reflexivity. Qed.

(* Lemma A: a clean decoder scan reads exactly the symbols the specification reads *)
Lemma clean_expand f : forall s st, (length s <= f)%nat -> st_free st ->
  clean (dscan f s) = true -> nond s = true ->
  sp_run st s = Some (flat (dscan f s)).
Proof.
  induction f as [|f IH]; intros s st Hlen Hst Hcl Hnd.
  { destruct s; [|simpl in Hlen; lia]. destruct Hst as [->|[u ->]]; reflexivity. }
  destruct s as [|c t]. { destruct Hst as [->|[u ->]]; reflexivity. }
  unfold dscan in *. cbn [scan] in *.
  assert (Hsym : forall u, st_free (Sym u)) by (intros u; right; eexists; reflexivity).
  destruct (token_at false cls cls (c :: t)) as [[e rest]|] eqn:E.
  - pose proof (token_at_shorter _ _ _ _ _ _ E) as Hsh.
    unfold clean in Hcl. cbn [forallb] in Hcl. apply andb_true_iff in Hcl. destruct Hcl as [Hce Hcl].
    rewrite flat_cons.
    assert (Hgo : forall r st', (length r <= f)%nat -> st_free st' ->
              forallb clean_item (scan false cls cls f r) = true -> nond r = true ->
              sp_run st' r = Some (flat (scan false cls cls f r))).
    { intros r st' H1 H2 H3 H4. apply IH; assumption. }
    unfold token_at in E. cbn [up] in E. cbv zeta in E.
    destruct (mem c [43; 45; 83]) eqn:M1.
    { injection E as <- <-. cbn [item_text].
      assert (Ht : sp_run (Sym c) t = Some (flat (scan false cls cls f t))).
      { apply Hgo; [clear - Hlen; simpl in Hlen; lia|apply Hsym|assumption|eapply nond_cons; eassumption]. }
      mem_split M1; (apply (step_single_id st _ t _ Hst); first [exact Ht | reflexivity]). }
    destruct ((c =? 68) && _) eqn:M2.
    { injection E as <- <-. apply andb_true_iff in M2. destruct M2 as [Mc Md].
      apply N.eqb_eq in Mc. subst c. destruct t as [|d t']; [discriminate|].
      apply N.eqb_eq in Md. subst d. cbn [firstn skipn item_text] in *.
      assert (Ht : sp_run Idle t' = Some (flat (scan false cls cls f t'))).
      { apply Hgo; [clear - Hlen; simpl in Hlen; lia|now left|assumption|].
        eapply nond_cons, nond_cons; eassumption. }
      apply (step_db st t' _ Hst Ht). }
    destruct ((c =? 67) && _) eqn:M3.
    { injection E as <- <-. apply andb_true_iff in M3. destruct M3 as [Mc Md].
      apply N.eqb_eq in Mc. subst c. destruct t as [|d t']; [discriminate|].
      apply N.eqb_eq in Md. subst d. cbn [firstn skipn item_text] in *.
      assert (Ht : sp_run Idle t' = Some (flat (scan false cls cls f t'))).
      { apply Hgo; [clear - Hlen; simpl in Hlen; lia|now left|assumption|].
        eapply nond_cons, nond_cons; eassumption. }
      apply (step_cr st t' _ Hst Ht). }
    destruct (mem c [36; 44; 47; 42; 66]) eqn:M4.
    { injection E as <- <-. cbn [item_text].
      assert (Ht : sp_run (Sym c) t = Some (flat (scan false cls cls f t))).
      { apply Hgo; [clear - Hlen; simpl in Hlen; lia|apply Hsym|assumption|eapply nond_cons; eassumption]. }
      mem_split M4; (apply (step_single_id st _ t _ Hst); first [exact Ht | reflexivity]). }
    destruct (mem c [86; 46]) eqn:M5.
    { injection E as <- <-. cbn [item_text].
      assert (Ht : sp_run (Sym c) t = Some (flat (scan false cls cls f t))).
      { apply Hgo; [clear - Hlen; simpl in Hlen; lia|apply Hsym|assumption|eapply nond_cons; eassumption]. }
      mem_split M5; (apply (step_single_id st _ t _ Hst); first [exact Ht | reflexivity]). }
    destruct (if mem c cls then repeat_tail t else None) as [[n r]|] eqn:ER.
    { injection E as <- <-. cbn [item_text].
      destruct (mem c cls) eqn:Mc; [|discriminate].
      destruct (repeat_tail_some _ _ _ ER) as (ds & -> & Hne & Hds & ->).
      assert (Hnd' : nond (ds ++ 41 :: r) = true) by (eapply nond_cons, nond_cons; eassumption).
      apply nond_app in Hnd'. destruct Hnd' as [Hnd1 Hnd2]. apply nond_cons in Hnd2.
      pose proof (nd_ascii _ Hds Hnd1) as Hasc.
      rewrite (count_value_ascii _ Hasc) in *.
      pose proof (repeat_nonempty _ _ Hce) as Hpos.
      assert (Hu : sp_upper c = c) by (mem_split Mc; reflexivity).
      rewrite (map_upper_repeat _ _ Hu).
      apply step_repeat; try assumption.
      apply Hgo; [clear - Hlen; cbn [length] in Hlen; rewrite app_length in Hlen; cbn [length] in Hlen; lia|now left|assumption|assumption]. }
    destruct (mem c cls) eqn:Mc; [|discriminate].
    pose proof (span_app (fun d => mem d cls) t) as Happ.
    pose proof (span_all (fun d => mem d cls) t) as Hall.
    destruct (span (fun d => mem d cls) t) as [run r]. cbn [fst snd] in Happ, Hall.
    injection E as <- <-. cbn [item_text].
    assert (Hall' : forallb incls (c :: run) = true) by (cbn [forallb]; unfold incls at 1; rewrite Mc; exact Hall).
    rewrite (upper_cls _ Hall').
    rewrite Happ. change (c :: run ++ r) with ((c :: run) ++ r).
    apply step_run; try assumption.
    intros st' Hst'. apply Hgo; try assumption.
    + rewrite Happ in Hlen. clear - Hlen. cbn [length] in Hlen. rewrite app_length in Hlen. lia.
    + rewrite Happ in Hnd. apply nond_cons in Hnd. apply nond_app in Hnd. tauto.
  - unfold clean in Hcl. cbn [forallb clean_item] in Hcl. apply andb_true_iff in Hcl. destruct Hcl as [Hce Hcl].
    rewrite flat_cons. cbn [item_text map app].
    assert (Ht : sp_run (Sym (sp_upper c)) t = Some (flat (scan false cls cls f t))).
    { apply IH; [clear - Hlen; simpl in Hlen; lia|apply Hsym|assumption|eapply nond_cons; eassumption]. }
    apply orb_true_iff in Hce. destruct Hce as [Hc|Hc]; apply N.eqb_eq in Hc; subst c;
      (apply (step_single st _ t _ Hst); first [exact Ht | reflexivity]).
Qed.

(* ================= shapes of the matches ================= *)
Definition wf_elt (e : elt) : bool :=
  match e with
  | E KSign t => existsb (list_N_eqb t) [[43]; [45]; [83]; [68; 66]; [67; 82]]
  | E KChar t => match t with [c] => mem c [36; 44; 47; 42; 66] | _ => false end
  | E KDecimal t => match t with [c] => mem c [86; 46] | _ => false end
  | E KDigit t => forallb incls t
  end.
Definition wf_item (i : item) : bool := match i with Tok e => wf_elt e | _ => true end.

Lemma incls_repeat c k : incls c = true -> forallb incls (repeat c k) = true.
Proof. intros H. induction k as [|k IH]; [reflexivity|]. cbn [repeat forallb]. now rewrite H, IH. Qed.

Lemma token_wf s e rest : token_at false cls cls s = Some (e, rest) -> wf_elt e = true.
Proof.
  unfold token_at. destruct s as [|c t]; [discriminate|]. cbn [up]. cbv zeta.
  destruct (mem c [43; 45; 83]) eqn:M1.
  { intros H. injection H as <- <-. mem_split M1; reflexivity. }
  destruct ((c =? 68) && _) eqn:M2.
  { intros H. injection H as <- <-. apply andb_true_iff in M2. destruct M2 as [Mc Md].
    apply N.eqb_eq in Mc. subst c. destruct t as [|d t']; [discriminate|].
    apply N.eqb_eq in Md. subst d. reflexivity. }
  destruct ((c =? 67) && _) eqn:M3.
  { intros H. injection H as <- <-. apply andb_true_iff in M3. destruct M3 as [Mc Md].
    apply N.eqb_eq in Mc. subst c. destruct t as [|d t']; [discriminate|].
    apply N.eqb_eq in Md. subst d. reflexivity. }
  destruct (mem c [36; 44; 47; 42; 66]) eqn:M4.
  { intros H. injection H as <- <-. mem_split M4; reflexivity. }
  destruct (mem c [86; 46]) eqn:M5.
  { intros H. injection H as <- <-. mem_split M5; reflexivity. }
  destruct (if mem c cls then repeat_tail t else None) as [[n r]|] eqn:ER.
  { intros H. injection H as <- <-. destruct (mem c cls) eqn:Mc; [|discriminate].
    cbn [wf_elt]. now apply incls_repeat. }
  destruct (mem c cls) eqn:Mc; [|discriminate].
  pose proof (span_all (fun d => mem d cls) t) as Hall.
  destruct (span (fun d => mem d cls) t) as [run r]. cbn [fst] in Hall.
  intros H. injection H as <- <-. cbn [wf_elt forallb]. unfold incls at 1. rewrite Mc. exact Hall.
Qed.

Lemma scan_wf f : forall s, forallb wf_item (dscan f s) = true.
Proof.
  induction f as [|f IH]; intros s.
  - destruct s; reflexivity.
  - destruct s as [|c t]; [reflexivity|]. unfold dscan. cbn [scan].
    destruct (token_at false cls cls (c :: t)) as [[e rest]|] eqn:E.
    + cbn [forallb wf_item]. rewrite (token_wf _ _ _ E). apply IH.
    + cbn [forallb wf_item]. apply IH.
Qed.

(* ================= the size loop counts the positions of the expansion ================= *)
Definition nvp (c : N) : bool := negb ((c =? 86) || (c =? 80)).

Lemma positions_app a b : sp_positions (a ++ b) = (sp_positions a + sp_positions b)%nat.
Proof. unfold sp_positions. now rewrite filter_app, app_length. Qed.

Lemma positions_cls t : forallb incls t = true -> sp_positions (map sp_upper t) = length t.
Proof.
  intros H. rewrite (upper_cls _ H). unfold sp_positions.
  induction t as [|d r IH]; [reflexivity|]. cbn [forallb] in H. apply andb_true_iff in H.
  destruct H as [Hd Hr]. cbn [filter].
  assert (Hn : negb ((d =? 86) || (d =? 80)) = true) by (mem_split Hd; reflexivity).
  rewrite Hn. cbn [length]. now rewrite (IH Hr).
Qed.

Lemma size_clean l : forallb wf_item l = true -> clean l = true ->
  forall acc, size_loop (elems l) acc = Ok (acc + sp_positions (flat l))%nat.
Proof.
  induction l as [|i l IH]; intros Hwf Hcl acc.
  - cbn. f_equal. lia.
  - cbn [forallb] in Hwf. unfold clean in Hcl. cbn [forallb] in Hcl.
    apply andb_true_iff in Hwf. apply andb_true_iff in Hcl.
    destruct Hwf as [Hwi Hwf]. destruct Hcl as [Hci Hcl].
    rewrite flat_cons, positions_app.
    destruct i as [[k t]|c|]; [| |discriminate].
    + cbn [elems item_text]. destruct t as [|c0 t0]; [discriminate|].
      destruct k; cbn [wf_item wf_elt] in Hwi.
      * cbn [size_loop]. rewrite IH by assumption. f_equal.
        cbn [existsb] in Hwi.
        assert (Hp : sp_positions (map sp_upper (c0 :: t0)) = length (c0 :: t0)).
        { repeat (apply orb_true_iff in Hwi; destruct Hwi as [Hwi|Hwi]); try discriminate Hwi;
          unfold list_N_eqb in Hwi; apply andb_true_iff in Hwi; destruct Hwi as [Hl Hv];
          destruct t0 as [|c1 [|c2 t2]]; try discriminate Hl; cbn in Hv;
          repeat (apply andb_true_iff in Hv; destruct Hv as [? Hv]);
          repeat match goal with H : (_ =? _) = true |- _ => apply N.eqb_eq in H; subst end; reflexivity. }
        rewrite Hp. lia.
      * cbn [size_loop]. rewrite IH by assumption. f_equal.
        destruct t0; [|discriminate]. mem_split Hwi; cbn; lia.
      * cbn [size_loop]. rewrite IH by assumption. f_equal.
        destruct t0; [|discriminate]. mem_split Hwi; cbn; lia.
      * cbn [size_loop]. rewrite IH by assumption. f_equal.
        rewrite (positions_cls _ Hwi). lia.
    + cbn [elems item_text clean_item] in *. rewrite IH by assumption. f_equal.
      apply orb_true_iff in Hci. destruct Hci as [Hc|Hc]; apply N.eqb_eq in Hc; subst c; cbn; lia.
Qed.

(* ================= the specification accepts no foreign character ================= *)
Lemma option_map_some {A B} (f : A -> B) x y : option_map f x = Some y -> exists x', x = Some x'.
Proof. destruct x; [eexists; reflexivity|discriminate]. Qed.

Definition st_ok (st : sp_state) : Prop := match st with Pair x => x = 66 \/ x = 82 | _ => True end.

Lemma sp_no_foreign s : forall st e, st_ok st -> sp_run st s = Some e ->
  forallb (fun c => negb (sp_foreign c)) s = true.
Proof.
  induction s as [|c t IH]; intros st e Hok H; [reflexivity|].
  cbn [forallb]. cbn [sp_run] in H. cbv zeta in H.
  assert (Hcommon : forall st', st_free st' ->
      (if c =? 40
       then match st' with Sym v => if sp_repeatable v then sp_run (Cnt v 0 false) t else None | _ => None end
       else if sp_upper c =? 68 then option_map (cons 68) (sp_run (Pair 66) t)
       else if sp_upper c =? 67 then option_map (cons 67) (sp_run (Pair 82) t)
       else if sp_single (sp_upper c) then option_map (cons (sp_upper c)) (sp_run (Sym (sp_upper c)) t)
       else None) = Some e ->
      negb (sp_foreign c) && forallb (fun c0 => negb (sp_foreign c0)) t = true).
  { intros st' Hfree H'. unfold sp_foreign. rewrite negb_involutive.
    destruct (c =? 40) eqn:E40.
    { rewrite ?orb_true_r. cbn [andb].
      destruct Hfree as [->|[v ->]]; [discriminate|].
      destruct (sp_repeatable v); [|discriminate]. eapply IH; [|exact H']. exact I. }
    destruct (sp_upper c =? 68) eqn:E68.
    { apply N.eqb_eq in E68. rewrite E68. cbn [sp_mem existsb]. rewrite ?orb_true_r. cbn [andb orb].
      change (68 =? 68) with true. cbn [orb andb].
      apply option_map_some in H'. destruct H' as [x Hx]. eapply IH; [|exact Hx]. now left. }
    destruct (sp_upper c =? 67) eqn:E67.
    { apply N.eqb_eq in E67. rewrite E67.
      apply option_map_some in H'. destruct H' as [x Hx].
      replace (sp_single 67 || sp_mem 67 [68; 67; 82] || sp_digit c || false || (c =? 41)) with true
        by (symmetry; reflexivity).
      cbn [andb]. eapply IH; [|exact Hx]. now right. }
    destruct (sp_single (sp_upper c)) eqn:ES; [|discriminate].
    cbn [orb andb]. apply option_map_some in H'. destruct H' as [x Hx]. eapply IH; [|exact Hx]. exact I. }
  destruct st as [|v|v n b|x].
  - apply (Hcommon Idle); [now left|exact H].
  - apply (Hcommon (Sym v)); [right; eexists; reflexivity|exact H].
  - unfold sp_foreign. rewrite negb_involutive.
    destruct (sp_digit c) eqn:ED.
    { rewrite ?orb_true_r. cbn [orb andb]. eapply IH; [|exact H]. exact I. }
    destruct ((c =? 41) && b && (0 <? n)) eqn:EC; [|discriminate].
    apply andb_true_iff in EC. destruct EC as [EC _]. apply andb_true_iff in EC. destruct EC as [EC _].
    rewrite EC. rewrite ?orb_true_r. cbn [andb].
    apply option_map_some in H. destruct H as [x Hx]. eapply IH; [|exact Hx]. exact I.
  - destruct (sp_upper c =? x) eqn:EX; [|discriminate].
    apply N.eqb_eq in EX. apply option_map_some in H. destruct H as [y Hy].
    unfold sp_foreign. rewrite negb_involutive. rewrite EX.
    cbn [st_ok] in Hok. destruct Hok as [->| ->].
    + change (sp_single 66) with true. cbn [orb andb]. eapply IH; [|exact Hy]. exact I.
    + change (sp_mem 82 [68; 67; 82]) with true. rewrite ?orb_true_r. cbn [orb andb].
      eapply IH; [|exact Hy]. exact I.
Qed.

(* ================= C13_strict ================= *)
Lemma known_bad_false s : known_bad s = false ->
  kb_nomatch s = false /\ kb_nd s = false /\ kb_lower s = false /\ kb_skip s = false /\
  kb_zero s = false /\ kb_lastonly s = false /\ kb_zeropos s = false /\ kb_repnum s = false.
Proof.
  unfold known_bad, known_code.
  destruct (kb_nomatch s); [discriminate|]. destruct (kb_nd s); [discriminate|].
  destruct (kb_lower s); [discriminate|]. destruct (kb_skip s); [discriminate|].
  destruct (kb_zero s); [discriminate|]. destruct (kb_lastonly s); [discriminate|].
  destruct (kb_zeropos s); [discriminate|]. destruct (kb_repnum s); [discriminate|].
  intros _. repeat split; reflexivity.
Qed.

Lemma existsb_false_forallb {A} (p : A -> bool) l : existsb p l = false -> forallb (fun x => negb (p x)) l = true.
Proof.
  induction l as [|x l IH]; [reflexivity|]. cbn [existsb forallb]. intros H.
  apply orb_false_iff in H. destruct H as [Hx Hl]. now rewrite Hx, IH.
Qed.

Lemma clean_of l : existsb is_fuel l = false -> existsb bad_skip l = false ->
  existsb empty_elt (elems l) = false -> clean l = true.
Proof.
  induction l as [|i l IH]; [reflexivity|]. intros H1 H2 H3.
  cbn [existsb] in H1, H2. apply orb_false_iff in H1. apply orb_false_iff in H2.
  destruct H1 as [H1 H1']. destruct H2 as [H2 H2'].
  unfold clean. cbn [forallb].
  destruct i as [[k t]|c|]; [| |discriminate].
  - cbn [elems existsb] in H3. apply orb_false_iff in H3. destruct H3 as [H3 H3'].
    destruct t; [discriminate|]. cbn [clean_item andb]. apply IH; assumption.
  - cbn [elems] in H3. cbn [bad_skip] in H2. apply negb_false_iff in H2.
    cbn [clean_item]. rewrite H2. cbn [andb]. apply IH; assumption.
Qed.

Lemma ends_nonempty l : ends_with_tok l = true -> l <> [].
Proof. destruct l; [discriminate|discriminate]. Qed.

(* everything the hypotheses give about an accepted string outside the known findings *)
Lemma accepted_facts s : known_bad s = false -> ends_with_tok (dec_items s) = true ->
  clean (dec_items s) = true /\ sp_expand s = Some (flat (dec_items s)) /\
  size_loop (elems (dec_items s)) 0 = Ok (sp_positions (flat (dec_items s))).
Proof.
  intros Hkb Hend. destruct (known_bad_false s Hkb) as (_ & Hnd & _ & Hskip & Hzero & _).
  pose proof (scan_no_fuel false cls cls (length s) s (le_n _)) as Hfuel.
  unfold kb_skip in Hskip. apply orb_false_iff in Hskip. destruct Hskip as [Hskip _].
  rewrite Hend in Hskip. cbn [andb] in Hskip.
  unfold kb_zero in Hzero. apply orb_false_iff in Hzero. destruct Hzero as [Hzero _].
  rewrite dec_items_eq in *.
  pose proof (clean_of _ Hfuel Hskip Hzero) as Hclean.
  assert (Hnond : nond s = true) by (apply existsb_false_forallb; exact Hnd).
  split; [exact Hclean|]. split.
  - destruct s as [|c t]; [discriminate|]. unfold sp_expand.
    apply clean_expand; [apply le_n|now left|exact Hclean|exact Hnond].
  - rewrite (size_clean _ (scan_wf _ _) Hclean). reflexivity.
Qed.

Lemma dec_normalize_eq s :
  dec_normalize s = Some (if ends_with_tok (dec_items s) then Ok (elems (dec_items s)) else Err ValueError).
Proof.
  unfold dec_normalize. cbv zeta.
  pose proof (scan_no_fuel false cls cls (length s) s (le_n _)) as H.
  change (scan false cls cls (length s) s) with (dec_items s) in H. now rewrite H.
Qed.

Lemma strict s : known_bad s = false ->
  dec_parse s = Some (Err ValueError) \/
  exists r v, dec_parse s = Some (Ok r) /\ sp_parse s = Some v /\ p_size r = positions v /\
              forallb (fun c => negb (sp_foreign c)) s = true.
Proof.
  intros Hkb. unfold dec_parse. rewrite dec_normalize_eq.
  destruct (ends_with_tok (dec_items s)) eqn:Hend; [right|left; reflexivity].
  destruct (accepted_facts s Hkb Hend) as (Hclean & Hexp & Hsize).
  rewrite Hsize. eexists. exists (sp_summary (flat (dec_items s))).
  split; [reflexivity|]. split; [unfold sp_parse; now rewrite Hexp|]. split; [reflexivity|].
  destruct s as [|c t]; [reflexivity|]. unfold sp_expand in Hexp.
  eapply sp_no_foreign; [|exact Hexp]. exact I.
Qed.

(* ================= the two scanners agree when no lower-case picture letter occurs ================= *)
Definition lowtrig (c : N) : bool := mem c [97; 98; 99; 100; 112; 114; 115; 118; 120; 122; 383].
Definition consts : list N := [43; 45; 83; 68; 66; 67; 82; 36; 44; 47; 42; 86; 46; 65; 88; 57; 90; 48].

Lemma up_eqb c k : lowtrig c = false -> In k consts -> (up true c =? k) = (c =? k).
Proof.
  intros Hl Hk. unfold lowtrig, mem in Hl. cbn [existsb] in Hl.
  repeat (apply orb_false_iff in Hl; destruct Hl as [? Hl]).
  repeat match goal with H : (_ =? _) = false |- _ => apply N.eqb_neq in H end.
  unfold up. destruct ((97 <=? c) && (c <=? 122)) eqn:R.
  - apply andb_true_iff in R. destruct R as [R1 R2]. apply N.leb_le in R1. apply N.leb_le in R2.
    cbn [consts In] in Hk.
    repeat (destruct Hk as [<-|Hk]; [match goal with |- (?a =? ?b) = (?a' =? ?b') => destruct (N.eqb_spec a b); destruct (N.eqb_spec a' b') end; try reflexivity; exfalso; lia|]).
    contradiction.
  - destruct (c =? 383) eqn:E; [apply N.eqb_eq in E; contradiction|reflexivity].
Qed.

Lemma up_mem c l : lowtrig c = false -> incl l consts -> mem (up true c) l = mem c l.
Proof.
  intros Hl. induction l as [|k l IH]; intros Hin; [reflexivity|].
  unfold mem. cbn [existsb]. rewrite up_eqb; [|assumption|apply Hin; now left].
  f_equal. apply IH. intros x Hx. apply Hin. now right.
Qed.

Ltac incl_consts := intros x Hx; cbn [In consts] in *; tauto.

Definition nolow (s : list N) : bool := forallb (fun c => negb (lowtrig c)) s.

Lemma token_at_same s : nolow s = true -> token_at true cls cls s = token_at false cls cls s.
Proof.
  destruct s as [|c t]; [reflexivity|]. unfold nolow. cbn [forallb]. intros H.
  apply andb_true_iff in H. destruct H as [Hc Ht]. apply negb_true_iff in Hc.
  unfold token_at. cbv zeta.
  rewrite (up_mem c [43; 45; 83] Hc) by incl_consts.
  rewrite (up_mem c [36; 44; 47; 42; 66] Hc) by incl_consts.
  rewrite (up_mem c [86; 46] Hc) by incl_consts.
  rewrite (up_mem c cls Hc) by (unfold cls; incl_consts).
  rewrite (up_eqb c 68 Hc) by (cbn; tauto). rewrite (up_eqb c 67 Hc) by (cbn; tauto).
  assert (Hhead : forall k, In k consts ->
            match t with d :: _ => up true d =? k | [] => false end = match t with d :: _ => d =? k | [] => false end).
  { intros k Hk. destruct t as [|d t']; [reflexivity|]. cbn [forallb] in Ht.
    apply andb_true_iff in Ht. destruct Ht as [Hd _]. apply negb_true_iff in Hd. now apply up_eqb. }
  rewrite (Hhead 66) by (cbn; tauto). rewrite (Hhead 82) by (cbn; tauto).
  rewrite (span_ext (fun d => mem (up true d) cls) (fun d => mem d cls) t).
  - reflexivity.
  - intros d Hd. rewrite forallb_forall in Ht. specialize (Ht d Hd). apply negb_true_iff in Ht.
    apply up_mem; [assumption|unfold cls; incl_consts].
Qed.

Lemma token_at_suffix ci rc uc s e rest :
  token_at ci rc uc s = Some (e, rest) -> exists pre, s = pre ++ rest.
Proof.
  unfold token_at. destruct s as [|c t]; [discriminate|].
  destruct (mem (up ci c) [43; 45; 83]).
  { intros H. injection H as <- <-. exists [c]. reflexivity. }
  destruct ((up ci c =? 68) && _).
  { intros H. injection H as <- <-. exists (c :: firstn 1 t). cbn [app]. now rewrite firstn_skipn. }
  destruct ((up ci c =? 67) && _).
  { intros H. injection H as <- <-. exists (c :: firstn 1 t). cbn [app]. now rewrite firstn_skipn. }
  destruct (mem (up ci c) [36; 44; 47; 42; 66]).
  { intros H. injection H as <- <-. exists [c]. reflexivity. }
  destruct (mem (up ci c) [86; 46]).
  { intros H. injection H as <- <-. exists [c]. reflexivity. }
  destruct (if mem (up ci c) rc then repeat_tail t else None) as [[n r]|] eqn:ER.
  { intros H. injection H as <- <-.
    destruct (mem (up ci c) rc); [|discriminate].
    destruct (repeat_tail_some _ _ _ ER) as (ds & -> & _).
    exists (c :: 40 :: ds ++ [41]). cbn [app]. rewrite <- app_assoc. reflexivity. }
  destruct (mem (up ci c) uc); [|discriminate].
  pose proof (span_app (fun d => mem (up ci d) uc) t) as Happ.
  destruct (span (fun d => mem (up ci d) uc) t) as [run r]. simpl in Happ.
  intros H. injection H as <- <-. exists (c :: run). cbn [app]. now rewrite <- Happ.
Qed.

Lemma scan_same f : forall s, nolow s = true -> gscan f s = dscan f s.
Proof.
  induction f as [|f IH]; intros s H; [destruct s; reflexivity|].
  destruct s as [|c t]; [reflexivity|]. unfold gscan, dscan. cbn [scan].
  rewrite (token_at_same _ H).
  destruct (token_at false cls cls (c :: t)) as [[e rest]|] eqn:E.
  - f_equal. apply IH. destruct (token_at_suffix _ _ _ _ _ _ E) as [pre Hpre].
    unfold nolow in *. rewrite Hpre, forallb_app in H. apply andb_true_iff in H. tauto.
  - f_equal. apply IH. unfold nolow in *. cbn [forallb] in H. apply andb_true_iff in H. tauto.
Qed.

Lemma items_same s : kb_lower s = false -> gen_items s = dec_items s.
Proof.
  intros H. rewrite gen_items_eq, dec_items_eq. apply scan_same.
  apply existsb_false_forallb. exact H.
Qed.

Lemma gen_normalize_eq s :
  gen_normalize s = Some (match elems (gen_items s) with
                          | [] => Err IndexError
                          | _ :: _ => if ends_with_tok (gen_items s) then Ok (elems (gen_items s)) else Err ValueError
                          end).
Proof.
  unfold gen_normalize. cbv zeta.
  pose proof (scan_no_fuel true cls cls (length s) s (le_n _)) as H.
  change (scan true cls cls (length s) s) with (gen_items s) in H. now rewrite H.
Qed.

Lemma scanners_agree s eg ed : kb_lower s = false ->
  gen_normalize s = Some (Ok eg) -> dec_normalize s = Some (Ok ed) -> eg = ed.
Proof.
  intros Hl. rewrite gen_normalize_eq, dec_normalize_eq, (items_same s Hl).
  destruct (elems (dec_items s)) eqn:E; [discriminate|].
  destruct (ends_with_tok (dec_items s)); [|discriminate].
  intros H1 H2. injection H1 as <-. injection H2 as <-. reflexivity.
Qed.

(* outside the known findings both sides accept exactly the same strings *)
Lemma same_acceptance s : known_bad s = false ->
  (exists es, gen_normalize s = Some (Ok es) /\ dec_normalize s = Some (Ok es))
  \/ (gen_normalize s = Some (Err ValueError) /\ dec_normalize s = Some (Err ValueError)).
Proof.
  intros Hkb. destruct (known_bad_false s Hkb) as (Hnm & _ & Hl & _).
  rewrite gen_normalize_eq, dec_normalize_eq. unfold kb_nomatch in Hnm.
  rewrite (items_same s Hl) in *.
  destruct (elems (dec_items s)) eqn:E; [discriminate|].
  destruct (ends_with_tok (dec_items s)); [left; eexists; split; reflexivity|right; split; reflexivity].
Qed.

(* ================= repeat notation (partial): the expansion, when it is accepted, has the same size ================= *)
(* without an opening parenthesis no repeat can match: a match's text is exactly the text it consumed *)
Lemma token_text ci rc uc s k txt rest :
  token_at ci rc uc s = Some (E k txt, rest) -> mem 40 s = false -> s = txt ++ rest.
Proof.
  unfold token_at. destruct s as [|c t]; [discriminate|]. intros H Hp.
  assert (Hpt : mem 40 t = false).
  { unfold mem in *. cbn [existsb] in Hp. apply orb_false_iff in Hp. tauto. }
  revert H.
  destruct (mem (up ci c) [43; 45; 83]).
  { intros H. injection H as <- <- <-. reflexivity. }
  destruct ((up ci c =? 68) && _).
  { intros H. injection H as <- <- <-. destruct t; reflexivity. }
  destruct ((up ci c =? 67) && _).
  { intros H. injection H as <- <- <-. destruct t; reflexivity. }
  destruct (mem (up ci c) [36; 44; 47; 42; 66]).
  { intros H. injection H as <- <- <-. reflexivity. }
  destruct (mem (up ci c) [86; 46]).
  { intros H. injection H as <- <- <-. reflexivity. }
  destruct (if mem (up ci c) rc then repeat_tail t else None) as [[n r]|] eqn:ER.
  { exfalso. destruct (mem (up ci c) rc); [|discriminate].
    destruct (repeat_tail_some _ _ _ ER) as (ds & -> & _).
    unfold mem in Hpt. cbn [existsb] in Hpt. discriminate. }
  destruct (mem (up ci c) uc); [|discriminate].
  pose proof (span_app (fun d => mem (up ci d) uc) t) as Happ.
  destruct (span (fun d => mem (up ci d) uc) t) as [run r]. simpl in Happ.
  intros H. injection H as <- <- <-. cbn [app]. now rewrite <- Happ.
Qed.

Lemma mem_app_false c a b : mem c (a ++ b) = false -> mem c a = false /\ mem c b = false.
Proof. unfold mem. rewrite existsb_app. apply orb_false_iff. Qed.

Lemma flat_plain f : forall s, (length s <= f)%nat -> mem 40 s = false -> flat (dscan f s) = map sp_upper s.
Proof.
  induction f as [|f IH]; intros s Hlen Hp.
  { destruct s; [reflexivity|simpl in Hlen; lia]. }
  destruct s as [|c t]; [reflexivity|]. unfold dscan. cbn [scan].
  destruct (token_at false cls cls (c :: t)) as [[[k txt] rest]|] eqn:E.
  - rewrite flat_cons. cbn [item_text]. pose proof (token_text _ _ _ _ _ _ _ E Hp) as Hs.
    pose proof (token_at_shorter _ _ _ _ _ _ E) as Hsh.
    rewrite Hs. rewrite map_app. f_equal. apply IH.
    + clear - Hlen Hsh. simpl in *. lia.
    + rewrite Hs in Hp. apply mem_app_false in Hp. tauto.
  - rewrite flat_cons. cbn [item_text map app]. f_equal. apply IH.
    + clear - Hlen. simpl in Hlen. lia.
    + unfold mem in *. cbn [existsb] in Hp. apply orb_false_iff in Hp. tauto.
Qed.

Lemma upper_idem c : sp_upper (sp_upper c) = sp_upper c.
Proof.
  unfold sp_upper. destruct ((97 <=? c) && (c <=? 122)) eqn:R; [|now rewrite R].
  apply andb_true_iff in R. destruct R as [R1 R2]. apply N.leb_le in R1. apply N.leb_le in R2.
  destruct ((97 <=? c - 32) && (c - 32 <=? 122)) eqn:R'; [|reflexivity].
  apply andb_true_iff in R'. destruct R' as [R3 R4]. apply N.leb_le in R3. lia.
Qed.

Lemma flat_upper l : map sp_upper (flat l) = flat l.
Proof. unfold flat. rewrite map_map. apply map_ext. intros c. apply upper_idem. Qed.

Lemma incls_not_paren c : incls c = true -> (c =? 40) = false.
Proof. intros H. mem_split H; reflexivity. Qed.

Lemma cls_no_paren t : forallb incls t = true -> existsb (N.eqb 40) t = false.
Proof.
  induction t as [|d r IHr]; [reflexivity|]. cbn [forallb]. intros H.
  apply andb_true_iff in H. destruct H as [Hd Hr].
  cbn [existsb]. rewrite N.eqb_sym, (incls_not_paren _ Hd). cbn [orb]. now apply IHr.
Qed.

Lemma flat_no_paren l : forallb wf_item l = true -> clean l = true -> mem 40 (flat l) = false.
Proof.
  induction l as [|i l IH]; intros Hwf Hcl; [reflexivity|].
  cbn [forallb] in Hwf. unfold clean in Hcl. cbn [forallb] in Hcl.
  apply andb_true_iff in Hwf. apply andb_true_iff in Hcl.
  destruct Hwf as [Hwi Hwf]. destruct Hcl as [Hci Hcl].
  rewrite flat_cons. unfold mem. rewrite existsb_app. fold (mem 40 (flat l)).
  rewrite (IH Hwf Hcl), orb_false_r.
  destruct i as [[k t]|c|]; [| |discriminate]; cbn [item_text].
  - destruct k; cbn [wf_item wf_elt] in Hwi.
    + cbn [existsb] in Hwi.
      repeat (apply orb_true_iff in Hwi; destruct Hwi as [Hwi|Hwi]); try discriminate Hwi;
        unfold list_N_eqb in Hwi; apply andb_true_iff in Hwi; destruct Hwi as [Hl Hv];
        destruct t as [|c0 [|c1 [|c2 t2]]]; try discriminate Hl; cbn in Hv;
        repeat (apply andb_true_iff in Hv; destruct Hv as [? Hv]);
        repeat match goal with H : (_ =? _) = true |- _ => apply N.eqb_eq in H; subst end; reflexivity.
    + destruct t as [|c0 [|]]; try discriminate. mem_split Hwi; reflexivity.
    + destruct t as [|c0 [|]]; try discriminate. mem_split Hwi; reflexivity.
    + rewrite (upper_cls _ Hwi). now apply cls_no_paren.
  - cbn [clean_item] in Hci. apply orb_true_iff in Hci.
    destruct Hci as [Hc|Hc]; apply N.eqb_eq in Hc; subst c; reflexivity.
Qed.

Lemma dec_parse_ok s r : dec_parse s = Some (Ok r) -> ends_with_tok (dec_items s) = true.
Proof.
  unfold dec_parse. rewrite dec_normalize_eq. destruct (ends_with_tok (dec_items s)); [reflexivity|discriminate].
Qed.

(* the expansion of an accepted picture is its own expansion *)
Lemma expansion_fixed s e r r' : known_bad s = false -> known_bad e = false -> sp_expand s = Some e ->
  dec_parse s = Some (Ok r) -> dec_parse e = Some (Ok r') -> sp_expand e = Some e.
Proof.
  intros Hs He Hexp Hr Hr'.
  destruct (accepted_facts s Hs (dec_parse_ok _ _ Hr)) as (Hcl & Hexp' & _).
  destruct (accepted_facts e He (dec_parse_ok _ _ Hr')) as (_ & Hexp'' & _).
  rewrite Hexp in Hexp'. injection Hexp' as ->.
  rewrite Hexp''. f_equal. rewrite dec_items_eq at 1.
  rewrite flat_plain; [apply flat_upper|apply le_n|].
  apply flat_no_paren; [rewrite dec_items_eq; apply scan_wf|exact Hcl].
Qed.

Lemma repeat_partial s e r r' : known_bad s = false -> known_bad e = false -> sp_expand s = Some e ->
  dec_parse s = Some (Ok r) -> dec_parse e = Some (Ok r') -> p_size r' = p_size r /\ sp_parse e = sp_parse s.
Proof.
  intros Hs He Hexp Hr Hr'.
  pose proof (expansion_fixed s e r r' Hs He Hexp Hr Hr') as Hfix.
  assert (Hsp : sp_parse e = sp_parse s) by (unfold sp_parse; now rewrite Hfix, Hexp).
  split; [|exact Hsp].
  destruct (strict s Hs) as [H|(r0 & v & H1 & H2 & H3 & _)]; [rewrite H in Hr; discriminate|].
  destruct (strict e He) as [H|(r0' & v' & H1' & H2' & H3' & _)]; [rewrite H in Hr'; discriminate|].
  rewrite Hr in H1. injection H1 as <-. rewrite Hr' in H1'. injection H1' as <-.
  rewrite Hsp, H2 in H2'. injection H2' as <-. now rewrite H3, H3'.
Qed.

(* ================= the generator's classification is the specification's (outside the known findings) ================= *)
Definition st_nc (st : sp_state) : Prop :=
  match st with Cnt _ _ _ => False | _ => True end.

Lemma sp_run_plain s : forall st e, st_nc st -> mem 40 s = false -> sp_run st s = Some e -> e = map sp_upper s.
Proof.
  induction s as [|c t IH]; intros st e Hnc Hp H.
  { destruct st; cbn in H; try discriminate; now injection H as <-. }
  assert (Hc : (c =? 40) = false /\ mem 40 t = false).
  { unfold mem in *. cbn [existsb] in Hp. apply orb_false_iff in Hp. rewrite N.eqb_sym. exact Hp. }
  destruct Hc as [Hc Hpt]. cbn [sp_run] in H. cbv zeta in H. cbn [map].
  assert (Hfree : (if sp_upper c =? 68 then option_map (cons 68) (sp_run (Pair 66) t)
                   else if sp_upper c =? 67 then option_map (cons 67) (sp_run (Pair 82) t)
                   else if sp_single (sp_upper c) then option_map (cons (sp_upper c)) (sp_run (Sym (sp_upper c)) t)
                   else None) = Some e -> e = sp_upper c :: map sp_upper t).
  { clear H. intros H.
    destruct (sp_upper c =? 68) eqn:E68.
    { apply N.eqb_eq in E68. rewrite E68. destruct (sp_run (Pair 66) t) as [x|] eqn:Ex; [|discriminate].
      injection H as <-. f_equal. eapply IH; [|exact Hpt|exact Ex]. exact I. }
    destruct (sp_upper c =? 67) eqn:E67.
    { apply N.eqb_eq in E67. rewrite E67. destruct (sp_run (Pair 82) t) as [x|] eqn:Ex; [|discriminate].
      injection H as <-. f_equal. eapply IH; [|exact Hpt|exact Ex]. exact I. }
    destruct (sp_single (sp_upper c)); [|discriminate].
    destruct (sp_run (Sym (sp_upper c)) t) as [x|] eqn:Ex; [|discriminate].
    injection H as <-. f_equal. eapply IH; [|exact Hpt|exact Ex]. exact I. }
  destruct st as [|v|v n b|x]; [| |contradiction|].
  - rewrite Hc in H. exact (Hfree H).
  - rewrite Hc in H. exact (Hfree H).
  - destruct (sp_upper c =? x) eqn:EX; [|discriminate]. apply N.eqb_eq in EX.
    destruct (sp_run Idle t) as [y|] eqn:Ey; [|discriminate].
    injection H as <-. rewrite EX. f_equal. eapply IH; [|exact Hpt|exact Ey]. exact I.
Qed.

Lemma class_pointwise c : lowtrig c = false -> upper_in_SVP9 c = sp_mem (sp_upper c) [83; 86; 80; 57].
Proof.
  intros Hl. unfold lowtrig, mem in Hl. cbn [existsb] in Hl.
  repeat (apply orb_false_iff in Hl; destruct Hl as [? Hl]).
  repeat match goal with H : (_ =? _) = false |- _ => apply N.eqb_neq in H end.
  unfold upper_in_SVP9, mem, sp_mem, sp_upper. cbn [existsb].
  destruct ((97 <=? c) && (c <=? 122)) eqn:R.
  - apply andb_true_iff in R. destruct R as [R1 R2]. apply N.leb_le in R1. apply N.leb_le in R2.
    repeat match goal with |- context [?a =? ?b] => destruct (N.eqb_spec a b); try (exfalso; lia) end; reflexivity.
  - repeat match goal with |- context [?a =? ?b] => destruct (N.eqb_spec a b); try (exfalso; lia) end; reflexivity.
Qed.

Lemma class_plain s : nolow s = true -> forallb upper_in_SVP9 s = sp_numeric (map sp_upper s).
Proof.
  induction s as [|c t IH]; [reflexivity|]. unfold nolow. cbn [forallb map]. intros H.
  apply andb_true_iff in H. destruct H as [Hc Ht]. apply negb_true_iff in Hc.
  unfold sp_numeric in *. cbn [forallb]. rewrite (class_pointwise _ Hc). f_equal. now apply IH.
Qed.

Lemma forallb_paren s : mem 40 s = true -> forallb upper_in_SVP9 s = false.
Proof.
  induction s as [|c t IH]; [discriminate|]. unfold mem. cbn [existsb forallb]. intros H.
  apply orb_true_iff in H. destruct H as [H|H].
  - apply N.eqb_eq in H. subst c. reflexivity.
  - unfold mem in IH. rewrite (IH H). apply andb_false_r.
Qed.

Lemma gen_class s v : known_bad s = false -> sp_parse s = Some v -> gen_numeric s = numeric v.
Proof.
  intros Hkb Hv. destruct (known_bad_false s Hkb) as (_ & _ & Hl & _ & _ & _ & _ & Hrep).
  unfold kb_repnum in Hrep. rewrite Hv in Hrep.
  unfold sp_parse in Hv. destruct (sp_expand s) as [e|] eqn:He; [|discriminate]. injection Hv as <-.
  destruct s as [|c t]; [discriminate|]. unfold sp_expand in He.
  unfold gen_numeric. destruct (mem 40 (c :: t)) eqn:P.
  - rewrite andb_true_r in Hrep. rewrite Hrep. now apply forallb_paren.
  - pose proof (sp_run_plain _ Idle _ I P He) as ->. cbn [sp_summary numeric].
    apply class_plain. apply existsb_false_forallb. exact Hl.
Qed.
