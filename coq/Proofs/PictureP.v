(* Lemmas for C13.  [dscan] is the decoder-side scanner with the parameters read from the source. *)
From Coq Require Import NArith List Bool Lia Arith ZifyBool ZifyN ZifyNat.
Import ListNotations.
Require Import SR.Base.Res SR.Gen.PictureParams SR.Spec.Picture SR.Model.Picture.
(* The definitions of this development that occur in theorem statements (Props/) live in Spec/PictureWf.v (audit item G1).
   The abbreviations keep the qualified names PictureP.name of other files resolving; they are parsing-only aliases. *)
Require Export SR.Spec.PictureWf.
Notation okc := SR.Spec.PictureWf.okc (only parsing).
Notation alpha := SR.Spec.PictureWf.alpha (only parsing).
Notation num_elems := SR.Spec.PictureWf.num_elems (only parsing).
Notation text_char := SR.Spec.PictureWf.text_char (only parsing).
Notation pic_nonempty := SR.Spec.PictureWf.pic_nonempty (only parsing).
Notation kb_dec := SR.Spec.PictureWf.kb_dec (only parsing).
Open Scope N_scope.

(* ---- the tie to the source: what T1 read ---- *)
Definition cls : list N := [65; 88; 57; 90; 48].
Lemma params_dec : dec_ci = false /\ dec_rep_class = cls /\ dec_run_class = cls.
Proof. repeat split; reflexivity. Qed.
Lemma params_gen : gen_ci = true /\ gen_rep_class = cls /\ gen_run_class = cls.
Proof. repeat split; reflexivity. Qed.

Definition dscan := scan false cls cls.
Definition gscan := scan true cls cls.
Lemma dec_items_eq s : dec_items s = dscan (length s) s.
Proof. reflexivity. Qed.
Lemma gen_items_eq s : gen_items s = gscan (length s) s.
Proof. reflexivity. Qed.

Definition incls (c : N) : bool := mem c cls.

(* ---- span ---- *)
Lemma span_app p s : s = fst (span p s) ++ snd (span p s).
Proof.
  induction s as [|c t IH]; simpl; [reflexivity|].
  destruct (p c); [|reflexivity].
  destruct (span p t) as [a b]; simpl in *. now rewrite IH at 1.
Qed.

Lemma span_all p s : forallb p (fst (span p s)) = true.
Proof.
  induction s as [|c t IH]; simpl; [reflexivity|].
  destruct (p c) eqn:E; [|reflexivity].
  destruct (span p t) as [a b]; simpl in *. now rewrite E, IH.
Qed.

Lemma span_ext p q s : (forall c, In c s -> p c = q c) -> span p s = span q s.
Proof.
  induction s as [|c t IH]; intros H; simpl; [reflexivity|].
  rewrite <- (H c (or_introl eq_refl)).
  rewrite IH; [reflexivity|]. intros d Hd. apply H. now right.
Qed.

(* ---- shape of repeat_tail ---- *)
Lemma repeat_tail_some t n rest :
  repeat_tail t = Some (n, rest) ->
  exists ds, t = 40 :: ds ++ 41 :: rest /\ ds <> [] /\ forallb is_nd ds = true /\ n = count_value ds.
Proof.
  unfold repeat_tail. destruct t as [|p t1]; [discriminate|].
  destruct (p =? 40) eqn:Ep; [|discriminate]. apply N.eqb_eq in Ep. subst p.
  pose proof (span_app is_nd t1) as Happ. pose proof (span_all is_nd t1) as Hall.
  destruct (span is_nd t1) as [ds r]. simpl in Happ, Hall.
  destruct ds as [|d ds']; [discriminate|].
  destruct r as [|q rest']; [discriminate|].
  destruct (q =? 41) eqn:Eq; [|discriminate]. apply N.eqb_eq in Eq. subst q.
  intros H. injection H as <- <-.
  exists (d :: ds'). repeat split; try assumption; try discriminate.
  now rewrite Happ.
Qed.

(* ---- every match consumes at least one character ---- *)
Lemma token_at_shorter ci rc uc s e rest :
  token_at ci rc uc s = Some (e, rest) -> (length rest < length s)%nat.
Proof.
  unfold token_at. destruct s as [|c t]; [discriminate|].
  destruct (mem (up ci c) [43; 45; 83]).
  { intros H. injection H as <- <-. simpl. lia. }
  destruct ((up ci c =? 68) && _) eqn:E1.
  { intros H. injection H as <- <-. destruct t; simpl in *; [rewrite andb_false_r in E1; discriminate|]. lia. }
  destruct ((up ci c =? 67) && _) eqn:E2.
  { intros H. injection H as <- <-. destruct t; simpl in *; [rewrite andb_false_r in E2; discriminate|]. lia. }
  destruct (mem (up ci c) [36; 44; 47; 42; 66]).
  { intros H. injection H as <- <-. simpl. lia. }
  destruct (mem (up ci c) [86; 46]).
  { intros H. injection H as <- <-. simpl. lia. }
  destruct (if mem (up ci c) rc then repeat_tail t else None) as [[n r]|] eqn:ER.
  { intros H. injection H as <- <-.
    destruct (mem (up ci c) rc); [|discriminate].
    destruct (repeat_tail_some _ _ _ ER) as (ds & -> & _). simpl. rewrite app_length. simpl. lia. }
  destruct (mem (up ci c) uc); [|discriminate].
  pose proof (span_app (fun d => mem (up ci d) uc) t) as Happ.
  destruct (span (fun d => mem (up ci d) uc) t) as [run r]. simpl in Happ.
  intros H. injection H as <- <-. simpl. rewrite Happ, app_length. lia.
Qed.

(* ---- fuel = length is enough ---- *)
Lemma scan_no_fuel ci rc uc f : forall s, (length s <= f)%nat ->
  existsb is_fuel (scan ci rc uc f s) = false.
Proof.
  induction f as [|f IH]; intros s Hlen.
  - destruct s; [reflexivity|simpl in Hlen; lia].
  - destruct s as [|c t]; [reflexivity|].
    cbn [scan]. destruct (token_at ci rc uc (c :: t)) as [[e rest]|] eqn:E.
    + cbn [existsb is_fuel orb]. apply IH.
      apply token_at_shorter in E. simpl in *. lia.
    + cbn [existsb is_fuel orb]. apply IH. simpl in Hlen. lia.
Qed.

(* ================= the decoder's clean scans and the specification's expansion ================= *)
Definition item_text (i : item) : list N :=
  match i with Tok (E _ t) => t | Skip c => [c] | Fuel => [] end.
Definition flat (l : list item) : list N := map sp_upper (concat (map item_text l)).
(* a match with non-empty text, or a skipped P *)
Definition clean_item (i : item) : bool :=
  match i with
  | Tok (E _ (_ :: _)) => true
  | Skip c => (c =? 80) || (c =? 112)
  | _ => false
  end.
Definition clean (l : list item) : bool := forallb clean_item l.
Definition nond (s : list N) : bool := forallb (fun c => negb (is_nd c && negb (ascii_digit c))) s.
Definition st_free (st : sp_state) : Prop := st = Idle \/ exists u, st = Sym u.

Lemma flat_cons i l : flat (i :: l) = map sp_upper (item_text i) ++ flat l.
Proof. unfold flat. cbn [map concat]. now rewrite map_app. Qed.

Lemma nond_app a b : nond (a ++ b) = true -> nond a = true /\ nond b = true.
Proof. unfold nond. rewrite forallb_app. apply andb_true_iff. Qed.

Lemma nond_cons c t : nond (c :: t) = true -> nond t = true.
Proof. unfold nond. cbn [forallb]. intros H. apply andb_true_iff in H. tauto. Qed.

Ltac mem_split H :=
  unfold incls, cls, mem in H; cbn [existsb] in H;
  repeat (apply orb_true_iff in H; destruct H as [H|H]);
  try discriminate H; apply N.eqb_eq in H; subst.

Lemma step_single st c t X :
  st_free st -> (c =? 40) = false -> (sp_upper c =? 68) = false -> (sp_upper c =? 67) = false ->
  sp_single (sp_upper c) = true ->
  sp_run (Sym (sp_upper c)) t = Some X -> sp_run st (c :: t) = Some (sp_upper c :: X).
Proof.
  intros [->|[u ->]] H1 H2 H3 H4 H5; cbn [sp_run]; rewrite H1, H2, H3, H4, H5; reflexivity.
Qed.

Lemma step_single_id st c t X :
  st_free st -> sp_upper c = c -> (c =? 40) = false -> (c =? 68) = false -> (c =? 67) = false ->
  sp_single c = true ->
  sp_run (Sym c) t = Some X -> sp_run st (c :: t) = Some (c :: X).
Proof.
  intros Hst Hu H1 H2 H3 H4 H5. rewrite <- Hu at 2. apply step_single; rewrite ?Hu; assumption.
Qed.

Lemma upper_cls run : forallb incls run = true -> map sp_upper run = run.
Proof.
  induction run as [|d r IH]; [reflexivity|]. cbn [forallb map]. intros H.
  apply andb_true_iff in H. destruct H as [Hd Hr]. rewrite (IH Hr).
  mem_split Hd; reflexivity.
Qed.

Lemma step_run run : forall st rest X, st_free st -> forallb incls run = true ->
  (forall st', st_free st' -> sp_run st' rest = Some X) ->
  sp_run st (run ++ rest) = Some (run ++ X).
Proof.
  induction run as [|d r IH]; intros st rest X Hst Hall HX.
  - apply HX, Hst.
  - cbn [forallb] in Hall. apply andb_true_iff in Hall. destruct Hall as [Hd Hr].
    assert (Hrec : forall st', st_free st' -> sp_run st' (r ++ rest) = Some (r ++ X)).
    { intros st' Hst'. apply IH; assumption. }
    cbn [app].
    mem_split Hd;
      (apply (step_single_id st _ (r ++ rest) (r ++ X) Hst); try reflexivity;
       apply Hrec; right; eexists; reflexivity).
Qed.

Definition cv (n : N) (ds : list N) : N := fold_left (fun a d => a * 10 + (d - 48)) ds n.

Lemma step_digits ds : forall u n b rest, forallb sp_digit ds = true ->
  sp_run (Cnt u n b) (ds ++ 41 :: rest) =
  if (b || negb (match ds with [] => true | _ => false end)) && (0 <? cv n ds)
  then option_map (app (repeat u (N.to_nat (cv n ds - 1)))) (sp_run Idle rest) else None.
Proof.
  induction ds as [|d r IH]; intros u n b rest Hall.
  - cbn [app sp_run cv fold_left]. change (sp_digit 41) with false. cbv iota.
    change (41 =? 41) with true. cbn [andb negb orb]. rewrite orb_false_r. reflexivity.
  - cbn [forallb] in Hall. apply andb_true_iff in Hall. destruct Hall as [Hd Hr].
    cbn [app sp_run]. rewrite Hd. rewrite IH by assumption.
    cbn [cv fold_left negb orb]. rewrite orb_true_r. reflexivity.
Qed.

Lemma count_value_ascii ds : forallb sp_digit ds = true -> count_value ds = cv 0 ds.
Proof.
  unfold count_value, cv. generalize 0. induction ds as [|d r IH]; intros n Hall; [reflexivity|].
  cbn [forallb] in Hall. apply andb_true_iff in Hall. destruct Hall as [Hd Hr].
  cbn [fold_left]. rewrite IH by assumption.
  unfold nd_val. change (ascii_digit d) with (sp_digit d). now rewrite Hd.
Qed.

Lemma nd_ascii ds : forallb is_nd ds = true -> nond ds = true -> forallb sp_digit ds = true.
Proof.
  induction ds as [|d r IH]; [reflexivity|]. cbn [forallb nond]. unfold nond. cbn [forallb].
  intros H1 H2. apply andb_true_iff in H1. apply andb_true_iff in H2.
  destruct H1 as [Hd Hr]. destruct H2 as [Hd' Hr'].
  rewrite (IH Hr Hr'). rewrite Hd in Hd'. change (sp_digit d) with (ascii_digit d).
  destruct (ascii_digit d); [reflexivity|discriminate].
Qed.

Lemma map_upper_repeat c k : sp_upper c = c -> map sp_upper (repeat c k) = repeat c k.
Proof. intros H. induction k as [|k IH]; [reflexivity|]. cbn [repeat map]. now rewrite H, IH. Qed.

Lemma repeat_nonempty c n : clean_item (Tok (E KDigit (repeat c (N.to_nat n)))) = true -> (0 <? n) = true.
Proof.
  destruct (N.to_nat n) eqn:E; cbn [repeat clean_item]; [discriminate|]. intros _. lia.
Qed.

(* the repeat token c ( ds ) *)
Lemma step_repeat st c ds rest X :
  st_free st -> incls c = true -> ds <> [] -> forallb sp_digit ds = true -> (0 <? cv 0 ds) = true ->
  sp_run Idle rest = Some X ->
  sp_run st (c :: 40 :: ds ++ 41 :: rest) = Some (repeat c (N.to_nat (cv 0 ds)) ++ X).
Proof.
  intros Hst Hc Hne Hds Hpos HX.
  assert (Hin : sp_run (Cnt c 0 false) (ds ++ 41 :: rest) = Some (repeat c (N.to_nat (cv 0 ds - 1)) ++ X)).
  { rewrite step_digits by assumption. rewrite Hpos, HX.
    destruct ds; [contradiction|]. reflexivity. }
  replace (N.to_nat (cv 0 ds)) with (S (N.to_nat (cv 0 ds - 1))) by lia.
  cbn [repeat app].
  mem_split Hc;
    (destruct Hst as [->|[u ->]]; cbn [sp_run];
     match goal with |- context [sp_upper ?k] => change (sp_upper k) with k end;
     cbv beta iota zeta; simpl N.eqb; cbv iota; simpl sp_single; cbv iota; cbn [option_map sp_run];
     simpl N.eqb; cbv iota; simpl sp_repeatable; cbv iota; rewrite Hin; reflexivity).
Qed.

Lemma step_db st t X : st_free st -> sp_run Idle t = Some X -> sp_run st (68 :: 66 :: t) = Some (68 :: 66 :: X).
Proof. intros [->|[u ->]] H; cbn; rewrite H; reflexivity. Qed.
Lemma step_cr st t X : st_free st -> sp_run Idle t = Some X -> sp_run st (67 :: 82 :: t) = Some (67 :: 82 :: X).
Proof. intros [->|[u ->]] H; cbn; rewrite H; reflexivity. Qed.

(* Lemma A: a clean decoder scan reads exactly the symbols the specification reads *)
Lemma clean_expand f : forall s st, (length s <= f)%nat -> st_free st ->
  clean (dscan f s) = true -> nond s = true ->
  sp_run st s = Some (flat (dscan f s)).
Proof.
  induction f as [|f IH]; intros s st Hlen Hst Hcl Hnd.
  { destruct s; [|simpl in Hlen; lia]. destruct Hst as [->|[u ->]]; reflexivity. }
  destruct s as [|c t]. { destruct Hst as [->|[u ->]]; reflexivity. }
  unfold dscan in *. cbn [scan] in *.
  assert (Hsym : forall u, st_free (Sym u)) by (intros u; right; eexists; reflexivity).
  destruct (token_at false cls cls (c :: t)) as [[e rest]|] eqn:E.
  - pose proof (token_at_shorter _ _ _ _ _ _ E) as Hsh.
    unfold clean in Hcl. cbn [forallb] in Hcl. apply andb_true_iff in Hcl. destruct Hcl as [Hce Hcl].
    rewrite flat_cons.
    assert (Hgo : forall r st', (length r <= f)%nat -> st_free st' ->
              forallb clean_item (scan false cls cls f r) = true -> nond r = true ->
              sp_run st' r = Some (flat (scan false cls cls f r))).
    { intros r st' H1 H2 H3 H4. apply IH; assumption. }
    unfold token_at in E. cbn [up] in E. cbv zeta in E.
    destruct (mem c [43; 45; 83]) eqn:M1.
    { injection E as <- <-. cbn [item_text].
      assert (Ht : sp_run (Sym c) t = Some (flat (scan false cls cls f t))).
      { apply Hgo; [clear - Hlen; simpl in Hlen; lia|apply Hsym|assumption|eapply nond_cons; eassumption]. }
      mem_split M1; (apply (step_single_id st _ t _ Hst); first [exact Ht | reflexivity]). }
    destruct ((c =? 68) && _) eqn:M2.
    { injection E as <- <-. apply andb_true_iff in M2. destruct M2 as [Mc Md].
      apply N.eqb_eq in Mc. subst c. destruct t as [|d t']; [discriminate|].
      apply N.eqb_eq in Md. subst d. cbn [firstn skipn item_text] in *.
      assert (Ht : sp_run Idle t' = Some (flat (scan false cls cls f t'))).
      { apply Hgo; [clear - Hlen; simpl in Hlen; lia|now left|assumption|].
        eapply nond_cons, nond_cons; eassumption. }
      apply (step_db st t' _ Hst Ht). }
    destruct ((c =? 67) && _) eqn:M3.
    { injection E as <- <-. apply andb_true_iff in M3. destruct M3 as [Mc Md].
      apply N.eqb_eq in Mc. subst c. destruct t as [|d t']; [discriminate|].
      apply N.eqb_eq in Md. subst d. cbn [firstn skipn item_text] in *.
      assert (Ht : sp_run Idle t' = Some (flat (scan false cls cls f t'))).
      { apply Hgo; [clear - Hlen; simpl in Hlen; lia|now left|assumption|].
        eapply nond_cons, nond_cons; eassumption. }
      apply (step_cr st t' _ Hst Ht). }
    destruct (mem c [36; 44; 47; 42; 66]) eqn:M4.
    { injection E as <- <-. cbn [item_text].
      assert (Ht : sp_run (Sym c) t = Some (flat (scan false cls cls f t))).
      { apply Hgo; [clear - Hlen; simpl in Hlen; lia|apply Hsym|assumption|eapply nond_cons; eassumption]. }
      mem_split M4; (apply (step_single_id st _ t _ Hst); first [exact Ht | reflexivity]). }
    destruct (mem c [86; 46]) eqn:M5.
    { injection E as <- <-. cbn [item_text].
      assert (Ht : sp_run (Sym c) t = Some (flat (scan false cls cls f t))).
      { apply Hgo; [clear - Hlen; simpl in Hlen; lia|apply Hsym|assumption|eapply nond_cons; eassumption]. }
      mem_split M5; (apply (step_single_id st _ t _ Hst); first [exact Ht | reflexivity]). }
    destruct (if mem c cls then repeat_tail t else None) as [[n r]|] eqn:ER.
    { injection E as <- <-. cbn [item_text].
      destruct (mem c cls) eqn:Mc; [|discriminate].
      destruct (repeat_tail_some _ _ _ ER) as (ds & -> & Hne & Hds & ->).
      assert (Hnd' : nond (ds ++ 41 :: r) = true) by (eapply nond_cons, nond_cons; eassumption).
      apply nond_app in Hnd'. destruct Hnd' as [Hnd1 Hnd2]. apply nond_cons in Hnd2.
      pose proof (nd_ascii _ Hds Hnd1) as Hasc.
      rewrite (count_value_ascii _ Hasc) in *.
      pose proof (repeat_nonempty _ _ Hce) as Hpos.
      assert (Hu : sp_upper c = c) by (mem_split Mc; reflexivity).
      rewrite (map_upper_repeat _ _ Hu).
      apply step_repeat; try assumption.
      apply Hgo; [clear - Hlen; cbn [length] in Hlen; rewrite app_length in Hlen; cbn [length] in Hlen; lia|now left|assumption|assumption]. }
    destruct (mem c cls) eqn:Mc; [|discriminate].
    pose proof (span_app (fun d => mem d cls) t) as Happ.
    pose proof (span_all (fun d => mem d cls) t) as Hall.
    destruct (span (fun d => mem d cls) t) as [run r]. cbn [fst snd] in Happ, Hall.
    injection E as <- <-. cbn [item_text].
    assert (Hall' : forallb incls (c :: run) = true) by (cbn [forallb]; unfold incls at 1; rewrite Mc; exact Hall).
    rewrite (upper_cls _ Hall').
    rewrite Happ. change (c :: run ++ r) with ((c :: run) ++ r).
    apply step_run; try assumption.
    intros st' Hst'. apply Hgo; try assumption.
    + rewrite Happ in Hlen. clear - Hlen. cbn [length] in Hlen. rewrite app_length in Hlen. lia.
    + rewrite Happ in Hnd. apply nond_cons in Hnd. apply nond_app in Hnd. tauto.
  - unfold clean in Hcl. cbn [forallb clean_item] in Hcl. apply andb_true_iff in Hcl. destruct Hcl as [Hce Hcl].
    rewrite flat_cons. cbn [item_text map app].
    assert (Ht : sp_run (Sym (sp_upper c)) t = Some (flat (scan false cls cls f t))).
    { apply IH; [clear - Hlen; simpl in Hlen; lia|apply Hsym|assumption|eapply nond_cons; eassumption]. }
    apply orb_true_iff in Hce. destruct Hce as [Hc|Hc]; apply N.eqb_eq in Hc; subst c;
      (apply (step_single st _ t _ Hst); first [exact Ht | reflexivity]).
Qed.

(* ================= shapes of the matches ================= *)
Definition wf_elt (e : elt) : bool :=
  match e with
  | E KSign t => existsb (list_N_eqb t) [[43]; [45]; [83]; [68; 66]; [67; 82]]
  | E KChar t => match t with [c] => mem c [36; 44; 47; 42; 66] | _ => false end
  | E KDecimal t => match t with [c] => mem c [86; 46] | _ => false end
  | E KDigit t => forallb incls t
  end.
Definition wf_item (i : item) : bool := match i with Tok e => wf_elt e | _ => true end.

Lemma incls_repeat c k : incls c = true -> forallb incls (repeat c k) = true.
Proof. intros H. induction k as [|k IH]; [reflexivity|]. cbn [repeat forallb]. now rewrite H, IH. Qed.

Lemma token_wf s e rest : token_at false cls cls s = Some (e, rest) -> wf_elt e = true.
Proof.
  unfold token_at. destruct s as [|c t]; [discriminate|]. cbn [up]. cbv zeta.
  destruct (mem c [43; 45; 83]) eqn:M1.
  { intros H. injection H as <- <-. mem_split M1; reflexivity. }
  destruct ((c =? 68) && _) eqn:M2.
  { intros H. injection H as <- <-. apply andb_true_iff in M2. destruct M2 as [Mc Md].
    apply N.eqb_eq in Mc. subst c. destruct t as [|d t']; [discriminate|].
    apply N.eqb_eq in Md. subst d. reflexivity. }
  destruct ((c =? 67) && _) eqn:M3.
  { intros H. injection H as <- <-. apply andb_true_iff in M3. destruct M3 as [Mc Md].
    apply N.eqb_eq in Mc. subst c. destruct t as [|d t']; [discriminate|].
    apply N.eqb_eq in Md. subst d. reflexivity. }
  destruct (mem c [36; 44; 47; 42; 66]) eqn:M4.
  { intros H. injection H as <- <-. mem_split M4; reflexivity. }
  destruct (mem c [86; 46]) eqn:M5.
  { intros H. injection H as <- <-. mem_split M5; reflexivity. }
  destruct (if mem c cls then repeat_tail t else None) as [[n r]|] eqn:ER.
  { intros H. injection H as <- <-. destruct (mem c cls) eqn:Mc; [|discriminate].
    cbn [wf_elt]. now apply incls_repeat. }
  destruct (mem c cls) eqn:Mc; [|discriminate].
  pose proof (span_all (fun d => mem d cls) t) as Hall.
  destruct (span (fun d => mem d cls) t) as [run r]. cbn [fst] in Hall.
  intros H. injection H as <- <-. cbn [wf_elt forallb]. unfold incls at 1. rewrite Mc. exact Hall.
Qed.

Lemma scan_wf f : forall s, forallb wf_item (dscan f s) = true.
Proof.
  induction f as [|f IH]; intros s.
  - destruct s; reflexivity.
  - destruct s as [|c t]; [reflexivity|]. unfold dscan. cbn [scan].
    destruct (token_at false cls cls (c :: t)) as [[e rest]|] eqn:E.
    + cbn [forallb wf_item]. rewrite (token_wf _ _ _ E). apply IH.
    + cbn [forallb wf_item]. apply IH.
Qed.

(* ================= the size loop counts the positions of the expansion ================= *)
Definition nvp (c : N) : bool := negb ((c =? 86) || (c =? 80)).

Lemma positions_app a b : sp_positions (a ++ b) = (sp_positions a + sp_positions b)%nat.
Proof. unfold sp_positions. now rewrite filter_app, app_length. Qed.

Lemma positions_cls t : forallb incls t = true -> sp_positions (map sp_upper t) = length t.
Proof.
  intros H. rewrite (upper_cls _ H). unfold sp_positions.
  induction t as [|d r IH]; [reflexivity|]. cbn [forallb] in H. apply andb_true_iff in H.
  destruct H as [Hd Hr]. cbn [filter].
  assert (Hn : negb ((d =? 86) || (d =? 80)) = true) by (mem_split Hd; reflexivity).
  rewrite Hn. cbn [length]. now rewrite (IH Hr).
Qed.

Lemma size_clean l : forallb wf_item l = true -> clean l = true ->
  forall acc, size_loop (elems l) acc = Ok (acc + sp_positions (flat l))%nat.
Proof.
  induction l as [|i l IH]; intros Hwf Hcl acc.
  - cbn. f_equal. lia.
  - cbn [forallb] in Hwf. unfold clean in Hcl. cbn [forallb] in Hcl.
    apply andb_true_iff in Hwf. apply andb_true_iff in Hcl.
    destruct Hwf as [Hwi Hwf]. destruct Hcl as [Hci Hcl].
    rewrite flat_cons, positions_app.
    destruct i as [[k t]|c|]; [| |discriminate].
    + cbn [elems item_text]. destruct t as [|c0 t0]; [discriminate|].
      destruct k; cbn [wf_item wf_elt] in Hwi.
      * cbn [size_loop]. rewrite IH by assumption. f_equal.
        cbn [existsb] in Hwi.
        assert (Hp : sp_positions (map sp_upper (c0 :: t0)) = length (c0 :: t0)).
        { repeat (apply orb_true_iff in Hwi; destruct Hwi as [Hwi|Hwi]); try discriminate Hwi;
          unfold list_N_eqb in Hwi; apply andb_true_iff in Hwi; destruct Hwi as [Hl Hv];
          destruct t0 as [|c1 [|c2 t2]]; try discriminate Hl; cbn in Hv;
          repeat (apply andb_true_iff in Hv; destruct Hv as [? Hv]);
          repeat match goal with H : (_ =? _) = true |- _ => apply N.eqb_eq in H; subst end; reflexivity. }
        rewrite Hp. lia.
      * cbn [size_loop]. rewrite IH by assumption. f_equal.
        destruct t0; [|discriminate]. mem_split Hwi; cbn; lia.
      * cbn [size_loop]. rewrite IH by assumption. f_equal.
        destruct t0; [|discriminate]. mem_split Hwi; cbn; lia.
      * cbn [size_loop]. rewrite IH by assumption. f_equal.
        rewrite (positions_cls _ Hwi). lia.
    + cbn [elems item_text clean_item] in *. rewrite IH by assumption. f_equal.
      apply orb_true_iff in Hci. destruct Hci as [Hc|Hc]; apply N.eqb_eq in Hc; subst c; cbn; lia.
Qed.

(* ================= the specification accepts no foreign character ================= *)
Lemma option_map_some {A B} (f : A -> B) x y : option_map f x = Some y -> exists x', x = Some x'.
Proof. destruct x; [eexists; reflexivity|discriminate]. Qed.

Definition st_ok (st : sp_state) : Prop := match st with Pair x => x = 66 \/ x = 82 | _ => True end.

Lemma sp_no_foreign s : forall st e, st_ok st -> sp_run st s = Some e ->
  forallb (fun c => negb (sp_foreign c)) s = true.
Proof.
  induction s as [|c t IH]; intros st e Hok H; [reflexivity|].
  cbn [forallb]. cbn [sp_run] in H. cbv zeta in H.
  assert (Hcommon : forall st', st_free st' ->
      (if c =? 40
       then match st' with Sym v => if sp_repeatable v then sp_run (Cnt v 0 false) t else None | _ => None end
       else if sp_upper c =? 68 then option_map (cons 68) (sp_run (Pair 66) t)
       else if sp_upper c =? 67 then option_map (cons 67) (sp_run (Pair 82) t)
       else if sp_single (sp_upper c) then option_map (cons (sp_upper c)) (sp_run (Sym (sp_upper c)) t)
       else None) = Some e ->
      negb (sp_foreign c) && forallb (fun c0 => negb (sp_foreign c0)) t = true).
  { intros st' Hfree H'. unfold sp_foreign. rewrite negb_involutive.
    destruct (c =? 40) eqn:E40.
    { rewrite ?orb_true_r. cbn [andb].
      destruct Hfree as [->|[v ->]]; [discriminate|].
      destruct (sp_repeatable v); [|discriminate]. eapply IH; [|exact H']. exact I. }
    destruct (sp_upper c =? 68) eqn:E68.
    { apply N.eqb_eq in E68. rewrite E68. cbn [sp_mem existsb]. rewrite ?orb_true_r. cbn [andb orb].
      change (68 =? 68) with true. cbn [orb andb].
      apply option_map_some in H'. destruct H' as [x Hx]. eapply IH; [|exact Hx]. now left. }
    destruct (sp_upper c =? 67) eqn:E67.
    { apply N.eqb_eq in E67. rewrite E67.
      apply option_map_some in H'. destruct H' as [x Hx].
      replace (sp_single 67 || sp_mem 67 [68; 67; 82] || sp_digit c || false || (c =? 41)) with true
        by (symmetry; reflexivity).
      cbn [andb]. eapply IH; [|exact Hx]. now right. }
    destruct (sp_single (sp_upper c)) eqn:ES; [|discriminate].
    cbn [orb andb]. apply option_map_some in H'. destruct H' as [x Hx]. eapply IH; [|exact Hx]. exact I. }
  destruct st as [|v|v n b|x].
  - apply (Hcommon Idle); [now left|exact H].
  - apply (Hcommon (Sym v)); [right; eexists; reflexivity|exact H].
  - unfold sp_foreign. rewrite negb_involutive.
    destruct (sp_digit c) eqn:ED.
    { rewrite ?orb_true_r. cbn [orb andb]. eapply IH; [|exact H]. exact I. }
    destruct ((c =? 41) && b && (0 <? n)) eqn:EC; [|discriminate].
    apply andb_true_iff in EC. destruct EC as [EC _]. apply andb_true_iff in EC. destruct EC as [EC _].
    rewrite EC. rewrite ?orb_true_r. cbn [andb].
    apply option_map_some in H. destruct H as [x Hx]. eapply IH; [|exact Hx]. exact I.
  - destruct (sp_upper c =? x) eqn:EX; [|discriminate].
    apply N.eqb_eq in EX. apply option_map_some in H. destruct H as [y Hy].
    unfold sp_foreign. rewrite negb_involutive. rewrite EX.
    cbn [st_ok] in Hok. destruct Hok as [->| ->].
    + change (sp_single 66) with true. cbn [orb andb]. eapply IH; [|exact Hy]. exact I.
    + change (sp_mem 82 [68; 67; 82]) with true. rewrite ?orb_true_r. cbn [orb andb].
      eapply IH; [|exact Hy]. exact I.
Qed.

(* ================= C13_strict ================= *)
Lemma known_bad_false s : known_bad s = false ->
  kb_nomatch s = false /\ kb_nd s = false /\ kb_lower s = false /\ kb_skip s = false /\
  kb_zero s = false /\ kb_lastonly s = false /\ kb_zeropos s = false /\ kb_repnum s = false.
Proof.
  unfold known_bad, known_code.
  destruct (kb_nomatch s); [discriminate|]. destruct (kb_nd s); [discriminate|].
  destruct (kb_lower s); [discriminate|]. destruct (kb_skip s); [discriminate|].
  destruct (kb_zero s); [discriminate|]. destruct (kb_lastonly s); [discriminate|].
  destruct (kb_zeropos s); [discriminate|]. destruct (kb_repnum s); [discriminate|].
  intros _. repeat split; reflexivity.
Qed.

Lemma existsb_false_forallb {A} (p : A -> bool) l : existsb p l = false -> forallb (fun x => negb (p x)) l = true.
Proof.
  induction l as [|x l IH]; [reflexivity|]. cbn [existsb forallb]. intros H.
  apply orb_false_iff in H. destruct H as [Hx Hl]. now rewrite Hx, IH.
Qed.

Lemma clean_of l : existsb is_fuel l = false -> existsb bad_skip l = false ->
  existsb empty_elt (elems l) = false -> clean l = true.
Proof.
  induction l as [|i l IH]; [reflexivity|]. intros H1 H2 H3.
  cbn [existsb] in H1, H2. apply orb_false_iff in H1. apply orb_false_iff in H2.
  destruct H1 as [H1 H1']. destruct H2 as [H2 H2'].
  unfold clean. cbn [forallb].
  destruct i as [[k t]|c|]; [| |discriminate].
  - cbn [elems existsb] in H3. apply orb_false_iff in H3. destruct H3 as [H3 H3'].
    destruct t; [discriminate|]. cbn [clean_item andb]. apply IH; assumption.
  - cbn [elems] in H3. cbn [bad_skip] in H2. apply negb_false_iff in H2.
    cbn [clean_item]. rewrite H2. cbn [andb]. apply IH; assumption.
Qed.

Lemma ends_nonempty l : ends_with_tok l = true -> l <> [].
Proof. destruct l; [discriminate|discriminate]. Qed.

(* everything the hypotheses give about an accepted string outside the known findings *)
Lemma accepted_facts s : known_bad s = false -> ends_with_tok (dec_items s) = true ->
  clean (dec_items s) = true /\ sp_expand s = Some (flat (dec_items s)) /\
  size_loop (elems (dec_items s)) 0 = Ok (sp_positions (flat (dec_items s))).
Proof.
  intros Hkb Hend. destruct (known_bad_false s Hkb) as (_ & Hnd & _ & Hskip & Hzero & _).
  pose proof (scan_no_fuel false cls cls (length s) s (le_n _)) as Hfuel.
  unfold kb_skip in Hskip. apply orb_false_iff in Hskip. destruct Hskip as [Hskip _].
  rewrite Hend in Hskip. cbn [andb] in Hskip.
  unfold kb_zero in Hzero. apply orb_false_iff in Hzero. destruct Hzero as [Hzero _].
  rewrite dec_items_eq in *.
  pose proof (clean_of _ Hfuel Hskip Hzero) as Hclean.
  assert (Hnond : nond s = true) by (apply existsb_false_forallb; exact Hnd).
  split; [exact Hclean|]. split.
  - destruct s as [|c t]; [discriminate|]. unfold sp_expand.
    apply clean_expand; [apply le_n|now left|exact Hclean|exact Hnond].
  - rewrite (size_clean _ (scan_wf _ _) Hclean). reflexivity.
Qed.

Lemma dec_normalize_eq s :
  dec_normalize s = Some (if ends_with_tok (dec_items s) then Ok (elems (dec_items s)) else Err ValueError).
Proof.
  unfold dec_normalize. cbv zeta.
  pose proof (scan_no_fuel false cls cls (length s) s (le_n _)) as H.
  change (scan false cls cls (length s) s) with (dec_items s) in H. now rewrite H.
Qed.

Lemma strict s : known_bad s = false ->
  dec_parse s = Some (Err ValueError) \/
  exists r v, dec_parse s = Some (Ok r) /\ sp_parse s = Some v /\ p_size r = positions v /\
              forallb (fun c => negb (sp_foreign c)) s = true.
Proof.
  intros Hkb. unfold dec_parse. rewrite dec_normalize_eq.
  destruct (ends_with_tok (dec_items s)) eqn:Hend; [right|left; reflexivity].
  destruct (accepted_facts s Hkb Hend) as (Hclean & Hexp & Hsize).
  rewrite Hsize. eexists. exists (sp_summary (flat (dec_items s))).
  split; [reflexivity|]. split; [unfold sp_parse; now rewrite Hexp|]. split; [reflexivity|].
  destruct s as [|c t]; [reflexivity|]. unfold sp_expand in Hexp.
  eapply sp_no_foreign; [|exact Hexp]. exact I.
Qed.

(* ================= the two scanners agree when no lower-case picture letter occurs ================= *)
Definition lowtrig (c : N) : bool := mem c [97; 98; 99; 100; 112; 114; 115; 118; 120; 122; 383].
Definition consts : list N := [43; 45; 83; 68; 66; 67; 82; 36; 44; 47; 42; 86; 46; 65; 88; 57; 90; 48].

Lemma up_eqb c k : lowtrig c = false -> In k consts -> (up true c =? k) = (c =? k).
Proof.
  intros Hl Hk. unfold lowtrig, mem in Hl. cbn [existsb] in Hl.
  repeat (apply orb_false_iff in Hl; destruct Hl as [? Hl]).
  repeat match goal with H : (_ =? _) = false |- _ => apply N.eqb_neq in H end.
  unfold up. destruct ((97 <=? c) && (c <=? 122)) eqn:R.
  - apply andb_true_iff in R. destruct R as [R1 R2]. apply N.leb_le in R1. apply N.leb_le in R2.
    cbn [consts In] in Hk.
    repeat (destruct Hk as [<-|Hk]; [match goal with |- (?a =? ?b) = (?a' =? ?b') => destruct (N.eqb_spec a b); destruct (N.eqb_spec a' b') end; try reflexivity; exfalso; lia|]).
    contradiction.
  - destruct (c =? 383) eqn:E; [apply N.eqb_eq in E; contradiction|reflexivity].
Qed.

Lemma up_mem c l : lowtrig c = false -> incl l consts -> mem (up true c) l = mem c l.
Proof.
  intros Hl. induction l as [|k l IH]; intros Hin; [reflexivity|].
  unfold mem. cbn [existsb]. rewrite up_eqb; [|assumption|apply Hin; now left].
  f_equal. apply IH. intros x Hx. apply Hin. now right.
Qed.

Ltac incl_consts := intros x Hx; cbn [In consts] in *; tauto.

Definition nolow (s : list N) : bool := forallb (fun c => negb (lowtrig c)) s.

Lemma token_at_same s : nolow s = true -> token_at true cls cls s = token_at false cls cls s.
Proof.
  destruct s as [|c t]; [reflexivity|]. unfold nolow. cbn [forallb]. intros H.
  apply andb_true_iff in H. destruct H as [Hc Ht]. apply negb_true_iff in Hc.
  unfold token_at. cbv zeta.
  rewrite (up_mem c [43; 45; 83] Hc) by incl_consts.
  rewrite (up_mem c [36; 44; 47; 42; 66] Hc) by incl_consts.
  rewrite (up_mem c [86; 46] Hc) by incl_consts.
  rewrite (up_mem c cls Hc) by (unfold cls; incl_consts).
  rewrite (up_eqb c 68 Hc) by (cbn; tauto). rewrite (up_eqb c 67 Hc) by (cbn; tauto).
  assert (Hhead : forall k, In k consts ->
            match t with d :: _ => up true d =? k | [] => false end = match t with d :: _ => d =? k | [] => false end).
  { intros k Hk. destruct t as [|d t']; [reflexivity|]. cbn [forallb] in Ht.
    apply andb_true_iff in Ht. destruct Ht as [Hd _]. apply negb_true_iff in Hd. now apply up_eqb. }
  rewrite (Hhead 66) by (cbn; tauto). rewrite (Hhead 82) by (cbn; tauto).
  rewrite (span_ext (fun d => mem (up true d) cls) (fun d => mem d cls) t).
  - reflexivity.
  - intros d Hd. rewrite forallb_forall in Ht. specialize (Ht d Hd). apply negb_true_iff in Ht.
    apply up_mem; [assumption|unfold cls; incl_consts].
Qed.

Lemma token_at_suffix ci rc uc s e rest :
  token_at ci rc uc s = Some (e, rest) -> exists pre, s = pre ++ rest.
Proof.
  unfold token_at. destruct s as [|c t]; [discriminate|].
  destruct (mem (up ci c) [43; 45; 83]).
  { intros H. injection H as <- <-. exists [c]. reflexivity. }
  destruct ((up ci c =? 68) && _).
  { intros H. injection H as <- <-. exists (c :: firstn 1 t). cbn [app]. now rewrite firstn_skipn. }
  destruct ((up ci c =? 67) && _).
  { intros H. injection H as <- <-. exists (c :: firstn 1 t). cbn [app]. now rewrite firstn_skipn. }
  destruct (mem (up ci c) [36; 44; 47; 42; 66]).
  { intros H. injection H as <- <-. exists [c]. reflexivity. }
  destruct (mem (up ci c) [86; 46]).
  { intros H. injection H as <- <-. exists [c]. reflexivity. }
  destruct (if mem (up ci c) rc then repeat_tail t else None) as [[n r]|] eqn:ER.
  { intros H. injection H as <- <-.
    destruct (mem (up ci c) rc); [|discriminate].
    destruct (repeat_tail_some _ _ _ ER) as (ds & -> & _).
    exists (c :: 40 :: ds ++ [41]). cbn [app]. rewrite <- app_assoc. reflexivity. }
  destruct (mem (up ci c) uc); [|discriminate].
  pose proof (span_app (fun d => mem (up ci d) uc) t) as Happ.
  destruct (span (fun d => mem (up ci d) uc) t) as [run r]. simpl in Happ.
  intros H. injection H as <- <-. exists (c :: run). cbn [app]. now rewrite <- Happ.
Qed.

Lemma scan_same f : forall s, nolow s = true -> gscan f s = dscan f s.
Proof.
  induction f as [|f IH]; intros s H; [destruct s; reflexivity|].
  destruct s as [|c t]; [reflexivity|]. unfold gscan, dscan. cbn [scan].
  rewrite (token_at_same _ H).
  destruct (token_at false cls cls (c :: t)) as [[e rest]|] eqn:E.
  - f_equal. apply IH. destruct (token_at_suffix _ _ _ _ _ _ E) as [pre Hpre].
    unfold nolow in *. rewrite Hpre, forallb_app in H. apply andb_true_iff in H. tauto.
  - f_equal. apply IH. unfold nolow in *. cbn [forallb] in H. apply andb_true_iff in H. tauto.
Qed.

Lemma items_same s : kb_lower s = false -> gen_items s = dec_items s.
Proof.
  intros H. rewrite gen_items_eq, dec_items_eq. apply scan_same.
  apply existsb_false_forallb. exact H.
Qed.

Lemma gen_normalize_eq s :
  gen_normalize s = Some (match elems (gen_items s) with
                          | [] => Err IndexError
                          | _ :: _ => if ends_with_tok (gen_items s) then Ok (elems (gen_items s)) else Err ValueError
                          end).
Proof.
  unfold gen_normalize. cbv zeta.
  pose proof (scan_no_fuel true cls cls (length s) s (le_n _)) as H.
  change (scan true cls cls (length s) s) with (gen_items s) in H. now rewrite H.
Qed.

Lemma scanners_agree s eg ed : kb_lower s = false ->
  gen_normalize s = Some (Ok eg) -> dec_normalize s = Some (Ok ed) -> eg = ed.
Proof.
  intros Hl. rewrite gen_normalize_eq, dec_normalize_eq, (items_same s Hl).
  destruct (elems (dec_items s)) eqn:E; [discriminate|].
  destruct (ends_with_tok (dec_items s)); [|discriminate].
  intros H1 H2. injection H1 as <-. injection H2 as <-. reflexivity.
Qed.

(* outside the known findings both sides accept exactly the same strings *)
Lemma same_acceptance s : known_bad s = false ->
  (exists es, gen_normalize s = Some (Ok es) /\ dec_normalize s = Some (Ok es))
  \/ (gen_normalize s = Some (Err ValueError) /\ dec_normalize s = Some (Err ValueError)).
Proof.
  intros Hkb. destruct (known_bad_false s Hkb) as (Hnm & _ & Hl & _).
  rewrite gen_normalize_eq, dec_normalize_eq. unfold kb_nomatch in Hnm.
  rewrite (items_same s Hl) in *.
  destruct (elems (dec_items s)) eqn:E; [discriminate|].
  destruct (ends_with_tok (dec_items s)); [left; eexists; split; reflexivity|right; split; reflexivity].
Qed.

(* ================= repeat notation (partial): the expansion, when it is accepted, has the same size ================= *)
(* without an opening parenthesis no repeat can match: a match's text is exactly the text it consumed *)
Lemma token_text ci rc uc s k txt rest :
  token_at ci rc uc s = Some (E k txt, rest) -> mem 40 s = false -> s = txt ++ rest.
Proof.
  unfold token_at. destruct s as [|c t]; [discriminate|]. intros H Hp.
  assert (Hpt : mem 40 t = false).
  { unfold mem in *. cbn [existsb] in Hp. apply orb_false_iff in Hp. tauto. }
  revert H.
  destruct (mem (up ci c) [43; 45; 83]).
  { intros H. injection H as <- <- <-. reflexivity. }
  destruct ((up ci c =? 68) && _).
  { intros H. injection H as <- <- <-. destruct t; reflexivity. }
  destruct ((up ci c =? 67) && _).
  { intros H. injection H as <- <- <-. destruct t; reflexivity. }
  destruct (mem (up ci c) [36; 44; 47; 42; 66]).
  { intros H. injection H as <- <- <-. reflexivity. }
  destruct (mem (up ci c) [86; 46]).
  { intros H. injection H as <- <- <-. reflexivity. }
  destruct (if mem (up ci c) rc then repeat_tail t else None) as [[n r]|] eqn:ER.
  { exfalso. destruct (mem (up ci c) rc); [|discriminate].
    destruct (repeat_tail_some _ _ _ ER) as (ds & -> & _).
    unfold mem in Hpt. cbn [existsb] in Hpt. discriminate. }
  destruct (mem (up ci c) uc); [|discriminate].
  pose proof (span_app (fun d => mem (up ci d) uc) t) as Happ.
  destruct (span (fun d => mem (up ci d) uc) t) as [run r]. simpl in Happ.
  intros H. injection H as <- <- <-. cbn [app]. now rewrite <- Happ.
Qed.

Lemma mem_app_false c a b : mem c (a ++ b) = false -> mem c a = false /\ mem c b = false.
Proof. unfold mem. rewrite existsb_app. apply orb_false_iff. Qed.

Lemma flat_plain f : forall s, (length s <= f)%nat -> mem 40 s = false -> flat (dscan f s) = map sp_upper s.
Proof.
  induction f as [|f IH]; intros s Hlen Hp.
  { destruct s; [reflexivity|simpl in Hlen; lia]. }
  destruct s as [|c t]; [reflexivity|]. unfold dscan. cbn [scan].
  destruct (token_at false cls cls (c :: t)) as [[[k txt] rest]|] eqn:E.
  - rewrite flat_cons. cbn [item_text]. pose proof (token_text _ _ _ _ _ _ _ E Hp) as Hs.
    pose proof (token_at_shorter _ _ _ _ _ _ E) as Hsh.
    rewrite Hs. rewrite map_app. f_equal. apply IH.
    + clear - Hlen Hsh. simpl in *. lia.
    + rewrite Hs in Hp. apply mem_app_false in Hp. tauto.
  - rewrite flat_cons. cbn [item_text map app]. f_equal. apply IH.
    + clear - Hlen. simpl in Hlen. lia.
    + unfold mem in *. cbn [existsb] in Hp. apply orb_false_iff in Hp. tauto.
Qed.

Lemma upper_idem c : sp_upper (sp_upper c) = sp_upper c.
Proof.
  unfold sp_upper. destruct ((97 <=? c) && (c <=? 122)) eqn:R; [|now rewrite R].
  apply andb_true_iff in R. destruct R as [R1 R2]. apply N.leb_le in R1. apply N.leb_le in R2.
  destruct ((97 <=? c - 32) && (c - 32 <=? 122)) eqn:R'; [|reflexivity].
  apply andb_true_iff in R'. destruct R' as [R3 R4]. apply N.leb_le in R3. lia.
Qed.

Lemma flat_upper l : map sp_upper (flat l) = flat l.
Proof. unfold flat. rewrite map_map. apply map_ext. intros c. apply upper_idem. Qed.

Lemma incls_not_paren c : incls c = true -> (c =? 40) = false.
Proof. intros H. mem_split H; reflexivity. Qed.

Lemma cls_no_paren t : forallb incls t = true -> existsb (N.eqb 40) t = false.
Proof.
  induction t as [|d r IHr]; [reflexivity|]. cbn [forallb]. intros H.
  apply andb_true_iff in H. destruct H as [Hd Hr].
  cbn [existsb]. rewrite N.eqb_sym, (incls_not_paren _ Hd). cbn [orb]. now apply IHr.
Qed.

Lemma flat_no_paren l : forallb wf_item l = true -> clean l = true -> mem 40 (flat l) = false.
Proof.
  induction l as [|i l IH]; intros Hwf Hcl; [reflexivity|].
  cbn [forallb] in Hwf. unfold clean in Hcl. cbn [forallb] in Hcl.
  apply andb_true_iff in Hwf. apply andb_true_iff in Hcl.
  destruct Hwf as [Hwi Hwf]. destruct Hcl as [Hci Hcl].
  rewrite flat_cons. unfold mem. rewrite existsb_app. fold (mem 40 (flat l)).
  rewrite (IH Hwf Hcl), orb_false_r.
  destruct i as [[k t]|c|]; [| |discriminate]; cbn [item_text].
  - destruct k; cbn [wf_item wf_elt] in Hwi.
    + cbn [existsb] in Hwi.
      repeat (apply orb_true_iff in Hwi; destruct Hwi as [Hwi|Hwi]); try discriminate Hwi;
        unfold list_N_eqb in Hwi; apply andb_true_iff in Hwi; destruct Hwi as [Hl Hv];
        destruct t as [|c0 [|c1 [|c2 t2]]]; try discriminate Hl; cbn in Hv;
        repeat (apply andb_true_iff in Hv; destruct Hv as [? Hv]);
        repeat match goal with H : (_ =? _) = true |- _ => apply N.eqb_eq in H; subst end; reflexivity.
    + destruct t as [|c0 [|]]; try discriminate. mem_split Hwi; reflexivity.
    + destruct t as [|c0 [|]]; try discriminate. mem_split Hwi; reflexivity.
    + rewrite (upper_cls _ Hwi). now apply cls_no_paren.
  - cbn [clean_item] in Hci. apply orb_true_iff in Hci.
    destruct Hci as [Hc|Hc]; apply N.eqb_eq in Hc; subst c; reflexivity.
Qed.

Lemma dec_parse_ok s r : dec_parse s = Some (Ok r) -> ends_with_tok (dec_items s) = true.
Proof.
  unfold dec_parse. rewrite dec_normalize_eq. destruct (ends_with_tok (dec_items s)); [reflexivity|discriminate].
Qed.

(* the expansion of an accepted picture is its own expansion *)
Lemma expansion_fixed s e r r' : known_bad s = false -> known_bad e = false -> sp_expand s = Some e ->
  dec_parse s = Some (Ok r) -> dec_parse e = Some (Ok r') -> sp_expand e = Some e.
Proof.
  intros Hs He Hexp Hr Hr'.
  destruct (accepted_facts s Hs (dec_parse_ok _ _ Hr)) as (Hcl & Hexp' & _).
  destruct (accepted_facts e He (dec_parse_ok _ _ Hr')) as (_ & Hexp'' & _).
  rewrite Hexp in Hexp'. injection Hexp' as ->.
  rewrite Hexp''. f_equal. rewrite dec_items_eq at 1.
  rewrite flat_plain; [apply flat_upper|apply le_n|].
  apply flat_no_paren; [rewrite dec_items_eq; apply scan_wf|exact Hcl].
Qed.

Lemma repeat_partial s e r r' : known_bad s = false -> known_bad e = false -> sp_expand s = Some e ->
  dec_parse s = Some (Ok r) -> dec_parse e = Some (Ok r') -> p_size r' = p_size r /\ sp_parse e = sp_parse s.
Proof.
  intros Hs He Hexp Hr Hr'.
  pose proof (expansion_fixed s e r r' Hs He Hexp Hr Hr') as Hfix.
  assert (Hsp : sp_parse e = sp_parse s) by (unfold sp_parse; now rewrite Hfix, Hexp).
  split; [|exact Hsp].
  destruct (strict s Hs) as [H|(r0 & v & H1 & H2 & H3 & _)]; [rewrite H in Hr; discriminate|].
  destruct (strict e He) as [H|(r0' & v' & H1' & H2' & H3' & _)]; [rewrite H in Hr'; discriminate|].
  rewrite Hr in H1. injection H1 as <-. rewrite Hr' in H1'. injection H1' as <-.
  rewrite Hsp, H2 in H2'. injection H2' as <-. now rewrite H3, H3'.
Qed.

(* ================= the generator's classification is the specification's (outside the known findings) ================= *)
Definition st_nc (st : sp_state) : Prop :=
  match st with Cnt _ _ _ => False | _ => True end.

Lemma sp_run_plain s : forall st e, st_nc st -> mem 40 s = false -> sp_run st s = Some e -> e = map sp_upper s.
Proof.
  induction s as [|c t IH]; intros st e Hnc Hp H.
  { destruct st; cbn in H; try discriminate; now injection H as <-. }
  assert (Hc : (c =? 40) = false /\ mem 40 t = false).
  { unfold mem in *. cbn [existsb] in Hp. apply orb_false_iff in Hp. rewrite N.eqb_sym. exact Hp. }
  destruct Hc as [Hc Hpt]. cbn [sp_run] in H. cbv zeta in H. cbn [map].
  assert (Hfree : (if sp_upper c =? 68 then option_map (cons 68) (sp_run (Pair 66) t)
                   else if sp_upper c =? 67 then option_map (cons 67) (sp_run (Pair 82) t)
                   else if sp_single (sp_upper c) then option_map (cons (sp_upper c)) (sp_run (Sym (sp_upper c)) t)
                   else None) = Some e -> e = sp_upper c :: map sp_upper t).
  { clear H. intros H.
    destruct (sp_upper c =? 68) eqn:E68.
    { apply N.eqb_eq in E68. rewrite E68. destruct (sp_run (Pair 66) t) as [x|] eqn:Ex; [|discriminate].
      injection H as <-. f_equal. eapply IH; [|exact Hpt|exact Ex]. exact I. }
    destruct (sp_upper c =? 67) eqn:E67.
    { apply N.eqb_eq in E67. rewrite E67. destruct (sp_run (Pair 82) t) as [x|] eqn:Ex; [|discriminate].
      injection H as <-. f_equal. eapply IH; [|exact Hpt|exact Ex]. exact I. }
    destruct (sp_single (sp_upper c)); [|discriminate].
    destruct (sp_run (Sym (sp_upper c)) t) as [x|] eqn:Ex; [|discriminate].
    injection H as <-. f_equal. eapply IH; [|exact Hpt|exact Ex]. exact I. }
  destruct st as [|v|v n b|x]; [| |contradiction|].
  - rewrite Hc in H. exact (Hfree H).
  - rewrite Hc in H. exact (Hfree H).
  - destruct (sp_upper c =? x) eqn:EX; [|discriminate]. apply N.eqb_eq in EX.
    destruct (sp_run Idle t) as [y|] eqn:Ey; [|discriminate].
    injection H as <-. rewrite EX. f_equal. eapply IH; [|exact Hpt|exact Ey]. exact I.
Qed.

Lemma class_pointwise c : lowtrig c = false -> upper_in_SVP9 c = sp_mem (sp_upper c) [83; 86; 80; 57].
Proof.
  intros Hl. unfold lowtrig, mem in Hl. cbn [existsb] in Hl.
  repeat (apply orb_false_iff in Hl; destruct Hl as [? Hl]).
  repeat match goal with H : (_ =? _) = false |- _ => apply N.eqb_neq in H end.
  unfold upper_in_SVP9, mem, sp_mem, sp_upper. cbn [existsb].
  destruct ((97 <=? c) && (c <=? 122)) eqn:R.
  - apply andb_true_iff in R. destruct R as [R1 R2]. apply N.leb_le in R1. apply N.leb_le in R2.
    repeat match goal with |- context [?a =? ?b] => destruct (N.eqb_spec a b); try (exfalso; lia) end; reflexivity.
  - repeat match goal with |- context [?a =? ?b] => destruct (N.eqb_spec a b); try (exfalso; lia) end; reflexivity.
Qed.

Lemma class_plain s : nolow s = true -> forallb upper_in_SVP9 s = sp_numeric (map sp_upper s).
Proof.
  induction s as [|c t IH]; [reflexivity|]. unfold nolow. cbn [forallb map]. intros H.
  apply andb_true_iff in H. destruct H as [Hc Ht]. apply negb_true_iff in Hc.
  unfold sp_numeric in *. cbn [forallb]. rewrite (class_pointwise _ Hc). f_equal. now apply IH.
Qed.

Lemma forallb_paren s : mem 40 s = true -> forallb upper_in_SVP9 s = false.
Proof.
  induction s as [|c t IH]; [discriminate|]. unfold mem. cbn [existsb forallb]. intros H.
  apply orb_true_iff in H. destruct H as [H|H].
  - apply N.eqb_eq in H. subst c. reflexivity.
  - unfold mem in IH. rewrite (IH H). apply andb_false_r.
Qed.

Lemma gen_class s v : known_bad s = false -> sp_parse s = Some v -> gen_numeric s = numeric v.
Proof.
  intros Hkb Hv. destruct (known_bad_false s Hkb) as (_ & _ & Hl & _ & _ & _ & _ & Hrep).
  unfold kb_repnum in Hrep. rewrite Hv in Hrep.
  unfold sp_parse in Hv. destruct (sp_expand s) as [e|] eqn:He; [|discriminate]. injection Hv as <-.
  destruct s as [|c t]; [discriminate|]. unfold sp_expand in He.
  unfold gen_numeric. destruct (mem 40 (c :: t)) eqn:P.
  - rewrite andb_true_r in Hrep. rewrite Hrep. now apply forallb_paren.
  - pose proof (sp_run_plain _ Idle _ I P He) as ->. cbn [sp_summary numeric].
    apply class_plain. apply existsb_false_forallb. exact Hl.
Qed.
(* ================= the decoder's classification is the specification's ================= *)
Definition signchar (c : N) : bool := mem c [43; 45; 83; 68; 67].
Definition nonS (c : N) : bool := mem c [43; 45; 68; 67].
Definition pointchar (c : N) : bool := mem c [86; 46].
Definition utext (i : item) : list N := map sp_upper (item_text i).

Definition isS (i : item) : bool := match i with Tok (E KSign t) => list_N_eqb t [83] | _ => true end.
Definition isV (i : item) : bool := match i with Tok (E KDecimal t) => list_N_eqb t [86] | _ => true end.
Definition isD9 (i : item) : bool := match i with Tok (E KDigit t) => all9 t | _ => true end.
Definition isNE (i : item) : bool := match i with Tok (E KChar _) => false | _ => true end.

Definition hd_opt (t : list N) : option N := match t with [] => None | x :: _ => Some x end.

Lemma flat_cons' i l : flat (i :: l) = utext i ++ flat l.
Proof. apply flat_cons. Qed.

(* ---- characters of a run of data characters ---- *)
Lemma cls_none (q : N -> bool) t : (forall c, incls c = true -> q c = false) ->
  forallb incls t = true -> existsb q t = false.
Proof.
  intros Hq. induction t as [|d r IH]; [reflexivity|]. cbn [forallb existsb]. intros H.
  apply andb_true_iff in H. destruct H as [Hd Hr]. now rewrite (Hq d Hd), (IH Hr).
Qed.

Lemma last_of_none p t o : existsb p t = false -> last_of p t o = o.
Proof.
  revert o. induction t as [|d r IH]; intros o; [reflexivity|]. cbn [existsb last_of]. intros H.
  apply orb_false_iff in H. destruct H as [Hd Hr]. rewrite Hd. now apply IH.
Qed.

Lemma cls_nonS c : incls c = true -> nonS c = false.
Proof. intros H. mem_split H; reflexivity. Qed.
Lemma cls_signchar c : incls c = true -> signchar c = false.
Proof. intros H. mem_split H; reflexivity. Qed.
Lemma cls_pointchar c : incls c = true -> pointchar c = false.
Proof. intros H. mem_split H; reflexivity. Qed.
Lemma cls_dot c : incls c = true -> (46 =? c) = false.
Proof. intros H. mem_split H; reflexivity. Qed.

Lemma cls_numeric t : forallb incls t = true -> sp_numeric t = all9 t.
Proof.
  unfold sp_numeric, all9. induction t as [|d r IH]; [reflexivity|]. cbn [forallb]. intros H.
  apply andb_true_iff in H. destruct H as [Hd Hr]. rewrite (IH Hr). f_equal.
  mem_split Hd; reflexivity.
Qed.

Ltac sign_texts Hwi t :=
  cbn [existsb] in Hwi;
  repeat (apply orb_true_iff in Hwi; destruct Hwi as [Hwi|Hwi]); try discriminate Hwi;
  unfold list_N_eqb in Hwi; apply andb_true_iff in Hwi;
  let Hl := fresh "Hl" in let Hv := fresh "Hv" in destruct Hwi as [Hl Hv];
  destruct t as [|? [|? [|? ?]]]; try discriminate Hl; cbn in Hv;
  repeat (apply andb_true_iff in Hv; destruct Hv as [? Hv]);
  repeat match goal with H : (_ =? _) = true |- _ => apply N.eqb_eq in H; subst end.

(* ---- what one item contributes ---- *)
Lemma item_facts i : wf_item i = true -> clean_item i = true ->
  existsb nonS (utext i) = negb (isS i) /\
  existsb (N.eqb 46) (utext i) = negb (isV i) /\
  sp_numeric (utext i) = isS i && isV i && isD9 i && isNE i /\
  (forall o, last_of signchar (utext i) o = match i with Tok (E KSign t) => hd_opt t | _ => o end) /\
  (forall o, last_of pointchar (utext i) o = match i with Tok (E KDecimal t) => hd_opt t | _ => o end).
Proof.
  intros Hwi Hci. destruct i as [[k t]|c|]; [| |discriminate].
  - unfold utext. cbn [item_text]. destruct k; cbn [wf_item wf_elt] in Hwi.
    + sign_texts Hwi t; (repeat split; try reflexivity; intros o; reflexivity).
    + destruct t as [|c0 [|]]; try discriminate. mem_split Hwi; (repeat split; try reflexivity; intros o; reflexivity).
    + destruct t as [|c0 [|]]; try discriminate. mem_split Hwi; (repeat split; try reflexivity; intros o; reflexivity).
    + rewrite (upper_cls _ Hwi). cbn [isS isV isD9 isNE andb negb].
      repeat split.
      * apply cls_none; [apply cls_nonS|exact Hwi].
      * apply cls_none; [apply cls_dot|exact Hwi].
      * rewrite andb_true_r. now apply cls_numeric.
      * intros o. apply last_of_none. apply cls_none; [apply cls_signchar|exact Hwi].
      * intros o. apply last_of_none. apply cls_none; [apply cls_pointchar|exact Hwi].
  - cbn [clean_item] in Hci. apply orb_true_iff in Hci.
    destruct Hci as [Hc|Hc]; apply N.eqb_eq in Hc; subst c;
      (repeat split; try reflexivity; intros o; reflexivity).
Qed.

Lemma last_of_app p a b o : last_of p (a ++ b) o = last_of p b (last_of p a o).
Proof. revert o. induction a as [|c a IH]; intros o; [reflexivity|]. cbn [app last_of]. apply IH. Qed.

Lemma wf_clean_cons i l : forallb wf_item (i :: l) = true -> clean (i :: l) = true ->
  wf_item i = true /\ clean_item i = true /\ forallb wf_item l = true /\ clean l = true.
Proof.
  unfold clean. cbn [forallb]. intros H1 H2. apply andb_true_iff in H1. apply andb_true_iff in H2. tauto.
Qed.

Lemma flat_nonS l : forallb wf_item l = true -> clean l = true ->
  existsb nonS (flat l) = negb (forallb isS l).
Proof.
  induction l as [|i l IH]; intros Hwf Hcl; [reflexivity|].
  destruct (wf_clean_cons _ _ Hwf Hcl) as (Hwi & Hci & Hwl & Hcl').
  destruct (item_facts i Hwi Hci) as (Fa & _).
  rewrite flat_cons', existsb_app, Fa, (IH Hwl Hcl'). cbn [forallb]. now rewrite negb_andb.
Qed.

Lemma flat_dot l : forallb wf_item l = true -> clean l = true ->
  mem 46 (flat l) = negb (forallb isV l).
Proof.
  unfold mem. induction l as [|i l IH]; intros Hwf Hcl; [reflexivity|].
  destruct (wf_clean_cons _ _ Hwf Hcl) as (Hwi & Hci & Hwl & Hcl').
  destruct (item_facts i Hwi Hci) as (_ & Fb & _).
  rewrite flat_cons', existsb_app, Fb, (IH Hwl Hcl'). cbn [forallb]. now rewrite negb_andb.
Qed.

Lemma flat_numeric l : forallb wf_item l = true -> clean l = true ->
  sp_numeric (flat l) = forallb isS l && forallb isV l && forallb isD9 l && forallb isNE l.
Proof.
  induction l as [|i l IH]; intros Hwf Hcl; [reflexivity|].
  destruct (wf_clean_cons _ _ Hwf Hcl) as (Hwi & Hci & Hwl & Hcl').
  destruct (item_facts i Hwi Hci) as (_ & _ & Fc & _).
  rewrite flat_cons'. unfold sp_numeric in *. rewrite forallb_app, Fc, (IH Hwl Hcl'). cbn [forallb].
  destruct (isS i), (isV i), (isD9 i), (isNE i), (forallb isS l), (forallb isV l), (forallb isD9 l); reflexivity.
Qed.

(* ---- the last sign / point text kept by digit_groups ---- *)
Definition kind_eqb (a b : kind) : bool :=
  match a, b with KSign, KSign | KChar, KChar | KDecimal, KDecimal | KDigit, KDigit => true | _, _ => false end.

Fixpoint last_txt (k : kind) (es : list elt) (acc : list N) : list N :=
  match es with
  | [] => acc
  | E k' t :: r => match t with
                   | [] => last_txt k r acc
                   | _ :: _ => if kind_eqb k k' then last_txt k r t else last_txt k r acc
                   end
  end.

Definition dig9 (e : elt) : bool := match e with E KDigit t => all9 t | _ => true end.

Lemma all9_app a b : all9 (a ++ b) = all9 a && all9 b.
Proof. apply forallb_app. Qed.
Lemma all9_nines k : all9 (repeat 57 k) = true.
Proof. induction k; [reflexivity|]. cbn [repeat all9 forallb]. exact IHk. Qed.

Lemma groups_inv es : forall frac g,
  g_sign (groups_loop es frac g) = last_txt KSign es (g_sign g) /\
  g_sep (groups_loop es frac g) = last_txt KDecimal es (g_sep g) /\
  all9 (g_int (groups_loop es frac g)) && all9 (g_frac (groups_loop es frac g))
    = all9 (g_int g) && all9 (g_frac g) && forallb dig9 es.
Proof.
  induction es as [|[k t] r IH]; intros frac g.
  { cbn. now rewrite andb_true_r. }
  cbn [groups_loop last_txt forallb]. destruct t as [|x t'].
  { destruct (IH frac g) as (H1 & H2 & H3). repeat split; try assumption.
    rewrite H3. destruct k; cbn [dig9 all9 forallb]; reflexivity. }
  destruct k; cbn [kind_eqb dig9].
  - match goal with |- context [groups_loop r frac ?G] => destruct (IH frac G) as (H1 & H2 & H3) end.
    cbn [g_sign g_int g_sep g_frac] in *. repeat split; assumption.
  - destruct frac;
      match goal with |- context [groups_loop r ?F ?G] => destruct (IH F G) as (H1 & H2 & H3) end;
      cbn [g_sign g_int g_sep g_frac] in *; (repeat split; try assumption);
      rewrite H3, all9_app, all9_nines, ?andb_true_r; reflexivity.
  - match goal with |- context [groups_loop r true ?G] => destruct (IH true G) as (H1 & H2 & H3) end.
    cbn [g_sign g_int g_sep g_frac] in *. repeat split; assumption.
  - destruct frac;
      match goal with |- context [groups_loop r ?F ?G] => destruct (IH F G) as (H1 & H2 & H3) end;
      cbn [g_sign g_int g_sep g_frac] in *; (repeat split; try assumption);
      rewrite H3, all9_app;
      destruct (all9 (g_int g)), (all9 (g_frac g)), (all9 (x :: t')); reflexivity.
Qed.

Definition sign_txt (x : N) : list N := if x =? 68 then [68; 66] else if x =? 67 then [67; 82] else [x].
Definition otxt_s (o : option N) : list N := match o with None => [] | Some x => sign_txt x end.
Definition otxt_p (o : option N) : list N := match o with None => [] | Some x => [x] end.

Lemma last_sign l : forallb wf_item l = true -> clean l = true ->
  forall o, last_txt KSign (elems l) (otxt_s o) = otxt_s (last_of signchar (flat l) o).
Proof.
  induction l as [|i l IH]; intros Hwf Hcl o; [reflexivity|].
  destruct (wf_clean_cons _ _ Hwf Hcl) as (Hwi & Hci & Hwl & Hcl').
  destruct (item_facts i Hwi Hci) as (_ & _ & _ & Fd & _).
  rewrite flat_cons', last_of_app, Fd.
  destruct i as [[k t]|c|]; [| |discriminate].
  - cbn [elems last_txt]. destruct t as [|x t']; [discriminate|].
    destruct k; cbn [kind_eqb]; try (apply IH; assumption).
    rewrite <- (IH Hwl Hcl'). f_equal.
    cbn [wf_item wf_elt] in Hwi. sign_texts Hwi t'; reflexivity.
  - cbn [elems]. apply IH; assumption.
Qed.

Lemma last_point l : forallb wf_item l = true -> clean l = true ->
  forall o, last_txt KDecimal (elems l) (otxt_p o) = otxt_p (last_of pointchar (flat l) o).
Proof.
  induction l as [|i l IH]; intros Hwf Hcl o; [reflexivity|].
  destruct (wf_clean_cons _ _ Hwf Hcl) as (Hwi & Hci & Hwl & Hcl').
  destruct (item_facts i Hwi Hci) as (_ & _ & _ & _ & Fe).
  rewrite flat_cons', last_of_app, Fe.
  destruct i as [[k t]|c|]; [| |discriminate].
  - cbn [elems last_txt]. destruct t as [|x t']; [discriminate|].
    destruct k; cbn [kind_eqb]; try (apply IH; assumption).
    rewrite <- (IH Hwl Hcl'). f_equal.
    cbn [wf_item wf_elt] in Hwi. destruct t'; [reflexivity|discriminate].
  - cbn [elems]. apply IH; assumption.
Qed.

Lemma dig9_items l : clean l = true -> forallb dig9 (elems l) = forallb isD9 l.
Proof.
  induction l as [|i l IH]; intros Hcl; [reflexivity|].
  unfold clean in Hcl. cbn [forallb] in Hcl. apply andb_true_iff in Hcl. destruct Hcl as [Hci Hcl].
  destruct i as [[k t]|c|]; [| |discriminate]; cbn [elems forallb isD9]; rewrite (IH Hcl); [|reflexivity].
  destruct k; reflexivity.
Qed.

Lemma edit_items l : clean l = true -> negb (has_edit (elems l)) = forallb isNE l.
Proof.
  unfold has_edit. induction l as [|i l IH]; intros Hcl; [reflexivity|].
  unfold clean in Hcl. cbn [forallb] in Hcl. apply andb_true_iff in Hcl. destruct Hcl as [Hci Hcl].
  destruct i as [[k t]|c|]; [| |discriminate]; cbn [elems forallb isNE existsb].
  - rewrite negb_orb, (IH Hcl). destruct t; [discriminate|]. destruct k; reflexivity.
  - now rewrite (IH Hcl).
Qed.

(* ---- character-level facts about last_of ---- *)
Lemma last_of_sat p e : forall o x, last_of p e o = Some x -> o = Some x \/ (p x = true /\ In x e).
Proof.
  induction e as [|c e IH]; intros o x H; [now left|].
  cbn [last_of] in H. destruct (IH _ _ H) as [H1|[H1 H2]].
  - destruct (p c) eqn:Ep; [|now left]. injection H1 as <-. right. split; [assumption|now left].
  - right. split; [assumption|now right].
Qed.

Lemma last_of_some p e : forall o, existsb p e = true -> last_of p e o <> None.
Proof.
  induction e as [|c e IH]; intros o H; [discriminate|].
  cbn [existsb] in H. cbn [last_of]. destruct (p c) eqn:Ep.
  - intros Hn. destruct (existsb p e) eqn:Ee; [now apply (IH (Some c))|].
    rewrite (last_of_none _ _ _ Ee) in Hn. discriminate.
  - apply IH. exact H.
Qed.

Lemma existsb_mono {A} (p q : A -> bool) l : (forall x, p x = true -> q x = true) ->
  existsb p l = true -> existsb q l = true.
Proof.
  intros Hpq. rewrite !existsb_exists. intros [x [H1 H2]]. exists x. split; [assumption|now apply Hpq].
Qed.

Definition signok (t : list N) : bool := list_N_eqb t [] || list_N_eqb t [83] || list_N_eqb t [115].
Definition sepok (t : list N) : bool := list_N_eqb t [86] || list_N_eqb t [118] || list_N_eqb t [].

(* the sign test of zoned_decimal on the last sign = no sign other than S, unless the trigger of finding 8 holds *)
Lemma signok_glue e :
  (existsb nonS e && is_some_N (last_of signchar e None) 83) = false ->
  signok (otxt_s (last_of signchar e None)) = negb (existsb nonS e).
Proof.
  intros H. destruct (last_of signchar e None) as [x|] eqn:E.
  - destruct (last_of_sat _ _ _ _ E) as [H0|[Hx Hin]]; [discriminate|].
    destruct (existsb nonS e) eqn:A.
    + cbn [andb is_some_N] in H. cbn [negb otxt_s]. mem_split Hx; try discriminate H; reflexivity.
    + cbn [negb otxt_s].
      assert (Hn : nonS x = false).
      { destruct (nonS x) eqn:En; [|reflexivity].
        assert (existsb nonS e = true) by (apply existsb_exists; exists x; split; assumption). congruence. }
      mem_split Hx; try discriminate Hn; reflexivity.
  - destruct (existsb nonS e) eqn:A; [|reflexivity].
    exfalso. apply (last_of_some signchar e None); [|exact E].
    eapply existsb_mono; [|exact A]. intros x Hx. mem_split Hx; reflexivity.
Qed.

Lemma sepok_glue e :
  (existsb (N.eqb 46) e && is_some_N (last_of pointchar e None) 86) = false ->
  sepok (otxt_p (last_of pointchar e None)) = negb (existsb (N.eqb 46) e).
Proof.
  intros H. destruct (last_of pointchar e None) as [x|] eqn:E.
  - destruct (last_of_sat _ _ _ _ E) as [H0|[Hx Hin]]; [discriminate|].
    destruct (existsb (N.eqb 46) e) eqn:A.
    + cbn [andb is_some_N] in H. cbn [negb otxt_p]. mem_split Hx; try discriminate H; reflexivity.
    + cbn [negb otxt_p].
      assert (Hn : (46 =? x) = false).
      { destruct (46 =? x) eqn:En; [|reflexivity].
        assert (existsb (N.eqb 46) e = true) by (apply existsb_exists; exists x; split; assumption). congruence. }
      mem_split Hx; try discriminate Hn; reflexivity.
  - destruct (existsb (N.eqb 46) e) eqn:A; [|reflexivity].
    exfalso. apply (last_of_some pointchar e None); [|exact E].
    eapply existsb_mono; [|exact A]. intros x Hx. apply N.eqb_eq in Hx. subst x. reflexivity.
Qed.

(* ---- zoned_decimal on a clean scan = the expansion is numeric (and some position exists) ---- *)
Lemma zoned_numeric l n : forallb wf_item l = true -> clean l = true -> lastonly (flat l) = false ->
  zoned_decimal (elems l) n = negb (Nat.eqb n 0) && sp_numeric (flat l).
Proof.
  intros Hwf Hcl Hlo. unfold zoned_decimal, digit_groups. cbv zeta.
  destruct (groups_inv (elems l) false {| g_sign := []; g_int := []; g_sep := []; g_frac := [] |}) as (H1 & H2 & H3).
  cbn [g_sign g_int g_sep g_frac] in H1, H2, H3.
  set (g := groups_loop (elems l) false {| g_sign := []; g_int := []; g_sep := []; g_frac := [] |}) in *.
  change [] with (otxt_s None) in H1. rewrite (last_sign l Hwf Hcl None) in H1.
  change (last_txt KDecimal (elems l) []) with (last_txt KDecimal (elems l) (otxt_p None)) in H2.
  rewrite (last_point l Hwf Hcl None) in H2.
  unfold lastonly in Hlo. apply orb_false_iff in Hlo. destruct Hlo as [Hlo1 Hlo2].
  change (fun c : N => mem c [43; 45; 68; 67]) with nonS in Hlo1.
  change (fun c : N => mem c [43; 45; 83; 68; 67]) with signchar in Hlo1.
  change (fun c : N => mem c [86; 46]) with pointchar in Hlo2.
  unfold mem in Hlo2.
  pose proof (signok_glue _ Hlo1) as Gs. pose proof (sepok_glue _ Hlo2) as Gp.
  rewrite <- H1 in Gs. rewrite <- H2 in Gp. unfold signok in Gs. unfold sepok in Gp.
  rewrite Gs, Gp. rewrite (flat_nonS l Hwf Hcl).
  pose proof (flat_dot l Hwf Hcl) as Fd. unfold mem in Fd. rewrite Fd.
  rewrite !negb_involutive.
  rewrite (flat_numeric l Hwf Hcl), <- (dig9_items l Hcl), <- (edit_items l Hcl).
  cbn [all9 forallb andb] in H3.
  destruct (all9 (g_int g)), (all9 (g_frac g)); cbn [andb] in H3; rewrite <- H3;
    destruct (negb (Nat.eqb n 0)), (forallb isS l), (forallb isV l), (negb (has_edit (elems l))); reflexivity.
Qed.

(* ---- what dec_parse returns on an accepted string outside the known findings ---- *)
Lemma dec_parse_shape s r : known_bad s = false -> dec_parse s = Some (Ok r) ->
  let l := dec_items s in
  clean l = true /\ forallb wf_item l = true /\ ends_with_tok l = true /\ sp_expand s = Some (flat l) /\
  r = {| p_elems := elems l; p_size := sp_positions (flat l); p_groups := digit_groups (elems l);
         p_zoned := zoned_decimal (elems l) (sp_positions (flat l)) |}.
Proof.
  intros Hkb Hr l. pose proof (dec_parse_ok _ _ Hr) as Hend.
  destruct (accepted_facts s Hkb Hend) as (Hcl & Hexp & Hsize). fold l in Hcl, Hexp, Hsize, Hend.
  repeat split; try assumption.
  - unfold l. rewrite dec_items_eq. apply scan_wf.
  - unfold dec_parse in Hr. rewrite dec_normalize_eq in Hr. fold l in Hr. rewrite Hend, Hsize in Hr.
    now injection Hr as <-.
Qed.

Lemma dec_class s r v : known_bad s = false -> dec_parse s = Some (Ok r) -> sp_parse s = Some v ->
  p_zoned r = numeric v.
Proof.
  intros Hkb Hr Hv. destruct (dec_parse_shape s r Hkb Hr) as (Hcl & Hwf & _ & Hexp & ->).
  destruct (known_bad_false s Hkb) as (_ & _ & _ & _ & _ & Hlo & Hzp & _).
  unfold kb_lastonly in Hlo. rewrite Hexp in Hlo.
  unfold kb_zeropos in Hzp. rewrite Hv in Hzp.
  unfold sp_parse in Hv. rewrite Hexp in Hv. injection Hv as <-.
  cbn [p_zoned sp_summary positions numeric] in *.
  rewrite (zoned_numeric _ _ Hwf Hcl Hlo). now rewrite Hzp.
Qed.

Lemma agree_class s r : known_bad s = false -> dec_parse s = Some (Ok r) -> gen_numeric s = p_zoned r.
Proof.
  intros Hkb Hr.
  destruct (strict s Hkb) as [H|(r0 & v & H1 & H2 & _)]; [rewrite H in Hr; discriminate|].
  rewrite (gen_class s v Hkb H2). symmetry. now apply (dec_class s r v).
Qed.

(* ================= digit_groups counts what the specification counts ================= *)
Definition item_count (i : item) : nat :=
  match i with Tok (E KDigit t) => length t | Tok (E KChar t) => count_star t | _ => O end.
Definition is_dec (i : item) : bool := match i with Tok (E KDecimal _) => true | _ => false end.

Lemma cls_data t : forallb incls t = true -> filter sp_data t = t.
Proof.
  induction t as [|d r IH]; [reflexivity|]. cbn [forallb filter]. intros H.
  apply andb_true_iff in H. destruct H as [Hd Hr]. rewrite (IH Hr).
  assert (Hs : sp_data d = true) by (mem_split Hd; reflexivity). now rewrite Hs.
Qed.
Lemma cls_point c : incls c = true -> sp_point c = false.
Proof. intros H. mem_split H; reflexivity. Qed.

Lemma item_facts2 i : wf_item i = true -> clean_item i = true ->
  if is_dec i then exists c, utext i = [c] /\ sp_point c = true /\ sp_data c = false
  else existsb sp_point (utext i) = false /\ length (filter sp_data (utext i)) = item_count i.
Proof.
  intros Hwi Hci. destruct i as [[k t]|c|]; [| |discriminate].
  - unfold utext. cbn [item_text is_dec item_count]. destruct k; cbn [wf_item wf_elt] in Hwi.
    + sign_texts Hwi t; split; reflexivity.
    + destruct t as [|c0 [|]]; try discriminate. mem_split Hwi; split; reflexivity.
    + destruct t as [|c0 [|]]; try discriminate. mem_split Hwi; eexists; repeat split; reflexivity.
    + rewrite (upper_cls _ Hwi). split.
      * apply cls_none; [apply cls_point|exact Hwi].
      * now rewrite (cls_data _ Hwi).
  - cbn [clean_item] in Hci. apply orb_true_iff in Hci.
    destruct Hci as [Hc|Hc]; apply N.eqb_eq in Hc; subst c; split; reflexivity.
Qed.

Lemma int_app u r : existsb sp_point u = false -> sp_int (u ++ r) = (length (filter sp_data u) + sp_int r)%nat.
Proof.
  induction u as [|c u IH]; [reflexivity|]. cbn [existsb app sp_int filter]. intros H.
  apply orb_false_iff in H. destruct H as [Hc Hu]. rewrite Hc, (IH Hu).
  destruct (sp_data c); reflexivity.
Qed.
Lemma frac_app u r : existsb sp_point u = false -> sp_frac (u ++ r) = sp_frac r.
Proof.
  induction u as [|c u IH]; [reflexivity|]. cbn [existsb app sp_frac]. intros H.
  apply orb_false_iff in H. destruct H as [Hc Hu]. now rewrite Hc, (IH Hu).
Qed.

Lemma groups_len l : forallb wf_item l = true -> clean l = true -> forall frac g,
  length (g_int (groups_loop (elems l) frac g)) =
    (length (g_int g) + (if frac then O else sp_int (flat l)))%nat /\
  length (g_frac (groups_loop (elems l) frac g)) =
    (length (g_frac g) + (if frac then length (filter sp_data (flat l)) else sp_frac (flat l)))%nat.
Proof.
  induction l as [|i l IH]; intros Hwf Hcl frac g.
  { destruct frac; cbn; split; lia. }
  destruct (wf_clean_cons _ _ Hwf Hcl) as (Hwi & Hci & Hwl & Hcl').
  pose proof (item_facts2 i Hwi Hci) as F. rewrite flat_cons'.
  specialize (IH Hwl Hcl').
  destruct i as [[k t]|c|]; [| |discriminate].
  - cbn [elems groups_loop]. destruct t as [|x t']; [discriminate|].
    destruct k; cbn [is_dec item_count] in F.
    + destruct F as [Fp Fc].
      match goal with |- context [groups_loop (elems l) frac ?G] => destruct (IH frac G) as [I1 I2] end.
      cbn [g_int g_frac] in I1, I2. rewrite I1, I2, (int_app _ _ Fp), (frac_app _ _ Fp), filter_app, app_length, Fc.
      clear - g; destruct frac; split; lia.
    + destruct F as [Fp Fc].
      destruct frac;
        match goal with |- context [groups_loop (elems l) ?F ?G] => destruct (IH F G) as [I1 I2] end;
        cbn [g_int g_frac] in I1, I2;
        rewrite I1, I2, ?(int_app _ _ Fp), ?(frac_app _ _ Fp), ?filter_app, ?app_length, ?repeat_length, ?Fc;
        clear - g; split; lia.
    + destruct F as (c & Fu & Fp & Fd). rewrite Fu.
      match goal with |- context [groups_loop (elems l) true ?G] => destruct (IH true G) as [I1 I2] end.
      cbn [g_int g_frac] in I1, I2. rewrite I1, I2. cbn [app sp_int sp_frac filter]. rewrite Fp, Fd.
      clear - g; destruct frac; split; lia.
    + destruct F as [Fp Fc].
      destruct frac;
        match goal with |- context [groups_loop (elems l) ?F ?G] => destruct (IH F G) as [I1 I2] end;
        cbn [g_int g_frac] in I1, I2;
        rewrite I1, I2, ?(int_app _ _ Fp), ?(frac_app _ _ Fp), ?filter_app, ?app_length, ?Fc;
        clear - g; split; lia.
  - cbn [elems]. cbn [is_dec item_count] in F. destruct F as [Fp Fc].
    destruct (IH frac g) as [I1 I2].
    rewrite I1, I2, (int_app _ _ Fp), (frac_app _ _ Fp), filter_app, app_length, Fc.
    clear - g; destruct frac; split; lia.
Qed.

(* the groups of a clean scan, in terms of its expansion *)
Lemma groups_flat l : forallb wf_item l = true -> clean l = true ->
  g_sign (digit_groups (elems l)) = otxt_s (last_of signchar (flat l) None) /\
  length (g_int (digit_groups (elems l))) = sp_int (flat l) /\
  length (g_frac (digit_groups (elems l))) = sp_frac (flat l).
Proof.
  intros Hwf Hcl. unfold digit_groups.
  destruct (groups_inv (elems l) false {| g_sign := []; g_int := []; g_sep := []; g_frac := [] |}) as (H1 & _).
  destruct (groups_len l Hwf Hcl false {| g_sign := []; g_int := []; g_sep := []; g_frac := [] |}) as (L1 & L2).
  cbn [g_sign g_int g_frac length] in *. repeat split; try assumption.
  rewrite H1. change [] with (otxt_s None). apply last_sign; assumption.
Qed.

(* ================= scanning an expansion again ================= *)

(* a string every character of which the decoder scanner matches or is P *)
Fixpoint vf (e : list N) : bool :=
  match e with
  | [] => true
  | c :: t =>
      if c =? 68 then match t with d :: t' => (d =? 66) && vf t' | [] => false end
      else if c =? 67 then match t with d :: t' => (d =? 82) && vf t' | [] => false end
      else okc c && vf t
  end.

Lemma okc_cons c t : okc c = true -> vf (c :: t) = vf t.
Proof. intros H. cbn [vf]. mem_split H; reflexivity. Qed.

Lemma vf_app_ok u r : forallb okc u = true -> vf r = true -> vf (u ++ r) = true.
Proof.
  induction u as [|c u IH]; intros Hu Hr; [exact Hr|]. cbn [forallb] in Hu.
  apply andb_true_iff in Hu. destruct Hu as [Hc Hu]. cbn [app]. rewrite (okc_cons _ _ Hc). now apply IH.
Qed.

Lemma cls_okc t : forallb incls t = true -> forallb okc t = true.
Proof.
  induction t as [|d r IH]; [reflexivity|]. cbn [forallb]. intros H.
  apply andb_true_iff in H. destruct H as [Hd Hr]. rewrite (IH Hr), andb_true_r. mem_split Hd; reflexivity.
Qed.

Lemma vf_flat l : forallb wf_item l = true -> clean l = true -> vf (flat l) = true.
Proof.
  induction l as [|i l IH]; intros Hwf Hcl; [reflexivity|].
  destruct (wf_clean_cons _ _ Hwf Hcl) as (Hwi & Hci & Hwl & Hcl').
  rewrite flat_cons'. specialize (IH Hwl Hcl'). set (R := flat l) in *.
  destruct i as [[k t]|c|]; [| |discriminate]; unfold utext; cbn [item_text].
  - destruct k; cbn [wf_item wf_elt] in Hwi.
    + sign_texts Hwi t; cbn; exact IH.
    + destruct t as [|c0 [|]]; try discriminate. mem_split Hwi; cbn; exact IH.
    + destruct t as [|c0 [|]]; try discriminate. mem_split Hwi; cbn; exact IH.
    + rewrite (upper_cls _ Hwi). apply vf_app_ok; [now apply cls_okc|exact IH].
  - cbn [clean_item] in Hci. apply orb_true_iff in Hci.
    destruct Hci as [Hc|Hc]; apply N.eqb_eq in Hc; subst c; cbn; exact IH.
Qed.

Lemma vf_repeat_tail t : vf t = true -> repeat_tail t = None.
Proof.
  destruct t as [|p t1]; [reflexivity|]. unfold repeat_tail.
  destruct (p =? 40) eqn:E; [|reflexivity]. apply N.eqb_eq in E. subst p. cbn. discriminate.
Qed.

Lemma vf_span t : vf t = true -> vf (snd (span incls t)) = true.
Proof.
  induction t as [|c t IH]; intros H; [reflexivity|]. cbn [span].
  destruct (incls c) eqn:Ec; [|exact H].
  assert (Hok : okc c = true) by (mem_split Ec; reflexivity).
  rewrite (okc_cons _ _ Hok) in H. specialize (IH H).
  destruct (span incls t) as [a b]. exact IH.
Qed.

Lemma span_length p t : (length (snd (span p t)) <= length t)%nat.
Proof.
  induction t as [|c t IH]; [cbn; lia|]. cbn [span]. destruct (p c); [|cbn; lia].
  destruct (span p t) as [a b]. cbn [snd length] in *. lia.
Qed.

Lemma token_cls c t : incls c = true -> repeat_tail t = None ->
  token_at false cls cls (c :: t) = Some (E KDigit (c :: fst (span incls t)), snd (span incls t)).
Proof.
  intros Hc Hr. unfold token_at. cbn [up]. cbv zeta. rewrite Hr.
  change (fun d : N => mem d cls) with incls.
  mem_split Hc; cbn; destruct (span incls t); reflexivity.
Qed.

Lemma rescan_clean f : forall e, (length e <= f)%nat -> vf e = true -> clean (dscan f e) = true.
Proof.
  induction f as [|f IH]; intros e Hlen Hv.
  { destruct e; [reflexivity|simpl in Hlen; lia]. }
  destruct e as [|c t]; [reflexivity|]. unfold dscan, clean in *. cbn [scan].
  cbn [vf] in Hv.
  destruct (c =? 68) eqn:E68.
  { apply N.eqb_eq in E68. subst c. destruct t as [|d t']; [discriminate|].
    apply andb_true_iff in Hv. destruct Hv as [Hd Hv]. apply N.eqb_eq in Hd. subst d.
    change (token_at false cls cls (68 :: 66 :: t')) with (Some (E KSign [68; 66], t')).
    cbn [forallb clean_item andb]. apply IH; [clear - Hlen; simpl in Hlen; lia|exact Hv]. }
  destruct (c =? 67) eqn:E67.
  { apply N.eqb_eq in E67. subst c. destruct t as [|d t']; [discriminate|].
    apply andb_true_iff in Hv. destruct Hv as [Hd Hv]. apply N.eqb_eq in Hd. subst d.
    change (token_at false cls cls (67 :: 82 :: t')) with (Some (E KSign [67; 82], t')).
    cbn [forallb clean_item andb]. apply IH; [clear - Hlen; simpl in Hlen; lia|exact Hv]. }
  apply andb_true_iff in Hv. destruct Hv as [Hc Hv].
  assert (Ht : forallb clean_item (scan false cls cls f t) = true).
  { apply IH; [clear - Hlen; simpl in Hlen; lia|exact Hv]. }
  destruct (incls c) eqn:Ec.
  { rewrite (token_cls c t Ec (vf_repeat_tail _ Hv)). cbn [forallb clean_item andb].
    apply IH; [|now apply vf_span].
    pose proof (span_length incls t). clear - Hlen H. simpl in Hlen. lia. }
  clear E68 E67.
  mem_split Hc; try discriminate Ec;
    first [ change (token_at false cls cls (80 :: t)) with (@None (elt * list N)); cbn [forallb clean_item andb orb]; exact Ht
          | match goal with |- context [token_at false cls cls (?k :: t)] =>
              first [ change (token_at false cls cls (k :: t)) with (Some (E KSign [k], t))
                    | change (token_at false cls cls (k :: t)) with (Some (E KChar [k], t))
                    | change (token_at false cls cls (k :: t)) with (Some (E KDecimal [k], t)) ] end;
            cbn [forallb clean_item andb]; exact Ht ].
Qed.

(* ---- acceptance: the last character decides ---- *)
Fixpoint endsP (e : list N) : bool :=
  match e with [] => false | c :: t => match t with [] => c =? 80 | _ :: _ => endsP t end end.

Lemma endsP_app a b : b <> [] -> endsP (a ++ b) = endsP b.
Proof.
  intros Hb. induction a as [|c a IH]; [reflexivity|]. cbn [app endsP].
  destruct (a ++ b) eqn:E; [|exact IH]. destruct a; [contradiction|discriminate].
Qed.

Lemma endsP_cls t : forallb incls t = true -> endsP t = false.
Proof.
  induction t as [|d r IH]; [reflexivity|]. cbn [forallb endsP]. intros H.
  apply andb_true_iff in H. destruct H as [Hd Hr]. destruct r; [mem_split Hd; reflexivity|now apply IH].
Qed.

Lemma utext_ends i : wf_item i = true -> clean_item i = true ->
  utext i <> [] /\ endsP (utext i) = negb (is_tok i).
Proof.
  intros Hwi Hci. destruct i as [[k t]|c|]; [| |discriminate].
  - unfold utext. cbn [item_text is_tok negb]. destruct k; cbn [wf_item wf_elt] in Hwi.
    + sign_texts Hwi t; split; try reflexivity; discriminate.
    + destruct t as [|c0 [|]]; try discriminate. mem_split Hwi; split; try reflexivity; discriminate.
    + destruct t as [|c0 [|]]; try discriminate. mem_split Hwi; split; try reflexivity; discriminate.
    + rewrite (upper_cls _ Hwi). split; [destruct t; [discriminate Hci|discriminate]|now apply endsP_cls].
  - cbn [clean_item] in Hci. apply orb_true_iff in Hci.
    destruct Hci as [Hc|Hc]; apply N.eqb_eq in Hc; subst c; split; try reflexivity; discriminate.
Qed.

Lemma flat_nonempty l : forallb wf_item l = true -> clean l = true -> l <> [] -> flat l <> [].
Proof.
  destruct l as [|i l]; [contradiction|]. intros Hwf Hcl _.
  destruct (wf_clean_cons _ _ Hwf Hcl) as (Hwi & Hci & _).
  destruct (utext_ends i Hwi Hci) as [Hne _]. rewrite flat_cons'.
  destruct (utext i); [contradiction|discriminate].
Qed.

Lemma ends_flat l : forallb wf_item l = true -> clean l = true -> l <> [] ->
  ends_with_tok l = negb (endsP (flat l)).
Proof.
  induction l as [|i l IH]; intros Hwf Hcl Hne; [contradiction|].
  destruct (wf_clean_cons _ _ Hwf Hcl) as (Hwi & Hci & Hwl & Hcl').
  destruct (utext_ends i Hwi Hci) as [Hu He]. rewrite flat_cons'. cbn [ends_with_tok].
  destruct l as [|j l'].
  - change (flat []) with (@nil N). rewrite app_nil_r, He. now rewrite negb_involutive.
  - rewrite endsP_app; [apply IH; [assumption|assumption|discriminate]|].
    apply flat_nonempty; [assumption|assumption|discriminate].
Qed.

(* ================= the expansion of an accepted picture is accepted and is no known finding ================= *)

Lemma vf_alpha n : forall e, (length e <= n)%nat -> vf e = true -> forallb alpha e = true.
Proof.
  induction n as [|n IH]; intros e Hlen Hv.
  { destruct e; [reflexivity|simpl in Hlen; lia]. }
  destruct e as [|c t]; [reflexivity|]. cbn [vf] in Hv. cbn [forallb].
  destruct (c =? 68) eqn:E68.
  { apply N.eqb_eq in E68. subst c. destruct t as [|d t']; [discriminate|].
    apply andb_true_iff in Hv. destruct Hv as [Hd Hv]. apply N.eqb_eq in Hd. subst d.
    cbn [forallb]. change (alpha 68) with true. change (alpha 66) with true. cbn [andb].
    apply IH; [clear - Hlen; simpl in Hlen; lia|exact Hv]. }
  destruct (c =? 67) eqn:E67.
  { apply N.eqb_eq in E67. subst c. destruct t as [|d t']; [discriminate|].
    apply andb_true_iff in Hv. destruct Hv as [Hd Hv]. apply N.eqb_eq in Hd. subst d.
    cbn [forallb]. change (alpha 67) with true. change (alpha 82) with true. cbn [andb].
    apply IH; [clear - Hlen; simpl in Hlen; lia|exact Hv]. }
  apply andb_true_iff in Hv. destruct Hv as [Hc Hv]. unfold alpha at 1. rewrite Hc. cbn [orb andb].
  apply IH; [clear - Hlen; simpl in Hlen; lia|exact Hv].
Qed.

Lemma alpha_facts c : alpha c = true -> (is_nd c && negb (ascii_digit c)) = false /\ lowtrig c = false.
Proof.
  unfold alpha, okc. intros H. apply orb_true_iff in H. destruct H as [H|H]; mem_split H; split; reflexivity.
Qed.

Lemma alpha_kb e : forallb alpha e = true -> kb_nd e = false /\ kb_lower e = false.
Proof.
  unfold kb_nd, kb_lower. induction e as [|c e IH]; [split; reflexivity|]. cbn [forallb existsb]. intros H.
  apply andb_true_iff in H. destruct H as [Hc He]. destruct (IH He) as [I1 I2].
  destruct (alpha_facts c Hc) as [F1 F2]. unfold lowtrig in F2. rewrite F1, F2, I1, I2. split; reflexivity.
Qed.

Lemma ends_elems l : ends_with_tok l = true -> elems l <> [].
Proof.
  induction l as [|i l IH]; [discriminate|]. cbn [ends_with_tok]. destruct l as [|j l'].
  - destruct i; cbn; try discriminate.
  - intros H. specialize (IH H). destruct i; cbn [elems]; [discriminate|exact IH|exact IH].
Qed.

Lemma clean_no_bad l : clean l = true -> existsb bad_skip l = false /\ existsb empty_elt (elems l) = false.
Proof.
  unfold clean. induction l as [|i l IH]; [split; reflexivity|]. cbn [forallb]. intros H.
  apply andb_true_iff in H. destruct H as [Hi Hl]. destruct (IH Hl) as [I1 I2].
  destruct i as [[k t]|c|]; [| |discriminate]; cbn [existsb elems bad_skip clean_item] in *.
  - destruct t; [discriminate|]. cbn [empty_elt orb]. split; assumption.
  - rewrite Hi. cbn [negb orb]. split; assumption.
Qed.

Lemma flat_nil_inv l : forallb wf_item l = true -> clean l = true -> flat l = [] -> l = [].
Proof.
  intros Hwf Hcl H. destruct l as [|i l]; [reflexivity|].
  exfalso. apply (flat_nonempty (i :: l) Hwf Hcl); [discriminate|exact H].
Qed.

(* everything about the second scan *)
Lemma expansion_ok s e r : known_bad s = false -> sp_expand s = Some e -> dec_parse s = Some (Ok r) ->
  known_bad e = false /\ ends_with_tok (dec_items e) = true /\ flat (dec_items e) = e /\ sp_expand e = Some e /\
  flat (dec_items s) = e.
Proof.
  intros Hkb Hexp Hr.
  destruct (dec_parse_shape s r Hkb Hr) as (Hcl & Hwf & Hend & Hexp' & _).
  rewrite Hexp in Hexp'. injection Hexp' as He.
  set (l := dec_items s) in *.
  assert (Hvf : vf e = true) by (rewrite He; now apply vf_flat).
  assert (Hnp : mem 40 e = false) by (rewrite He; now apply flat_no_paren).
  assert (Hup : map sp_upper e = e) by (rewrite He; apply flat_upper).
  assert (Hne : e <> []).
  { rewrite He. apply flat_nonempty; try assumption. now apply ends_nonempty. }
  set (l' := dec_items e).
  assert (Hcl' : clean l' = true) by (unfold l'; rewrite dec_items_eq; apply rescan_clean; [apply le_n|exact Hvf]).
  assert (Hwf' : forallb wf_item l' = true) by (unfold l'; rewrite dec_items_eq; apply scan_wf).
  assert (Hfl : flat l' = e).
  { unfold l'. rewrite dec_items_eq, flat_plain; [exact Hup|apply le_n|exact Hnp]. }
  assert (Hne' : l' <> []).
  { intros H. rewrite H in Hfl. change (flat []) with (@nil N) in Hfl. now symmetry in Hfl. }
  assert (Hend' : ends_with_tok l' = true).
  { rewrite (ends_flat l' Hwf' Hcl' Hne'), Hfl, He, <- (ends_flat l Hwf Hcl (ends_nonempty _ Hend)). exact Hend. }
  destruct (alpha_kb e (vf_alpha _ e (le_n _) Hvf)) as [Knd Klow].
  assert (Hexp2 : sp_expand e = Some e).
  { destruct e as [|c t]; [contradiction|]. unfold sp_expand.
    rewrite <- Hfl at 2. unfold l'. rewrite dec_items_eq. apply clean_expand; [apply le_n|now left| |].
    - rewrite <- dec_items_eq. exact Hcl'.
    - apply existsb_false_forallb. exact Knd. }
  destruct (known_bad_false s Hkb) as (_ & _ & _ & _ & _ & Klo & Kzp & _).
  destruct (clean_no_bad l' Hcl') as [Nb Ne].
  assert (Kb : known_bad e = false).
  { unfold known_bad, known_code.
    assert (K5 : kb_nomatch e = false).
    { unfold kb_nomatch. rewrite (items_same e Klow). fold l'.
      destruct (elems l') eqn:E; [|reflexivity]. exfalso. now apply (ends_elems l' Hend'). }
    assert (K1 : kb_skip e = false).
    { unfold kb_skip. rewrite (items_same e Klow). fold l'. now rewrite Nb, andb_false_r. }
    assert (K2 : kb_zero e = false).
    { unfold kb_zero. rewrite (items_same e Klow). fold l'. now rewrite Ne. }
    assert (K8 : kb_lastonly e = false).
    { unfold kb_lastonly in *. rewrite Hexp in Klo. now rewrite Hexp2. }
    assert (K7 : kb_zeropos e = false).
    { unfold kb_zeropos, sp_parse in *. rewrite Hexp in Kzp. now rewrite Hexp2. }
    assert (K4 : kb_repnum e = false).
    { unfold kb_repnum. destruct (sp_parse e); [|reflexivity]. now rewrite Hnp, andb_false_r. }
    now rewrite K5, Knd, Klow, K1, K2, K8, K7, K4. }
  repeat split; try assumption. now symmetry.
Qed.

Lemma dec_parse_accept e : known_bad e = false -> ends_with_tok (dec_items e) = true ->
  exists r', dec_parse e = Some (Ok r').
Proof.
  intros Hkb Hend. destruct (accepted_facts e Hkb Hend) as (_ & _ & Hsize).
  unfold dec_parse. rewrite dec_normalize_eq, Hend, Hsize. eexists. reflexivity.
Qed.

Lemma repeat_full s e r : known_bad s = false -> sp_expand s = Some e -> dec_parse s = Some (Ok r) ->
  exists r', dec_parse e = Some (Ok r') /\ p_size r' = p_size r /\
    g_sign (p_groups r') = g_sign (p_groups r) /\
    length (g_int (p_groups r')) = length (g_int (p_groups r)) /\
    length (g_frac (p_groups r')) = length (g_frac (p_groups r)) /\ p_zoned r' = p_zoned r.
Proof.
  intros Hkb Hexp Hr.
  destruct (expansion_ok s e r Hkb Hexp Hr) as (Hkb' & Hend' & Hfl' & Hexp' & Hfl).
  destruct (dec_parse_accept e Hkb' Hend') as [r' Hr']. exists r'. split; [exact Hr'|].
  destruct (dec_parse_shape s r Hkb Hr) as (Hcl & Hwf & _ & _ & ->).
  destruct (dec_parse_shape e r' Hkb' Hr') as (Hcl' & Hwf' & _ & _ & ->).
  destruct (groups_flat _ Hwf Hcl) as (G1 & G2 & G3).
  destruct (groups_flat _ Hwf' Hcl') as (G1' & G2' & G3').
  cbn [p_size p_groups p_zoned]. rewrite G1, G2, G3, G1', G2', G3', Hfl, Hfl'.
  repeat split.
  destruct (known_bad_false s Hkb) as (_ & _ & _ & _ & _ & Klo & _).
  unfold kb_lastonly in Klo. rewrite Hexp in Klo.
  rewrite (zoned_numeric _ _ Hwf' Hcl'), (zoned_numeric _ _ Hwf Hcl); rewrite ?Hfl, ?Hfl'; try assumption.
  reflexivity.
Qed.

(* the expansion stays outside the known findings *)
Lemma expansion_not_bad s e r : known_bad s = false -> sp_expand s = Some e -> dec_parse s = Some (Ok r) ->
  known_bad e = false /\ sp_expand e = Some e.
Proof. intros H1 H2 H3. destruct (expansion_ok s e r H1 H2 H3) as (K & _ & _ & X & _). now split. Qed.

(* the decoder's digit groups and class are the specification's, for every accepted string outside the findings *)
Lemma dec_summary s r v : known_bad s = false -> dec_parse s = Some (Ok r) -> sp_parse s = Some v ->
  p_size r = positions v /\ length (g_int (p_groups r)) = int_digits v /\
  length (g_frac (p_groups r)) = frac_digits v /\ p_zoned r = numeric v.
Proof.
  intros Hkb Hr Hv. pose proof (dec_class s r v Hkb Hr Hv) as Hz.
  destruct (dec_parse_shape s r Hkb Hr) as (Hcl & Hwf & _ & Hexp & E).
  destruct (groups_flat _ Hwf Hcl) as (_ & G2 & G3).
  unfold sp_parse in Hv. rewrite Hexp in Hv. injection Hv as Ev.
  rewrite E in *. cbn [p_size p_groups p_zoned] in *. rewrite <- Ev. cbn [sp_summary positions int_digits frac_digits].
  repeat split; try assumption. now rewrite <- Ev in Hz.
Qed.

Require SR.Spec.SchemaTruth.

(* ================= the bridge to the abstract pictures of the codec properties (Spec/SchemaTruth.v) ================= *)
Notation ddf := SchemaTruth.dec_digits_fuel.
Notation dec_text := SchemaTruth.dec_text.
Notation prun := SchemaTruth.run.
Notation pic_text := SchemaTruth.pic_text.

(* ---- the decimal numeral of k: ASCII digits, not empty, value k ---- *)
Lemma dd_app f : forall n acc, ddf f n acc = ddf f n [] ++ acc.
Proof.
  induction f as [|f IH]; intros n acc; [reflexivity|]. cbn [SchemaTruth.dec_digits_fuel]. cbv zeta.
  destruct (n / 10 =? 0); [reflexivity|].
  rewrite (IH (n / 10) ((48 + n mod 10) :: acc)), (IH (n / 10) [48 + n mod 10]).
  now rewrite <- app_assoc.
Qed.

Lemma cv_app n a b : cv n (a ++ b) = cv (cv n a) b.
Proof. unfold cv. apply fold_left_app. Qed.

Lemma dd_val f : forall n, (N.to_nat n < f)%nat -> cv 0 (ddf f n []) = n.
Proof.
  induction f as [|f IH]; intros n Hn; [lia|]. cbn [SchemaTruth.dec_digits_fuel]. cbv zeta.
  pose proof (N.div_mod n 10 ltac:(lia)) as Hdm.
  destruct (n / 10 =? 0) eqn:E.
  - apply N.eqb_eq in E. cbn [cv fold_left]. lia.
  - apply N.eqb_neq in E. rewrite dd_app, cv_app, IH.
    + cbn [cv fold_left]. lia.
    + assert (n / 10 < n) by (apply N.div_lt; lia). lia.
Qed.

Lemma dd_digits f : forall n acc, forallb sp_digit acc = true -> forallb sp_digit (ddf f n acc) = true.
Proof.
  induction f as [|f IH]; intros n acc Ha; [exact Ha|]. cbn [SchemaTruth.dec_digits_fuel]. cbv zeta.
  assert (Hd : forallb sp_digit ((48 + n mod 10) :: acc) = true).
  { cbn [forallb]. rewrite Ha, andb_true_r. unfold sp_digit.
    pose proof (N.mod_lt n 10 ltac:(lia)). lia. }
  destruct (n / 10 =? 0); [exact Hd|]. now apply IH.
Qed.

Lemma dd_nonempty f n acc : ddf (S f) n acc <> [].
Proof.
  cbn [SchemaTruth.dec_digits_fuel]. cbv zeta. destruct (n / 10 =? 0); [discriminate|].
  rewrite dd_app. intros H. apply app_eq_nil in H. destruct H as [_ H]. discriminate.
Qed.

Lemma dec_text_facts k :
  forallb sp_digit (dec_text k) = true /\ dec_text k <> [] /\ count_value (dec_text k) = N.of_nat k.
Proof.
  unfold SchemaTruth.dec_text. split; [now apply dd_digits|]. split; [apply dd_nonempty|].
  rewrite count_value_ascii by now apply dd_digits. apply dd_val. lia.
Qed.

Lemma span_digits ds rest : forallb sp_digit ds = true -> span is_nd (ds ++ 41 :: rest) = (ds, 41 :: rest).
Proof.
  induction ds as [|d r IH]; intros H.
  - cbn [app span]. change (is_nd 41) with false. reflexivity.
  - cbn [forallb] in H. apply andb_true_iff in H. destruct H as [Hd Hr]. cbn [app span].
    unfold is_nd at 1. change (ascii_digit d) with (sp_digit d). rewrite Hd. cbn [orb]. now rewrite (IH Hr).
Qed.

Lemma repeat_tail_count k rest : repeat_tail (40 :: dec_text k ++ 41 :: rest) = Some (N.of_nat k, rest).
Proof.
  destruct (dec_text_facts k) as (Hd & Hne & Hv). unfold repeat_tail. change (40 =? 40) with true. cbv iota.
  rewrite (span_digits _ _ Hd). destruct (dec_text k) eqn:E; [contradiction|].
  change (41 =? 41) with true. cbv iota. now rewrite Hv.
Qed.

(* ---- the scanner on a string that starts with a match ---- *)
Lemma scan_fuel_irrel ci rc uc f1 : forall f2 s, (length s <= f1)%nat -> (length s <= f2)%nat ->
  scan ci rc uc f1 s = scan ci rc uc f2 s.
Proof.
  induction f1 as [|f1 IH]; intros f2 s H1 H2.
  { destruct s; [destruct f2; reflexivity|simpl in H1; lia]. }
  destruct s as [|c t]; [destruct f2; reflexivity|].
  destruct f2 as [|f2]; [simpl in H2; lia|]. cbn [scan].
  destruct (token_at ci rc uc (c :: t)) as [[e rest]|] eqn:E.
  - f_equal. pose proof (token_at_shorter _ _ _ _ _ _ E) as Hsh.
    apply IH; clear - H1 H2 Hsh; simpl in *; lia.
  - f_equal. apply IH; clear - H1 H2; simpl in *; lia.
Qed.

Lemma items_tok s e rest : token_at false cls cls s = Some (e, rest) -> dec_items s = Tok e :: dec_items rest.
Proof.
  intros H. pose proof (token_at_shorter _ _ _ _ _ _ H) as Hsh.
  destruct s as [|c t]; [discriminate|]. rewrite !dec_items_eq. unfold dscan.
  cbn [length scan]. rewrite H. f_equal.
  apply scan_fuel_irrel; [clear - Hsh; simpl in Hsh; lia|apply le_n].
Qed.

(* what may follow a run of data characters: nothing, or a character that neither continues nor counts it *)
Definition stop (rest : list N) : bool :=
  match rest with [] => true | d :: _ => negb (incls d) && negb (d =? 40) end.

Lemma span_repeat c k rest : incls c = true -> stop rest = true ->
  span incls (repeat c k ++ rest) = (repeat c k, rest).
Proof.
  intros Hc Hs. induction k as [|k IH].
  - cbn [repeat app]. destruct rest as [|d r]; [reflexivity|]. cbn [span stop] in *.
    apply andb_true_iff in Hs. destruct Hs as [Hd _]. apply negb_true_iff in Hd. now rewrite Hd.
  - cbn [repeat app span]. now rewrite Hc, IH.
Qed.

Lemma repeat_tail_stop c k rest : incls c = true -> stop rest = true -> repeat_tail (repeat c k ++ rest) = None.
Proof.
  intros Hc Hs. unfold repeat_tail. destruct k as [|k].
  - cbn [repeat app]. destruct rest as [|d r]; [reflexivity|]. cbn [stop] in Hs.
    apply andb_true_iff in Hs. destruct Hs as [_ Hd]. apply negb_true_iff in Hd. now rewrite Hd.
  - cbn [repeat app]. now rewrite (incls_not_paren _ Hc).
Qed.

Lemma token_rep c t n rest : incls c = true -> repeat_tail t = Some (n, rest) ->
  token_at false cls cls (c :: t) = Some (E KDigit (repeat c (N.to_nat n)), rest).
Proof. intros Hc Hr. unfold token_at. cbn [up]. cbv zeta. rewrite Hr. mem_split Hc; reflexivity. Qed.

Lemma items_run c rep k rest : incls c = true -> stop rest = true -> (1 <= k)%nat ->
  dec_items (prun c rep k ++ rest) = Tok (E KDigit (repeat c k)) :: dec_items rest.
Proof.
  intros Hc Hs Hk. destruct k as [|k]; [lia|]. apply items_tok.
  unfold SchemaTruth.run. destruct rep.
  - cbn [app]. rewrite <- app_assoc. cbn [app].
    rewrite (token_rep c _ _ _ Hc (repeat_tail_count (S k) rest)), Nat2N.id. reflexivity.
  - cbn [repeat app]. rewrite (token_cls c _ Hc (repeat_tail_stop c k rest Hc Hs)).
    now rewrite (span_repeat c k rest Hc Hs).
Qed.

Lemma items_S t : dec_items (83 :: t) = Tok (E KSign [83]) :: dec_items t.
Proof. apply items_tok. reflexivity. Qed.
Lemma items_V t : dec_items (86 :: t) = Tok (E KDecimal [86]) :: dec_items t.
Proof. apply items_tok. reflexivity. Qed.

(* ---- the elements of a printed picture ---- *)

Lemma num_items s m n ri rf : (1 <= m + n)%nat ->
  dec_items (pic_text (SchemaTruth.PNum s m n ri rf)) = map Tok (num_elems s m n).
Proof.
  intros Hmn. unfold SchemaTruth.pic_text, num_elems.
  assert (Hfrac : forall n', dec_items (match n' with O => [] | S _ => 86 :: prun 57 rf n' end)
                  = map Tok (match n' with O => [] | S _ => [E KDecimal [86]; E KDigit (repeat 57 n')] end)).
  { intros [|n']; [reflexivity|]. rewrite items_V. rewrite <- (app_nil_r (prun 57 rf (S n'))).
    rewrite items_run; [reflexivity|reflexivity|reflexivity|lia]. }
  assert (Hstop : stop (match n with O => [] | S _ => 86 :: prun 57 rf n end) = true) by (destruct n; reflexivity).
  assert (Hint : dec_items (prun 57 ri m ++ match n with O => [] | S _ => 86 :: prun 57 rf n end)
                 = map Tok ((match m with O => [] | S _ => [E KDigit (repeat 57 m)] end)
                            ++ (match n with O => [] | S _ => [E KDecimal [86]; E KDigit (repeat 57 n)] end))).
  { destruct m as [|m'].
    - cbn [SchemaTruth.run app]. apply Hfrac.
    - rewrite items_run; [|reflexivity|exact Hstop|lia]. cbn [app map]. now rewrite Hfrac. }
  destruct s.
  - cbn [app]. rewrite items_S, Hint. reflexivity.
  - cbn [app]. exact Hint.
Qed.

Lemma text_items alpha k rep : (1 <= k)%nat ->
  dec_items (pic_text (SchemaTruth.PText alpha k rep)) = [Tok (E KDigit (repeat (if alpha then 65 else 88) k))].
Proof.
  intros Hk. unfold SchemaTruth.pic_text. rewrite <- (app_nil_r (prun _ rep k)).
  rewrite items_run; [reflexivity|destruct alpha; reflexivity|reflexivity|exact Hk].
Qed.

Lemma ends_map_tok es : es <> [] -> ends_with_tok (map Tok es) = true.
Proof.
  induction es as [|e es IH]; [contradiction|]. intros _. cbn [map ends_with_tok].
  destruct es as [|e' es']; [reflexivity|]. apply IH. discriminate.
Qed.
Lemma elems_map_tok es : elems (map Tok es) = es.
Proof. induction es as [|e es IH]; [reflexivity|]. cbn [map elems]. now rewrite IH. Qed.

(* ---- what Representation.parse makes of a printed picture ---- *)
Lemma size_digit c k r acc : size_loop (E KDigit (repeat c (S k)) :: r) acc = size_loop r (acc + S k)%nat.
Proof. cbn [repeat size_loop length]. now rewrite repeat_length. Qed.

Lemma size_sign r acc : size_loop (E KSign [83] :: r) acc = size_loop r (acc + 1)%nat.
Proof. reflexivity. Qed.
Lemma size_V r acc : size_loop (E KDecimal [86] :: r) acc = size_loop r (acc + 0)%nat.
Proof. reflexivity. Qed.

Lemma num_size s m n : size_loop (num_elems s m n) 0 = Ok ((if s then 1 else 0) + m + n)%nat.
Proof.
  unfold num_elems. destruct s, m as [|m], n as [|n]; cbn [app];
    repeat (rewrite size_sign || rewrite size_V || rewrite size_digit); cbn [size_loop]; f_equal; lia.
Qed.

Definition num_groups (s : bool) (m n : nat) : groups :=
  {| g_sign := if s then [83] else []; g_int := repeat 57 m;
     g_sep := match n with O => [] | S _ => [86] end; g_frac := repeat 57 n |}.

Lemma num_groups_eq s m n : digit_groups (num_elems s m n) = num_groups s m n.
Proof. destruct s, m, n; reflexivity. Qed.

Lemma num_zoned s m n : (1 <= m + n)%nat ->
  zoned_decimal (num_elems s m n) ((if s then 1 else 0) + m + n) = true.
Proof.
  intros H. unfold zoned_decimal. rewrite num_groups_eq. cbv zeta. cbn [num_groups g_sign g_int g_sep g_frac].
  rewrite !all9_nines.
  assert (H0 : Nat.eqb ((if s then 1 else 0) + m + n) 0 = false) by (apply Nat.eqb_neq; destruct s; lia).
  rewrite H0. assert (He : has_edit (num_elems s m n) = false) by (destruct s, m, n; reflexivity). rewrite He.
  destruct s, n; reflexivity.
Qed.

Lemma num_nonempty s m n : (1 <= m + n)%nat -> num_elems s m n <> [].
Proof. unfold num_elems. destruct s, m, n; cbn; try discriminate. lia. Qed.

Lemma num_parse s m n ri rf : (1 <= m + n)%nat ->
  dec_parse (pic_text (SchemaTruth.PNum s m n ri rf)) =
  Some (Ok {| p_elems := num_elems s m n; p_size := (if s then 1 else 0) + m + n;
              p_groups := num_groups s m n; p_zoned := true |}).
Proof.
  intros H. unfold dec_parse. rewrite dec_normalize_eq, (num_items s m n ri rf H).
  rewrite (ends_map_tok _ (num_nonempty s m n H)), elems_map_tok, num_size, num_groups_eq, (num_zoned s m n H).
  reflexivity.
Qed.

Lemma text_parse alpha k rep : (1 <= k)%nat ->
  dec_parse (pic_text (SchemaTruth.PText alpha k rep)) =
  Some (Ok {| p_elems := [E KDigit (repeat (text_char alpha) k)]; p_size := k;
              p_groups := {| g_sign := []; g_int := repeat (text_char alpha) k; g_sep := []; g_frac := [] |};
              p_zoned := false |}).
Proof.
  intros H. unfold dec_parse. rewrite dec_normalize_eq, (text_items alpha k rep H).
  fold (text_char alpha). destruct k as [|k]; [lia|].
  cbn [ends_with_tok is_tok elems]. rewrite size_digit. cbn [size_loop].
  assert (Hg : digit_groups [E KDigit (repeat (text_char alpha) (S k))]
               = {| g_sign := []; g_int := repeat (text_char alpha) (S k); g_sep := []; g_frac := [] |}) by reflexivity.
  assert (Hz : zoned_decimal [E KDigit (repeat (text_char alpha) (S k))] (0 + S k) = false).
  { unfold zoned_decimal. rewrite Hg. cbv zeta. cbn [g_sign g_int g_sep g_frac repeat all9 forallb].
    destruct alpha; cbn [text_char]; [change (65 =? 57) with false|change (88 =? 57) with false];
      cbn [andb]; now rewrite ?andb_false_r. }
  rewrite Hg, Hz. reflexivity.
Qed.

(* ---- the generator side on a printed picture ---- *)

Lemma digit_nolow ds : forallb sp_digit ds = true -> existsb lowtrig ds = false.
Proof.
  induction ds as [|d r IH]; [reflexivity|]. cbn [forallb existsb]. intros H.
  apply andb_true_iff in H. destruct H as [Hd Hr]. rewrite (IH Hr), orb_false_r.
  unfold sp_digit in Hd. unfold lowtrig, mem. cbn [existsb]. lia.
Qed.

Lemma repeat_nolow c k : lowtrig c = false -> existsb lowtrig (repeat c k) = false.
Proof. intros H. induction k as [|k IH]; [reflexivity|]. cbn [repeat existsb]. now rewrite H, IH. Qed.

Lemma run_nolow c rep k : lowtrig c = false -> existsb lowtrig (prun c rep k) = false.
Proof.
  intros H. unfold SchemaTruth.run. destruct k as [|k]; [reflexivity|]. destruct rep.
  - cbn [existsb]. rewrite H, existsb_app.
    destruct (dec_text_facts (S k)) as (Hd & _). rewrite (digit_nolow _ Hd). reflexivity.
  - now apply repeat_nolow.
Qed.

Lemma pic_nolow p : kb_lower (pic_text p) = false.
Proof.
  unfold kb_lower. change (fun c : N => mem c [97; 98; 99; 100; 112; 114; 115; 118; 120; 122; 383]) with lowtrig.
  destruct p as [s m n ri rf|alpha k rep]; unfold SchemaTruth.pic_text.
  - rewrite !existsb_app, (run_nolow 57 ri m) by reflexivity.
    assert (Hs : existsb lowtrig (if s then [83] else []) = false) by (destruct s; reflexivity). rewrite Hs.
    destruct n as [|n]; [reflexivity|]. cbn [existsb orb]. now rewrite (run_nolow 57 rf (S n)).
  - apply run_nolow. destruct alpha; reflexivity.
Qed.

Lemma printed_generator p es : dec_normalize (pic_text p) = Some (Ok es) -> gen_normalize (pic_text p) = Some (Ok es).
Proof.
  rewrite gen_normalize_eq, dec_normalize_eq, (items_same _ (pic_nolow p)).
  destruct (ends_with_tok (dec_items (pic_text p))) eqn:E; [|discriminate].
  intros H. injection H as <-. pose proof (ends_elems _ E) as Hne.
  destruct (elems (dec_items (pic_text p))); [contradiction|reflexivity].
Qed.

Lemma printed_elements p : pic_nonempty p = true ->
  exists es, dec_normalize (pic_text p) = Some (Ok es) /\ gen_normalize (pic_text p) = Some (Ok es) /\
             es = match p with
                  | SchemaTruth.PNum s m n _ _ => num_elems s m n
                  | SchemaTruth.PText alpha k _ => [E KDigit (repeat (text_char alpha) k)]
                  end.
Proof.
  intros H. eexists. split; [|split; [apply printed_generator|reflexivity]].
  - rewrite dec_normalize_eq. destruct p as [s m n ri rf|alpha k rep]; cbn [pic_nonempty] in H; apply Nat.leb_le in H.
    + rewrite (num_items s m n ri rf H), (ends_map_tok _ (num_nonempty s m n H)), elems_map_tok. reflexivity.
    + rewrite (text_items alpha k rep H). reflexivity.
  - rewrite dec_normalize_eq. destruct p as [s m n ri rf|alpha k rep]; cbn [pic_nonempty] in H; apply Nat.leb_le in H.
    + rewrite (num_items s m n ri rf H), (ends_map_tok _ (num_nonempty s m n H)), elems_map_tok. reflexivity.
    + rewrite (text_items alpha k rep H). reflexivity.
Qed.

(* finding 4, exactly: the generator calls a printed numeric picture numeric iff no digit run is written with a count *)
Lemma run_svp9 rep k : forallb upper_in_SVP9 (prun 57 rep k) = negb (rep && negb (Nat.eqb k 0)).
Proof.
  unfold SchemaTruth.run. destruct k as [|k]; [now rewrite andb_false_r|]. destruct rep; [reflexivity|].
  cbn [andb negb]. induction (S k) as [|j IH]; [reflexivity|]. cbn [repeat forallb]. exact IH.
Qed.

Lemma run_nonempty c rep k : (1 <= k)%nat -> prun c rep k <> [].
Proof. destruct k as [|k]; [lia|]. intros _. unfold SchemaTruth.run. destruct rep; discriminate. Qed.

Lemma gen_numeric_forallb s : s <> [] -> gen_numeric s = forallb upper_in_SVP9 s.
Proof. destruct s; [contradiction|reflexivity]. Qed.

Lemma printed_numeric_class s m n ri rf : (1 <= m + n)%nat ->
  gen_numeric (pic_text (SchemaTruth.PNum s m n ri rf)) = negb (SchemaTruth.written_with_repeat (SchemaTruth.PNum s m n ri rf)).
Proof.
  intros H. rewrite gen_numeric_forallb.
  - unfold SchemaTruth.pic_text, SchemaTruth.written_with_repeat. rewrite !forallb_app, run_svp9.
    assert (Hs : forallb upper_in_SVP9 (if s then [83] else []) = true) by (destruct s; reflexivity). rewrite Hs.
    rewrite negb_orb. cbn [andb]. f_equal.
    destruct n as [|n]; [now rewrite andb_false_r|]. cbn [forallb]. rewrite run_svp9. reflexivity.
  - unfold SchemaTruth.pic_text. intros E. apply app_eq_nil in E. destruct E as [_ E].
    apply app_eq_nil in E. destruct E as [E1 E2].
    destruct m as [|m]; [|now apply (run_nonempty 57 ri (S m)) in E1; [|lia]].
    destruct n as [|n]; [lia|discriminate].
Qed.

Lemma printed_text_class alpha k rep : (1 <= k)%nat -> gen_numeric (pic_text (SchemaTruth.PText alpha k rep)) = false.
Proof.
  intros H. destruct k as [|k]; [lia|]. unfold SchemaTruth.pic_text, SchemaTruth.run.
  destruct rep, alpha; reflexivity.
Qed.

(* ================= the decoder half under the decoder's own findings only ================= *)

Lemma kb_dec_weaker s : known_bad s = false -> kb_dec s = false.
Proof.
  intros H. destruct (known_bad_false s H) as (_ & Hnd & _ & Hskip & Hzero & Hlo & Hzp & _).
  unfold kb_skip in Hskip. apply orb_false_iff in Hskip. destruct Hskip as [Hskip _].
  unfold kb_zero in Hzero. apply orb_false_iff in Hzero. destruct Hzero as [Hzero _].
  unfold kb_dec. now rewrite Hnd, Hskip, Hzero, Hlo, Hzp.
Qed.

Lemma kb_dec_false s : kb_dec s = false ->
  kb_nd s = false /\ (ends_with_tok (dec_items s) && existsb bad_skip (dec_items s)) = false /\
  existsb empty_elt (elems (dec_items s)) = false /\ kb_lastonly s = false /\ kb_zeropos s = false.
Proof.
  unfold kb_dec. intros H. repeat (apply orb_false_iff in H; destruct H as [H ?]). repeat split; assumption.
Qed.

Lemma dec_summary_dec s r : kb_dec s = false -> dec_parse s = Some (Ok r) ->
  exists v, sp_parse s = Some v /\ p_size r = positions v /\ length (g_int (p_groups r)) = int_digits v /\
            length (g_frac (p_groups r)) = frac_digits v /\ p_zoned r = numeric v /\
            forallb (fun c => negb (sp_foreign c)) s = true.
Proof.
  intros Hkb Hr. destruct (kb_dec_false s Hkb) as (Hnd & Hskip & Hzero & Hlo & Hzp).
  pose proof (dec_parse_ok _ _ Hr) as Hend. rewrite Hend in Hskip. cbn [andb] in Hskip.
  pose proof (scan_no_fuel false cls cls (length s) s (le_n _)) as Hfuel.
  set (l := dec_items s) in *.
  assert (Hcl : clean l = true) by (apply clean_of; assumption).
  assert (Hwf : forallb wf_item l = true) by (unfold l; rewrite dec_items_eq; apply scan_wf).
  assert (Hnond : nond s = true) by (apply existsb_false_forallb; exact Hnd).
  assert (Hexp : sp_expand s = Some (flat l)).
  { destruct s as [|c t]; [discriminate|]. unfold sp_expand, l. rewrite dec_items_eq.
    apply clean_expand; [apply le_n|now left|exact Hcl|exact Hnond]. }
  pose proof (size_clean l Hwf Hcl 0%nat) as Hsize. cbn [Nat.add] in Hsize.
  unfold dec_parse in Hr. rewrite dec_normalize_eq in Hr. fold l in Hr. rewrite Hend, Hsize in Hr. injection Hr as <-.
  exists (sp_summary (flat l)). unfold sp_parse. rewrite Hexp.
  destruct (groups_flat l Hwf Hcl) as (_ & G2 & G3).
  unfold kb_lastonly in Hlo. rewrite Hexp in Hlo.
  unfold kb_zeropos, sp_parse in Hzp. rewrite Hexp in Hzp. cbn [option_map sp_summary positions] in Hzp.
  cbn [option_map p_size p_groups p_zoned sp_summary positions int_digits frac_digits numeric].
  repeat split; try assumption.
  - rewrite (zoned_numeric l _ Hwf Hcl Hlo). now rewrite Hzp.
  - destruct s as [|c t]; [reflexivity|]. unfold sp_expand in Hexp. eapply sp_no_foreign; [|exact Hexp]. exact I.
Qed.

(* ---- the statements Props/C13.v exports for printed pictures ---- *)
Lemma printed_numeric s m n ri rf : (1 <= m + n)%nat ->
  exists r, dec_parse (pic_text (SchemaTruth.PNum s m n ri rf)) = Some (Ok r) /\
    p_size r = ((if s then 1 else 0) + m + n)%nat /\
    g_sign (p_groups r) = (if s then [83] else []) /\
    length (g_int (p_groups r)) = m /\ length (g_frac (p_groups r)) = n /\
    g_int (p_groups r) = repeat 57 m /\ g_frac (p_groups r) = repeat 57 n /\
    p_zoned r = true.
Proof.
  intros H. eexists. split; [exact (num_parse s m n ri rf H)|].
  cbn [p_size p_groups p_zoned num_groups g_sign g_int g_frac]. rewrite !repeat_length. repeat split; reflexivity.
Qed.

Lemma printed_text alpha k rep : (1 <= k)%nat ->
  exists r, dec_parse (pic_text (SchemaTruth.PText alpha k rep)) = Some (Ok r) /\
    p_size r = k /\ p_zoned r = false /\ g_sign (p_groups r) = [] /\ g_frac (p_groups r) = [].
Proof.
  intros H. eexists. split; [exact (text_parse alpha k rep H)|]. repeat split; reflexivity.
Qed.

Lemma wf_pic_nonempty p : SchemaTruth.wf_pic p = true -> pic_nonempty p = true.
Proof.
  destruct p as [s m n ri rf|alpha k rep]; cbn [SchemaTruth.wf_pic pic_nonempty]; intros H;
    [apply andb_true_iff in H; tauto|exact H].
Qed.
