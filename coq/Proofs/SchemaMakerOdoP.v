(* C15, documents with maxItemsDependsOn: lemmas for Props/C15c.v.
   The model (Model/SchemaMaker.v [walk]) binds the counter of a depending array AT ONCE, from the
   name cache as it stands when the array's items have been walked; an unknown name is a ValueError
   there and then (no fix-up).  So a counter is found exactly when the sub-schema bearing its anchor
   has been written to the cache already: Spec/JsonDocOdo.v [declared]. *)
From Coq Require Import ZArith NArith List Bool Lia Arith.
Import ListNotations.
Require Import SR.Base.Res SR.Spec.JsonDoc SR.Spec.JsonDocOdo SR.Gen.SchemaMakerParams SR.Model.SchemaMaker
  SR.Proofs.SchemaMakerP.
(* The definitions of this development that occur in theorem statements (Props/) live in Spec/SchemaMakerOdoWitness.v (audit item G1).
   The abbreviations keep the qualified names SchemaMakerOdoP.name of other files resolving; they are parsing-only aliases. *)
Require Export SR.Spec.SchemaMakerOdoWitness.
Notation mk_tab := SR.Spec.SchemaMakerOdoWitness.mk_tab (only parsing).
Notation odo_backward := SR.Spec.SchemaMakerOdoWitness.odo_backward (only parsing).
Notation odo_forward := SR.Spec.SchemaMakerOdoWitness.odo_forward (only parsing).
Notation odo_inside := SR.Spec.SchemaMakerOdoWitness.odo_inside (only parsing).
Notation odo_self := SR.Spec.SchemaMakerOdoWitness.odo_self (only parsing).
Notation odo_ancestor := SR.Spec.SchemaMakerOdoWitness.odo_ancestor (only parsing).
Notation odo_dangling := SR.Spec.SchemaMakerOdoWitness.odo_dangling (only parsing).
Notation odo_mixed := SR.Spec.SchemaMakerOdoWitness.odo_mixed (only parsing).

(* ------------------------------------------------------------------ anchor names of a node list *)

Definition anames (ns : list dnode) : list str := map fst (flat_map anchor_entry ns).

Lemma anames_app a b : anames (a ++ b) = anames a ++ anames b.
Proof. unfold anames. rewrite flat_map_app, map_app. reflexivity. Qed.

Lemma anames_cons n ns : anames (n :: ns) = map fst (anchor_entry n) ++ anames ns.
Proof. unfold anames. cbn [flat_map]. rewrite map_app. reflexivity. Qed.

Lemma anames_rp_all :
  (forall d rp rp', anames (nodes d rp) = anames (nodes d rp')) /\
  (forall l rp rp' n n', anames (nodes_alts l rp n) = anames (nodes_alts l rp' n')) /\
  (forall l rp rp' n n', anames (nodes_props l rp n) = anames (nodes_props l rp' n')).
Proof.
  apply js_triple_ind.
  - intros sc o i p IHo IHi IHp rp rp'. rewrite !nodes_node, !anames_cons. f_equal.
    + unfold anchor_entry. simpl. destruct (k_anchor sc); reflexivity.
    + destruct (shape_kw sc o i p); try reflexivity.
      * destruct i as [|x]; [reflexivity|apply (IHi x eq_refl)].
      * destruct i as [|x]; [reflexivity|apply (IHi x eq_refl)].
      * destruct p as [|l]; [reflexivity|apply (IHp l eq_refl)].
      * destruct o as [|l]; [reflexivity|apply (IHo l eq_refl)].
  - reflexivity.
  - intros x r IHx IHr rp rp' n n'. cbn [nodes_alts]. rewrite !anames_app.
    rewrite (IHx (n :: rp) (n' :: rp')), (IHr rp rp' (S n) (S n')). reflexivity.
  - reflexivity.
  - intros k x r IHx IHr rp rp' n n'. cbn [nodes_props]. rewrite !anames_app.
    rewrite (IHx (n :: rp) (n' :: rp')), (IHr rp rp' (S n) (S n')). reflexivity.
Qed.

Lemma anchors_in_nodes d rp : anchors_in d = anames (nodes d rp).
Proof. destruct anames_rp_all as (H & _ & _). exact (H d [] rp). Qed.

Lemma anames_bears ns y : In y (anames ns) -> exists e, In e ns /\ k_anchor (snd (fst e)) = Some y.
Proof.
  unfold anames. intros H. apply in_map_iff in H. destruct H as ([a t] & <- & H).
  apply in_flat_map in H. destruct H as (e & He & Ha). exists e. split; [exact He|].
  unfold anchor_entry in Ha. destruct (k_anchor (snd (fst e))) as [b|]; [|contradiction].
  destruct Ha as [Ha|[]]. injection Ha as -> _. reflexivity.
Qed.

Lemma bears_anames ns e y : In e ns -> k_anchor (snd (fst e)) = Some y -> In y (anames ns).
Proof.
  intros He Ha. unfold anames. apply in_map_iff. exists (y, fst (fst e)). split; [reflexivity|].
  apply in_flat_map. exists e. split; [exact He|]. unfold anchor_entry. rewrite Ha. left. reflexivity.
Qed.

Lemma In_fst_lookup {T} x (l : list (str * T)) : In x (map fst l) -> lookup x l <> None.
Proof.
  intros H. apply in_map_iff in H. destruct H as ([k v] & E & H). simpl in E. subst k.
  eapply In_lookup_some. exact H.
Qed.

Lemma lookup_some_In {T} x (l : list (str * T)) : lookup x l <> None -> exists t, In (x, t) l.
Proof.
  intros H. destruct (lookup x l) as [t|] eqn:E; [|congruence]. exists t. apply lookup_In. exact E.
Qed.

(* ------------------------------------------------------------------ unfolding lemmas *)

Lemma declared_node sc o i p seen :
  declared (Node sc o i p) seen =
  match shape_kw sc o i p with
  | KOneOf => match o with OASome l => declared_alts l seen | OANone => true end
  | KArray => match i with OJSome x => declared x seen | OJNone => true end
  | KDepends =>
      match i with
      | OJSome x =>
          declared x seen &&
          match ref_name (k_mido sc) with
          | Some name => mem name (anchors_in x ++ seen)
          | None => true
          end
      | OJNone => true
      end
  | KObject => match p with OPSome l => declared_props l seen | OPNone => true end
  | _ => true
  end.
Proof. reflexivity. Qed.

(* ------------------------------------------------------------------ what the cache holds *)

(* every name of [seen] is a key of the cache *)
Definition covers (seen : list str) (c : cache) : Prop := forall x, In x seen -> lookup x c <> None.

(* among the names of R the cache has no key outside [seen] *)
Definition keys_in (R seen : list str) (c : cache) : Prop :=
  forall x, In x R -> lookup x c <> None -> In x seen.

(* no sub-schema without $anchor has a cache key in R *)
Definition unshadowed (R : list str) (ns : list dnode) : Prop :=
  forall e, In e ns -> k_anchor (snd (fst e)) = None -> ~ In (cache_key (snd (fst e))) R.

Lemma covers_after ns tg c fx c2 fx2 seen :
  inv ns tg c fx c2 fx2 -> covers seen c -> covers (anames ns ++ seen) c2.
Proof.
  intros (A1 & _) Hc x Hx. apply in_app_iff in Hx. destruct Hx as [Hx|Hx].
  - destruct (anames_bears _ _ Hx) as (e & He & Ha).
    apply (In_lookup_some x c2 (fst (fst e))). apply A1. right.
    apply in_map_iff. exists e. split; [|exact He].
    unfold entry, cache_key. rewrite Ha. reflexivity.
  - destruct (lookup_some_In _ _ (Hc x Hx)) as (t & Ht).
    apply (In_lookup_some x c2 t). apply A1. left. exact Ht.
Qed.

Lemma keys_after R ns tg c fx c2 fx2 seen :
  inv ns tg c fx c2 fx2 -> unshadowed R ns -> keys_in R seen c -> keys_in R (anames ns ++ seen) c2.
Proof.
  intros (A1 & _) Hu Hk x Hx Hl. apply in_app_iff.
  destruct (lookup_some_In _ _ Hl) as (t & Ht). apply A1 in Ht. destruct Ht as [Ht|Ht].
  - right. apply Hk; [exact Hx|]. eapply In_lookup_some. exact Ht.
  - left. apply in_map_iff in Ht. destruct Ht as (e & Ee & He).
    unfold entry in Ee. injection Ee as Ek _.
    destruct (k_anchor (snd (fst e))) as [a|] eqn:Ea.
    + unfold cache_key in Ek. rewrite Ea in Ek. subst a. eapply bears_anames; eassumption.
    + exfalso. apply (Hu e He Ea). rewrite Ek. exact Hx.
Qed.

Lemma unshadowed_tail R n ns : unshadowed R (n :: ns) -> unshadowed R ns.
Proof. intros H e He. apply H. right. exact He. Qed.
Lemma unshadowed_app_l R a b : unshadowed R (a ++ b) -> unshadowed R a.
Proof. intros H e He. apply H. apply in_or_app. left. exact He. Qed.
Lemma unshadowed_app_r R a b : unshadowed R (a ++ b) -> unshadowed R b.
Proof. intros H e He. apply H. apply in_or_app. right. exact He. Qed.

(* ------------------------------------------------------------------ declared counters: the walk succeeds *)

Definition tot_js (d : js) : Prop :=
  wf d = true -> forall seen rp c fx, declared d seen = true -> covers seen c ->
  exists r, walk d rp c fx = Ok r.
Definition tot_alts (l : alts) : Prop :=
  wf_alts l = true -> forall seen rp n c fx, declared_alts l seen = true -> covers seen c ->
  exists r, walk_alts l rp n c fx = Ok r.
Definition tot_props (l : props) : Prop :=
  wf_props l = true -> forall seen rp n c fx, declared_props l seen = true -> covers seen c ->
  exists r, walk_props l rp n c fx = Ok r.

Lemma walk_covers d rp c fx s c1 fx1 seen :
  walk d rp c fx = Ok (s, c1, fx1) -> covers seen c -> covers (anchors_in d ++ seen) c1.
Proof.
  intros E Hc. destruct walk_ok_all as (Hj & _ & _).
  destruct (Hj d _ _ _ _ _ _ E) as [_ I]. rewrite (anchors_in_nodes d rp).
  eapply covers_after; eassumption.
Qed.

Lemma walk_declared_total_all :
  (forall d, tot_js d) /\ (forall l, tot_alts l) /\ (forall l, tot_props l).
Proof.
  apply js_triple_ind.
  - intros sc o i p IHo IHi IHp Hwf seen rp c fx Hd Hc.
    rewrite wf_node in Hwf. rewrite declared_node in Hd. rewrite walk_node_eq.
    destruct (nonempty_alts o) eqn:Ho.
    { assert (Sh : shape_kw sc o i p = KOneOf) by (unfold shape_kw; rewrite Ho; reflexivity).
      rewrite Sh in *. destruct o as [|l]; [discriminate|].
      destruct (IHo l eq_refl Hwf seen rp 0%nat c fx Hd Hc) as [[[ss c1] fx1] E]. rewrite E.
      eexists. reflexivity. }
    destruct (nonempty_str (k_ref sc)) eqn:Hr.
    { assert (Sh : shape_kw sc o i p = KRef) by (unfold shape_kw; rewrite Ho, Hr; reflexivity).
      rewrite Sh in *. unfold hash_prefixed in Hwf.
      destruct (ref_name (k_ref sc)) as [name|]; [|discriminate].
      destruct (lookup name c); eexists; reflexivity. }
    destruct (k_type sc) as [t|] eqn:Et.
    2: { exfalso. unfold shape_kw in Hwf. rewrite Ho, Hr, Et in Hwf. discriminate. }
    destruct (is_atomic t) eqn:Ha.
    { eexists. reflexivity. }
    destruct (str_eqb t s_array || has_items i) eqn:Harr.
    { destruct (k_mido sc) as [m|] eqn:Em.
      - assert (Sh : shape_kw sc o i p = KDepends)
          by (unfold shape_kw; rewrite Ho, Hr, Et, Ha, Harr, Em; reflexivity).
        rewrite Sh in *. destruct i as [|x]; [discriminate|].
        apply andb_true_iff in Hwf. destruct Hwf as [Hx Hm].
        apply andb_true_iff in Hd. destruct Hd as [Hdx Hdm].
        unfold hash_prefixed in Hm. unfold after_array. rewrite Em.
        destruct (IHi x eq_refl Hx seen (0%nat :: rp) c fx Hdx Hc) as [[[it c1] fx1] E]. rewrite E.
        destruct (ref_name (Some m)) as [name|]; [|discriminate].
        pose proof (walk_covers _ _ _ _ _ _ _ _ E Hc) as Hc1.
        apply mem_In in Hdm. specialize (Hc1 name Hdm).
        destruct (lookup name c1); [eexists; reflexivity|congruence].
      - assert (Sh : shape_kw sc o i p = KArray)
          by (unfold shape_kw; rewrite Ho, Hr, Et, Ha, Harr, Em; reflexivity).
        rewrite Sh in *. destruct i as [|x]; [discriminate|].
        unfold after_array. rewrite Em.
        destruct (IHi x eq_refl Hwf seen (0%nat :: rp) c fx Hd Hc) as [[[it c1] fx1] E]. rewrite E.
        eexists. reflexivity. }
    destruct (str_eqb t s_object || has_props p) eqn:Hobj.
    2: { exfalso. unfold shape_kw in Hwf. rewrite Ho, Hr, Et, Ha, Harr, Hobj in Hwf. discriminate. }
    assert (Sh : shape_kw sc o i p = KObject)
      by (unfold shape_kw; rewrite Ho, Hr, Et, Ha, Harr, Hobj; reflexivity).
    rewrite Sh in *. destruct p as [|l].
    + simpl. eexists. reflexivity.
    + apply andb_true_iff in Hwf. destruct Hwf as [_ Hl]. simpl props_or_nil.
      destruct (IHp l eq_refl Hl seen rp 0%nat c fx Hd Hc) as [[[ps c1] fx1] E]. rewrite E.
      eexists. reflexivity.
  - intros _ seen rp n c fx _ _. eexists. reflexivity.
  - intros x r IHx IHr Hwf seen rp n c fx Hd Hc. cbn [wf_alts] in Hwf. cbn [declared_alts] in Hd.
    apply andb_true_iff in Hwf. destruct Hwf as [Hx Hr].
    apply andb_true_iff in Hd. destruct Hd as [Hdx Hdr]. cbn [walk_alts].
    destruct (IHx Hx seen (n :: rp) c fx Hdx Hc) as [[[s c1] fx1] E]. rewrite E.
    pose proof (walk_covers _ _ _ _ _ _ _ _ E Hc) as Hc1.
    destruct (IHr Hr _ rp (S n) c1 fx1 Hdr Hc1) as [[[ss c2] fx2] E2]. rewrite E2.
    eexists. reflexivity.
  - intros _ seen rp n c fx _ _. eexists. reflexivity.
  - intros k x r IHx IHr Hwf seen rp n c fx Hd Hc. cbn [wf_props] in Hwf. cbn [declared_props] in Hd.
    apply andb_true_iff in Hwf. destruct Hwf as [Hx Hr].
    apply andb_true_iff in Hd. destruct Hd as [Hdx Hdr]. cbn [walk_props].
    destruct (IHx Hx seen (n :: rp) c fx Hdx Hc) as [[[s c1] fx1] E]. rewrite E.
    pose proof (walk_covers _ _ _ _ _ _ _ _ E Hc) as Hc1.
    destruct (IHr Hr _ rp (S n) c1 fx1 Hdr Hc1) as [[[ss c2] fx2] E2]. rewrite E2.
    eexists. reflexivity.
Qed.

(* ------------------------------------------------------------------ the walk succeeds: the counters were declared *)

Definition refs_in (R : list str) (ns : list dnode) : Prop :=
  forall x, In x (flat_map ref_entry ns) -> In x R.

Lemma refs_in_tail R n ns : refs_in R (n :: ns) -> refs_in R ns.
Proof. intros H x Hx. apply H. cbn [flat_map]. apply in_or_app. right. exact Hx. Qed.
Lemma refs_in_app_l R a b : refs_in R (a ++ b) -> refs_in R a.
Proof. intros H x Hx. apply H. rewrite flat_map_app. apply in_or_app. left. exact Hx. Qed.
Lemma refs_in_app_r R a b : refs_in R (a ++ b) -> refs_in R b.
Proof. intros H x Hx. apply H. rewrite flat_map_app. apply in_or_app. right. exact Hx. Qed.

Definition dec_js (d : js) : Prop :=
  forall R seen rp c fx s c2 fx2, walk d rp c fx = Ok (s, c2, fx2) ->
  unshadowed R (nodes d rp) -> refs_in R (nodes d rp) -> keys_in R seen c -> declared d seen = true.
Definition dec_alts (l : alts) : Prop :=
  forall R seen rp n c fx ss c2 fx2, walk_alts l rp n c fx = Ok (ss, c2, fx2) ->
  unshadowed R (nodes_alts l rp n) -> refs_in R (nodes_alts l rp n) -> keys_in R seen c ->
  declared_alts l seen = true.
Definition dec_props (l : props) : Prop :=
  forall R seen rp n c fx ps c2 fx2, walk_props l rp n c fx = Ok (ps, c2, fx2) ->
  unshadowed R (nodes_props l rp n) -> refs_in R (nodes_props l rp n) -> keys_in R seen c ->
  declared_props l seen = true.

Lemma walk_keys R d rp c fx s c1 fx1 seen :
  walk d rp c fx = Ok (s, c1, fx1) -> unshadowed R (nodes d rp) -> keys_in R seen c ->
  keys_in R (anchors_in d ++ seen) c1.
Proof.
  intros E Hu Hk. destruct walk_ok_all as (Hj & _ & _).
  destruct (Hj d _ _ _ _ _ _ E) as [_ I]. rewrite (anchors_in_nodes d rp).
  eapply keys_after; eassumption.
Qed.

Lemma walk_ok_declared_all :
  (forall d, dec_js d) /\ (forall l, dec_alts l) /\ (forall l, dec_props l).
Proof.
  apply js_triple_ind.
  - intros sc o i p IHo IHi IHp R seen rp c fx s c2 fx2 H Hu Hr Hk.
    rewrite walk_node_eq in H. rewrite nodes_node in Hu, Hr. rewrite declared_node.
    destruct (nonempty_alts o) eqn:Ho.
    { assert (Sh : shape_kw sc o i p = KOneOf) by (unfold shape_kw; rewrite Ho; reflexivity).
      rewrite Sh in *. destruct o as [|l]; [discriminate|].
      destruct (walk_alts l rp 0 c fx) as [[[ss c1] fx1]|e] eqn:E; [|discriminate].
      eapply (IHo l eq_refl R); [exact E|eapply unshadowed_tail; exact Hu|eapply refs_in_tail; exact Hr|exact Hk]. }
    destruct (nonempty_str (k_ref sc)) eqn:Hrf.
    { assert (Sh : shape_kw sc o i p = KRef) by (unfold shape_kw; rewrite Ho, Hrf; reflexivity).
      rewrite Sh. reflexivity. }
    destruct (k_type sc) as [t|] eqn:Et; [|discriminate].
    destruct (is_atomic t) eqn:Ha.
    { assert (Sh : shape_kw sc o i p = KAtomic) by (unfold shape_kw; rewrite Ho, Hrf, Et, Ha; reflexivity).
      rewrite Sh. reflexivity. }
    destruct (str_eqb t s_array || has_items i) eqn:Harr.
    { destruct i as [|x]; [discriminate|].
      unfold after_array in H.
      destruct (walk x (0%nat :: rp) c fx) as [[[it c1] fx1]|e] eqn:E; [|discriminate].
      destruct (k_mido sc) as [m|] eqn:Em.
      - assert (Sh : shape_kw sc o (OJSome x) p = KDepends)
          by (unfold shape_kw; rewrite Ho, Hrf, Et, Ha, Harr, Em; reflexivity).
        rewrite Sh in *.
        destruct (ref_name (Some m)) as [name|] eqn:En; [|discriminate].
        destruct (lookup name c1) as [tg|] eqn:El; [|discriminate].
        assert (Dx : declared x seen = true).
        { eapply (IHi x eq_refl R); [exact E|eapply unshadowed_tail; exact Hu|eapply refs_in_tail; exact Hr|exact Hk]. }
        rewrite Dx. cbn [andb].
        assert (HR : In name R).
        { apply Hr. cbn [flat_map]. apply in_or_app. left.
          unfold ref_entry. simpl. rewrite Em, En. left. reflexivity. }
        pose proof (walk_keys R _ _ _ _ _ _ _ seen E (unshadowed_tail _ _ _ Hu) Hk) as K.
        apply mem_In. apply (K name HR). rewrite El. discriminate.
      - assert (Sh : shape_kw sc o (OJSome x) p = KArray)
          by (unfold shape_kw; rewrite Ho, Hrf, Et, Ha, Harr, Em; reflexivity).
        rewrite Sh in *.
        eapply (IHi x eq_refl R); [exact E|eapply unshadowed_tail; exact Hu|eapply refs_in_tail; exact Hr|exact Hk]. }
    destruct (str_eqb t s_object || has_props p) eqn:Hobj; [|discriminate].
    assert (Sh : shape_kw sc o i p = KObject)
      by (unfold shape_kw; rewrite Ho, Hrf, Et, Ha, Harr, Hobj; reflexivity).
    rewrite Sh in *. destruct p as [|l]; [reflexivity|]. simpl props_or_nil in H.
    destruct (walk_props l rp 0 c fx) as [[[ps c1] fx1]|e] eqn:E; [|discriminate].
    eapply (IHp l eq_refl R); [exact E|eapply unshadowed_tail; exact Hu|eapply refs_in_tail; exact Hr|exact Hk].
  - intros R seen rp n c fx ss c2 fx2 _ _ _ _. reflexivity.
  - intros x r IHx IHr R seen rp n c fx ss c2 fx2 H Hu Hr Hk. cbn [walk_alts] in H.
    cbn [nodes_alts] in Hu, Hr. cbn [declared_alts].
    destruct (walk x (n :: rp) c fx) as [[[s c1] fx1]|e] eqn:E1; [|discriminate].
    destruct (walk_alts r rp (S n) c1 fx1) as [[[ss' c3] fx3]|e] eqn:E2; [|discriminate].
    rewrite (IHx R seen _ _ _ _ _ _ E1 (unshadowed_app_l _ _ _ Hu) (refs_in_app_l _ _ _ Hr) Hk). cbn [andb].
    eapply (IHr R); [exact E2|eapply unshadowed_app_r; exact Hu|eapply refs_in_app_r; exact Hr|].
    eapply walk_keys; [exact E1|eapply unshadowed_app_l; exact Hu|exact Hk].
  - intros R seen rp n c fx ss c2 fx2 _ _ _ _. reflexivity.
  - intros k x r IHx IHr R seen rp n c fx ss c2 fx2 H Hu Hr Hk. cbn [walk_props] in H.
    cbn [nodes_props] in Hu, Hr. cbn [declared_props].
    destruct (walk x (n :: rp) c fx) as [[[s c1] fx1]|e] eqn:E1; [|discriminate].
    destruct (walk_props r rp (S n) c1 fx1) as [[[ss' c3] fx3]|e] eqn:E2; [|discriminate].
    rewrite (IHx R seen _ _ _ _ _ _ E1 (unshadowed_app_l _ _ _ Hu) (refs_in_app_l _ _ _ Hr) Hk). cbn [andb].
    eapply (IHr R); [exact E2|eapply unshadowed_app_r; exact Hu|eapply refs_in_app_r; exact Hr|].
    eapply walk_keys; [exact E1|eapply unshadowed_app_l; exact Hu|exact Hk].
Qed.

Lemma unshadowed_doc d : shadowed d = false -> unshadowed (refnames d) (all_nodes d).
Proof.
  intros Hs [[pth sc] k] He Ha Hin. simpl in *.
  assert (S : shadowed d = true); [|rewrite S in Hs; discriminate].
  unfold shadowed. apply existsb_exists. exists (cache_key sc). split.
  - unfold anon_keys. apply in_flat_map. exists (pth, sc, k). split; [exact He|].
    unfold anon_key. simpl. rewrite Ha. left. reflexivity.
  - apply mem_In. exact Hin.
Qed.

(* a successful load means every counter was declared before its table *)
Lemma load_declared d s : shadowed d = false -> load d = Ok s -> counters_declared d = true.
Proof.
  intros Hs H. destruct (load_inv d s H) as (s0 & c & fx & W & _ & _).
  destruct walk_ok_declared_all as (Hj & _ & _). unfold counters_declared.
  eapply (Hj d (refnames d) [] [] [] []); [exact W|apply unshadowed_doc; exact Hs| |].
  - intros x Hx. exact Hx.
  - intros x _ Hl. simpl in Hl. congruence.
Qed.

(* a counter that is not declared when its table closes - forward, the table itself, an enclosing
   sub-schema, or no sub-schema at all - is a ValueError *)
Lemma load_undeclared d :
  wf d = true -> shadowed d = false -> counters_declared d = false -> load d = Err ValueError.
Proof.
  intros Hwf Hs Hd. destruct (load_total d Hwf) as [[s H]|H]; [|exact H].
  rewrite (load_declared d s Hs H) in Hd. discriminate.
Qed.

(* ------------------------------------------------------------------ declared counters are anchors of the document *)

Definition named_js (d : js) : Prop :=
  wf d = true -> forall seen rp, declared d seen = true ->
  forall x, In x (flat_map dep_entry (nodes d rp)) -> In x (anchors_in d ++ seen).
Definition named_alts (l : alts) : Prop :=
  wf_alts l = true -> forall seen rp n, declared_alts l seen = true ->
  forall x, In x (flat_map dep_entry (nodes_alts l rp n)) -> In x (anames (nodes_alts l rp n) ++ seen).
Definition named_props (l : props) : Prop :=
  wf_props l = true -> forall seen rp n, declared_props l seen = true ->
  forall x, In x (flat_map dep_entry (nodes_props l rp n)) -> In x (anames (nodes_props l rp n) ++ seen).

Lemma in_app_mid {T} (x : T) a b c : In x (b ++ c) -> In x ((a ++ b) ++ c).
Proof. rewrite !in_app_iff. tauto. Qed.
Lemma in_app_swap {T} (x : T) a b c : In x (b ++ a ++ c) -> In x ((a ++ b) ++ c).
Proof. rewrite !in_app_iff. tauto. Qed.
Lemma in_app_left {T} (x : T) a b c : In x (a ++ c) -> In x ((a ++ b) ++ c).
Proof. rewrite !in_app_iff. tauto. Qed.

Lemma declared_named_all :
  (forall d, named_js d) /\ (forall l, named_alts l) /\ (forall l, named_props l).
Proof.
  apply js_triple_ind.
  - intros sc o i p IHo IHi IHp Hwf seen rp Hd x Hx.
    rewrite wf_node in Hwf.
    rewrite declared_node in Hd. rewrite (anchors_in_nodes _ rp). rewrite nodes_node in *.
    cbn [flat_map] in Hx. rewrite anames_cons. apply in_app_iff in Hx.
    destruct (shape_kw sc o i p) eqn:Sh.
    + destruct Hx as [Hx|Hx]; [unfold dep_entry in Hx; simpl in Hx|]; contradiction.
    + destruct Hx as [Hx|Hx]; [unfold dep_entry in Hx; simpl in Hx; contradiction|].
      destruct i as [|y]; [contradiction|].
      apply in_app_mid. rewrite <- (anchors_in_nodes y (0%nat :: rp)). eapply (IHi y eq_refl); eassumption.
    + destruct i as [|y]; [discriminate|].
      apply andb_true_iff in Hwf. destruct Hwf as [Hwy _].
      apply andb_true_iff in Hd. destruct Hd as [Hdy Hdm].
      destruct Hx as [Hx|Hx].
      * unfold dep_entry, ref_entry in Hx. simpl in Hx.
        destruct (ref_name (k_mido sc)) as [name|]; [|contradiction].
        destruct Hx as [<-|[]]. apply in_app_mid.
        rewrite <- (anchors_in_nodes y (0%nat :: rp)). apply mem_In. exact Hdm.
      * apply in_app_mid. rewrite <- (anchors_in_nodes y (0%nat :: rp)). eapply (IHi y eq_refl); eassumption.
    + destruct Hx as [Hx|Hx]; [unfold dep_entry in Hx; simpl in Hx; contradiction|].
      destruct p as [|l]; [contradiction|]. apply andb_true_iff in Hwf. destruct Hwf as [_ Hwl].
      apply in_app_mid. eapply (IHp l eq_refl); eassumption.
    + destruct Hx as [Hx|Hx]; [unfold dep_entry in Hx; simpl in Hx; contradiction|].
      destruct o as [|l]; [contradiction|]. apply in_app_mid. eapply (IHo l eq_refl); eassumption.
    + destruct Hx as [Hx|Hx]; [unfold dep_entry in Hx; simpl in Hx|]; contradiction.
    + destruct Hx as [Hx|Hx]; [unfold dep_entry in Hx; simpl in Hx|]; contradiction.
  - intros _ seen rp n _ x [].
  - intros y r IHy IHr Hwf seen rp n Hd x Hx. cbn [wf_alts] in Hwf. cbn [declared_alts] in Hd. cbn [nodes_alts] in *.
    apply andb_true_iff in Hwf. destruct Hwf as [Hwy Hwr].
    apply andb_true_iff in Hd. destruct Hd as [Hdy Hdr].
    rewrite flat_map_app in Hx. rewrite anames_app. apply in_app_iff in Hx. destruct Hx as [Hx|Hx].
    + apply in_app_left. rewrite <- (anchors_in_nodes y (n :: rp)). eapply IHy; eassumption.
    + apply in_app_swap. rewrite <- (anchors_in_nodes y (n :: rp)). eapply IHr; eassumption.
  - intros _ seen rp n _ x [].
  - intros k y r IHy IHr Hwf seen rp n Hd x Hx. cbn [wf_props] in Hwf. cbn [declared_props] in Hd. cbn [nodes_props] in *.
    apply andb_true_iff in Hwf. destruct Hwf as [Hwy Hwr].
    apply andb_true_iff in Hd. destruct Hd as [Hdy Hdr].
    rewrite flat_map_app in Hx. rewrite anames_app. apply in_app_iff in Hx. destruct Hx as [Hx|Hx].
    + apply in_app_left. rewrite <- (anchors_in_nodes y (n :: rp)). eapply IHy; eassumption.
    + apply in_app_swap. rewrite <- (anchors_in_nodes y (n :: rp)). eapply IHr; eassumption.
Qed.

Lemma counters_anchored d x :
  wf d = true -> counters_declared d = true -> In x (counter_names d) -> find_anchor d x <> None.
Proof.
  intros Hwf Hd Hx. destruct declared_named_all as (Hj & _ & _).
  pose proof (Hj d Hwf [] [] Hd x Hx) as H. rewrite app_nil_r in H.
  unfold find_anchor. apply In_fst_lookup. exact H.
Qed.

Lemma refnames_split d x : In x (refnames d) -> In x (plain_refnames d) \/ In x (counter_names d).
Proof.
  unfold refnames, plain_refnames, counter_names. rewrite !in_flat_map. intros (e & He & Hx).
  destruct (snd e) eqn:K; try (unfold ref_entry in Hx; rewrite K in Hx; contradiction).
  - right. exists e. split; [exact He|]. unfold dep_entry. rewrite K. exact Hx.
  - left. exists e. split; [exact He|]. unfold plain_ref_entry. rewrite K. exact Hx.
Qed.

Lemma counter_names_incl d x : In x (counter_names d) -> In x (refnames d).
Proof.
  unfold refnames, counter_names. rewrite !in_flat_map. intros (e & He & Hx).
  exists e. split; [exact He|]. unfold dep_entry in Hx. destruct (snd e) eqn:K; try contradiction. exact Hx.
Qed.

(* no $ref dangles and every counter is declared: no reference of either kind dangles *)
Lemma nothing_dangles d :
  wf d = true -> has_dangling d = false -> counters_declared d = true -> dangling_any d = false.
Proof.
  intros Hwf Hdg Hd. unfold dangling_any.
  destruct (existsb (fun x => negb (is_some (find_anchor d x))) (refnames d)) eqn:Q; [|reflexivity].
  exfalso. apply existsb_exists in Q. destruct Q as (x & Hx & Hn).
  destruct (refnames_split d x Hx) as [Hp|Hc].
  - unfold has_dangling in Hdg.
    assert (X : existsb (fun x => negb (is_some (find_anchor d x))) (plain_refnames d) = true).
    { apply existsb_exists. exists x. auto. }
    rewrite X in Hdg. discriminate.
  - pose proof (counters_anchored d x Hwf Hd Hc) as F.
    destruct (find_anchor d x); [discriminate|congruence].
Qed.

Lemma dangling_any_plain d : dangling_any d = false -> has_dangling d = false.
Proof.
  intros H. unfold has_dangling.
  destruct (existsb (fun x => negb (is_some (find_anchor d x))) (plain_refnames d)) eqn:Q; [|reflexivity].
  apply existsb_exists in Q. destruct Q as (x & Hx & Hn).
  assert (X : dangling_any d = true).
  { unfold dangling_any. apply existsb_exists. exists x. split; [apply plain_refnames_incl; exact Hx|exact Hn]. }
  rewrite X in H. discriminate.
Qed.

(* ------------------------------------------------------------------ loading succeeds *)

Lemma load_depends_ok d :
  wf d = true -> has_dangling d = false -> counters_declared d = true -> exists s, load d = Ok s.
Proof.
  intros Hwf Hdg Hd. destruct walk_declared_total_all as (T & _ & _).
  assert (C0 : covers [] []) by (intros x []).
  destruct (T d Hwf [] [] [] [] Hd C0) as [[[s0 c] fx] E].
  unfold load. rewrite E. destruct walk_ok_all as (Hj & _ & _).
  destruct (Hj d _ _ _ _ _ _ E) as [_ (A1 & A2 & A3 & A4 & A5)].
  pose proof (nothing_dangles d Hwf Hdg Hd) as ND.
  assert (R : resolvable c fx = true).
  { unfold resolvable. apply forallb_forall. intros f Hf.
    assert (Hin : In (snd f) (map snd fx)) by (apply in_map; exact Hf).
    apply A5 in Hin. destruct Hin as [[]|Hin]. fold (all_nodes d) in Hin. fold (refnames d) in Hin.
    assert (F : negb (is_some (find_anchor d (snd f))) = false).
    { destruct (negb (is_some (find_anchor d (snd f)))) eqn:Q; [|reflexivity].
      assert (X : dangling_any d = true).
      { unfold dangling_any. apply existsb_exists. exists (snd f). auto. }
      rewrite X in ND. discriminate. }
    destruct (find_anchor d (snd f)) as [t|] eqn:Fa; [|discriminate].
    unfold find_anchor in Fa. apply lookup_In in Fa.
    unfold anchor_table in Fa. apply in_flat_map in Fa. destruct Fa as ([[pth sc] k] & Hm & Ha).
    unfold anchor_entry in Ha. simpl in Ha. destruct (k_anchor sc) as [a|] eqn:Ea; [|contradiction].
    destruct Ha as [Ha|[]]. injection Ha as -> ->.
    assert (Hc : In (snd f, t) c).
    { apply A1. right. apply in_map_iff. exists (t, sc, k). split; [|exact Hm].
      unfold entry, cache_key. simpl. rewrite Ea. reflexivity. }
    pose proof (In_lookup_some _ _ _ Hc) as L.
    destruct (lookup (snd f) c); [reflexivity|congruence]. }
  rewrite R. eexists. reflexivity.
Qed.

(* ------------------------------------------------------------------ the DependsOnArraySchema objects *)

Definition site_named (e : js * path) : Prop := exists x, ref_name (k_mido (scal_of (fst e))) = Some x.

Definition sites_js (d : js) : Prop :=
  forall rp c fx s c2 fx2, walk d rp c fx = Ok (s, c2, fx2) -> Forall site_named (depends_sites s).
Definition sites_alts (l : alts) : Prop :=
  forall rp n c fx ss c2 fx2, walk_alts l rp n c fx = Ok (ss, c2, fx2) -> Forall site_named (depends_sites_list ss).
Definition sites_props (l : props) : Prop :=
  forall rp n c fx ps c2 fx2, walk_props l rp n c fx = Ok (ps, c2, fx2) -> Forall site_named (depends_sites_props ps).

Lemma walk_sites_named_all :
  (forall d, sites_js d) /\ (forall l, sites_alts l) /\ (forall l, sites_props l).
Proof.
  apply js_triple_ind.
  - intros sc o i p IHo IHi IHp rp c fx s c2 fx2 H. rewrite walk_node_eq in H.
    destruct (nonempty_alts o).
    { destruct o as [|l]; [discriminate|].
      destruct (walk_alts l rp 0 c fx) as [[[ss c1] fx1]|e] eqn:E; [|discriminate].
      unfold finish in H. injection H as <- _ _. cbn [depends_sites]. eapply (IHo l eq_refl). exact E. }
    destruct (nonempty_str (k_ref sc)).
    { destruct (ref_name (k_ref sc)) as [name|]; [|discriminate].
      destruct (lookup name c); unfold finish in H; injection H as <- _ _; constructor. }
    destruct (k_type sc) as [t|]; [|discriminate].
    destruct (is_atomic t).
    { unfold finish in H. injection H as <- _ _. constructor. }
    destruct (str_eqb t s_array || has_items i).
    { destruct i as [|x]; [discriminate|]. unfold after_array in H.
      destruct (walk x (0%nat :: rp) c fx) as [[[it c1] fx1]|e] eqn:E; [|discriminate].
      pose proof (IHi x eq_refl _ _ _ _ _ _ E) as Hit.
      destruct (k_mido sc) as [m|] eqn:Em.
      - destruct (ref_name (Some m)) as [name|] eqn:En; [|discriminate].
        destruct (lookup name c1) as [tg|]; [|discriminate].
        unfold finish in H. injection H as <- _ _. cbn [depends_sites]. constructor; [|exact Hit].
        exists name. simpl. rewrite Em. exact En.
      - unfold finish in H. injection H as <- _ _. exact Hit. }
    destruct (str_eqb t s_object || has_props p); [|discriminate].
    destruct (walk_props (props_or_nil p) rp 0 c fx) as [[[ps c1] fx1]|e] eqn:E; [|discriminate].
    unfold finish in H. injection H as <- _ _. cbn [depends_sites].
    destruct p as [|l].
    + simpl in E. injection E as <- _ _. constructor.
    + eapply (IHp l eq_refl). exact E.
  - intros rp n c fx ss c2 fx2 H. simpl in H. injection H as <- _ _. constructor.
  - intros x r IHx IHr rp n c fx ss c2 fx2 H. cbn [walk_alts] in H.
    destruct (walk x (n :: rp) c fx) as [[[s c1] fx1]|e] eqn:E1; [|discriminate].
    destruct (walk_alts r rp (S n) c1 fx1) as [[[ss' c3] fx3]|e] eqn:E2; [|discriminate].
    injection H as <- _ _. cbn [depends_sites_list]. apply Forall_app. split; [eapply IHx|eapply IHr]; eassumption.
  - intros rp n c fx ss c2 fx2 H. simpl in H. injection H as <- _ _. constructor.
  - intros k x r IHx IHr rp n c fx ss c2 fx2 H. cbn [walk_props] in H.
    destruct (walk x (n :: rp) c fx) as [[[s c1] fx1]|e] eqn:E1; [|discriminate].
    destruct (walk_props r rp (S n) c1 fx1) as [[[ss' c3] fx3]|e] eqn:E2; [|discriminate].
    injection H as <- _ _. cbn [depends_sites_props]. apply Forall_app. split; [eapply IHx|eapply IHr]; eassumption.
Qed.

Lemma depends_sites_patch_all c :
  (forall s, depends_sites (patch c s) = depends_sites s) /\
  (forall ss, depends_sites_list (patch_list c ss) = depends_sites_list ss) /\
  (forall ps, depends_sites_props (patch_props c ps) = depends_sites_props ps).
Proof.
  apply schema_all_ind.
  - reflexivity.
  - intros a it IH. exact IH.
  - intros a it IH t. cbn [patch depends_sites]. rewrite IH. reflexivity.
  - intros a ps IH. exact IH.
  - intros a ss IH. exact IH.
  - intros a [t|]; reflexivity.
  - reflexivity.
  - intros x IHx r IHr. cbn [patch_list depends_sites_list]. rewrite IHx, IHr. reflexivity.
  - reflexivity.
  - intros k x IHx r IHr. cbn [patch_props depends_sites_props]. rewrite IHx, IHr. reflexivity.
Qed.

(* every site is one of the references of the graph *)
Lemma sites_in_stargets_all :
  (forall s a t x, In (a, t) (depends_sites s) -> ref_name (k_mido (scal_of a)) = Some x -> In (x, Some t) (stargets s)) /\
  (forall ss a t x, In (a, t) (depends_sites_list ss) -> ref_name (k_mido (scal_of a)) = Some x -> In (x, Some t) (stargets_list ss)) /\
  (forall ps a t x, In (a, t) (depends_sites_props ps) -> ref_name (k_mido (scal_of a)) = Some x -> In (x, Some t) (stargets_props ps)).
Proof.
  apply schema_all_ind.
  - intros a b t x [].
  - intros a it IH b t x. exact (IH b t x).
  - intros a it IH t0 b t x H Hn. cbn [depends_sites stargets] in *. destruct H as [H|H].
    + injection H as <- <-. rewrite Hn. left. reflexivity.
    + apply in_or_app. right. eapply IH; eassumption.
  - intros a ps IH b t x. exact (IH b t x).
  - intros a ss IH b t x. exact (IH b t x).
  - intros a tg b t x [].
  - intros b t x [].
  - intros y IHy r IHr b t x H Hn. cbn [depends_sites_list stargets_list] in *.
    apply in_app_iff in H. apply in_or_app. destruct H as [H|H]; [left; eapply IHy|right; eapply IHr]; eassumption.
  - intros b t x [].
  - intros k y IHy r IHr b t x H Hn. cbn [depends_sites_props stargets_props] in *.
    apply in_app_iff in H. apply in_or_app. destruct H as [H|H]; [left; eapply IHy|right; eapply IHr]; eassumption.
Qed.

Lemma load_sites_named d s : load d = Ok s -> Forall site_named (depends_sites s).
Proof.
  intros H. destruct (load_inv d s H) as (s0 & c & fx & W & _ & ->).
  destruct (depends_sites_patch_all c) as (P & _ & _). rewrite P.
  destruct walk_sites_named_all as (Hj & _ & _). eapply Hj. exact W.
Qed.

Lemma refs_resolved_tables d s :
  Forall site_named (depends_sites s) -> refs_resolved d s = true -> tables_bound d s = true.
Proof.
  intros Hn R. unfold tables_bound. apply forallb_forall. intros [a t] He.
  rewrite Forall_forall in Hn. destruct (Hn _ He) as (x & Hx). simpl in Hx.
  unfold site_bound. simpl. rewrite Hx.
  destruct sites_in_stargets_all as (S & _ & _). pose proof (S s a t x He Hx) as Hin.
  unfold refs_resolved in R. rewrite forallb_forall in R. specialize (R _ Hin). simpl in R. exact R.
Qed.

(* ------------------------------------------------------------------ C15c_loads_depends_on *)

Lemma load_depends_on d :
  wf d = true -> uniq_anchors d = true -> shadowed d = false ->
  has_dangling d = false -> counters_declared d = true ->
  exists s, load d = Ok s /\ attrs s = d /\ mirrors s d = true /\
            refs_resolved d s = true /\ map fst (stargets s) = refnames d /\ tables_bound d s = true.
Proof.
  intros Hwf Hu Hs Hdg Hd. destruct (load_depends_ok d Hwf Hdg Hd) as [s H].
  destruct (load_refs d s Hu Hs H) as [R N]. exists s. repeat split.
  - exact H.
  - apply load_attrs. exact H.
  - apply load_mirrors. exact H.
  - exact R.
  - exact N.
  - apply refs_resolved_tables; [eapply load_sites_named; exact H|exact R].
Qed.

(* for every document: a successful load binds every DependsOnArraySchema to the anchored sub-schema *)
Lemma load_tables_bound d s :
  uniq_anchors d = true -> shadowed d = false -> load d = Ok s -> tables_bound d s = true.
Proof.
  intros Hu Hs H. apply refs_resolved_tables; [eapply load_sites_named; exact H|].
  exact (proj1 (load_refs d s Hu Hs H)).
Qed.

(* what tables_bound says of one DependsOnArraySchema object *)
Lemma tables_bound_meaning d s a t :
  tables_bound d s = true -> In (a, t) (depends_sites s) ->
  exists x, k_mido (scal_of a) = Some (hash :: x) /\ find_anchor d x = Some t.
Proof.
  unfold tables_bound. rewrite forallb_forall. intros H He. specialize (H _ He).
  unfold site_bound in H. simpl in H.
  destruct (k_mido (scal_of a)) as [[|ch name]|] eqn:Em; simpl in H; try discriminate.
  destruct (N.eqb ch hash) eqn:Eh; [|discriminate]. apply N.eqb_eq in Eh. subst ch.
  exists name. split; [reflexivity|].
  destruct (find_anchor d name) as [u|]; [|discriminate]. simpl in H.
  rewrite (path_eqb_eq _ _ H). reflexivity.
Qed.

(* any reference without an anchor - a $ref or a maxItemsDependsOn - is a ValueError *)
Lemma load_dangling_any d :
  wf d = true -> uniq_anchors d = true -> shadowed d = false -> dangling_any d = true ->
  load d = Err ValueError.
Proof.
  intros Hwf Hu Hs Hd. destruct (load_total d Hwf) as [[s H]|H]; [|exact H]. exfalso.
  destruct (load_refs d s Hu Hs H) as [R N].
  unfold dangling_any in Hd. apply existsb_exists in Hd. destruct Hd as (x & Hx & Hn).
  rewrite <- N in Hx.
  apply in_map_iff in Hx. destruct Hx as (e & <- & He).
  unfold refs_resolved in R. rewrite forallb_forall in R. specialize (R e He).
  destruct (find_anchor d (fst e)); [discriminate|].
  destruct (snd e); discriminate.
Qed.

(* exactly which documents of the grammar load *)
Lemma load_exactly d :
  wf d = true -> uniq_anchors d = true -> shadowed d = false ->
  (is_ok (load d) = true <-> has_dangling d = false /\ counters_declared d = true).
Proof.
  intros Hwf Hu Hs. split.
  - intros H. destruct (load d) as [s|e] eqn:E; [|discriminate]. split.
    + destruct (has_dangling d) eqn:Q; [|reflexivity].
      rewrite (load_dangling d Hwf Hu Hs Q) in E. discriminate.
    + eapply load_declared; eassumption.
  - intros [Hdg Hd]. destruct (load_depends_ok d Hwf Hdg Hd) as [s H]. rewrite H. reflexivity.
Qed.

(* ------------------------------------------------------------------ the path form of [declared] *)

Definition pth (e : dnode) : path := fst (fst e).
Definition is_table (e : dnode) (x : str) : Prop :=
  snd e = KDepends /\ ref_name (k_mido (snd (fst e))) = Some x.
(* the table e has a counter: a name seen earlier, or an anchored node of the pool closed before it *)
Definition placed (pool : list dnode) (seen : list str) (e : dnode) : Prop :=
  forall x, is_table e x ->
  In x seen \/
  exists e', In e' pool /\ k_anchor (snd (fst e')) = Some x /\ closed_before (pth e') (pth e) = true.

Lemma is_prefix_app (a q : path) : is_prefix a (a ++ q) = true.
Proof. induction a as [|x a IH]; cbn [is_prefix app]; [reflexivity|]. rewrite Nat.eqb_refl. exact IH. Qed.

Lemma is_prefix_longer (a : path) (m : nat) (q : path) : is_prefix (a ++ m :: q) a = false.
Proof. induction a as [|x a IH]; cbn [is_prefix app]; [reflexivity|]. rewrite Nat.eqb_refl. exact IH. Qed.

Lemma is_prefix_diff (a : path) (n m : nat) (q1 q2 : path) : n <> m -> is_prefix (a ++ n :: q1) (a ++ m :: q2) = false.
Proof.
  intros H. induction a as [|x a IH]; cbn [is_prefix app].
  - apply Nat.eqb_neq in H. rewrite H. reflexivity.
  - rewrite Nat.eqb_refl. exact IH.
Qed.

Lemma lex_lt_earlier (a : path) (n m : nat) (q1 q2 : path) : (n < m)%nat -> lex_lt (a ++ n :: q1) (a ++ m :: q2) = true.
Proof.
  intros H. induction a as [|x a IH]; cbn [lex_lt app].
  - apply Nat.ltb_lt in H. rewrite H. reflexivity.
  - rewrite Nat.ltb_irrefl, Nat.eqb_refl. exact IH.
Qed.

Lemma lex_lt_later (a : path) (n m : nat) (q1 q2 : path) : (m < n)%nat -> lex_lt (a ++ n :: q1) (a ++ m :: q2) = false.
Proof.
  intros H. induction a as [|x a IH]; cbn [lex_lt app].
  - assert (A : (n <? m)%nat = false) by (apply Nat.ltb_ge; lia).
    assert (B : (n =? m)%nat = false) by (apply Nat.eqb_neq; lia). rewrite A, B. reflexivity.
  - rewrite Nat.ltb_irrefl, Nat.eqb_refl. exact IH.
Qed.

(* a sub-schema is not closed before itself nor before anything inside it *)
Lemma cb_root (a q : path) : closed_before a (a ++ q) = false.
Proof. unfold closed_before. rewrite is_prefix_app. reflexivity. Qed.

Lemma cb_self (a : path) : closed_before a a = false.
Proof. pose proof (cb_root a []) as H. rewrite app_nil_r in H. exact H. Qed.

(* what lies inside is closed before *)
Lemma cb_inside (a : path) (m : nat) (q : path) : closed_before (a ++ m :: q) a = true.
Proof. unfold closed_before. rewrite is_prefix_longer, is_prefix_app. cbn [negb andb]. apply orb_true_r. Qed.

(* an earlier sibling and all it holds are closed before a later sibling and all it holds; never the reverse *)
Lemma cb_earlier (a : path) (n m : nat) (q1 q2 : path) : (n < m)%nat -> closed_before (a ++ n :: q1) (a ++ m :: q2) = true.
Proof.
  intros H. unfold closed_before. rewrite (is_prefix_diff a n m q1 q2) by lia.
  rewrite (lex_lt_earlier a n m q1 q2 H). reflexivity.
Qed.

Lemma cb_later (a : path) (n m : nat) (q1 q2 : path) : (m < n)%nat -> closed_before (a ++ n :: q1) (a ++ m :: q2) = false.
Proof.
  intros H. unfold closed_before. rewrite (lex_lt_later a n m q1 q2 H).
  rewrite (is_prefix_diff a m n q2 q1) by lia. apply andb_false_r.
Qed.

Lemma nodes_paths_all :
  (forall d rp e, In e (nodes d rp) -> exists q, pth e = rev rp ++ q) /\
  (forall l rp n e, In e (nodes_alts l rp n) -> exists m q, (n <= m)%nat /\ pth e = rev rp ++ m :: q) /\
  (forall l rp n e, In e (nodes_props l rp n) -> exists m q, (n <= m)%nat /\ pth e = rev rp ++ m :: q).
Proof.
  apply js_triple_ind.
  - intros sc o i p IHo IHi IHp rp e He. rewrite nodes_node in He. destruct He as [<-|He].
    + exists []. rewrite app_nil_r. reflexivity.
    + destruct (shape_kw sc o i p); simpl in He; try contradiction.
      * destruct i as [|x]; [contradiction|]. destruct (IHi x eq_refl _ _ He) as (q & Hq).
        exists (0%nat :: q). rewrite Hq. simpl. rewrite <- app_assoc. reflexivity.
      * destruct i as [|x]; [contradiction|]. destruct (IHi x eq_refl _ _ He) as (q & Hq).
        exists (0%nat :: q). rewrite Hq. simpl. rewrite <- app_assoc. reflexivity.
      * destruct p as [|l]; [contradiction|]. destruct (IHp l eq_refl _ _ _ He) as (m & q & _ & Hq).
        exists (m :: q). exact Hq.
      * destruct o as [|l]; [contradiction|]. destruct (IHo l eq_refl _ _ _ He) as (m & q & _ & Hq).
        exists (m :: q). exact Hq.
  - intros rp n e [].
  - intros x r IHx IHr rp n e He. cbn [nodes_alts] in He. apply in_app_iff in He. destruct He as [He|He].
    + destruct (IHx _ _ He) as (q & Hq). exists n, q. split; [lia|]. rewrite Hq. simpl. rewrite <- app_assoc. reflexivity.
    + destruct (IHr _ _ _ He) as (m & q & Hm & Hq). exists m, q. split; [lia|exact Hq].
  - intros rp n e [].
  - intros k x r IHx IHr rp n e He. cbn [nodes_props] in He. apply in_app_iff in He. destruct He as [He|He].
    + destruct (IHx _ _ He) as (q & Hq). exists n, q. split; [lia|]. rewrite Hq. simpl. rewrite <- app_assoc. reflexivity.
    + destruct (IHr _ _ _ He) as (m & q & Hm & Hq). exists m, q. split; [lia|exact Hq].
Qed.

Lemma child_path d n rp e : In e (nodes d (n :: rp)) -> exists q, pth e = rev rp ++ n :: q.
Proof.
  intros He. destruct nodes_paths_all as (H & _ & _). destruct (H d _ _ He) as (q & Hq).
  exists q. rewrite Hq. simpl. rewrite <- app_assoc. reflexivity.
Qed.

Lemma placed_drop_l A B seen e :
  (forall e', In e' A -> closed_before (pth e') (pth e) = false) ->
  (placed (A ++ B) seen e <-> placed B seen e).
Proof.
  intros H. unfold placed. split; intros P x Hx; destruct (P x Hx) as [Hs|(e' & He' & Ha & Hc)]; try (left; exact Hs).
  - apply in_app_iff in He'. destruct He' as [He'|He'].
    + rewrite (H e' He') in Hc. discriminate.
    + right. exists e'. auto.
  - right. exists e'. split; [apply in_or_app; right; exact He'|auto].
Qed.

Lemma placed_drop_r A B seen e :
  (forall e', In e' B -> closed_before (pth e') (pth e) = false) ->
  (placed (A ++ B) seen e <-> placed A seen e).
Proof.
  intros H. unfold placed. split; intros P x Hx; destruct (P x Hx) as [Hs|(e' & He' & Ha & Hc)]; try (left; exact Hs).
  - apply in_app_iff in He'. destruct He' as [He'|He'].
    + right. exists e'. auto.
    + rewrite (H e' He') in Hc. discriminate.
  - right. exists e'. split; [apply in_or_app; left; exact He'|auto].
Qed.

Lemma placed_absorb_l A B seen e :
  (forall e', In e' A -> closed_before (pth e') (pth e) = true) ->
  (placed (A ++ B) seen e <-> placed B (anames A ++ seen) e).
Proof.
  intros H. unfold placed. split; intros P x Hx; destruct (P x Hx) as [Hs|(e' & He' & Ha & Hc)].
  - left. apply in_or_app. right. exact Hs.
  - apply in_app_iff in He'. destruct He' as [He'|He'].
    + left. apply in_or_app. left. eapply bears_anames; eassumption.
    + right. exists e'. auto.
  - apply in_app_iff in Hs. destruct Hs as [Hs|Hs]; [|left; exact Hs].
    destruct (anames_bears _ _ Hs) as (e' & He' & Ha). right. exists e'.
    split; [apply in_or_app; left; exact He'|]. split; [exact Ha|apply H; exact He'].
  - right. exists e'. split; [apply in_or_app; right; exact He'|auto].
Qed.

(* every node of K lies below the path a *)
Definition below (a : path) (K : list dnode) : Prop := forall e, In e K -> exists m q, pth e = a ++ m :: q.

Lemma node_placed root K seen :
  below (pth root) K ->
  ((forall e, In e (root :: K) -> placed (root :: K) seen e) <->
   placed (root :: K) seen root /\ (forall e, In e K -> placed K seen e)).
Proof.
  intros Hb.
  assert (D : forall e, In e K -> (placed ([root] ++ K) seen e <-> placed K seen e)).
  { intros e He. apply placed_drop_l. intros e' [<-|[]].
    destruct (Hb e He) as (m & q & Hq). rewrite Hq. apply cb_root. }
  split.
  - intros H. split; [apply H; left; reflexivity|]. intros e He. apply (D e He). apply H. right. exact He.
  - intros [Hr Hk] e [<-|He]; [exact Hr|]. apply (D e He). apply Hk. exact He.
Qed.

Lemma not_table_placed pool seen e : snd e <> KDepends -> placed pool seen e.
Proof. intros H x [Hk _]. contradiction. Qed.

Lemma table_root_placed root K seen name :
  below (pth root) K -> snd root = KDepends -> ref_name (k_mido (snd (fst root))) = Some name ->
  (placed (root :: K) seen root <-> In name (anames K ++ seen)).
Proof.
  intros Hb Hk Hn. split.
  - intros P. apply in_app_iff. destruct (P name (conj Hk Hn)) as [Hs|(e' & [<-|He'] & Ha & Hc)].
    + right. exact Hs.
    + rewrite cb_self in Hc. discriminate.
    + left. eapply bears_anames; eassumption.
  - intros H x [_ Hx]. rewrite Hn in Hx. injection Hx as <-.
    apply in_app_iff in H. destruct H as [H|H]; [|left; exact H].
    destruct (anames_bears _ _ H) as (e' & He' & Ha). right. exists e'.
    split; [right; exact He'|]. split; [exact Ha|].
    destruct (Hb e' He') as (m & q & Hq). rewrite Hq. apply cb_inside.
Qed.

(* child n and all it holds, then the later children *)
Lemma seq_placed A B seen (a : path) (n : nat) :
  (forall e, In e A -> exists q, pth e = a ++ n :: q) ->
  (forall e, In e B -> exists m q, (S n <= m)%nat /\ pth e = a ++ m :: q) ->
  ((forall e, In e (A ++ B) -> placed (A ++ B) seen e) <->
   (forall e, In e A -> placed A seen e) /\ (forall e, In e B -> placed B (anames A ++ seen) e)).
Proof.
  intros HA HB.
  assert (DA : forall e, In e A -> (placed (A ++ B) seen e <-> placed A seen e)).
  { intros e He. apply placed_drop_r. intros e' He'. destruct (HA e He) as (q & Hq).
    destruct (HB e' He') as (m & q' & Hm & Hq'). rewrite Hq, Hq'. apply cb_later. lia. }
  assert (DB : forall e, In e B -> (placed (A ++ B) seen e <-> placed B (anames A ++ seen) e)).
  { intros e He. apply placed_absorb_l. intros e' He'. destruct (HA e' He') as (q & Hq).
    destruct (HB e He) as (m & q' & Hm & Hq'). rewrite Hq, Hq'. apply cb_earlier. lia. }
  split.
  - intros H. split; intros e He; [apply (DA e He)|apply (DB e He)]; apply H; apply in_or_app; [left|right]; exact He.
  - intros [H1 H2] e He. apply in_app_iff in He.
    destruct He as [He|He]; [apply (DA e He); apply H1|apply (DB e He); apply H2]; exact He.
Qed.

Definition pl_js (d : js) : Prop :=
  wf d = true -> forall rp seen,
  declared d seen = true <-> (forall e, In e (nodes d rp) -> placed (nodes d rp) seen e).
Definition pl_alts (l : alts) : Prop :=
  wf_alts l = true -> forall rp n seen,
  declared_alts l seen = true <-> (forall e, In e (nodes_alts l rp n) -> placed (nodes_alts l rp n) seen e).
Definition pl_props (l : props) : Prop :=
  wf_props l = true -> forall rp n seen,
  declared_props l seen = true <-> (forall e, In e (nodes_props l rp n) -> placed (nodes_props l rp n) seen e).

Lemma declared_placed_all : (forall d, pl_js d) /\ (forall l, pl_alts l) /\ (forall l, pl_props l).
Proof.
  apply js_triple_ind.
  - intros sc o i p IHo IHi IHp Hwf rp seen. rewrite wf_node in Hwf. rewrite declared_node, nodes_node.
    destruct (shape_kw sc o i p) eqn:Sh.
    + split; [|reflexivity]. intros _ e [<-|[]]. apply not_table_placed. simpl. discriminate.
    + destruct i as [|x]; [discriminate|].
      assert (Hb : below (pth (rev rp, sc, KArray)) (nodes x (0%nat :: rp))).
      { intros e He. destruct (child_path _ _ _ _ He) as (q & Hq). exists 0%nat, q. exact Hq. }
      split.
      * intros Hd. apply node_placed; [exact Hb|]. split; [apply not_table_placed; simpl; discriminate|].
        apply (IHi x eq_refl Hwf). exact Hd.
      * intros H. apply node_placed in H; [|exact Hb]. destruct H as [_ H].
        apply (IHi x eq_refl Hwf (0%nat :: rp)). exact H.
    + destruct i as [|x]; [discriminate|].
      apply andb_true_iff in Hwf. destruct Hwf as [Hwx Hm]. unfold hash_prefixed in Hm.
      destruct (ref_name (k_mido sc)) as [name|] eqn:En; [|discriminate].
      assert (Hb : below (pth (rev rp, sc, KDepends)) (nodes x (0%nat :: rp))).
      { intros e He. destruct (child_path _ _ _ _ He) as (q & Hq). exists 0%nat, q. exact Hq. }
      split.
      * intros Hd. apply andb_true_iff in Hd. destruct Hd as [Hdx Hdm]. apply node_placed; [exact Hb|]. split.
        -- apply (table_root_placed _ _ _ name Hb); [reflexivity|exact En|].
           rewrite <- (anchors_in_nodes x (0%nat :: rp)). apply mem_In. exact Hdm.
        -- apply (IHi x eq_refl Hwx). exact Hdx.
      * intros H. apply node_placed in H; [|exact Hb]. destruct H as [Hr Hk]. apply andb_true_iff. split.
        -- apply (IHi x eq_refl Hwx (0%nat :: rp)). exact Hk.
        -- apply mem_In. rewrite (anchors_in_nodes x (0%nat :: rp)).
           apply (table_root_placed _ _ _ name Hb); [reflexivity|exact En|exact Hr].
    + destruct p as [|l].
      * split; [|reflexivity]. intros _ e [<-|[]]. apply not_table_placed. simpl. discriminate.
      * apply andb_true_iff in Hwf. destruct Hwf as [_ Hwl].
        assert (Hb : below (pth (rev rp, sc, KObject)) (nodes_props l rp 0)).
        { intros e He. destruct nodes_paths_all as (_ & _ & Hp).
          destruct (Hp l rp 0%nat e He) as (m & q & _ & Hq). exists m, q. exact Hq. }
        split.
        -- intros Hd. apply node_placed; [exact Hb|]. split; [apply not_table_placed; simpl; discriminate|].
           apply (IHp l eq_refl Hwl). exact Hd.
        -- intros H. apply node_placed in H; [|exact Hb]. destruct H as [_ H].
           apply (IHp l eq_refl Hwl rp 0%nat). exact H.
    + destruct o as [|l]; [discriminate|].
      assert (Hb : below (pth (rev rp, sc, KOneOf)) (nodes_alts l rp 0)).
      { intros e He. destruct nodes_paths_all as (_ & Hp & _).
        destruct (Hp l rp 0%nat e He) as (m & q & _ & Hq). exists m, q. exact Hq. }
      split.
      * intros Hd. apply node_placed; [exact Hb|]. split; [apply not_table_placed; simpl; discriminate|].
        apply (IHo l eq_refl Hwf). exact Hd.
      * intros H. apply node_placed in H; [|exact Hb]. destruct H as [_ H].
        apply (IHo l eq_refl Hwf rp 0%nat). exact H.
    + split; [|reflexivity]. intros _ e [<-|[]]. apply not_table_placed. simpl. discriminate.
    + discriminate.
  - intros _ rp n seen. split; [intros _ e []|reflexivity].
  - intros x r IHx IHr Hwf rp n seen. cbn [wf_alts] in Hwf. apply andb_true_iff in Hwf. destruct Hwf as [Hwx Hwr].
    cbn [declared_alts nodes_alts].
    assert (HA : forall e, In e (nodes x (n :: rp)) -> exists q, pth e = rev rp ++ n :: q) by (intros e; apply child_path).
    assert (HB : forall e, In e (nodes_alts r rp (S n)) -> exists m q, (S n <= m)%nat /\ pth e = rev rp ++ m :: q).
    { intros e He. destruct nodes_paths_all as (_ & Hp & _). exact (Hp r rp (S n) e He). }
    split.
    + intros Hd. apply andb_true_iff in Hd. destruct Hd as [Hdx Hdr].
      apply (seq_placed _ _ _ (rev rp) n HA HB). split; [apply (IHx Hwx); exact Hdx|].
      rewrite <- (anchors_in_nodes x (n :: rp)). apply (IHr Hwr). exact Hdr.
    + intros H. apply (seq_placed _ _ _ (rev rp) n HA HB) in H. destruct H as [H1 H2]. apply andb_true_iff. split.
      * apply (IHx Hwx (n :: rp)). exact H1.
      * apply (IHr Hwr rp (S n)). rewrite (anchors_in_nodes x (n :: rp)). exact H2.
  - intros _ rp n seen. split; [intros _ e []|reflexivity].
  - intros k x r IHx IHr Hwf rp n seen. cbn [wf_props] in Hwf. apply andb_true_iff in Hwf. destruct Hwf as [Hwx Hwr].
    cbn [declared_props nodes_props].
    assert (HA : forall e, In e (nodes x (n :: rp)) -> exists q, pth e = rev rp ++ n :: q) by (intros e; apply child_path).
    assert (HB : forall e, In e (nodes_props r rp (S n)) -> exists m q, (S n <= m)%nat /\ pth e = rev rp ++ m :: q).
    { intros e He. destruct nodes_paths_all as (_ & _ & Hp). exact (Hp r rp (S n) e He). }
    split.
    + intros Hd. apply andb_true_iff in Hd. destruct Hd as [Hdx Hdr].
      apply (seq_placed _ _ _ (rev rp) n HA HB). split; [apply (IHx Hwx); exact Hdx|].
      rewrite <- (anchors_in_nodes x (n :: rp)). apply (IHr Hwr). exact Hdr.
    + intros H. apply (seq_placed _ _ _ (rev rp) n HA HB) in H. destruct H as [H1 H2]. apply andb_true_iff. split.
      * apply (IHx Hwx (n :: rp)). exact H1.
      * apply (IHr Hwr rp (S n)). rewrite (anchors_in_nodes x (n :: rp)). exact H2.
Qed.

Lemma table_placed_spec d e : table_placed d e = true <-> placed (all_nodes d) [] e.
Proof.
  unfold table_placed, placed, is_table. split.
  - intros H x [Hk Hx]. rewrite Hk, Hx in H. right. unfold counter_placed in H.
    apply existsb_exists in H. destruct H as (e' & He' & Hc). apply andb_true_iff in Hc. destruct Hc as [Ha Hc].
    exists e'. split; [exact He'|]. split; [apply ostr_eqb_eq; exact Ha|exact Hc].
  - intros P. destruct (snd e) eqn:Hk; try reflexivity.
    destruct (ref_name (k_mido (snd (fst e)))) as [x|] eqn:Hx; [|reflexivity].
    destruct (P x (conj eq_refl eq_refl)) as [[]|(e' & He' & Ha & Hc)].
    unfold counter_placed. apply existsb_exists. exists e'. split; [exact He'|].
    rewrite Ha. cbn [ostr_eqb]. rewrite str_eqb_refl. exact Hc.
Qed.

(* [counters_declared] says what [counters_placed] says: for each depending array some sub-schema
   bearing the counter's anchor is closed before it *)
Lemma declared_is_placed d : wf d = true -> counters_declared d = counters_placed d.
Proof.
  intros Hwf. apply eq_true_iff_eq. unfold counters_declared, counters_placed.
  destruct declared_placed_all as (H & _ & _). specialize (H d Hwf [] []). fold (all_nodes d) in H.
  rewrite forallb_forall. split.
  - intros Hd e He. apply table_placed_spec. apply (proj1 H Hd). exact He.
  - intros P. apply (proj2 H). intros e He. apply table_placed_spec. apply P. exact He.
Qed.

(* the main statement with the condition on the counters in its path form *)
Lemma load_depends_on_placed d :
  wf d = true -> uniq_anchors d = true -> shadowed d = false ->
  has_dangling d = false -> counters_placed d = true ->
  exists s, load d = Ok s /\ attrs s = d /\ mirrors s d = true /\
            refs_resolved d s = true /\ map fst (stargets s) = refnames d /\ tables_bound d s = true.
Proof.
  intros Hwf Hu Hs Hdg Hp. apply load_depends_on; try assumption.
  rewrite (declared_is_placed d Hwf). exact Hp.
Qed.

Lemma load_unplaced d :
  wf d = true -> shadowed d = false -> counters_placed d = false -> load d = Err ValueError.
Proof.
  intros Hwf Hs Hp. apply load_undeclared; try assumption.
  rewrite (declared_is_placed d Hwf). exact Hp.
Qed.

(* ------------------------------------------------------------------ witnesses and examples *)

(* the statement one would like: whatever the place of the counter, a document without dangling
   references loads *)
Definition loads_depends_on_full : Prop :=
  forall d, wf d = true -> uniq_anchors d = true -> shadowed d = false -> dangling_any d = false ->
  exists s, load d = Ok s.

Lemma odo_forward_facts :
  wf odo_forward = true /\ uniq_anchors odo_forward = true /\ shadowed odo_forward = false /\
  dangling_any odo_forward = false /\ counters_declared odo_forward = false /\
  counters_placed odo_forward = false /\
  find_anchor odo_forward nX = Some [1%nat] /\ load odo_forward = Err ValueError.
Proof. vm_compute. repeat split. Qed.

Lemma loads_depends_on_full_refuted : ~ loads_depends_on_full.
Proof.
  intros H. destruct odo_forward_facts as (W & U & S & D & _ & _ & _ & L).
  destruct (H odo_forward W U S D) as [s E]. rewrite L in E. discriminate.
Qed.

Lemma odo_backward_facts :
  wf odo_backward = true /\ uniq_anchors odo_backward = true /\ shadowed odo_backward = false /\
  has_dangling odo_backward = false /\ counters_declared odo_backward = true /\
  counters_placed odo_backward = true /\ counter_names odo_backward = [nX] /\
  match load odo_backward with
  | Ok s => depends_sites s = [(mk_tab None nX (mk_atom s_string None None), [0%nat])] /\
            find_anchor odo_backward nX = Some [0%nat] /\ tables_bound odo_backward s = true
  | Err _ => False
  end.
Proof. vm_compute. repeat split. Qed.

Lemma odo_mixed_facts :
  wf odo_mixed = true /\ uniq_anchors odo_mixed = true /\ shadowed odo_mixed = false /\
  has_dangling odo_mixed = false /\ counters_declared odo_mixed = true /\ counters_placed odo_mixed = true /\
  refnames odo_mixed = [nX; nY; nX] /\
  match load odo_mixed with
  | Ok s => stargets s = [(nX, Some [0%nat]); (nY, Some [2%nat]); (nX, Some [0%nat])] /\
            map snd (depends_sites s) = [[0%nat]; [0%nat]] /\ tables_bound odo_mixed s = true /\
            attrs s = odo_mixed
  | Err _ => False
  end.
Proof. vm_compute. repeat split. Qed.

Lemma odo_inside_facts :
  wf odo_inside = true /\ counters_declared odo_inside = true /\ counters_placed odo_inside = true /\
  match load odo_inside with Ok s => map snd (depends_sites s) = [[0%nat]] | Err _ => False end.
Proof. vm_compute. repeat split. Qed.

Lemma odo_refused_facts :
  (wf odo_self = true /\ uniq_anchors odo_self = true /\ shadowed odo_self = false /\
   dangling_any odo_self = false /\ counters_declared odo_self = false /\ counters_placed odo_self = false /\
   load odo_self = Err ValueError) /\
  (wf odo_ancestor = true /\ uniq_anchors odo_ancestor = true /\ shadowed odo_ancestor = false /\
   dangling_any odo_ancestor = false /\ counters_declared odo_ancestor = false /\
   counters_placed odo_ancestor = false /\ load odo_ancestor = Err ValueError) /\
  (wf odo_dangling = true /\ uniq_anchors odo_dangling = true /\ shadowed odo_dangling = false /\
   has_dangling odo_dangling = false /\ dangling_any odo_dangling = true /\
   counters_declared odo_dangling = false /\ load odo_dangling = Err ValueError).
Proof. vm_compute. repeat split. Qed.
