(* Property C07, known finding 7, on Model/Structure.v: structure() compares the target of a
   REDEFINES clause with the names of the earlier siblings character by character.  COBOL words are
   not case-sensitive, so  05 fld-a PIC X.  05 B REDEFINES FLD-A PIC X.  is a well-formed copybook;
   structure raises ValueError on it (tuple unpacking of an empty list of matches).

   [up_spec l] is the copybook as the specification sees it (Spec/Dde.v) with every data name and
   every REDEFINES target in upper case: the witness is well-formed there.  (In general it is the
   exact-spelling predicate that decides what structure does: StructureFullP.redefines_error_full.) *)
From Coq Require Import NArith List Bool.
Import ListNotations.
Require Import SR.Base.Res SR.Spec.Dde SR.Model.Structure SR.Proofs.StructureP.
(* The definitions of this development that occur in theorem statements (Props/) live in Spec/RedefinesCaseWitness.v (audit item G1).
   The abbreviations keep the qualified names RedefinesCaseP.name of other files resolving; they are parsing-only aliases. *)
Require Export SR.Spec.RedefinesCaseWitness.
Notation upper := SR.Spec.RedefinesCaseWitness.upper (only parsing).
Notation up_spec := SR.Spec.RedefinesCaseWitness.up_spec (only parsing).
Notation ent := SR.Spec.RedefinesCaseWitness.ent (only parsing).
Notation n_fld_a_lower := SR.Spec.RedefinesCaseWitness.n_fld_a_lower (only parsing).
Notation n_fld_a_upper := SR.Spec.RedefinesCaseWitness.n_fld_a_upper (only parsing).
Notation witness7 := SR.Spec.RedefinesCaseWitness.witness7 (only parsing).
Notation witness7_same_case := SR.Spec.RedefinesCaseWitness.witness7_same_case (only parsing).

Lemma refuted_7 :
  Forall (fun e => two_digits (elv e) = true) witness7
  /\ redefines_ok (up_spec witness7) = true
  /\ structure witness7 = Err ValueError
  /\ (exists f, structure witness7_same_case = Ok f).
Proof.
  split; [repeat constructor|]. split; [vm_compute; reflexivity|]. split; [vm_compute; reflexivity|].
  eexists. vm_compute. reflexivity.
Qed.

