(* Property C07, known finding 7, on Model/Structure.v: structure() compares the target of a
   REDEFINES clause with the names of the earlier siblings character by character.  COBOL words are
   not case-sensitive, so  05 fld-a PIC X.  05 B REDEFINES FLD-A PIC X.  is a well-formed copybook;
   structure raises ValueError on it (tuple unpacking of an empty list of matches).

   [up_spec l] is the copybook as the specification sees it (Spec/Dde.v) with every data name and
   every REDEFINES target in upper case: the witness is well-formed there.  (In general it is the
   exact-spelling predicate that decides what structure does: StructureFullP.redefines_error_full.) *)
From Coq Require Import NArith List Bool.
Import ListNotations.
Require Import SR.Base.Res SR.Spec.Dde SR.Model.Structure SR.Proofs.StructureP.

Definition upper (c : N) : N := if ((97 <=? c) && (c <=? 122))%N then (c - 32)%N else c.

Definition up_spec (l : list entry) : list (N * list N * option (list N)) :=
  map (fun d => (lvl_num (dlv d), map upper (dde_name (de d)), option_map (map upper) (eredef (de d)))) (kept_of l).

Definition ent (a b : N) (name : str) (red : option str) (pic : bool) : entry :=
  {| elv := (a, b); ename := Some name; efill := None; eredef := red; epic := pic; eocc := false; etext := [] |}.

Definition n_fld_a_lower : str := [102; 108; 100; 45; 97]%N.     (* fld-a *)
Definition n_fld_a_upper : str := [70; 76; 68; 45; 65]%N.        (* FLD-A *)

(* 01 R.  05 fld-a PIC X.  05 B REDEFINES FLD-A PIC X. *)
Definition witness7 : list entry :=
  [ent 48 49 [82%N] None false; ent 48 53 n_fld_a_lower None true; ent 48 53 [66%N] (Some n_fld_a_upper) true]%N.
(* the same with the clause spelled like the declaration *)
Definition witness7_same_case : list entry :=
  [ent 48 49 [82%N] None false; ent 48 53 n_fld_a_lower None true; ent 48 53 [66%N] (Some n_fld_a_lower) true]%N.

Lemma refuted_7 :
  Forall (fun e => two_digits (elv e) = true) witness7
  /\ redefines_ok (up_spec witness7) = true
  /\ structure witness7 = Err ValueError
  /\ (exists f, structure witness7_same_case = Ok f).
Proof.
  split; [repeat constructor|]. split; [vm_compute; reflexivity|]. split; [vm_compute; reflexivity|].
  eexists. vm_compute. reflexivity.
Qed.

