(* Proofs/SecondParseP.v - lemmas about the decoder's second parse of an entry's text (Model/Pipeline.v est_scan_b: the model of
   estruct.clause_pattern.finditer, interpreting the word boundaries read from the source, Gen/PipelineParams.v) for Props/C04e.v.

   1. closed forms of the two assertions for the CURRENT parameter values (bounds_now_eq, before_ok_now, after_ok_now): an edit
      of the pattern's lookbehind / lookahead changes Gen/PipelineParams.v and these lemmas stop compiling
   2. a match begins with one of the trigger words, written out in full, and the word ends there (token_starts_with_trigger)
   3. a data name is passed over: no match starts inside a run of name characters, and none at its start unless the run IS a
      trigger word (scan_inside_name, scan_past_name)
   4. name independence: the compact text of a named entry is the name followed by a text that does not depend on it
      (compact_name_first), so the scan is a function of that tail (named_entry_items, items_name_irrelevant,
      domain_name_irrelevant)
   5. the width and the decoder come from the entry's own clauses (text_gives_own_clauses, name_with_usage_word), composed with
      the picture scanner and C04's size specification (text_size_numeric, text_kind_numeric, text_size_alnum)
   6. the pre-repair pattern on 05 EMP-COMPANY PIC X(10) (name_with_usage_word_old_refuted)
   7. a syntactic part of the domain: PICTURE and USAGE clauses in plain spelling (token_usage_clause, token_picture_clause,
      split_spaced, plain_entry_in_domain) *)
From Coq Require Import NArith List Bool Arith Lia.
Import ListNotations.
Require Import SR.Base.Res.
Require SR.Model.Structure SR.Model.Picture SR.Model.Estruct SR.Model.Clauses SR.Model.RefFormat SR.Gen.ClausesParams.
Require Import SR.Spec.Clauses SR.Model.Pipeline SR.Spec.Copybook SR.Proofs.PipelineP.
Require Import SR.Model.TextLayout SR.Proofs.TextLayoutP.
Require Export SR.Spec.SecondParseWf.
Require SR.Proofs.StructureP.
Open Scope N_scope.

(* ================================================================ 1. the assertions of the pattern as it is *)
Definition name_class : list (N * N) := [(65, 90); (97, 122); (48, 57); (45, 45)].

Lemma bounds_now_eq :
  est_bounds_now = {| eb_before := true; eb_before_class := name_class; eb_after := true; eb_after_class := name_class |}.
Proof. reflexivity. Qed.

Lemma in_name_class : forall c, in_ranges c name_class = name_char c.
Proof.
  intros c. unfold in_ranges, name_class, name_char, is_upper_letter, is_lower_letter, is_digit. cbn [existsb fst snd].
  rewrite orb_false_r. rewrite !orb_assoc. f_equal.
  destruct (N.eqb_spec c 45) as [->|NE]; [reflexivity|].
  destruct (N.leb_spec 45 c), (N.leb_spec c 45); try reflexivity; lia.
Qed.

Lemma before_ok_now : forall c, est_before_ok est_bounds_now (Some c) = negb (name_char c).
Proof. intros c. rewrite bounds_now_eq. unfold est_before_ok. cbn [eb_before eb_before_class andb]. rewrite in_name_class. reflexivity. Qed.

Lemma before_ok_none : forall b, est_before_ok b None = true.
Proof. reflexivity. Qed.

Lemma after_ok_now : forall c r, est_after_ok est_bounds_now (c :: r) = negb (name_char c).
Proof. intros c r. rewrite bounds_now_eq. unfold est_after_ok. cbn [eb_after eb_after_class andb]. rewrite in_name_class. reflexivity. Qed.

(* what may stand in front of a match / behind a usage word: nothing, or a character that is not a name character *)
Definition boundary (o : option N) : bool := match o with None => true | Some c => negb (name_char c) end.

Lemma before_ok_boundary : forall prev, est_before_ok est_bounds_now prev = boundary prev.
Proof. intros [c|]; [apply before_ok_now|reflexivity]. Qed.

Lemma after_ok_ends : forall r, est_after_ok est_bounds_now r = ends_word r.
Proof. intros [|c r]; [reflexivity|apply after_ok_now]. Qed.

(* no match starts behind a name character *)
Lemma no_token_behind_name_char : forall c s, name_char c = true -> est_token_at (Some c) s = None.
Proof.
  intros c s H. unfold est_token_at, est_token_at_b. rewrite before_ok_now, H. reflexivity.
Qed.

(* white space is not a name character *)
Lemma ws_not_name_char : forall c, SR.Model.Clauses.is_ws c = true -> name_char c = false.
Proof.
  intros c H. unfold SR.Model.Clauses.is_ws in H.
  assert (A : forallb (fun x => negb (name_char x)) SR.Gen.ClausesParams.ws_points = true) by (vm_compute; reflexivity).
  rewrite forallb_forall in A.
  assert (I : In c SR.Gen.ClausesParams.ws_points).
  { clear A. unfold SR.Model.Clauses.mem in H. apply existsb_exists in H as (x & I & E). apply N.eqb_eq in E. subst x. exact I. }
  specialize (A c I). apply negb_true_iff in A. exact A.
Qed.

(* ================================================================ 2. a match begins with a trigger word that ends there *)
Lemma lit_cs_app : forall w s r, lit_cs w s = Some r -> s = w ++ r.
Proof.
  induction w as [|x w IH]; intros s r H; cbn [lit_cs] in H; [injection H as <-; reflexivity|].
  destruct s as [|c t]; [discriminate|]. destruct (N.eqb_spec c x) as [->|NE]; [|discriminate].
  rewrite (IH t r H). reflexivity.
Qed.

Lemma lit_cs_refl : forall w r, lit_cs w (w ++ r) = Some r.
Proof. induction w as [|x w IH]; intros r; cbn [lit_cs app]; [reflexivity|]. rewrite N.eqb_refl. apply IH. Qed.

Lemma ws1_starts_ws : forall s r, ws1 s = Some r -> ends_word s = true /\ s <> [].
Proof.
  intros s r H. unfold ws1 in H. destruct s as [|c t]; cbn [SR.Model.Clauses.span] in H; [discriminate|].
  destruct (SR.Model.Clauses.is_ws c) eqn:W.
  - split; [|discriminate]. cbn [ends_word]. rewrite (ws_not_name_char c W). reflexivity.
  - discriminate.
Qed.

Lemma word_ws_spec : forall w s r, word_ws w s = Some r -> exists rest, s = w ++ rest /\ ends_word rest = true.
Proof.
  intros w s r H. unfold word_ws in H. destruct (lit_cs w s) as [rest|] eqn:L; [|discriminate].
  exists rest. split; [apply lit_cs_app; exact L|]. apply (ws1_starts_ws rest r H).
Qed.

Lemma est_usage_from_spec : forall b ws i s u r, est_usage_from_b b ws i s = Some (u, r) ->
  exists w, In w ws /\ lit_cs w s = Some r /\ est_after_ok b r = true.
Proof.
  intros b. induction ws as [|w ws IH]; intros i s u r H; cbn [est_usage_from_b] in H; [discriminate|].
  destruct (lit_cs w s) as [rest|] eqn:L.
  - destruct (est_after_ok b rest) eqn:A.
    + injection H as _ <-. exists w. split; [left; reflexivity|]. split; assumption.
    + destruct (IH _ _ _ _ H) as (w' & I & R). exists w'. split; [right; exact I|exact R].
  - destruct (IH _ _ _ _ H) as (w' & I & R). exists w'. split; [right; exact I|exact R].
Qed.

Lemma in_trigger_usage : forall w, In w est_usage_words -> In w est_trigger_words.
Proof. intros w H. unfold est_trigger_words. apply in_or_app. left. exact H. Qed.
Lemma in_trigger_pic : forall w, In w est_pic_words -> In w est_trigger_words.
Proof. intros w H. unfold est_trigger_words. apply in_or_app. right. apply in_or_app. left. exact H. Qed.
Lemma in_trigger_USAGE : In w_USAGE est_trigger_words.
Proof. unfold est_trigger_words. apply in_or_app. right. apply in_or_app. right. left. reflexivity. Qed.
Lemma in_trigger_IS : In w_IS est_trigger_words.
Proof. unfold est_trigger_words. apply in_or_app. right. apply in_or_app. right. right. left. reflexivity. Qed.

Lemma token_starts_with_trigger : forall prev s it r, est_token_at prev s = Some (it, r) ->
  exists w rest, In w est_trigger_words /\ s = w ++ rest /\ ends_word rest = true.
Proof.
  intros prev s it r H. unfold est_token_at, est_token_at_b in H. destruct (est_before_ok est_bounds_now prev); [|discriminate].
  destruct (est_alt_usage_b est_bounds_now s) as [[u r0]|] eqn:EU.
  - clear H. unfold est_alt_usage_b in EU. destruct (first_some_in _ _ _ _ _ EU) as (x & I & F). clear EU.
    unfold opt_word_ws in I at 2. destruct (word_ws w_USAGE s) as [r1|] eqn:WU.
    + destruct (word_ws_spec _ _ _ WU) as (rest & E & W). exists w_USAGE, rest. split; [exact in_trigger_USAGE|]. split; assumption.
    + cbn [flat_map] in I. rewrite app_nil_r in I. unfold opt_word_ws in I. destruct (word_ws w_IS s) as [r2|] eqn:WI.
      * destruct (word_ws_spec _ _ _ WI) as (rest & E & W). exists w_IS, rest. split; [exact in_trigger_IS|]. split; assumption.
      * destruct I as [<-|[]]. unfold est_usage_at_b in F. destruct (est_usage_from_spec _ _ _ _ _ _ F) as (w & Iw & L & A).
        exists w, r0. split; [apply in_trigger_usage; exact Iw|]. split; [apply lit_cs_app; exact L|]. rewrite <- after_ok_ends. exact A.
  - destruct (est_alt_picture s) as [[p r0]|] eqn:EP; [|discriminate]. clear H. unfold est_alt_picture in EP.
    destruct (first_some_in _ _ _ _ _ EP) as (w & Iw & F). destruct (word_ws w s) as [r1|] eqn:WW; [|discriminate].
    destruct (word_ws_spec _ _ _ WW) as (rest & E & W). exists w, rest. split; [apply in_trigger_pic; exact Iw|]. split; assumption.
Qed.

(* ================================================================ 3. a data name is passed over *)
Lemma triggers_are_words : forallb name_chars est_trigger_words = true.
Proof. vm_compute. reflexivity. Qed.

(* the run of name characters at the start of a text is determined by the text *)
Lemma name_run_unique : forall w n rest rest', name_chars w = true -> name_chars n = true ->
  ends_word rest = true -> ends_word rest' = true -> w ++ rest = n ++ rest' -> w = n.
Proof.
  induction w as [|x w IH]; intros [|y n] rest rest' Hw Hn R R' E; cbn [app] in E.
  - reflexivity.
  - subst rest. cbn [ends_word] in R. cbn [name_chars forallb] in Hn. apply andb_true_iff in Hn as [Hy _]. rewrite Hy in R. discriminate.
  - subst rest'. cbn [ends_word] in R'. cbn [name_chars forallb] in Hw. apply andb_true_iff in Hw as [Hx _]. rewrite Hx in R'. discriminate.
  - injection E as -> E. cbn [name_chars forallb] in Hw, Hn. apply andb_true_iff in Hw as [_ Hw]. apply andb_true_iff in Hn as [_ Hn].
    rewrite (IH n rest rest' Hw Hn R R' E). reflexivity.
Qed.

Lemma in_is_trigger : forall w, In w est_trigger_words -> is_trigger w = true.
Proof.
  intros w H. unfold is_trigger. apply existsb_exists. exists w. split; [exact H|apply SR.Proofs.StructureP.str_eqb_refl].
Qed.

(* no match at the start of a word that is not a trigger word *)
Lemma no_token_at_word : forall prev n rest, name_chars n = true -> is_trigger n = false -> ends_word rest = true ->
  est_token_at prev (n ++ rest) = None.
Proof.
  intros prev n rest Hn T R. destruct (est_token_at prev (n ++ rest)) as [[it r]|] eqn:E; [|reflexivity].
  destruct (token_starts_with_trigger _ _ _ _ E) as (w & rest0 & I & Eq & R0).
  pose proof triggers_are_words as TW. rewrite forallb_forall in TW.
  assert (W : w = n) by (apply (name_run_unique w n rest0 rest (TW w I) Hn R0 R); symmetry; exact Eq).
  subst w. rewrite (in_is_trigger n I) in T. discriminate.
Qed.

(* est_scan unfolded *)
Lemma est_scan_nil : forall prev skip, est_scan prev skip [] = [].
Proof. reflexivity. Qed.
Lemma est_scan_none : forall prev c t, est_token_at prev (c :: t) = None -> est_scan prev 0 (c :: t) = est_scan (Some c) 0 t.
Proof. intros prev c t H. unfold est_scan, est_token_at in *. cbn [est_scan_b]. rewrite H. reflexivity. Qed.

Lemma last_indep : forall (m : list N) a b, m <> [] -> last m a = last m b.
Proof.
  induction m as [|y m IH]; intros a b NE; [congruence|]. destruct m as [|z m]; [reflexivity|].
  change (last (y :: z :: m) a) with (last (z :: m) a). change (last (y :: z :: m) b) with (last (z :: m) b). apply IH. discriminate.
Qed.

(* inside a run of name characters no match starts: the scan goes on behind the run *)
Lemma scan_inside_name : forall m c rest, name_char c = true -> name_chars m = true ->
  est_scan (Some c) 0 (m ++ rest) = est_scan (Some (last m c)) 0 rest.
Proof.
  induction m as [|x m IH]; intros c rest Hc Hm; [reflexivity|].
  cbn [name_chars forallb] in Hm. apply andb_true_iff in Hm as [Hx Hm]. cbn [app].
  rewrite (est_scan_none _ _ _ (no_token_behind_name_char c (x :: m ++ rest) Hc)).
  rewrite (IH x rest Hx Hm). destruct m as [|z m]; [reflexivity|]. change (last (x :: z :: m) c) with (last (z :: m) c).
  rewrite (last_indep (z :: m) x c) by discriminate. reflexivity.
Qed.

(* a word that is not a trigger word, standing where a match could start, is passed over entirely *)
Lemma scan_past_word : forall n prev rest, n <> [] -> name_chars n = true -> is_trigger n = false -> ends_word rest = true ->
  est_scan prev 0 (n ++ rest) = est_scan (Some (last n 0)) 0 rest.
Proof.
  intros [|x n] prev rest NE Hn T R; [congruence|]. pose proof (no_token_at_word prev (x :: n) rest Hn T R) as NT.
  cbn [app] in *. rewrite (est_scan_none _ _ _ NT). cbn [name_chars forallb] in Hn. apply andb_true_iff in Hn as [Hx Hn].
  rewrite (scan_inside_name n x rest Hx Hn). destruct n as [|z n]; [reflexivity|]. change (last (x :: z :: n) 0) with (last (z :: n) 0).
  rewrite (last_indep (z :: n) x 0) by discriminate. reflexivity.
Qed.

(* ... and no match starts at the character behind it either *)
Lemma scan_past_word_and_sep : forall n prev c rest, n <> [] -> name_chars n = true -> is_trigger n = false -> name_char c = false ->
  est_scan prev 0 (n ++ c :: rest) = est_scan (Some c) 0 rest.
Proof.
  intros n prev c rest NE Hn T Hc. rewrite (scan_past_word n prev (c :: rest) NE Hn T) by (cbn [ends_word]; rewrite Hc; reflexivity).
  apply est_scan_none. apply no_token_behind_name_char.
  assert (L : forall (m : list N) d, m <> [] -> name_chars m = true -> name_char (last m d) = true).
  { induction m as [|y m IH]; intros d NE' H; [congruence|]. cbn [name_chars forallb] in H. apply andb_true_iff in H as [Hy Hm].
    destruct m as [|z m]; [exact Hy|]. change (last (y :: z :: m) d) with (last (z :: m) d). apply IH; [discriminate|exact Hm]. }
  apply L; assumption.
Qed.

(* ================================================================ 4. the data name of an entry does not matter *)
(* ---- the level number and the blank behind it start no match ---- *)
Lemma triggers_start_with_letter :
  forallb (fun w => match w with c :: _ => is_upper_letter c | [] => false end) est_trigger_words = true.
Proof. vm_compute. reflexivity. Qed.

Lemma no_token_nonletter : forall prev c t, is_upper_letter c = false -> est_token_at prev (c :: t) = None.
Proof.
  intros prev c t H. destruct (est_token_at prev (c :: t)) as [[it r]|] eqn:E; [|reflexivity].
  destruct (token_starts_with_trigger _ _ _ _ E) as (w & rest0 & I & Eq & _).
  pose proof triggers_start_with_letter as TL. rewrite forallb_forall in TL. specialize (TL w I).
  destruct w as [|x w]; [discriminate|]. cbn [app] in Eq. injection Eq as <- _. rewrite H in TL. discriminate.
Qed.

Lemma digit_not_letter : forall c, level_digit c = true -> is_upper_letter c = false.
Proof.
  intros c H. unfold level_digit, SR.Model.RefFormat.is_digit in H.
  assert (A : forallb (fun r => (snd r <? 65) || (90 <? fst r)) SR.Model.RefFormat.nd_ranges = true) by (vm_compute; reflexivity).
  rewrite forallb_forall in A. apply existsb_exists in H as (r & I & H). specialize (A r I).
  apply andb_true_iff in H as [H1 H2]. apply N.leb_le in H1. apply N.leb_le in H2. unfold is_upper_letter.
  apply orb_true_iff in A as [A|A]; apply N.ltb_lt in A.
  - destruct (N.leb_spec 65 c); [lia|reflexivity].
  - destruct (N.leb_spec c 90); [lia|]. apply andb_false_r.
Qed.

Lemma scan_level : forall d1 d2 rest, level_digit d1 = true -> level_digit d2 = true ->
  est_items ([d1; d2; 32] ++ rest) = est_scan (Some 32) 0 rest.
Proof.
  intros d1 d2 rest H1 H2. unfold est_items. change (est_items_b est_bounds_now) with (est_scan None 0). cbn [app].
  rewrite (est_scan_none _ _ _ (no_token_nonletter None d1 _ (digit_not_letter d1 H1))).
  rewrite (est_scan_none _ _ _ (no_token_nonletter (Some d1) d2 _ (digit_not_letter d2 H2))).
  rewrite (est_scan_none _ _ _ (no_token_nonletter (Some d2) 32 rest eq_refl)). reflexivity.
Qed.

(* what the scan finds behind the data name: a function of the text that follows the name *)
Definition scan_tail (tail : list N) : list est_item :=
  match tail with [] => [] | c :: rest => est_scan (Some c) 0 rest end.

Lemma scan_named : forall d1 d2 n tail, level_digit d1 = true -> level_digit d2 = true ->
  n <> [] -> name_chars n = true -> is_trigger n = false -> ends_word tail = true ->
  est_items ([d1; d2; 32] ++ n ++ tail) = scan_tail tail.
Proof.
  intros d1 d2 n tail H1 H2 NE Hn T R. rewrite (scan_level d1 d2 _ H1 H2). destruct tail as [|c rest].
  - rewrite app_nil_r. rewrite <- (app_nil_r n) at 1. rewrite (scan_past_word n (Some 32) [] NE Hn T eq_refl). reflexivity.
  - cbn [ends_word] in R. apply negb_true_iff in R. apply (scan_past_word_and_sep n (Some 32) c rest NE Hn T R).
Qed.

(* ---- the compact clause text of an entry that begins with its data name: the name, then a text that does not depend on it ---- *)
Import SR.Model.RefFormat.

Lemma name_char_not_rws : forall c, name_char c = true -> SR.Model.RefFormat.is_ws c = false.
Proof.
  intros c H. destruct (SR.Model.RefFormat.is_ws c) eqn:W; [|reflexivity]. exfalso.
  assert (A : forallb (fun x => negb (name_char x)) SR.Model.RefFormat.ws_points = true) by (vm_compute; reflexivity).
  rewrite forallb_forall in A. unfold SR.Model.RefFormat.is_ws in W. apply existsb_exists in W as (x & I & E). apply N.eqb_eq in E. subst x.
  specialize (A c I). rewrite H in A. discriminate.
Qed.

Lemma blank_is_rws : forall c, is_blank c = true -> SR.Model.RefFormat.is_ws c = true.
Proof.
  intros c H. unfold is_blank, s_mem in H. cbn [existsb] in H.
  repeat (apply orb_true_iff in H as [H|H]; [apply N.eqb_eq in H; subst c; reflexivity|]). discriminate.
Qed.

Lemma all_blank_rws : forall s, all_blank s = true -> forallb SR.Model.RefFormat.is_ws s = true.
Proof.
  induction s as [|c s IH]; intros H; [reflexivity|]. cbn [all_blank forallb] in *. apply andb_true_iff in H as [H1 H2].
  rewrite (blank_is_rws c H1). apply IH. exact H2.
Qed.

Lemma name_no_rws : forall n, name_chars n = true -> forallb (fun c => negb (SR.Model.RefFormat.is_ws c)) n = true.
Proof.
  induction n as [|c n IH]; intros H; [reflexivity|]. cbn [name_chars forallb] in *. apply andb_true_iff in H as [H1 H2].
  rewrite (name_char_not_rws c H1). apply IH. exact H2.
Qed.

Lemma rev_nonempty : forall (T : Type) (l : list T), l <> [] -> rev l <> [].
Proof. intros T l NE E. apply (f_equal (@rev T)) in E. rewrite rev_involutive in E. exact (NE E). Qed.

(* the word w, a non-empty run of white space, then R *)
Lemma split_word_sep : forall w sep R, w <> [] -> forallb (fun c => negb (SR.Model.RefFormat.is_ws c)) w = true ->
  sep <> [] -> forallb SR.Model.RefFormat.is_ws sep = true ->
  split (w ++ sep ++ R) = w :: split R.
Proof.
  intros w sep R NE Hw NS Hs. unfold split. rewrite (SR.Proofs.RefFormatP.split_go_word w [] _ Hw). rewrite app_nil_r.
  rewrite SR.Proofs.RefFormatP.split_go_sep.
  - rewrite rev_involutive. reflexivity.
  - unfold SR.Spec.RefFormat.wf_sep. rewrite Hs. destruct sep; [congruence|reflexivity].
  - apply rev_nonempty. exact NE.
Qed.

Lemma split_word_end : forall w sep, w <> [] -> forallb (fun c => negb (SR.Model.RefFormat.is_ws c)) w = true ->
  forallb SR.Model.RefFormat.is_ws sep = true -> split (w ++ sep) = [w].
Proof.
  intros w sep NE Hw Hs. destruct sep as [|c sep].
  - rewrite app_nil_r. unfold split. rewrite <- (app_nil_r w) at 1. rewrite (SR.Proofs.RefFormatP.split_go_word w [] [] Hw). rewrite app_nil_r.
    cbn [split_go]. destruct (rev w) eqn:E; [exfalso; exact (rev_nonempty _ w NE E)|]. rewrite <- E, rev_involutive. reflexivity.
  - rewrite <- (app_nil_r (c :: sep)). rewrite app_assoc. rewrite <- app_assoc. rewrite (split_word_sep w (c :: sep) [] NE Hw); [reflexivity|discriminate|exact Hs].
Qed.

Definition join_tail (ws : list line) : line := match ws with [] => [] | _ :: _ => 32 :: join_sp ws end.

Lemma join_sp_cons : forall w ws, join_sp (w :: ws) = w ++ join_tail ws.
Proof. intros w [|x ws]; cbn [join_sp join_tail]; [rewrite app_nil_r; reflexivity|reflexivity]. Qed.

(* what follows the data name in the compact text: sep0 is the separator written behind the name, R the other clauses *)
Definition name_tail (sep0 R : line) : line :=
  match sep0 with
  | c :: bl => if is_blank c then join_tail (split R) else c :: join_tail (split R)
  | [] => []
  end.

Lemma compact_name_first : forall n sep0 R, n <> [] -> name_chars n = true ->
  (sep_ok sep0 = true \/ (all_blank sep0 = true /\ R = [])) ->
  compact (n ++ sep0 ++ R) = n ++ name_tail sep0 R /\ ends_word (name_tail sep0 R) = true.
Proof.
  intros n sep0 R NE Hn D. pose proof (name_no_rws n Hn) as Hw.
  assert (ET : forall ws, ends_word (join_tail ws) = true) by (intros [|x ws]; reflexivity).
  destruct sep0 as [|c bl].
  - destruct D as [D|[_ ->]]; [discriminate|]. cbn [app name_tail]. rewrite app_nil_r. split; [|reflexivity].
    unfold compact. rewrite <- (app_nil_r n) at 1. rewrite (split_word_end n [] NE Hw eq_refl). reflexivity.
  - cbn [name_tail]. destruct (is_blank c) eqn:B.
    + assert (AB : all_blank (c :: bl) = true).
      { destruct D as [D|[D _]]; [|exact D]. cbn [sep_ok] in D. rewrite B in D. cbn [all_blank forallb]. rewrite B. exact D. }
      split; [|apply ET]. unfold compact. rewrite (split_word_sep n (c :: bl) R NE Hw); [|discriminate|apply all_blank_rws; exact AB].
      apply join_sp_cons.
    + destruct D as [D|[D _]]; [|cbn [all_blank forallb] in D; rewrite B in D; discriminate].
      cbn [sep_ok] in D. rewrite B in D. apply andb_true_iff in D as [D NEb]. apply andb_true_iff in D as [M AB].
      assert (Cc : c = 44 \/ c = 59).
      { unfold s_mem in M. cbn [existsb] in M. rewrite orb_false_r in M. apply orb_true_iff in M as [M|M]; apply N.eqb_eq in M; [left|right]; exact M. }
      assert (NW : SR.Model.RefFormat.is_ws c = false) by (destruct Cc as [-> | ->]; reflexivity).
      assert (NC : name_char c = false) by (destruct Cc as [-> | ->]; reflexivity).
      split; [|cbn [ends_word]; rewrite NC; reflexivity].
      unfold compact. change (n ++ (c :: bl) ++ R) with (n ++ [c] ++ bl ++ R). rewrite app_assoc.
      rewrite (split_word_sep (n ++ [c]) bl R).
      * rewrite join_sp_cons. rewrite <- app_assoc. reflexivity.
      * destruct n; discriminate.
      * rewrite forallb_app. rewrite Hw. cbn [forallb]. rewrite NW. reflexivity.
      * destruct bl; [discriminate|discriminate].
      * apply all_blank_rws. exact AB.
Qed.

(* ---- entries ---- *)
Lemma reserved_covers_triggers : forallb is_reserved est_trigger_words = true.
Proof. vm_compute. reflexivity. Qed.

Lemma name_ok_facts : forall n, name_ok n = true -> n <> [] /\ name_chars n = true /\ is_trigger n = false.
Proof.
  intros n H. unfold name_ok in H. apply andb_true_iff in H as [H _]. apply andb_true_iff in H as [H NR]. apply andb_true_iff in H as [NE NC].
  split; [destruct n; [discriminate|discriminate]|]. split; [exact NC|].
  destruct (is_trigger n) eqn:T; [|reflexivity]. exfalso. unfold is_trigger in T. apply existsb_exists in T as (t & I & E).
  apply SR.Proofs.StructureP.str_eqb_eq in E. subst t. pose proof reserved_covers_triggers as RC. rewrite forallb_forall in RC.
  rewrite (RC n I) in NR. discriminate.
Qed.

Lemma entry_items : forall d1 d2 n sep0 R, level_digit d1 = true -> level_digit d2 = true -> name_ok n = true ->
  (sep_ok sep0 = true \/ (all_blank sep0 = true /\ R = [])) ->
  est_items ([d1; d2; 32] ++ compact (n ++ sep0 ++ R)) = scan_tail (name_tail sep0 R).
Proof.
  intros d1 d2 n sep0 R H1 H2 Hn D. destruct (name_ok_facts n Hn) as (NE & NC & T).
  destruct (compact_name_first n sep0 R NE NC D) as [C E]. rewrite C. apply scan_named; assumption.
Qed.

(* what ce_ok says about an entry that begins with its data name *)
Lemma named_entry_facts : forall e n cs, ce_cs e = CName n :: cs -> ce_ok e = true ->
  level_digit (ce_d1 e) = true /\ level_digit (ce_d2 e) = true /\ name_ok n = true
  /\ (sep_ok (snd (hd sp_default (ce_sps e))) = true
      \/ (all_blank (snd (hd sp_default (ce_sps e))) = true /\ print_items cs (tl (ce_sps e)) = [])).
Proof.
  intros e n cs E OK. unfold ce_ok in OK. apply andb_true_iff in OK as [OK WF]. apply andb_true_iff in OK as [PR _].
  unfold ce_wf, SR.Spec.RefFormat.wf_entry in WF. cbn [ce_print SR.Spec.RefFormat.e_lead SR.Spec.RefFormat.e_d1 SR.Spec.RefFormat.e_d2] in WF.
  apply andb_true_iff in WF as [WF _]. apply andb_true_iff in WF as [WF _]. apply andb_true_iff in WF as [WF _].
  apply andb_true_iff in WF as [WF _]. apply andb_true_iff in WF as [WF D2]. apply andb_true_iff in WF as [_ D1].
  unfold printable in PR. apply andb_true_iff in PR as [_ IO]. rewrite E in IO. cbn [items_ok] in IO.
  apply andb_true_iff in IO as [IO _]. apply andb_true_iff in IO as [IO _]. apply andb_true_iff in IO as [CO AO].
  unfold clause_ok in CO. apply andb_true_iff in CO as [_ NO]. unfold after_ok in AO. apply andb_true_iff in AO as [AO _].
  split; [exact D1|]. split; [exact D2|]. split; [exact NO|].
  destruct cs as [|c cs']; [right; split; [exact AO|reflexivity]|left; exact AO].
Qed.

Lemma entry_text : forall e n cs, ce_cs e = CName n :: cs ->
  ctext (spec_entry e) = [ce_d1 e; ce_d2 e; 32] ++ compact (n ++ snd (hd sp_default (ce_sps e)) ++ print_items cs (tl (ce_sps e))).
Proof. intros e n cs E. rewrite spec_entry_ctext. unfold ce_body. rewrite E. reflexivity. Qed.

Theorem named_entry_items : forall e n cs, ce_cs e = CName n :: cs -> ce_ok e = true ->
  est_items (ctext (spec_entry e)) = scan_tail (name_tail (snd (hd sp_default (ce_sps e))) (print_items cs (tl (ce_sps e)))).
Proof.
  intros e n cs E OK. destruct (named_entry_facts e n cs E OK) as (H1 & H2 & Hn & D). rewrite (entry_text e n cs E).
  apply entry_items; assumption.
Qed.

(* the same entry under another data name *)
Lemma with_name_cs : forall e n cs n', ce_cs e = CName n :: cs -> ce_cs (with_name e n') = CName n' :: cs.
Proof. intros e n cs n' E. unfold with_name. cbn [ce_cs]. rewrite E. reflexivity. Qed.

Theorem items_name_irrelevant : forall e n cs n', ce_cs e = CName n :: cs -> ce_ok e = true -> name_ok n' = true ->
  est_items (ctext (spec_entry (with_name e n'))) = est_items (ctext (spec_entry e)).
Proof.
  intros e n cs n' E OK Hn'. destruct (named_entry_facts e n cs E OK) as (H1 & H2 & Hn & D).
  rewrite (named_entry_items e n cs E OK). rewrite (entry_text (with_name e n') n' cs (with_name_cs e n cs n' E)).
  unfold with_name at 1 2 3. cbn [ce_d1 ce_d2 ce_sps]. apply entry_items; assumption.
Qed.

(* the clause values other than the name do not depend on the name *)
Lemma lookup_sorted_11 d : lookup 11 (sorted d) = lookup 11 d.
Proof.
  unfold sorted, key_codes. cbn [flat_map]. rewrite !SR.Proofs.ClausesP.lookup_app, !SR.Proofs.ClausesP.lookup_piece. cbn [N.eqb Pos.eqb]. rewrite app_nil_r || idtac.
  unfold lookup at 1. cbn [fold_left]. destruct (lookup 11 d); reflexivity.
Qed.

Lemma lookup_named : forall k n cs sps, k <> 14 ->
  lookup k (all_bindings (CName n :: cs) sps) = lookup k (all_bindings cs (tl sps)).
Proof.
  intros k n cs sps NE. cbn [all_bindings bindings]. rewrite SR.Proofs.ClausesP.lookup_app.
  destruct (lookup k (all_bindings cs (tl sps))); [reflexivity|]. unfold lookup. cbn [fold_left fst snd].
  destruct (N.eqb_spec 14 k); [congruence|reflexivity].
Qed.

Lemma dict_name_irrelevant : forall e n cs n', ce_cs e = CName n :: cs ->
  lookup 7 (ce_dict (with_name e n')) = lookup 7 (ce_dict e)
  /\ lookup 11 (ce_dict (with_name e n')) = lookup 11 (ce_dict e)
  /\ lookup 13 (ce_dict (with_name e n')) = lookup 13 (ce_dict e).
Proof.
  intros e n cs n' E. unfold ce_dict, expected. rewrite (with_name_cs e n cs n' E), E. unfold with_name. cbn [ce_sps].
  rewrite !SR.Proofs.ClausesP.lookup_sorted_7, !lookup_sorted_11, !SR.Proofs.ClausesP.lookup_sorted_13.
  rewrite !lookup_named by discriminate. repeat split; reflexivity.
Qed.

Theorem domain_name_irrelevant : forall e n cs n', ce_cs e = CName n :: cs -> ce_ok e = true -> name_ok n' = true ->
  respelling_domain (with_name e n') = respelling_domain e.
Proof.
  intros e n cs n' E OK Hn'. destruct (dict_name_irrelevant e n cs n' E) as (D7 & D11 & D13).
  unfold respelling_domain. f_equal.
  - unfold filler_exact. rewrite D13. reflexivity.
  - unfold reparse_agrees. rewrite <- !spec_entry_ctext. rewrite (items_name_irrelevant e n cs n' E OK Hn').
    unfold usage_number, spec_info. cbn [i_usage i_pic]. rewrite D7, D11. reflexivity.
Qed.

(* ================================================================ 5. the width and the decoder come from the entry's own clauses *)
Lemma own_loop : forall u p,
  est_loop (EUsage u :: match p with Some q => [EPicture q] | None => [] end) usage_DISPLAY [] = est_formula u p.
Proof.
  intros u [q|]; cbn [est_loop est_formula]; [|reflexivity].
  destruct (SR.Model.Picture.dec_normalize q) as [[es|ex]|]; reflexivity.
Qed.

Theorem size_from_own_clauses : forall e, reparse_agrees e = true -> calcsize_text (ctext (spec_entry e)) = own_size e.
Proof.
  intros e RA. rewrite spec_entry_ctext. rewrite (calcsize_agrees e RA). unfold own_size, calcsize_items. rewrite own_loop. reflexivity.
Qed.

Theorem kind_from_own_clauses : forall e, reparse_agrees e = true -> kind_of_cobol (ctext (spec_entry e)) = own_kind e.
Proof. intros e RA. rewrite (kind_agrees e RA). unfold own_kind. rewrite own_loop. reflexivity. Qed.

Lemma domain_reparse : forall e, respelling_domain e = true -> reparse_agrees e = true.
Proof. intros e H. unfold respelling_domain in H. apply andb_true_iff in H as [_ H]. exact H. Qed.

(* every entry of the respelling domain *)
Theorem text_gives_own_clauses : forall e, respelling_domain e = true ->
  calcsize_text (ctext (spec_entry e)) = own_size e /\ kind_of_cobol (ctext (spec_entry e)) = own_kind e.
Proof.
  intros e RD. pose proof (domain_reparse e RD) as RA. split; [apply size_from_own_clauses|apply kind_from_own_clauses]; exact RA.
Qed.

(* ... in particular the entries whose data name holds a usage word, PIC or PICTURE *)
Theorem name_with_usage_word : forall e n cs, ce_cs e = CName n :: cs -> ce_ok e = true ->
  name_bears_keyword n = true -> clauses_in_domain e = true ->
  respelling_domain e = true
  /\ calcsize_text (ctext (spec_entry e)) = own_size e
  /\ kind_of_cobol (ctext (spec_entry e)) = own_kind e.
Proof.
  intros e n cs E OK _ CD. unfold clauses_in_domain in CD.
  rewrite (domain_name_irrelevant e n cs neutral_name E OK eq_refl) in CD.
  split; [exact CD|]. apply text_gives_own_clauses. exact CD.
Qed.

(* the data name plays no part at all: whatever the name, the entry is in the respelling domain exactly when its clauses are *)
Theorem domain_is_about_clauses : forall e n cs, ce_cs e = CName n :: cs -> ce_ok e = true ->
  respelling_domain e = clauses_in_domain e.
Proof. intros e n cs E OK. unfold clauses_in_domain. symmetry. apply (domain_name_irrelevant e n cs neutral_name E OK eq_refl). Qed.

(* ---- composed with the picture scanner (C13) and the size specification (C04): S?9(m)V9(n) and X(k) / A(k) pictures ---- *)
Require SR.Spec.SchemaTruth SR.Proofs.PictureP SR.Spec.Fits SR.Spec.SizeCfg SR.Spec.SizeSplit SR.Proofs.EstructWidthP.

Lemma calcsize_total_digits : forall u s m n,
  SR.Model.Estruct.calcsize u (SR.Model.Estruct.mkpic s (m + n) 0) = SR.Model.Estruct.calcsize u (SR.Model.Estruct.mkpic s m n).
Proof.
  intros u s m n. unfold SR.Model.Estruct.calcsize, SR.Model.Estruct.picture_size, SR.Model.Estruct.sign_positions.
  cbn [SR.Model.Estruct.p_signed SR.Model.Estruct.p_int SR.Model.Estruct.p_frac].
  replace ((if s then 1 else 0) + N.of_nat (m + n) + N.of_nat 0) with ((if s then 1 else 0) + N.of_nat m + N.of_nat n) by lia.
  reflexivity.
Qed.

(* the scan of one numeric picture string, as Model/Pipeline.v calcsize_items and Model/TextLayout.v shape_body use it *)
Lemma numeric_picture_items : forall u s m n ri rf, (1 <= m + n)%nat ->
  calcsize_items [EUsage u; EPicture (SR.Spec.SchemaTruth.pic_text (SR.Spec.SchemaTruth.PNum s m n ri rf))]
  = match SR.Model.Estruct.calcsize u (SR.Model.Estruct.mkpic s m n) with Ok sz => ROk sz | Err ex => RErr ex end
  /\ match est_loop [EUsage u; EPicture (SR.Spec.SchemaTruth.pic_text (SR.Spec.SchemaTruth.PNum s m n ri rf))] usage_DISPLAY [] with
     | ROk (v, es) => shape_body v es = ShNum u s m n
     | _ => False
     end.
Proof.
  intros u s m n ri rf H. destruct (SR.Proofs.PictureP.printed_numeric s m n ri rf H) as (r & DP & SZ & GS & LI & LF & _ & _ & ZD).
  unfold calcsize_items. cbn [est_loop]. unfold SR.Model.Picture.dec_parse in DP.
  destruct (SR.Model.Picture.dec_normalize _) as [[es|ex]|]; try discriminate. cbn [est_loop rbind].
  destruct (SR.Model.Picture.size_loop es 0) as [size|ex] eqn:SL; try discriminate. injection DP as DP. subst r.
  cbn [SR.Model.Picture.p_size SR.Model.Picture.p_groups SR.Model.Picture.p_zoned] in *. split.
  - rewrite GS. subst size. destruct s; cbn [length Nat.leb Nat.eqb andb]; rewrite <- (calcsize_total_digits u _ m n).
    + replace (1 + m + n - 1)%nat with (m + n)%nat by lia. reflexivity.
    + replace (0 + m + n - 0)%nat with (m + n)%nat by lia. reflexivity.
  - unfold shape_body. rewrite SL, ZD, GS, LI, LF. destruct s; reflexivity.
Qed.

Theorem text_size_numeric : forall e s m n ri rf, respelling_domain e = true ->
  i_pic (spec_info e) = Some (SR.Spec.SchemaTruth.pic_text (SR.Spec.SchemaTruth.PNum s m n ri rf)) -> (1 <= m + n)%nat ->
  In (usage_number (spec_info e), s, m, n) SR.Spec.SizeCfg.cfgs ->
  SR.Spec.SizeSplit.known_bad_calcsize (usage_number (spec_info e), s, m, n) = None ->
  exists sz, SR.Spec.Fits.spec_size (usage_number (spec_info e)) s m n = Some sz /\ calcsize_text (ctext (spec_entry e)) = ROk sz.
Proof.
  intros e s m n ri rf RD IP H I KB. destruct (text_gives_own_clauses e RD) as [SZ _].
  destruct (SR.Proofs.EstructWidthP.C04c_size_lemma _ I KB) as (sz & SS & CS). exists sz. split; [exact SS|].
  rewrite SZ. unfold own_size. rewrite IP. rewrite (proj1 (numeric_picture_items _ s m n ri rf H)), CS. reflexivity.
Qed.

Theorem text_kind_numeric : forall e s m n ri rf, respelling_domain e = true ->
  i_pic (spec_info e) = Some (SR.Spec.SchemaTruth.pic_text (SR.Spec.SchemaTruth.PNum s m n ri rf)) -> (1 <= m + n)%nat ->
  kind_of_cobol (ctext (spec_entry e)) = kind_of_shape (ShNum (usage_number (spec_info e)) s m n).
Proof.
  intros e s m n ri rf RD IP H. destruct (text_gives_own_clauses e RD) as [_ K]. rewrite K. unfold own_kind. rewrite IP.
  pose proof (proj2 (numeric_picture_items (usage_number (spec_info e)) s m n ri rf H)) as S.
  destruct (est_loop _ usage_DISPLAY []) as [[v es]|ex|w]; try contradiction. rewrite S. reflexivity.
Qed.

Theorem text_size_alnum : forall e alpha k rep, respelling_domain e = true ->
  i_pic (spec_info e) = Some (SR.Spec.SchemaTruth.pic_text (SR.Spec.SchemaTruth.PText alpha k rep)) -> (1 <= k)%nat ->
  usage_number (spec_info e) = usage_DISPLAY ->
  calcsize_text (ctext (spec_entry e)) = ROk (N.of_nat k).
Proof.
  intros e alpha k rep RD IP H U. destruct (text_gives_own_clauses e RD) as [SZ _]. rewrite SZ. unfold own_size. rewrite IP, U.
  destruct (SR.Proofs.PictureP.printed_text alpha k rep H) as (r & DP & PS & _ & GS & _).
  unfold calcsize_items. cbn [est_loop]. unfold SR.Model.Picture.dec_parse in DP.
  destruct (SR.Model.Picture.dec_normalize _) as [[es|ex]|]; try discriminate. cbn [est_loop rbind].
  destruct (SR.Model.Picture.size_loop es 0) as [size|ex] eqn:SL; try discriminate. injection DP as DP. subst r.
  cbn [SR.Model.Picture.p_size SR.Model.Picture.p_groups] in *. rewrite GS. subst size. cbn [length Nat.leb Nat.eqb andb].
  rewrite Nat.sub_0_r. unfold SR.Model.Estruct.calcsize, SR.Model.Estruct.picture_size. cbn [SR.Model.Estruct.p_signed SR.Model.Estruct.p_int SR.Model.Estruct.p_frac].
  replace (0 + N.of_nat k + N.of_nat 0) with (N.of_nat k) by lia.
  destruct (N.eqb_spec (N.of_nat k) 0) as [Z|NZ]; [lia|]. reflexivity.
Qed.

(* ================================================================ 6. the pattern before the repair *)
(* est_bounds_old: the same pattern without its two assertions (clause_pattern as it was before the repair of finding
   K-name-contains-usage), on the four example texts of Spec/SecondParseWf.v *)

Lemma old_pattern_sizes :
  map (calcsize_text_b est_bounds_old) [t_EMP_COMPANY; t_WS_COMP_DATE; t_TOT_BINARY_CT; t_ELEMENTARY_PIC]
  = [ROk 8; ROk 4; ROk 2; RErr ValueError].
Proof. vm_compute. reflexivity. Qed.

Lemma new_pattern_sizes :
  map calcsize_text [t_EMP_COMPANY; t_WS_COMP_DATE; t_TOT_BINARY_CT; t_ELEMENTARY_PIC] = [ROk 10; ROk 8; ROk 3; ROk 4].
Proof. vm_compute. reflexivity. Qed.

Lemma e_emp_company_facts :
  ce_ok e_emp_company = true /\ name_bears_keyword n_EMP_COMPANY = true /\ clauses_in_domain e_emp_company = true
  /\ ctext (spec_entry e_emp_company) = t_EMP_COMPANY /\ own_size e_emp_company = ROk 10.
Proof. vm_compute. repeat split; reflexivity. Qed.

(* the size part of name_with_usage_word as a statement about an arbitrary pattern b: true of the pattern as it is, false of the
   pattern before the repair *)
Theorem name_with_usage_word_now :
  forall e n cs, ce_cs e = CName n :: cs -> ce_ok e = true -> name_bears_keyword n = true -> clauses_in_domain e = true ->
  calcsize_text_b est_bounds_now (ctext (spec_entry e)) = own_size e.
Proof. intros e n cs E OK B CD. exact (proj1 (proj2 (name_with_usage_word e n cs E OK B CD))). Qed.

Theorem name_with_usage_word_old_refuted :
  ~ (forall e n cs, ce_cs e = CName n :: cs -> ce_ok e = true -> name_bears_keyword n = true -> clauses_in_domain e = true ->
     calcsize_text_b est_bounds_old (ctext (spec_entry e)) = own_size e).
Proof.
  intros H. destruct e_emp_company_facts as (OK & B & CD & T & S).
  specialize (H e_emp_company n_EMP_COMPANY [CPicture p_X_10] eq_refl OK B CD). rewrite T, S in H.
  assert (O : calcsize_text_b est_bounds_old t_EMP_COMPANY = ROk 8) by (vm_compute; reflexivity). rewrite O in H. discriminate.
Qed.

(* ================================================================ 7. a syntactic part of the domain: PICTURE and USAGE clauses *)
(* The respelling domain is stated through the model's scan (reparse_agrees).  For the entries the codec properties speak about -
   a data name, a PICTURE clause and possibly a USAGE clause, in either order, reserved words in upper case, blank separators -
   membership is PROVED here for every name, every picture string and every usage spelling (plain_entry_in_domain). *)

(* ---- the match that was found is passed over ---- *)
Lemma est_scan_skip : forall m prev r, m <> [] -> est_scan prev (length m) (m ++ r) = est_scan (Some (last m 0)) 0 r.
Proof.
  induction m as [|c m IH]; intros prev r NE; [congruence|]. cbn [length app]. unfold est_scan. cbn [est_scan_b].
  destruct m as [|d m]; [reflexivity|]. change (last (c :: d :: m) 0) with (last (d :: m) 0). apply (IH (Some c) r). discriminate.
Qed.

Lemma est_scan_token : forall prev c m r it, est_token_at prev (c :: m ++ r) = Some (it, r) ->
  est_scan prev 0 (c :: m ++ r) = it :: est_scan (Some (last m c)) 0 r.
Proof.
  intros prev c m r it H. unfold est_scan, est_token_at in *. cbn [est_scan_b]. rewrite H. f_equal.
  rewrite app_length. replace (length m + length r - length r)%nat with (length m) by lia.
  destruct m as [|d m]; [reflexivity|]. change (last (d :: m) c) with (last (d :: m) c).
  rewrite (last_indep (d :: m) c 0) by discriminate. apply (est_scan_skip (d :: m) (Some c) r). discriminate.
Qed.

(* ---- the usage alternative ---- *)
Lemma alt_usage_trigger : forall s u r, est_alt_usage s = Some (u, r) ->
  exists w rest, In w (est_usage_words ++ [w_USAGE; w_IS]) /\ s = w ++ rest /\ ends_word rest = true.
Proof.
  intros s u r0 EU. unfold est_alt_usage, est_alt_usage_b in EU. destruct (first_some_in _ _ _ _ _ EU) as (x & I & F). clear EU.
  unfold opt_word_ws in I at 2. destruct (word_ws w_USAGE s) as [r1|] eqn:WU.
  - destruct (word_ws_spec _ _ _ WU) as (rest & E & W). exists w_USAGE, rest. split; [apply in_or_app; right; left; reflexivity|]. split; assumption.
  - cbn [flat_map] in I. rewrite app_nil_r in I. unfold opt_word_ws in I. destruct (word_ws w_IS s) as [r2|] eqn:WI.
    + destruct (word_ws_spec _ _ _ WI) as (rest & E & W). exists w_IS, rest. split; [apply in_or_app; right; right; left; reflexivity|]. split; assumption.
    + destruct I as [<-|[]]. unfold est_usage_at_b in F. destruct (est_usage_from_spec _ _ _ _ _ _ F) as (w & Iw & L & A).
      exists w, r0. split; [apply in_or_app; left; exact Iw|]. split; [apply lit_cs_app; exact L|]. rewrite <- after_ok_ends. exact A.
Qed.

Lemma usage_words_are_words : forallb name_chars est_usage_words = true.
Proof. vm_compute. reflexivity. Qed.

(* the usage word W, written out and ending there, is found with its own number *)
Lemma usage_from_closed : forall ws i W rest, forallb name_chars ws = true -> name_chars W = true -> ends_word rest = true ->
  est_usage_from ws i (W ++ rest) = match index_of W ws i with Some u => Some (u, rest) | None => None end.
Proof.
  induction ws as [|w ws IH]; intros i W rest Hws HW R; [reflexivity|]. unfold est_usage_from in *. cbn [est_usage_from_b index_of].
  cbn [forallb] in Hws. apply andb_true_iff in Hws as [Hw Hws].
  destruct (SR.Model.Structure.str_eqb w W) eqn:E.
  - apply SR.Proofs.StructureP.str_eqb_eq in E. subst w. rewrite lit_cs_refl. rewrite after_ok_ends, R. reflexivity.
  - assert (NE : w <> W) by (intro X; subst w; rewrite SR.Proofs.StructureP.str_eqb_refl in E; discriminate).
    destruct (lit_cs w (W ++ rest)) as [rest'|] eqn:L; [|apply IH; assumption].
    rewrite after_ok_ends. destruct (ends_word rest') eqn:R'; [|apply IH; assumption].
    exfalso. apply NE. apply lit_cs_app in L. apply (name_run_unique w W rest' rest Hw HW R' R). symmetry. exact L.
Qed.

Lemma index_of_In : forall w l i u, index_of w l i = Some u -> In w l.
Proof.
  intros w. induction l as [|x l IH]; intros i u H; cbn [index_of] in H; [discriminate|].
  destruct (SR.Model.Structure.str_eqb x w) eqn:E; [left; apply SR.Proofs.StructureP.str_eqb_eq; exact E|right; apply (IH _ _ H)].
Qed.

Lemma usage_at_closed : forall W rest u, index_of W est_usage_words 0 = Some u -> ends_word rest = true ->
  est_usage_at (W ++ rest) = Some (u, rest).
Proof.
  intros W rest u I R. unfold est_usage_at, est_usage_at_b. change (est_usage_from_b est_bounds_now) with est_usage_from.
  assert (HW : name_chars W = true).
  { pose proof usage_words_are_words as A. rewrite forallb_forall in A. apply A. apply (index_of_In _ _ _ _ I). }
  rewrite (usage_from_closed est_usage_words 0 W rest usage_words_are_words HW R), I. reflexivity.
Qed.

(* a text that does not begin with the letter x does not begin with a word that does *)
Lemma lit_cs_other_letter : forall x w c t, c <> x -> lit_cs (x :: w) (c :: t) = None.
Proof. intros x w c t H. cbn [lit_cs]. destruct (N.eqb_spec c x); [congruence|reflexivity]. Qed.

Lemma usage_words_first_letter : forallb (fun w => match w with c :: _ => negb (c =? 85) && negb (c =? 73) | [] => false end) est_usage_words = true.
Proof. vm_compute. reflexivity. Qed.

Lemma usage_word_no_intro : forall W rest u, index_of W est_usage_words 0 = Some u ->
  word_ws w_USAGE (W ++ rest) = None /\ word_ws w_IS (W ++ rest) = None.
Proof.
  intros W rest u I.
  assert (IN : In W est_usage_words) by apply (index_of_In _ _ _ _ I).
  pose proof usage_words_first_letter as A. rewrite forallb_forall in A. specialize (A W IN). destruct W as [|c W]; [discriminate|].
  apply andb_true_iff in A as [A1 A2]. apply negb_true_iff in A1. apply negb_true_iff in A2. apply N.eqb_neq in A1. apply N.eqb_neq in A2.
  unfold word_ws, w_USAGE, w_IS. cbn [app]. rewrite (lit_cs_other_letter 85 _ c _ A1), (lit_cs_other_letter 73 _ c _ A2). split; reflexivity.
Qed.

(* blanks in front of a text that does not begin with white space *)
Lemma ws1_blank : forall X, (match X with c :: _ => SR.Model.Clauses.is_ws c = false | [] => True end) -> ws1 (32 :: X) = Some X.
Proof.
  intros X H. unfold ws1. cbn [SR.Model.Clauses.span]. change (SR.Model.Clauses.is_ws 32) with true. cbv iota.
  destruct X as [|c X]; [reflexivity|]. cbn [SR.Model.Clauses.span]. rewrite H. reflexivity.
Qed.

(* the three introductions of a usage word the printer writes: nothing, USAGE, USAGE IS (single blanks: compact text) *)
Definition usage_intro (k : N) : list N :=
  match k with 0 => [] | 1 => w_USAGE ++ [32] | _ => w_USAGE ++ [32] ++ w_IS ++ [32] end.

Lemma token_usage_clause : forall prev k W rest u, boundary prev = true -> index_of W est_usage_words 0 = Some u ->
  ends_word rest = true -> est_token_at prev (usage_intro k ++ W ++ rest) = Some (EUsage u, rest).
Proof.
  intros prev k W rest u B I R. unfold est_token_at, est_token_at_b. rewrite before_ok_boundary, B.
  change (est_alt_usage_b est_bounds_now) with est_alt_usage.
  destruct (usage_word_no_intro W rest u I) as [NU NI].
  assert (WS : match W ++ rest with c :: _ => SR.Model.Clauses.is_ws c = false | [] => True end).
  { pose proof usage_words_are_words as A. rewrite forallb_forall in A.
    assert (IN : In W est_usage_words) by apply (index_of_In _ _ _ _ I).
    specialize (A W IN). destruct W as [|c W]; [pose proof usage_words_first_letter as F; rewrite forallb_forall in F; specialize (F [] IN); discriminate|].
    cbn [app]. cbn [name_chars forallb] in A. apply andb_true_iff in A as [A _].
    destruct (SR.Model.Clauses.is_ws c) eqn:W0; [|reflexivity]. rewrite (ws_not_name_char c W0) in A. discriminate. }
  assert (EA : est_alt_usage (usage_intro k ++ W ++ rest) = Some (u, rest)).
  { unfold est_alt_usage, est_alt_usage_b. change (est_usage_at_b est_bounds_now) with est_usage_at.
    destruct k as [|[q|q|]]; cbn [usage_intro].
    - cbn [app]. unfold opt_word_ws. rewrite NU. cbn [flat_map]. rewrite NI. cbn [app SR.Model.Clauses.first_some].
      rewrite (usage_at_closed W rest u I R). reflexivity.
    - (* USAGE IS *)
      rewrite <- !app_assoc. unfold opt_word_ws at 2. unfold word_ws at 1. rewrite lit_cs_refl. cbn [app].
      rewrite (ws1_blank (w_IS ++ 32 :: W ++ rest)) by reflexivity. cbn [flat_map].
      unfold opt_word_ws at 1. unfold word_ws at 1. rewrite lit_cs_refl. rewrite (ws1_blank (W ++ rest) WS).
      cbn [app SR.Model.Clauses.first_some]. rewrite (usage_at_closed W rest u I R). reflexivity.
    - rewrite <- !app_assoc. unfold opt_word_ws at 2. unfold word_ws at 1. rewrite lit_cs_refl. cbn [app].
      rewrite (ws1_blank (w_IS ++ 32 :: W ++ rest)) by reflexivity. cbn [flat_map].
      unfold opt_word_ws at 1. unfold word_ws at 1. rewrite lit_cs_refl. rewrite (ws1_blank (W ++ rest) WS).
      cbn [app SR.Model.Clauses.first_some]. rewrite (usage_at_closed W rest u I R). reflexivity.
    - (* USAGE *)
      rewrite <- !app_assoc. unfold opt_word_ws at 2. unfold word_ws at 1. rewrite lit_cs_refl. cbn [app]. rewrite (ws1_blank (W ++ rest) WS).
      cbn [flat_map]. unfold opt_word_ws at 1. rewrite NI. cbn [app SR.Model.Clauses.first_some].
      rewrite (usage_at_closed W rest u I R). reflexivity. }
  rewrite EA. reflexivity.
Qed.

(* ---- the picture alternative ---- *)
Definition starts_ws (r : list N) : bool := match r with [] => true | c :: _ => SR.Model.Clauses.is_ws c end.

Lemma span_nonws : forall p rest, forallb SR.Model.Clauses.non_ws p = true -> starts_ws rest = true ->
  SR.Model.Clauses.span SR.Model.Clauses.non_ws (p ++ rest) = (p, rest).
Proof.
  induction p as [|c p IH]; intros rest H R.
  - cbn [app]. destruct rest as [|d rest]; [reflexivity|]. cbn [SR.Model.Clauses.span]. unfold SR.Model.Clauses.non_ws at 1.
    cbn [starts_ws] in R. rewrite R. reflexivity.
  - cbn [forallb] in H. apply andb_true_iff in H as [H1 H2]. cbn [app SR.Model.Clauses.span]. rewrite H1, (IH rest H2 R). reflexivity.
Qed.

Lemma nonws1_word : forall p rest, p <> [] -> forallb SR.Model.Clauses.non_ws p = true -> starts_ws rest = true ->
  SR.Model.Clauses.nonws1 (p ++ rest) = Some (p, rest).
Proof.
  intros p rest NE H R. unfold SR.Model.Clauses.nonws1, SR.Model.Clauses.plus1. rewrite (span_nonws p rest H R).
  destruct p; [congruence|reflexivity].
Qed.

Lemma pic_words_eq : est_pic_words = [w_PIC; w_PICTURE].
Proof. reflexivity. Qed.

Lemma pic_words_not_usage :
  forallb (fun w => negb (existsb (SR.Model.Structure.str_eqb w) (est_usage_words ++ [w_USAGE; w_IS]))) est_pic_words = true.
Proof. vm_compute. reflexivity. Qed.

Definition pic_is (is : bool) : list N := if is then w_IS ++ [32] else [].

Lemma pic_body : forall is p rest, p <> [] -> forallb SR.Model.Clauses.non_ws p = true -> hd 0 p <> 73 -> starts_ws rest = true ->
  est_pic_body (pic_is is ++ p ++ rest) = Some (p, rest).
Proof.
  intros is p rest NE H HI R. unfold est_pic_body.
  assert (NW : match p ++ rest with c :: _ => SR.Model.Clauses.is_ws c = false | [] => True end).
  { destruct p as [|c p]; [congruence|]. cbn [app forallb] in *. apply andb_true_iff in H as [H _]. unfold SR.Model.Clauses.non_ws in H.
    apply negb_true_iff in H. exact H. }
  destruct is; cbn [pic_is].
  - unfold word_ws at 1. rewrite <- app_assoc. rewrite lit_cs_refl. cbn [app]. rewrite (ws1_blank (p ++ rest) NW).
    rewrite (nonws1_word p rest NE H R). reflexivity.
  - cbn [app]. assert (WI : word_ws w_IS (p ++ rest) = None).
    { destruct p as [|c p]; [congruence|]. cbn [hd] in HI. unfold word_ws, w_IS. cbn [app]. rewrite (lit_cs_other_letter 73 _ c _ HI). reflexivity. }
    rewrite WI. apply nonws1_word; assumption.
Qed.

Lemma token_picture_clause : forall prev PW is p rest, boundary prev = true -> In PW est_pic_words ->
  p <> [] -> forallb SR.Model.Clauses.non_ws p = true -> hd 0 p <> 73 -> starts_ws rest = true ->
  est_token_at prev (PW ++ 32 :: pic_is is ++ p ++ rest) = Some (EPicture p, rest).
Proof.
  intros prev PW is p rest B IN NE H HI R. unfold est_token_at, est_token_at_b. rewrite before_ok_boundary, B.
  change (est_alt_usage_b est_bounds_now) with est_alt_usage.
  assert (NU : est_alt_usage (PW ++ 32 :: pic_is is ++ p ++ rest) = None).
  { destruct (est_alt_usage _) as [[u r]|] eqn:E; [|reflexivity]. exfalso.
    destruct (alt_usage_trigger _ _ _ E) as (w & rest0 & I & Eq & R0).
    assert (Hw : name_chars w = true).
    { assert (A : forallb name_chars (est_usage_words ++ [w_USAGE; w_IS]) = true) by (vm_compute; reflexivity).
      rewrite forallb_forall in A. apply A. exact I. }
    assert (HP : name_chars PW = true).
    { pose proof triggers_are_words as A. rewrite forallb_forall in A. apply A. apply in_trigger_pic. exact IN. }
    assert (W : w = PW) by (apply (name_run_unique w PW rest0 (32 :: pic_is is ++ p ++ rest) Hw HP R0 eq_refl); symmetry; exact Eq).
    subst w. pose proof pic_words_not_usage as A. rewrite forallb_forall in A. specialize (A PW IN). apply negb_true_iff in A.
    assert (T : existsb (SR.Model.Structure.str_eqb PW) (est_usage_words ++ [w_USAGE; w_IS]) = true).
    { apply existsb_exists. exists PW. split; [exact I|apply SR.Proofs.StructureP.str_eqb_refl]. }
    rewrite T in A. discriminate. }
  rewrite NU.
  assert (NW : match pic_is is ++ p ++ rest with c :: _ => SR.Model.Clauses.is_ws c = false | [] => True end).
  { destruct is; cbn [pic_is]; [reflexivity|]. destruct p as [|c p]; [congruence|]. cbn [app forallb] in *. apply andb_true_iff in H as [H _].
    unfold SR.Model.Clauses.non_ws in H. apply negb_true_iff in H. exact H. }
  assert (EP : est_alt_picture (PW ++ 32 :: pic_is is ++ p ++ rest) = Some (p, rest)).
  { unfold est_alt_picture. rewrite pic_words_eq in *. destruct IN as [<-|[<-|[]]].
    - cbn [SR.Model.Clauses.first_some]. unfold word_ws at 1. rewrite lit_cs_refl. rewrite (ws1_blank _ NW).
      rewrite (pic_body is p rest NE H HI R). reflexivity.
    - cbn [SR.Model.Clauses.first_some].
      assert (F : word_ws w_PIC (w_PICTURE ++ 32 :: pic_is is ++ p ++ rest) = None) by reflexivity.
      rewrite F. unfold word_ws at 1. rewrite lit_cs_refl. rewrite (ws1_blank _ NW). rewrite (pic_body is p rest NE H HI R). reflexivity. }
  rewrite EP. reflexivity.
Qed.

(* ---- the scan of PICTURE and USAGE clauses standing alone or side by side (compact text: single blanks) ---- *)
Definition pic_text (PW : list N) (is : bool) (p : list N) : list N := PW ++ 32 :: pic_is is ++ p.
Definition use_text (k : N) (W : list N) : list N := usage_intro k ++ W.

Lemma est_scan_token_app : forall prev s r it, s <> [] -> est_token_at prev (s ++ r) = Some (it, r) ->
  est_scan prev 0 (s ++ r) = it :: est_scan (Some (last s 0)) 0 r.
Proof.
  intros prev [|c m] r it NE H; [congruence|]. cbn [app] in *. rewrite (est_scan_token prev c m r it H).
  destruct m as [|d m]; [reflexivity|]. change (last (c :: d :: m) 0) with (last (d :: m) 0).
  rewrite (last_indep (d :: m) c 0) by discriminate. reflexivity.
Qed.

Lemma est_scan_blank : forall prev rest, est_scan prev 0 (32 :: rest) = est_scan (Some 32) 0 rest.
Proof. intros prev rest. apply est_scan_none. apply no_token_nonletter. reflexivity. Qed.

Section PicUse.
Variables (PW : list N) (is : bool) (p : list N) (k : N) (W : list N) (u : N).
Hypothesis HPW : In PW est_pic_words.
Hypothesis Hp1 : p <> [].
Hypothesis Hp2 : forallb SR.Model.Clauses.non_ws p = true.
Hypothesis Hp3 : hd 0 p <> 73.
Hypothesis HW : index_of W est_usage_words 0 = Some u.

Lemma pic_text_nonempty : pic_text PW is p <> [].
Proof. unfold pic_text. destruct PW; discriminate. Qed.

Lemma use_text_nonempty : use_text k W <> [].
Proof.
  unfold use_text. pose proof (index_of_In _ _ _ _ HW) as IN. pose proof usage_words_first_letter as F. rewrite forallb_forall in F.
  specialize (F W IN). destruct W; [discriminate|]. destruct (usage_intro k); discriminate.
Qed.

Lemma token_pic : forall prev rest, boundary prev = true -> starts_ws rest = true ->
  est_token_at prev (pic_text PW is p ++ rest) = Some (EPicture p, rest).
Proof.
  intros prev rest B R. unfold pic_text. rewrite <- !app_assoc. cbn [app]. rewrite <- app_assoc.
  apply token_picture_clause; assumption.
Qed.

Lemma token_use : forall prev rest, boundary prev = true -> ends_word rest = true ->
  est_token_at prev (use_text k W ++ rest) = Some (EUsage u, rest).
Proof. intros prev rest B R. unfold use_text. rewrite <- app_assoc. apply token_usage_clause; assumption. Qed.

Lemma scan_pic_alone : est_scan (Some 32) 0 (pic_text PW is p) = [EPicture p].
Proof.
  rewrite <- (app_nil_r (pic_text PW is p)). rewrite (est_scan_token_app _ _ [] _ pic_text_nonempty (token_pic (Some 32) [] eq_refl eq_refl)).
  reflexivity.
Qed.

Lemma scan_pic_use : est_scan (Some 32) 0 (pic_text PW is p ++ 32 :: use_text k W) = [EPicture p; EUsage u].
Proof.
  rewrite (est_scan_token_app _ _ _ _ pic_text_nonempty (token_pic (Some 32) (32 :: use_text k W) eq_refl eq_refl)).
  rewrite est_scan_blank. rewrite <- (app_nil_r (use_text k W)).
  rewrite (est_scan_token_app _ _ [] _ use_text_nonempty (token_use (Some 32) [] eq_refl eq_refl)). reflexivity.
Qed.

Lemma scan_use_pic : est_scan (Some 32) 0 (use_text k W ++ 32 :: pic_text PW is p) = [EUsage u; EPicture p].
Proof.
  rewrite (est_scan_token_app _ _ _ _ use_text_nonempty (token_use (Some 32) (32 :: pic_text PW is p) eq_refl eq_refl)).
  rewrite est_scan_blank. rewrite <- (app_nil_r (pic_text PW is p)).
  rewrite (est_scan_token_app _ _ [] _ pic_text_nonempty (token_pic (Some 32) [] eq_refl eq_refl)). reflexivity.
Qed.
End PicUse.

(* ---- words separated by white space: split and compact ---- *)
Fixpoint spaced (ws : list (line * line)) : line :=
  match ws with [] => [] | (w, s) :: r => w ++ s ++ spaced r end.

Definition word_sep_ok (q : line * line) : Prop :=
  fst q <> [] /\ forallb (fun c => negb (SR.Model.RefFormat.is_ws c)) (fst q) = true /\ forallb SR.Model.RefFormat.is_ws (snd q) = true.

Fixpoint inner_seps (ws : list (line * line)) : Prop :=
  match ws with
  | [] => True
  | q :: r => match r with [] => True | _ :: _ => snd q <> [] /\ inner_seps r end
  end.

Lemma split_spaced : forall ws, Forall word_sep_ok ws -> inner_seps ws -> split (spaced ws) = map fst ws.
Proof.
  induction ws as [|[w s] r IH]; intros F I; [reflexivity|]. inversion F as [|? ? (NE & Hw & Hs) Fr]; subst. cbn [fst snd] in *.
  destruct r as [|q r'].
  - cbn [spaced map fst]. rewrite app_nil_r. apply split_word_end; assumption.
  - cbn [inner_seps snd] in I. destruct I as [NS I]. change (spaced ((w, s) :: q :: r')) with (w ++ s ++ spaced (q :: r')).
    rewrite (split_word_sep w s _ NE Hw NS Hs). rewrite (IH Fr I). reflexivity.
Qed.

Lemma spaced_app : forall a b, spaced (a ++ b) = spaced a ++ spaced b.
Proof.
  induction a as [|[w s] a IH]; intros b; [reflexivity|]. cbn [app spaced]. rewrite IH. rewrite <- !app_assoc. reflexivity.
Qed.

(* ---- plain spellings ---- *)
Lemma cased_nil : forall w, cased [] w = w.
Proof. induction w as [|c w IH]; [reflexivity|]. cbn [cased hd tl]. rewrite IH. reflexivity. Qed.

Lemma plain_kw : forall sp i w, plain_spell sp = true -> kw sp i w = w.
Proof.
  intros sp i w H. unfold plain_spell in H. apply andb_true_iff in H as [H _]. unfold kw. destruct (masks sp); [|discriminate].
  destruct i; apply cased_nil.
Qed.

Lemma plain_sep : forall sp i, plain_spell sp = true ->
  sep sp i <> [] /\ forallb SR.Model.RefFormat.is_ws (sep sp i) = true.
Proof.
  intros sp i H. unfold plain_spell in H. apply andb_true_iff in H as [_ H]. unfold sep.
  assert (B : blank_sep (nth i (seps sp) [32]) = true).
  { destruct (nth_in_or_default i (seps sp) [32]) as [I|E]; [|rewrite E; reflexivity]. rewrite forallb_forall in H. apply H. exact I. }
  unfold blank_sep in B. apply andb_true_iff in B as [B1 B2]. split; [destruct (nth i (seps sp) [32]); [discriminate|discriminate]|].
  apply all_blank_rws. exact B1.
Qed.

(* ---- the words of the two clauses ---- *)
Lemma pic_word_in : forall i, In (pic_word i) est_pic_words.
Proof.
  intros i. unfold pic_word. rewrite pic_words_eq. destruct (nth_in_or_default (N.to_nat i) [K_PIC; K_PICTURE] K_PIC) as [I|E].
  - exact I.
  - rewrite E. left. reflexivity.
Qed.

Lemma families_are_usage_words :
  forallb (fun f => forallb (fun w => existsb (SR.Model.Structure.str_eqb w) est_usage_words) f) ([K_DISPLAY] :: usage_table) = true.
Proof. vm_compute. reflexivity. Qed.

Lemma usage_word_in : forall fam i, In (usage_word fam i) est_usage_words.
Proof.
  intros fam i. pose proof families_are_usage_words as A. rewrite forallb_forall in A.
  assert (FI : In (usage_family fam) ([K_DISPLAY] :: usage_table)).
  { unfold usage_family. destruct (nth_in_or_default (N.to_nat fam) usage_table [K_DISPLAY]) as [I|E]; [right; exact I|left; symmetry; exact E]. }
  specialize (A _ FI). rewrite forallb_forall in A.
  assert (NE : usage_family fam <> []).
  { destruct FI as [<-|FI]; [discriminate|]. unfold usage_table in FI. cbn [In] in FI.
    repeat (destruct FI as [<-|FI]; [discriminate|]). contradiction. }
  assert (WI : In (usage_word fam i) (usage_family fam)).
  { unfold usage_word, usage_rep. destruct (nth_in_or_default (N.to_nat i) (usage_family fam) (hd K_DISPLAY (usage_family fam))) as [I|E]; [exact I|].
    rewrite E. destruct (usage_family fam); [congruence|left; reflexivity]. }
  specialize (A _ WI). apply existsb_exists in A as (x & I & E). apply SR.Proofs.StructureP.str_eqb_eq in E. subst x. exact I.
Qed.

Lemma index_of_complete : forall w l i, In w l -> exists u, index_of w l i = Some u.
Proof.
  intros w. induction l as [|x l IH]; intros i H; [destruct H|]. cbn [index_of].
  destruct (SR.Model.Structure.str_eqb x w) eqn:E; [eexists; reflexivity|]. destruct H as [->|H]; [rewrite SR.Proofs.StructureP.str_eqb_refl in E; discriminate|].
  apply IH. exact H.
Qed.

Lemma pic_char_facts : forall c, pic_char c = true ->
  SR.Model.RefFormat.is_ws c = false /\ SR.Model.Clauses.non_ws c = true.
Proof.
  intros c H. unfold pic_char in H. apply andb_true_iff in H as [H _]. apply andb_true_iff in H as [L U]. apply N.leb_le in L. apply N.leb_le in U.
  assert (A : forallb (fun x => (x <=? 32) || (127 <=? x)) SR.Model.RefFormat.ws_points = true) by (vm_compute; reflexivity).
  assert (B : forallb (fun x => (x <=? 32) || (127 <=? x)) SR.Gen.ClausesParams.ws_points = true) by (vm_compute; reflexivity).
  rewrite forallb_forall in A, B. split.
  - destruct (SR.Model.RefFormat.is_ws c) eqn:W; [|reflexivity]. unfold SR.Model.RefFormat.is_ws in W. apply existsb_exists in W as (x & I & E).
    apply N.eqb_eq in E. subst x. specialize (A c I). apply orb_true_iff in A as [A|A]; apply N.leb_le in A; lia.
  - unfold SR.Model.Clauses.non_ws. destruct (SR.Model.Clauses.is_ws c) eqn:W; [|reflexivity]. unfold SR.Model.Clauses.is_ws, SR.Model.Clauses.mem in W.
    apply existsb_exists in W as (x & I & E). apply N.eqb_eq in E. subst x. specialize (B c I). apply orb_true_iff in B as [B|B]; apply N.leb_le in B; lia.
Qed.

Lemma pic_ok_facts : forall p, pic_ok p = true ->
  p <> [] /\ forallb (fun c => negb (SR.Model.RefFormat.is_ws c)) p = true /\ forallb SR.Model.Clauses.non_ws p = true /\ hd 0 p <> 73.
Proof.
  intros p H. unfold pic_ok in H. destruct p as [|c p]; [discriminate|]. apply andb_true_iff in H as [H PC]. apply andb_true_iff in H as [NI _].
  split; [discriminate|].
  assert (G : forall q, forallb pic_char q = true ->
              forallb (fun c => negb (SR.Model.RefFormat.is_ws c)) q = true /\ forallb SR.Model.Clauses.non_ws q = true).
  { induction q as [|d q IH]; intros Q; [split; reflexivity|]. cbn [forallb] in *. apply andb_true_iff in Q as [Q1 Q2].
    destruct (pic_char_facts d Q1) as [F1 F2]. destruct (IH Q2) as [I1 I2]. rewrite F1, F2, I1, I2. split; reflexivity. }
  destruct (G _ PC) as [G1 G2]. split; [exact G1|]. split; [exact G2|]. cbn [hd]. intro E. subst c. discriminate.
Qed.

Lemma name_word_ok : forall w s, w <> [] -> name_chars w = true -> forallb SR.Model.RefFormat.is_ws s = true -> word_sep_ok (w, s).
Proof. intros w s NE H S. split; [exact NE|]. split; [apply name_no_rws; exact H|exact S]. Qed.

(* ---- the two clauses as words and separators ---- *)
Definition usage_choice (sp : cspell) : N := match chN sp 0 with 0 => 0 | 1 => 1 | _ => 2 end.

Definition pic_list (sp : cspell) (p a : line) : list (line * line) :=
  (pic_word (chN sp 0), sep sp 0) :: (if chb sp 1 then [(K_IS, sep sp 1)] else []) ++ [(p, a)].

Definition use_list (sp : cspell) (fam : N) (a : line) : list (line * line) :=
  (match chN sp 0 with 0 => [] | 1 => [(K_USAGE, sep sp 0)] | _ => [(K_USAGE, sep sp 0); (K_IS, sep sp 1)] end)
  ++ [(usage_word fam (chN sp 1), a)].

Lemma pic_clause_spaced : forall sp p a, plain_spell sp = true -> print_clause (CPicture p) sp ++ a = spaced (pic_list sp p a).
Proof.
  intros sp p a H. unfold print_clause, pic_list. rewrite !(plain_kw sp _ _ H). unfold opt. destruct (chb sp 1); cbn [spaced app];
    rewrite <- ?app_assoc; cbn [app]; rewrite ?app_nil_r; rewrite <- ?app_assoc; reflexivity.
Qed.

Lemma use_clause_spaced : forall sp fam a, plain_spell sp = true -> print_clause (CUsage fam) sp ++ a = spaced (use_list sp fam a).
Proof.
  intros sp fam a H. unfold print_clause, intro, use_list. rewrite !(plain_kw sp _ _ H).
  destruct (chN sp 0) as [|[q|q|]]; cbn [spaced app]; rewrite <- ?app_assoc; cbn [app]; rewrite ?app_nil_r; rewrite <- ?app_assoc; reflexivity.
Qed.

Lemma inner_seps_snoc_app : forall x w a y, inner_seps (x ++ [(w, a)]) -> inner_seps y -> (y <> [] -> a <> []) ->
  inner_seps (x ++ (w, a) :: y).
Proof.
  induction x as [|q x IH]; intros w a y I J K.
  - cbn [app inner_seps snd]. destruct y as [|q' y]; [exact I|]. split; [apply K; discriminate|exact J].
  - cbn [app] in *. assert (NE : x ++ [(w, a)] <> []) by (destruct x; discriminate).
    assert (NE' : x ++ (w, a) :: y <> []) by (destruct x; discriminate).
    cbn [inner_seps] in I. destruct (x ++ [(w, a)]) as [|z zs] eqn:E; [congruence|]. destruct I as [Sq I].
    cbn [inner_seps]. destruct (x ++ (w, a) :: y) as [|z' zs'] eqn:E'; [congruence|]. split; [exact Sq|].
    rewrite <- E'. apply IH; [rewrite E; exact I|exact J|exact K].
Qed.

Ltac forall_asm := repeat (first [apply Forall_nil | apply Forall_cons; [assumption|]]).

Lemma pic_list_ok : forall sp p a, plain_spell sp = true -> pic_ok p = true -> forallb SR.Model.RefFormat.is_ws a = true ->
  Forall word_sep_ok (pic_list sp p a) /\ inner_seps (pic_list sp p a)
  /\ join_sp (map fst (pic_list sp p a)) = pic_text (pic_word (chN sp 0)) (chb sp 1) p.
Proof.
  intros sp p a H P A. destruct (pic_ok_facts p P) as (NE & NW & _ & _).
  destruct (plain_sep sp 0 H) as [S0 W0]. destruct (plain_sep sp 1 H) as [S1 W1].
  assert (PWok : word_sep_ok (pic_word (chN sp 0), sep sp 0)).
  { pose proof (pic_word_in (chN sp 0)) as I. pose proof triggers_are_words as T. rewrite forallb_forall in T.
    specialize (T _ (in_trigger_pic _ I)). apply name_word_ok; [|exact T|exact W0].
    rewrite pic_words_eq in I. destruct I as [<-|[<-|[]]]; discriminate. }
  assert (ISok : word_sep_ok (K_IS, sep sp 1)) by (apply name_word_ok; [discriminate|reflexivity|exact W1]).
  assert (Pok : word_sep_ok (p, a)) by (split; [exact NE|split; [exact NW|exact A]]).
  unfold pic_list, pic_text, pic_is. destruct (chb sp 1); cbn [app].
  - split; [forall_asm|].     split; [cbn [inner_seps snd]; repeat split; assumption|]. cbn [map fst join_sp]. rewrite <- !app_assoc. reflexivity.
  - split; [forall_asm|].     split; [cbn [inner_seps snd]; repeat split; assumption|]. cbn [map fst join_sp]. reflexivity.
Qed.

Lemma use_list_ok : forall sp fam a, plain_spell sp = true -> forallb SR.Model.RefFormat.is_ws a = true ->
  Forall word_sep_ok (use_list sp fam a) /\ inner_seps (use_list sp fam a)
  /\ join_sp (map fst (use_list sp fam a)) = use_text (usage_choice sp) (usage_word fam (chN sp 1)).
Proof.
  intros sp fam a H A. destruct (plain_sep sp 0 H) as [S0 W0]. destruct (plain_sep sp 1 H) as [S1 W1].
  assert (Uok : word_sep_ok (K_USAGE, sep sp 0)) by (apply name_word_ok; [discriminate|reflexivity|exact W0]).
  assert (ISok : word_sep_ok (K_IS, sep sp 1)) by (apply name_word_ok; [discriminate|reflexivity|exact W1]).
  assert (Wok : word_sep_ok (usage_word fam (chN sp 1), a)).
  { pose proof (usage_word_in fam (chN sp 1)) as I. pose proof usage_words_are_words as T. rewrite forallb_forall in T.
    apply name_word_ok; [|exact (T _ I)|exact A]. pose proof usage_words_first_letter as F. rewrite forallb_forall in F. specialize (F _ I).
    destruct (usage_word fam (chN sp 1)); discriminate. }
  unfold use_list, use_text, usage_choice, usage_intro. destruct (chN sp 0) as [|[q|q|]]; cbn [app].
  - split; [forall_asm|].     split; [exact I|]. reflexivity.
  - split; [forall_asm|].     split; [cbn [inner_seps snd]; repeat split; assumption|]. cbn [map fst join_sp]. rewrite <- !app_assoc. reflexivity.
  - split; [forall_asm|].     split; [cbn [inner_seps snd]; repeat split; assumption|]. cbn [map fst join_sp]. rewrite <- !app_assoc. reflexivity.
  - split; [forall_asm|].     split; [cbn [inner_seps snd]; repeat split; assumption|]. cbn [map fst join_sp]. rewrite <- !app_assoc. reflexivity.
Qed.

Lemma join_sp_app : forall a b, a <> [] -> b <> [] -> join_sp (a ++ b) = join_sp a ++ 32 :: join_sp b.
Proof.
  induction a as [|w a IH]; intros b NA NB; [congruence|]. destruct a as [|w' a].
  - cbn [app]. destruct b as [|x b]; [congruence|]. reflexivity.
  - change ((w :: w' :: a) ++ b) with (w :: (w' :: a) ++ b). rewrite !join_sp_cons.
    assert (T : forall l, l <> [] -> join_tail l = 32 :: join_sp l) by (intros [|x l] N0; [congruence|reflexivity]).
    rewrite (T ((w' :: a) ++ b)) by discriminate. rewrite (T (w' :: a)) by discriminate. rewrite (IH b (ltac:(discriminate)) NB).
    rewrite <- app_assoc. reflexivity.
Qed.

(* ---- the scan of a named entry whose other clauses are given as words ---- *)
Lemma spaced_nonempty : forall L, L <> [] -> Forall word_sep_ok L -> spaced L <> [].
Proof.
  intros [|[w s] L] NE F; [congruence|]. inversion F as [|? ? (N0 & _) _]; subst. cbn [fst] in N0. cbn [spaced]. destruct w; [congruence|discriminate].
Qed.

Lemma named_entry_scan : forall e n cs L, ce_cs e = CName n :: cs -> ce_ok e = true ->
  print_items cs (tl (ce_sps e)) = spaced L -> L <> [] -> Forall word_sep_ok L -> inner_seps L ->
  est_items (ctext (spec_entry e)) = est_scan (Some 32) 0 (join_sp (map fst L)).
Proof.
  intros e n cs L E OK PR NE F I. rewrite (named_entry_items e n cs E OK). rewrite PR.
  destruct (named_entry_facts e n cs E OK) as (_ & _ & _ & D). rewrite PR in D.
  pose proof (spaced_nonempty L NE F) as SN.
  assert (SO : sep_ok (snd (hd sp_default (ce_sps e))) = true) by (destruct D as [D|[_ D]]; [exact D|congruence]).
  assert (J : join_tail (split (spaced L)) = 32 :: join_sp (map fst L)).
  { rewrite (split_spaced L F I). destruct L as [|q L]; [congruence|]. reflexivity. }
  destruct (snd (hd sp_default (ce_sps e))) as [|c bl]; [discriminate|]. cbn [name_tail]. destruct (is_blank c).
  - rewrite J. reflexivity.
  - rewrite J. cbn [scan_tail]. apply est_scan_blank.
Qed.

(* ---- the clause values of the three shapes ---- *)
Lemma usage_number_of : forall x W u, i_usage x = Some W -> index_of W est_usage_words 0 = Some u -> usage_number x = u.
Proof. intros x W u H I. unfold usage_number. rewrite H, I. reflexivity. Qed.

Lemma reparse_from_items : forall e items, est_items (ctext (spec_entry e)) = items -> (count_pic items <= 1)%nat ->
  last_usage items usage_DISPLAY = usage_number (spec_info e) -> last_pic items None = i_pic (spec_info e) -> reparse_agrees e = true.
Proof.
  intros e items EI C U P. unfold reparse_agrees. rewrite <- spec_entry_ctext, EI. apply Nat.leb_le in C. rewrite C, U, N.eqb_refl, P.
  cbn [andb]. destruct (i_pic (spec_info e)) as [q|]; [apply SR.Proofs.StructureP.str_eqb_refl|reflexivity].
Qed.

Lemma named_info : forall e n cs, ce_cs e = CName n :: cs ->
  i_pic (spec_info e) = lookup 7 (all_bindings cs (tl (ce_sps e)))
  /\ i_usage (spec_info e) = lookup 11 (all_bindings cs (tl (ce_sps e)))
  /\ lookup 13 (ce_dict e) = lookup 13 (all_bindings cs (tl (ce_sps e))).
Proof.
  intros e n cs E. unfold spec_info. cbn [i_pic i_usage]. unfold ce_dict, expected. rewrite E.
  rewrite SR.Proofs.ClausesP.lookup_sorted_7, lookup_sorted_11, SR.Proofs.ClausesP.lookup_sorted_13. rewrite !lookup_named by discriminate.
  repeat split; reflexivity.
Qed.

Theorem plain_entry_in_domain : forall e n cs, ce_cs e = CName n :: cs -> ce_ok e = true ->
  pic_usage_clauses cs = true -> plain_items cs (tl (ce_sps e)) = true -> respelling_domain e = true.
Proof.
  intros e n cs E OK SH PL.
  assert (IO : items_ok cs (tl (ce_sps e)) = true).
  { unfold ce_ok in OK. apply andb_true_iff in OK as [OK0 _]. apply andb_true_iff in OK0 as [PR _]. unfold printable in PR.
    apply andb_true_iff in PR as [_ IO]. rewrite E in IO. cbn [items_ok] in IO. apply andb_true_iff in IO as [_ IO]. exact IO. }
  destruct (named_info e n cs E) as (IP & IU & IF).
  set (sps := tl (ce_sps e)) in *.
  set (sp1 := fst (hd sp_default sps)) in *. set (a1 := snd (hd sp_default sps)) in *.
  set (sp2 := fst (hd sp_default (tl sps))) in *. set (a2 := snd (hd sp_default (tl sps))) in *.
  unfold respelling_domain. apply andb_true_iff.
  destruct cs as [|c1 [|c2 [|c3 cs]]]; [discriminate SH| | |destruct c1, c2; discriminate SH].
  - (* PICTURE *)
    destruct c1 as [| | | | |p| | | | | | | |]; try discriminate SH.
    cbn [plain_items] in PL. apply andb_true_iff in PL as [PL _]. apply andb_true_iff in PL as [P1 A1]. fold sp1 a1 in P1, A1.
    cbn [items_ok] in IO. apply andb_true_iff in IO as [IO _]. apply andb_true_iff in IO as [IO _]. apply andb_true_iff in IO as [CO _].
    fold sp1 in CO. unfold clause_ok in CO. apply andb_true_iff in CO as [_ PO].
    destruct (pic_ok_facts p PO) as (NE & _ & NW & HI).
    destruct (pic_list_ok sp1 p a1 P1 PO (all_blank_rws a1 A1)) as (F1 & I1 & J1).
    assert (PR : print_items [CPicture p] sps = spaced (pic_list sp1 p a1)).
    { cbn [print_items]. fold sp1 a1. rewrite app_nil_r. apply pic_clause_spaced. exact P1. }
    assert (NL : pic_list sp1 p a1 <> []) by (unfold pic_list; discriminate).
    pose proof (named_entry_scan e n [CPicture p] _ E OK PR NL F1 I1) as SC. rewrite J1 in SC.
    rewrite (scan_pic_alone _ _ p (pic_word_in _) NE NW HI) in SC.
    split.
    + unfold filler_exact. rewrite IF. reflexivity.
    + apply (reparse_from_items e _ SC); [cbn; lia| |].
      * cbn [last_usage]. unfold usage_number. rewrite IU. reflexivity.
      * cbn [last_pic]. rewrite IP. reflexivity.
  - (* two clauses *)
    cbn [plain_items] in PL. apply andb_true_iff in PL as [PL PL2]. apply andb_true_iff in PL as [P1 A1]. fold sp1 a1 in P1, A1.
    apply andb_true_iff in PL2 as [PL2 _]. apply andb_true_iff in PL2 as [P2 A2]. fold sp2 a2 in P2, A2.
    cbn [items_ok] in IO. apply andb_true_iff in IO as [IO IO2]. apply andb_true_iff in IO as [IO _]. apply andb_true_iff in IO as [CO AO].
    fold sp1 in CO. fold a1 in AO. cbn [items_ok] in IO2. apply andb_true_iff in IO2 as [IO2 _]. apply andb_true_iff in IO2 as [IO2 _].
    apply andb_true_iff in IO2 as [CO2 _]. fold sp2 in CO2.
    assert (NA1 : a1 <> []).
    { unfold after_ok in AO. apply andb_true_iff in AO as [AO _]. cbn match in AO. destruct a1; [discriminate AO|discriminate]. }
    destruct c1 as [| | | | |p1|fam1| | | | | | |]; try discriminate SH; destruct c2 as [| | | | |p2|fam2| | | | | | |]; try discriminate SH.
    + (* PICTURE, USAGE *)
      rename p1 into p, fam2 into fam.
      unfold clause_ok in CO. apply andb_true_iff in CO as [_ PO].
      destruct (pic_ok_facts p PO) as (NE & _ & NW & HI).
      destruct (pic_list_ok sp1 p a1 P1 PO (all_blank_rws a1 A1)) as (F1 & I1 & J1).
      destruct (use_list_ok sp2 fam a2 P2 (all_blank_rws a2 A2)) as (F2 & I2 & J2).
      destruct (index_of_complete _ _ 0 (usage_word_in fam (chN sp2 1))) as (u & IX).
      assert (PR : print_items [CPicture p; CUsage fam] sps = spaced (pic_list sp1 p a1 ++ use_list sp2 fam a2)).
      { cbn [print_items]. fold sp1 a1 sp2 a2. rewrite app_nil_r, spaced_app, <- (pic_clause_spaced sp1 p a1 P1), <- (use_clause_spaced sp2 fam a2 P2).
        rewrite <- !app_assoc. reflexivity. }
      assert (IS : inner_seps (pic_list sp1 p a1 ++ use_list sp2 fam a2)).
      { change (pic_list sp1 p a1) with (((pic_word (chN sp1 0), sep sp1 0) :: (if chb sp1 1 then [(K_IS, sep sp1 1)] else [])) ++ [(p, a1)]).
        rewrite <- app_assoc. apply inner_seps_snoc_app; [exact I1|exact I2|]. intros _. exact NA1. }
      assert (NL : pic_list sp1 p a1 ++ use_list sp2 fam a2 <> []) by (unfold pic_list; discriminate).
      pose proof (named_entry_scan e n _ _ E OK PR NL (proj2 (Forall_app _ _ _) (conj F1 F2)) IS) as SC.
      assert (NL1 : map fst (pic_list sp1 p a1) <> []) by (unfold pic_list; discriminate).
      assert (NL2 : map fst (use_list sp2 fam a2) <> []) by (unfold use_list; destruct (chN sp2 0) as [|[q|q|]]; discriminate).
      rewrite map_app, (join_sp_app _ _ NL1 NL2), J1, J2 in SC.
      rewrite (scan_pic_use _ _ p _ _ u (pic_word_in _) NE NW HI IX) in SC.
      split.
      * unfold filler_exact. rewrite IF. reflexivity.
      * apply (reparse_from_items e _ SC); [cbn; lia| |].
        -- cbn [last_usage]. symmetry. apply (usage_number_of _ (usage_word fam (chN sp2 1)) u); [|exact IX].
           rewrite IU. cbn [all_bindings bindings app]. fold sp1 sp2. rewrite (plain_kw sp2 _ _ P2). reflexivity.
        -- cbn [last_pic]. rewrite IP. reflexivity.
    + (* USAGE, PICTURE *)
      rename p2 into p, fam1 into fam.
      unfold clause_ok in CO2. apply andb_true_iff in CO2 as [_ PO].
      destruct (pic_ok_facts p PO) as (NE & _ & NW & HI).
      destruct (pic_list_ok sp2 p a2 P2 PO (all_blank_rws a2 A2)) as (F2 & I2 & J2).
      destruct (use_list_ok sp1 fam a1 P1 (all_blank_rws a1 A1)) as (F1 & I1 & J1).
      destruct (index_of_complete _ _ 0 (usage_word_in fam (chN sp1 1))) as (u & IX).
      assert (PR : print_items [CUsage fam; CPicture p] sps = spaced (use_list sp1 fam a1 ++ pic_list sp2 p a2)).
      { cbn [print_items]. fold sp1 a1 sp2 a2. rewrite app_nil_r, spaced_app, <- (pic_clause_spaced sp2 p a2 P2), <- (use_clause_spaced sp1 fam a1 P1).
        rewrite <- !app_assoc. reflexivity. }
      assert (IS : inner_seps (use_list sp1 fam a1 ++ pic_list sp2 p a2)).
      { unfold use_list. rewrite <- app_assoc. apply inner_seps_snoc_app; [exact I1|exact I2|]. intros _. exact NA1. }
      assert (NL : use_list sp1 fam a1 ++ pic_list sp2 p a2 <> []) by (unfold pic_list; destruct (use_list sp1 fam a1); discriminate).
      pose proof (named_entry_scan e n _ _ E OK PR NL (proj2 (Forall_app _ _ _) (conj F1 F2)) IS) as SC.
      assert (NL2 : map fst (pic_list sp2 p a2) <> []) by (unfold pic_list; discriminate).
      assert (NL1 : map fst (use_list sp1 fam a1) <> []) by (unfold use_list; destruct (chN sp1 0) as [|[q|q|]]; discriminate).
      rewrite map_app, (join_sp_app _ _ NL1 NL2), J1, J2 in SC.
      rewrite (scan_use_pic _ _ p _ _ u (pic_word_in _) NE NW HI IX) in SC.
      split.
      * unfold filler_exact. rewrite IF. reflexivity.
      * apply (reparse_from_items e _ SC); [cbn; lia| |].
        -- cbn [last_usage]. symmetry. apply (usage_number_of _ (usage_word fam (chN sp1 1)) u); [|exact IX].
           rewrite IU. cbn [all_bindings bindings app]. fold sp1 sp2. rewrite (plain_kw sp1 _ _ P1). reflexivity.
        -- cbn [last_pic]. rewrite IP. reflexivity.
Qed.
