(* Lemmas for C14c: from a path to its suffix (Model/RegistryPath.v) and on to the registry (Model/Registry.v).
   Stdlib only. *)
From Coq Require Import NArith List Bool Arith Lia.
Import ListNotations.
Require Import SR.Base.Res SR.Gen.RegistryParams SR.Spec.Lifecycle SR.Model.Registry SR.Model.RegistryPath.
Require Import SR.Proofs.LifecycleP.
Open Scope N_scope.

(* ------------------------------------------------------------------ characters *)
Lemma dot_not_slash : dot <> slash.
Proof. discriminate. Qed.

Lemma eqb_slash c : (c =? slash) = true -> c = slash.
Proof. apply N.eqb_eq. Qed.

Lemma not_in_cons {A} (x a : A) l : ~ In x (a :: l) <-> x <> a /\ ~ In x l.
Proof. simpl. split; [intros H; split; intro; apply H; auto|intros [H1 H2] [H|H]; [apply H1; symmetry; exact H|exact (H2 H)]]. Qed.

Lemma not_in_app {A} (x : A) l1 l2 : ~ In x (l1 ++ l2) <-> ~ In x l1 /\ ~ In x l2.
Proof. rewrite in_app_iff. tauto. Qed.

(* ------------------------------------------------------------------ str.split *)
Lemma split_slash_nonempty p : split_slash p <> [].
Proof.
  destruct p as [|c t]; cbn [split_slash]; [discriminate|].
  destruct (c =? slash); [discriminate|]. destruct (split_slash t); discriminate.
Qed.

Lemma split_noslash s : ~ In slash s -> split_slash s = [s].
Proof.
  induction s as [|c t IH]; intros H; cbn [split_slash]; [reflexivity|].
  apply not_in_cons in H as [Hc Ht].
  destruct (c =? slash) eqn:E; [apply eqb_slash in E; subst c; contradiction|].
  rewrite (IH Ht). reflexivity.
Qed.

Lemma split_app_slash a b : split_slash (a ++ slash :: b) = split_slash a ++ split_slash b.
Proof.
  induction a as [|c t IH]; cbn [app split_slash].
  - rewrite N.eqb_refl. reflexivity.
  - destruct (c =? slash); [rewrite IH; reflexivity|].
    rewrite IH. destruct (split_slash t) as [|h r] eqn:E; [exfalso; exact (split_slash_nonempty t E)|]. reflexivity.
Qed.

Lemma split_pieces_noslash p : Forall (fun x => ~ In slash x) (split_slash p).
Proof.
  induction p as [|c t IH]; cbn [split_slash]; [constructor; [intros []|constructor]|].
  destruct (c =? slash) eqn:E; [constructor; [intros []|exact IH]|].
  destruct (split_slash t) as [|h r]; [constructor; [|constructor]|].
  - intros [H|[]]. subst c. discriminate E.
  - inversion IH as [|? ? Hh Hr]; subst. constructor; [|exact Hr].
    intros [H|H]; [subst c; discriminate E|exact (Hh H)].
Qed.

(* ------------------------------------------------------------------ the tail of a path *)
Definition tail_of (p : str) : list str := filter keep_part (split_slash p).

Lemma tail_of_slash t : tail_of (slash :: t) = tail_of t.
Proof. unfold tail_of. cbn [split_slash]. rewrite N.eqb_refl. reflexivity. Qed.

Lemma path_tail_eq p : path_tail p = tail_of p.
Proof.
  destruct p as [|c0 t0]; [reflexivity|].
  unfold path_tail, splitroot.
  destruct (c0 =? slash) eqn:E0; [|reflexivity].
  apply eqb_slash in E0. subst c0. rewrite tail_of_slash.
  destruct t0 as [|c1 t1]; [reflexivity|].
  destruct (c1 =? slash) eqn:E1; [|reflexivity].
  apply eqb_slash in E1. subst c1.
  destruct t1 as [|c2 t2]; [cbn [snd]; rewrite tail_of_slash; reflexivity|].
  destruct (c2 =? slash); cbn [snd]; [reflexivity|rewrite tail_of_slash; reflexivity].
Qed.

Lemma tail_app_slash a b : tail_of (a ++ slash :: b) = tail_of a ++ tail_of b.
Proof. unfold tail_of. rewrite split_app_slash, filter_app. reflexivity. Qed.

Lemma tail_noslash s : ~ In slash s -> tail_of s = if keep_part s then [s] else [].
Proof. intros H. unfold tail_of. rewrite (split_noslash s H). reflexivity. Qed.

Lemma path_name_eq p : path_name p = last (tail_of p) [].
Proof. unfold path_name. rewrite path_tail_eq. reflexivity. Qed.

Lemma last_app_nonempty {A} (l1 l2 : list A) d : l2 <> [] -> last (l1 ++ l2) d = last l2 d.
Proof.
  intros H. induction l1 as [|x l1 IH]; [reflexivity|].
  cbn [app]. destruct (l1 ++ l2) eqn:E; [apply app_eq_nil in E as [_ E]; contradiction|].
  cbn [last]. exact IH.
Qed.

(* the part after the last slash decides, when it is a name ... *)
Lemma path_name_after_slash a b : tail_of b <> [] -> path_name (a ++ slash :: b) = path_name b.
Proof. intros H. rewrite !path_name_eq, tail_app_slash. apply last_app_nonempty. exact H. Qed.

(* ... and is skipped when it is not *)
Lemma path_name_skip a b : tail_of b = [] -> path_name (a ++ slash :: b) = path_name a.
Proof. intros H. rewrite !path_name_eq, tail_app_slash, H, app_nil_r. reflexivity. Qed.

Lemma path_name_noslash s : ~ In slash s -> keep_part s = true -> path_name s = s.
Proof. intros H K. rewrite path_name_eq, (tail_noslash s H), K. reflexivity. Qed.

Lemma keep_part_long (x : str) : (2 <= length x)%nat -> keep_part x = true.
Proof. destruct x as [|a [|b t]]; cbn [length]; intros H; try lia. reflexivity. Qed.

(* every string either has no slash or ends in a slash-free piece after its last slash *)
Lemma last_piece (d : str) : ~ In slash d \/ exists a b, d = a ++ slash :: b /\ ~ In slash b.
Proof.
  induction d as [|x d IH] using rev_ind; [left; intros []|].
  destruct (N.eq_dec x slash) as [->|Hx].
  - right. exists d, []. split; [reflexivity|intros []].
  - destruct IH as [H|(a & b & -> & Hb)].
    + left. apply not_in_app. split; [exact H|]. intros [E|[]]. exact (Hx E).
    + right. exists a, (b ++ [x]). split; [rewrite <- app_assoc; reflexivity|].
      apply not_in_app. split; [exact Hb|]. intros [E|[]]. exact (Hx E).
Qed.

(* the name of dir ++ seg for a slash-free seg: what follows the last slash of dir, then seg *)
Lemma name_of_dir_seg (dir seg : str) : ~ In slash seg ->
  exists seg0, ~ In slash seg0 /\ (keep_part (seg0 ++ seg) = true -> path_name (dir ++ seg) = seg0 ++ seg).
Proof.
  intros Hs. destruct (last_piece dir) as [H|(a & b & -> & Hb)].
  - exists dir. split; [exact H|]. intros K. apply path_name_noslash; [|exact K].
    apply not_in_app. split; assumption.
  - exists b. split; [exact Hb|]. intros K. rewrite <- app_assoc. cbn [app].
    assert (Hn : ~ In slash (b ++ seg)) by (apply not_in_app; split; assumption).
    rewrite path_name_after_slash; [apply path_name_noslash; assumption|].
    rewrite (tail_noslash _ Hn), K. discriminate.
Qed.

Lemma path_name_noslash_any p : ~ In slash (path_name p).
Proof.
  rewrite path_name_eq. unfold tail_of.
  assert (H : Forall (fun x => ~ In slash x) (filter keep_part (split_slash p))).
  { apply Forall_forall. intros x Hx. apply filter_In in Hx as [Hx _].
    pose proof (split_pieces_noslash p) as F. rewrite Forall_forall in F. apply F. exact Hx. }
  induction (filter keep_part (split_slash p)) as [|x l IH]; [intros []|].
  inversion H as [|? ? Hx Hl]; subst. destruct l as [|y l']; [exact Hx|]. apply IH. exact Hl.
Qed.

(* ------------------------------------------------------------------ str.rfind and PurePath.suffix *)
Fixpoint rfind (s : str) : option nat :=
  match s with
  | [] => None
  | c :: t => match rfind t with
              | Some k => Some (S k)
              | None => if c =? dot then Some O else None
              end
  end.

Lemma rfind_dot_eq s : forall i acc,
  rfind_dot s i acc = match rfind s with Some k => Some (i + k)%nat | None => acc end.
Proof.
  induction s as [|c t IH]; intros i acc; cbn [rfind_dot rfind]; [reflexivity|].
  rewrite IH. destruct (rfind t) as [k|]; [f_equal; lia|].
  destruct (c =? dot); [f_equal; lia|reflexivity].
Qed.

Lemma path_suffix_rfind s :
  path_suffix s = match rfind s with
                  | Some i => if (0 <? i)%nat && (i <? length s - 1)%nat then skipn i s else []
                  | None => []
                  end.
Proof. unfold path_suffix. rewrite rfind_dot_eq. destruct (rfind s); reflexivity. Qed.

Lemma rfind_none s : ~ In dot s -> rfind s = None.
Proof.
  induction s as [|c t IH]; intros H; cbn [rfind]; [reflexivity|].
  apply not_in_cons in H as [Hc Ht]. rewrite (IH Ht).
  destruct (c =? dot) eqn:E; [apply N.eqb_eq in E; subst c; exfalso; apply Hc; reflexivity|reflexivity].
Qed.

Lemma rfind_app a e : ~ In dot e -> rfind (a ++ dot :: e) = Some (length a).
Proof.
  intros H. induction a as [|c a IH]; cbn [app rfind length].
  - rewrite (rfind_none e H), N.eqb_refl. reflexivity.
  - rewrite IH. reflexivity.
Qed.

Lemma rfind_some_inv s : forall k, rfind s = Some k ->
  exists a e, s = a ++ dot :: e /\ length a = k /\ ~ In dot e.
Proof.
  induction s as [|c t IH]; intros k H; cbn [rfind] in H; [discriminate|].
  destruct (rfind t) as [j|] eqn:E.
  - injection H as <-. destruct (IH j eq_refl) as (a & e & -> & Hl & He).
    exists (c :: a), e. repeat split; [cbn [length]; lia|exact He].
  - destruct (c =? dot) eqn:Ec; [|discriminate]. injection H as <-.
    apply N.eqb_eq in Ec. subst c. exists [], t. repeat split.
    clear IH. induction t as [|x t IHt]; [intros []|].
    cbn [rfind] in E. destruct (rfind t) eqn:Et; [discriminate|].
    destruct (x =? dot) eqn:Ex; [discriminate|].
    intros [Hx|Hx]; [subst x; discriminate Ex|exact (IHt eq_refl Hx)].
Qed.

Lemma skipn_length_app {A} (a b : list A) : skipn (length a) (a ++ b) = b.
Proof. induction a as [|x a IH]; [reflexivity|exact IH]. Qed.

(* the last dot of the name starts the suffix when something stands before it and something after it *)
Lemma path_suffix_dot a e : a <> [] -> e <> [] -> ~ In dot e -> path_suffix (a ++ dot :: e) = dot :: e.
Proof.
  intros Ha He Hd. rewrite path_suffix_rfind, (rfind_app a e Hd), skipn_length_app.
  assert (H1 : (0 <? length a)%nat = true) by (apply Nat.ltb_lt; destruct a; [contradiction|cbn; lia]).
  assert (H2 : (length a <? length (a ++ dot :: e) - 1)%nat = true).
  { apply Nat.ltb_lt. rewrite app_length. cbn [length]. destruct e; [contradiction|cbn [length]; lia]. }
  rewrite H1, H2. reflexivity.
Qed.

Lemma path_suffix_trailing_dot a : path_suffix (a ++ [dot]) = [].
Proof.
  rewrite path_suffix_rfind, (rfind_app a []) by (intros []).
  assert (H : (length a <? length (a ++ [dot]) - 1)%nat = false).
  { apply Nat.ltb_ge. rewrite app_length. cbn [length]. lia. }
  rewrite H, andb_false_r. reflexivity.
Qed.

Lemma path_suffix_leading_dot e : ~ In dot e -> path_suffix (dot :: e) = [].
Proof. intros H. rewrite path_suffix_rfind. change (dot :: e) with ([] ++ dot :: e). rewrite (rfind_app [] e H). reflexivity. Qed.

Lemma path_suffix_nodot s : ~ In dot s -> path_suffix s = [].
Proof. intros H. rewrite path_suffix_rfind, (rfind_none s H). reflexivity. Qed.

(* a suffix, when there is one, is a dot followed by at least one character none of which is a dot,
   and it is the end of the name *)
Lemma path_suffix_shape s :
  path_suffix s = [] \/
  exists a e, s = a ++ dot :: e /\ a <> [] /\ e <> [] /\ ~ In dot e /\ path_suffix s = dot :: e.
Proof.
  rewrite path_suffix_rfind. destruct (rfind s) as [i|] eqn:E; [|left; reflexivity].
  destruct (rfind_some_inv s i E) as (a & e & -> & Hl & He).
  destruct ((0 <? i)%nat && (i <? length (a ++ dot :: e) - 1)%nat) eqn:C; [|left; reflexivity].
  right. exists a, e. apply andb_prop in C as [C1 C2].
  apply Nat.ltb_lt in C1. apply Nat.ltb_lt in C2. rewrite app_length in C2. cbn [length] in C2.
  repeat split.
  - intros ->. cbn [length] in Hl. lia.
  - intros ->. cbn [length] in C2. lia.
  - exact He.
  - rewrite <- Hl, skipn_length_app. reflexivity.
Qed.

(* ------------------------------------------------------------------ registered-style suffixes *)
Lemma reg_style_inv s : reg_style s = true ->
  exists e, s = dot :: e /\ e <> [] /\ ~ In dot e /\ ~ In slash e.
Proof.
  destruct s as [|c e]; cbn [reg_style]; [discriminate|]. intros H.
  apply andb_prop in H as [H H3]. apply andb_prop in H as [H1 H2].
  apply N.eqb_eq in H1. subst c. exists e. split; [reflexivity|].
  split; [destruct e; [discriminate H2|discriminate]|].
  rewrite forallb_forall in H3. split; intros Hin; apply H3 in Hin; apply andb_prop in Hin as [A B].
  - rewrite N.eqb_refl in A. discriminate A.
  - rewrite N.eqb_refl in B. discriminate B.
Qed.

Lemma reg_style_intro e : e <> [] -> ~ In dot e -> ~ In slash e -> reg_style (dot :: e) = true.
Proof.
  intros He Hd Hs. cbn [reg_style]. rewrite N.eqb_refl. cbn [andb].
  destruct e as [|x e']; [contradiction|]. cbn [negb andb]. apply forallb_forall. intros y Hy.
  apply andb_true_intro. split; apply negb_true_iff, N.eqb_neq; intros ->; [exact (Hd Hy)|exact (Hs Hy)].
Qed.

(* ------------------------------------------------------------------ suffix_of_path *)
(* dir ++ stem ++ sfx: whatever stands in front (directories with dots, leading slashes, dots inside
   the stem), a non-empty slash-free stem followed by a registered-style suffix has that suffix *)
Lemma suffix_exact (dir stem sfx : str) :
  stem <> [] -> ~ In slash stem -> reg_style sfx = true -> suffix_of_path (dir ++ stem ++ sfx) = sfx.
Proof.
  intros Hne Hns Hsty. destruct (reg_style_inv sfx Hsty) as (e & -> & He & Hd & Hs).
  assert (Hseg : ~ In slash (stem ++ dot :: e)).
  { apply not_in_app. split; [exact Hns|]. apply not_in_cons. split; [intros E; symmetry in E; exact (dot_not_slash E)|exact Hs]. }
  destruct (name_of_dir_seg dir (stem ++ dot :: e) Hseg) as (seg0 & _ & Hname).
  unfold suffix_of_path. rewrite Hname.
  - rewrite app_assoc. apply path_suffix_dot; [|exact He|exact Hd].
    intros E. apply app_eq_nil in E as [_ E]. contradiction.
  - apply keep_part_long. rewrite !app_length. cbn [length]. destruct stem; [contradiction|cbn [length]; lia].
Qed.

(* trailing slashes and trailing dot components do not count *)
Lemma suffix_trailing_slash p : suffix_of_path (p ++ [slash]) = suffix_of_path p.
Proof. unfold suffix_of_path. rewrite (path_name_skip p []); reflexivity. Qed.

Lemma suffix_trailing_dot_component p : suffix_of_path (p ++ [slash; dot]) = suffix_of_path p.
Proof. unfold suffix_of_path. rewrite (path_name_skip p [dot]); reflexivity. Qed.

(* a trailing '..' component is kept as the name, and is not resolved: no suffix *)
Lemma suffix_dotdot p : suffix_of_path (p ++ [slash; dot; dot]) = [] /\ suffix_of_path [dot; dot] = [].
Proof.
  split; [|reflexivity]. unfold suffix_of_path. rewrite (path_name_after_slash p [dot; dot]); [reflexivity|discriminate].
Qed.

(* a name that begins with its only dot (a dot-file) has no suffix *)
Lemma suffix_dotfile (dir e : str) :
  dir = [] \/ (exists d, dir = d ++ [slash]) -> e <> [] -> ~ In dot e -> ~ In slash e ->
  suffix_of_path (dir ++ dot :: e) = [].
Proof.
  intros Hdir He Hd Hs.
  assert (Hn : ~ In slash (dot :: e)) by (apply not_in_cons; split; [intros E; symmetry in E; exact (dot_not_slash E)|exact Hs]).
  assert (K : keep_part (dot :: e) = true) by (apply keep_part_long; destruct e; [contradiction|cbn [length]; lia]).
  unfold suffix_of_path. destruct Hdir as [->|(d & ->)].
  - cbn [app]. rewrite (path_name_noslash _ Hn K). apply path_suffix_leading_dot. exact Hd.
  - rewrite <- app_assoc. cbn [app]. rewrite path_name_after_slash.
    + rewrite (path_name_noslash _ Hn K). apply path_suffix_leading_dot. exact Hd.
    + rewrite (tail_noslash _ Hn), K. discriminate.
Qed.

(* a name that ends in a dot has no suffix *)
Lemma suffix_name_ends_in_dot (dir stem : str) :
  stem <> [] -> ~ In slash stem -> suffix_of_path (dir ++ stem ++ [dot]) = [].
Proof.
  intros Hne Hns.
  assert (Hseg : ~ In slash (stem ++ [dot])).
  { apply not_in_app. split; [exact Hns|]. intros [E|[]]. exact (dot_not_slash E). }
  destruct (name_of_dir_seg dir (stem ++ [dot]) Hseg) as (seg0 & _ & Hname).
  unfold suffix_of_path. rewrite Hname.
  - rewrite app_assoc. apply path_suffix_trailing_dot.
  - apply keep_part_long. rewrite !app_length. cbn [length]. destruct stem; [contradiction|cbn [length]; lia].
Qed.

(* dots in the directories do not count: a final name without a dot has no suffix *)
Lemma suffix_dirs_do_not_count (dir name : str) :
  name <> [] -> ~ In dot name -> ~ In slash name -> suffix_of_path (dir ++ slash :: name) = [].
Proof.
  intros Hne Hd Hs. unfold suffix_of_path.
  assert (K : keep_part name = true).
  { destruct name as [|c [|c' t]]; [contradiction| |reflexivity]. cbn [keep_part].
    apply negb_true_iff, N.eqb_neq. intros ->. apply Hd. left. reflexivity. }
  rewrite path_name_after_slash; [|rewrite (tail_noslash _ Hs), K; discriminate].
  rewrite (path_name_noslash _ Hs K). apply path_suffix_nodot. exact Hd.
Qed.

(* what a path can yield at all: nothing, or a registered-style suffix *)
Lemma suffix_shape p : suffix_of_path p = [] \/ reg_style (suffix_of_path p) = true.
Proof.
  unfold suffix_of_path. destruct (path_suffix_shape (path_name p)) as [H|(a & e & Hn & _ & He & Hd & Hsx)]; [left; exact H|].
  right. rewrite Hsx. apply reg_style_intro; [exact He|exact Hd|].
  pose proof (path_name_noslash_any p) as Hs. rewrite Hn in Hs.
  apply not_in_app in Hs as [_ Hs]. apply not_in_cons in Hs as [_ Hs]. exact Hs.
Qed.

(* what stands in front of a path that has a name of its own does not matter *)
Lemma suffix_prefix_irrelevant (pre rel : str) :
  has_name rel = true ->
  path_name (pre ++ slash :: rel) = path_name rel /\ suffix_of_path (pre ++ slash :: rel) = suffix_of_path rel.
Proof.
  intros H. unfold suffix_of_path.
  assert (E : path_name (pre ++ slash :: rel) = path_name rel).
  { apply path_name_after_slash. unfold has_name in H. rewrite path_tail_eq in H. intros E. rewrite E in H. discriminate H. }
  rewrite E. split; reflexivity.
Qed.

(* ------------------------------------------------------------------ the rule, both directions *)
Lemma no_piece_tail t : no_piece t = true <-> tail_of t = [].
Proof. unfold no_piece, tail_of. destruct (filter keep_part (split_slash t)); split; intros H; try reflexivity; discriminate H. Qed.

Lemma trailing_skip (q t : str) : trailing t = true -> path_name (q ++ t) = path_name q.
Proof.
  destruct t as [|c t']; intros H; [rewrite app_nil_r; reflexivity|].
  cbn [trailing] in H. apply andb_prop in H as [Hc Hn]. apply eqb_slash in Hc. subst c.
  apply path_name_skip. apply no_piece_tail. exact Hn.
Qed.

Lemma trailing_extend (t b : str) : trailing t = true -> tail_of b = [] -> trailing (t ++ slash :: b) = true.
Proof.
  intros Ht Hb. destruct t as [|c t']; cbn [app trailing].
  - rewrite N.eqb_refl. apply no_piece_tail. exact Hb.
  - cbn [trailing] in Ht. apply andb_prop in Ht as [Hc Hn]. rewrite Hc. cbn [andb].
    apply no_piece_tail. rewrite tail_app_slash, Hb, app_nil_r. apply no_piece_tail. exact Hn.
Qed.

(* a slash-free name with the suffix s is a non-empty stem followed by s *)
Lemma name_decomp (nm s : str) : ~ In slash nm -> path_suffix nm = s -> s <> [] ->
  exists stem, nm = stem ++ s /\ stem <> [] /\ ~ In slash stem /\ reg_style s = true.
Proof.
  intros Hns Hs Hne. destruct (path_suffix_shape nm) as [H|(a & e & Hn & Ha & He & Hd & Hsx)].
  - rewrite H in Hs. subst s. contradiction.
  - rewrite Hsx in Hs. subst s. exists a. rewrite Hn in Hns.
    apply not_in_app in Hns as [Hna Hne']. apply not_in_cons in Hne' as [_ Hse].
    repeat split; [exact Hn|exact Ha|exact Hna|apply reg_style_intro; assumption].
Qed.

Lemma suffix_rule_if (dir stem s t : str) :
  stem <> [] -> ~ In slash stem -> reg_style s = true -> trailing t = true ->
  suffix_of_path (dir ++ stem ++ s ++ t) = s.
Proof.
  intros H1 H2 H3 H4. unfold suffix_of_path.
  replace (dir ++ stem ++ s ++ t) with ((dir ++ stem ++ s) ++ t) by (rewrite <- !app_assoc; reflexivity).
  rewrite (trailing_skip _ t H4). apply (suffix_exact dir stem s H1 H2 H3).
Qed.

Lemma suffix_rule_only_if : forall (n : nat) (p s : str), (length p <= n)%nat ->
  suffix_of_path p = s -> s <> [] ->
  exists dir stem t, p = dir ++ stem ++ s ++ t /\ stem <> [] /\ ~ In slash stem /\ reg_style s = true /\ trailing t = true.
Proof.
  induction n as [|n IH]; intros p s Hlen Hs Hne.
  - destruct p; [|cbn in Hlen; lia]. subst s. exfalso. apply Hne. reflexivity.
  - destruct (last_piece p) as [Hno|(a & b & -> & Hb)].
    + unfold suffix_of_path in Hs. rewrite path_name_eq, (tail_noslash p Hno) in Hs.
      destruct (keep_part p) eqn:K; [|subst s; exfalso; apply Hne; reflexivity].
      cbn [last] in Hs. destruct (name_decomp p s Hno Hs Hne) as (stem & -> & H1 & H2 & H3).
      exists [], stem, []. rewrite app_nil_r. repeat split; assumption.
    + destruct (keep_part b) eqn:K.
      * unfold suffix_of_path in Hs. rewrite path_name_after_slash in Hs by (rewrite (tail_noslash b Hb), K; discriminate).
        rewrite (path_name_noslash b Hb K) in Hs.
        destruct (name_decomp b s Hb Hs Hne) as (stem & -> & H1 & H2 & H3).
        exists (a ++ [slash]), stem, []. rewrite app_nil_r, <- app_assoc. repeat split; assumption.
      * assert (Tb : tail_of b = []) by (rewrite (tail_noslash b Hb), K; reflexivity).
        unfold suffix_of_path in Hs. rewrite (path_name_skip a b Tb) in Hs.
        assert (Hla : (length a <= n)%nat) by (rewrite app_length in Hlen; cbn [length] in Hlen; lia).
        destruct (IH a s Hla Hs Hne) as (dir & stem & t & -> & H1 & H2 & H3 & H4).
        exists dir, stem, (t ++ slash :: b). rewrite <- !app_assoc.
        repeat split; try assumption. apply trailing_extend; assumption.
Qed.

Lemma suffix_rule (p s : str) : s <> [] ->
  (suffix_of_path p = s <->
   exists dir stem t, p = dir ++ stem ++ s ++ t /\ stem <> [] /\ ~ In slash stem /\ reg_style s = true /\ trailing t = true).
Proof.
  intros Hne. split.
  - intros H. exact (suffix_rule_only_if (length p) p s (le_n _) H Hne).
  - intros (dir & stem & t & -> & H1 & H2 & H3 & H4). apply suffix_rule_if; assumption.
Qed.

(* ------------------------------------------------------------------ open by path *)
Lemma open_path_is_open_suffix (r : registry) (p : str) : open_path r p = open_workbook r (suffix_of_path p).
Proof. reflexivity. Qed.

Lemma open_path_registered (ds : list (list str * N)) (dir stem sfx : str) :
  stem <> [] -> ~ In slash stem -> reg_style sfx = true ->
  open_path (register_all ds) (dir ++ stem ++ sfx) =
  match last_mention ds sfx with
  | Some c => (Ok c, [Construct c])
  | None => (Err NotImplementedError, [])
  end.
Proof.
  intros H1 H2 H3. rewrite open_path_is_open_suffix, (suffix_exact dir stem sfx H1 H2 H3).
  apply registry_matches_spec.
Qed.

Lemma open_path_history (pre : list (list str * N)) (names : list str) (c : N) (dir stem sfx : str) :
  stem <> [] -> ~ In slash stem -> reg_style sfx = true -> In sfx names ->
  open_path (register_all (pre ++ [(names, c)])) (dir ++ stem ++ sfx) = (Ok c, [Construct c]).
Proof.
  intros H1 H2 H3 Hin. rewrite open_path_is_open_suffix, (suffix_exact dir stem sfx H1 H2 H3).
  apply (proj1 (registry_last_wins (pre ++ [(names, c)]) sfx) pre names c []); [reflexivity|exact Hin|intros d []].
Qed.

(* no case folding: a path is refused unless ITS suffix, letter for letter, was registered *)
Lemma open_path_exact_spelling (ds : list (list str * N)) (dir stem sfx : str) :
  stem <> [] -> ~ In slash stem -> reg_style sfx = true ->
  (forall d, In d ds -> ~ In sfx (fst d)) ->
  open_path (register_all ds) (dir ++ stem ++ sfx) = (Err NotImplementedError, []).
Proof.
  intros H1 H2 H3 Hno. rewrite open_path_is_open_suffix, (suffix_exact dir stem sfx H1 H2 H3).
  apply (proj2 (registry_last_wins ds sfx)). exact Hno.
Qed.

Lemma open_path_refusal (r : registry) (p : str) e tr :
  open_path r p = (Err e, tr) -> e = NotImplementedError /\ tr = [] /\ reg_get r (suffix_of_path p) = None.
Proof. rewrite open_path_is_open_suffix. apply unknown_opens_nothing. Qed.

Lemma open_path_unknown (ds : list (list str * N)) (p : str) :
  (forall d, In d ds -> ~ In (suffix_of_path p) (fst d)) ->
  open_path (register_all ds) p = (Err NotImplementedError, []).
Proof. intros H. rewrite open_path_is_open_suffix. apply (proj2 (registry_last_wins ds (suffix_of_path p))). exact H. Qed.

(* the registry of the source: the empty suffix is not registered, so a path without a suffix is refused *)
Lemma global_refuses_no_suffix (p : str) :
  suffix_of_path p = [] -> open_path global_registry p = (Err NotImplementedError, []).
Proof. intros H. unfold open_path. rewrite H. vm_compute. reflexivity. Qed.

(* every suffix the source registers can be reached by a path *)
Lemma global_suffixes_reg_style :
  forallb (fun d => forallb reg_style (fst d)) registrations = true.
Proof. vm_compute. reflexivity. Qed.
