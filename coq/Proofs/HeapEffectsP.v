(* The heap model's frame theorem instantiated with the effect summary read from the CURRENT source (Gen/EffectParams.v), and
   the tie of its class-level sites to the state machine of the second half (Model/Globals.v through Gen/GlobalsParams.v).
   Every lemma here is a computation on the generated table: a source edit that adds an ALIAS / SCHEMANODE / deeper write, a
   process-wide write that Model/Globals.v does not account for, or removes the summary of an entry point, makes this file
   stop compiling. *)
From Coq Require Import String List Bool Arith.
Import ListNotations.
Require Import SR.Model.HeapRule SR.Model.Heap SR.Proofs.HeapP.
Require Import SR.Gen.EffectParams SR.Gen.GlobalsParams.
Open Scope string_scope.
Open Scope list_scope.

Lemma current_table_clean : table_clean effects = true.
Proof. vm_compute. reflexivity. Qed.

Lemma current_source_frame : forall (h : list call) (s0 s1 : st), run effects s0 h = Some s1 ->
  (forall o ob, hget o (hp s0) = Some ob -> o_reg ob = RDoc -> hget o (hp s1) = Some ob)
  /\ (forall o ob, hget o (hp s0) = Some ob -> o_reg ob = RNode ->
      exists ob', hget o (hp s1) = Some ob' /\ o_reg ob' = RNode /\ o_kind ob' = o_kind ob
                  /\ forall k, k <> k_ref_to -> dget k (o_slots ob') = dget k (o_slots ob))
  /\ (doc_closed (hp s0) -> forall n o ob, hget o (hp s0) = Some ob -> o_reg ob = RDoc ->
      render n (hp s1) (VRef o) = render n (hp s0) (VRef o)).
Proof. exact (clean_table_frame effects current_table_clean). Qed.

Lemma entry_points_check : forallb (fun f => has_summary effects f && fn_clean effects f) entry_points = true.
Proof. vm_compute. reflexivity. Qed.

Lemma entry_points_summarised : forall f, In f entry_points -> has_summary effects f = true /\ fn_clean effects f = true.
Proof.
  intros f H. pose proof entry_points_check as E. rewrite forallb_forall in E. specialize (E f H).
  apply andb_true_iff in E. exact E.
Qed.

Lemma classlevel_check : same_sites (classlevel_sites effects) (globals_classlevel reset_at_start ext_mutates_atomic) = true.
Proof. vm_compute. reflexivity. Qed.

Lemma classlevel_modelled : forall x : fname * string,
  In x (classlevel_sites effects) <-> In x (globals_classlevel reset_at_start ext_mutates_atomic).
Proof. exact (same_sites_iff _ _ classlevel_check). Qed.

Lemma totals_check : forallb (fun mt => totals_eqb (totals_of effects (fst mt)) (snd mt)) module_totals = true.
Proof. vm_compute. reflexivity. Qed.

Lemma totals_eqb_eq : forall a b, totals_eqb a b = true -> a = b.
Proof.
  intros [a1 a2 a3 a4 a5] [b1 b2 b3 b4 b5]. unfold totals_eqb. cbn. intros H.
  repeat (apply andb_true_iff in H; destruct H as [H ?]).
  repeat match goal with E : Nat.eqb _ _ = true |- _ => apply Nat.eqb_eq in E end. subst. reflexivity.
Qed.

Lemma totals_consistent : forall m t, In (m, t) module_totals -> totals_of effects m = t.
Proof.
  intros m t H. pose proof totals_check as E. rewrite forallb_forall in E. specialize (E (m, t) H). cbn in E.
  apply totals_eqb_eq. exact E.
Qed.
