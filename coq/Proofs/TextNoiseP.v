(* Lemmas for Props/C12e.v: layer A of C12 (Proofs/RefFormatP.v: reference_format alone) composed with the whole-parser model
   (Model/Pipeline.v, Model/TextLayout.v), and the theorems of Props/C07b.v / C07c.v / C12d.v carried from the printer domain of
   Spec/Copybook.v to every text that reads as the entries (decorated copybooks, card decks with identification areas).
     1  factorisation: the pipeline model depends on the text only through reference_format's answer
     2  card-image noise changes nothing
     3  a list of text lines is the list of lines of its concatenation
     4  card decks: columns 1-6, a blank indicator, a code area of up to 65 characters, columns 73 onwards
     5  the text theorems for every text that reads as its entries
     6  decorated printed copybooks *)
From Coq Require Import NArith List Bool Arith Lia.
Import ListNotations.
Require Import SR.Base.Res.
Require Import SR.Model.RefFormat SR.Spec.RefFormat SR.Proofs.RefFormatP.
Require SR.Model.Structure SR.Proofs.StructureP.
Require Import SR.Model.Pipeline SR.Spec.Copybook SR.Proofs.PipelineP.
Require Import SR.Spec.Layout SR.Model.Layout SR.Proofs.LayoutP SR.Proofs.LayoutNamesP.
Require Import SR.Model.TextLayout SR.Proofs.TextLayoutP.
Require Export SR.Spec.TextNoiseWf.
Open Scope N_scope.

Local Notation str := SR.Model.Pipeline.str.

(* ================================================================ 1. factorisation *)
Lemma sentences_factor : forall text : str,
  sentences_of_text text = sentences_of_rf (reference_format (lines_of_text text) []).
Proof. reflexivity. Qed.

Lemma schemas_factor : forall text : str,
  schemas_of_text text = schemas_of_rf (reference_format (lines_of_text text) []).
Proof. reflexivity. Qed.

Lemma layouts_factor : forall text : str,
  layouts_of_text text = layouts_of_rf (reference_format (lines_of_text text) []).
Proof. reflexivity. Qed.

(* everything the models compute from a text, for two texts with the same sentences *)
Lemma same_sentences_all : forall a b : str, sentences_of_text a = sentences_of_text b ->
  schemas_of_text a = schemas_of_text b
  /\ entries_of_text a = entries_of_text b
  /\ forest_of_text a = forest_of_text b
  /\ layouts_of_text a = layouts_of_text b
  /\ (forall (B : Type) (k : nat) (dcount : list B -> nat) (r : list B) (p : list step),
        located a k dcount r p = located b k dcount r p)
  /\ (forall (xf : list xtree) (k : nat) (dcount : list N -> nat) (r : list N) (p : list step),
        value_in_text a xf k dcount r p = value_in_text b xf k dcount r p).
Proof.
  intros a b S.
  assert (SC : schemas_of_text a = schemas_of_text b) by (unfold schemas_of_text; rewrite S; reflexivity).
  assert (LA : layouts_of_text a = layouts_of_text b) by (unfold layouts_of_text; rewrite SC; reflexivity).
  split; [exact SC|]. split; [unfold entries_of_text; rewrite S; reflexivity|].
  split; [unfold forest_of_text; rewrite S; reflexivity|]. split; [exact LA|]. split.
  - intros B k dcount r p. unfold located. rewrite LA. reflexivity.
  - intros xf k dcount r p. unfold value_in_text. rewrite LA. reflexivity.
Qed.

Theorem factorisation : forall a b : str,
  reference_format (lines_of_text a) [] = reference_format (lines_of_text b) [] ->
  sentences_of_text a = sentences_of_text b
  /\ schemas_of_text a = schemas_of_text b
  /\ entries_of_text a = entries_of_text b
  /\ forest_of_text a = forest_of_text b
  /\ layouts_of_text a = layouts_of_text b
  /\ (forall (B : Type) (k : nat) (dcount : list B -> nat) (r : list B) (p : list step),
        located a k dcount r p = located b k dcount r p)
  /\ (forall (xf : list xtree) (k : nat) (dcount : list N -> nat) (r : list N) (p : list step),
        value_in_text a xf k dcount r p = value_in_text b xf k dcount r p).
Proof.
  intros a b H.
  assert (S : sentences_of_text a = sentences_of_text b) by (rewrite !sentences_factor, H; reflexivity).
  split; [exact S|]. apply same_sentences_all. exact S.
Qed.

(* only the code areas, one after the other, matter - not how they are cut into lines or continuation groups *)
Lemma concat_groups : forall cs, concat (groups cs) = concat (map snd cs).
Proof.
  induction cs as [|c r IH]; [reflexivity|]. cbn [groups map concat]. rewrite <- IH.
  destruct (groups r) as [|g gs]; [cbn [concat]; reflexivity|].
  destruct (next_is_cont r); cbn [concat]; rewrite ?app_assoc; reflexivity.
Qed.

Lemma rf_ok_code : forall src gs, reference_format src [] = Ok gs -> concat gs = code_of src.
Proof.
  intros src gs H. rewrite continuation, replace_cards_nil in H. unfold code_of. rewrite <- concat_groups.
  unfold checked in H. destruct (groups (cards src)) as [|g gs0]; [discriminate|].
  destruct (existsb starts_copy (removelast (g :: gs0))); [discriminate|]. injection H as <-. reflexivity.
Qed.

Theorem code_areas_only : forall (a b : str) ga gb,
  reference_format (lines_of_text a) [] = Ok ga -> reference_format (lines_of_text b) [] = Ok gb ->
  code_of (lines_of_text a) = code_of (lines_of_text b) ->
  sentences_of_text a = sentences_of_text b /\ schemas_of_text a = schemas_of_text b /\ layouts_of_text a = layouts_of_text b.
Proof.
  intros a b ga gb Ha Hb C.
  assert (S : sentences_of_text a = sentences_of_text b).
  { unfold sentences_of_text. rewrite Ha, Hb. unfold dde_sentences. rewrite (rf_ok_code _ _ Ha), (rf_ok_code _ _ Hb), C. reflexivity. }
  split; [exact S|]. destruct (same_sentences_all a b S) as (H1 & _ & _ & H2 & _). split; assumption.
Qed.

(* ================================================================ 2. card-image noise *)
Lemma decorated_rf : forall s s', decorated s s' -> forall repl, reference_format s repl = reference_format s' repl.
Proof.
  induction 1 as [s|s s' s'' H _ IH|s s' s'' H _ IH|s s' s'' H _ IH]; intros repl.
  - reflexivity.
  - rewrite (seq_area s s' repl H). apply IH.
  - rewrite <- (comments s s' repl H). apply IH.
  - rewrite (comments s' s repl H). apply IH.
Qed.

Lemma decorated_trans : forall a b c, decorated a b -> decorated b c -> decorated a c.
Proof.
  intros a b c H. revert c. induction H as [s|s s' s'' H _ IH|s s' s'' H _ IH|s s' s'' H _ IH]; intros c K.
  - exact K.
  - apply (dec_areas s s'); [exact H|apply IH; exact K].
  - apply (dec_add s s'); [exact H|apply IH; exact K].
  - apply (dec_drop s s'); [exact H|apply IH; exact K].
Qed.

Lemma seq_variant_sym : forall l l', seq_variant l l' -> seq_variant l' l.
Proof.
  intros l l' [H|[[H1 H2]|[(s & s' & mid & t & t' & E & E' & L & L' & M & W) [B D]]]].
  - left. symmetry. exact H.
  - right. left. split; assumption.
  - right. right. split.
    + exists s', s, mid, t', t. repeat split; try assumption. destruct W as [W|[W1 W2]]; [left; exact W|right; split; assumption].
    + split; symmetry; assumption.
Qed.

Lemma Forall2_sym : forall (X : Type) (P : X -> X -> Prop), (forall x y, P x y -> P y x) ->
  forall a b, Forall2 P a b -> Forall2 P b a.
Proof. intros X P S a b F. induction F; constructor; auto. Qed.

Lemma decorated_sym : forall a b, decorated a b -> decorated b a.
Proof.
  induction 1 as [s|s s' s'' H _ IH|s s' s'' H _ IH|s s' s'' H _ IH].
  - apply dec_same.
  - apply (decorated_trans _ _ _ IH). apply (dec_areas s' s); [|apply dec_same]. apply Forall2_sym; [exact seq_variant_sym|exact H].
  - apply (decorated_trans _ _ _ IH). apply (dec_drop s' s); [exact H|apply dec_same].
  - apply (decorated_trans _ _ _ IH). apply (dec_add s' s); [exact H|apply dec_same].
Qed.

Theorem noise_all : forall src src' : str, text_decorated src src' ->
  sentences_of_text src' = sentences_of_text src
  /\ schemas_of_text src' = schemas_of_text src
  /\ entries_of_text src' = entries_of_text src
  /\ forest_of_text src' = forest_of_text src
  /\ layouts_of_text src' = layouts_of_text src
  /\ (forall (B : Type) (k : nat) (dcount : list B -> nat) (r : list B) (p : list step),
        located src' k dcount r p = located src k dcount r p)
  /\ (forall (xf : list xtree) (k : nat) (dcount : list N -> nat) (r : list N) (p : list step),
        value_in_text src' xf k dcount r p = value_in_text src xf k dcount r p).
Proof.
  intros src src' D. apply factorisation. symmetry. apply decorated_rf. exact D.
Qed.

Theorem noise_schemas : forall src src' : str, text_decorated src src' -> schemas_of_text src' = schemas_of_text src.
Proof. intros src src' D. exact (proj1 (proj2 (noise_all src src' D))). Qed.

Theorem seq_area_schemas : forall src src' : str, Forall2 seq_variant (lines_of_text src) (lines_of_text src') ->
  schemas_of_text src' = schemas_of_text src /\ layouts_of_text src' = layouts_of_text src.
Proof.
  intros src src' H.
  assert (D : text_decorated src src') by (apply (dec_areas _ _ _ H); apply dec_same).
  destruct (noise_all src src' D) as (_ & S & _ & _ & L & _). split; assumption.
Qed.

Theorem comments_schemas : forall src src' : str, inserted plain_noise (lines_of_text src) (lines_of_text src') ->
  schemas_of_text src' = schemas_of_text src /\ layouts_of_text src' = layouts_of_text src.
Proof.
  intros src src' H.
  assert (D : text_decorated src src') by (apply (dec_add _ _ _ H); apply dec_same).
  destruct (noise_all src src' D) as (_ & S & _ & _ & L & _). split; assumption.
Qed.

(* ================================================================ 3. lines *)
Lemma nolf_no10 : forall l, nolf l = no10 l.
Proof. reflexivity. Qed.

Lemma text_line_shape : forall final l, text_line final l = true ->
  exists b c, l = b ++ [c] /\ nolf b = true /\ (c = 10 \/ (final = true /\ c <> 10)).
Proof.
  intros final l H. unfold text_line in H. destruct (rev l) as [|c b] eqn:E; [discriminate|].
  apply andb_true_iff in H as [Hb Hc]. exists (rev b), c.
  split; [rewrite <- (rev_involutive l), E; reflexivity|]. split; [rewrite nolf_no10, no10_rev; exact Hb|].
  destruct (c =? 10) eqn:C; [left; apply N.eqb_eq; exact C|right; split; [exact Hc|apply N.eqb_neq; exact C]].
Qed.

Lemma lines_of_concat : forall ls, text_lines ls = true -> lines_of_text (concat ls) = ls.
Proof.
  unfold lines_of_text. induction ls as [|l r IH]; intros H; [reflexivity|].
  cbn [text_lines] in H. apply andb_true_iff in H as [Hl Hr]. cbn [concat].
  destruct (text_line_shape _ _ Hl) as (b & c & -> & Nb & Hc).
  rewrite <- app_assoc. rewrite (lines_go_no10 b [] _ Nb). rewrite app_nil_r. cbn [app lines_go].
  destruct Hc as [->|[F Hc]].
  - cbn [N.eqb Pos.eqb]. rewrite (IH Hr). cbn [rev]. rewrite rev_involutive. reflexivity.
  - destruct r as [|l2 r2]; [|discriminate]. cbn [concat lines_go].
    apply N.eqb_neq in Hc. rewrite Hc. cbn [lines_go rev]. rewrite rev_involutive. reflexivity.
Qed.

Theorem noise_lines : forall (src : str) ls', text_lines ls' = true -> decorated (lines_of_text src) ls' ->
  schemas_of_text (concat ls') = schemas_of_text src /\ layouts_of_text (concat ls') = layouts_of_text src.
Proof.
  intros src ls' T D.
  assert (D' : text_decorated src (concat ls')) by (unfold text_decorated; rewrite (lines_of_concat ls' T); exact D).
  destruct (noise_all src _ D') as (_ & S & _ & _ & L & _). split; assumption.
Qed.

(* one noise line (C12_noise_blank / C12_noise_comment / C12_noise_directive give plain_noise) put anywhere into a text *)
Lemma inserted_refl : forall P s, inserted P s s.
Proof. intros P. induction s as [|l s IH]; [apply ins_nil|apply ins_keep; exact IH]. Qed.

Lemma inserted_mid : forall P a b l, P l = true -> inserted P (a ++ b) (a ++ l :: b).
Proof.
  intros P a b l H. induction a as [|x a IH]; cbn [app]; [apply ins_add; [exact H|apply inserted_refl]|apply ins_keep; exact IH].
Qed.

Theorem insert_noise_line : forall a b l, text_lines (a ++ b) = true -> text_lines (a ++ l :: b) = true -> plain_noise l = true ->
  schemas_of_text (concat (a ++ l :: b)) = schemas_of_text (concat (a ++ b))
  /\ layouts_of_text (concat (a ++ l :: b)) = layouts_of_text (concat (a ++ b)).
Proof.
  intros a b l T T' H. apply comments_schemas. rewrite (lines_of_concat _ T), (lines_of_concat _ T'). apply inserted_mid. exact H.
Qed.

(* ================================================================ 4. card decks *)
Lemma ci_ok_facts : forall final c, ci_ok final c = true ->
  length (ci_seq c) = 6%nat /\ text_line final (ci_line c) = true /\ (length (ci_code c) <= 65)%nat
  /\ (length (ci_code c) = 65%nat \/ ci_id c = []) /\ forallb is_ws (ci_code c) = false
  /\ starts_copy (ci_code c) = false /\ directive_word (strip (ci_line c)) = false.
Proof.
  intros final c H. unfold ci_ok in H.
  apply andb_true_iff in H as [H H7]. apply andb_true_iff in H as [H H6]. apply andb_true_iff in H as [H H5].
  apply andb_true_iff in H as [H H4]. apply andb_true_iff in H as [H H3]. apply andb_true_iff in H as [H1 H2].
  apply Nat.eqb_eq in H1. apply Nat.leb_le in H3. apply negb_true_iff in H5, H6, H7.
  repeat split; try assumption.
  apply orb_true_iff in H4 as [H4|H4]; [left; apply Nat.eqb_eq; exact H4|right; destruct (ci_id c); [reflexivity|discriminate]].
Qed.

(* one card: not dropped by any filter, indicator blank, the code area cut out by line[7:72] *)
Lemma deck_card : forall final c, ci_ok final c = true -> cards [ci_line c] = [(32, ci_code c)].
Proof.
  intros final c H. destruct (ci_ok_facts final c H) as (Hlen & _ & Hle & Hid & Hnb & _ & Hd).
  rewrite cards_eq. cbn [filter].
  assert (NE : f_non_empty (ci_line c) = true).
  { unfold f_non_empty. pose proof (rstrip_nonblank (ci_line c)) as R.
    assert (B : forallb is_ws (ci_line c) = false).
    { unfold ci_line. apply forallb_ws_app_false. cbn [forallb]. rewrite forallb_app, Hnb. cbn [andb]. apply andb_false_r. }
    specialize (R B). destruct (rstrip (ci_line c)); [congruence|reflexivity]. }
  rewrite NE. cbn [filter]. unfold f_non_directive. rewrite directive_word_eq, Hd. cbn [negb filter].
  assert (LG : f_long (ci_line c) = true).
  { unfold f_long, ci_line. apply Nat.leb_le. rewrite app_length. cbn [length]. lia. }
  rewrite LG. cbn [map filter].
  assert (TC : to_card (ci_line c) = (32, ci_code c)).
  { unfold ci_line. destruct (ci_seq c) as [|a1 [|a2 [|a3 [|a4 [|a5 [|a6 [|a7 sq]]]]]]]; try discriminate Hlen.
    unfold to_card, indicator, area. cbn [app nth skipn]. f_equal.
    destruct Hid as [H65|Hnil].
    - apply firstn_len_app. exact H65.
    - rewrite Hnil, app_nil_r. apply firstn_all2. exact Hle. }
  rewrite TC. reflexivity.
Qed.

Lemma deck_cards : forall d, deck_ok d = true -> cards (map ci_line d) = map (fun c => (32, ci_code c)) d.
Proof.
  induction d as [|c r IH]; intros H; [reflexivity|].
  cbn [deck_ok] in H. apply andb_true_iff in H as [Hc Hr]. cbn [map]. rewrite cards_cons_one.
  rewrite (deck_card _ c Hc), (IH Hr). reflexivity.
Qed.

Lemma deck_lines : forall d, deck_ok d = true -> text_lines (map ci_line d) = true.
Proof.
  induction d as [|c r IH]; intros H; [reflexivity|].
  cbn [deck_ok] in H. apply andb_true_iff in H as [Hc Hr]. cbn [map text_lines]. rewrite (IH Hr), andb_true_r.
  destruct (ci_ok_facts _ c Hc) as (_ & T & _). destruct r; exact T.
Qed.

Lemma deck_no_copy : forall d, deck_ok d = true -> forallb (fun l => negb (starts_copy l)) (map ci_code d) = true.
Proof.
  induction d as [|c r IH]; intros H; [reflexivity|].
  cbn [deck_ok] in H. apply andb_true_iff in H as [Hc Hr]. destruct (ci_ok_facts _ c Hc) as (_ & _ & _ & _ & _ & C & _).
  cbn [map forallb]. rewrite C, (IH Hr). reflexivity.
Qed.

Lemma deck_reference_format : forall d, d <> [] -> deck_ok d = true ->
  reference_format (map ci_line d) [] = Ok (map ci_code d).
Proof.
  intros d NE H. rewrite rf_eq, replace_cards_nil, (deck_cards d H).
  pose proof (deck_no_copy d H) as NC. destruct d as [|c r]; [congruence|].
  cbn [map join_all]. rewrite <- (map_map ci_code (fun l => (32, l)) r). apply join_plain. exact NC.
Qed.

Theorem deck_sentences : forall d, d <> [] -> deck_ok d = true ->
  sentences_of_text (deck_text d) = Ok (dde_sentences (map ci_code d)).
Proof.
  intros d NE H. unfold sentences_of_text, deck_text. rewrite (lines_of_concat _ (deck_lines d H)).
  rewrite (deck_reference_format d NE H). reflexivity.
Qed.

Theorem deck_reads_as : forall d es tail, d <> [] -> deck_ok d = true ->
  forallb ce_ok es = true -> forallb is_ws tail = true -> deck_code d = code_text es tail ->
  reads_as (deck_text d) es.
Proof.
  intros d es tail NE H Hes Ht C. split; [exact Hes|]. rewrite (deck_sentences d NE H). f_equal.
  apply (sentences_lines _ (map ce_print es) tail).
  - pose proof (ce_ok_wf es Hes) as Hwf. rewrite forallb_forall in *. intros x Hx. apply in_map_iff in Hx as (e & <- & He). apply (Hwf e He).
  - exact Ht.
  - unfold deck_code in C. rewrite C. unfold code_text. rewrite map_map. reflexivity.
Qed.

(* ================================================================ 5. every text that reads as its entries
   The theorems of Proofs/PipelineP.v and Proofs/TextLayoutP.v are stated for print_copybook es tail seqs under copybook_ok; their
   proofs use the text twice only: the entries are in the clause domain (forallb ce_ok es) and the sentences of the text are the
   entries' (sentences_of_printed).  Here they are proved again from exactly these two facts - reads_as text es - so that they
   hold for decorated copybooks and for card decks as well; the printed copybook is the instance printed_reads_as. *)
Import Resp2.
Require SR.Proofs.LayoutOdoP.
Require Import SR.Spec.Encode SR.Spec.Record SR.Model.Estruct SR.Model.LayoutValue SR.Model.RecordValue.
Require SR.Proofs.RecordP.
Local Notation erase := SR.Proofs.PipelineP.erase.
Local Open Scope nat_scope.

Theorem printed_reads_as : forall es tail seqs, copybook_ok es tail seqs = true -> reads_as (print_copybook es tail seqs) es.
Proof.
  intros es tail seqs H. unfold copybook_ok in H. apply andb_true_iff in H as [H HL]. apply andb_true_iff in H as [Hes Ht].
  split; [exact Hes|]. apply sentences_of_printed; [apply ce_ok_wf; exact Hes|exact Ht|exact HL].
Qed.

Theorem decorated_reads_as : forall (T T' : str) es, reads_as T es -> text_decorated T T' -> reads_as T' es.
Proof. intros T T' es [H S] D. split; [exact H|]. rewrite (proj1 (noise_all T T' D)). exact S. Qed.

Theorem reading_entries : forall (T : str) es, reads_as T es -> entries_of_text T = ROk (map spec_entry es).
Proof.
  intros T es [Hes S]. unfold entries_of_text. rewrite S, (infos_of_printed es Hes), map_map. reflexivity.
Qed.

Theorem reading_schemas : forall (T : str) es, reads_as T es ->
  schemas_of_text T = to_outcome (docs_of_infos (map spec_info es)).
Proof.
  intros T es [Hes S]. unfold schemas_of_text. rewrite S. f_equal. unfold docs_of_sentences, forest_of.
  rewrite (infos_of_printed es Hes). unfold docs_of_infos.
  destruct (SR.Model.Structure.structure (map i_entry (map spec_info es))) as [f|e]; reflexivity.
Qed.

(* two texts that read as the same entries up to layout *)
Theorem reading_same_core : forall (T T' : str) es es', reads_as T es -> reads_as T' es' -> Forall2 same_core es es' ->
  schemas_of_text T = schemas_of_text T' /\ layouts_of_text T = layouts_of_text T'.
Proof.
  intros T T' es es' R R' SC.
  assert (S : schemas_of_text T = schemas_of_text T').
  { rewrite (reading_schemas T es R), (reading_schemas T' es' R'), (same_core_info es es' SC). reflexivity. }
  split; [exact S|]. unfold layouts_of_text. rewrite S. reflexivity.
Qed.

(* C07b_end_to_end *)
Theorem reading_end_to_end : forall (T : str) es f, reads_as T es ->
  SR.Model.Structure.structure (map spec_entry es) = Ok f ->
  exists xf, annot_forest f (kept_infos (map spec_info es)) = Some xf /\ map erase xf = f
             /\ concat (map xpre xf) = kept_infos (map spec_info es)
             /\ (forallb (names_wf []) xf = true -> schemas_of_text T = to_outcome (docs_r xf)).
Proof.
  intros T es f RA Hf.
  assert (E : map i_entry (kept_infos (map spec_info es)) = map SR.Model.Structure.de (SR.Model.Structure.preorder_f f)).
  { rewrite (structure_preorder _ _ Hf). rewrite <- map_entry_spec_info. symmetry. apply kept_match. }
  destruct (annot_forest_ok f _ E) as (xf & A & R & Q).
  exists xf. split; [exact A|]. split; [exact R|]. split; [exact Q|]. intros NW.
  rewrite (reading_schemas T es RA). f_equal. unfold docs_of_infos. rewrite map_entry_spec_info, Hf, A.
  apply Redef.build_all_names_wf. exact NW.
Qed.

(* C07c_text_documents_are_built_trees *)
Theorem reading_documents_are_built : forall (T : str) es, reads_as T es -> bridge_domain es = true ->
  exists f xf docs,
    SR.Model.Structure.structure (map spec_entry es) = Ok f
    /\ annot_forest f (kept_infos (map spec_info es)) = Some xf /\ map erase xf = f
    /\ concat (map xpre xf) = kept_infos (map spec_info es)
    /\ schemas_of_text T = Done (Ok docs)
    /\ Forall2 (fun doc t => layout_of_doc doc = Some (build (item_of t))) docs xf
    /\ layouts_of_text T = Some (map (fun t => build (item_of t)) xf).
Proof.
  intros T es RA BD. unfold bridge_domain, forest_of_entries in BD.
  destruct (SR.Model.Structure.structure (map spec_entry es)) as [f|e] eqn:Hf; [|discriminate].
  destruct (reading_end_to_end T es f RA Hf) as (xf & A & R & Q & S). rewrite A in BD. apply andb_true_iff in BD as [NW BO].
  destruct (documents_are_built_forest xf BO) as (docs & D & F).
  exists f, xf, docs. repeat split; try assumption.
  - rewrite (S NW), D. reflexivity.
  - unfold layouts_of_text. rewrite (S NW), D. cbn [to_outcome]. apply map_opt_layouts. exact F.
Qed.

(* C07c_text_to_layout *)
Theorem reading_to_layout : forall (T : str) es, reads_as T es -> text_layout_ok es = true ->
  exists f xf schemas,
    SR.Model.Structure.structure (map spec_entry es) = Ok f
    /\ annot_forest f (kept_infos (map spec_info es)) = Some xf /\ map erase xf = f
    /\ concat (map xpre xf) = kept_infos (map spec_info es)
    /\ layouts_of_text T = Some schemas /\ length schemas = length xf
    /\ forall k s t, nth_error schemas k = Some s -> nth_error xf k = Some t ->
         s = build (item_of t)
         /\ forall (B : Type) (dcount : list B -> nat) (r : list B),
            exists v0, nav_of dcount r s = Ok v0
              /\ lstart (n_loc v0) = 0 /\ lend (n_loc v0) = extent no_counters (item_of t)
              /\ forall p v st, spec_nav no_counters (VItem (item_of t)) 0 p = inl (v, st) ->
                   exists nv, nav_path dcount r v0 p = Ok nv
                     /\ lstart (n_loc nv) = st /\ lend (n_loc nv) = st + view_size no_counters v
                     /\ nav_raw r nv = slice r st (st + view_size no_counters v).
Proof.
  intros T es RA TL. unfold text_layout_ok in TL. apply andb_true_iff in TL as [BD RW].
  destruct (reading_documents_are_built T es RA BD) as (f & xf & docs & Hf & A & R & Q & _ & _ & L).
  rewrite (forest_of_entries_eq es f Hf), A in RW.
  exists f, xf, (map (fun t => build (item_of t)) xf).
  split; [exact Hf|]. split; [exact A|]. split; [exact R|]. split; [exact Q|]. split; [exact L|]. split; [apply map_length|].
  intros k s t Hs Ht. rewrite nth_error_map, Ht in Hs. injection Hs as <-. split; [reflexivity|].
  intros B dcount r.
  rewrite forallb_forall in RW. specialize (RW t (nth_error_In _ _ Ht)). unfold record_wf in RW.
  apply andb_true_iff in RW as [RW W3]. apply andb_true_iff in RW as [W1 W2].
  apply layout_correct_names; assumption.
Qed.

(* C07c_text_to_layout_odo *)
Theorem reading_to_layout_odo : forall (T : str) es, reads_as T es -> bridge_domain es = true ->
  exists xf schemas,
    forest_of_entries es = Some xf
    /\ layouts_of_text T = Some schemas /\ length schemas = length xf
    /\ forall k s t, nth_error schemas k = Some s -> nth_error xf k = Some t ->
         s = build (item_of t)
         /\ forall (B : Type) (dcount : list B -> nat) (r : list B) (e : env),
            SR.Proofs.LayoutOdoP.wfo e [] (item_of t) = true -> NoDup (ids (item_of t)) ->
            SR.Proofs.LayoutOdoP.Holds B dcount r e (item_of t) 0 ->
            exists v0, nav_of dcount r s = Ok v0
              /\ lstart (n_loc v0) = 0 /\ lend (n_loc v0) = extent e (item_of t)
              /\ forall p v st, spec_nav e (VItem (item_of t)) 0 p = inl (v, st) ->
                   exists nv, nav_path dcount r v0 p = Ok nv
                     /\ lstart (n_loc nv) = st /\ lend (n_loc nv) = st + view_size e v
                     /\ nav_raw r nv = slice r st (st + view_size e v)
                     /\ (forall x, v = VItem x -> is_table x = true ->
                           forall i, count e (item_oc x) <= i -> nav_index dcount r nv i = Err IndexError).
Proof.
  intros T es RA BD.
  destruct (reading_documents_are_built T es RA BD) as (f & xf & docs & Hf & A & R & Q & _ & _ & L).
  exists xf, (map (fun t => build (item_of t)) xf).
  split; [rewrite (forest_of_entries_eq es f Hf); exact A|]. split; [exact L|]. split; [apply map_length|].
  intros k s t Hs Ht. rewrite nth_error_map, Ht in Hs. injection Hs as <-. split; [reflexivity|].
  intros B dcount r e W ND H. apply SR.Proofs.LayoutOdoP.layout_correct_odo; assumption.
Qed.

(* C07c_text_to_values *)
Theorem reading_to_values : forall (T : str) es, reads_as T es -> text_values_ok es = true ->
  exists xf schemas,
    forest_of_entries es = Some xf
    /\ layouts_of_text T = Some schemas /\ length schemas = length xf
    /\ forall k s t, nth_error schemas k = Some s -> nth_error xf k = Some t ->
       forall (dcount : list N -> nat) (vals : assignment),
         record_ok (kinds_of t) vals no_counters (item_of t) = true ->
         forall p i sz st, elem_at no_counters (item_of t) p = Some (i, sz, st) ->
           own_storage no_counters (VItem (item_of t)) 0 p = true ->
           value_at (kinds_of t) dcount (spec_record (kinds_of t) vals no_counters (item_of t)) s p
           = Some (Ok (PAtom (py_of (stored (kinds_of t i) (vals p))))).
Proof.
  intros T es RA TV. unfold text_values_ok in TV. apply andb_true_iff in TV as [TL KD].
  destruct (reading_to_layout T es RA TL) as (f & xf & schemas & Hf & A & _ & _ & L & Len & NAV).
  rewrite (forest_of_entries_eq es f Hf), A in KD.
  exists xf, schemas. split; [rewrite (forest_of_entries_eq es f Hf); exact A|]. split; [exact L|]. split; [exact Len|].
  intros k s t Hs Ht dcount vals RO p i sz st EA OS. destruct (NAV k s t Hs Ht) as [-> _].
  rewrite forallb_forall in KD. specialize (KD t (nth_error_In _ _ Ht)). apply andb_true_iff in KD as [_ ND].
  unfold text_layout_ok in TL. apply andb_true_iff in TL as [_ RW]. rewrite (forest_of_entries_eq es f Hf), A in RW.
  rewrite forallb_forall in RW. specialize (RW t (nth_error_In _ _ Ht)). unfold record_wf in RW.
  apply andb_true_iff in RW as [RW _]. apply andb_true_iff in RW as [W1 _].
  apply (SR.Proofs.RecordP.stored_is_read dcount (kinds_of t) vals no_counters (item_of t) W1 (nodupb_NoDup _ ND) RO p i sz st EA OS).
Qed.

(* ---- respelling (Props/C12d.v) for two texts that read as two spellings of the same entries ---- *)
Lemma reading_respelling_forests : forall es es' f,
  Forall2 same_clauses es es' -> forallb ce_ok es = true -> forallb ce_ok es' = true ->
  forallb respelling_domain es = true -> forallb respelling_domain es' = true ->
  SR.Model.Structure.structure (map spec_entry es) = Ok f ->
  exists f' xf xf',
    SR.Model.Structure.structure (map spec_entry es') = Ok f'
    /\ annot_forest f (kept_infos (map spec_info es)) = Some xf /\ map erase xf = f
    /\ annot_forest f' (kept_infos (map spec_info es')) = Some xf' /\ map erase xf' = f'
    /\ Forall2 xsim2 xf xf'.
Proof.
  intros es es' f SC OKe OKe' RD RD' Hf.
  assert (ALL : Forall2 (fun e e' => esim2 (spec_entry e) (spec_entry e') /\ isim (spec_info e) (spec_info e')
                                     /\ info_skipped (spec_info e) = info_skipped (spec_info e')) es es').
  { clear - SC OKe OKe' RD RD'. revert OKe OKe' RD RD'.
    induction SC as [|e e' es es' Se SC IH]; intros OKe OKe' RD RD'; [constructor|]. cbn [forallb] in *.
    apply andb_true_iff in OKe as [O1 O2]. apply andb_true_iff in OKe' as [O1' O2'].
    apply andb_true_iff in RD as [D1 D2]. apply andb_true_iff in RD' as [D1' D2'].
    constructor; [apply respell_sim3; assumption|apply IH; assumption]. }
  assert (ES : Forall2 esim2 (map spec_entry es) (map spec_entry es')).
  { clear - ALL. induction ALL as [|e e' es es' (H & _) ALL IH]; cbn [map]; constructor; assumption. }
  assert (IS : Forall2 (fun x x' => isim x x' /\ info_skipped x = info_skipped x') (map spec_info es) (map spec_info es')).
  { clear - ALL. induction ALL as [|e e' es es' (_ & H) ALL IH]; cbn [map]; constructor; assumption. }
  pose proof (structure_ddes_sim dsim2 dsim2_lv dsim2_red dsim2_nm _ _ (mk_ddes_sim2 _ _ ES 0%N)) as SS.
  fold (SR.Model.Structure.structure (map spec_entry es)) in SS. fold (SR.Model.Structure.structure (map spec_entry es')) in SS.
  rewrite Hf in SS. destruct (SR.Model.Structure.structure (map spec_entry es')) as [f'|e'] eqn:Hf'; [|contradiction].
  assert (E : map i_entry (kept_infos (map spec_info es)) = map SR.Model.Structure.de (SR.Model.Structure.preorder_f f)).
  { rewrite (structure_preorder _ _ Hf). rewrite <- map_entry_spec_info. symmetry. apply kept_match. }
  assert (E' : map i_entry (kept_infos (map spec_info es')) = map SR.Model.Structure.de (SR.Model.Structure.preorder_f f')).
  { rewrite (structure_preorder _ _ Hf'). rewrite <- map_entry_spec_info. symmetry. apply kept_match. }
  destruct (annot_forest_ok f _ E) as (xf & A & R & Q). destruct (annot_forest_ok f' _ E') as (xf' & A' & R' & Q').
  exists f', xf, xf'. repeat split; try assumption.
  pose proof (kept_infos_sim _ _ IS) as KS. rewrite <- Q, <- Q' in KS. rewrite <- R, <- R' in SS.
  apply xsim2_forest; assumption.
Qed.

(* C12d_respelling_layout *)
Theorem reading_respelling_layout : forall (T T' : str) es es',
  Forall2 same_clauses es es' -> reads_as T es -> reads_as T' es' ->
  forallb respelling_domain es = true -> forallb respelling_domain es' = true ->
  text_layout_ok es = true ->
  text_layout_ok es' = true
  /\ records_of_entries es = records_of_entries es'
  /\ exists schemas, layouts_of_text T = Some schemas /\ layouts_of_text T' = Some schemas.
Proof.
  intros T T' es es' SC RA RA' RD RD' TL.
  assert (TL0 := TL). unfold text_layout_ok in TL. apply andb_true_iff in TL as [BD RW].
  destruct (reading_documents_are_built T es RA BD) as (f & xf & docs & Hf & A & R & Q & _ & _ & L).
  destruct (reading_respelling_forests es es' f SC (proj1 RA) (proj1 RA') RD RD' Hf) as (f' & xf0 & xf' & Hf' & A0 & _ & A' & _ & SIM).
  rewrite A in A0. injection A0 as <-.
  destruct (sim_forest _ _ SIM) as (I1 & I2 & I3).
  assert (FE : forest_of_entries es = Some xf) by (rewrite (forest_of_entries_eq es f Hf); exact A).
  assert (FE' : forest_of_entries es' = Some xf') by (rewrite (forest_of_entries_eq es' f' Hf'); exact A').
  assert (BD' : bridge_domain es' = true).
  { unfold bridge_domain in *. rewrite FE in BD. rewrite FE', <- I2, <- I3. exact BD. }
  assert (RWeq : forallb (fun t => record_wf (item_of t)) xf' = forallb (fun t => record_wf (item_of t)) xf).
  { rewrite <- (forallb_map_eq _ _ item_of record_wf xf'), <- (forallb_map_eq _ _ item_of record_wf xf), I1. reflexivity. }
  split; [|split].
  - unfold text_layout_ok. rewrite BD', FE', RWeq. rewrite FE in RW. exact RW.
  - unfold records_of_entries. rewrite FE, FE'. cbn [option_map]. rewrite I1. reflexivity.
  - destruct (reading_documents_are_built T' es' RA' BD') as (f2 & xf2 & docs2 & Hf2 & A2 & _ & _ & _ & _ & L2).
    rewrite Hf' in Hf2. injection Hf2 as <-. rewrite A' in A2. injection A2 as <-.
    exists (map (fun t => build (item_of t)) xf). split; [exact L|]. rewrite L2.
    rewrite <- (map_map item_of build xf), <- (map_map item_of build xf'), I1. reflexivity.
Qed.

(* C12d_respelling_located *)
Theorem reading_respelling_located : forall (T T' : str) es es',
  Forall2 same_clauses es es' -> reads_as T es -> reads_as T' es' ->
  forallb respelling_domain es = true -> forallb respelling_domain es' = true ->
  text_layout_ok es = true ->
  forall (B : Type) (dcount : list B -> nat) (r : list B) (k : nat) (p : list step),
    located T k dcount r p = located T' k dcount r p.
Proof.
  intros T T' es es' SC RA RA' RD RD' TL B dcount r k p.
  destruct (reading_respelling_layout T T' es es' SC RA RA' RD RD' TL) as (_ & _ & schemas & L & L').
  unfold located. rewrite L, L'. reflexivity.
Qed.

Lemma reading_respelling_kinds : forall es es' f f' xf xf',
  Forall2 same_clauses es es' -> forallb ce_ok es = true -> forallb ce_ok es' = true ->
  forallb respelling_domain es = true -> forallb respelling_domain es' = true ->
  SR.Model.Structure.structure (map spec_entry es) = Ok f -> SR.Model.Structure.structure (map spec_entry es') = Ok f' ->
  map erase xf = f -> map erase xf' = f' ->
  map kind_table xf = map kind_table xf' /\ map kinds_defined xf = map kinds_defined xf'.
Proof.
  intros es es' f f' xf xf' SC OKe OKe' RD RD' Hf Hf' R R'.
  assert (ES : Forall2 esim3 (map spec_entry es) (map spec_entry es')).
  { clear - SC OKe OKe' RD RD'. revert OKe OKe' RD RD'.
    induction SC as [|e e' es es' Se SC IH]; intros OKe OKe' RD RD'; [constructor|]. cbn [forallb map] in *.
    apply andb_true_iff in OKe as [O1 O2]. apply andb_true_iff in OKe' as [O1' O2'].
    apply andb_true_iff in RD as [D1 D2]. apply andb_true_iff in RD' as [D1' D2'].
    constructor; [|apply IH; assumption]. split; [apply (respell_sim3 e e' Se O1 O1' D1 D1')|apply respell_kind; assumption]. }
  pose proof (structure_ddes_sim dsim3 dsim3_lv dsim3_red dsim3_nm _ _ (mk_ddes_sim3 _ _ ES 0%N)) as SS.
  fold (SR.Model.Structure.structure (map spec_entry es)) in SS. fold (SR.Model.Structure.structure (map spec_entry es')) in SS.
  rewrite Hf, Hf', <- R, <- R' in SS. clear - SS.
  revert xf' SS. induction xf as [|t xf IH]; intros [|t' xf'] SS; cbn [map] in SS; inversion SS as [|? ? ? ? Ht Tr]; subst; [split; reflexivity|].
  destruct (proj1 kind_table_sim t t' Ht) as [K1 K2]. destruct (IH xf' Tr) as [I1 I2]. cbn [map]. rewrite K1, K2, I1, I2. split; reflexivity.
Qed.

(* C12d_respelling_values *)
Theorem reading_respelling_values : forall (T T' : str) es es',
  Forall2 same_clauses es es' -> reads_as T es -> reads_as T' es' ->
  forallb respelling_domain es = true -> forallb respelling_domain es' = true ->
  text_values_ok es = true ->
  text_values_ok es' = true
  /\ exists xf xf', forest_of_entries es = Some xf /\ forest_of_entries es' = Some xf'
       /\ map kinds_of xf = map kinds_of xf'
       /\ forall (k : nat) (dcount : list N -> nat) (r : list N) (p : list step),
            value_in_text T xf k dcount r p = value_in_text T' xf' k dcount r p.
Proof.
  intros T T' es es' SC RA RA' RD RD' TV.
  unfold text_values_ok in TV. apply andb_true_iff in TV as [TL KD].
  destruct (reading_respelling_layout T T' es es' SC RA RA' RD RD' TL) as (TL' & RE & schemas & L & L').
  assert (TLc := TL). unfold text_layout_ok in TLc. apply andb_true_iff in TLc as [BD _].
  destruct (reading_documents_are_built T es RA BD) as (f & xf & docs & Hf & A & R & _).
  assert (TLc' := TL'). unfold text_layout_ok in TLc'. apply andb_true_iff in TLc' as [BD' _].
  destruct (reading_documents_are_built T' es' RA' BD') as (f' & xf' & docs' & Hf' & A' & R' & _).
  assert (FE : forest_of_entries es = Some xf) by (rewrite (forest_of_entries_eq es f Hf); exact A).
  assert (FE' : forest_of_entries es' = Some xf') by (rewrite (forest_of_entries_eq es' f' Hf'); exact A').
  destruct (reading_respelling_kinds es es' f f' xf xf' SC (proj1 RA) (proj1 RA') RD RD' Hf Hf' R R') as [KT KDf].
  assert (IT : map item_of xf = map item_of xf').
  { unfold records_of_entries in RE. rewrite FE, FE' in RE. cbn [option_map] in RE. injection RE as RE. exact RE. }
  assert (KO : map kinds_of xf = map kinds_of xf').
  { unfold kinds_of. rewrite <- (map_map kind_table table_kinds xf), <- (map_map kind_table table_kinds xf'), KT. reflexivity. }
  split.
  - unfold text_values_ok. rewrite TL', FE'. rewrite FE in KD. cbn [andb].
    assert (PE : forallb (fun t => kinds_defined t && nodupb (ids (item_of t))) xf
                 = forallb (fun t => kinds_defined t && nodupb (ids (item_of t))) xf').
    { clear - KDf IT. revert xf' KDf IT. induction xf as [|t xf IH]; intros [|t' xf'] K I; cbn [map] in *; try discriminate; [reflexivity|].
      injection K as K1 K2. injection I as I1 I2. cbn [forallb]. rewrite K1, I1, (IH xf' K2 I2). reflexivity. }
    rewrite <- PE. exact KD.
  - exists xf, xf'. split; [exact FE|]. split; [exact FE'|]. split; [exact KO|].
    intros k dcount r p. unfold value_in_text. rewrite L, L'.
    pose proof (f_equal (fun l => nth_error l k) KO) as NK. cbn beta in NK. rewrite !nth_error_map in NK.
    destruct (nth_error xf k) as [t|], (nth_error xf' k) as [t'|]; cbn [option_map] in NK; try discriminate; [|reflexivity].
    injection NK as NK. rewrite NK. reflexivity.
Qed.

(* ================================================================ 6. decorated printed copybooks, decorated card decks *)
(* C07c_text_to_layout for a printed copybook with card-image noise added *)
Theorem decorated_copybook_to_layout : forall es tail seqs (src' : str),
  copybook_ok es tail seqs = true -> text_layout_ok es = true ->
  text_decorated (print_copybook es tail seqs) src' ->
  schemas_of_text src' = schemas_of_text (print_copybook es tail seqs)
  /\ exists f xf schemas,
    SR.Model.Structure.structure (map spec_entry es) = Ok f
    /\ annot_forest f (kept_infos (map spec_info es)) = Some xf /\ map erase xf = f
    /\ concat (map xpre xf) = kept_infos (map spec_info es)
    /\ layouts_of_text src' = Some schemas /\ length schemas = length xf
    /\ forall k s t, nth_error schemas k = Some s -> nth_error xf k = Some t ->
         s = build (item_of t)
         /\ forall (B : Type) (dcount : list B -> nat) (r : list B),
            exists v0, nav_of dcount r s = Ok v0
              /\ lstart (n_loc v0) = 0 /\ lend (n_loc v0) = extent no_counters (item_of t)
              /\ forall p v st, spec_nav no_counters (VItem (item_of t)) 0 p = inl (v, st) ->
                   exists nv, nav_path dcount r v0 p = Ok nv
                     /\ lstart (n_loc nv) = st /\ lend (n_loc nv) = st + view_size no_counters v
                     /\ nav_raw r nv = slice r st (st + view_size no_counters v).
Proof.
  intros es tail seqs src' OK TL D. split; [apply noise_schemas; exact D|].
  apply (reading_to_layout src' es); [|exact TL]. apply (decorated_reads_as _ _ _ (printed_reads_as es tail seqs OK) D).
Qed.

(* C12d_respelling_located / C12d_respelling_layout for two decorated printed copybooks *)
Theorem decorated_copybook_respelling : forall es tail seqs es' tail' seqs' (src1 src2 : str),
  Forall2 same_clauses es es' ->
  copybook_ok es tail seqs = true -> copybook_ok es' tail' seqs' = true ->
  forallb respelling_domain es = true -> forallb respelling_domain es' = true ->
  text_layout_ok es = true ->
  text_decorated (print_copybook es tail seqs) src1 -> text_decorated (print_copybook es' tail' seqs') src2 ->
  (exists schemas, layouts_of_text src1 = Some schemas /\ layouts_of_text src2 = Some schemas)
  /\ forall (B : Type) (dcount : list B -> nat) (r : list B) (k : nat) (p : list step),
       located src1 k dcount r p = located src2 k dcount r p.
Proof.
  intros es tail seqs es' tail' seqs' src1 src2 SC OK OK' RD RD' TL D1 D2.
  pose proof (decorated_reads_as _ _ _ (printed_reads_as es tail seqs OK) D1) as R1.
  pose proof (decorated_reads_as _ _ _ (printed_reads_as es' tail' seqs' OK') D2) as R2.
  split.
  - destruct (reading_respelling_layout src1 src2 es es' SC R1 R2 RD RD' TL) as (_ & _ & H). exact H.
  - apply (reading_respelling_located src1 src2 es es' SC R1 R2 RD RD' TL).
Qed.

(* C12d_respelling_values for two decorated printed copybooks *)
Theorem decorated_copybook_values : forall es tail seqs es' tail' seqs' (src1 src2 : str),
  Forall2 same_clauses es es' ->
  copybook_ok es tail seqs = true -> copybook_ok es' tail' seqs' = true ->
  forallb respelling_domain es = true -> forallb respelling_domain es' = true ->
  text_values_ok es = true ->
  text_decorated (print_copybook es tail seqs) src1 -> text_decorated (print_copybook es' tail' seqs') src2 ->
  exists xf xf', forest_of_entries es = Some xf /\ forest_of_entries es' = Some xf'
       /\ map kinds_of xf = map kinds_of xf'
       /\ forall (k : nat) (dcount : list N -> nat) (r : list N) (p : list step),
            value_in_text src1 xf k dcount r p = value_in_text src2 xf' k dcount r p.
Proof.
  intros es tail seqs es' tail' seqs' src1 src2 SC OK OK' RD RD' TV D1 D2.
  pose proof (decorated_reads_as _ _ _ (printed_reads_as es tail seqs OK) D1) as R1.
  pose proof (decorated_reads_as _ _ _ (printed_reads_as es' tail' seqs' OK') D2) as R2.
  destruct (reading_respelling_values src1 src2 es es' SC R1 R2 RD RD' TV) as (_ & H). exact H.
Qed.

(* a card deck, decorated or not, against the printed copybook of the same entries up to layout *)
Theorem deck_same_core : forall d es tail (src' : str) es0 tail0 seqs0,
  d <> [] -> deck_ok d = true -> forallb ce_ok es = true -> forallb is_ws tail = true -> deck_code d = code_text es tail ->
  text_decorated (deck_text d) src' ->
  copybook_ok es0 tail0 seqs0 = true -> Forall2 same_core es0 es ->
  schemas_of_text src' = schemas_of_text (print_copybook es0 tail0 seqs0)
  /\ layouts_of_text src' = layouts_of_text (print_copybook es0 tail0 seqs0).
Proof.
  intros d es tail src' es0 tail0 seqs0 NE DK Hes Ht C D OK0 SC.
  pose proof (decorated_reads_as _ _ _ (deck_reads_as d es tail NE DK Hes Ht C) D) as R1.
  apply (reading_same_core src' _ es es0 R1 (printed_reads_as _ _ _ OK0)).
  clear - SC. induction SC as [|a b l l' (H1 & H2 & H3 & H4) _ IH]; constructor; [|exact IH]. repeat split; symmetry; assumption.
Qed.

(* REPLACING: reference_format(source, replacing) followed by the rest of the pipeline.  schema_iter never passes a REPLACING
   list (Model/Pipeline.v sentences_of_text calls reference_format with the empty list, as the code does), so this speaks
   about a caller that chains the functions by hand *)
Theorem noise_replacing : forall (src src' : str) repl, text_decorated src src' ->
  schemas_of_rf (reference_format (lines_of_text src') repl) = schemas_of_rf (reference_format (lines_of_text src) repl)
  /\ layouts_of_rf (reference_format (lines_of_text src') repl) = layouts_of_rf (reference_format (lines_of_text src) repl).
Proof.
  intros src src' repl D. rewrite (decorated_rf _ _ D repl). split; reflexivity.
Qed.

Theorem replacing_schemas : forall (src : str) repl, repl_ok repl = true ->
  schemas_of_rf (reference_format (lines_of_text src) repl)
  = schemas_of_rf (join_all (map (fun c => (fst c, subst_all repl (snd c))) (cards (lines_of_text src)))).
Proof.
  intros src repl H. destruct (replacing (lines_of_text src) repl H) as (_ & _ & E). rewrite E. reflexivity.
Qed.

(* ================================================================ 7. deciding the relations on concrete lines (for Examples) *)
Definition same_codeb (l l' : line) : bool :=
  (7 <=? length l)%nat && (7 <=? length l')%nat
  && leqb (firstn 66 (skipn 6 l)) (firstn 66 (skipn 6 l'))
  && (((66 <=? length (skipn 6 l)) && (66 <=? length (skipn 6 l')))
      || ((length (skipn 6 l) <=? 66) && (length (skipn 6 l') <=? 66)))%nat.

Definition seq_variantb (l l' : line) : bool :=
  leqb l l'
  || ((length l <? 7) && (length l' <? 7))%nat
  || (same_codeb l l' && Bool.eqb (blank l) (blank l')
      && Bool.eqb (directive_word (strip l)) (directive_word (strip l'))).

Lemma same_codeb_sound : forall l l', same_codeb l l' = true -> same_code l l'.
Proof.
  intros l l' H. unfold same_codeb in H.
  apply andb_true_iff in H as [H H4]. apply andb_true_iff in H as [H H3]. apply andb_true_iff in H as [H1 H2].
  apply Nat.leb_le in H1, H2. apply leqb_eq in H3.
  exists (firstn 6 l), (firstn 6 l'), (firstn 66 (skipn 6 l)), (skipn 66 (skipn 6 l)), (skipn 66 (skipn 6 l')).
  split; [rewrite !firstn_skipn; reflexivity|]. split; [rewrite H3, !firstn_skipn; reflexivity|].
  split; [apply firstn_length_le; lia|]. split; [apply firstn_length_le; lia|].
  assert (L6 : length (skipn 6 l) = length l - 6) by apply skipn_length.
  assert (L6' : length (skipn 6 l') = length l' - 6) by apply skipn_length.
  split.
  - intros E. apply (f_equal (@length N)) in E. rewrite firstn_length in E. cbn [length] in E. lia.
  - apply orb_true_iff in H4 as [H4|H4]; apply andb_true_iff in H4 as [A B]; apply Nat.leb_le in A, B.
    + left. rewrite firstn_length. lia.
    + right. split; apply skipn_all2; assumption.
Qed.

Lemma seq_variantb_sound : forall l l', seq_variantb l l' = true -> seq_variant l l'.
Proof.
  intros l l' H. unfold seq_variantb in H. apply orb_true_iff in H as [H|H]; [apply orb_true_iff in H as [H|H]|].
  - left. apply leqb_eq. exact H.
  - right. left. apply andb_true_iff in H as [A B]. apply Nat.ltb_lt in A, B. split; assumption.
  - right. right. apply andb_true_iff in H as [H D]. apply andb_true_iff in H as [C B].
    split; [apply same_codeb_sound; exact C|]. split; [apply eqb_prop; exact B|apply eqb_prop; exact D].
Qed.

Fixpoint areasb (s s' : list line) : bool :=
  match s, s' with
  | [], [] => true
  | l :: r, l' :: r' => seq_variantb l l' && areasb r r'
  | _, _ => false
  end.

Lemma areasb_sound : forall s s', areasb s s' = true -> Forall2 seq_variant s s'.
Proof.
  induction s as [|l r IH]; intros [|l' r'] H; cbn [areasb] in H; try discriminate; [constructor|].
  apply andb_true_iff in H as [A B]. constructor; [apply seq_variantb_sound; exact A|apply IH; exact B].
Qed.

Fixpoint insertedb (P : line -> bool) (s s' : list line) : bool :=
  match s' with
  | [] => match s with [] => true | _ :: _ => false end
  | l' :: r' =>
      match s with
      | l :: r => if leqb l l' then insertedb P r r' else P l' && insertedb P s r'
      | [] => P l' && insertedb P [] r'
      end
  end.

Lemma insertedb_sound : forall P s' s, insertedb P s s' = true -> inserted P s s'.
Proof.
  intros P. induction s' as [|l' r' IH]; intros s H; cbn [insertedb] in H.
  - destruct s; [apply ins_nil|discriminate].
  - destruct s as [|l r].
    + apply andb_true_iff in H as [A B]. apply ins_add; [exact A|apply IH; exact B].
    + destruct (leqb l l') eqn:E.
      * apply leqb_eq in E. subst l'. apply ins_keep. apply IH. exact H.
      * apply andb_true_iff in H as [A B]. apply ins_add; [exact A|apply IH; exact B].
Qed.

(* one step of [decorated], tried in this order: other areas, lines added, lines taken away *)
Definition stepb (s s' : list line) : bool := areasb s s' || insertedb plain_noise s s' || insertedb plain_noise s' s.

Fixpoint chainb (s : list line) (chain : list (list line)) : bool :=
  match chain with
  | [] => true
  | s' :: rest => stepb s s' && chainb s' rest
  end.

Lemma chainb_sound : forall chain s, chainb s chain = true -> decorated s (last chain s).
Proof.
  induction chain as [|s' rest IH]; intros s H; [apply dec_same|].
  cbn [chainb] in H. apply andb_true_iff in H as [A B].
  assert (L : last (s' :: rest) s = last rest s').
  { clear. destruct rest as [|x r]; [reflexivity|]. change (last (s' :: x :: r) s) with (last (x :: r) s).
    revert x. induction r as [|y r IHr]; intros x; [reflexivity|]. exact (IHr y). }
  rewrite L. specialize (IH s' B). unfold stepb in A.
  apply orb_true_iff in A as [A|A]; [apply orb_true_iff in A as [A|A]|].
  - apply (dec_areas s s'); [apply areasb_sound; exact A|exact IH].
  - apply (dec_add s s'); [apply insertedb_sound; exact A|exact IH].
  - apply (dec_drop s s'); [apply insertedb_sound; exact A|exact IH].
Qed.

Lemma text_chain_sound : forall (a b : str) chain,
  chainb (lines_of_text a) chain = true -> last chain (lines_of_text a) = lines_of_text b -> text_decorated a b.
Proof. intros a b chain H E. unfold text_decorated. rewrite <- E. apply chainb_sound. exact H. Qed.
